/-
List-level theorems about the success / codespace / logical-effect tests of
`Model/Code.lean` for a valid stabilizer code (`ValidCodeL` of `Proofs/ValidCode.lean`):
C04 (success ⇔ residual error is a product of generators; the logical effect is linear,
constant on stabilizer cosets, and its bits are pairings with the listed logicals),
the rank bound of C01 and the distance criteria of C17.

The linear algebra is done over `ZMod 2` through the bridge of `Proofs/Symplectic.lean`.
-/
import Mathlib.Data.Finset.Card
import PanqecVerif.Proofs.Symplectic

namespace Panqec

open Symp Module

theorem getD_eq_getElem' {α} (l : List α) (d : α) {i : ℕ} (h : i < l.length) :
    l.getD i d = l[i] := by
  simp [List.getD_eq_getElem?_getD, h]

/-! ### 1. codespace test -/

/-- `in_codespace(e)` is "e commutes with every generator" (any matrix, any vector). -/
theorem inCodespace_iff (H : List (List Nat)) (e : List Nat) :
    inCodespace H e = true ↔ ∀ g ∈ H, symp g e = 0 := by
  unfold inCodespace measureSyndrome bsProdRows
  simp [bsProdSparse_eq_symp]

/-! ### 2. logical effect -/

theorem logicalErrors_eq (dt : DType) (Lx Lz : List (List Nat)) (e : List Nat) :
    logicalErrors dt Lx Lz e = Lz.map (fun l => symp l e) ++ Lx.map (fun l => symp l e) := by
  unfold logicalErrors bsProdRows
  simp [bsProdDense_eq_symp]

theorem logicalErrors_length (dt : DType) (Lx Lz : List (List Nat)) (e : List Nat) :
    (logicalErrors dt Lx Lz e).length = Lz.length + Lx.length := by
  simp [logicalErrors_eq]

/-- Meaning of the bits of the logical effect: entry `i < |Lz|` is the pairing of `e`
    with the i-th logical Z (set iff `e` acts X-type on logical qubit i), entry
    `|Lz| + i` is the pairing with the i-th logical X (Z-type action). -/
theorem logicalErrors_spec (dt : DType) (Lx Lz : List (List Nat)) (e : List Nat) :
    (∀ i (h : i < Lz.length), (logicalErrors dt Lx Lz e)[i]? = some (symp Lz[i] e)) ∧
    (∀ i (h : i < Lx.length),
      (logicalErrors dt Lx Lz e)[Lz.length + i]? = some (symp Lx[i] e)) := by
  rw [logicalErrors_eq]
  constructor
  · intro i h
    rw [List.getElem?_append_left (by simpa using h)]
    simp [h]
  · intro i h
    rw [List.getElem?_append_right (by simp)]
    simp [h]

theorem vxor_append (a b c d : List Nat) (h : a.length = c.length) :
    vxor (a ++ b) (c ++ d) = vxor a c ++ vxor b d := by
  induction a generalizing c with
  | nil =>
    have : c = [] := by cases c with | nil => rfl | cons _ _ => simp at h
    subst this; simp [vxor]
  | cons x a ih =>
    cases c with
    | nil => simp at h
    | cons y c =>
      simp at h
      have := ih c h
      simp only [vxor, List.cons_append, vadd_cons, List.map_cons] at this ⊢
      rw [this]

theorem vxor_map_symp (L : List (List Nat)) (e f : List Nat) (h : e.length = f.length) :
    L.map (fun l => symp l (vxor e f)) =
      vxor (L.map (fun l => symp l e)) (L.map (fun l => symp l f)) := by
  induction L with
  | nil => simp [vxor]
  | cons r L ih =>
    simp only [List.map_cons, vxor, vadd_cons] at ih ⊢
    rw [ih]
    have := symp_vxor_right r e f h
    simp only [vxor] at this
    rw [this]

/-- the logical effect is GF(2)-linear in the error -/
theorem logicalErrors_linear (dt : DType) (Lx Lz : List (List Nat)) (e f : List Nat)
    (h : e.length = f.length) :
    logicalErrors dt Lx Lz (vxor e f) =
      vxor (logicalErrors dt Lx Lz e) (logicalErrors dt Lx Lz f) := by
  simp only [logicalErrors_eq]
  rw [vxor_append _ _ _ _ (by simp), vxor_map_symp Lz e f h, vxor_map_symp Lx e f h]

theorem isLogicalError_eq_false_iff (dt : DType) (Lx Lz : List (List Nat)) (e : List Nat) :
    isLogicalError dt Lx Lz e = false ↔ (∀ l ∈ Lz, symp l e = 0) ∧ (∀ l ∈ Lx, symp l e = 0) := by
  unfold isLogicalError
  rw [logicalErrors_eq]
  simp

/-! ### orthogonality to a row space -/

theorem sympForm_right_zero_of_mem_rowSpan {n : ℕ} {rows : List (List Nat)} (x : PVec n)
    (h : ∀ r ∈ rows, sympForm n x (toVec n r) = 0) {y : PVec n} (hy : y ∈ rowSpan n rows) :
    sympForm n x y = 0 := by
  have hle : rowSpan n rows ≤ LinearMap.ker (sympForm n x) := by
    apply Submodule.span_le.mpr
    rintro _ ⟨i, rfl⟩
    exact h _ (List.getElem_mem i.2)
  exact hle hy

theorem sympForm_left_zero_of_mem_rowSpan {n : ℕ} {rows : List (List Nat)} (x : PVec n)
    (h : ∀ r ∈ rows, sympForm n (toVec n r) x = 0) {y : PVec n} (hy : y ∈ rowSpan n rows) :
    sympForm n y x = 0 := by
  have hrefl := (sympForm_isAlt n).isRefl
  exact hrefl _ _ (sympForm_right_zero_of_mem_rowSpan x (fun r hr => hrefl _ _ (h r hr)) hy)

/-- a vector that commutes with every row commutes with every combination of rows -/
theorem symp_inSpan_zero {n : ℕ} {rows : List (List Nat)} {l s : List Nat}
    (hrows : ∀ r ∈ rows, r.length = 2 * n) (hl : l.length = 2 * n)
    (hcomm : ∀ g ∈ rows, symp l g = 0) (hs : InSpan (2 * n) rows s) : symp l s = 0 := by
  have hslen : s.length = 2 * n := by
    obtain ⟨sel, _, rfl⟩ := hs
    exact xorCombo_length_alg _ _ _ hrows
  rw [symp_eq_zero_iff hl hslen]
  apply sympForm_right_zero_of_mem_rowSpan _ _ (mem_rowSpan_of_inSpan hrows hs)
  intro r hr
  exact (symp_eq_zero_iff hl (hrows r hr)).mp (hcomm r hr)

theorem inSpan_length {m : ℕ} {rows : List (List Nat)} {s : List Nat}
    (hrows : ∀ r ∈ rows, r.length = m) (hs : InSpan m rows s) : s.length = m := by
  obtain ⟨sel, _, rfl⟩ := hs
  exact xorCombo_length_alg _ _ _ hrows

theorem inSpan_binary {m : ℕ} {rows : List (List Nat)} {s : List Nat}
    (hs : InSpan m rows s) : ∀ x ∈ s, x < 2 := by
  obtain ⟨sel, _, rfl⟩ := hs
  exact xorCombo_binary _ _ _

/-! ### the commutation + pairing clauses (everything of `ValidCodeL` except the rank) -/

/-- `ValidCodeL` without the rank clause (and without `k ≤ n`, which follows). -/
structure CommPairL (n k : Nat) (H Lx Lz : List (List Nat)) : Prop where
  wfH : WFRows n H
  wfX : WFRows n Lx
  wfZ : WFRows n Lz
  kX : Lx.length = k
  kZ : Lz.length = k
  stab_comm : ∀ a ∈ H, ∀ b ∈ H, symp a b = 0
  logX_comm : ∀ l ∈ Lx, ∀ g ∈ H, symp l g = 0
  logZ_comm : ∀ l ∈ Lz, ∀ g ∈ H, symp l g = 0
  pairing : ∀ i j, i < k → j < k →
    symp (Lx.getD i []) (Lz.getD j []) = if i = j then 1 else 0
  logXX : ∀ a ∈ Lx, ∀ b ∈ Lx, symp a b = 0
  logZZ : ∀ a ∈ Lz, ∀ b ∈ Lz, symp a b = 0

theorem ValidCodeL.toCommPair {n k : Nat} {H Lx Lz : List (List Nat)}
    (hv : ValidCodeL n k H Lx Lz) : CommPairL n k H Lx Lz :=
  ⟨hv.wfH, hv.wfX, hv.wfZ, hv.kX, hv.kZ, hv.stab_comm, hv.logX_comm, hv.logZ_comm,
    hv.pairing, hv.logXX, hv.logZZ⟩

namespace CommPairL

variable {n k : Nat} {H Lx Lz : List (List Nat)}

theorem lenH (hc : CommPairL n k H Lx Lz) : ∀ r ∈ H, r.length = 2 * n := fun r hr => (hc.wfH r hr).1
theorem lenX (hc : CommPairL n k H Lx Lz) : ∀ r ∈ Lx, r.length = 2 * n := fun r hr => (hc.wfX r hr).1
theorem lenZ (hc : CommPairL n k H Lx Lz) : ∀ r ∈ Lz, r.length = 2 * n := fun r hr => (hc.wfZ r hr).1

theorem getX_mem (hc : CommPairL n k H Lx Lz) (i : Fin k) : Lx.getD i [] ∈ Lx := by
  have h : (i : ℕ) < Lx.length := by rw [hc.kX]; exact i.2
  rw [getD_eq_getElem' _ _ h]; exact List.getElem_mem h

theorem getZ_mem (hc : CommPairL n k H Lx Lz) (i : Fin k) : Lz.getD i [] ∈ Lz := by
  have h : (i : ℕ) < Lz.length := by rw [hc.kZ]; exact i.2
  rw [getD_eq_getElem' _ _ h]; exact List.getElem_mem h

/-- every element of a list of length `k` is some `getD i` with `i : Fin k` -/
theorem exists_getD {L : List (List Nat)} (hk : L.length = k) {l : List Nat} (hl : l ∈ L) :
    ∃ i : Fin k, L.getD i [] = l := by
  obtain ⟨i, hi, rfl⟩ := List.getElem_of_mem hl
  exact ⟨⟨i, hk ▸ hi⟩, getD_eq_getElem' _ _ hi⟩

/-- the abstract stabilizer data of a list-level code -/
noncomputable def stabData (hc : CommPairL n k H Lx Lz) : StabData (sympForm n) k where
  S := rowSpan n H
  lx i := toVec n (Lx.getD i [])
  lz i := toVec n (Lz.getD i [])
  iso := by
    intro x hx
    rw [LinearMap.BilinForm.mem_orthogonal_iff]
    intro y hy
    apply sympForm_right_zero_of_mem_rowSpan y _ hx
    intro r hr
    apply sympForm_left_zero_of_mem_rowSpan _ _ hy
    intro r' hr'
    exact (symp_eq_zero_iff (hc.lenH r' hr') (hc.lenH r hr)).mp (hc.stab_comm r' hr' r hr)
  lxS i := by
    rw [LinearMap.BilinForm.mem_orthogonal_iff]
    intro y hy
    apply sympForm_left_zero_of_mem_rowSpan _ _ hy
    intro r hr
    have hm := hc.getX_mem i
    have := hc.logX_comm _ hm r hr
    rw [symp_comm] at this
    exact (symp_eq_zero_iff (hc.lenH r hr) (hc.lenX _ hm)).mp this
  lzS i := by
    rw [LinearMap.BilinForm.mem_orthogonal_iff]
    intro y hy
    apply sympForm_left_zero_of_mem_rowSpan _ _ hy
    intro r hr
    have hm := hc.getZ_mem i
    have := hc.logZ_comm _ hm r hr
    rw [symp_comm] at this
    exact (symp_eq_zero_iff (hc.lenH r hr) (hc.lenZ _ hm)).mp this
  xx i j := (symp_eq_zero_iff (hc.lenX _ (hc.getX_mem i)) (hc.lenX _ (hc.getX_mem j))).mp
    (hc.logXX _ (hc.getX_mem i) _ (hc.getX_mem j))
  zz i j := (symp_eq_zero_iff (hc.lenZ _ (hc.getZ_mem i)) (hc.lenZ _ (hc.getZ_mem j))).mp
    (hc.logZZ _ (hc.getZ_mem i) _ (hc.getZ_mem j))
  xz i j := by
    have hp := hc.pairing i j i.2 j.2
    have hX := hc.lenX _ (hc.getX_mem i)
    have hZ := hc.lenZ _ (hc.getZ_mem j)
    by_cases hij : i = j
    · have : (i : ℕ) = j := by rw [hij]
      rw [if_pos this] at hp
      rw [if_pos hij]
      exact (symp_eq_one_iff hX hZ).mp hp
    · have : ¬ (i : ℕ) = j := fun h => hij (Fin.ext h)
      rw [if_neg this] at hp
      rw [if_neg hij]
      exact (symp_eq_zero_iff hX hZ).mp hp

/-- dimension count: `dim span(H) ≤ n - k` from commutation and pairing alone -/
theorem finrank_rowSpan_le (hc : CommPairL n k H Lx Lz) :
    finrank (ZMod 2) (rowSpan n H) ≤ n - k := by
  have h := two_finrank_add_le (sympForm_nondegenerate n) (sympForm_isAlt n) hc.stabData
  rw [finrank_PVec] at h
  have : finrank (ZMod 2) hc.stabData.S = finrank (ZMod 2) (rowSpan n H) := rfl
  omega

/-- `k ≤ n` follows from the pairing table -/
theorem k_le (hc : CommPairL n k H Lx Lz) : k ≤ n := by
  have h := two_finrank_add_le (sympForm_nondegenerate n) (sympForm_isAlt n) hc.stabData
  rw [finrank_PVec] at h
  omega

/-- the commutation + pairing clauses together with the rank clause are `ValidCodeL`
    (`k ≤ n` is automatic) -/
theorem toValid (hc : CommPairL n k H Lx Lz) (hr : HasRank (2 * n) H (n - k)) :
    ValidCodeL n k H Lx Lz :=
  ⟨hc.wfH, hc.wfX, hc.wfZ, hc.kX, hc.kZ, hc.stab_comm, hc.logX_comm, hc.logZ_comm,
    hc.pairing, hc.logXX, hc.logZZ, hr, hc.k_le⟩

end CommPairL

/-! ### 4. rank bound -/

/-- Rank bound from the commutation and pairing clauses alone (no rank clause):
    any independent sub-list of the generators has at most `n - k` rows.  A wrong `k`
    or dependent logicals therefore cannot hide behind the rank clause of `ValidCodeL`. -/
theorem rank_le_of_commute_pairing {n k : Nat} {H Lx Lz : List (List Nat)}
    (hc : CommPairL n k H Lx Lz) (basis : List (List Nat)) (hsub : basis.Sublist H)
    (hind : Indep (2 * n) basis) : basis.length ≤ n - k :=
  Nat.le_trans (length_le_finrank_of_indep hc.lenH hsub hind) hc.finrank_rowSpan_le

/-- in particular the rank `r` of `HasRank` can be at most `n - k` -/
theorem hasRank_le_of_commute_pairing {n k r : Nat} {H Lx Lz : List (List Nat)}
    (hc : CommPairL n k H Lx Lz) (hr : HasRank (2 * n) H r) : r ≤ n - k := by
  obtain ⟨basis, hsub, hlen, hind, _⟩ := hr
  rw [← hlen]
  exact rank_le_of_commute_pairing hc basis hsub hind

/-! ### 2 (cont.) cosets -/

/-- the logical effect is constant on cosets of the stabilizer group -/
theorem logicalErrors_coset {n k : Nat} {H Lx Lz : List (List Nat)}
    (hv : ValidCodeL n k H Lx Lz) (dt : DType) (e s : List Nat) (he_len : e.length = 2 * n)
    (hs : InSpan (2 * n) H s) :
    logicalErrors dt Lx Lz (vxor e s) = logicalErrors dt Lx Lz e := by
  have hc := hv.toCommPair
  have hslen : s.length = 2 * n := inSpan_length hc.lenH hs
  have key : ∀ L : List (List Nat), (∀ l ∈ L, l.length = 2 * n) →
      (∀ l ∈ L, ∀ g ∈ H, symp l g = 0) →
      L.map (fun l => symp l (vxor e s)) = L.map (fun l => symp l e) := by
    intro L hlen hcomm
    apply List.map_congr_left
    intro l hl
    rw [symp_vxor_right l e s (by rw [he_len, hslen]),
      symp_inSpan_zero hc.lenH (hlen l hl) (hcomm l hl) hs]
    have := symp_lt_two l e
    omega
  rw [logicalErrors_eq, logicalErrors_eq, key Lz hc.lenZ hv.logZ_comm, key Lx hc.lenX hv.logX_comm]

/-! ### 3. main theorem -/

/-- C04 main theorem: for a valid code and a binary vector of the right length,
    `is_success` holds exactly for the products of generators. -/
theorem isSuccess_iff_inSpan {n k : Nat} {H Lx Lz : List (List Nat)}
    (hv : ValidCodeL n k H Lx Lz) (dt : DType) (e : List Nat) (he_len : e.length = 2 * n)
    (he_bin : ∀ x ∈ e, x < 2) :
    isSuccess dt H Lx Lz e = true ↔ InSpan (2 * n) H e := by
  have hc := hv.toCommPair
  have hrank : finrank (ZMod 2) (rowSpan n H) = n - k := finrank_rowSpan_of_hasRank hc.lenH hv.rank
  have hdim : finrank (ZMod 2) (PVec n) = 2 * finrank (ZMod 2) hc.stabData.S + 2 * k := by
    have : finrank (ZMod 2) hc.stabData.S = finrank (ZMod 2) (rowSpan n H) := rfl
    rw [finrank_PVec, this, hrank]
    have := hv.k_le
    omega
  have hmem := mem_stabilizer_iff (sympForm_nondegenerate n) (sympForm_isAlt n) hc.stabData hdim
    (toVec n e)
  rw [inSpan_iff_mem_rowSpan hc.lenH he_len he_bin]
  have hS : hc.stabData.S = rowSpan n H := rfl
  rw [hS] at hmem
  rw [hmem]
  unfold isSuccess
  rw [Bool.and_eq_true, Bool.not_eq_true', inCodespace_iff, isLogicalError_eq_false_iff]
  constructor
  · rintro ⟨hcs, hz, hx⟩
    refine ⟨?_, ?_, ?_⟩
    · rw [LinearMap.BilinForm.mem_orthogonal_iff]
      intro y hy
      apply sympForm_left_zero_of_mem_rowSpan _ _ hy
      intro r hr
      exact (symp_eq_zero_iff (hc.lenH r hr) he_len).mp (hcs r hr)
    · intro i
      exact (symp_eq_zero_iff (hc.lenX _ (hc.getX_mem i)) he_len).mp (hx _ (hc.getX_mem i))
    · intro i
      exact (symp_eq_zero_iff (hc.lenZ _ (hc.getZ_mem i)) he_len).mp (hz _ (hc.getZ_mem i))
  · rintro ⟨ho, hx, hz⟩
    refine ⟨?_, ?_, ?_⟩
    · intro g hg
      rw [symp_eq_zero_iff (hc.lenH g hg) he_len]
      exact (LinearMap.BilinForm.mem_orthogonal_iff.mp ho) _ (toVec_mem_rowSpan n H g hg)
    · intro l hl
      obtain ⟨i, rfl⟩ := CommPairL.exists_getD hc.kZ hl
      rw [symp_eq_zero_iff (hc.lenZ _ hl) he_len]
      exact hz i
    · intro l hl
      obtain ⟨i, rfl⟩ := CommPairL.exists_getD hc.kX hl
      rw [symp_eq_zero_iff (hc.lenX _ hl) he_len]
      exact hx i

/-! ### 5. distance -/

/-- every listed logical X of a valid code is a non-trivial logical operator -/
theorem listedX_nontrivial {n k : Nat} {H Lx Lz : List (List Nat)}
    (hv : ValidCodeL n k H Lx Lz) {l : List Nat} (hl : l ∈ Lx) : IsNontrivialLogical n H l := by
  have hc := hv.toCommPair
  refine ⟨(hv.wfX l hl).1, (hv.wfX l hl).2, ?_, ?_⟩
  · intro g hg; rw [symp_comm]; exact hv.logX_comm l hl g hg
  · intro hspan
    have hs := (isSuccess_iff_inSpan hv .wide l (hv.wfX l hl).1 (hv.wfX l hl).2).mpr hspan
    unfold isSuccess at hs
    rw [Bool.and_eq_true, Bool.not_eq_true', isLogicalError_eq_false_iff] at hs
    obtain ⟨i, rfl⟩ := CommPairL.exists_getD hc.kX hl
    have h0 := hs.2.1 _ (hc.getZ_mem i)
    have h1 := hv.pairing i i i.2 i.2
    rw [symp_comm] at h0
    rw [if_pos rfl] at h1
    omega

/-- every listed logical Z of a valid code is a non-trivial logical operator -/
theorem listedZ_nontrivial {n k : Nat} {H Lx Lz : List (List Nat)}
    (hv : ValidCodeL n k H Lx Lz) {l : List Nat} (hl : l ∈ Lz) : IsNontrivialLogical n H l := by
  have hc := hv.toCommPair
  refine ⟨(hv.wfZ l hl).1, (hv.wfZ l hl).2, ?_, ?_⟩
  · intro g hg; rw [symp_comm]; exact hv.logZ_comm l hl g hg
  · intro hspan
    have hs := (isSuccess_iff_inSpan hv .wide l (hv.wfZ l hl).1 (hv.wfZ l hl).2).mpr hspan
    unfold isSuccess at hs
    rw [Bool.and_eq_true, Bool.not_eq_true', isLogicalError_eq_false_iff] at hs
    obtain ⟨i, rfl⟩ := CommPairL.exists_getD hc.kZ hl
    have h0 := hs.2.2 _ (hc.getX_mem i)
    have h1 := hv.pairing i i i.2 i.2
    rw [if_pos rfl] at h1
    omega

/-- C17 generic criterion: if some listed logical has weight `d` and no non-trivial
    logical is lighter, then `d` is the distance. -/
theorem distance_criterion {n k : Nat} {H Lx Lz : List (List Nat)}
    (hv : ValidCodeL n k H Lx Lz) (d : Nat)
    (hex : ∃ l ∈ Lx ++ Lz, pauliWeight l = d)
    (hlow : ∀ v, IsNontrivialLogical n H v → d ≤ pauliWeight v) : IsDistance n H d := by
  refine ⟨?_, hlow⟩
  obtain ⟨l, hl, hw⟩ := hex
  rcases List.mem_append.mp hl with h | h
  · exact ⟨l, listedX_nontrivial hv h, hw⟩
  · exact ⟨l, listedZ_nontrivial hv h, hw⟩

/-- a non-trivial logical anticommutes with at least one listed logical -/
theorem nontrivial_anticommutes_listed {n k : Nat} {H Lx Lz : List (List Nat)}
    (hv : ValidCodeL n k H Lx Lz) {v : List Nat} (hnt : IsNontrivialLogical n H v) :
    ∃ l ∈ Lx ++ Lz, symp l v = 1 := by
  obtain ⟨hlen, hbin, hcomm, hns⟩ := hnt
  have hs : isSuccess .wide H Lx Lz v ≠ true :=
    fun h => hns ((isSuccess_iff_inSpan hv .wide v hlen hbin).mp h)
  unfold isSuccess at hs
  rw [ne_eq, Bool.and_eq_true, Bool.not_eq_true', inCodespace_iff,
    isLogicalError_eq_false_iff] at hs
  have h2 : ¬ ((∀ l ∈ Lz, symp l v = 0) ∧ (∀ l ∈ Lx, symp l v = 0)) := fun h => hs ⟨hcomm, h⟩
  by_contra hcon
  apply h2
  have key : ∀ l ∈ Lx ++ Lz, symp l v = 0 := by
    intro l hl
    have := symp_lt_two l v
    have h1 : symp l v ≠ 1 := fun h => hcon ⟨l, hl, h⟩
    omega
  exact ⟨fun l hl => key l (List.mem_append.mpr (Or.inr hl)),
    fun l hl => key l (List.mem_append.mpr (Or.inl hl))⟩

/-- qubit `q` is in the Pauli support of `v` -/
def hasSupp (v : List Nat) (q : Nat) : Prop :=
  (xPart v).getD q 0 ≠ 0 ∨ (zPart v).getD q 0 ≠ 0

/-- the Pauli supports of `a` and `b` are disjoint -/
def SuppDisjoint (a b : List Nat) : Prop := ∀ q, ¬ (hasSupp a q ∧ hasSupp b q)

theorem dot_ne_zero : ∀ xs zs : List Nat, dot xs zs ≠ 0 →
    ∃ i, xs.getD i 0 ≠ 0 ∧ zs.getD i 0 ≠ 0
  | [], zs, h => by simp [dot_nil_left] at h
  | x :: xs, [], h => by simp [dot_nil_right] at h
  | x :: xs, z :: zs, h => by
    rw [dot_cons] at h
    by_cases hxz : x * z = 0
    · have : dot xs zs ≠ 0 := by omega
      obtain ⟨i, h1, h2⟩ := dot_ne_zero xs zs this
      exact ⟨i + 1, by simpa using h1, by simpa using h2⟩
    · refine ⟨0, ?_, ?_⟩
      · simp; intro h0; exact hxz (by rw [h0]; simp)
      · simp; intro h0; exact hxz (by rw [h0]; simp)

/-- two anticommuting operators share a qubit -/
theorem supp_meet_of_symp_one {a b : List Nat} (h : symp a b = 1) :
    ∃ q, hasSupp a q ∧ hasSupp b q := by
  unfold symp at h
  by_cases h1 : dot (xPart a) (zPart b) = 0
  · have h2 : dot (zPart a) (xPart b) ≠ 0 := by omega
    obtain ⟨q, ha, hb⟩ := dot_ne_zero _ _ h2
    exact ⟨q, Or.inr ha, Or.inl hb⟩
  · obtain ⟨q, ha, hb⟩ := dot_ne_zero _ _ h1
    exact ⟨q, Or.inl ha, Or.inr hb⟩

/-- counting: a set of positions at which a Boolean list is `true` is no larger than
    the number of `true` entries -/
theorem card_le_countP (l : List Bool) : ∀ T : Finset ℕ, (∀ i ∈ T, l.getD i false = true) →
    T.card ≤ l.countP id := by
  induction l using list_rev_induction with
  | hnil =>
    intro T hT
    have : T = ∅ := by
      apply Finset.eq_empty_of_forall_notMem
      intro i hi; simpa using hT i hi
    simp [this]
  | hsnoc l a ih =>
    intro T hT
    have hsub : ∀ i ∈ T.erase l.length, l.getD i false = true := by
      intro i hi
      have hne := Finset.ne_of_mem_erase hi
      have hi' := hT i (Finset.mem_of_mem_erase hi)
      rw [List.getD_eq_getElem?_getD] at hi' ⊢
      by_cases hlt : i < l.length
      · rwa [List.getElem?_append_left hlt] at hi'
      · rw [List.getElem?_eq_none (by simp; omega)] at hi'
        simp at hi'
    have h1 := ih _ hsub
    rw [List.countP_append]
    by_cases hmem : l.length ∈ T
    · have ha : a = true := by
        have := hT _ hmem
        simpa [List.getD_eq_getElem?_getD] using this
      have := Finset.card_erase_of_mem hmem
      have hpos : 0 < T.card := Finset.card_pos.mpr ⟨_, hmem⟩
      simp [ha]; omega
    · rw [Finset.erase_eq_of_notMem hmem] at h1
      omega

theorem getD_zipWith_supp (xs zs : List Nat) (h : xs.length = zs.length) (q : ℕ)
    (hq : xs.getD q 0 ≠ 0 ∨ zs.getD q 0 ≠ 0) :
    (List.zipWith (fun x z => x != 0 || z != 0) xs zs).getD q false = true := by
  have hlt : q < xs.length := by
    by_contra hge
    have h1 : xs.getD q 0 = 0 := by
      rw [List.getD_eq_getElem?_getD, List.getElem?_eq_none (by omega)]; rfl
    have h2 : zs.getD q 0 = 0 := by
      rw [List.getD_eq_getElem?_getD, List.getElem?_eq_none (by omega)]; rfl
    rcases hq with hq | hq
    · exact hq h1
    · exact hq h2
  have hlt' : q < zs.length := by omega
  simp only [List.getD_eq_getElem?_getD, List.getElem?_eq_getElem hlt,
    List.getElem?_eq_getElem hlt', Option.getD_some] at hq
  simp only [List.getD_eq_getElem?_getD, List.getElem?_zipWith, List.getElem?_eq_getElem hlt,
    List.getElem?_eq_getElem hlt']
  simpa using hq

/-- the weight of `v` is at least the size of any set of qubits in its support -/
theorem card_le_pauliWeight {n : ℕ} {v : List Nat} (hv : v.length = 2 * n) (T : Finset ℕ)
    (hT : ∀ q ∈ T, hasSupp v q) : T.card ≤ pauliWeight v := by
  unfold pauliWeight rowWeight
  apply card_le_countP
  intro q hq
  exact getD_zipWith_supp _ _ (by rw [xPart_len hv, zPart_len hv]) q (hT q hq)

/-- pigeonhole over pairwise disjoint supports -/
theorem exists_supp_transversal (v : List Nat) : ∀ reps : List (List Nat),
    reps.Pairwise SuppDisjoint → (∀ r ∈ reps, ∃ q, hasSupp r q ∧ hasSupp v q) →
    ∃ T : Finset ℕ, T.card = reps.length ∧ ∀ q ∈ T, hasSupp v q ∧ ∃ r ∈ reps, hasSupp r q
  | [], _, _ => ⟨∅, by simp⟩
  | r :: rs, hp, hm => by
    rw [List.pairwise_cons] at hp
    obtain ⟨T, hcard, hT⟩ := exists_supp_transversal v rs hp.2
      (fun r' hr' => hm r' (by simp [hr']))
    obtain ⟨q, hrq, hvq⟩ := hm r (by simp)
    have hnot : q ∉ T := by
      intro hq
      obtain ⟨_, r', hr', hr'q⟩ := hT q hq
      exact hp.1 r' hr' q ⟨hrq, hr'q⟩
    refine ⟨insert q T, by rw [Finset.card_insert_of_notMem hnot, hcard]; simp, ?_⟩
    intro q' hq'
    rcases Finset.mem_insert.mp hq' with rfl | hq'
    · exact ⟨hvq, r, by simp, hrq⟩
    · obtain ⟨h1, r', hr', h2⟩ := hT q' hq'
      exact ⟨h1, r', by simp [hr'], h2⟩

/-- C17 packing bound: if every listed logical `l` has `m` representatives modulo the
    stabilizer group (`l ⊕ r` is a product of generators) with pairwise disjoint Pauli
    supports, then every non-trivial logical operator has weight at least `m`. -/
theorem packing_lower_bound {n k : Nat} {H Lx Lz : List (List Nat)}
    (hv : ValidCodeL n k H Lx Lz) (m : Nat)
    (hreps : ∀ l ∈ Lx ++ Lz, ∃ reps : List (List Nat), reps.length = m ∧
      (∀ r ∈ reps, r.length = 2 * n ∧ InSpan (2 * n) H (vxor l r)) ∧
      reps.Pairwise SuppDisjoint) :
    ∀ v, IsNontrivialLogical n H v → m ≤ pauliWeight v := by
  intro v hnt
  have hc := hv.toCommPair
  obtain ⟨l, hl, hlv⟩ := nontrivial_anticommutes_listed hv hnt
  obtain ⟨hlen, hbin, hcomm, hns⟩ := hnt
  have hllen : l.length = 2 * n := by
    rcases List.mem_append.mp hl with h | h
    · exact hc.lenX l h
    · exact hc.lenZ l h
  obtain ⟨reps, hm, hr, hpw⟩ := hreps l hl
  have hmeet : ∀ r ∈ reps, ∃ q, hasSupp r q ∧ hasSupp v q := by
    intro r hrr
    obtain ⟨hrlen, hrs⟩ := hr r hrr
    apply supp_meet_of_symp_one
    have h0 : symp v (vxor l r) = 0 :=
      symp_inSpan_zero hc.lenH hlen (fun g hg => by rw [symp_comm]; exact hcomm g hg) hrs
    rw [symp_comm, symp_vxor_left l r v (by rw [hllen, hrlen]), hlv] at h0
    have := symp_lt_two r v
    omega
  obtain ⟨T, hcard, hT⟩ := exists_supp_transversal v reps hpw hmeet
  rw [← hm, ← hcard]
  exact card_le_pauliWeight hlen T (fun q hq => (hT q hq).1)

/-! ### helpers for instantiating the hypotheses on concrete codes -/

instance (n : Nat) (rows : List (List Nat)) : Decidable (WFRows n rows) := by
  unfold WFRows; infer_instance

/-- independent well-formed rows have rank equal to their number -/
theorem hasRank_of_indep {n : ℕ} {rows : List (List Nat)} (hwf : WFRows n rows)
    (hind : Indep (2 * n) rows) : HasRank (2 * n) rows rows.length := by
  refine ⟨rows, List.Sublist.refl _, rfl, hind, ?_⟩
  intro v hv
  exact (inSpan_iff_mem_rowSpan (fun r hr => (hwf r hr).1) (hwf v hv).1 (hwf v hv).2).mpr
    (toVec_mem_rowSpan n rows v hv)

/-- the support mask `rowWeight` counts -/
def suppMask (v : List Nat) : List Bool :=
  List.zipWith (fun x z => x != 0 || z != 0) (xPart v) (zPart v)

/-- executable disjointness test of two Pauli supports -/
def suppDisjointB (a b : List Nat) : Bool :=
  (List.zipWith (fun p q => p && q) (suppMask a) (suppMask b)).all (fun t => !t)

theorem suppDisjoint_of_check {n : ℕ} {a b : List Nat} (ha : a.length = 2 * n)
    (hb : b.length = 2 * n) (h : suppDisjointB a b = true) : SuppDisjoint a b := by
  intro q ⟨hqa, hqb⟩
  have h1 : (suppMask a).getD q false = true :=
    getD_zipWith_supp _ _ (by rw [xPart_len ha, zPart_len ha]) q hqa
  have h2 : (suppMask b).getD q false = true :=
    getD_zipWith_supp _ _ (by rw [xPart_len hb, zPart_len hb]) q hqb
  have l1 : q < (suppMask a).length := by
    by_contra hge
    rw [List.getD_eq_getElem?_getD, List.getElem?_eq_none (by omega)] at h1
    simp at h1
  have l2 : q < (suppMask b).length := by
    by_contra hge
    rw [List.getD_eq_getElem?_getD, List.getElem?_eq_none (by omega)] at h2
    simp at h2
  simp only [List.getD_eq_getElem?_getD, List.getElem?_eq_getElem l1, Option.getD_some] at h1
  simp only [List.getD_eq_getElem?_getD, List.getElem?_eq_getElem l2, Option.getD_some] at h2
  unfold suppDisjointB at h
  rw [List.all_eq_true] at h
  have hlt : q < (List.zipWith (fun p q => p && q) (suppMask a) (suppMask b)).length := by
    simp; omega
  have := h _ (List.getElem_mem hlt)
  rw [List.getElem_zipWith, h1, h2] at this
  simp at this

end Panqec
