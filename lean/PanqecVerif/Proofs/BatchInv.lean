/-
C12 helper lemmas, part 2: every event preserves the invariant `Inv`, and the file only grows
(`FileLE`).
-/
import PanqecVerif.Proofs.Batch

namespace Panqec.Batch

theorem FileLE.refl {f : FileSt} (_h : ∀ r ∈ fileDoc f, r.WF) : FileLE f f := by
  intro r hr
  exact ⟨r, hr, rfl, List.prefix_rfl, List.prefix_rfl, List.prefix_rfl⟩

theorem FileLE.rfl' (f : FileSt) : FileLE f f := by
  intro r hr
  exact ⟨r, hr, rfl, List.prefix_rfl, List.prefix_rfl, List.prefix_rfl⟩

theorem FileLE.trans {f g h : FileSt} (a : FileLE f g) (b : FileLE g h) : FileLE f h := by
  intro r hr
  obtain ⟨r1, h1, i1, p1, q1, s1⟩ := a r hr
  obtain ⟨r2, h2, i2, p2, q2, s2⟩ := b r1 h1
  exact ⟨r2, h2, i2.trans i1, p1.trans p2, q1.trans q2, s1.trans s2⟩

/-- renaming the complete temporary file onto the results file -/
theorem fileLE_rename {f : FileSt} {mem : Doc} {next : Nat}
    (hdoc : IdsOK (fileDoc f) next) (hmem : IdsOK mem next)
    (pre : ∀ r ∈ fileDoc f, ∃ s ∈ mem, s.inputs = r.inputs ∧ r.ee <+: s.ee) :
    FileLE f (.complete mem) := by
  intro r hr
  obtain ⟨s, hs, hi, hp⟩ := pre r hr
  obtain ⟨⟨a1, a2, _⟩, _, _⟩ := hdoc.each r hr
  obtain ⟨⟨b1, b2, _⟩, _, _⟩ := hmem.each s hs
  refine ⟨s, hs, hi, hp, ?_, ?_⟩
  · rw [a1, b1]; exact hp
  · rw [a2, b2]; exact hp

theorem atRename_afterIter (n i : Nat) : (afterIter n i).atRename = false := by
  unfold afterIter; split <;> rfl

theorem atRename_afterSave (n i more : Nat) (retry : Bool) : (afterSave n i more retry).atRename = false := by
  unfold afterSave
  split
  · rfl
  · split
    · rfl
    · exact atRename_afterIter n i

theorem savesDue_last {n sf i : Nat} (h : i < n) (h2 : ¬ i + 1 < n) : savesDue n sf i ≠ 0 := by
  have : i = n - 1 := by omega
  unfold savesDue
  simp only [this]
  split <;> simp

/-- the trial loop: one simulation visited, or the end of an iteration -/
theorem inv_step_trial {w : World} (h : Inv w) (i : Nat) (hpc : w.proc.pc = .trial i) :
    Inv (step w) ∧ (step w).disk.file = w.disk.file := by
  obtain ⟨fmt, atomic, ⟨file, tmp⟩, next, ⟨spec, n, sf, pc, front, back⟩⟩ := w
  simp only at hpc
  subst hpc
  obtain ⟨h1, h2, h3, h4, h5, h6, h7, h8, h9, h10⟩ := h
  simp only [Proc.mem, LoopOK] at *
  cases back with
  | nil =>
    simp only [step]
    have hne : ¬ (i > 0 ∧ sf = 0) := by omega
    simp only [hne, if_false, List.append_nil] at *
    refine ⟨⟨h1, h2, by simpa [Proc.mem] using h3, h4, by simpa [Proc.mem] using h5, h6,
      by simpa [Proc.mem] using h7, ?_, by simpa [Proc.mem] using h9, ?_⟩, trivial⟩
    · intro hr
      exfalso
      revert hr
      simp only
      split
      · simp [atRename_afterIter]
      · simp [Pc.atRename]
    · simp only [LoopOK]
      by_cases k : savesDue n sf i = 0
      · simp only [k, if_true]
        by_cases hi : i + 1 < n
        · simp only [afterIter, hi, if_true]
          exact ⟨trivial, by simp, h10.2.1⟩
        · exact absurd k (savesDue_last h10.1 hi)
      · simp only [k, if_false]
        exact ⟨h10.1, trivial, h10.2.1⟩
  | cons s rest =>
    by_cases hlt : s.nRuns < n
    · simp only [step, hlt, if_true]
      refine ⟨⟨h1, h2, idsOK_runOne h3, h4.mono (Nat.le_succ _), ?_, h6, pre_runOne h7, ?_, ?_, ?_⟩, trivial⟩
      · show ((front ++ [s.runOne next]) ++ rest).map _ = spec
        rw [← h5]; simp [runOne_inputs]
      · intro hr; simp [Pc.atRename] at hr
      · intro t ht
        simp only [Proc.mem, List.mem_append, List.mem_cons, List.not_mem_nil, or_false] at ht
        rcases ht with (ht | rfl) | ht
        · exact h9 t (by simp [ht])
        · simp only [Sim.runOne]; omega
        · exact h9 t (by simp [ht])
      · simp only [LoopOK]
        refine ⟨h10.1, ?_, fun t ht => h10.2.2 t (by simp [ht])⟩
        intro t ht
        simp only [List.mem_append, List.mem_cons, List.not_mem_nil, or_false] at ht
        rcases ht with ht | rfl
        · exact h10.2.1 t ht
        · have := h10.2.2 s (by simp)
          simp only [Sim.runOne]; omega
    · simp only [step, hlt, if_false]
      have e : (front ++ [s]) ++ rest = front ++ s :: rest := by simp
      refine ⟨⟨h1, h2, ?_, h4, ?_, h6, ?_, ?_, ?_, ?_⟩, trivial⟩
      · show IdsOK ((front ++ [s]) ++ rest) next
        rw [e]; exact h3
      · show ((front ++ [s]) ++ rest).map _ = spec
        rw [e]; exact h5
      · show ∀ r ∈ fileDoc file, ∃ t ∈ (front ++ [s]) ++ rest, _
        rw [e]; exact h7
      · intro hr; simp [Pc.atRename] at hr
      · show ∀ t ∈ (front ++ [s]) ++ rest, _
        rw [e]; exact h9
      · simp only [LoopOK]
        refine ⟨h10.1, ?_, fun t ht => h10.2.2 t (by simp [ht])⟩
        intro t ht
        simp only [List.mem_append, List.mem_cons, List.not_mem_nil, or_false] at ht
        rcases ht with ht | rfl
        · exact h10.2.1 t ht
        · have := h10.1; omega

theorem loopOK_afterSave {spec : List Nat} {n sf i more : Nat} {retry : Bool} {mem : List Sim}
    (hi : i < n) (hb : ∀ s ∈ mem, i + 1 ≤ s.nRuns) :
    LoopOK ⟨spec, n, sf, afterSave n i more retry, [], mem⟩ (.complete mem) := by
  unfold afterSave
  split
  · simp [LoopOK]
  · split
    · exact ⟨hi, rfl, hb⟩
    · unfold afterIter
      split
      · rename_i h3
        exact ⟨h3, by simp, hb⟩
      · refine ⟨rfl, ?_, ?_⟩
        · intro s hs
          have := hb s hs
          show n ≤ s.nRuns
          omega
        · intro _ s hs
          exact hs

/-- inside `save_results`: the `isfile` test and the micro-operations of `save_json` -/
theorem inv_step_save {w : World} (h : Inv w) (i more : Nat) (retry : Bool) (ph : SavePh)
    (hpc : w.proc.pc = .save i more retry ph) :
    Inv (step w) ∧ FileLE w.disk.file (step w).disk.file := by
  obtain ⟨fmt, atomic, ⟨file, tmp⟩, next, ⟨spec, n, sf, pc, front, back⟩⟩ := w
  simp only at hpc
  subst hpc
  obtain ⟨h1, h2, h3, h4, h5, h6, h7, h8, h9, h10⟩ := h
  simp only at h1
  subst h1
  simp only [LoopOK] at h10
  obtain ⟨hi, hf, hb⟩ := h10
  subst hf
  simp only [Proc.mem, List.nil_append] at *
  cases ph with
  | chk =>
    simp only [step]
    refine ⟨⟨rfl, h2, h3, h4, h5, h6, h7, ?_, h9, ?_⟩, FileLE.rfl' _⟩
    · intro hr; exfalso; revert hr; simp only; split <;> simp [Pc.atRename]
    · exact ⟨hi, rfl, hb⟩
  | first wr =>
    cases wr with
    | create =>
      simp only [step, writeStep, if_true]
      exact ⟨⟨rfl, h2, h3, h4, h5, h6, h7, by simp [Pc.atRename], h9, ⟨hi, rfl, hb⟩⟩, FileLE.rfl' _⟩
    | part =>
      simp only [step, writeStep, if_true]
      exact ⟨⟨rfl, h2, h3, h4, h5, h6, h7, by simp [Pc.atRename], h9, ⟨hi, rfl, hb⟩⟩, FileLE.rfl' _⟩
    | full =>
      simp only [step, writeStep, if_true, Proc.mem, List.nil_append]
      exact ⟨⟨rfl, h2, h3, h4, h5, h6, h7, by simp [Proc.mem], h9, ⟨hi, rfl, hb⟩⟩, FileLE.rfl' _⟩
    | rename =>
      have ht : tmp = .complete back := h8 rfl
      subst ht
      simp only [step, writeStep]
      refine ⟨⟨rfl, Or.inr ⟨_, rfl⟩, h3, h3, h5, h6, ?_, by simp [Pc.atRename], h9, ⟨hi, rfl, hb⟩⟩,
        fileLE_rename h4 h3 h7⟩
      intro r hr
      exact ⟨r, hr, rfl, List.prefix_rfl⟩
  | second wr =>
    cases wr with
    | create =>
      simp only [step, writeStep, if_true]
      exact ⟨⟨rfl, h2, h3, h4, h5, h6, h7, by simp [Pc.atRename], h9, ⟨hi, rfl, hb⟩⟩, FileLE.rfl' _⟩
    | part =>
      simp only [step, writeStep, if_true]
      exact ⟨⟨rfl, h2, h3, h4, h5, h6, h7, by simp [Pc.atRename], h9, ⟨hi, rfl, hb⟩⟩, FileLE.rfl' _⟩
    | full =>
      simp only [step, writeStep, if_true, Proc.mem, List.nil_append]
      exact ⟨⟨rfl, h2, h3, h4, h5, h6, h7, by simp [Proc.mem], h9, ⟨hi, rfl, hb⟩⟩, FileLE.rfl' _⟩
    | rename =>
      have ht : tmp = .complete back := h8 rfl
      subst ht
      simp only [step, writeStep]
      refine ⟨⟨rfl, Or.inr ⟨_, rfl⟩, h3, h3, h5, h6, ?_, ?_, h9, loopOK_afterSave hi hb⟩,
        fileLE_rename h4 h3 h7⟩
      · intro r hr
        exact ⟨r, hr, rfl, List.prefix_rfl⟩
      · intro hr
        simp only [atRename_afterSave] at hr
        cases hr

/-- one step of the process -/
theorem inv_step {w : World} (h : Inv w) : Inv (step w) ∧ FileLE w.disk.file (step w).disk.file := by
  cases hpc : w.proc.pc with
  | trial i =>
    obtain ⟨a, b⟩ := inv_step_trial h i hpc
    exact ⟨a, b ▸ FileLE.rfl' _⟩
  | save i more retry ph => exact inv_step_save h i more retry ph hpc
  | done => simp only [step, hpc]; exact ⟨h, FileLE.rfl' _⟩
  | paused => simp only [step, hpc]; exact ⟨h, FileLE.rfl' _⟩
  | failed e => simp only [step, hpc]; exact ⟨h, FileLE.rfl' _⟩
  | killed => simp only [step, hpc]; exact ⟨h, FileLE.rfl' _⟩

theorem inv_crash {w : World} (h : Inv w) : Inv (crash w) := by
  obtain ⟨h1, h2, h3, h4, h5, h6, h7, h8, h9, h10⟩ := h
  exact ⟨h1, h2, h3, h4, h5, h6, h7, by simp [crash, Pc.atRename], h9, by simp [crash, LoopOK]⟩

theorem inv_kbint {w : World} (h : Inv w) : Inv (kbint w) ∧ (kbint w).disk.file = w.disk.file := by
  obtain ⟨fmt, atomic, ⟨file, tmp⟩, next, ⟨spec, n, sf, pc, front, back⟩⟩ := w
  obtain ⟨h1, h2, h3, h4, h5, h6, h7, h8, h9, h10⟩ := h
  cases pc with
  | trial i =>
    exact ⟨⟨h1, h2, h3, h4, h5, h6, h7, by simp [kbint, Pc.atRename], h9, by simp [kbint, LoopOK]⟩, rfl⟩
  | save i more retry ph =>
    cases retry with
    | false =>
      exact ⟨⟨h1, h2, h3, h4, h5, h6, h7, by simp [kbint, Pc.atRename], h9, h10⟩, rfl⟩
    | true =>
      exact ⟨⟨h1, h2, h3, h4, h5, h6, h7, by simp [kbint, Pc.atRename], h9, by simp [kbint, LoopOK]⟩, rfl⟩
  | done => exact ⟨⟨h1, h2, h3, h4, h5, h6, h7, h8, h9, h10⟩, rfl⟩
  | paused => exact ⟨⟨h1, h2, h3, h4, h5, h6, h7, h8, h9, h10⟩, rfl⟩
  | failed e => exact ⟨⟨h1, h2, h3, h4, h5, h6, h7, h8, h9, h10⟩, rfl⟩
  | killed => exact ⟨⟨h1, h2, h3, h4, h5, h6, h7, h8, h9, h10⟩, rfl⟩

/-- the state right after `load_results` and `min(...)` of a new process -/
theorem inv_start_core {w : World} (h : Inv w) {spec : List Nat} {n sf : Nat}
    (_hne : spec ≠ []) (hnd : spec.Nodup) (hsf : 1 ≤ sf)
    (hfile : ∀ r ∈ fileDoc w.disk.file, r.inputs ∈ spec ∧ r.nRuns ≤ n)
    (od : Option Doc) (hod : od = none ∨ od = some (fileDoc w.disk.file))
    (hnone : od = none → fileDoc w.disk.file = []) :
    Inv { w with proc := ⟨spec, n, sf,
      if minRuns (spec.map (loadSim od)) < n then .trial (minRuns (spec.map (loadSim od))) else .done,
      [], spec.map (loadSim od)⟩ } := by
  obtain ⟨h1, h2, h3, h4, h5, h6, h7, h8, h9, h10⟩ := h
  have hcases : ∀ x, loadSim od x = fresh x ∨
      (loadSim od x ∈ fileDoc w.disk.file ∧ (loadSim od x).inputs = x) := by
    intro x
    rcases loadSim_cases od x with hx | ⟨d', hd', hm, hx⟩
    · exact Or.inl hx
    · rcases hod with hh | hh
      · rw [hh] at hd'; cases hd'
      · rw [hh] at hd'; cases hd'; exact Or.inr ⟨hm, hx⟩
  have hmemOK : IdsOK (spec.map (loadSim od)) w.next := idsOK_load h4 od hod hnd
  have hcounts : ∀ s ∈ spec.map (loadSim od), s.nRuns ≤ n := by
    intro s hs
    obtain ⟨x, _, rfl⟩ := List.mem_map.mp hs
    rcases hcases x with hx | ⟨hm, _⟩
    · rw [hx]; simp [fresh]
    · exact (hfile _ hm).2
  refine ⟨h1, h2, by simpa [Proc.mem] using hmemOK, h4, ?_, hsf, ?_, ?_, by simpa [Proc.mem] using hcounts, ?_⟩
  · simp [Proc.mem, List.map_map, Function.comp_def, loadSim_inputs]
  · intro r hr
    rcases hod with hh | hh
    · rw [hnone hh] at hr; cases hr
    · refine ⟨r, ?_, rfl, List.prefix_rfl⟩
      simp only [Proc.mem, List.nil_append]
      refine List.mem_map.mpr ⟨r.inputs, (hfile r hr).1, ?_⟩
      rw [hh]
      exact loadSim_of_mem h4.inputsNodup hr
  · intro hr; exfalso; revert hr; simp only; split <;> simp [Pc.atRename]
  · simp only [LoopOK]
    split
    · rename_i i heq
      split at heq
      · rename_i hlt
        cases heq
        exact ⟨hlt, by simp, fun s hs => minRuns_le _ s hs⟩
      · cases heq
    · rename_i heq; split at heq <;> cases heq
    · rename_i heq
      split at heq
      · cases heq
      · rename_i hge
        refine ⟨trivial, ?_, ?_⟩
        · intro s hs
          have := minRuns_le _ s hs
          show n ≤ s.nRuns
          omega
        · intro hn s hs
          have h1 := minRuns_le _ s hs
          obtain ⟨x, _, rfl⟩ := List.mem_map.mp hs
          rcases hcases x with hx | ⟨hm, _⟩
          · rw [hx] at h1; simp only [fresh] at h1; omega
          · exact hm
    · rename_i heq; split at heq <;> cases heq
    · trivial

theorem inv_start {w : World} (h : Inv w) {spec : List Nat} {n sf : Nat}
    (hok : EvOK w (.start spec n sf)) :
    Inv (startProc w spec n sf) ∧ (startProc w spec n sf).disk.file = w.disk.file := by
  obtain ⟨hne, hnd, hsf, hfile⟩ := hok
  unfold startProc
  rw [if_neg hne]
  rcases h.fileOK with hf | ⟨d, hf⟩
  · have hr : readFile w.fmt w.disk.file = .ok none := by rw [hf]; rfl
    rw [hr]
    exact ⟨inv_start_core h hne hnd hsf hfile none (Or.inl rfl) (fun _ => by rw [hf]; rfl), rfl⟩
  · have hr : readFile w.fmt w.disk.file = .ok (some d) := by rw [hf]; rfl
    rw [hr]
    have hd : fileDoc w.disk.file = d := by rw [hf]; rfl
    exact ⟨inv_start_core h hne hnd hsf hfile (some d) (Or.inr (by rw [hd])) (fun hh => by cases hh), rfl⟩

theorem inv_apply {w : World} (h : Inv w) (e : Ev) (hok : EvOK w e) :
    Inv (apply w e) ∧ FileLE w.disk.file (apply w e).disk.file := by
  cases e with
  | start spec n sf =>
    obtain ⟨a, b⟩ := inv_start h hok
    exact ⟨a, by simp only [apply]; rw [b]; exact FileLE.rfl' _⟩
  | step => exact inv_step h
  | kbint =>
    obtain ⟨a, b⟩ := inv_kbint h
    exact ⟨a, by simp only [apply]; rw [b]; exact FileLE.rfl' _⟩
  | crash => exact ⟨inv_crash h, FileLE.rfl' _⟩
  | put f => exact absurd hok (by simp [EvOK])

theorem inv_run : ∀ (evs : List Ev) {w : World}, Inv w → AllOK w evs →
    Inv (runEvs w evs) ∧ FileLE w.disk.file (runEvs w evs).disk.file
  | [], w, h, _ => ⟨h, FileLE.rfl' _⟩
  | e :: es, w, h, hok => by
    obtain ⟨a, b⟩ := inv_apply h e hok.1
    obtain ⟨c, d⟩ := inv_run es a hok.2
    exact ⟨c, b.trans d⟩

/-! ### consequences used by the property theorems -/

theorem inv_init (fmt : Fmt) : Inv (World.init fmt true) := by
  refine ⟨rfl, Or.inl rfl, ?_, ?_, rfl, Nat.le_refl _, ?_, ?_, ?_, ?_⟩
  · exact IdsOK.nil _
  · exact IdsOK.nil _
  · intro r hr; cases hr
  · intro hr; cases hr
  · intro s hs; cases hs
  · trivial

theorem runEvs_append (w : World) (a b : List Ev) : runEvs w (a ++ b) = runEvs (runEvs w a) b := by
  simp [runEvs, List.foldl_append]

theorem allOK_append : ∀ (a b : List Ev) (w : World), AllOK w (a ++ b) ↔ AllOK w a ∧ AllOK (runEvs w a) b
  | [], b, w => by simp [AllOK, runEvs]
  | e :: a, b, w => by
    have ih := allOK_append a b (apply w e)
    simp only [List.cons_append, AllOK, ih, runEvs, List.foldl_cons, and_assoc]

theorem IdsOK.tail {a : Sim} {t : List Sim} {next : Nat} (h : IdsOK (a :: t) next) : IdsOK t next := by
  refine ⟨?_, fun s hs => h.each s (List.mem_cons_of_mem _ hs),
    fun s hs u hu => h.cross s (List.mem_cons_of_mem _ hs) u (List.mem_cons_of_mem _ hu)⟩
  have := h.inputsNodup
  simp only [List.map_cons, List.nodup_cons] at this
  exact this.2

/-- all trial identifiers of a well-formed document, concatenated, are pairwise distinct -/
theorem IdsOK.flat_nodup : ∀ {d : List Sim} {next : Nat}, IdsOK d next → (d.flatMap (·.ee)).Nodup
  | [], _, _ => by simp
  | a :: t, next, h => by
    have ih := IdsOK.flat_nodup h.tail
    simp only [List.flatMap_cons]
    rw [List.nodup_append]
    refine ⟨(h.each a (by simp)).2.1, ih, ?_⟩
    intro x hx y hy
    obtain ⟨u, hu, hyu⟩ := List.mem_flatMap.mp hy
    have hn := h.inputsNodup
    simp only [List.map_cons, List.nodup_cons] at hn
    have hne : a.inputs ≠ u.inputs := by
      intro he
      exact hn.1 (he ▸ List.mem_map.mpr ⟨u, hu, rfl⟩)
    intro hxy
    subst hxy
    exact h.cross a (by simp) u (List.mem_cons_of_mem _ hu) hne x hx hyu

instance (w : World) (e : Ev) : Decidable (EvOK w e) := by
  cases e <;> unfold EvOK <;> infer_instance

instance decAllOK : (w : World) → (evs : List Ev) → Decidable (AllOK w evs)
  | _, [] => isTrue trivial
  | w, e :: es =>
    have := decAllOK (apply w e) es
    by unfold AllOK; infer_instance

end Panqec.Batch
