/-
Remaining lemmas for the window theorems of C16: the exact grid stays below `p_max + res`, the three values of
`get_p_th_sd_interp` on a sorted grid, the manual window, override states that `calculate_thresholds` cannot see,
zero spread of the bootstrap column.
-/
import PanqecVerif.Proofs.AnalysisWindowCalc
import PanqecVerif.Proofs.AnalysisWindowLines

namespace Panqec.An

/-! ### the exact grid -/

/-- `np.arange(p_min, p_max + res, res)` in exact arithmetic: at least one point, the last one below `p_max + res`
    and not below `p_max` -/
theorem gridLenExact_spec {pmin pmaxE res : Rat} (hres : 0 < res) (hle : pmin ≤ pmaxE) :
    0 < gridLenExact pmin pmaxE res ∧
    gridPt pmin res (gridLenExact pmin pmaxE res - 1) < pmaxE + res ∧
    pmaxE ≤ gridPt pmin res (gridLenExact pmin pmaxE res - 1) := by
  unfold gridLenExact gridPt
  set q := (pmaxE + res - pmin) / res with hq
  have hq1 : 1 ≤ q := by
    rw [hq, le_div_iff₀ hres]; linarith
  have hc1 : (1 : Int) ≤ q.ceil := by
    have : ((1 : Int) : Rat) ≤ (q.ceil : Rat) := by
      have := @Rat.le_ceil q
      push_cast; linarith
    exact_mod_cast this
  have hnn : 0 ≤ q.ceil := by omega
  have hcast : ((q.ceil.toNat : Nat) : Int) = q.ceil := Int.toNat_of_nonneg hnn
  have hpos : 0 < q.ceil.toNat := by omega
  have hcastR : (((q.ceil.toNat - 1 : Nat)) : Rat) = (q.ceil : Rat) - 1 := by
    have h1 : ((q.ceil.toNat - 1 : Nat) : Int) = q.ceil - 1 := by omega
    have := congrArg (fun z : Int => (z : Rat)) h1
    simpa using this
  refine ⟨hpos, ?_, ?_⟩
  · rw [hcastR]
    have h2 : (q.ceil : Rat) - 1 < q := by
      have := @Rat.ceil_lt q; linarith
    have h3 : ((q.ceil : Rat) - 1) * res < q * res := mul_lt_mul_of_pos_right h2 hres
    have h4 : q * res = pmaxE + res - pmin := by rw [hq]; field_simp
    linarith
  · rw [hcastR]
    have h2 : q ≤ (q.ceil : Rat) := Rat.le_ceil
    have h3 : q * res ≤ (q.ceil : Rat) * res := mul_le_mul_of_nonneg_right h2 (le_of_lt hres)
    have h4 : q * res = pmaxE + res - pmin := by rw [hq]; field_simp
    nlinarith

theorem gridPt_mono {pmin res : Rat} (hres : 0 ≤ res) {i j : Nat} (h : i ≤ j) : gridPt pmin res i ≤ gridPt pmin res j := by
  unfold gridPt
  have : (i : Rat) ≤ (j : Rat) := by exact_mod_cast h
  nlinarith

/-! ### the three values on a grid -/

theorem sdInterpIdx_spec {sq : Rat → Rat} {grid : List Rat} {rows : List TRow} {ic il ir : Nat}
    (h : sdInterpIdx sq grid rows = .ok (ic, il, ir)) :
    il ≤ ic ∧ ic ≤ ir ∧ ic < grid.length ∧ ir ≤ grid.length - 1 := by
  unfold sdInterpIdx at h
  split at h
  · cases h
  · split at h
    · cases h
    · split at h
      · cases h
      · have := sdSelect_spec h
        simpa [sdValues, curveValues] using this

theorem sdInterp_spec {sq : Rat → Rat} {grid : List Rat} {rows : List TRow} {pc pl pr : Rat}
    (h : sdInterp sq grid rows = .ok (pc, pl, pr)) :
    ∃ ic il ir, sdInterpIdx sq grid rows = .ok (ic, il, ir) ∧ il ≤ ic ∧ ic ≤ ir ∧ ir < grid.length ∧
      pc = grid.getD ic 0 ∧ pl = grid.getD il 0 ∧ pr = grid.getD ir 0 := by
  unfold sdInterp at h
  split at h
  · rename_i ic il ir hidx
    injection h with h
    simp only [Prod.mk.injEq] at h
    obtain ⟨h1, h2, h3, h4⟩ := sdInterpIdx_spec hidx
    exact ⟨ic, il, ir, hidx, h1, h2, by omega, h.1.symm, h.2.1.symm, h.2.2.symm⟩
  · cases h

theorem sorted_getD_le' {l : List Rat} (hs : l.Pairwise (· ≤ ·)) {i j : Nat} (hij : i ≤ j) (hj : j < l.length) :
    l.getD i 0 ≤ l.getD j 0 := by
  rcases Nat.eq_or_lt_of_le hij with rfl | hlt
  · exact le_rfl
  · have hi : i < l.length := by omega
    rw [List.getD_eq_getElem?_getD, List.getD_eq_getElem?_getD, List.getElem?_eq_getElem hi, List.getElem?_eq_getElem hj]
    exact List.pairwise_iff_getElem.mp hs i j hi hj hlt

theorem sdInterpIdx_total (sq : Rat → Rat) {grid : List Rat} {rows : List TRow} (hg : grid ≠ [])
    (hd : sdDomain rows = true) (hl : 2 ≤ (labelsOf rows).length) : ∃ r, sdInterpIdx sq grid rows = .ok r := by
  unfold sdInterpIdx
  have hne : rows ≠ [] := by
    rintro rfl; simp [labelsOf] at hl
  have he : rows.isEmpty = false := by
    cases rows with
    | nil => exact absurd rfl hne
    | cons _ _ => rfl
  rw [he, hd]
  simp only [Bool.false_eq_true, if_false, Bool.not_true]
  rw [if_neg (by omega)]
  apply sdSelect_total
  simpa [sdValues, curveValues] using hg

theorem sdInterpIdx_one_curve (sq : Rat → Rat) (grid : List Rat) {rows : List TRow} (hne : rows ≠ [])
    (hd : sdDomain rows = true) (hl : (labelsOf rows).length < 2) : sdInterpIdx sq grid rows = .error .noMinimum := by
  unfold sdInterpIdx
  have he : rows.isEmpty = false := by
    cases rows with
    | nil => exact absurd rfl hne
    | cons _ _ => rfl
  rw [he, hd]
  simp [hl]

/-! ### the manual window -/

theorem windowOverride_spec {spec : TruncSpec} {rows : List TRow} {pn : Rat} {w : Window}
    (h : windowOverride spec rows pn = some w) :
    ∃ lo hi, minList (rows.map (·.rate)) = some lo ∧ maxList (rows.map (·.rate)) = some hi ∧
      w.pLeft = (if spec.hasRate then (spec.rmin.map (· - tol9)).getD lo else lo) ∧
      w.pRight = (if spec.hasRate then (spec.rmax.map (· + tol9)).getD hi else hi) ∧
      w.pNearest = pn ∧
      w.pSd = (if w.pLeft < pn ∧ pn < w.pRight then pn else (w.pLeft + w.pRight) / 2) ∧
      (∀ r, r ∈ w.rows ↔ r ∈ rows ∧ (spec.hasD = true → (∀ m, spec.dmin = some m → m ≤ r.d) ∧
        (∀ m, spec.dmax = some m → r.d ≤ m))) := by
  unfold windowOverride at h
  split at h
  · rename_i lo hi hlo hhi
    injection h with h
    subst h
    refine ⟨lo, hi, hlo, hhi, rfl, rfl, rfl, rfl, ?_⟩
    intro r
    simp only
    cases hD : spec.hasD <;> cases hmin : spec.dmin <;> cases hmax : spec.dmax <;>
      simp [List.mem_filter]
    · tauto
  · cases h

/-- the reported `p_th_sd` of a manual window lies inside the window (when the window is not inverted) -/
theorem windowOverride_pSd_inside {spec : TruncSpec} {rows : List TRow} {pn : Rat} {w : Window}
    (h : windowOverride spec rows pn = some w) (hlr : w.pLeft ≤ w.pRight) : w.pLeft ≤ w.pSd ∧ w.pSd ≤ w.pRight := by
  obtain ⟨lo, hi, _, _, _, _, _, hsd, _⟩ := windowOverride_spec h
  rw [hsd]
  split
  · rename_i hin; exact ⟨le_of_lt hin.1, le_of_lt hin.2⟩
  · constructor <;> linarith

/-! ### states `calculate_thresholds` cannot see -/

theorem calcThresholds_blind {st : OvState} {rs : List ResRow} (sector : Nat) (mode : WindowMode)
    (hk : st.KeysIn (rs.map ResRow.nameKey)) (hdisj : ∀ r ∈ rs, ∀ r' ∈ rs, r.labelKey ≠ r'.nameKey)
    (hextra : st.extra = []) : calcThresholds st sector mode rs = calcThresholds {} sector mode rs := by
  have hmiss : ∀ key ∈ paramSets rs, key ∉ rs.map ResRow.nameKey := by
    intro key hkey hmem
    obtain ⟨r, hr, rfl⟩ := mem_paramSets.mp hkey
    obtain ⟨r', hr', he⟩ := List.mem_map.mp hmem
    exact hdisj r hr r' hr' he.symm
  unfold calcThresholds
  have hf : ((paramSets rs).filter fun t => !st.skips.contains t) =
      ((paramSets rs).filter fun t => !({} : OvState).skips.contains t) := by
    apply List.filter_congr
    intro t ht
    rw [(KeysIn.miss hk (hmiss t ht) sector).1]; rfl
  rw [hf]
  have hm : ((paramSets rs).filter fun t => !({} : OvState).skips.contains t).mapM (thresholdEntry st sector mode rs) =
      ((paramSets rs).filter fun t => !({} : OvState).skips.contains t).mapM (thresholdEntry {} sector mode rs) := by
    apply mapM_except_congr
    intro t ht
    have ht' := (List.mem_filter.mp ht).1
    obtain ⟨_, h2, h3⟩ := KeysIn.miss hk (hmiss t ht') sector
    apply thresholdEntry_congr
    · rw [h3]; rfl
    · rw [h2]; rfl
  rw [hm, hextra]

/-- skipping every parameter set (or replacing every one) leaves nothing to concatenate: the call fails -/
theorem calcThresholds_nothing_left {st : OvState} {rs : List ResRow} (sector : Nat) (mode : WindowMode)
    (h : ∀ t ∈ paramSets rs, st.skips.contains t = true) : calcThresholds st sector mode rs = .error .nothingFitted := by
  unfold calcThresholds
  have : ((paramSets rs).filter fun t => !st.skips.contains t) = [] := by
    rw [List.filter_eq_nil_iff]
    intro t ht
    simpa using h t ht
  rw [this]
  rfl

/-! ### `p_th_fss_se` -/

theorem popVariance_eq_zero_iff {l : List Rat} (hne : l ≠ []) :
    popVariance l = 0 ↔ ∀ x ∈ l, ∀ y ∈ l, x = y := by
  unfold popVariance
  simp only
  have hn : (l.length : Rat) ≠ 0 := by
    have : 0 < l.length := List.length_pos_iff.mpr hne
    positivity
  rw [div_eq_zero_iff, or_iff_left hn]
  constructor
  · intro h x hx y hy
    have hxm : x = l.sum / (l.length : Rat) := by
      by_contra hc
      have := sum_sq_pos_of_mem _ l x hx hc
      linarith
    have hym : y = l.sum / (l.length : Rat) := by
      by_contra hc
      have := sum_sq_pos_of_mem _ l y hy hc
      linarith
    rw [hxm, hym]
  · intro h
    obtain ⟨x0, hx0⟩ := List.exists_mem_of_ne_nil l hne
    have hall : ∀ x ∈ l, x = x0 := fun x hx => h x hx x0 hx0
    have hsum : l.sum = (l.length : Rat) * x0 := by
      clear hn hne hx0 h
      induction l with
      | nil => simp
      | cons a as ih =>
        simp only [List.sum_cons, List.length_cons, Nat.cast_add, Nat.cast_one]
        rw [ih fun x hx => hall x (List.mem_cons_of_mem _ hx), hall a List.mem_cons_self]
        ring
    have hmean : l.sum / (l.length : Rat) = x0 := by rw [hsum]; field_simp
    rw [hmean]
    clear hsum hmean hn hne hx0 h
    induction l with
    | nil => simp
    | cons a as ih =>
      simp only [List.map_cons, List.sum_cons]
      rw [ih fun x hx => hall x (List.mem_cons_of_mem _ hx), hall a List.mem_cons_self]
      ring

end Panqec.An
