/-
Helper lemmas for C07 (single-qubit channel, `fast_choice`, priors).
-/
import PanqecVerif.Model.Noise
import PanqecVerif.Proofs.Bits
import Mathlib.Tactic.Linarith
import Mathlib.Tactic.Ring
import Mathlib.Tactic.FieldSimp
import Mathlib.Algebra.Order.Field.Rat
import Mathlib.Algebra.Order.Field.Basic

namespace Panqec

/-! ### the channel -/

theorem baseDist_nonneg (p rx ry rz : Rat) (hp0 : 0 ≤ p) (hp1 : p ≤ 1) (hx : 0 ≤ rx) (hy : 0 ≤ ry)
    (hz : 0 ≤ rz) (σ : Pauli) : 0 ≤ (baseDist p rx ry rz).get σ := by
  cases σ <;> simp only [baseDist, Dist.get]
  · linarith
  · exact mul_nonneg hx hp0
  · exact mul_nonneg hy hp0
  · exact mul_nonneg hz hp0

theorem baseDist_total (p rx ry rz : Rat) (h : rx + ry + rz = 1) :
    (baseDist p rx ry rz).total = 1 := by
  simp only [baseDist, Dist.total]
  have : rx * p + ry * p + rz * p = (rx + ry + rz) * p := by ring
  rw [h] at this
  linarith

theorem baseDist_valid (p rx ry rz : Rat) (hp0 : 0 ≤ p) (hp1 : p ≤ 1) (hx : 0 ≤ rx) (hy : 0 ≤ ry)
    (hz : 0 ≤ rz) (h : rx + ry + rz = 1) : (baseDist p rx ry rz).Valid :=
  ⟨baseDist_nonneg p rx ry rz hp0 hp1 hx hy hz .I, baseDist_nonneg p rx ry rz hp0 hp1 hx hy hz .X,
   baseDist_nonneg p rx ry rz hp0 hp1 hx hy hz .Y, baseDist_nonneg p rx ry rz hp0 hp1 hx hy hz .Z,
   baseDist_total p rx ry rz h⟩

theorem Dist.Valid.get_nonneg {d : Dist} (h : d.Valid) (σ : Pauli) : 0 ≤ d.get σ := by
  obtain ⟨h1, h2, h3, h4, _⟩ := h
  cases σ <;> simpa [Dist.get]

theorem permDist_get (D : PauliMap) (d : Dist) (σ : Pauli) :
    (permDist D d).get σ = d.get (D.apply σ) := by
  cases σ <;> rfl

theorem deformDist_of_perm (D : PauliMap) (d : Dist) (h : D.isPerm = true) :
    deformDist D d = some (permDist D d) := by
  obtain ⟨a, b, c⟩ := D
  cases a <;> cases b <;> cases c <;> simp_all [PauliMap.isPerm, deformDist, Dist.prev, permDist, Dist.get]

theorem deformDist_keyError (D : PauliMap) (d : Dist) :
    deformDist D d = none ↔ (D.x = .I ∨ D.y = .I ∨ D.z = .I) := by
  obtain ⟨a, b, c⟩ := D
  cases a <;> cases b <;> cases c <;> simp [deformDist, Dist.prev]

theorem permDist_valid (D : PauliMap) (d : Dist) (h : D.isPerm = true) (hv : d.Valid) :
    (permDist D d).Valid := by
  obtain ⟨a, b, c⟩ := D
  obtain ⟨h1, h2, h3, h4, h5⟩ := hv
  simp only [Dist.total] at h5
  cases a <;> cases b <;> cases c <;> simp_all [PauliMap.isPerm] <;>
    (simp only [Dist.Valid, permDist, Dist.get, Dist.total]; refine ⟨?_, ?_, ?_, ?_, ?_⟩ <;> linarith)

theorem mapM_deformDist_of_perm (b : Dist) : ∀ Ds : List PauliMap, (∀ D ∈ Ds, D.isPerm = true) →
    Ds.mapM (fun D => deformDist D b) = some (Ds.map fun D => permDist D b)
  | [], _ => rfl
  | D :: Ds, h => by
    have h1 := deformDist_of_perm D b (h D (by simp))
    have h2 := mapM_deformDist_of_perm b Ds (fun D' hD' => h D' (by simp [hD']))
    simp [List.mapM_cons, h1, h2]

/-! ### fast_choice -/

theorem fastChoice_eq (u : Rat) (d : Dist) : fastChoice u d =
    if u < d.i then .I else if u < d.i + d.x then .X
    else if u < d.i + d.x + d.y then .Y else .Z := by
  simp only [fastChoice, fastChoiceGo, zero_add]
  split_ifs <;> rfl

theorem fastChoice_iff (u : Rat) (d : Dist) (hv : d.Valid) (hu0 : 0 ≤ u) (hu1 : u < 1) (σ : Pauli) :
    fastChoice u d = σ ↔ d.lo σ ≤ u ∧ u < d.hi σ := by
  obtain ⟨h1, h2, h3, h4, h5⟩ := hv
  simp only [Dist.total] at h5
  rw [fastChoice_eq]
  cases σ <;> simp only [Dist.lo, Dist.hi, Dist.get] <;> split_ifs <;>
    simp_all <;> (try intros) <;> linarith

/-- the X-flip event (letter X or Y) is the interval `[p_I, p_I + p_X + p_Y)` -/
theorem xFlip_iff (u : Rat) (d : Dist) (hv : d.Valid) :
    (fastChoice u d).xBit = 1 ↔ d.i ≤ u ∧ u < d.i + d.xMarginal := by
  obtain ⟨h1, h2, h3, h4, h5⟩ := hv
  rw [fastChoice_eq]
  simp only [Dist.xMarginal]
  split_ifs <;> simp [Pauli.xBit] <;> (try intros) <;> (try constructor) <;> linarith

/-- the Z-flip event (letter Y or Z) is the interval `[p_I + p_X, ∞)`, of length
    `p_Y + p_Z` inside `[0, 1)` -/
theorem zFlip_iff (u : Rat) (d : Dist) (hv : d.Valid) :
    (fastChoice u d).zBit = 1 ↔ 1 - d.zMarginal ≤ u := by
  obtain ⟨h1, h2, h3, h4, h5⟩ := hv
  simp only [Dist.total] at h5
  rw [fastChoice_eq]
  simp only [Dist.zMarginal]
  split_ifs <;> simp [Pauli.zBit] <;> linarith

/-- both bits flip exactly on the interval of Y -/
theorem xzFlip_iff (u : Rat) (d : Dist) (hv : d.Valid) (hu0 : 0 ≤ u) (hu1 : u < 1) :
    ((fastChoice u d).xBit = 1 ∧ (fastChoice u d).zBit = 1) ↔ d.lo .Y ≤ u ∧ u < d.lo .Y + d.y := by
  have h := fastChoice_iff u d hv hu0 hu1 .Y
  simp only [Dist.hi, Dist.get] at h
  rw [← h]
  cases fastChoice u d <;> simp [Pauli.xBit, Pauli.zBit]

theorem fastChoice_p_zero (u : Rat) (d : Dist) (hi : d.i = 1) (hu1 : u < 1) : fastChoice u d = .I := by
  rw [fastChoice_eq, hi]; simp [hu1]

theorem fastChoice_p_one (u : Rat) (d : Dist) (hi : d.i = 0) (hu0 : 0 ≤ u) : fastChoice u d ≠ .I := by
  rw [fastChoice_eq, hi]
  have : ¬ u < 0 := not_lt.mpr hu0
  simp only [this, if_false]
  split_ifs <;> simp

/-! ### sampling a whole error -/

theorem sampleLetters_length (ds : List Dist) (us : List Rat) :
    (sampleLetters ds us).length = min ds.length us.length := by
  simp [sampleLetters]

theorem sampleLetters_get (ds : List Dist) (us : List Rat) (q : Nat) (d : Dist) (u : Rat)
    (hd : ds[q]? = some d) (hu : us[q]? = some u) :
    (sampleLetters ds us)[q]? = some (fastChoice u d) := by
  simp [sampleLetters, List.getElem?_zipWith, hd, hu]

theorem generate_length (ds : List Dist) (us : List Rat) (h : us.length = ds.length) :
    (generate ds us).length = 2 * ds.length := by
  simp [generate, pauliToBsf_length, sampleLetters_length, h]

theorem sampleLetters_iff_inBox : ∀ (ds : List Dist) (s : List Pauli) (us : List Rat),
    (∀ d ∈ ds, d.Valid) → (∀ u ∈ us, 0 ≤ u ∧ u < 1) → ds.length = us.length →
    (sampleLetters ds us = s ↔ inBox ds s us)
  | [], [], [], _, _, _ => by simp [sampleLetters, inBox]
  | [], _ :: _, [], _, _, _ => by simp [sampleLetters, inBox]
  | [], _, _ :: _, _, _, h => by simp at h
  | _ :: _, _, [], _, _, h => by simp at h
  | d :: ds, [], u :: us, _, _, _ => by simp [sampleLetters, inBox]
  | d :: ds, σ :: s, u :: us, hv, hu, hl => by
    have ih := sampleLetters_iff_inBox ds s us (fun d' h' => hv d' (by simp [h']))
      (fun u' h' => hu u' (by simp [h'])) (by simpa using hl)
    have h1 := fastChoice_iff u d (hv d (by simp)) (hu u (by simp)).1 (hu u (by simp)).2 σ
    simp only [sampleLetters] at ih
    simp only [sampleLetters, List.zipWith_cons_cons, List.cons.injEq, inBox, h1, ih]

theorem boxVolume_eq_stringProb (ds : List Dist) (s : List Pauli) :
    boxVolume ds s = stringProb ds s := by
  unfold boxVolume stringProb
  congr 1
  induction ds generalizing s with
  | nil => simp
  | cons d ds ih =>
    cases s with
    | nil => simp
    | cons σ s => simp [Dist.hi]

/-! ### priors -/

theorem odds_some (P : Rat) (h1 : P < 1) : odds P = some (P / (1 - P)) := by
  have : (1 : Rat) - P ≠ 0 := by intro h; linarith
  simp [odds, this]

theorem odds_none (P : Rat) : odds P = none ↔ P = 1 := by
  unfold odds
  split_ifs with h
  · simp; linarith
  · simp; intro h'; apply h; linarith

theorem odds_lt_one_iff (P : Rat) (h1 : P < 1) : P / (1 - P) < 1 ↔ P < 1 / 2 := by
  have hpos : (0 : Rat) < 1 - P := by linarith
  rw [div_lt_one hpos]
  constructor <;> intro h <;> linarith

theorem odds_eq_one_iff (P : Rat) (h1 : P < 1) : P / (1 - P) = 1 ↔ P = 1 / 2 := by
  have hpos : (0 : Rat) < 1 - P := by linarith
  rw [div_eq_one_iff_eq (ne_of_gt hpos)]
  constructor <;> intro h <;> linarith

theorem odds_strictMono (P Q : Rat) (hPQ : P < Q) (hQ : Q < 1) :
    P / (1 - P) < Q / (1 - Q) := by
  have h1 : (0 : Rat) < 1 - P := by linarith
  have h2 : (0 : Rat) < 1 - Q := by linarith
  rw [div_lt_div_iff₀ h1 h2]
  nlinarith

theorem odds_nonneg (P : Rat) (h0 : 0 ≤ P) (h1 : P < 1) : 0 ≤ P / (1 - P) :=
  div_nonneg h0 (by linarith)

/-! ### conditional update -/

theorem joint_values (d : Dist) : d.joint 0 0 = d.i ∧ d.joint 1 0 = d.x ∧ d.joint 1 1 = d.y ∧
    d.joint 0 1 = d.z := by
  simp [Dist.joint, Pauli.ofBits, Dist.get]

theorem updateEntry_zToX_one (d : Dist) (h : d.zMarginal ≠ 0) :
    updateEntry .zToX 1 d.x d.y d.z = .val (d.joint 1 1 / (d.joint 0 1 + d.joint 1 1)) := by
  obtain ⟨_, _, h3, h4⟩ := joint_values d
  simp only [Dist.zMarginal] at h
  simp [updateEntry, h3, h4, h]

theorem updateEntry_zToX_zero (d : Dist) (c : Nat) (hc : c ≠ 1) (ht : d.total = 1)
    (h : d.zMarginal ≠ 1) :
    updateEntry .zToX c d.x d.y d.z = .val (d.joint 1 0 / (d.joint 0 0 + d.joint 1 0)) := by
  obtain ⟨h1, h2, _, _⟩ := joint_values d
  simp only [Dist.zMarginal] at h
  simp only [Dist.total] at ht
  have hne : (1 : Rat) - d.z - d.y ≠ 0 := by intro h'; apply h; linarith
  have he : (1 : Rat) - d.z - d.y = d.i + d.x := by linarith
  rw [he] at hne
  simp [updateEntry, hc, floatDiv, hne, h1, h2, he]

theorem updateEntry_xToZ_one (d : Dist) (h : d.xMarginal ≠ 0) :
    updateEntry .xToZ 1 d.x d.y d.z = .val (d.joint 1 1 / (d.joint 1 0 + d.joint 1 1)) := by
  obtain ⟨_, h2, h3, _⟩ := joint_values d
  simp only [Dist.xMarginal] at h
  simp [updateEntry, h2, h3, h]

theorem updateEntry_xToZ_zero (d : Dist) (c : Nat) (hc : c ≠ 1) (ht : d.total = 1)
    (h : d.xMarginal ≠ 1) :
    updateEntry .xToZ c d.x d.y d.z = .val (d.joint 0 1 / (d.joint 0 0 + d.joint 0 1)) := by
  obtain ⟨h1, _, _, h4⟩ := joint_values d
  simp only [Dist.xMarginal] at h
  simp only [Dist.total] at ht
  have hne : (1 : Rat) - d.x - d.y ≠ 0 := by intro h'; apply h; linarith
  have he : (1 : Rat) - d.x - d.y = d.i + d.z := by linarith
  rw [he] at hne
  simp [updateEntry, hc, floatDiv, hne, h1, h4, he]

theorem updateProbabilities_get (dir : UpdDir) : ∀ (cs : List Nat) (pxs pys pzs : List Rat),
    cs.length ≤ pxs.length → cs.length ≤ pys.length → cs.length ≤ pzs.length →
    ∃ v : List UpdVal, updateProbabilities dir cs pxs pys pzs = some v ∧ v.length = cs.length ∧
      ∀ (q c : Nat) (px py pz : Rat), cs[q]? = some c → pxs[q]? = some px → pys[q]? = some py →
        pzs[q]? = some pz → v[q]? = some (updateEntry dir c px py pz)
  | [], _, _, _, _, _, _ => ⟨[], by simp [updateProbabilities]⟩
  | c :: cs, [], _, _, h, _, _ => by simp at h
  | c :: cs, _ :: _, [], _, _, h, _ => by simp at h
  | c :: cs, _ :: _, _ :: _, [], _, _, h => by simp at h
  | c :: cs, px :: pxs, py :: pys, pz :: pzs, h1, h2, h3 => by
    obtain ⟨v, hv, hl, hg⟩ := updateProbabilities_get dir cs pxs pys pzs (by simpa using h1)
      (by simpa using h2) (by simpa using h3)
    refine ⟨updateEntry dir c px py pz :: v, by simp [updateProbabilities, hv], by simp [hl], ?_⟩
    intro q c' px' py' pz' hc hpx hpy hpz
    cases q with
    | zero => simp_all
    | succ q => simp only [List.getElem?_cons_succ] at *; exact hg q c' px' py' pz' hc hpx hpy hpz

end Panqec
