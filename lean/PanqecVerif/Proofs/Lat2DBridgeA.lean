/-
Bridge from the operator (dict) level of the lattice models to the binary symplectic rows the
generic code model assembles (`Model/Code.lean`: `toBsf`, `stabRow`), part A (core Lean):

for dicts `a`, `b` with distinct keys, `a` supported on the duplicate-free qubit list `qs`,
  `symp (rowOf qs a) (rowOf qs b) = opAntiCount a b % 2`.
-/
import PanqecVerif.Proofs.Bits
import PanqecVerif.Model.Lattices.Common

namespace Panqec.Lat2D

/-- the letter a dict carries on `q` (`I` when `q` is not a key) -/
def letterAt (a : Op) (q : Coord) : Pauli := (a.get? q).getD Pauli.I

/-- the row `to_bsf` builds for a supported dict -/
def rowOf (qs : List Coord) (a : Op) : List Nat :=
  qs.map (fun q => opCount a q Pauli.xBit) ++ qs.map (fun q => opCount a q Pauli.zBit)

theorem toBsf_eq (qs : List Coord) (a : Op) (h : ∀ e ∈ a, e.1 ∈ qs) :
    toBsf qs a = some (rowOf qs a) := by
  unfold toBsf rowOf
  have : opSupported qs a = true := by
    unfold opSupported
    rw [List.all_eq_true]
    intro e he
    simpa using h e he
  rw [if_pos this]

theorem rowOf_length (qs : List Coord) (a : Op) : (rowOf qs a).length = 2 * qs.length := by
  simp [rowOf]; omega

theorem xPart_rowOf (qs : List Coord) (a : Op) :
    xPart (rowOf qs a) = qs.map (fun q => opCount a q Pauli.xBit) := by
  unfold xPart
  rw [rowOf_length]
  have : 2 * qs.length / 2 = qs.length := by omega
  rw [this]
  unfold rowOf
  exact List.take_left' (by simp)

theorem zPart_rowOf (qs : List Coord) (a : Op) :
    zPart (rowOf qs a) = qs.map (fun q => opCount a q Pauli.zBit) := by
  unfold zPart
  rw [rowOf_length]
  have : 2 * qs.length / 2 = qs.length := by omega
  rw [this]
  unfold rowOf
  exact List.drop_left' (by simp)

theorem dot_map_map (qs : List Coord) (f g : Coord → Nat) :
    dot (qs.map f) (qs.map g) = (qs.map fun q => f q * g q).sum := by
  induction qs with
  | nil => simp [dot]
  | cons q qs ih => simp [ih]

theorem sum_map_add (qs : List Coord) (f g : Coord → Nat) :
    (qs.map f).sum + (qs.map g).sum = (qs.map fun q => f q + g q).sum := by
  induction qs with
  | nil => rfl
  | cons q qs ih => simp only [List.map_cons, List.sum_cons]; omega

theorem sum_map_mod2 (qs : List Coord) (f : Coord → Nat) :
    (qs.map f).sum % 2 = (qs.map fun q => f q % 2).sum % 2 := by
  induction qs with
  | nil => rfl
  | cons q qs ih => simp only [List.map_cons, List.sum_cons]; omega

/-! ### a dict with distinct keys carries one letter per qubit -/

theorem opCount_not_key (a : Op) (q : Coord) (f : Pauli → Nat) (h : q ∉ a.map Prod.fst) :
    opCount a q f = 0 := by
  unfold opCount
  rw [List.length_eq_zero_iff, List.filter_eq_nil_iff]
  intro e he hc
  simp only [Bool.and_eq_true, beq_iff_eq] at hc
  exact h (List.mem_map.mpr ⟨e, he, hc.1⟩)

theorem get?_not_key (a : Op) (q : Coord) (h : q ∉ a.map Prod.fst) : a.get? q = none := by
  unfold Op.get?
  rw [Option.map_eq_none_iff, List.find?_eq_none]
  intro e he hc
  exact h (List.mem_map.mpr ⟨e, he, by simpa using hc⟩)

theorem letterAt_not_key (a : Op) (q : Coord) (h : q ∉ a.map Prod.fst) :
    letterAt a q = Pauli.I := by
  unfold letterAt; rw [get?_not_key a q h]; rfl

theorem letterAt_cons (k : Coord) (p : Pauli) (a : Op) (q : Coord) :
    letterAt ((k, p) :: a) q = if k = q then p else letterAt a q := by
  unfold letterAt Op.get?
  simp only [List.find?_cons]
  by_cases h : k = q
  · simp [h]
  · have : (k == q) = false := by simpa using h
    simp [this, h]

theorem opCount_cons (k : Coord) (p : Pauli) (a : Op) (q : Coord) (f : Pauli → Nat) :
    opCount ((k, p) :: a) q f = (if k = q ∧ f p = 1 then 1 else 0) + opCount a q f := by
  unfold opCount
  rw [List.filter_cons]
  by_cases hk : k = q <;> by_cases hp : f p = 1 <;> simp [hk, hp] <;> omega

/-- for `f ∈ {xBit, zBit}` (values in `{0, 1}`, `f I = 0`) -/
theorem opCount_eq_letter (f : Pauli → Nat) (hf : ∀ p, f p = 0 ∨ f p = 1) (hI : f Pauli.I = 0) :
    ∀ (a : Op), (a.map Prod.fst).Nodup → ∀ q, opCount a q f = f (letterAt a q)
  | [], _, q => by simp [opCount, letterAt, Op.get?, hI]
  | (k, p) :: a, hnd, q => by
    rw [List.map_cons, List.nodup_cons] at hnd
    rw [opCount_cons, letterAt_cons]
    by_cases h : k = q
    · subst h
      rw [opCount_not_key a k f hnd.1]
      simp only [true_and, if_true, Nat.add_zero]
      rcases hf p with h0 | h1
      · simp [h0]
      · simp [h1]
    · simp only [h, false_and, if_false, Nat.zero_add]
      exact opCount_eq_letter f hf hI a hnd.2 q

theorem xBit_01 : ∀ p : Pauli, p.xBit = 0 ∨ p.xBit = 1 := by intro p; cases p <;> simp [Pauli.xBit]
theorem zBit_01 : ∀ p : Pauli, p.zBit = 0 ∨ p.zBit = 1 := by intro p; cases p <;> simp [Pauli.zBit]

/-- per qubit: `x·z' + z·x' ≡ [the letters anticommute] (mod 2)` -/
theorem bits_anti (p p' : Pauli) :
    (p.xBit * p'.zBit + p.zBit * p'.xBit) % 2 = if Pauli.anti p p' = true then 1 else 0 := by
  cases p <;> cases p' <;> rfl

/-! ### the sum over the qubit list against the count over the dict -/

theorem sum_update (F F' : Coord → Nat) (k : Coord) : ∀ (qs : List Coord), qs.Nodup → k ∈ qs →
    (∀ q ∈ qs, q ≠ k → F q = F' q) → F' k = 0 → (qs.map F).sum = (qs.map F').sum + F k
  | [], _, h, _, _ => absurd h (by simp)
  | q :: qs, hnd, hk, hF, h0 => by
    rw [List.nodup_cons] at hnd
    simp only [List.map_cons, List.sum_cons]
    by_cases hq : q = k
    · subst hq
      have : (qs.map F).sum = (qs.map F').sum := by
        congr 1
        apply List.map_congr_left
        intro r hr
        exact hF r (List.mem_cons_of_mem _ hr) (fun e => hnd.1 (e ▸ hr))
      rw [this, h0]; omega
    · have hk' : k ∈ qs := by
        rcases List.mem_cons.mp hk with e | e
        · exact absurd e.symm hq
        · exact e
      have ih := sum_update F F' k qs hnd.2 hk'
        (fun r hr hne => hF r (List.mem_cons_of_mem _ hr) hne) h0
      have := hF q (List.mem_cons_self ..) hq
      omega

theorem sum_anti_eq_count (qs : List Coord) (hqs : qs.Nodup) (g : Coord → Pauli) :
    ∀ (a : Op), (a.map Prod.fst).Nodup → (∀ e ∈ a, e.1 ∈ qs) →
      (qs.map fun q => if Pauli.anti (letterAt a q) (g q) = true then 1 else 0).sum
        = a.countP (fun e => Pauli.anti e.2 (g e.1))
  | [], _, _ => by
    have : ∀ q, letterAt [] q = Pauli.I := fun q => rfl
    simp only [this]
    have hI : ∀ p, Pauli.anti Pauli.I p = false := by intro p; cases p <;> rfl
    simp only [hI, Bool.false_eq_true, if_false, List.countP_nil]
    clear this
    induction qs with
    | nil => rfl
    | cons q qs ih => simp_all
  | (k, p) :: a, hnd, hsup => by
    rw [List.map_cons, List.nodup_cons] at hnd
    have ih := sum_anti_eq_count qs hqs g a hnd.2 (fun e he => hsup e (List.mem_cons_of_mem _ he))
    have hk : k ∈ qs := hsup (k, p) (List.mem_cons_self ..)
    have hI : ∀ p, Pauli.anti Pauli.I p = false := by intro p; cases p <;> rfl
    rw [sum_update
      (fun q => if Pauli.anti (letterAt ((k, p) :: a) q) (g q) = true then 1 else 0)
      (fun q => if Pauli.anti (letterAt a q) (g q) = true then 1 else 0) k qs hqs hk
      (by intro q _ hne
          have hkq : ¬ k = q := fun e => hne e.symm
          simp only [letterAt_cons, hkq, if_false])
      (by simp only [letterAt_not_key a k hnd.1, hI]; rfl)]
    rw [ih, List.countP_cons]
    have hkk : letterAt ((k, p) :: a) k = p := by rw [letterAt_cons, if_pos rfl]
    simp only [hkk]

/-- `opAntiCount` with the absent letter read as `I` -/
theorem opAntiCount_eq_countP (a b : Op) :
    opAntiCount a b = a.countP (fun e => Pauli.anti e.2 (letterAt b e.1)) := by
  unfold opAntiCount
  rw [← List.countP_eq_length_filter]
  apply List.countP_congr
  intro e _
  unfold letterAt
  cases hb : b.get? e.1 with
  | none =>
    have hI : Pauli.anti e.2 Pauli.I = false := by cases e.2 <;> rfl
    simp [hI]
  | some p' => simp

/-- the symplectic product of the BSF rows of two dicts is the parity of `opAntiCount` -/
theorem symp_rowOf (qs : List Coord) (hqs : qs.Nodup) (a b : Op)
    (ha : (a.map Prod.fst).Nodup) (hb : (b.map Prod.fst).Nodup) (hsa : ∀ e ∈ a, e.1 ∈ qs) :
    symp (rowOf qs a) (rowOf qs b) = opAntiCount a b % 2 := by
  unfold symp
  rw [xPart_rowOf, zPart_rowOf, xPart_rowOf, zPart_rowOf, dot_map_map, dot_map_map, sum_map_add,
    sum_map_mod2]
  have hx := opCount_eq_letter Pauli.xBit xBit_01 rfl
  have hz := opCount_eq_letter Pauli.zBit zBit_01 rfl
  have : (qs.map fun q => (opCount a q Pauli.xBit * opCount b q Pauli.zBit +
        opCount a q Pauli.zBit * opCount b q Pauli.xBit) % 2)
      = qs.map fun q => if Pauli.anti (letterAt a q) (letterAt b q) = true then 1 else 0 := by
    apply List.map_congr_left
    intro q _
    rw [hx a ha q, hz b hb q, hz a ha q, hx b hb q]
    exact bits_anti _ _
  rw [this, sum_anti_eq_count qs hqs (letterAt b) a ha hsa, opAntiCount_eq_countP]

end Panqec.Lat2D
