/-
HollowRhombicCode, all sizes of the family (`Lx, Ly ≥ 2`, `Lz ≥ 3`), C17 part B: the packing bound
(`lower_bound`, through `Lattice.packing_bound` and `Lattice.same_class`), the weights of the listed
logicals in closed form and the reported distance.

Representatives of `X̄` (the sheet `z = 4`): the `Lz` sheets `z = 2i` (existing x- and y-edges).
Representatives of `Z̄` (the stack `(2Lx−1, 2Ly−2, ·)`): one vertical stack over every key of the
listed sheet — as many as the weight of `X̄`.  Each representative commutes with all generators
and has the parities of the listed logical against the two listed logicals, so by C04 (the code
being valid: every size of the family that is not deficient) it differs from the listed logical
by a product of generators.
-/
import PanqecVerif.Proofs.DistHollowRhombicCodeA
import PanqecVerif.Proofs.DistClass

set_option linter.unusedVariables false
set_option linter.unusedSimpArgs false

namespace Panqec.HollowRhombicCode
open Panqec.Cubic3D
open Panqec.Planar3DCode (inE inO inE2 inO1)

variable {Lx Ly Lz : Nat}

/-! ### one-letter operators over an index list -/

/-- the side conditions of `Lattice.packing_bound` for the one-letter operators on the key lists
    `K i`, `i ∈ I` -/
theorem listReps {ι : Type} (qs : List Coord) (I : List ι) (K : ι → List Coord) (P : Pauli)
    (hI : I.Nodup) (hnd : ∀ i ∈ I, (K i).Nodup) (hq : ∀ i ∈ I, ∀ q ∈ K i, q ∈ qs)
    (hdis : ∀ i ∈ I, ∀ i' ∈ I, i ≠ i' → ∀ q ∈ K i, q ∉ K i') :
    (∀ r ∈ I.map fun i => uop (K i) P, KeysNodup r ∧ opSupported qs r = true) ∧
    (I.map fun i => uop (K i) P).Pairwise KeysDisjoint := by
  constructor
  · intro r hr
    obtain ⟨i, hi, rfl⟩ := List.mem_map.mp hr
    exact ⟨keysNodup_line P (hnd i hi), opSupported_line P (hq i hi)⟩
  · rw [List.pairwise_map]
    refine List.Pairwise.imp_of_mem ?_ hI
    intro i i' hi hi' hne q h1 h2
    have e1 : (uop (K i) P).map Prod.fst = K i := uop_keys _ _
    have e2 : (uop (K i') P).map Prod.fst = K i' := uop_keys _ _
    rw [e1] at h1
    rw [e2] at h2
    exact hdis i hi i' hi' hne q h1 h2

theorem anti_XX : Pauli.anti Pauli.X Pauli.X = false := rfl
theorem anti_ZZ : Pauli.anti Pauli.Z Pauli.Z = false := rfl
theorem anti_XZ : Pauli.anti Pauli.X Pauli.Z = true := rfl
theorem anti_ZX : Pauli.anti Pauli.Z Pauli.X = true := rfl

/-! ### the generators against sheets and stacks -/

/-- every sheet of even height commutes with every generator -/
theorem sheetH_comm {h : Int} (hh : h % 2 = 0) :
    ∀ s ∈ (lattice Lx Ly Lz).stabs,
      opAntiCount ((lattice Lx Ly Lz).getStab s) (uop (sheetH Lx Ly Lz h) Pauli.X) % 2 = 0 := by
  intro s hs
  rcases mem_stabs.mp hs with ⟨x, y, z, rfl, hc⟩ | ⟨a, x, y, z, rfl, ha, hv, hk⟩
  · rw [getStab_cube', opAntiCount_uop, anti_XX]; rfl
  · rw [getStab_tri' _ _ _ ha, opAntiCount_uop, anti_ZX, if_pos rfl]
    exact sheetH_tri_even hh ha hv hk

/-- every stack over a base commutes with every generator -/
theorem stack_comm {sx sy : Int} (hb : StackBase Lx Ly Lz sx sy) :
    ∀ s ∈ (lattice Lx Ly Lz).stabs,
      opAntiCount ((lattice Lx Ly Lz).getStab s) (uop (stackK Lz sx sy) Pauli.Z) % 2 = 0 := by
  intro s hs
  rcases mem_stabs.mp hs with ⟨x, y, z, rfl, hc⟩ | ⟨a, x, y, z, rfl, ha, hv, hk⟩
  · rw [getStab_cube', opAntiCount_uop, anti_XZ, if_pos rfl,
      ov_comm (nodup_cubeKeys _ _ _ _ _ _) (nodup_stackK _ _ _)]
    exact stack_cube_even hb hc
  · rw [getStab_tri' _ _ _ ha, opAntiCount_uop, anti_ZZ]; rfl

/-- the position of the listed line is a base (`Lx, Ly ≥ 1`, `Lz ≥ 3`) -/
theorem line_base (hx : 1 ≤ Lx) (hy : 1 ≤ Ly) (hz : 3 ≤ Lz) :
    StackBase Lx Ly Lz (2 * (Lx : Int) - 1) (2 * (Ly : Int) - 2) := by
  left
  refine ⟨by omega, by omega, ?_⟩
  unfold Qx Hole
  omega

/-! ### the packing bound -/

/-- every non-trivial logical operator of a valid `Lx × Ly × Lz` hollow rhombic code has weight
    `≥ min w Lz`, `w` the weight of the listed sheet -/
theorem lower_bound (hx : 2 ≤ Lx) (hy : 2 ≤ Ly) (hz : 3 ≤ Lz) (hwf : (lattice Lx Ly Lz).WF)
    {n k : Nat} (hn : (qubits Lx Ly Lz).length = n)
    (hv : ValidCodeL n k (lattice Lx Ly Lz).rowsH (lattice Lx Ly Lz).rowsX
      (lattice Lx Ly Lz).rowsZ) :
    ∀ v, IsNontrivialLogical n (lattice Lx Ly Lz).rowsH v →
      min (sheetKeys Lx Ly Lz).length Lz ≤ pauliWeight v := by
  have hbl := line_base (Lx := Lx) (Ly := Ly) (Lz := Lz) (by omega) (by omega) hz
  have hsheetOK : KeysNodup (uop (sheetKeys Lx Ly Lz) Pauli.X) ∧
      opSupported (qubits Lx Ly Lz) (uop (sheetKeys Lx Ly Lz) Pauli.X) = true :=
    ⟨keysNodup_line _ (nodup_sheetH Lx Ly Lz 4), opSupported_line _ (fun q hq => sheetH_sub q hq)⟩
  have hlineOK : KeysNodup (uop (lineKeys Lx Ly Lz) Pauli.Z) ∧
      opSupported (qubits Lx Ly Lz) (uop (lineKeys Lx Ly Lz) Pauli.Z) = true :=
    ⟨keysNodup_line _ (nodup_lineKeys Lx Ly Lz),
      opSupported_line _ (lineKeys_sub (by omega) (by omega))⟩
  apply Lattice.packing_bound (lattice Lx Ly Lz) hwf hn hv
  intro a ha
  change a ∈ logX Lx Ly Lz ++ logZ Lx Ly Lz at ha
  rw [logX_eq, logZ_eq] at ha
  simp only [List.cons_append, List.nil_append, List.mem_cons, List.not_mem_nil, or_false] at ha
  rcases ha with rfl | rfl
  · -- the sheets `z = 2i`
    obtain ⟨h2, h3⟩ := listReps (qubits Lx Ly Lz) (List.range Lz)
      (fun i => sheetH Lx Ly Lz (2 * (i : Int))) Pauli.X List.nodup_range
      (fun i _ => nodup_sheetH _ _ _ _) (fun i _ q hq => sheetH_sub q hq)
      (fun i _ i' _ hne q hq hq' => by
        obtain ⟨x, y, rfl⟩ := sheetH_height hq
        obtain ⟨x', y', e⟩ := sheetH_height hq'
        simp only [List.cons.injEq, and_true] at e
        omega)
    refine ⟨_, by rw [List.length_map, List.length_range]; omega, h2, h3, ?_⟩
    intro b _ _ hb r hr
    obtain ⟨i, hi, rfl⟩ := List.mem_map.mp hr
    have hi := List.mem_range.mp hi
    refine Lattice.same_class (lattice Lx Ly Lz) hwf hn hv (h2 _ hr) hsheetOK
      (sheetH_comm (by omega)) (sheetH_comm (h := 4) (by decide)) ?_ b hb
    intro m hm
    change m ∈ logX Lx Ly Lz ++ logZ Lx Ly Lz at hm
    rw [logX_eq, logZ_eq] at hm
    simp only [List.cons_append, List.nil_append, List.mem_cons, List.not_mem_nil, or_false] at hm
    rcases hm with rfl | rfl
    · rw [opAntiCount_uop, opAntiCount_uop, anti_XX]; rfl
    · rw [opAntiCount_uop, opAntiCount_uop, anti_ZX, if_pos rfl, if_pos rfl,
        line_sheetH_one (by omega) (by omega) (by unfold inE; omega), sheetKeys_eq,
        line_sheetH_one (by omega) (by omega) (by unfold inE; omega)]
  · -- the stacks over the keys of the listed sheet
    have hbase : ∀ q ∈ sheetKeys Lx Ly Lz,
        StackBase Lx Ly Lz (q.getD 0 0) (q.getD 1 0) ∧ q = [q.getD 0 0, q.getD 1 0, 4] := by
      intro q hq
      obtain ⟨sx, sy, rfl, hb⟩ := stackBase_of_mem hq
      exact ⟨hb, rfl⟩
    obtain ⟨h2, h3⟩ := listReps (qubits Lx Ly Lz) (sheetKeys Lx Ly Lz)
      (fun q => stackK Lz (q.getD 0 0) (q.getD 1 0)) Pauli.Z (nodup_sheetH Lx Ly Lz 4)
      (fun q _ => nodup_stackK _ _ _) (fun q hq => stack_sub (hbase q hq).1)
      (fun q hq q' hq' hne => stack_disjoint (by
        rw [← (hbase q hq).2, ← (hbase q' hq').2]; exact hne))
    refine ⟨_, by rw [List.length_map]; omega, h2, h3, ?_⟩
    intro b _ _ hb r hr
    obtain ⟨q, hq, rfl⟩ := List.mem_map.mp hr
    have hbq := (hbase q hq).1
    refine Lattice.same_class (lattice Lx Ly Lz) hwf hn hv (h2 _ hr) hlineOK
      (stack_comm hbq) (by rw [lineKeys_eq_stack]; exact stack_comm hbl) ?_ b hb
    intro m hm
    change m ∈ logX Lx Ly Lz ++ logZ Lx Ly Lz at hm
    rw [logX_eq, logZ_eq] at hm
    simp only [List.cons_append, List.nil_append, List.mem_cons, List.not_mem_nil, or_false] at hm
    rcases hm with rfl | rfl
    · rw [opAntiCount_uop, opAntiCount_uop, anti_XZ, if_pos rfl, if_pos rfl,
        sheet_stack_one hz hbq, lineKeys_eq_stack, sheet_stack_one hz hbl]
    · rw [opAntiCount_uop, opAntiCount_uop, anti_ZZ]; rfl

/-! ### the weight of the listed sheet in closed form -/

/-- the two loops of the sheet `z = 4` over the x edges and the y edges -/
def sheetGrid (Lx Ly Lz : Nat) : List Coord :=
  gridH Lx Ly Lz (range2 1 (2 * (Lx : Int) + 1)) (range2 0 (2 * (Ly : Int))) [4] ++
  gridH Lx Ly Lz (range2 2 (2 * (Lx : Int))) (range2 1 (2 * (Ly : Int) - 1)) [4]

theorem mem_gridH {xs ys zs : List Int} {q : Coord} :
    q ∈ gridH Lx Ly Lz xs ys zs ↔
      ∃ x ∈ xs, ∃ y ∈ ys, ∃ z ∈ zs, ¬ Hole Lx Ly Lz x y z ∧ q = [x, y, z] := by
  unfold gridH
  simp only [List.mem_flatMap, List.mem_map, List.mem_filter, Bool.not_eq_true', inHole_false_iff]
  constructor
  · rintro ⟨x, hx, y, hy, z, ⟨hz, hh⟩, rfl⟩; exact ⟨x, hx, y, hy, z, hz, hh, rfl⟩
  · rintro ⟨x, hx, y, hy, z, hz, hh, rfl⟩; exact ⟨x, hx, y, hy, z, ⟨hz, hh⟩, rfl⟩

theorem nodup_gridH (xs ys zs : List Int) (hxs : xs.Nodup) (hys : ys.Nodup) (hzs : zs.Nodup) :
    (gridH Lx Ly Lz xs ys zs).Nodup := by
  rw [gridH_eq]
  exact (nodup_grid hxs hys hzs).filter _

theorem sheetKeys_perm (hz : 3 ≤ Lz) : (sheetKeys Lx Ly Lz).Perm (sheetGrid Lx Ly Lz) := by
  have hnd : (sheetGrid Lx Ly Lz).Nodup := by
    unfold sheetGrid
    rw [List.nodup_append]
    refine ⟨nodup_gridH _ _ _ (nodup_range2 _ _) (nodup_range2 _ _) (by simp),
      nodup_gridH _ _ _ (nodup_range2 _ _) (nodup_range2 _ _) (by simp), ?_⟩
    intro a ha c hc e
    subst e
    obtain ⟨x, hx, y, hy, z, _, _, rfl⟩ := mem_gridH.mp ha
    obtain ⟨x', hx', y', hy', z', _, _, e⟩ := mem_gridH.mp hc
    simp only [List.cons.injEq, and_true] at e
    rw [mem_range2] at hx hx'
    omega
  rw [sheetKeys_eq, List.perm_ext_iff_of_nodup (nodup_sheetH Lx Ly Lz 4) hnd, ← sheetKeys_eq]
  intro q
  constructor
  · intro hq
    obtain ⟨sx, sy, rfl, hb⟩ := stackBase_of_mem hq
    unfold sheetGrid
    rw [List.mem_append]
    rcases hb with ⟨h1, h2, h3⟩ | ⟨h1, h2, h3⟩
    · left
      unfold Qx at h3
      exact mem_gridH.mpr ⟨sx, mem_range2.mpr (by omega), sy, mem_range2.mpr (by omega), 4,
        by simp, h3.2.2.2.2.2.2, rfl⟩
    · right
      unfold Qy at h3
      exact mem_gridH.mpr ⟨sx, mem_range2.mpr (by omega), sy, mem_range2.mpr (by omega), 4,
        by simp, h3.2.2.2.2.2.2, rfl⟩
  · intro hq
    unfold sheetGrid at hq
    rw [List.mem_append] at hq
    rcases hq with hq | hq
    · obtain ⟨x, hx, y, hy, z, hz4, hh, rfl⟩ := mem_gridH.mp hq
      have : z = 4 := by simpa using hz4
      subst this
      rw [mem_range2] at hx hy
      exact base_mem_sheet (Or.inl ⟨by omega, by omega, by
        unfold Qx
        exact ⟨by omega, by omega, by omega, by omega, by omega, by omega, hh⟩⟩)
    · obtain ⟨x, hx, y, hy, z, hz4, hh, rfl⟩ := mem_gridH.mp hq
      have : z = 4 := by simpa using hz4
      subst this
      rw [mem_range2] at hx hy
      exact base_mem_sheet (Or.inr ⟨by omega, by omega, by
        unfold Qy
        exact ⟨by omega, by omega, by omega, by omega, by omega, by omega, hh⟩⟩)

/-- the weight of the listed sheet: all x- and y-edges of a plane, minus — when the plane `z = 4`
    crosses the hole, i.e. `Lz ≥ 5` — the `(Lx−2)(Ly−4)` x-edges and `(Lx−3)(Ly−3)` y-edges in it -/
def wX (Lx Ly Lz : Nat) : Nat :=
  Lx * Ly + (Lx - 1) * (Ly - 1) -
    (if 5 ≤ Lz then (Lx - 2) * (Ly - 4) + (Lx - 3) * (Ly - 3) else 0)

open Planar3DCode (length_rangeE length_rangeO length_rangeE2 length_rangeO1) in
theorem length_sheetKeys (hz : 3 ≤ Lz) : (sheetKeys Lx Ly Lz).length = wX Lx Ly Lz := by
  rw [(sheetKeys_perm hz).length_eq]
  have h1 := length_gridH Lx Ly Lz (range2 1 (2 * (Lx : Int) + 1)) (range2 0 (2 * (Ly : Int))) [4]
  have h2 := length_gridH Lx Ly Lz (range2 2 (2 * (Lx : Int))) (range2 1 (2 * (Ly : Int) - 1)) [4]
  have e4 : ([(4 : Int)].filter (holeY Lz)).length = if 5 ≤ Lz then 1 else 0 := by
    have hv4 : holeY Lz 4 = decide (5 ≤ Lz) := by
      unfold holeY
      rw [Bool.eq_iff_iff]
      simp only [Bool.and_eq_true, decide_eq_true_eq]
      omega
    rw [List.filter_cons, hv4]
    by_cases h5 : 5 ≤ Lz
    · simp [h5]
    · simp [h5]
  simp only [len_holeX_E2, len_holeX_O1, len_holeY_E, len_holeY_O, length_rangeE, length_rangeO,
    length_rangeE2, length_rangeO1, e4, List.length_cons, List.length_nil] at h1 h2
  unfold sheetGrid wX
  rw [List.length_append]
  by_cases h5 : 5 ≤ Lz
  · simp only [if_pos h5] at h1 h2 ⊢
    omega
  · simp only [if_neg h5] at h1 h2 ⊢
    omega

/-! ### weights of the listed logicals, reported distance -/

theorem weight_listed (hwf : (lattice Lx Ly Lz).WF) {a : Op}
    (ha : a ∈ (lattice Lx Ly Lz).logX ++ (lattice Lx Ly Lz).logZ) :
    pauliWeight (opRow (lattice Lx Ly Lz).qubits a) = a.length :=
  pauliWeight_opRow _ hwf.qubits_nodup a (hwf.log_keys a ha) (hwf.log_supported a ha)

theorem length_uop (ks : List Coord) (p : Pauli) : (uop ks p).length = ks.length := by
  simp [uop]

/-- the weight of the row of `logicals_x` is `wX` (the sheet `z = 4`), of the row of `logicals_z`
    `Lz` (a vertical stack of x-edges) -/
theorem weights_listed (hz : 3 ≤ Lz) (hwf : (lattice Lx Ly Lz).WF) :
    (lattice Lx Ly Lz).rowsX.map pauliWeight = [wX Lx Ly Lz] ∧
    (lattice Lx Ly Lz).rowsZ.map pauliWeight = [Lz] := by
  have hw := fun a ha => weight_listed hwf (a := a) ha
  change ∀ a, a ∈ logX Lx Ly Lz ++ logZ Lx Ly Lz → _ at hw
  rw [logX_eq, logZ_eq] at hw
  unfold Lattice.rowsX Lattice.rowsZ
  change (List.map (opRow (lattice Lx Ly Lz).qubits) (logX Lx Ly Lz)).map pauliWeight = _ ∧
    (List.map (opRow (lattice Lx Ly Lz).qubits) (logZ Lx Ly Lz)).map pauliWeight = _
  rw [logX_eq, logZ_eq]
  simp only [List.map_cons, List.map_nil]
  rw [hw _ (by simp), hw _ (by simp)]
  simp only [length_uop, length_sheetKeys hz, lineKeys, List.length_map, Planar3DCode.length_rangeE]
  exact ⟨trivial, trivial⟩

/-- `code.d` (minimum weight of the listed logicals) is `min wX Lz` -/
theorem reported_distance (hz : 3 ≤ Lz) (hwf : (lattice Lx Ly Lz).WF) :
    distance (lattice Lx Ly Lz).rowsX (lattice Lx Ly Lz).rowsZ = some (min (wX Lx Ly Lz) Lz) := by
  obtain ⟨h1, h2⟩ := weights_listed hz hwf
  unfold distance
  show (match listMin ((lattice Lx Ly Lz).rowsX.map pauliWeight),
    listMin ((lattice Lx Ly Lz).rowsZ.map pauliWeight) with
    | some a, some b => some (min a b)
    | _, _ => none) = _
  rw [h1, h2]
  rfl

end Panqec.HollowRhombicCode
