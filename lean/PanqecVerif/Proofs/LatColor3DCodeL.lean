/-
Color3DCode, even sides `≥ 2`: the anticommutation count of a string of `get_logicals_x` (block
form) with a membrane of `get_logicals_z` (normal form) is, modulo 2, the literal evaluation of the
first block, provided the literal evaluation of a far block is even.  Core Lean only.
-/
import PanqecVerif.Proofs.LatColor3DCodeK
import PanqecVerif.Proofs.LatColor3DCodeI

set_option linter.unusedVariables false

namespace Panqec.Color3DCode
open Panqec.Lat2D Panqec.Color

/-- reduced coordinate of a point translated by a non-zero multiple of 8 from `[0, 8)` -/
def redFar : Kind → Int → Int
  | .thin _ _, _ => 9
  | .thick, a => a % 8

def Kind.Small : Kind → Prop
  | .thin v τ => 0 ≤ τ ∧ v + τ < 8
  | .thick => True

instance (k : Kind) : Decidable k.Small := by
  cases k <;> unfold Kind.Small <;> infer_instance

theorem red_shift {k : Kind} (hk : k.Small) {a j : Int} (ha : 0 ≤ a) (hj : 1 ≤ j) :
    redA k (a + 8 * j) = redFar k a := by
  cases k with
  | thin v τ =>
    obtain ⟨h0, h1⟩ := hk
    simp only [redA, redFar, clamp]
    rw [if_neg (by omega)]
  | thick => simp only [redA, redFar]; omega

def redSel (k : Kind) (isAx far : Bool) (a : Int) : Int :=
  if isAx && far then redFar k a else redA k a

/-- literal evaluation of a block: the first one (`far = false`) or any later one -/
def evalBlk (M : Int → Int → Int → Bool) (kx ky kz : Kind) (ax : Nat) (b0 : List D3) (far : Bool) : Nat :=
  b0.countP fun q => M (redSel kx (ax == 0) far q.1) (redSel ky (ax == 1) far q.2.1)
    (redSel kz (ax == 2) far q.2.2)

def SmallBlk (b0 : List D3) : Prop :=
  ∀ q ∈ b0, 0 ≤ q.1 ∧ q.1 < 8 ∧ 0 ≤ q.2.1 ∧ q.2.1 < 8 ∧ 0 ≤ q.2.2 ∧ q.2.2 < 8

instance (b0 : List D3) : Decidable (SmallBlk b0) := by unfold SmallBlk; infer_instance

/-- the axis `ax` has `2M` unit cells -/
def AxLen (ax : Nat) (Lx Ly Lz M : Nat) : Prop :=
  (ax = 0 ∧ Lx = 2 * M) ∨ (ax = 1 ∧ Ly = 2 * M) ∨ (ax = 2 ∧ Lz = 2 * M)

theorem blk_count {Lx Ly Lz : Nat} (hx : 2 ≤ Lx) (hy : 2 ≤ Ly) (hz : 2 ≤ Lz) {K : List Coord}
    {M : Int → Int → Int → Bool} {kx ky kz : Kind} (hK : NF Lx Ly Lz K M kx ky kz)
    (sx : kx.Small) (sy : ky.Small) (sz : kz.Small) {ax M' : Nat} (hax : AxLen ax Lx Ly Lz M')
    {b0 : List D3} (hb : SmallBlk b0) {k : Nat} (hk : k < M') :
    (b0.map fun q => toC (shiftAx ax (8 * (k : Int)) q)).countP (fun q => decide (q ∈ K)) =
      evalBlk M kx ky kz ax b0 (decide (1 ≤ k)) := by
  unfold evalBlk
  rw [List.countP_map]
  apply List.countP_congr
  intro q hq
  have hs := hb q hq
  simp only [Function.comp]
  rcases hax with ⟨rfl, hL⟩ | ⟨rfl, hL⟩ | ⟨rfl, hL⟩
  · have hbox : InBox Lx Ly Lz (q.1 + 8 * (k : Int)) q.2.1 q.2.2 := by unfold InBox; omega
    have h := hK _ _ _ hbox
    simp only [shiftAx, toC, if_true]
    rw [decide_eq_true_iff, h]
    by_cases h1 : 1 ≤ k
    · simp only [redSel, h1, decide_true, beq_self_eq_true, Bool.and_self, if_true,
        Nat.reduceBEq, Bool.false_and, Bool.false_eq_true, if_false]
      rw [red_shift sx (by omega) (by omega)]
    · have : k = 0 := by omega
      subst this
      simp only [redSel, h1, decide_false, Bool.and_false, Bool.false_eq_true, if_false,
        Int.natCast_zero, Int.mul_zero, Int.add_zero]
  · have hbox : InBox Lx Ly Lz q.1 (q.2.1 + 8 * (k : Int)) q.2.2 := by unfold InBox; omega
    have h := hK _ _ _ hbox
    simp only [shiftAx, toC, Nat.one_ne_zero, if_false, if_true]
    rw [decide_eq_true_iff, h]
    by_cases h1 : 1 ≤ k
    · simp only [redSel, h1, decide_true, beq_self_eq_true, Bool.and_self, if_true,
        Nat.reduceBEq, Bool.false_and, Bool.false_eq_true, if_false]
      rw [red_shift sy (by omega) (by omega)]
    · have : k = 0 := by omega
      subst this
      simp only [redSel, h1, decide_false, Bool.and_false, Bool.false_eq_true, if_false,
        Int.natCast_zero, Int.mul_zero, Int.add_zero]
  · have hbox : InBox Lx Ly Lz q.1 q.2.1 (q.2.2 + 8 * (k : Int)) := by unfold InBox; omega
    have h := hK _ _ _ hbox
    simp only [shiftAx, toC, Nat.reduceEqDiff, if_false]
    rw [decide_eq_true_iff, h]
    by_cases h1 : 1 ≤ k
    · simp only [redSel, h1, decide_true, beq_self_eq_true, Bool.and_self, if_true,
        Nat.reduceBEq, Bool.false_and, Bool.false_eq_true, if_false]
      rw [red_shift sz (by omega) (by omega)]
    · have : k = 0 := by omega
      subst this
      simp only [redSel, h1, decide_false, Bool.and_false, Bool.false_eq_true, if_false,
        Int.natCast_zero, Int.mul_zero, Int.add_zero]

theorem sum_range_parity (f : Nat → Nat) (e0 : Nat) (h0 : f 0 = e0)
    (h1 : ∀ k, 1 ≤ k → f k % 2 = 0) : ∀ n, ((List.range (n + 1)).map f).sum % 2 = e0 % 2 := by
  intro n
  rw [List.range_succ_eq_map, List.map_cons, List.sum_cons, List.map_map, h0]
  have := sum_even (List.range n) (f ∘ Nat.succ) (fun k _ => h1 (k + 1) (by omega))
  omega

theorem pair_count {Lx Ly Lz : Nat} (hx : 2 ≤ Lx) (hy : 2 ≤ Ly) (hz : 2 ≤ Lz) {K : List Coord}
    {M : Int → Int → Int → Bool} {kx ky kz : Kind} (hK : NF Lx Ly Lz K M kx ky kz)
    (sx : kx.Small) (sy : ky.Small) (sz : kz.Small) {ax M' : Nat} (hax : AxLen ax Lx Ly Lz M')
    {b0 : List D3} (hb : SmallBlk b0) (e1 : evalBlk M kx ky kz ax b0 true % 2 = 0) :
    (blockKeys ax b0 M').countP (fun q => decide (q ∈ K)) % 2 = evalBlk M kx ky kz ax b0 false % 2 := by
  have hM : 1 ≤ M' := by
    rcases hax with ⟨_, h⟩ | ⟨_, h⟩ | ⟨_, h⟩ <;> omega
  unfold blockKeys
  rw [countP_flatMap_sum]
  have hc : ∀ k ∈ List.range M',
      ((b0.map fun q => toC (shiftAx ax (8 * (k : Int)) q)).countP fun q => decide (q ∈ K)) =
        evalBlk M kx ky kz ax b0 (decide (1 ≤ k)) := by
    intro k hk
    exact blk_count hx hy hz hK sx sy sz hax hb (List.mem_range.mp hk)
  rw [List.map_congr_left hc]
  obtain ⟨n, rfl⟩ : ∃ n, M' = n + 1 := ⟨M' - 1, by omega⟩
  apply sum_range_parity
  · simp
  · intro k hk
    simp only [hk, decide_true]
    exact e1

/-! ### distinct keys -/

theorem toC_shift_inj {ax : Nat} {s : Int} {q q' : D3} (h : toC (shiftAx ax s q) = toC (shiftAx ax s q')) :
    q = q' := by
  obtain ⟨a, b, c⟩ := q
  obtain ⟨a', b', c'⟩ := q'
  unfold toC shiftAx at h
  by_cases h0 : ax = 0
  · simp only [h0, if_true, List.cons.injEq, and_true] at h
    simp only [Prod.mk.injEq]; omega
  · by_cases h1 : ax = 1
    · simp only [h1, Nat.one_ne_zero, if_false, if_true, List.cons.injEq, and_true] at h
      simp only [Prod.mk.injEq]; omega
    · simp only [h0, h1, if_false, List.cons.injEq, and_true] at h
      simp only [Prod.mk.injEq]; omega

theorem nodup_blockKeys {ax : Nat} {b0 : List D3} (hb : SmallBlk b0) (hn : b0.Nodup) (M : Nat) :
    (blockKeys ax b0 M).Nodup := by
  unfold blockKeys
  show List.Pairwise _ _
  rw [List.pairwise_flatMap]
  constructor
  · intro k _
    rw [List.pairwise_map]
    exact hn.imp (fun hne h => hne (toC_shift_inj h))
  · have hr : (List.range M).Nodup := List.nodup_range
    refine List.Pairwise.imp ?_ hr
    intro k k' hne q hq r hr e
    subst e
    apply hne
    simp only [List.mem_map] at hq hr
    obtain ⟨p, hp, rfl⟩ := hq
    obtain ⟨p', hp', e⟩ := hr
    have s1 := hb p hp
    have s2 := hb p' hp'
    obtain ⟨a, b, c⟩ := p
    obtain ⟨a', b', c'⟩ := p'
    unfold toC shiftAx at e
    by_cases h0 : ax = 0
    · simp only [h0, if_true, List.cons.injEq, and_true] at e
      simp only at s1 s2; omega
    · by_cases h1 : ax = 1
      · simp only [h1, Nat.one_ne_zero, if_false, if_true, List.cons.injEq, and_true] at e
        simp only at s1 s2; omega
      · simp only [h0, h1, if_false, List.cons.injEq, and_true] at e
        simp only at s1 s2; omega

/-- the pairing count of an X string (block form) and a Z membrane (normal form) -/
theorem pair_gen {Lx Ly Lz : Nat} (hx : 2 ≤ Lx) (hy : 2 ≤ Ly) (hz : 2 ≤ Lz) {K : List Coord}
    {M : Int → Int → Int → Bool} {kx ky kz : Kind} (hK : NF Lx Ly Lz K M kx ky kz)
    (sx : kx.Small) (sy : ky.Small) (sz : kz.Small) {ax M' : Nat} (hax : AxLen ax Lx Ly Lz M')
    {b0 : List D3} (hb : SmallBlk b0) (hn : b0.Nodup) (e1 : evalBlk M kx ky kz ax b0 true % 2 = 0) :
    opAntiCount (lineOp (blockKeys ax b0 M') Pauli.X) (lineOp K Pauli.Z) % 2 =
      evalBlk M kx ky kz ax b0 false % 2 := by
  rw [lineOp_firstOcc, lineOp_firstOcc, opAntiCount_const,
    firstOcc_eq_self (nodup_blockKeys hb hn M')]
  simp only [Pauli.anti, show (Pauli.X != Pauli.I) = true by decide,
    show (Pauli.Z != Pauli.I) = true by decide, show (Pauli.X != Pauli.Z) = true by decide,
    Bool.and_self, if_true]
  rw [← pair_count hx hy hz hK sx sy sz hax hb e1]
  unfold interCount
  congr 1
  apply List.countP_congr
  intro q _
  simp only [List.contains_eq_mem, decide_eq_true_eq, mem_firstOcc]

end Panqec.Color3DCode
