/-
Toric2DCode, all sizes: the vertex/qubit and the face/qubit incidence structures of the lattice
model are simple 2-regular graphs when both sides are ≥ 3 — every qubit lies on exactly two
generators of each type (already for sides ≥ 2), two different generators of one type share at
most one qubit (sides ≥ 3) — and have PARALLEL EDGES as soon as one side is 2.

With `Proofs/LatToric2DCodeSector.lean` (the sector matrices are these incidence matrices) and
`Proofs/UnionFindIncidence.lean` (incidence criterion) this gives `closedGraph` of `code.Hz` and
`code.Hx` for every `Lx, Ly ≥ 3` and `graphLike = false` for every size with a side equal to 2;
`closedMultigraph` (parallel edges allowed: the hypothesis of the union-find theorems since the
repair of `Peeling_Tree.peel`) holds for EVERY `Lx, Ly ≥ 2`.
-/
import PanqecVerif.Proofs.LatToric2DCodeSector

set_option linter.unusedVariables false

namespace Panqec.Toric2DCode
open Panqec.Lat2D Panqec.UF

/-! ### one coordinate: cyclic predecessor / successor -/

theorem predW_range (a P : Int) (h0 : 0 ≤ a) (h1 : a < P) :
    0 ≤ predW a P ∧ predW a P < P := by
  have := predW_spec a P; omega

theorem succW_range (a P : Int) (h0 : 0 ≤ a) (h1 : a < P) :
    0 ≤ succW a P ∧ succW a P < P := by
  have := succW_spec a P; omega

theorem predW_parity (a P : Int) (h0 : 0 ≤ a) (h1 : a < P) (hP : P % 2 = 0) :
    predW a P % 2 = 1 - a % 2 := by
  have := predW_spec a P; omega

theorem succW_parity (a P : Int) (h0 : 0 ≤ a) (h1 : a < P) (hP : P % 2 = 0) :
    succW a P % 2 = 1 - a % 2 := by
  have := succW_spec a P; omega

theorem pred_ne_succ (a P : Int) (h0 : 0 ≤ a) (h1 : a < P) (hP : 3 ≤ P) :
    predW a P ≠ succW a P := by
  have := predW_spec a P; have := succW_spec a P; omega

/-- `b` is a cyclic neighbour of `q` iff `q` is a cyclic neighbour of `b` -/
theorem wrap_sym (b q P : Int) (hb0 : 0 ≤ b) (hb1 : b < P) (hq0 : 0 ≤ q) (hq1 : q < P) :
    (q = predW b P ∨ q = succW b P) ↔ (b = predW q P ∨ b = succW q P) := by
  have := predW_spec b P; have := succW_spec b P
  have := predW_spec q P; have := succW_spec q P
  omega

/-- on a cycle of length ≥ 5 the two neighbours determine the point -/
theorem cyc_unique (P a b c d : Int) (hP : 5 ≤ P)
    (hc0 : 0 ≤ c) (hc1 : c < P) (hd0 : 0 ≤ d) (hd1 : d < P) (hab : a ≠ b)
    (ha : a = predW c P ∨ a = succW c P) (hb : b = predW c P ∨ b = succW c P)
    (ha' : a = predW d P ∨ a = succW d P) (hb' : b = predW d P ∨ b = succW d P) : c = d := by
  have := predW_spec c P; have := succW_spec c P
  have := predW_spec d P; have := succW_spec d P
  omega

/-! ### incidence = end points -/

/-- a qubit whose `x` parity differs from the generator's: incident iff same `y` and
    cyclically adjacent `x` -/
theorem nbr_endsH (PX PY bx by' qx qy : Int)
    (hb0 : 0 ≤ bx) (hb1 : bx < PX) (hq0 : 0 ≤ qx) (hq1 : qx < PX) (hpar : bx % 2 ≠ qx % 2) :
    nbr PX PY bx by' qx qy ↔
      ((bx = predW qx PX ∧ by' = qy) ∨ (bx = succW qx PX ∧ by' = qy)) := by
  have hs := wrap_sym bx qx PX hb0 hb1 hq0 hq1
  have hne : qx ≠ bx := by intro h; rw [h] at hpar; exact hpar rfl
  unfold nbr
  constructor
  · rintro (⟨h1, h2⟩ | ⟨h1, h2⟩ | ⟨h1, _⟩ | ⟨h1, _⟩)
    · rcases hs.mp (Or.inl h1) with h | h
      · exact Or.inl ⟨h, h2.symm⟩
      · exact Or.inr ⟨h, h2.symm⟩
    · rcases hs.mp (Or.inr h1) with h | h
      · exact Or.inl ⟨h, h2.symm⟩
      · exact Or.inr ⟨h, h2.symm⟩
    · exact absurd h1 hne
    · exact absurd h1 hne
  · rintro (⟨h1, h2⟩ | ⟨h1, h2⟩)
    · rcases hs.mpr (Or.inl h1) with h | h
      · exact Or.inl ⟨h, h2.symm⟩
      · exact Or.inr (Or.inl ⟨h, h2.symm⟩)
    · rcases hs.mpr (Or.inr h1) with h | h
      · exact Or.inl ⟨h, h2.symm⟩
      · exact Or.inr (Or.inl ⟨h, h2.symm⟩)

/-- a qubit whose `y` parity differs from the generator's: incident iff same `x` and
    cyclically adjacent `y` -/
theorem nbr_endsV (PX PY bx by' qx qy : Int)
    (hb0 : 0 ≤ by') (hb1 : by' < PY) (hq0 : 0 ≤ qy) (hq1 : qy < PY) (hpar : by' % 2 ≠ qy % 2) :
    nbr PX PY bx by' qx qy ↔
      ((bx = qx ∧ by' = predW qy PY) ∨ (bx = qx ∧ by' = succW qy PY)) := by
  have hs := wrap_sym by' qy PY hb0 hb1 hq0 hq1
  have hne : qy ≠ by' := by intro h; rw [h] at hpar; exact hpar rfl
  unfold nbr
  constructor
  · rintro (⟨_, h2⟩ | ⟨_, h2⟩ | ⟨h1, h2⟩ | ⟨h1, h2⟩)
    · exact absurd h2 hne
    · exact absurd h2 hne
    · rcases hs.mp (Or.inl h2) with h | h
      · exact Or.inl ⟨h1.symm, h⟩
      · exact Or.inr ⟨h1.symm, h⟩
    · rcases hs.mp (Or.inr h2) with h | h
      · exact Or.inl ⟨h1.symm, h⟩
      · exact Or.inr ⟨h1.symm, h⟩
  · rintro (⟨h1, h2⟩ | ⟨h1, h2⟩)
    · rcases hs.mpr (Or.inl h2) with h | h
      · exact Or.inr (Or.inr (Or.inl ⟨h1.symm, h⟩))
      · exact Or.inr (Or.inr (Or.inr ⟨h1.symm, h⟩))
    · rcases hs.mpr (Or.inr h2) with h | h
      · exact Or.inr (Or.inr (Or.inl ⟨h1.symm, h⟩))
      · exact Or.inr (Or.inr (Or.inr ⟨h1.symm, h⟩))

/-! ### generators of one type (`t = 0` vertices, `t = 1` faces) -/

/-- location of a generator of type `t` -/
def IsS (t : Int) (Lx Ly : Nat) (x y : Int) : Prop := InBox Lx Ly x y ∧ x % 2 = t ∧ y % 2 = t

theorem isS_zero {Lx Ly : Nat} {x y : Int} : IsS 0 Lx Ly x y ↔ IsV Lx Ly x y := Iff.rfl
theorem isS_one {Lx Ly : Nat} {x y : Int} : IsS 1 Lx Ly x y ↔ IsF Lx Ly x y := Iff.rfl

section oneType
variable {Lx Ly : Nat} {t : Int}

/-- **every qubit lies on exactly two generators of type `t`** (sides ≥ 2) -/
theorem two_per_qubit (ht : t = 0 ∨ t = 1) (hx : 2 ≤ Lx) (hy : 2 ≤ Ly) (V : List Coord)
    (hnd : V.Nodup) (hmem : ∀ s, s ∈ V ↔ ∃ x y, s = [x, y] ∧ IsS t Lx Ly x y)
    (q : Coord) (hq : q ∈ qubits Lx Ly) : V.countP (fun v => inc Lx Ly v q) = 2 := by
  obtain ⟨qx, qy, rfl, hQ⟩ := mem_qubits.mp hq
  unfold IsQ InBox at hQ
  by_cases hpx : qx % 2 = t
  · -- the qubit differs from the generators in the `y` parity
    have hpy : qy % 2 ≠ t := by omega
    have r1 := predW_range qy (2 * (Ly : Int)) (by omega) (by omega)
    have r2 := succW_range qy (2 * (Ly : Int)) (by omega) (by omega)
    have p1 := predW_parity qy (2 * (Ly : Int)) (by omega) (by omega) (by omega)
    have p2 := succW_parity qy (2 * (Ly : Int)) (by omega) (by omega) (by omega)
    have hne := pred_ne_succ qy (2 * (Ly : Int)) (by omega) (by omega) (by omega)
    apply countP_eq_two_of_ends V hnd _ [qx, predW qy (2 * (Ly : Int))]
      [qx, succW qy (2 * (Ly : Int))]
    · exact (hmem _).mpr ⟨_, _, rfl, by unfold IsS InBox; omega⟩
    · exact (hmem _).mpr ⟨_, _, rfl, by unfold IsS InBox; omega⟩
    · intro h
      simp only [List.cons.injEq, and_true, true_and] at h
      exact hne h
    · intro v hv
      obtain ⟨bx, by', rfl, hS⟩ := (hmem v).mp hv
      unfold IsS InBox at hS
      rw [inc_iff, nbr_endsV _ _ bx by' qx qy (by omega) (by omega) (by omega) (by omega)
        (by omega)]
      simp only [List.cons.injEq, and_true]
  · have hpy : qy % 2 = t := by omega
    have r1 := predW_range qx (2 * (Lx : Int)) (by omega) (by omega)
    have r2 := succW_range qx (2 * (Lx : Int)) (by omega) (by omega)
    have p1 := predW_parity qx (2 * (Lx : Int)) (by omega) (by omega) (by omega)
    have p2 := succW_parity qx (2 * (Lx : Int)) (by omega) (by omega) (by omega)
    have hne := pred_ne_succ qx (2 * (Lx : Int)) (by omega) (by omega) (by omega)
    apply countP_eq_two_of_ends V hnd _ [predW qx (2 * (Lx : Int)), qy]
      [succW qx (2 * (Lx : Int)), qy]
    · exact (hmem _).mpr ⟨_, _, rfl, by unfold IsS InBox; omega⟩
    · exact (hmem _).mpr ⟨_, _, rfl, by unfold IsS InBox; omega⟩
    · intro h
      simp only [List.cons.injEq, and_true] at h
      exact hne h
    · intro v hv
      obtain ⟨bx, by', rfl, hS⟩ := (hmem v).mp hv
      unfold IsS InBox at hS
      rw [inc_iff, nbr_endsH _ _ bx by' qx qy (by omega) (by omega) (by omega) (by omega)
        (by omega)]
      simp only [List.cons.injEq, and_true]

/-- **two different generators of type `t` share at most one qubit** (sides ≥ 3) -/
theorem share_unique (ht : t = 0 ∨ t = 1) (hx : 3 ≤ Lx) (hy : 3 ≤ Ly)
    {ax ay bx by' : Int} (ha : IsS t Lx Ly ax ay) (hb : IsS t Lx Ly bx by')
    (hab : ¬ (ax = bx ∧ ay = by'))
    {q1x q1y q2x q2y : Int} (h1 : IsQ Lx Ly q1x q1y) (h2 : IsQ Lx Ly q2x q2y)
    (ha1 : nbr (2 * (Lx : Int)) (2 * (Ly : Int)) ax ay q1x q1y)
    (hb1 : nbr (2 * (Lx : Int)) (2 * (Ly : Int)) bx by' q1x q1y)
    (ha2 : nbr (2 * (Lx : Int)) (2 * (Ly : Int)) ax ay q2x q2y)
    (hb2 : nbr (2 * (Lx : Int)) (2 * (Ly : Int)) bx by' q2x q2y) :
    q1x = q2x ∧ q1y = q2y := by
  unfold IsS InBox at ha hb
  unfold IsQ InBox at h1 h2
  by_cases hp1 : q1x % 2 = t
  · -- `q1` is adjacent in `y`
    rw [nbr_endsV _ _ _ _ _ _ (by omega) (by omega) (by omega) (by omega) (by omega)] at ha1 hb1
    by_cases hp2 : q2x % 2 = t
    · rw [nbr_endsV _ _ _ _ _ _ (by omega) (by omega) (by omega) (by omega) (by omega)] at ha2 hb2
      have hx1 : ax = q1x := by rcases ha1 with h | h <;> exact h.1
      have hx2 : ax = q2x := by rcases ha2 with h | h <;> exact h.1
      have hbx : bx = q1x := by rcases hb1 with h | h <;> exact h.1
      have hne : ay ≠ by' := fun h => hab ⟨by omega, h⟩
      refine ⟨by omega, ?_⟩
      exact cyc_unique (2 * (Ly : Int)) ay by' q1y q2y (by omega) (by omega) (by omega) (by omega)
        (by omega) hne
        (by rcases ha1 with h | h; exact Or.inl h.2; exact Or.inr h.2)
        (by rcases hb1 with h | h; exact Or.inl h.2; exact Or.inr h.2)
        (by rcases ha2 with h | h; exact Or.inl h.2; exact Or.inr h.2)
        (by rcases hb2 with h | h; exact Or.inl h.2; exact Or.inr h.2)
    · rw [nbr_endsH _ _ _ _ _ _ (by omega) (by omega) (by omega) (by omega) (by omega)] at ha2 hb2
      exfalso
      have hx1 : ax = q1x := by rcases ha1 with h | h <;> exact h.1
      have hbx : bx = q1x := by rcases hb1 with h | h <;> exact h.1
      have hy1 : ay = q2y := by rcases ha2 with h | h <;> exact h.2
      have hby : by' = q2y := by rcases hb2 with h | h <;> exact h.2
      exact hab ⟨by omega, by omega⟩
  · rw [nbr_endsH _ _ _ _ _ _ (by omega) (by omega) (by omega) (by omega) (by omega)] at ha1 hb1
    by_cases hp2 : q2x % 2 = t
    · rw [nbr_endsV _ _ _ _ _ _ (by omega) (by omega) (by omega) (by omega) (by omega)] at ha2 hb2
      exfalso
      have hx1 : ax = q2x := by rcases ha2 with h | h <;> exact h.1
      have hbx : bx = q2x := by rcases hb2 with h | h <;> exact h.1
      have hy1 : ay = q1y := by rcases ha1 with h | h <;> exact h.2
      have hby : by' = q1y := by rcases hb1 with h | h <;> exact h.2
      exact hab ⟨by omega, by omega⟩
    · rw [nbr_endsH _ _ _ _ _ _ (by omega) (by omega) (by omega) (by omega) (by omega)] at ha2 hb2
      have hy1 : ay = q1y := by rcases ha1 with h | h <;> exact h.2
      have hy2 : ay = q2y := by rcases ha2 with h | h <;> exact h.2
      have hby : by' = q1y := by rcases hb1 with h | h <;> exact h.2
      have hne : ax ≠ bx := fun h => hab ⟨h, by omega⟩
      refine ⟨?_, by omega⟩
      exact cyc_unique (2 * (Lx : Int)) ax bx q1x q2x (by omega) (by omega) (by omega) (by omega)
        (by omega) hne
        (by rcases ha1 with h | h; exact Or.inl h.1; exact Or.inr h.1)
        (by rcases hb1 with h | h; exact Or.inl h.1; exact Or.inr h.1)
        (by rcases ha2 with h | h; exact Or.inl h.1; exact Or.inr h.1)
        (by rcases hb2 with h | h; exact Or.inl h.1; exact Or.inr h.1)

/-- the incidence matrix of the generators of one type is a closed graph (sides ≥ 3) -/
theorem closedGraph_type (ht : t = 0 ∨ t = 1) (hx : 3 ≤ Lx) (hy : 3 ≤ Ly) (V : List Coord)
    (hV : V ≠ []) (hnd : V.Nodup)
    (hmem : ∀ s, s ∈ V ↔ ∃ x y, s = [x, y] ∧ IsS t Lx Ly x y) :
    closedGraph (incMat V (qubits Lx Ly) (inc Lx Ly)) = true := by
  apply closedGraph_incMat V _ _ hV hnd
  · intro q hq
    exact two_per_qubit ht (by omega) (by omega) V hnd hmem q hq
  · intro v hv w hw hvw
    obtain ⟨ax, ay, rfl, ha⟩ := (hmem v).mp hv
    obtain ⟨bx, by', rfl, hb⟩ := (hmem w).mp hw
    apply countP_le_one_of_unique _ _ (nodup_qubits Lx Ly)
    intro q1 hq1 q2 hq2 hi1 hi2
    obtain ⟨q1x, q1y, rfl, h1⟩ := mem_qubits.mp hq1
    obtain ⟨q2x, q2y, rfl, h2⟩ := mem_qubits.mp hq2
    rw [Bool.and_eq_true, inc_iff, inc_iff] at hi1 hi2
    have := share_unique ht hx hy ha hb (by
      rintro ⟨rfl, rfl⟩; exact hvw rfl) h1 h2 hi1.1 hi1.2 hi2.1 hi2.2
    rw [this.1, this.2]

/-- a generator acts on at most four qubits, so two generators share at most four -/
theorem share_le_four (v w : Coord) :
    (qubits Lx Ly).countP (fun q => inc Lx Ly v q && inc Lx Ly w q) ≤ 4 := by
  have h1 : (qubits Lx Ly).countP (fun q => inc Lx Ly v q && inc Lx Ly w q) ≤
      (qubits Lx Ly).countP (fun q => (nbrsOf Lx Ly v).contains q) := by
    apply List.countP_mono_left
    intro q _ hq
    rw [Bool.and_eq_true] at hq
    exact hq.1
  have h2 := countP_contains_le (qubits Lx Ly) (nodup_qubits Lx Ly) (nbrsOf Lx Ly v)
  have h3 : (nbrsOf Lx Ly v).length = 4 := rfl
  omega

/-- the incidence matrix of the generators of one type is a closed MULTIgraph already for
    sides ≥ 2 (two generators share up to two qubits when a side is 2) -/
theorem closedMultigraph_type (ht : t = 0 ∨ t = 1) (hx : 2 ≤ Lx) (hy : 2 ≤ Ly) (V : List Coord)
    (hV : V ≠ []) (hnd : V.Nodup)
    (hmem : ∀ s, s ∈ V ↔ ∃ x y, s = [x, y] ∧ IsS t Lx Ly x y) :
    closedMultigraph (incMat V (qubits Lx Ly) (inc Lx Ly)) = true := by
  apply closedMultigraph_incMat V _ _ hV hnd
  · intro q hq
    exact two_per_qubit ht hx hy V hnd hmem q hq
  · intro v _ w _ _
    have := share_le_four (Lx := Lx) (Ly := Ly) v w
    omega

end oneType

/-! ### the two sector matrices -/

theorem mem_verts_S {Lx Ly : Nat} (s : Coord) :
    s ∈ verts Lx Ly ↔ ∃ x y, s = [x, y] ∧ IsS 0 Lx Ly x y := mem_verts
theorem mem_faces_S {Lx Ly : Nat} (s : Coord) :
    s ∈ faces Lx Ly ↔ ∃ x y, s = [x, y] ∧ IsS 1 Lx Ly x y := mem_faces

/-- `code.Hz` of every `Toric2DCode` with sides ≥ 3 is a closed graph -/
theorem closedGraph_Hz {Lx Ly : Nat} (hx : 3 ≤ Lx) (hy : 3 ≤ Ly) :
    closedGraph (Hz (lattice Lx Ly).rowsH) = true := by
  rw [Hz_rowsH (by omega) (by omega)]
  exact closedGraph_type (Or.inl rfl) hx hy _ (verts_ne_nil (by omega) (by omega))
    (nodup_verts Lx Ly) mem_verts_S

/-- `code.Hx` of every `Toric2DCode` with sides ≥ 3 is a closed graph -/
theorem closedGraph_Hx {Lx Ly : Nat} (hx : 3 ≤ Lx) (hy : 3 ≤ Ly) :
    closedGraph (Hx (lattice Lx Ly).rowsH) = true := by
  rw [Hx_rowsH (by omega) (by omega)]
  exact closedGraph_type (Or.inr rfl) hx hy _ (faces_ne_nil (by omega) (by omega))
    (nodup_faces Lx Ly) mem_faces_S

/-- `code.Hz` of EVERY supported `Toric2DCode` (sides ≥ 2) is a closed multigraph -/
theorem closedMultigraph_Hz {Lx Ly : Nat} (hx : 2 ≤ Lx) (hy : 2 ≤ Ly) :
    closedMultigraph (Hz (lattice Lx Ly).rowsH) = true := by
  rw [Hz_rowsH hx hy]
  exact closedMultigraph_type (Or.inl rfl) hx hy _ (verts_ne_nil (by omega) (by omega))
    (nodup_verts Lx Ly) mem_verts_S

/-- `code.Hx` of EVERY supported `Toric2DCode` (sides ≥ 2) is a closed multigraph -/
theorem closedMultigraph_Hx {Lx Ly : Nat} (hx : 2 ≤ Lx) (hy : 2 ≤ Ly) :
    closedMultigraph (Hx (lattice Lx Ly).rowsH) = true := by
  rw [Hx_rowsH hx hy]
  exact closedMultigraph_type (Or.inr rfl) hx hy _ (faces_ne_nil (by omega) (by omega))
    (nodup_faces Lx Ly) mem_faces_S

/-! ### a side equal to 2: parallel edges -/

theorem isQ_mem {Lx Ly : Nat} {x y : Int} (h : IsQ Lx Ly x y) : [x, y] ∈ qubits Lx Ly :=
  mem_qubits'.mpr h

/-- `Lx = 2`: the vertices `(0,0)`, `(2,0)` are joined by the qubits `(1,0)` and `(3,0)`, the
    faces `(1,1)`, `(3,1)` by the qubits `(0,1)` and `(2,1)` -/
theorem parallel_x {Ly : Nat} (hy : 2 ≤ Ly) :
    graphLike (Hz (lattice 2 Ly).rowsH) = false ∧ graphLike (Hx (lattice 2 Ly).rowsH) = false := by
  rw [Hz_rowsH (by omega) hy, Hx_rowsH (by omega) hy]
  constructor
  · apply not_graphLike_incMat _ _ _ [0, 0] [2, 0] [1, 0] [3, 0]
    · exact mem_verts.mpr ⟨0, 0, rfl, by unfold IsV InBox; omega⟩
    · exact mem_verts.mpr ⟨2, 0, rfl, by unfold IsV InBox; omega⟩
    · exact isQ_mem (by unfold IsQ InBox; omega)
    · exact isQ_mem (by unfold IsQ InBox; omega)
    · decide
    · decide
    · rw [inc_iff]; unfold nbr; right; left; exact ⟨by decide, rfl⟩
    · rw [inc_iff]; unfold nbr; left; exact ⟨by decide, rfl⟩
    · rw [inc_iff]; unfold nbr; left; exact ⟨by decide, rfl⟩
    · rw [inc_iff]; unfold nbr; right; left; exact ⟨by decide, rfl⟩
  · apply not_graphLike_incMat _ _ _ [1, 1] [3, 1] [0, 1] [2, 1]
    · exact mem_faces.mpr ⟨1, 1, rfl, by unfold IsF InBox; omega⟩
    · exact mem_faces.mpr ⟨3, 1, rfl, by unfold IsF InBox; omega⟩
    · exact isQ_mem (by unfold IsQ InBox; omega)
    · exact isQ_mem (by unfold IsQ InBox; omega)
    · decide
    · decide
    · rw [inc_iff]; unfold nbr; left; exact ⟨by decide, rfl⟩
    · rw [inc_iff]; unfold nbr; right; left; exact ⟨by decide, rfl⟩
    · rw [inc_iff]; unfold nbr; right; left; exact ⟨by decide, rfl⟩
    · rw [inc_iff]; unfold nbr; left; exact ⟨by decide, rfl⟩

/-- `Ly = 2`: the vertices `(0,0)`, `(0,2)` are joined by the qubits `(0,1)` and `(0,3)`, the
    faces `(1,1)`, `(1,3)` by the qubits `(1,0)` and `(1,2)` -/
theorem parallel_y {Lx : Nat} (hx : 2 ≤ Lx) :
    graphLike (Hz (lattice Lx 2).rowsH) = false ∧ graphLike (Hx (lattice Lx 2).rowsH) = false := by
  rw [Hz_rowsH hx (by omega), Hx_rowsH hx (by omega)]
  constructor
  · apply not_graphLike_incMat _ _ _ [0, 0] [0, 2] [0, 1] [0, 3]
    · exact mem_verts.mpr ⟨0, 0, rfl, by unfold IsV InBox; omega⟩
    · exact mem_verts.mpr ⟨0, 2, rfl, by unfold IsV InBox; omega⟩
    · exact isQ_mem (by unfold IsQ InBox; omega)
    · exact isQ_mem (by unfold IsQ InBox; omega)
    · decide
    · decide
    · rw [inc_iff]; unfold nbr; right; right; right; exact ⟨rfl, by decide⟩
    · rw [inc_iff]; unfold nbr; right; right; left; exact ⟨rfl, by decide⟩
    · rw [inc_iff]; unfold nbr; right; right; left; exact ⟨rfl, by decide⟩
    · rw [inc_iff]; unfold nbr; right; right; right; exact ⟨rfl, by decide⟩
  · apply not_graphLike_incMat _ _ _ [1, 1] [1, 3] [1, 0] [1, 2]
    · exact mem_faces.mpr ⟨1, 1, rfl, by unfold IsF InBox; omega⟩
    · exact mem_faces.mpr ⟨1, 3, rfl, by unfold IsF InBox; omega⟩
    · exact isQ_mem (by unfold IsQ InBox; omega)
    · exact isQ_mem (by unfold IsQ InBox; omega)
    · decide
    · decide
    · rw [inc_iff]; unfold nbr; right; right; left; exact ⟨rfl, by decide⟩
    · rw [inc_iff]; unfold nbr; right; right; right; exact ⟨rfl, by decide⟩
    · rw [inc_iff]; unfold nbr; right; right; right; exact ⟨rfl, by decide⟩
    · rw [inc_iff]; unfold nbr; right; right; left; exact ⟨rfl, by decide⟩

end Panqec.Toric2DCode
