/-
`get_p_th_sd_interp` on a V-shaped spread (C16): when the SD falls strictly up to grid index `j` and rises
strictly after it, the function returns `(grid[j], grid[0], grid[N-1])`.
-/
import PanqecVerif.Proofs.AnalysisWindowSd

namespace Panqec.An

theorem filter_range_eq_singleton (p : Nat → Bool) (j : Nat) :
    ∀ n, j < n → (∀ i, i < n → (p i = true ↔ i = j)) → (List.range n).filter p = [j]
  | 0, h, _ => absurd h (Nat.not_lt_zero _)
  | n + 1, h, hp => by
    rw [List.range_succ, List.filter_append]
    by_cases hjn : j = n
    · subst hjn
      have h1 : (List.range j).filter p = [] := by
        rw [List.filter_eq_nil_iff]
        intro i hi
        have hi' : i < j := List.mem_range.mp hi
        intro hpi
        have := (hp i (Nat.lt_succ_of_lt hi')).mp hpi
        omega
      have h2 : p j = true := (hp j (Nat.lt_succ_self j)).mpr rfl
      rw [h1]; simp [h2]
    · have hj' : j < n := by omega
      rw [filter_range_eq_singleton p j n hj' fun i hi => hp i (Nat.lt_succ_of_lt hi)]
      have h2 : p n = false := by
        rw [Bool.eq_false_iff]
        intro hpn
        exact hjn ((hp n (Nat.lt_succ_self n)).mp hpn).symm
      simp [h2]

theorem filter_range_eq_nil (p : Nat → Bool) (n : Nat) (hp : ∀ i, i < n → p i = false) :
    (List.range n).filter p = [] := by
  rw [List.filter_eq_nil_iff]
  intro i hi
  rw [hp i (List.mem_range.mp hi)]
  simp

/-- V shape: strictly falling up to index `j`, strictly rising after it -/
structure VShape (sd : List Rat) (j : Nat) : Prop where
  lt : j < sd.length
  fall : ∀ i, i < j → sd.getD (i + 1) 0 < sd.getD i 0
  rise : ∀ i, j ≤ i → i + 1 < sd.length → sd.getD i 0 < sd.getD (i + 1) 0

theorem VShape.minima {sd : List Rat} {j : Nat} (h : VShape sd j) : sdMinima sd = [j] := by
  have hlt := h.lt
  unfold sdMinima
  simp only
  by_cases hint : 0 < j ∧ j + 1 < sd.length
  · -- interior: the strict comparison already finds j, and only j
    have hs : relExt (fun a b => decide (a < b)) sd = [j] := by
      unfold relExt
      apply filter_range_eq_singleton _ j _ hlt
      intro i hi
      simp only [Bool.and_eq_true, decide_eq_true_eq]
      constructor
      · rintro ⟨h1, h2⟩
        by_contra hne
        rcases Nat.lt_or_gt_of_ne hne with hij | hij
        · have := h.fall i hij
          have hm : min (i + 1) (sd.length - 1) = i + 1 := by omega
          rw [hm] at h1
          exact absurd h1 (not_lt.mpr (le_of_lt this))
        · have := h.rise (i - 1) (by omega) (by omega)
          have hm : i - 1 + 1 = i := by omega
          rw [hm] at this
          exact absurd h2 (not_lt.mpr (le_of_lt this))
      · rintro rfl
        have hm : min (i + 1) (sd.length - 1) = i + 1 := by omega
        rw [hm]
        refine ⟨h.rise i le_rfl hint.2, ?_⟩
        have := h.fall (i - 1) (by omega)
        have hm' : i - 1 + 1 = i := by omega
        rw [hm'] at this
        exact this
    rw [hs]; rfl
  · -- j is an end point: nothing is strictly below both (clipped) neighbours; `≤` finds j, and only j
    have hs : relExt (fun a b => decide (a < b)) sd = [] := by
      unfold relExt
      apply filter_range_eq_nil
      intro i hi
      by_contra hc
      rw [Bool.not_eq_false] at hc
      simp only [Bool.and_eq_true, decide_eq_true_eq] at hc
      obtain ⟨h1, h2⟩ := hc
      rcases Nat.lt_trichotomy i j with hij | rfl | hij
      · have := h.fall i hij
        have hm : min (i + 1) (sd.length - 1) = i + 1 := by omega
        rw [hm] at h1
        exact absurd h1 (not_lt.mpr (le_of_lt this))
      · rcases Nat.eq_zero_or_pos i with h0 | hpos
        · subst h0; simp at h2
        · have hend : i + 1 = sd.length := by omega
          have hm : min (i + 1) (sd.length - 1) = i := by omega
          rw [hm] at h1
          exact absurd h1 (lt_irrefl _)
      · have := h.rise (i - 1) (by omega) (by omega)
        have hm : i - 1 + 1 = i := by omega
        rw [hm] at this
        exact absurd h2 (not_lt.mpr (le_of_lt this))
    rw [hs]
    simp only [List.isEmpty_nil, if_true]
    unfold relExt
    apply filter_range_eq_singleton _ j _ hlt
    intro i hi
    simp only [Bool.and_eq_true, decide_eq_true_eq]
    constructor
    · rintro ⟨h1, h2⟩
      by_contra hne
      rcases Nat.lt_or_gt_of_ne hne with hij | hij
      · have := h.fall i hij
        have hm : min (i + 1) (sd.length - 1) = i + 1 := by omega
        rw [hm] at h1
        exact absurd this (not_lt.mpr h1)
      · have := h.rise (i - 1) (by omega) (by omega)
        have hm : i - 1 + 1 = i := by omega
        rw [hm] at this
        exact absurd this (not_lt.mpr h2)
    · rintro rfl
      constructor
      · by_cases hend : i + 1 < sd.length
        · have hm : min (i + 1) (sd.length - 1) = i + 1 := by omega
          rw [hm]; exact le_of_lt (h.rise i le_rfl hend)
        · have hm : min (i + 1) (sd.length - 1) = i := by omega
          rw [hm]
      · rcases Nat.eq_zero_or_pos i with h0 | hpos
        · subst h0; simp
        · have := h.fall (i - 1) (by omega)
          have hm' : i - 1 + 1 = i := by omega
          rw [hm'] at this
          exact le_of_lt this

/-- a local maximum (strict or not) is at least as large as both neighbours -/
theorem mem_sdMaxima_cases {sd : List Rat} {m : Nat} (h : m ∈ sdMaxima sd) :
    m = 0 ∨ m = sd.length - 1 ∨
      (m < sd.length ∧ sd.getD (min (m + 1) (sd.length - 1)) 0 ≤ sd.getD m 0 ∧ sd.getD (m - 1) 0 ≤ sd.getD m 0) := by
  unfold sdMaxima at h
  simp only [List.cons_append, List.mem_cons, List.mem_append, List.not_mem_nil, or_false] at h
  rcases h with rfl | h | rfl
  · exact Or.inl rfl
  · right; right
    split at h
    · obtain ⟨h0, h1, h2⟩ := mem_relExt.mp h
      exact ⟨h0, of_decide_eq_true h1, of_decide_eq_true h2⟩
    · obtain ⟨h0, h1, h2⟩ := mem_relExt.mp h
      exact ⟨h0, le_of_lt (of_decide_eq_true h1), le_of_lt (of_decide_eq_true h2)⟩
  · exact Or.inr (Or.inl rfl)

theorem VShape.maxima {sd : List Rat} {j : Nat} (h : VShape sd j) {m : Nat} (hm : m ∈ sdMaxima sd) :
    m = 0 ∨ m = sd.length - 1 ∨ m = j := by
  have hlt := h.lt
  rcases mem_sdMaxima_cases hm with h0 | h1 | ⟨hml, hr, hl⟩
  · exact Or.inl h0
  · exact Or.inr (Or.inl h1)
  · by_contra hne
    simp only [not_or] at hne
    obtain ⟨n0, n1, n2⟩ := hne
    rcases Nat.lt_or_gt_of_ne n2 with hmj | hmj
    · have := h.fall (m - 1) (by omega)
      have e : m - 1 + 1 = m := by omega
      rw [e] at this
      exact absurd this (not_lt.mpr hl)
    · have := h.rise m (le_of_lt hmj) (by omega)
      have e : min (m + 1) (sd.length - 1) = m + 1 := by omega
      rw [e] at hr
      exact absurd this (not_lt.mpr hr)

theorem zero_mem_sdMaxima (sd : List Rat) : 0 ∈ sdMaxima sd := by
  unfold sdMaxima; simp

theorem last_mem_sdMaxima (sd : List Rat) : sd.length - 1 ∈ sdMaxima sd := by
  unfold sdMaxima; simp

/-- (c), first half: on a V-shaped spread the crossover is the bottom of the V and the window is the whole grid -/
theorem sdSelect_vshape {sd : List Rat} {j : Nat} (h : VShape sd j) : sdSelect sd = .ok (j, 0, sd.length - 1) := by
  have hlt := h.lt
  unfold sdSelect
  simp only
  rw [h.minima]
  have hL : (lastBelow (sdMaxima sd) j).getD 0 = 0 := by
    cases hl : lastBelow (sdMaxima sd) j with
    | none => rfl
    | some m =>
      obtain ⟨h1, h2, _⟩ := lastBelow_spec hl
      rcases h.maxima h1 with e | e | e
      · simp [e]
      · omega
      · omega
  have hR : (firstAbove (sdMaxima sd) j).getD (sd.length - 1) = sd.length - 1 := by
    cases hl : firstAbove (sdMaxima sd) j with
    | none => rfl
    | some m =>
      obtain ⟨h1, h2, _⟩ := firstAbove_spec hl
      rcases h.maxima h1 with e | e | e
      · omega
      · simp [e]
      · omega
  simp only [List.map_cons, List.map_nil, argmaxRat, argmaxRatAux, List.getD_cons_zero, hL, hR]

end Panqec.An
