/-
XCubeCode lattice model: the pairing table of the `2(Lx+Ly+Lz) - 3` logical pairs and the
assembly of `Lattice.CommPair`, for every size ≥ 2.
-/
import PanqecVerif.Proofs.LatXCubeCode6
import PanqecVerif.Proofs.LatXCubeCode7
open Panqec Panqec.Lat3Db
namespace Panqec.XCubeCode

theorem antiXZ : Pauli.anti Pauli.X Pauli.Z = true := rfl

theorem cnt_XZ (k1 k2 : List Coord) : opAntiCount (constOp k1 Pauli.X) (constOp k2 Pauli.Z) = ovl k1 k2 := by
  rw [opAntiCount_constOp, antiXZ, if_pos rfl]

/-! ### edge-direction classes of keys -/
def TA (q : Coord) : Prop := ∃ p r s : Int, q = [p, r, s] ∧ p % 2 = 1
def N1 (q : Coord) : Prop := ∃ p r s : Int, q = [p, r, s] ∧ p % 2 = 0
def TB (q : Coord) : Prop := ∃ p r s : Int, q = [p, r, s] ∧ p % 2 = 0 ∧ r % 2 = 1
def TC (q : Coord) : Prop := ∃ p r s : Int, q = [p, r, s] ∧ p % 2 = 0 ∧ r % 2 = 0

theorem TA_N1 (q : Coord) (h1 : TA q) (h2 : N1 q) : False := by
  obtain ⟨p, r, s, rfl, h⟩ := h1
  obtain ⟨p', r', s', e, h'⟩ := h2
  simp only [List.cons.injEq, and_true] at e
  obtain ⟨rfl, _, _⟩ := e
  omega
theorem TB_TC (q : Coord) (h1 : TB q) (h2 : TC q) : False := by
  obtain ⟨p, r, s, rfl, _, h⟩ := h1
  obtain ⟨p', r', s', e, _, h'⟩ := h2
  simp only [List.cons.injEq, and_true] at e
  obtain ⟨_, rfl, _⟩ := e
  omega
theorem TB_N1 (q : Coord) (h : TB q) : N1 q := by
  obtain ⟨p, r, s, rfl, h, _⟩ := h; exact ⟨p, r, s, rfl, h⟩
theorem TC_N1 (q : Coord) (h : TC q) : N1 q := by
  obtain ⟨p, r, s, rfl, h, _⟩ := h; exact ⟨p, r, s, rfl, h⟩

theorem AllKeys.mono {φ ψ : Coord → Prop} {X : List Op} (h : ∀ q, φ q → ψ q) (hX : AllKeys φ X) : AllKeys ψ X :=
  fun a ha e he => h _ (hX a ha e he)

theorem even_of_E (L : Nat) (t : Int) (h : t ∈ pyRange2 0 (2*L)) : t % 2 = 0 := by
  rw [mem_pyRange2_0] at h; exact h.1
theorem even_of_E2 (L : Nat) (t : Int) (h : t ∈ pyRange2 2 (2*L)) : t % 2 = 0 := by
  rw [mem_pyRange2_2] at h; exact h.1
theorem odd_of_O (L : Nat) (t : Int) (h : t ∈ pyRange2 1 (2*L)) : t % 2 = 1 := by
  rw [mem_pyRange2_1] at h; exact h.1

section
variable (Lx Ly Lz : Nat)

/-! the twelve blocks -/
def bXA1 : List Op := (pyRange2 0 (2*Ly)).map fun y => constOp (kXA1 Lz y) Pauli.X
def bXA2 : List Op := (pyRange2 2 (2*Lz)).map fun z => constOp (kXA2 Ly z) Pauli.X
def bXB1 : List Op := (pyRange2 0 (2*Lx)).map fun x => constOp (kXB1 Lz x) Pauli.X
def bXB2 : List Op := (pyRange2 2 (2*Lz)).map fun z => constOp (kXB2 Lx z) Pauli.X
def bXC1 : List Op := (pyRange2 0 (2*Lx)).map fun x => constOp (kXC1 Ly x) Pauli.X
def bXC2 : List Op := (pyRange2 2 (2*Ly)).map fun y => constOp (kXC2 Lx y) Pauli.X
def bZA1 : List Op := (pyRange2 0 (2*Ly)).map fun y => constOp (kZA1 Lx y) Pauli.Z
def bZA2 : List Op := (pyRange2 2 (2*Lz)).map fun z => constOp (kZA2 Lx z) Pauli.Z
def bZB1 : List Op := (pyRange2 0 (2*Lx)).map fun x => constOp (kZB1 Ly x) Pauli.Z
def bZB2 : List Op := (pyRange2 2 (2*Lz)).map fun z => constOp (kZB2 Ly z) Pauli.Z
def bZC1 : List Op := (pyRange2 0 (2*Lx)).map fun x => constOp (kZC1 Lz x) Pauli.Z
def bZC2 : List Op := (pyRange2 2 (2*Ly)).map fun y => constOp (kZC2 Lz y) Pauli.Z

theorem logX_blocks : logX Lx Ly Lz =
    (bXA1 Ly Lz ++ bXA2 Ly Lz) ++ ((bXB1 Lx Lz ++ bXB2 Lx Lz) ++ (bXC1 Lx Ly ++ bXC2 Lx Ly)) := by
  rw [logX_eq]; simp only [bXA1, bXA2, bXB1, bXB2, bXC1, bXC2, List.append_assoc]

theorem logZ_blocks : logZ Lx Ly Lz =
    (bZA1 Lx Ly ++ bZA2 Lx Lz) ++ ((bZB1 Lx Ly ++ bZB2 Ly Lz) ++ (bZC1 Lx Lz ++ bZC2 Ly Lz)) := by
  rw [logZ_eq]; simp only [bZA1, bZA2, bZB1, bZB2, bZC1, bZC2, List.append_assoc]

/-! key classes of the blocks -/

theorem keys_XA : AllKeys TA (bXA1 Ly Lz ++ bXA2 Ly Lz) := by
  apply AllKeys.append <;> apply AllKeys.map_constOp <;> intro t _ q hq
  · simp only [kXA1, List.mem_map] at hq; obtain ⟨z, _, rfl⟩ := hq; exact ⟨_, _, _, rfl, by decide⟩
  · simp only [kXA2, List.mem_map] at hq; obtain ⟨z, _, rfl⟩ := hq; exact ⟨_, _, _, rfl, by decide⟩

theorem keys_ZA : AllKeys TA (bZA1 Lx Ly ++ bZA2 Lx Lz) := by
  apply AllKeys.append <;> apply AllKeys.map_constOp <;> intro t _ q hq
  · simp only [kZA1, List.mem_map] at hq; obtain ⟨x, hx, rfl⟩ := hq; exact ⟨_, _, _, rfl, odd_of_O _ _ hx⟩
  · simp only [kZA2, List.mem_append, List.mem_map] at hq
    rcases hq with ⟨x, hx, rfl⟩ | ⟨x, hx, rfl⟩ <;> exact ⟨_, _, _, rfl, odd_of_O _ _ hx⟩

theorem keys_XB : AllKeys TB (bXB1 Lx Lz ++ bXB2 Lx Lz) := by
  apply AllKeys.append <;> apply AllKeys.map_constOp <;> intro t ht q hq
  · simp only [kXB1, List.mem_map] at hq; obtain ⟨z, _, rfl⟩ := hq
    exact ⟨_, _, _, rfl, even_of_E _ _ ht, by decide⟩
  · simp only [kXB2, List.mem_map] at hq; obtain ⟨x, hx, rfl⟩ := hq
    exact ⟨_, _, _, rfl, even_of_E _ _ hx, by decide⟩

theorem keys_ZB : AllKeys TB (bZB1 Lx Ly ++ bZB2 Ly Lz) := by
  apply AllKeys.append <;> apply AllKeys.map_constOp <;> intro t ht q hq
  · simp only [kZB1, List.mem_map] at hq; obtain ⟨y, hy, rfl⟩ := hq
    exact ⟨_, _, _, rfl, even_of_E _ _ ht, odd_of_O _ _ hy⟩
  · simp only [kZB2, List.mem_append, List.mem_map] at hq
    rcases hq with ⟨y, hy, rfl⟩ | ⟨y, hy, rfl⟩ <;> exact ⟨_, _, _, rfl, by decide, odd_of_O _ _ hy⟩

theorem keys_XC : AllKeys TC (bXC1 Lx Ly ++ bXC2 Lx Ly) := by
  apply AllKeys.append <;> apply AllKeys.map_constOp <;> intro t ht q hq
  · simp only [kXC1, List.mem_map] at hq; obtain ⟨y, hy, rfl⟩ := hq
    exact ⟨_, _, _, rfl, even_of_E _ _ ht, even_of_E _ _ hy⟩
  · simp only [kXC2, List.mem_map] at hq; obtain ⟨x, hx, rfl⟩ := hq
    exact ⟨_, _, _, rfl, even_of_E _ _ hx, even_of_E2 _ _ ht⟩

theorem keys_ZC : AllKeys TC (bZC1 Lx Lz ++ bZC2 Ly Lz) := by
  apply AllKeys.append <;> apply AllKeys.map_constOp <;> intro t ht q hq
  · simp only [kZC1, List.mem_map] at hq; obtain ⟨z, _, rfl⟩ := hq
    exact ⟨_, _, _, rfl, even_of_E _ _ ht, by decide⟩
  · simp only [kZC2, List.mem_append, List.mem_map] at hq
    rcases hq with ⟨z, _, rfl⟩ | ⟨z, _, rfl⟩
    · exact ⟨_, _, _, rfl, by decide, by decide⟩
    · exact ⟨_, _, _, rfl, by decide, even_of_E2 _ _ ht⟩

variable (hx : 1 ≤ Lx) (hy : 1 ≤ Ly) (hz : 1 ≤ Lz)
include hx hy hz

theorem pair_A : PairTable (bXA1 Ly Lz ++ bXA2 Ly Lz) (bZA1 Lx Ly ++ bZA2 Lx Lz) := by
  apply PairTable.append
  · exact PairTable.map _ _ _ (nodup_pyRange2 _ _) (fun a _ b _ => by rw [cnt_XZ, pA11 Lx Ly Lz hx hy hz]; split <;> rfl)
  · exact PairTable.map _ _ _ (nodup_pyRange2 _ _) (fun a ha b _ => by
      rw [cnt_XZ, pA22 Lx Ly Lz hx hy hz a b (E2_sub_E Lz a ha).2]; split <;> rfl)
  · exact CrossEven.map _ _ _ _ (fun a _ b hb => by rw [cnt_XZ]; exact pA12 Lx Ly Lz hx hy hz a b hb)
  · exact CrossEven.map _ _ _ _ (fun a ha b _ => by
      rw [cnt_XZ]; exact pA21 Lx Ly Lz hx hy hz a b (E2_sub_E Lz a ha).2)

theorem pair_B : PairTable (bXB1 Lx Lz ++ bXB2 Lx Lz) (bZB1 Lx Ly ++ bZB2 Ly Lz) := by
  apply PairTable.append
  · exact PairTable.map _ _ _ (nodup_pyRange2 _ _) (fun a _ b _ => by rw [cnt_XZ, pB11 Lx Ly Lz hx hy hz]; split <;> rfl)
  · exact PairTable.map _ _ _ (nodup_pyRange2 _ _) (fun a ha b _ => by
      rw [cnt_XZ, pB22 Lx Ly Lz hx hy hz a b (E2_sub_E Lz a ha).2]; split <;> rfl)
  · exact CrossEven.map _ _ _ _ (fun a _ b hb => by rw [cnt_XZ]; exact pB12 Lx Ly Lz hx hy hz a b hb)
  · exact CrossEven.map _ _ _ _ (fun a ha b _ => by
      rw [cnt_XZ]; exact pB21 Lx Ly Lz hx hy hz a b (E2_sub_E Lz a ha).2)

theorem pair_C : PairTable (bXC1 Lx Ly ++ bXC2 Lx Ly) (bZC1 Lx Lz ++ bZC2 Ly Lz) := by
  apply PairTable.append
  · exact PairTable.map _ _ _ (nodup_pyRange2 _ _) (fun a _ b _ => by rw [cnt_XZ, pC11 Lx Ly Lz hx hy hz]; split <;> rfl)
  · exact PairTable.map _ _ _ (nodup_pyRange2 _ _) (fun a ha b _ => by
      rw [cnt_XZ, pC22 Lx Ly Lz hx hy hz a b (E2_sub_E Ly a ha).2]; split <;> rfl)
  · exact CrossEven.map _ _ _ _ (fun a _ b hb => by rw [cnt_XZ]; exact pC12 Lx Ly Lz hx hy hz a b hb)
  · exact CrossEven.map _ _ _ _ (fun a ha b _ => by
      rw [cnt_XZ]; exact pC21 Lx Ly Lz hx hy hz a b (E2_sub_E Ly a ha).2)

/-- the pairing table of the X-cube logical operators is the identity -/
theorem pairTable : PairTable (logX Lx Ly Lz) (logZ Lx Ly Lz) := by
  rw [logX_blocks, logZ_blocks]
  apply PairTable.append (pair_A Lx Ly Lz hx hy hz)
  · apply PairTable.append (pair_B Lx Ly Lz hx hy hz) (pair_C Lx Ly Lz hx hy hz)
    · exact CrossEven.of_disjoint (keys_XB Lx Lz) (keys_ZC Lx Ly Lz) TB_TC
    · exact CrossEven.of_disjoint (keys_XC Lx Ly) (keys_ZB Lx Ly Lz) (fun q h1 h2 => TB_TC q h2 h1)
  · exact CrossEven.of_disjoint (keys_XA Ly Lz)
      (AllKeys.append (AllKeys.mono TB_N1 (keys_ZB Lx Ly Lz)) (AllKeys.mono TC_N1 (keys_ZC Lx Ly Lz))) TA_N1
  · exact CrossEven.of_disjoint
      (AllKeys.append (AllKeys.mono TB_N1 (keys_XB Lx Lz)) (AllKeys.mono TC_N1 (keys_XC Lx Ly)))
      (keys_ZA Lx Ly Lz) (fun q h1 h2 => TA_N1 q h2 h1)

end
end Panqec.XCubeCode
