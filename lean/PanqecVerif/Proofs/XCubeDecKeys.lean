/-
`XCubeMatchingDecoder.decode`, the look-up that raises: `decode_plane` is always called with
`(Lx, Ly)`, so its cells are `(x', y')` with `x' < 2 Lx`, `y' < 2 Ly` whatever the projection axis;
`tuple_insert(cell, proj_axis, plane_proj)` is a key of `qubit_index` for every cell, every
projection axis and every plane exactly when `Lx ≤ Ly ≤ Lz`.
-/
import PanqecVerif.Proofs.XCubeDecBasic
import PanqecVerif.Proofs.LatXCubeCode1

namespace Panqec.XCube

open Panqec Panqec.Lat3Db Panqec.XCubeCode

variable {W : Type}

theorem qubitIndex?_isSome_iff (qs : List Coord) (q : Coord) :
    (qubitIndex? qs q).isSome = true ↔ q ∈ qs := by
  unfold qubitIndex?
  simp only
  split
  · rename_i h; simp [List.idxOf_lt_length_iff.mp h]
  · rename_i h
    simp only [Option.isSome_none, Bool.false_eq_true, false_iff]
    intro hm; exact h (List.idxOf_lt_length_iff.mpr hm)

theorem qubitIndex?_eq_none_iff (qs : List Coord) (q : Coord) :
    qubitIndex? qs q = none ↔ q ∉ qs := by
  rw [← qubitIndex?_isSome_iff]
  cases qubitIndex? qs q <;> simp

/-- a cell of the grid `decode_plane(loops, (Lx, Ly))` works on -/
def Cell (Lx Ly : Nat) (c : Coord) : Prop := ∃ x y, c = [x, y] ∧ R0 (2 * Lx) x ∧ R0 (2 * Ly) y

theorem post_planeState (loops : List Coord) (Lx Ly : Nat) :
    Post (planeState loops Lx Ly : Out W _) (fun state => ∀ e ∈ state, Cell Lx Ly e.1) := by
  unfold planeState
  refine post_forM' (fun (state : List (Coord × Nat)) => ∀ e ∈ state, Cell Lx Ly e.1) ?_ [] (by simp)
  intro state x hx hstate
  rw [mem_pyRange2_0] at hx
  refine post_bind (Q := fun (st : List (Coord × Nat) × Nat) => ∀ e ∈ st.1, Cell Lx Ly e.1) ?_ ?_
  · refine post_forM' (fun (st : List (Coord × Nat) × Nat) => ∀ e ∈ st.1, Cell Lx Ly e.1) ?_ _ hstate
    intro st y hy hst
    rw [mem_pyRange2_0] at hy
    refine post_bind (post_true _) ?_
    intro c _
    refine post_pure ?_
    intro e he
    rcases List.mem_append.mp he with h | h
    · exact hst e h
    · simp only [List.mem_singleton] at h
      subst h
      exact ⟨x, y, rfl, hx, hy⟩
  · intro st hst
    exact post_pure hst

/-- every coordinate `decode_plane(loops, (Lx, Ly))` returns is a cell of the `Lx × Ly` grid -/
theorem post_decodePlane (loops : List Coord) (Lx Ly : Nat) :
    Post (decodePlane loops Lx Ly : Out W _) (fun cs => ∀ c ∈ cs, Cell Lx Ly c) := by
  unfold decodePlane
  refine post_bind (post_planeState loops Lx Ly) ?_
  intro state hstate
  refine post_bind (post_true _) ?_
  intro m _
  refine post_pure ?_
  intro c hc
  cases m with
  | none => simp at hc
  | some v =>
    simp only [List.mem_map, List.mem_filter] at hc
    obtain ⟨e, ⟨he, _⟩, rfl⟩ := hc
    exact hstate e he

/-- `[Lx, Ly, Lz][proj_axis_int]` -/
def sideOf (Lx Ly Lz : Nat) : Axis → Nat
  | .x => Lx | .y => Ly | .z => Lz

/-- every key the loop scatter can ask `qubit_index` for exists -/
def LoopKeysOk (Lx Ly Lz : Nat) : Prop :=
  ∀ (proj : Axis) (c : Coord) (p : Int), Cell Lx Ly c → R1 (2 * sideOf Lx Ly Lz proj) p →
    (qubitIndex? (qubits Lx Ly Lz) (tupleInsert c proj.toNat p)).isSome = true

/-- **which lattices can raise.**  The keys `tuple_insert(cell, proj_axis, plane)` over all cells
    of the `(Lx, Ly)` grid, all projection axes and all planes are all present in `qubit_index`
    iff `Lx ≤ Ly ≤ Lz`. -/
theorem loopKeysOk_iff (Lx Ly Lz : Nat) (hx : 1 ≤ Lx) (hy : 1 ≤ Ly) (hz : 1 ≤ Lz) :
    LoopKeysOk Lx Ly Lz ↔ Lx ≤ Ly ∧ Ly ≤ Lz := by
  constructor
  · intro h
    constructor
    · -- projection along x: the cell (2 Ly, 0) would be the location (1, 2 Ly, 0)
      refine Decidable.byContradiction fun hlt => ?_
      have hc : Cell Lx Ly [2 * (Ly : Int), 0] := ⟨_, _, rfl, by unfold R0; omega, by unfold R0; omega⟩
      have := h .x _ 1 hc (by simp only [sideOf]; unfold R1; omega)
      rw [qubitIndex?_isSome_iff] at this
      simp only [tupleInsert, Axis.toNat, List.insertIdx_zero] at this
      rw [mem_qubits_iff] at this
      unfold QX QY QZ R0 R1 at this
      omega
    · -- projection along y: the cell (0, 2 Lz) would be the location (0, 1, 2 Lz)
      refine Decidable.byContradiction fun hlt => ?_
      have hc : Cell Lx Ly [0, 2 * (Lz : Int)] := ⟨_, _, rfl, by unfold R0; omega, by unfold R0; omega⟩
      have := h .y _ 1 hc (by simp only [sideOf]; unfold R1; omega)
      rw [qubitIndex?_isSome_iff] at this
      simp only [tupleInsert, Axis.toNat, List.insertIdx_succ_cons, List.insertIdx_zero] at this
      rw [mem_qubits_iff] at this
      unfold QX QY QZ R0 R1 at this
      omega
  · rintro ⟨hxy, hyz⟩ proj c p ⟨x, y, rfl, hcx, hcy⟩ hp
    rw [qubitIndex?_isSome_iff]
    unfold R0 at hcx hcy
    unfold R1 at hp
    cases proj
    · simp only [tupleInsert, Axis.toNat, List.insertIdx_zero]
      rw [mem_qubits_iff]
      left; unfold QX R0 R1; simp only [sideOf] at hp; omega
    · simp only [tupleInsert, Axis.toNat, List.insertIdx_succ_cons, List.insertIdx_zero]
      rw [mem_qubits_iff]
      right; left; unfold QY R0 R1; simp only [sideOf] at hp; omega
    · simp only [tupleInsert, Axis.toNat, List.insertIdx_succ_cons, List.insertIdx_zero]
      rw [mem_qubits_iff]
      right; right; unfold QZ R0 R1; simp only [sideOf] at hp; omega

/-- no `KeyError` -/
def NoKeyError (e : XErr) : Prop := ∀ k, e ≠ .keyError k

/-- every key the loop scatter of this decoder object can ask `qubit_index` for exists: cells of
    the grid `decode_plane` is given for the projection axis, lifted to a plane of that axis -/
def PlaneKeysOk (d : XCubeDec W) : Prop :=
  ∀ (proj : Axis) (c : Coord) (p : Int), Cell (d.planeSizes proj).1 (d.planeSizes proj).2 c →
    R1 (2 * d.side proj) p → (qubitIndex? d.qubits (tupleInsert c proj.toNat p)).isSome = true

/-- **the repaired code** (`decode_plane` given the two sizes of the projected plane): every key
    exists, on every lattice -/
theorem planeKeysOk_current (d : XCubeDec W) (hq : d.qubits = qubits d.Lx d.Ly d.Lz)
    (hp : d.planeSizes = planeSizesOf d.Lx d.Ly d.Lz) : PlaneKeysOk d := by
  intro proj c p hc hp1
  rw [hp] at hc
  obtain ⟨x, y, rfl, hcx, hcy⟩ := hc
  rw [qubitIndex?_isSome_iff, hq]
  unfold R0 at hcx hcy
  unfold R1 at hp1
  cases proj
  · simp only [planeSizesOf] at hcx hcy
    simp only [tupleInsert, Axis.toNat, List.insertIdx_zero]
    rw [mem_qubits_iff]
    left; unfold QX R0 R1; simp only [XCubeDec.side] at hp1; omega
  · simp only [planeSizesOf] at hcx hcy
    simp only [tupleInsert, Axis.toNat, List.insertIdx_succ_cons, List.insertIdx_zero]
    rw [mem_qubits_iff]
    right; left; unfold QY R0 R1; simp only [XCubeDec.side] at hp1; omega
  · simp only [planeSizesOf] at hcx hcy
    simp only [tupleInsert, Axis.toNat, List.insertIdx_succ_cons, List.insertIdx_zero]
    rw [mem_qubits_iff]
    right; right; unfold QZ R0 R1; simp only [XCubeDec.side] at hp1; omega

/-- **the code before 869642d** (`decode_plane` always given `(Lx, Ly)`): every key exists iff
    `Lx ≤ Ly ≤ Lz` -/
theorem planeKeysOk_old_iff (d : XCubeDec W) (hq : d.qubits = qubits d.Lx d.Ly d.Lz)
    (hx : 1 ≤ d.Lx) (hy : 1 ≤ d.Ly) (hz : 1 ≤ d.Lz) :
    PlaneKeysOk d.old ↔ d.Lx ≤ d.Ly ∧ d.Ly ≤ d.Lz := by
  rw [← loopKeysOk_iff d.Lx d.Ly d.Lz hx hy hz]
  have hside : ∀ proj, d.old.side proj = sideOf d.Lx d.Ly d.Lz proj := by intro proj; cases proj <;> rfl
  constructor
  · intro h proj c p hc hp
    have := h proj c p hc (by rw [hside]; exact hp)
    rw [← hq]; exact this
  · intro h proj c p hc hp
    have := h proj c p hc (by rw [← hside]; exact hp)
    rw [← hq] at this; exact this

/-- when all keys exist the loop scatter never raises, for every list of cells, every plane of
    the projection axis and every vector -/
theorem errs_loopScatter_of_keys (d : XCubeDec W) (hok : PlaneKeysOk d)
    (proj : Axis) (pp : Int) (hpp : R1 (2 * d.side proj) pp) (coords : List Coord)
    (hc : ∀ c ∈ coords, Cell (d.planeSizes proj).1 (d.planeSizes proj).2 c) (pc : Vec) :
    Errs (loopScatter d proj pp coords pc) (fun _ => False) := by
  unfold loopScatter
  refine errs_forM' (fun _ => True) ?_ pc trivial
  intro st c hcm _
  refine ⟨?_, post_true _⟩
  simp only
  have := hok proj c pp (hc c hcm) hpp
  cases hqi : qubitIndex? d.qubits (tupleInsert c proj.toNat pp) with
  | none => rw [hqi] at this; simp at this
  | some i =>
    refine errs_bind ?_ ?_
    · intro e he; simp [orKeyError, Out.pure] at he
    · intro a _; exact errs_pure

/-- conversely, a cell whose 3-D location is not a qubit makes the loop scatter raise `KeyError`
    with that location as key -/
theorem loopScatter_raises (d : XCubeDec W) (proj : Axis) (pp : Int) (c : Coord) (rest : List Coord)
    (pc : Vec) (h : tupleInsert c proj.toNat pp ∉ d.qubits) :
    (loopScatter d proj pp (c :: rest) pc).val = .error (.keyError (tupleInsert c proj.toNat pp)) := by
  unfold loopScatter forM'
  simp only
  rw [(qubitIndex?_eq_none_iff _ _).mpr h]
  rfl

end Panqec.XCube
