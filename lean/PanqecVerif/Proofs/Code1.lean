/-
Helper lemmas about `Model/Code.lean`, part 1: the two assembly loops
(`toBsfFold`, `stabRowFold`) equal the count-based specification `toBsf` / `stabRow`.
Core Lean only.
-/
import PanqecVerif.Model.Code
import PanqecVerif.Proofs.Bits

namespace Panqec

/-- keys of a Python dict are distinct -/
def KeysNodup (op : Op) : Prop := (op.map Prod.fst).Nodup

/-- dict values are 'X', 'Y', 'Z' (never the identity) -/
def NoIdentity (op : Op) : Prop := ∀ e ∈ op, e.2 ≠ Pauli.I

/-! ### `List.modify` on appended lists and on `map` -/

theorem modify_append_left {α} (f : α → α) : ∀ (a b : List α) (i : Nat), i < a.length →
    (a ++ b).modify i f = a.modify i f ++ b
  | [], _, _, h => by simp at h
  | x :: a, b, 0, _ => by simp
  | x :: a, b, i + 1, h => by
    simp at h
    simp [List.modify_succ_cons, modify_append_left f a b i h]

theorem modify_append_right {α} (f : α → α) : ∀ (a b : List α) (i : Nat),
    (a ++ b).modify (a.length + i) f = a ++ b.modify i f
  | [], b, i => by simp
  | x :: a, b, i => by
    have h : (x :: a).length + i = (a.length + i) + 1 := by simp; omega
    rw [h]
    simp [List.modify_succ_cons, modify_append_right f a b i]

/-- with distinct coordinates, `+= 1` at `qubit_index[q]` adds one exactly at `q` -/
theorem bump_map_idxOf (f : Coord → Nat) (q : Coord) : ∀ qs : List Coord, qs.Nodup →
    bump (qs.map f) (qs.idxOf q) = qs.map (fun q' => f q' + (if q == q' then 1 else 0))
  | [], _ => by simp [bump]
  | a :: t, hnd => by
    rw [List.nodup_cons] at hnd
    have ih := bump_map_idxOf f q t hnd.2
    unfold bump at ih ⊢
    rw [List.idxOf_cons]
    by_cases h : a = q
    · subst h
      have hrest : t.map (fun q' => f q' + (if a == q' then 1 else 0)) = t.map f := by
        apply List.map_congr_left
        intro q' hq'
        have : a ≠ q' := fun e => hnd.1 (e ▸ hq')
        simp [this]
      simp only [List.map_cons, beq_self_eq_true, cond_true, List.modify_zero_cons, hrest]
      simp
    · have h' : ¬ q = a := fun e => h e.symm
      have hb : (a == q) = false := by simp [h]
      simp only [List.map_cons, hb, cond_false, List.modify_succ_cons, ih]
      simp [h']

/-! ### `opCount` -/

theorem opCount_nil (q : Coord) (f : Pauli → Nat) : opCount [] q f = 0 := by simp [opCount]

theorem opCount_cons (e : Coord × Pauli) (op : Op) (q : Coord) (f : Pauli → Nat) :
    opCount (e :: op) q f = (if e.1 == q && f e.2 == 1 then 1 else 0) + opCount op q f := by
  unfold opCount
  rw [List.filter_cons]
  split <;> simp [Nat.add_comm]

theorem opSupported_cons (qs : List Coord) (e : Coord × Pauli) (op : Op) :
    opSupported qs (e :: op) = (qs.contains e.1 && opSupported qs op) := by
  simp [opSupported]

theorem qubitIndex?_eq (qs : List Coord) (q : Coord) :
    qubitIndex? qs q = if qs.contains q then some (qs.idxOf q) else none := by
  unfold qubitIndex?
  have h : qs.idxOf q < qs.length ↔ qs.contains q = true := by
    rw [List.idxOf_lt_length_iff, List.contains_iff_mem]
  by_cases hc : qs.contains q = true
  · show (if qs.idxOf q < qs.length then some (qs.idxOf q) else none) = _
    rw [if_pos (h.mpr hc), if_pos hc]
  · have : ¬ qs.idxOf q < qs.length := fun hh => hc (h.mp hh)
    show (if qs.idxOf q < qs.length then some (qs.idxOf q) else none) = _
    rw [if_neg this, if_neg hc]

/-! ### the dense loop `toBsfFold` -/

/-- loop body of `to_bsf` -/
def toBsfStep (qs : List Coord) (v : List Nat) (e : Coord × Pauli) : Option (List Nat) :=
  match qubitIndex? qs e.1 with
  | none => none
  | some i =>
    let v := if e.2.xBit == 1 then bump v i else v
    let v := if e.2.zBit == 1 then bump v (qs.length + i) else v
    some v

theorem toBsfFold_def (qs : List Coord) (op : Op) :
    toBsfFold qs op = op.foldlM (toBsfStep qs) (List.replicate (2 * qs.length) 0) := rfl

/-- one iteration of the `to_bsf` loop, on a state written as two count blocks -/
theorem toBsfStep_map (qs : List Coord) (hnd : qs.Nodup) (f g : Coord → Nat)
    (e : Coord × Pauli) :
    toBsfStep qs (qs.map f ++ qs.map g) e =
      if qs.contains e.1 then
        some (qs.map (fun q => f q + (if e.1 == q && e.2.xBit == 1 then 1 else 0)) ++
              qs.map (fun q => g q + (if e.1 == q && e.2.zBit == 1 then 1 else 0)))
      else none := by
  unfold toBsfStep
  rw [qubitIndex?_eq]
  by_cases hc : qs.contains e.1 = true
  · simp only [hc, if_true]
    have hi : qs.idxOf e.1 < (qs.map f).length := by
      rw [List.length_map, List.idxOf_lt_length_iff]; exact List.contains_iff_mem.mp hc
    have hx : bump (qs.map f ++ qs.map g) (qs.idxOf e.1) =
        qs.map (fun q => f q + (if e.1 == q then 1 else 0)) ++ qs.map g := by
      unfold bump
      rw [modify_append_left _ _ _ _ hi]
      have := bump_map_idxOf f e.1 qs hnd
      unfold bump at this
      rw [this]
    have hz : ∀ a : List Nat, a.length = qs.length →
        bump (a ++ qs.map g) (qs.length + qs.idxOf e.1) =
        a ++ qs.map (fun q => g q + (if e.1 == q then 1 else 0)) := by
      intro a ha
      unfold bump
      rw [← ha, modify_append_right]
      have := bump_map_idxOf g e.1 qs hnd
      unfold bump at this
      rw [this]
    cases h1 : (e.2.xBit == 1) <;> cases h2 : (e.2.zBit == 1)
    · simp
    · simp only [if_true, Bool.and_true, Bool.and_false, Bool.false_eq_true, if_false]
      rw [hz _ (by simp)]
      simp
    · simp only [if_true, hx, Bool.and_true, Bool.and_false, Bool.false_eq_true, if_false]
      simp
    · simp only [if_true, hx, Bool.and_true]
      rw [hz _ (by simp)]
  · rw [if_neg hc, if_neg hc]

/-- the `to_bsf` loop started from any pair of count blocks -/
theorem foldlM_toBsfStep (qs : List Coord) (hnd : qs.Nodup) : ∀ (op : Op) (f g : Coord → Nat),
    op.foldlM (toBsfStep qs) (qs.map f ++ qs.map g) =
      if opSupported qs op then
        some (qs.map (fun q => f q + opCount op q Pauli.xBit) ++
              qs.map (fun q => g q + opCount op q Pauli.zBit))
      else none
  | [], f, g => by simp [opSupported, opCount_nil]
  | e :: op, f, g => by
    rw [List.foldlM_cons, toBsfStep_map qs hnd, opSupported_cons]
    by_cases hc : qs.contains e.1 = true
    · simp only [hc, if_true, Bool.true_and]
      show List.foldlM (toBsfStep qs) _ op = _
      rw [foldlM_toBsfStep qs hnd op]
      simp only [opCount_cons, Nat.add_assoc]
    · simp only [hc]
      rfl

theorem toBsfFold_eq_toBsf (qs : List Coord) (op : Op) (hnd : qs.Nodup) :
    toBsfFold qs op = toBsf qs op := by
  rw [toBsfFold_def]
  have h0 : List.replicate (2 * qs.length) 0 =
      qs.map (fun _ => 0) ++ qs.map (fun _ => 0) := by
    rw [List.map_const', List.replicate_append_replicate]
    congr 1; omega
  rw [h0, foldlM_toBsfStep qs hnd]
  unfold toBsf
  simp

/-! ### the sparse-dict loop `stabRowFold` -/

/-- value stored in the sparse dict at a column (0 when the key is absent) -/
def dval (d : List (Nat × Nat)) (col : Nat) : Nat :=
  match d.find? (·.1 == col) with
  | some (_, c) => c
  | none => 0

theorem dval_nil (col : Nat) : dval [] col = 0 := rfl

theorem dval_cons (k c : Nat) (t : List (Nat × Nat)) (col : Nat) :
    dval ((k, c) :: t) col = if k = col then c else dval t col := by
  unfold dval
  rw [List.find?_cons]
  by_cases h : k = col
  · simp [h]
  · have hb : (k == col) = false := by simp [h]
    simp only [hb, if_neg h]

theorem dval_map_incr (key col : Nat) : ∀ d : List (Nat × Nat),
    dval (d.map fun (k, c) => if k == key then (k, c + 1) else (k, c)) col =
      dval d col + (if col = key ∧ d.any (·.1 == key) then 1 else 0)
  | [] => by simp [dval_nil]
  | (k, c) :: t => by
    have ih := dval_map_incr key col t
    rw [List.map_cons]
    by_cases hk : k = key
    · subst hk
      simp only [beq_self_eq_true, if_true, dval_cons, ih, List.any_cons, Bool.true_or]
      by_cases hc : k = col
      · subst hc; simp
      · have : ¬ col = k := fun e => hc e.symm
        simp [hc, this]
    · have hb : (k == key) = false := by simp [hk]
      simp only [hb, Bool.false_eq_true, if_false, dval_cons, ih, List.any_cons, Bool.false_or]
      by_cases hc : k = col
      · subst hc; simp [hk]
      · simp [hc]

theorem dval_append_new (d : List (Nat × Nat)) (key col : Nat)
    (hnew : d.any (·.1 == key) = false) :
    dval (d ++ [(key, 1)]) col = dval d col + (if col = key then 1 else 0) := by
  induction d with
  | nil =>
    rw [List.nil_append, dval_cons, dval_nil]
    by_cases h : key = col
    · subst h; simp
    · have : ¬ col = key := fun e => h e.symm
      simp [h, this]
  | cons a t ih =>
    obtain ⟨k, c⟩ := a
    rw [List.any_cons, Bool.or_eq_false_iff] at hnew
    have hk : ¬ k = key := by simpa using hnew.1
    rw [List.cons_append, dval_cons, dval_cons, ih hnew.2]
    by_cases hc : k = col
    · subst hc; simp [hk]
    · simp [hc]

/-- the `if key in sparse_dict: += 1 else: = 1` update adds one at that key -/
theorem dval_sparseBump (d : List (Nat × Nat)) (key col : Nat) :
    dval (sparseBump d key) col = dval d col + (if col = key then 1 else 0) := by
  unfold sparseBump
  cases hany : d.any (·.1 == key)
  · simp only [Bool.false_eq_true, if_false]
    exact dval_append_new d key col hany
  · simp only [if_true]
    rw [dval_map_incr, hany]
    simp

/-- dense view of the sparse dict (`dok_matrix` row → array) -/
def toDense (m : Nat) (d : List (Nat × Nat)) : List Nat := (List.range m).map (dval d)

theorem bump_range_map (m : Nat) (h : Nat → Nat) (i : Nat) :
    bump ((List.range m).map h) i =
      (List.range m).map (fun c => h c + (if c = i then 1 else 0)) := by
  unfold bump
  apply List.ext_getElem?
  intro j
  rw [List.getElem?_modify, List.getElem?_map, List.getElem?_map]
  by_cases hj : j < m
  · rw [List.getElem?_range hj]
    by_cases hij : i = j
    · subst hij; simp
    · have : ¬ j = i := fun e => hij e.symm
      simp [hij, this]
  · have : (List.range m)[j]? = none := by simp; omega
    rw [this]; rfl

theorem bump_toDense (m : Nat) (d : List (Nat × Nat)) (i : Nat) :
    bump (toDense m d) i = toDense m (sparseBump d i) := by
  unfold toDense
  rw [bump_range_map]
  apply List.map_congr_left
  intro c _
  rw [dval_sparseBump]

theorem toDense_nil (m : Nat) : toDense m [] = List.replicate m 0 := by
  unfold toDense
  have : dval [] = fun _ => 0 := by funext c; rfl
  rw [this, List.map_const', List.length_range]

/-- loop body of the `stabilizer_matrix` assembly (one dict entry of one stabilizer) -/
def sparseStep (qs : List Coord) (d : List (Nat × Nat)) (e : Coord × Pauli) :
    Option (List (Nat × Nat)) :=
  match qubitIndex? qs e.1 with
  | none => none
  | some i =>
    let d := if e.2.xBit == 1 then sparseBump d i else d
    let d := if e.2.zBit == 1 then sparseBump d (qs.length + i) else d
    some d

theorem stabRowFold_def (qs : List Coord) (op : Op) :
    stabRowFold qs op = (op.foldlM (sparseStep qs) []).map fun d =>
      (List.range (2 * qs.length)).map fun col =>
        match d.find? (·.1 == col) with
        | some (_, c) => c % 2
        | none => 0 := rfl

/-- the dense loop body simulates the sparse one -/
theorem toBsfStep_toDense (qs : List Coord) (m : Nat) (d : List (Nat × Nat))
    (e : Coord × Pauli) :
    toBsfStep qs (toDense m d) e = (sparseStep qs d e).map (toDense m) := by
  unfold toBsfStep sparseStep
  cases qubitIndex? qs e.1 with
  | none => rfl
  | some i =>
    cases (e.2.xBit == 1) <;> cases (e.2.zBit == 1) <;> simp [bump_toDense]

theorem foldlM_toDense (qs : List Coord) (m : Nat) : ∀ (op : Op) (d : List (Nat × Nat)),
    op.foldlM (toBsfStep qs) (toDense m d) = (op.foldlM (sparseStep qs) d).map (toDense m)
  | [], d => by simp
  | e :: op, d => by
    rw [List.foldlM_cons, List.foldlM_cons, toBsfStep_toDense]
    cases h : sparseStep qs d e with
    | none => rfl
    | some d' => exact foldlM_toDense qs m op d'

/-- the sparse-dict accumulation followed by `%= 2` is the dense `+= 1` loop mod 2 -/
theorem stabRowFold_eq_toBsfFold (qs : List Coord) (op : Op) :
    stabRowFold qs op = (toBsfFold qs op).map fun v => v.map (· % 2) := by
  rw [stabRowFold_def, toBsfFold_def, ← toDense_nil, foldlM_toDense, Option.map_map]
  congr 1
  funext d
  simp only [Function.comp, toDense, List.map_map]
  apply List.map_congr_left
  intro col _
  simp only [Function.comp, dval]
  split <;> simp_all

theorem stabRowFold_eq_stabRow (qs : List Coord) (op : Op) (hnd : qs.Nodup) :
    stabRowFold qs op = stabRow qs op := by
  rw [stabRowFold_eq_toBsfFold, toBsfFold_eq_toBsf qs op hnd]
  rfl

/-! ### `mapM` in `Option` -/

theorem mapM_some_getElem? {α β} (f : α → Option β) : ∀ (l : List α) (H : List β),
    l.mapM f = some H → ∀ i (hi : i < l.length), H[i]? = f l[i]
  | [], _, _, i, hi => by simp at hi
  | a :: l, H, h, i, hi => by
    rw [List.mapM_cons] at h
    cases ha : f a with
    | none => simp [ha] at h
    | some b =>
      cases hl : l.mapM f with
      | none => simp [ha, hl] at h
      | some bs =>
        simp [ha, hl] at h
        subst h
        cases i with
        | zero => simp [ha]
        | succ i =>
          simp only [List.getElem?_cons_succ, List.getElem_cons_succ]
          exact mapM_some_getElem? f l bs hl i (by simpa using hi)

theorem mapM_some_length {α β} (f : α → Option β) : ∀ (l : List α) (H : List β),
    l.mapM f = some H → H.length = l.length
  | [], H, h => by simp at h; subst h; rfl
  | a :: l, H, h => by
    rw [List.mapM_cons] at h
    cases ha : f a with
    | none => simp [ha] at h
    | some b =>
      cases hl : l.mapM f with
      | none => simp [ha, hl] at h
      | some bs =>
        simp [ha, hl] at h
        subst h
        simp [mapM_some_length f l bs hl]

theorem mapM_isSome_iff {α β} (f : α → Option β) : ∀ (l : List α),
    (l.mapM f).isSome = true ↔ ∀ a ∈ l, (f a).isSome = true
  | [] => by simp
  | a :: l => by
    rw [List.mapM_cons]
    have ih := mapM_isSome_iff f l
    cases ha : f a with
    | none => simp [ha]
    | some b =>
      cases hl : l.mapM f with
      | none =>
        rw [hl] at ih
        simp only [Option.isSome_none, Bool.false_eq_true, false_iff] at ih
        simp only [List.mem_cons, forall_eq_or_imp, ha, Option.isSome_some, true_and]
        simpa using ih
      | some bs =>
        rw [hl] at ih
        simp only [Option.isSome_some, true_iff] at ih
        simp only [List.mem_cons, forall_eq_or_imp, ha, Option.isSome_some, true_and]
        simpa using ih

end Panqec
