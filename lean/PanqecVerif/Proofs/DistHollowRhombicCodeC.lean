/-
HollowRhombicCode, C17 part C: on the deficient sizes with `Lx = 3` and with `Ly = 4` the undeclared
logical X of the thin hole (`ThinA.X2keys`, `ThinB.X2keys`: a plaquette of four qubits next to the
hole) is a non-trivial logical operator of weight 4 of the assembled check matrix: it commutes
with every generator, and it is not a product of generators because it anticommutes with the
undeclared logical Z, which commutes with every generator as well (`lat2_commPair` of the rank
proofs).
-/
import PanqecVerif.Proofs.LatHollowRhombicCodeThinA
import PanqecVerif.Proofs.LatHollowRhombicCodeThinB
import PanqecVerif.Proofs.DistLattice

namespace Panqec

/-- in a family of rows with commutation and pairing for `k = 2`, the second logical X is a
    non-trivial logical operator -/
theorem second_logical_nontrivial {n : Nat} {H Lx Lz : List (List Nat)}
    (hc : CommPairL n 2 H Lx Lz) : IsNontrivialLogical n H (Lx.getD 1 []) := by
  have hxm : Lx.getD 1 [] ∈ Lx := hc.getX_mem ⟨1, by decide⟩
  have hzm : Lz.getD 1 [] ∈ Lz := hc.getZ_mem ⟨1, by decide⟩
  refine ⟨(hc.wfX _ hxm).1, (hc.wfX _ hxm).2, ?_, ?_⟩
  · intro g hg
    rw [symp_comm]
    exact hc.logX_comm _ hxm g hg
  · intro hspan
    have h0 := symp_inSpan_zero hc.lenH (hc.lenZ _ hzm) (hc.logZ_comm _ hzm) hspan
    have h1 := hc.pairing 1 1 (by decide) (by decide)
    rw [symp_comm] at h0
    rw [h0] at h1
    simp at h1

namespace HollowRhombicCode
open Panqec.Cubic3D

theorem ThinA.light_logical {Ly Lz : Nat} (hy : 6 ≤ Ly) (hz : 6 ≤ Lz) {n : Nat}
    (hn : (lattice 3 Ly Lz).qubits.length = n) :
    ∃ v, IsNontrivialLogical n (lattice 3 Ly Lz).rowsH v ∧ pauliWeight v = 4 := by
  subst hn
  have hwf := ThinA.lat2_wf hy hz
  have hc := Lattice.commPairL_rows hwf (ThinA.lat2_commPair hy hz)
  have hk : (ThinA.lat2 Ly Lz).logX.length = 2 := by rw [ThinA.lat2_logX]; rfl
  rw [hk] at hc
  refine ⟨_, second_logical_nontrivial hc, ?_⟩
  have hm : uop ThinA.X2keys Pauli.X ∈ (ThinA.lat2 Ly Lz).logX ++ (ThinA.lat2 Ly Lz).logZ := by
    rw [ThinA.lat2_logX]; simp
  have e : (ThinA.lat2 Ly Lz).rowsX.getD 1 [] =
      opRow (ThinA.lat2 Ly Lz).qubits (uop ThinA.X2keys Pauli.X) := by
    unfold Lattice.rowsX
    rw [ThinA.lat2_logX]; rfl
  rw [e, pauliWeight_opRow _ hwf.qubits_nodup _ (hwf.log_keys _ hm) (hwf.log_supported _ hm)]
  rfl

theorem ThinB.light_logical {Lx Lz : Nat} (hx : 5 ≤ Lx) (hz : 6 ≤ Lz) {n : Nat}
    (hn : (lattice Lx 4 Lz).qubits.length = n) :
    ∃ v, IsNontrivialLogical n (lattice Lx 4 Lz).rowsH v ∧ pauliWeight v = 4 := by
  subst hn
  have hwf := ThinB.lat2_wf hx hz
  have hc := Lattice.commPairL_rows hwf (ThinB.lat2_commPair hx hz)
  have hk : (ThinB.lat2 Lx Lz).logX.length = 2 := by rw [ThinB.lat2_logX]; rfl
  rw [hk] at hc
  refine ⟨_, second_logical_nontrivial hc, ?_⟩
  have hm : uop ThinB.X2keys Pauli.X ∈ (ThinB.lat2 Lx Lz).logX ++ (ThinB.lat2 Lx Lz).logZ := by
    rw [ThinB.lat2_logX]; simp
  have e : (ThinB.lat2 Lx Lz).rowsX.getD 1 [] =
      opRow (ThinB.lat2 Lx Lz).qubits (uop ThinB.X2keys Pauli.X) := by
    unfold Lattice.rowsX
    rw [ThinB.lat2_logX]; rfl
  rw [e, pauliWeight_opRow _ hwf.qubits_nodup _ (hwf.log_keys _ hm) (hwf.log_supported _ hm)]
  rfl

end HollowRhombicCode
end Panqec
