/-
C17 main soundness theorem: an accepted distance certificate proves that the reported `d` is
the true distance.

* `checkExhaustive_sound`: the enumeration below `d` leaves no room for a lighter non-trivial
  logical (uses C04 through `nontrivial_anticommutes_listed`);
* `checkPacking_sound`: `d` disjoint representatives per listed logical (`packing_lower_bound`);
* `checkDistance_lower`, `checkDistance_sound`, `certified_sound` (tables with certificates).
-/
import PanqecVerif.Proofs.Dist1
import PanqecVerif.Proofs.Dist2

namespace Panqec

/-! ### rows: table entries are symplectic products -/

theorem rowEff_eq_dot (r n : Nat) : ∀ (len q : Nat) (xs zs : List Nat),
    xs.length = len → zs.length = len →
    rowEff r n q xs zs =
      dot (unpackBits len (r >>> q)) zs + dot (unpackBits len (r >>> (n + q))) xs
  | 0, q, [], zs, _, _ => by simp [rowEff, unpackBits, dot_nil_left]
  | len + 1, q, x :: xs, z :: zs, hx, hz => by
    have ih := rowEff_eq_dot r n len (q + 1) xs zs (by simpa using hx) (by simpa using hz)
    have e1 : r >>> q / 2 = r >>> (q + 1) := by rw [Nat.shiftRight_succ]
    have e2 : r >>> (n + q) / 2 = r >>> (n + (q + 1)) := by
      rw [← Nat.add_assoc, Nat.shiftRight_succ]
    simp only [rowEff, unpackBits, dot_cons, ih, e1, e2]
    rw [Nat.mul_comm x, Nat.mul_comm z]
    omega

/-- entry of the effect vector = symplectic product of the row with the operator -/
theorem rowEff_symp (r n : Nat) (v : List Nat) (hv : v.length = 2 * n) :
    rowEff r n 0 (xPart v) (zPart v) % 2 = symp (unpackBits (2 * n) r) v := by
  rw [rowEff_eq_dot r n n 0 _ _ (xPart_len hv) (zPart_len hv)]
  unfold symp
  rw [xPart_unpackBits', zPart_unpackBits', unpackBits_mod, Nat.shiftRight_zero, Nat.add_zero]

/-! ### packed 0/1 vectors -/

theorem packBits_append : ∀ (a b : List Nat),
    packBits (a ++ b) = packBits a + 2 ^ a.length * packBits b
  | [], b => by simp [packBits]
  | x :: a, b => by
    simp only [List.cons_append, packBits, packBits_append a b, List.length_cons, Nat.pow_succ]
    rw [Nat.mul_add, ← Nat.mul_assoc, Nat.mul_comm 2 (2 ^ a.length)]
    omega

theorem packBits_eq_zero : ∀ (a : List Nat), (∀ x ∈ a, x % 2 = 0) → packBits a = 0
  | [], _ => rfl
  | x :: a, h => by
    simp [packBits, h x (by simp), packBits_eq_zero a (fun y hy => h y (by simp [hy]))]

theorem mod_two_of_packBits_eq_zero : ∀ (a : List Nat), packBits a = 0 → ∀ x ∈ a, x % 2 = 0
  | [], _, x, hx => by simp at hx
  | y :: a, h, x, hx => by
    simp only [packBits] at h
    rcases List.mem_cons.mp hx with rfl | hx
    · omega
    · exact mod_two_of_packBits_eq_zero a (by omega) x hx

/-! ### exhaustive check -/

/-- If the enumeration below `d` accepts, every non-trivial logical operator of a valid code has
    weight at least `d`. -/
theorem checkExhaustive_sound (c : MaskCode)
    (hv : ValidCodeL c.n c.k (c.stabs.map (unpackBits (2 * c.n)))
      (c.logX.map (unpackBits (2 * c.n))) (c.logZ.map (unpackBits (2 * c.n))))
    (h : checkExhaustive c = true) :
    ∀ v, IsNontrivialLogical c.n (c.stabs.map (unpackBits (2 * c.n))) v →
      c.d ≤ pauliWeight v := by
  intro v hnt
  obtain ⟨l, hl, hlv⟩ := nontrivial_anticommutes_listed hv hnt
  obtain ⟨hlen, hbin, hcomm, _⟩ := hnt
  by_contra hlt
  have hw : wtXZ (xPart v) (zPart v) ≤ c.d - 1 := by
    have : pauliWeight v = wtXZ (xPart v) (zPart v) := rfl
    omega
  simp only [checkExhaustive, forceNat_eq, forceList_eq, forcePairs_eq] at h
  have hgood := exhB_cover _ _ _ _ h (xPart v) (zPart v) hw
  have hxb : ∀ x ∈ xPart v, x < 2 := fun x hx => hbin x (List.mem_of_mem_take hx)
  have hzb : ∀ x ∈ zPart v, x < 2 := fun x hx => hbin x (List.mem_of_mem_drop hx)
  rw [Nat.zero_xor, effList_table _ c.n c.n (Nat.le_refl _) _ _ (xPart_len hlen) (zPart_len hlen)
    hxb hzb, Nat.sub_self] at hgood
  -- split the effect vector into the logical part (low) and the generator part (high)
  unfold effVec effRows at hgood
  rw [List.map_append, packBits_append] at hgood
  have hstab : packBits (c.stabs.map fun r => rowEff r c.n 0 (xPart v) (zPart v)) = 0 := by
    apply packBits_eq_zero
    intro x hx
    obtain ⟨r, hr, rfl⟩ := List.mem_map.mp hx
    rw [rowEff_symp r c.n v hlen]
    exact hcomm _ (List.mem_map.mpr ⟨r, hr, rfl⟩)
  have hlt2 := packBits_lt ((c.logX ++ c.logZ).map fun r => rowEff r c.n 0 (xPart v) (zPart v))
  rw [hstab, Nat.mul_zero, Nat.add_zero] at hgood
  simp only [List.length_map, List.length_append] at hlt2
  have hzero : packBits ((c.logX ++ c.logZ).map fun r => rowEff r c.n 0 (xPart v) (zPart v))
      = 0 := by
    simp only [goodEff, Bool.or_eq_true, beq_iff_eq, Nat.ble_eq] at hgood
    rcases hgood with h0 | hge
    · exact h0
    · omega
  -- but `v` anticommutes with the listed logical `l`
  rw [← List.map_append] at hl
  obtain ⟨lm, hlm, rfl⟩ := List.mem_map.mp hl
  have := mod_two_of_packBits_eq_zero _ hzero (rowEff lm c.n 0 (xPart v) (zPart v))
    (List.mem_map.mpr ⟨lm, hlm, rfl⟩)
  rw [rowEff_symp lm c.n v hlen, hlv] at this
  exact absurd this (by decide)

/-! ### packing check -/

theorem checkPacking_sound (c : MaskCode) (cs : List Nat)
    (hv : ValidCodeL c.n c.k (c.stabs.map (unpackBits (2 * c.n)))
      (c.logX.map (unpackBits (2 * c.n))) (c.logZ.map (unpackBits (2 * c.n))))
    (h : checkPacking c cs = true) :
    ∀ v, IsNontrivialLogical c.n (c.stabs.map (unpackBits (2 * c.n))) v →
      c.d ≤ pauliWeight v :=
  packing_lower_bound hv c.d (checkPacking_reps c cs h)

/-! ### combined -/

/-- lower bound from any accepted certificate -/
theorem checkDistance_lower (c : MaskCode) (cert : DistCert)
    (hv : ValidCodeL c.n c.k (c.stabs.map (unpackBits (2 * c.n)))
      (c.logX.map (unpackBits (2 * c.n))) (c.logZ.map (unpackBits (2 * c.n))))
    (h : checkDistance c cert = true) :
    ∀ v, IsNontrivialLogical c.n (c.stabs.map (unpackBits (2 * c.n))) v →
      c.d ≤ pauliWeight v := by
  cases cert with
  | exhaustive => exact checkExhaustive_sound c hv h
  | packing cs => exact checkPacking_sound c cs hv h

theorem foldl_min_mem : ∀ (as : List Nat) (a : Nat), as.foldl min a = a ∨ as.foldl min a ∈ as
  | [], _ => Or.inl rfl
  | b :: as, a => by
    rcases foldl_min_mem as (min a b) with h | h
    · rw [List.foldl_cons, h]
      rcases Nat.le_total a b with hab | hab
      · left; exact Nat.min_eq_left hab
      · right; rw [Nat.min_eq_right hab]; simp
    · right; rw [List.foldl_cons]; simp [h]

theorem listMin_mem (l : List Nat) (m : Nat) (h : listMin l = some m) : m ∈ l := by
  cases l with
  | nil => simp [listMin] at h
  | cons a as =>
    simp only [listMin, Option.some.injEq] at h
    rcases foldl_min_mem as a with h' | h'
    · rw [← h, h']; simp
    · rw [← h]; simp [h']

/-- `code.d = some d` means some listed logical has weight `d` -/
theorem exists_listed_of_distance (Lx Lz : List (List Nat)) (d : Nat)
    (h : distance Lx Lz = some d) : ∃ l ∈ Lx ++ Lz, pauliWeight l = d := by
  unfold distance at h
  cases hx : listMin (Lx.map rowWeight) with
  | none => simp [hx] at h
  | some a =>
    cases hz : listMin (Lz.map rowWeight) with
    | none => simp [hx, hz] at h
    | some b =>
      simp only [hx, hz, Option.some.injEq] at h
      rcases Nat.le_total a b with hab | hab
      · rw [Nat.min_eq_left hab] at h
        obtain ⟨l, hl, hw⟩ := List.mem_map.mp (listMin_mem _ _ hx)
        exact ⟨l, List.mem_append.mpr (Or.inl hl), by rw [← h]; exact hw⟩
      · rw [Nat.min_eq_right hab] at h
        obtain ⟨l, hl, hw⟩ := List.mem_map.mp (listMin_mem _ _ hz)
        exact ⟨l, List.mem_append.mpr (Or.inr hl), by rw [← h]; exact hw⟩

/-- semantic form: valid code + reported distance attained by a listed logical + accepted
    certificate ⇒ `d` is the distance -/
theorem isDistance_of_cert (c : MaskCode) (cert : DistCert)
    (hv : ValidCodeL c.n c.k (c.stabs.map (unpackBits (2 * c.n)))
      (c.logX.map (unpackBits (2 * c.n))) (c.logZ.map (unpackBits (2 * c.n))))
    (hd : distance (c.logX.map (unpackBits (2 * c.n))) (c.logZ.map (unpackBits (2 * c.n)))
      = some c.d)
    (h : checkDistance c cert = true) :
    IsDistance c.n (c.stabs.map (unpackBits (2 * c.n))) c.d :=
  distance_criterion hv c.d (exists_listed_of_distance _ _ _ hd) (checkDistance_lower c cert hv h)

/-- MAIN: the three executable checks together prove that the reported `d` is the minimum
    weight of a non-trivial logical operator. -/
theorem checkDistance_sound (c : MaskCode) (rc : RankCert) (cert : DistCert)
    (hvalid : checkValidFast c rc = true) (hrep : reportedDistanceFast c = true)
    (h : checkDistance c cert = true) :
    IsDistance c.n (c.stabs.map (unpackBits (2 * c.n))) c.d :=
  isDistance_of_cert c cert (checkValidFast_sound c rc hvalid)
    (reportedDistanceFast_sound c rc hvalid hrep) h

/-! ### tables with certificates -/

theorem mem_attachCerts : ∀ (ps : List (MaskCode × RankCert)) (cs : List (Option DistCert))
    (q : MaskCode × RankCert × DistCert), q ∈ attachCerts ps cs → (q.1, q.2.1) ∈ ps
  | [], _, q, h => by simp [attachCerts] at h
  | _ :: _, [], q, h => by simp [attachCerts] at h
  | p :: ps, none :: cs, q, h => by
    simp only [attachCerts] at h
    exact List.mem_cons_of_mem _ (mem_attachCerts ps cs q h)
  | p :: ps, some c :: cs, q, h => by
    simp only [attachCerts, List.mem_cons] at h
    rcases h with rfl | h
    · simp
    · exact List.mem_cons_of_mem _ (mem_attachCerts ps cs q h)

/-- what an instance theorem `(attachCerts all certs).all (checkDistance …) = true` gives,
    on top of the validity theorem of the same table -/
theorem certified_sound (all : List (MaskCode × RankCert)) (certs : List (Option DistCert))
    (hvalid : ∀ p ∈ all,
      ValidCodeL p.1.n p.1.k (p.1.stabs.map (unpackBits (2 * p.1.n)))
        (p.1.logX.map (unpackBits (2 * p.1.n))) (p.1.logZ.map (unpackBits (2 * p.1.n))) ∧
      distance (p.1.logX.map (unpackBits (2 * p.1.n))) (p.1.logZ.map (unpackBits (2 * p.1.n)))
        = some p.1.d)
    (h : ((attachCerts all certs).all fun q => checkDistance q.1 q.2.2) = true) :
    ∀ q ∈ attachCerts all certs,
      IsDistance q.1.n (q.1.stabs.map (unpackBits (2 * q.1.n))) q.1.d := by
  intro q hq
  have hm := mem_attachCerts all certs q hq
  obtain ⟨hv, hd⟩ := hvalid _ hm
  exact isDistance_of_cert q.1 q.2.2 hv hd (List.all_eq_true.mp h q hq)

/-! ### non-vacuity on the [[4,2,2]] code -/

example : checkDistance code422 .exhaustive = true := by decide
/-- `l`, `l·XXXX` (resp. `l·ZZZZ`) for each of the four listed logicals -/
example : checkDistance code422 (.packing [0, 1, 0, 1, 0, 2, 0, 2]) = true := by decide
/-- a non-disjoint family is rejected -/
example : checkDistance code422 (.packing [0, 0, 0, 1, 0, 2, 0, 2]) = false := by decide
/-- too few representatives -/
example : checkDistance code422 (.packing [0, 1, 0, 1, 0, 2]) = false := by decide
/-- an overstated distance is rejected by both checks -/
example : checkDistance { code422 with d := 3 } .exhaustive = false := by decide
example : checkDistance { code422 with d := 3 } (.packing [0, 1, 3, 0, 1, 3, 0, 2, 3, 0, 2, 3])
    = false := by decide
example : IsDistance 4 (code422.stabs.map (unpackBits 8)) 2 :=
  checkDistance_sound code422 cert422 .exhaustive (by decide) (by decide) (by decide)

end Panqec
