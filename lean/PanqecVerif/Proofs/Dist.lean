/-
C17 main soundness theorem: an accepted distance certificate proves that the reported `d` is
the true distance.

* `checkExhaustive_sound` (Proofs/Dist3.lean), `checkExhaustiveCSS_sound` (Proofs/DistCSS.lean):
  the enumeration below `d` leaves no room for a lighter non-trivial logical (uses C04 through
  `nontrivial_anticommutes_listed`);
* `checkPacking_sound`: `d` disjoint representatives per listed logical (`packing_lower_bound`);
* `checkDistance_lower`, `checkDistance_sound`, `certified_sound` (tables with certificates).
-/
import PanqecVerif.Proofs.Dist3
import PanqecVerif.Proofs.DistCSS

namespace Panqec

/-! ### packing check -/

theorem checkPacking_sound (c : MaskCode) (cs : List Nat)
    (hv : ValidCodeL c.n c.k (c.stabs.map (unpackBits (2 * c.n)))
      (c.logX.map (unpackBits (2 * c.n))) (c.logZ.map (unpackBits (2 * c.n))))
    (h : checkPacking c cs = true) :
    ∀ v, IsNontrivialLogical c.n (c.stabs.map (unpackBits (2 * c.n))) v →
      c.d ≤ pauliWeight v :=
  packing_lower_bound hv c.d (checkPacking_reps c cs h)

/-! ### combined -/

/-- lower bound from any accepted certificate -/
theorem checkDistance_lower (c : MaskCode) (cert : DistCert)
    (hv : ValidCodeL c.n c.k (c.stabs.map (unpackBits (2 * c.n)))
      (c.logX.map (unpackBits (2 * c.n))) (c.logZ.map (unpackBits (2 * c.n))))
    (h : checkDistance c cert = true) :
    ∀ v, IsNontrivialLogical c.n (c.stabs.map (unpackBits (2 * c.n))) v →
      c.d ≤ pauliWeight v := by
  cases cert with
  | exhaustive => exact checkExhaustive_sound c hv h
  | exhaustiveCSS => exact checkExhaustiveCSS_sound c hv h
  | packing cs => exact checkPacking_sound c cs hv h

theorem foldl_min_mem : ∀ (as : List Nat) (a : Nat), as.foldl min a = a ∨ as.foldl min a ∈ as
  | [], _ => Or.inl rfl
  | b :: as, a => by
    rcases foldl_min_mem as (min a b) with h | h
    · rw [List.foldl_cons, h]
      rcases Nat.le_total a b with hab | hab
      · left; exact Nat.min_eq_left hab
      · right; rw [Nat.min_eq_right hab]; simp
    · right; rw [List.foldl_cons]; simp [h]

theorem listMin_mem (l : List Nat) (m : Nat) (h : listMin l = some m) : m ∈ l := by
  cases l with
  | nil => simp [listMin] at h
  | cons a as =>
    simp only [listMin, Option.some.injEq] at h
    rcases foldl_min_mem as a with h' | h'
    · rw [← h, h']; simp
    · rw [← h]; simp [h']

/-- `code.d = some d` means some listed logical has weight `d` -/
theorem exists_listed_of_distance (Lx Lz : List (List Nat)) (d : Nat)
    (h : distance Lx Lz = some d) : ∃ l ∈ Lx ++ Lz, pauliWeight l = d := by
  unfold distance at h
  cases hx : listMin (Lx.map rowWeight) with
  | none => simp [hx] at h
  | some a =>
    cases hz : listMin (Lz.map rowWeight) with
    | none => simp [hx, hz] at h
    | some b =>
      simp only [hx, hz, Option.some.injEq] at h
      rcases Nat.le_total a b with hab | hab
      · rw [Nat.min_eq_left hab] at h
        obtain ⟨l, hl, hw⟩ := List.mem_map.mp (listMin_mem _ _ hx)
        exact ⟨l, List.mem_append.mpr (Or.inl hl), by rw [← h]; exact hw⟩
      · rw [Nat.min_eq_right hab] at h
        obtain ⟨l, hl, hw⟩ := List.mem_map.mp (listMin_mem _ _ hz)
        exact ⟨l, List.mem_append.mpr (Or.inr hl), by rw [← h]; exact hw⟩

/-- semantic form: valid code + reported distance attained by a listed logical + accepted
    certificate ⇒ `d` is the distance -/
theorem isDistance_of_cert (c : MaskCode) (cert : DistCert)
    (hv : ValidCodeL c.n c.k (c.stabs.map (unpackBits (2 * c.n)))
      (c.logX.map (unpackBits (2 * c.n))) (c.logZ.map (unpackBits (2 * c.n))))
    (hd : distance (c.logX.map (unpackBits (2 * c.n))) (c.logZ.map (unpackBits (2 * c.n)))
      = some c.d)
    (h : checkDistance c cert = true) :
    IsDistance c.n (c.stabs.map (unpackBits (2 * c.n))) c.d :=
  distance_criterion hv c.d (exists_listed_of_distance _ _ _ hd) (checkDistance_lower c cert hv h)

/-- MAIN: the three executable checks together prove that the reported `d` is the minimum
    weight of a non-trivial logical operator. -/
theorem checkDistance_sound (c : MaskCode) (rc : RankCert) (cert : DistCert)
    (hvalid : checkValidFast c rc = true) (hrep : reportedDistanceFast c = true)
    (h : checkDistance c cert = true) :
    IsDistance c.n (c.stabs.map (unpackBits (2 * c.n))) c.d :=
  isDistance_of_cert c cert (checkValidFast_sound c rc hvalid)
    (reportedDistanceFast_sound c rc hvalid hrep) h

/-! ### tables with certificates -/

theorem mem_attachCerts : ∀ (ps : List (MaskCode × RankCert)) (cs : List (Option DistCert))
    (q : MaskCode × RankCert × DistCert), q ∈ attachCerts ps cs → (q.1, q.2.1) ∈ ps
  | [], _, q, h => by simp [attachCerts] at h
  | _ :: _, [], q, h => by simp [attachCerts] at h
  | p :: ps, none :: cs, q, h => by
    simp only [attachCerts] at h
    exact List.mem_cons_of_mem _ (mem_attachCerts ps cs q h)
  | p :: ps, some c :: cs, q, h => by
    simp only [attachCerts, List.mem_cons] at h
    rcases h with rfl | h
    · simp
    · exact List.mem_cons_of_mem _ (mem_attachCerts ps cs q h)

/-- what an instance theorem `(attachCerts all certs).all (checkDistance …) = true` gives,
    on top of the validity theorem of the same table -/
theorem certified_sound (all : List (MaskCode × RankCert)) (certs : List (Option DistCert))
    (hvalid : ∀ p ∈ all,
      ValidCodeL p.1.n p.1.k (p.1.stabs.map (unpackBits (2 * p.1.n)))
        (p.1.logX.map (unpackBits (2 * p.1.n))) (p.1.logZ.map (unpackBits (2 * p.1.n))) ∧
      distance (p.1.logX.map (unpackBits (2 * p.1.n))) (p.1.logZ.map (unpackBits (2 * p.1.n)))
        = some p.1.d)
    (h : ((attachCerts all certs).all fun q => checkDistance q.1 q.2.2) = true) :
    ∀ q ∈ attachCerts all certs,
      IsDistance q.1.n (q.1.stabs.map (unpackBits (2 * q.1.n))) q.1.d := by
  intro q hq
  have hm := mem_attachCerts all certs q hq
  obtain ⟨hv, hd⟩ := hvalid _ hm
  exact isDistance_of_cert q.1 q.2.2 hv hd (List.all_eq_true.mp h q hq)

/-! ### non-vacuity on the [[4,2,2]] code -/

example : checkDistance code422 .exhaustive = true := by decide
/-- `l`, `l·XXXX` (resp. `l·ZZZZ`) for each of the four listed logicals -/
example : checkDistance code422 (.packing [0, 1, 0, 1, 0, 2, 0, 2]) = true := by decide
/-- a non-disjoint family is rejected -/
example : checkDistance code422 (.packing [0, 0, 0, 1, 0, 2, 0, 2]) = false := by decide
/-- too few representatives -/
example : checkDistance code422 (.packing [0, 1, 0, 1, 0, 2]) = false := by decide
/-- an overstated distance is rejected by both checks -/
example : checkDistance { code422 with d := 3 } .exhaustive = false := by decide
example : checkDistance { code422 with d := 3 } (.packing [0, 1, 3, 0, 1, 3, 0, 2, 3, 0, 2, 3])
    = false := by decide
example : IsDistance 4 (code422.stabs.map (unpackBits 8)) 2 :=
  checkDistance_sound code422 cert422 .exhaustive (by decide) (by decide) (by decide)

end Panqec
