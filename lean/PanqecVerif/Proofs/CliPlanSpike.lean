/-
Helper lemmas for C14 (`run_parallel` task plan), part 1: the conservation argument of
`spikes/RunParallelConservation.lean` (core Lean only).

`q = nT / I`, `r = nT % I` are passed as parameters (omega mis-atomises a division by a
variable); the corollary at the end instantiates them.
-/
import PanqecVerif.Model.Cli

namespace Panqec.Cli

namespace Plan

def inputOf (q I t : Nat) : Nat := min (t / q) (I - 1)
def tpi (q r I j : Nat) : Nat := if j = I - 1 then q + r else q
def idx (q I t : Nat) : Nat := if inputOf q I t = I - 1 then t - q * (I - 1) else t % q
def runs (q r I T t : Nat) : Nat :=
  T / tpi q r I (inputOf q I t) +
    (if idx q I t = tpi q r I (inputOf q I t) - 1 then T % tpi q r I (inputOf q I t) else 0)

/-- trials given to input `j` by the tasks `0 .. m-1` -/
def total (q r I T j : Nat) : Nat → Nat
  | 0 => 0
  | m + 1 => total q r I T j m + (if inputOf q I m = j then runs q r I T m else 0)

/-- number of tasks among `0..m-1` assigned to input `j` -/
def cnt (q I j : Nat) : Nat → Nat
  | 0 => 0
  | m + 1 => cnt q I j m + (if inputOf q I m = j then 1 else 0)

def lo (q j : Nat) : Nat := j * q
def hi (q I nT j : Nat) : Nat := if j = I - 1 then nT else j * q + q

section
variable {q r I nT : Nat} (hI : 0 < I) (hq : 0 < q) (hs : nT = (I - 1) * q + q + r)
include hI hq hs

theorem inputOf_eq {t j : Nat} (ht : t < nT) (hj : j < I) :
    inputOf q I t = j ↔ lo q j ≤ t ∧ t < hi q I nT j := by
  unfold inputOf lo hi
  by_cases hlast : j = I - 1
  · subst hlast
    simp only [if_true]
    have h1 : (I - 1) ≤ t / q ↔ (I - 1) * q ≤ t := Nat.le_div_iff_mul_le hq
    constructor
    · intro h; exact ⟨h1.mp (by omega), ht⟩
    · intro h; have := h1.mpr h.1; omega
  · simp only [hlast, if_false]
    have h1 : t / q = j ↔ j * q ≤ t ∧ t ≤ j * q + q - 1 := Nat.div_eq_iff hq
    constructor
    · intro h
      have h2 : t / q = j := by omega
      have := h1.mp h2; omega
    · intro h
      have : t / q = j := h1.mpr (by omega)
      omega

theorem hi_sub_lo {j : Nat} (hj : j < I) :
    hi q I nT j - lo q j = tpi q r I j ∧ lo q j < hi q I nT j ∧ hi q I nT j ≤ nT ∧ 0 < hi q I nT j := by
  unfold hi lo tpi
  by_cases hlast : j = I - 1
  · subst hlast; simp only [if_true]; omega
  · simp only [hlast, if_false]
    have h : (j + 1) * q ≤ (I - 1) * q := Nat.mul_le_mul_right _ (by omega)
    rw [Nat.add_mul, Nat.one_mul] at h
    omega

theorem idx_last {t j : Nat} (ht : t < nT) (hj : j < I) (hin : inputOf q I t = j) :
    idx q I t = tpi q r I j - 1 ↔ t + 1 = hi q I nT j := by
  have hr := (inputOf_eq hI hq hs ht hj).mp hin
  unfold idx
  rw [hin]
  unfold tpi
  unfold lo hi at hr
  unfold hi
  by_cases hlast : j = I - 1
  · subst hlast
    simp only [if_true] at hr ⊢
    rw [Nat.mul_comm q (I - 1)]
    omega
  · simp only [hlast, if_false] at hr ⊢
    have hmod : t % q = t - t / q * q := Nat.mod_eq_sub_div_mul
    have hdiv : t / q = j := (Nat.div_eq_iff hq).mpr (by omega)
    rw [hmod, hdiv]
    omega

theorem cnt_eq {j : Nat} (hj : j < I) : ∀ m, m ≤ nT →
    cnt q I j m = min m (hi q I nT j) - min m (lo q j) := by
  intro m
  induction m with
  | zero => intro _; simp [cnt]
  | succ m ih =>
    intro hm
    have ih := ih (by omega)
    have hb := hi_sub_lo (r := r) hI hq hs hj
    have hiff := inputOf_eq hI hq hs (t := m) (j := j) (by omega) hj
    unfold cnt
    rw [ih]
    by_cases hin : inputOf q I m = j
    · have := hiff.mp hin; simp only [hin, if_true]; omega
    · have : ¬(lo q j ≤ m ∧ m < hi q I nT j) := fun h => hin (hiff.mpr h)
      simp only [hin, if_false]; omega

theorem total_eq' {j : Nat} (T : Nat) (hj : j < I) : ∀ m, m ≤ nT →
    total q r I T j m = cnt q I j m * (T / tpi q r I j) +
      (if hi q I nT j ≤ m then T % tpi q r I j else 0) := by
  intro m
  induction m with
  | zero =>
    intro _
    have hb := hi_sub_lo (r := r) hI hq hs hj
    have : ¬ hi q I nT j ≤ 0 := by omega
    simp [total, cnt, this]
  | succ m ih =>
    intro hm
    have ih := ih (by omega)
    have hb := hi_sub_lo (r := r) hI hq hs hj
    have hiff := inputOf_eq hI hq hs (t := m) (j := j) (by omega) hj
    unfold total cnt
    rw [ih]
    by_cases hin : inputOf q I m = j
    · have hr := hiff.mp hin
      have hl := idx_last (r := r) hI hq hs (t := m) (j := j) (by omega) hj hin
      simp only [hin, if_true]
      unfold runs
      rw [hin, Nat.add_mul, Nat.one_mul]
      by_cases hlastt : m + 1 = hi q I nT j
      · have h1 : ¬ hi q I nT j ≤ m := by omega
        have h2 : hi q I nT j ≤ m + 1 := by omega
        simp only [hl.mpr hlastt, if_true, h1, if_false, h2]; omega
      · have h0 : ¬ idx q I m = tpi q r I j - 1 := fun h => hlastt (hl.mp h)
        have h1 : ¬ hi q I nT j ≤ m := by omega
        have h2 : ¬ hi q I nT j ≤ m + 1 := by omega
        simp only [h0, if_false, h1, h2]; omega
    · have hn : ¬(lo q j ≤ m ∧ m < hi q I nT j) := fun h => hin (hiff.mpr h)
      simp only [hin, if_false, Nat.add_zero]
      by_cases h1 : hi q I nT j ≤ m
      · have h2 : hi q I nT j ≤ m + 1 := by omega
        simp only [h1, h2, if_true]
      · have h2 : ¬ hi q I nT j ≤ m + 1 := by
          have := hb.2.1; omega
        simp only [h1, h2, if_false]

/-- every input receives exactly `T` trials -/
theorem total_eq {j : Nat} (T : Nat) (hj : j < I) : total q r I T j nT = T := by
  have hb := hi_sub_lo (r := r) hI hq hs hj
  rw [total_eq' hI hq hs T hj nT (Nat.le_refl _), cnt_eq hI hq hs hj nT (Nat.le_refl _)]
  have h1 : min nT (hi q I nT j) - min nT (lo q j) = tpi q r I j := by omega
  have h2 : hi q I nT j ≤ nT := hb.2.2.1
  simp only [h1, h2, if_true]
  have := Nat.div_add_mod T (tpi q r I j)
  exact this
end

/-- instantiate q = nT / I, r = nT % I as `run_parallel` does -/
theorem run_parallel_conserves (I nT T j : Nat) (hI : 0 < I) (hle : I ≤ nT) (hj : j < I) :
    total (nT / I) (nT % I) I T j nT = T := by
  apply total_eq hI (Nat.div_pos hle hI) _ T hj
  have h := Nat.div_add_mod nT I
  have : ∀ x, I * x = (I - 1) * x + x := by
    intro x
    obtain ⟨k, rfl⟩ : ∃ k, I = k + 1 := ⟨I - 1, by omega⟩
    rw [Nat.add_sub_cancel, Nat.succ_mul]
  have := this (nT / I)
  omega

end Plan

end Panqec.Cli
