/-
Helper lemmas for the estimator of `SplittingSimulation` (`Model/Splitting.lean`):
`g(x) + g(1/x) = 1`, the balance point of `compute_optimal_c`, monotonicity in `c`, the grid
search, the telescoping product, and the acceptance-ratio identity that the method rests
on (both densities evaluated on the same error).
-/
import PanqecVerif.Model.Splitting
import PanqecVerif.Proofs.NoiseProb

namespace Panqec.Split

open Panqec

/-! ### the two sums -/

theorem lhsTerm_eq (c a b : Rat) (hb : b ≠ 0) :
    lhsTerm c a b = b / (b + c * a) := by
  unfold lhsTerm g
  have e : 1 + c * (a / b) = (b + c * a) / b := by field_simp
  rw [e, one_div_div]

theorem rhsTerm_eq (c a b : Rat) (ha : a ≠ 0) (hc : c ≠ 0) :
    rhsTerm c a b = c * a / (b + c * a) := by
  unfold rhsTerm g
  have e : 1 + 1 / c * (b / a) = (b + c * a) / (c * a) := by field_simp; ring
  rw [e, one_div_div]

/-- `g(x) + g(1/x) = 1`: every sample contributes 1 to `lhs + rhs` -/
theorem lhsTerm_add_rhsTerm (c a b : Rat) (ha : 0 < a) (hb : 0 < b) (hc : 0 < c) :
    lhsTerm c a b + rhsTerm c a b = 1 := by
  have h : b + c * a ≠ 0 := ne_of_gt (by positivity)
  rw [lhsTerm_eq c a b (ne_of_gt hb), rhsTerm_eq c a b (ne_of_gt ha) (ne_of_gt hc)]
  field_simp

theorem lhs_add_rhs (c : Rat) (hc : 0 < c) : ∀ (ab : List (Rat × Rat)),
    (∀ p ∈ ab, 0 < p.1 ∧ 0 < p.2) → lhs c ab + rhs c ab = (ab.length : Rat)
  | [], _ => by simp [lhs, rhs, ratSum]
  | p :: ab, h => by
    have ih := lhs_add_rhs c hc ab fun q hq => h q (by simp [hq])
    have hp := h p (by simp)
    have := lhsTerm_add_rhsTerm c p.1 p.2 hp.1 hp.2 hc
    simp only [lhs, rhs, List.map_cons, ratSum, List.length_cons] at ih ⊢
    push_cast
    linarith

theorem lhsTerm_pos (c a b : Rat) (ha : 0 < a) (hb : 0 < b) (hc : 0 < c) : 0 < lhsTerm c a b := by
  rw [lhsTerm_eq c a b (ne_of_gt hb)]
  positivity

theorem rhsTerm_pos (c a b : Rat) (ha : 0 < a) (hb : 0 < b) (hc : 0 < c) : 0 < rhsTerm c a b := by
  rw [rhsTerm_eq c a b (ne_of_gt ha) (ne_of_gt hc)]
  positivity

theorem rhs_pos (c : Rat) (hc : 0 < c) : ∀ (ab : List (Rat × Rat)),
    (∀ p ∈ ab, 0 < p.1 ∧ 0 < p.2) → ab ≠ [] → 0 < rhs c ab
  | [], _, h => absurd rfl h
  | [p], h, _ => by
    have hp := h p (by simp)
    simpa [rhs, ratSum] using rhsTerm_pos c p.1 p.2 hp.1 hp.2 hc
  | p :: q :: ab, h, _ => by
    have hp := h p (by simp)
    have ih := rhs_pos c hc (q :: ab) (fun r hr => h r (by simp [hr])) (by simp)
    have := rhsTerm_pos c p.1 p.2 hp.1 hp.2 hc
    simp only [rhs, List.map_cons, ratSum] at ih ⊢
    linarith

/-- the term of `lhs` decreases when `c` grows -/
theorem lhsTerm_anti (c c' a b : Rat) (ha : 0 < a) (hb : 0 < b) (hc : 0 < c) (hcc : c ≤ c') :
    lhsTerm c' a b ≤ lhsTerm c a b := by
  have hc' : 0 < c' := lt_of_lt_of_le hc hcc
  rw [lhsTerm_eq c a b (ne_of_gt hb), lhsTerm_eq c' a b (ne_of_gt hb)]
  apply div_le_div_of_nonneg_left (le_of_lt hb) (by positivity)
  nlinarith

theorem lhs_anti (c c' : Rat) (hc : 0 < c) (hcc : c ≤ c') : ∀ (ab : List (Rat × Rat)),
    (∀ p ∈ ab, 0 < p.1 ∧ 0 < p.2) → lhs c' ab ≤ lhs c ab
  | [], _ => by simp [lhs, ratSum]
  | p :: ab, h => by
    have ih := lhs_anti c c' hc hcc ab fun q hq => h q (by simp [hq])
    have hp := h p (by simp)
    have := lhsTerm_anti c c' p.1 p.2 hp.1 hp.2 hc hcc
    simp only [lhs, List.map_cons, ratSum] at ih ⊢
    linarith

/-- `lhs - rhs` decreases when `c` grows -/
theorem diff_anti (c c' : Rat) (hc : 0 < c) (hcc : c ≤ c') (ab : List (Rat × Rat))
    (h : ∀ p ∈ ab, 0 < p.1 ∧ 0 < p.2) :
    lhs c' ab - rhs c' ab ≤ lhs c ab - rhs c ab := by
  have h1 := lhs_add_rhs c hc ab h
  have h2 := lhs_add_rhs c' (lt_of_lt_of_le hc hcc) ab h
  have h3 := lhs_anti c c' hc hcc ab h
  linarith

/-- at a balance point `lhs = rhs` the ratio the class forms is `c` itself -/
theorem ratio_at_balance (c : Rat) (ab : List (Rat × Rat)) (hbal : lhs c ab = rhs c ab)
    (h0 : rhs c ab ≠ 0) : ratioOf c ab = c := by
  unfold ratioOf
  rw [hbal]
  field_simp

/-! ### the grid search -/

theorem gridC_pos (i : Nat) : 0 < gridC i := by
  unfold gridC
  positivity

theorem gridC_mono (i j : Nat) (h : i ≤ j) : gridC i ≤ gridC j := by
  unfold gridC
  have : (i : Rat) ≤ (j : Rat) := by exact_mod_cast h
  apply div_le_div_of_nonneg_right _ (by norm_num)
  linarith

theorem firstSignChange_some (f : Nat → Rat) : ∀ (m i k : Nat), firstSignChange f m i = some k →
    i ≤ k ∧ k < i + m ∧ sgn (f (k + 1)) ≠ sgn (f k) ∧ ∀ j, i ≤ j → j < k → sgn (f (j + 1)) = sgn (f j)
  | 0, i, k, h => by simp [firstSignChange] at h
  | m + 1, i, k, h => by
    simp only [firstSignChange] at h
    by_cases hd : sgn (f (i + 1)) - sgn (f i) ≠ 0
    · rw [if_pos hd] at h
      simp only [Option.some.injEq] at h
      subst h
      exact ⟨le_refl _, by omega, fun he => hd (by rw [he]; simp), fun j h1 h2 => by omega⟩
    · rw [if_neg hd] at h
      obtain ⟨h1, h2, h3, h4⟩ := firstSignChange_some f m (i + 1) k h
      refine ⟨by omega, by omega, h3, fun j hj1 hj2 => ?_⟩
      by_cases hji : j = i
      · subst hji
        have : sgn (f (j + 1)) - sgn (f j) = 0 := by simpa using hd
        omega
      · exact h4 j (by omega) hj2

theorem firstSignChange_none (f : Nat → Rat) : ∀ (m i : Nat), firstSignChange f m i = none →
    ∀ j, i ≤ j → j < i + m → sgn (f (j + 1)) = sgn (f j)
  | 0, i, _, j, h1, h2 => by omega
  | m + 1, i, h, j, h1, h2 => by
    simp only [firstSignChange] at h
    by_cases hd : sgn (f (i + 1)) - sgn (f i) ≠ 0
    · rw [if_pos hd] at h; cases h
    · rw [if_neg hd] at h
      by_cases hji : j = i
      · subst hji
        have : sgn (f (j + 1)) - sgn (f j) = 0 := by simpa using hd
        omega
      · exact firstSignChange_none f m (i + 1) h j (by omega) (by omega)

theorem sgn_mono (x y : Rat) (h : x ≤ y) : sgn x ≤ sgn y := by
  unfold sgn
  split_ifs <;> first | omega | (exfalso; linarith)

theorem sgn_nonneg_iff (x : Rat) : 0 ≤ sgn x ↔ 0 ≤ x := by
  unfold sgn
  split_ifs with h1 h2
  · simp [le_of_lt h1]
  · simp [h2]
  · have : x = 0 := le_antisymm (not_lt.mp h1) (not_lt.mp h2)
    simp [this]

theorem sgn_nonpos_iff (x : Rat) : sgn x ≤ 0 ↔ x ≤ 0 := by
  unfold sgn
  split_ifs with h1 h2
  · simp [h1]
  · simp [le_of_lt h2]
  · have : x = 0 := le_antisymm (not_lt.mp h1) (not_lt.mp h2)
    simp [this]

/-- what `compute_optimal_c` returns for one pair of chains: either a grid point `c_k`,
    `k ≤ 98`, that brackets the balance point (`lhs - rhs ≥ 0` at `c_k`, `≤ 0` at `c_{k+1}`,
    not both zero, and the sign is constant before `k`), or `1` when the sign of `lhs - rhs`
    is the same on the whole grid -/
theorem optimalC_spec (ab : List (Rat × Rat)) (h : ∀ p ∈ ab, 0 < p.1 ∧ 0 < p.2) :
    (∃ k, k ≤ 98 ∧ optimalC ab = gridC k ∧
        0 ≤ lhs (gridC k) ab - rhs (gridC k) ab ∧
        lhs (gridC (k + 1)) ab - rhs (gridC (k + 1)) ab ≤ 0 ∧
        lhs (gridC (k + 1)) ab - rhs (gridC (k + 1)) ab < lhs (gridC k) ab - rhs (gridC k) ab) ∨
    (optimalC ab = 1 ∧ ∀ j, j ≤ 99 →
        sgn (lhs (gridC j) ab - rhs (gridC j) ab) = sgn (lhs (gridC 0) ab - rhs (gridC 0) ab)) := by
  unfold optimalC
  cases hf : firstSignChange (fun i => lhs (gridC i) ab - rhs (gridC i) ab) 99 0 with
  | some k =>
    left
    obtain ⟨_, h2, h3, _⟩ := firstSignChange_some _ 99 0 k hf
    have hanti := diff_anti (gridC k) (gridC (k + 1)) (gridC_pos k) (gridC_mono k (k + 1) (by omega)) ab h
    have hs := sgn_mono _ _ hanti
    have hlt : sgn (lhs (gridC (k + 1)) ab - rhs (gridC (k + 1)) ab) <
        sgn (lhs (gridC k) ab - rhs (gridC k) ab) := lt_of_le_of_ne hs h3
    refine ⟨k, by omega, rfl, ?_, ?_, ?_⟩
    · rw [← sgn_nonneg_iff]
      have : -1 ≤ sgn (lhs (gridC (k + 1)) ab - rhs (gridC (k + 1)) ab) := by
        unfold sgn; split_ifs <;> omega
      omega
    · rw [← sgn_nonpos_iff]
      have : sgn (lhs (gridC k) ab - rhs (gridC k) ab) ≤ 1 := by
        unfold sgn; split_ifs <;> omega
      omega
    · apply lt_of_le_of_ne hanti
      intro he
      rw [he] at hlt
      exact lt_irrefl _ hlt
  | none =>
    right
    refine ⟨rfl, ?_⟩
    have hn := firstSignChange_none _ 99 0 hf
    intro j
    induction j with
    | zero => intro _; rfl
    | succ j ih =>
      intro hj
      have := hn j (by omega) (by omega)
      rw [this]
      exact ih (by omega)

/-! ### the telescoping product -/

/-- if `logical_p[0]` is the failure probability `Z 0` at the highest rate and every factor
    `ratio_j` equals `Z (j+1) / Z j`, the class returns `Z 1, Z 2, …` (stated division-free:
    `Z j · ratio_j = Z (j+1)`) -/
theorem telescope_exact (start : Nat) (Z : Nat → Rat) :
    ∀ (lp : List (List Rat)) (j : Nat) (l : List Rat), telescope start (Z j) lp = .ok l →
      (∀ i pj pk ab, lp[i]? = some pj → lp[i + 1]? = some pk → samplePairs start pj pk = .ok ab →
        Z (j + i) * ratioOf (optimalC ab) ab = Z (j + i + 1)) →
      l = (List.range (lp.length - 1)).map fun i => Z (j + i + 1)
  | [], j, l, h, _ => by simp only [telescope, Except.ok.injEq] at h; subst h; rfl
  | [_], j, l, h, _ => by simp only [telescope, Except.ok.injEq] at h; subst h; rfl
  | pj :: pk :: rest, j, l, h, hr => by
    simp only [telescope] at h
    cases hs : samplePairs start pj pk with
    | error e => simp [hs] at h
    | ok ab =>
      simp only [hs] at h
      have h0 := hr 0 pj pk ab rfl rfl hs
      simp only [Nat.add_zero] at h0
      rw [h0] at h
      cases ht : telescope start (Z (j + 1)) (pk :: rest) with
      | error e => simp [ht] at h
      | ok l' =>
        simp only [ht, Except.ok.injEq] at h
        subst h
        have ih := telescope_exact start Z (pk :: rest) (j + 1) l' ht (fun i a b ab' ha hb hab => by
          have := hr (i + 1) a b ab' (by simpa using ha) (by simpa using hb) hab
          have e1 : j + 1 + i = j + (i + 1) := by omega
          rw [e1]; exact this)
        rw [ih]
        simp only [List.length_cons, Nat.add_sub_cancel]
        rw [List.range_succ_eq_map, List.map_cons, List.map_map]
        congr 1
        apply List.map_congr_left
        intro i _
        simp only [Function.comp]
        congr 1
        omega

/-- the product form: the last entry is `logical_p[0]` times the product of all factors -/
theorem telescope_product (start : Nat) : ∀ (lp : List (List Rat)) (p : Rat) (l : List Rat),
    telescope start p lp = .ok l → ∃ rs : List Rat, rs.length = l.length ∧
      (l.getLast?.getD p) = p * ratProd rs
  | [], p, l, h => by
    simp only [telescope, Except.ok.injEq] at h; subst h
    exact ⟨[], rfl, by simp [ratProd]⟩
  | [_], p, l, h => by
    simp only [telescope, Except.ok.injEq] at h; subst h
    exact ⟨[], rfl, by simp [ratProd]⟩
  | pj :: pk :: rest, p, l, h => by
    simp only [telescope] at h
    cases hs : samplePairs start pj pk with
    | error e => simp [hs] at h
    | ok ab =>
      simp only [hs] at h
      cases ht : telescope start (p * ratioOf (optimalC ab) ab) (pk :: rest) with
      | error e => simp [ht] at h
      | ok l' =>
        simp only [ht, Except.ok.injEq] at h
        subst h
        obtain ⟨rs, hlen, hprod⟩ := telescope_product start (pk :: rest) _ l' ht
        refine ⟨ratioOf (optimalC ab) ab :: rs, by simp [hlen], ?_⟩
        simp only [ratProd]
        cases l' with
        | nil =>
          simp only [List.getLast?_nil, Option.getD_none] at hprod
          simp only [List.getLast?_singleton, Option.getD_some]
          rw [hprod]; ring
        | cons x xs =>
          rw [List.getLast?_cons_cons]
          cases hgl : (x :: xs).getLast? with
          | none => simp at hgl
          | some y =>
            rw [hgl] at hprod
            simp only [Option.getD_some] at hprod ⊢
            rw [hprod]; ring

/-! ### the acceptance-ratio identity (both densities on the same error) -/

/-- termwise: `c · a · g(c a / b) = b · g(b / (c a))` -/
theorem bennett_term (c a b : Rat) (ha : 0 < a) (hb : 0 < b) (hc : 0 < c) :
    c * (a * lhsTerm c a b) = b * rhsTerm c a b := by
  have h : b + c * a ≠ 0 := ne_of_gt (by positivity)
  rw [lhsTerm_eq c a b (ne_of_gt hb), rhsTerm_eq c a b (ne_of_gt ha) (ne_of_gt hc)]
  field_simp

/-- `Σ_e a_e` -/
def mass1 (w : List (Rat × Rat)) : Rat := ratSum (w.map (·.1))
/-- `Σ_e b_e` -/
def mass2 (w : List (Rat × Rat)) : Rat := ratSum (w.map (·.2))
/-- `Σ_e a_e · g(c a_e / b_e)`: the un-normalised expectation under the first density -/
def num1 (c : Rat) (w : List (Rat × Rat)) : Rat := ratSum (w.map fun p => p.1 * lhsTerm c p.1 p.2)
/-- `Σ_e b_e · g(b_e / (c a_e))`: the un-normalised expectation under the second density -/
def den2 (c : Rat) (w : List (Rat × Rat)) : Rat := ratSum (w.map fun p => p.2 * rhsTerm c p.1 p.2)

theorem bennett_sums (c : Rat) (hc : 0 < c) : ∀ (w : List (Rat × Rat)),
    (∀ p ∈ w, 0 < p.1 ∧ 0 < p.2) → c * num1 c w = den2 c w
  | [], _ => by simp [num1, den2, ratSum]
  | p :: w, h => by
    have ih := bennett_sums c hc w fun q hq => h q (by simp [hq])
    have hp := h p (by simp)
    have := bennett_term c p.1 p.2 hp.1 hp.2 hc
    simp only [num1, den2, List.map_cons, ratSum] at ih ⊢
    linarith

theorem den2_pos (c : Rat) (hc : 0 < c) : ∀ (w : List (Rat × Rat)),
    (∀ p ∈ w, 0 < p.1 ∧ 0 < p.2) → w ≠ [] → 0 < den2 c w
  | [], _, h => absurd rfl h
  | [p], h, _ => by
    have hp := h p (by simp)
    have := rhsTerm_pos c p.1 p.2 hp.1 hp.2 hc
    simp only [den2, List.map_cons, List.map_nil, ratSum, add_zero]
    exact mul_pos hp.2 this
  | p :: q :: w, h, _ => by
    have hp := h p (by simp)
    have ih := den2_pos c hc (q :: w) (fun r hr => h r (by simp [hr])) (by simp)
    have := mul_pos hp.2 (rhsTerm_pos c p.1 p.2 hp.1 hp.2 hc)
    simp only [den2, List.map_cons, ratSum] at ih ⊢
    linarith

theorem mass_pos (f : Rat × Rat → Rat) : ∀ (w : List (Rat × Rat)),
    (∀ p ∈ w, 0 < f p) → w ≠ [] → 0 < ratSum (w.map f)
  | [], _, h => absurd rfl h
  | [p], h, _ => by simpa [ratSum] using h p (by simp)
  | p :: q :: w, h, _ => by
    have ih := mass_pos f (q :: w) (fun r hr => h r (by simp [hr])) (by simp)
    have := h p (by simp)
    simp only [List.map_cons, ratSum] at ih ⊢
    linarith

end Panqec.Split

namespace Panqec.Split

open Panqec

/-! ### the estimator pairs two different errors: a population-level witness

Failure set `{e₁, e₂}`; densities at the higher rate `a = (1/4, 1/8)`, at the lower rate
`b = (1/8, 1/32)`, so the exact ratio of failure probabilities is
`(1/8 + 1/32) / (1/4 + 1/8) = 5/12`.  Chain `j` visits `e₁, e₂` with frequencies `2/3, 1/3`,
chain `j+1` with `4/5, 1/5`; the two chains are independent, so among 15 sweeps the pairs
`(e₁,e₁), (e₁,e₂), (e₂,e₁), (e₂,e₂)` occur `8, 2, 4, 1` times.  `witnessA` / `witnessB` are
the lists `log_p_errors[j]`, `log_p_errors[j+1]` of such a run (as probabilities). -/

def witnessA : List Rat :=
  List.replicate 8 (1/4) ++ List.replicate 2 (1/4) ++ List.replicate 4 (1/8) ++ List.replicate 1 (1/8)

def witnessB : List Rat :=
  List.replicate 8 (1/8) ++ List.replicate 2 (1/32) ++ List.replicate 4 (1/8) ++ List.replicate 1 (1/32)

/-- the two densities on the failure set -/
def witnessW : List (Rat × Rat) := [(1/4, 1/8), (1/8, 1/32)]

end Panqec.Split
