/-
Helper lemmas for the decoder glue (`Model/Decoders.lean`): mask selection,
CSS block structure of the syndrome, sector products, weights.
Core Lean only (the Real/ordered-field parts are in `Proofs/DecodersWeights.lean`).
-/
import PanqecVerif.Model.Decoders
import PanqecVerif.Proofs.Bits

namespace Panqec

/-! ### mask selection -/

theorem maskSelect_map {α β : Type} (p : α → Bool) (f : α → β) :
    ∀ l : List α, maskSelect (l.map p) (l.map f) = (l.filter p).map f
  | [] => by simp [maskSelect]
  | a :: l => by
    have ih := maskSelect_map p f l
    unfold maskSelect at ih ⊢
    cases h : p a <;> simp [h, ih]

/-- row flag used by `x_indices` -/
def xFlag_dec (r : List Nat) : Bool := (xPart r).any (· ≠ 0)
/-- row flag used by `z_indices` -/
def zFlag_dec (r : List Nat) : Bool := (zPart r).any (· ≠ 0)

theorem xIndices_eq_dec (H : Mat) : xIndices H = H.map xFlag_dec := rfl
theorem zIndices_eq_dec (H : Mat) : zIndices H = H.map zFlag_dec := rfl

theorem Hx_eq_dec (H : Mat) : Hx H = (H.filter xFlag_dec).map xPart := by
  unfold Hx; rw [xIndices_eq_dec]; exact maskSelect_map xFlag_dec xPart H

theorem Hz_eq_dec (H : Mat) : Hz H = (H.filter zFlag_dec).map zPart := by
  unfold Hz; rw [zIndices_eq_dec]; exact maskSelect_map zFlag_dec zPart H

theorem measureSyndrome_eq_dec (H : Mat) (e : Vec) : measureSyndrome H e = H.map fun r => symp r e := by
  unfold measureSyndrome bsProdRows
  simp [bsProdSparse_eq_symp]

theorem measureSyndrome_length (H : Mat) (e : Vec) : (measureSyndrome H e).length = H.length := by
  simp [measureSyndrome_eq_dec]

theorem extractX_measure_dec (H : Mat) (e : Vec) :
    extractXSyndrome H (measureSyndrome H e) = (H.filter xFlag_dec).map fun r => symp r e := by
  unfold extractXSyndrome; rw [xIndices_eq_dec, measureSyndrome_eq_dec]; exact maskSelect_map xFlag_dec _ H

theorem extractZ_measure_dec (H : Mat) (e : Vec) :
    extractZSyndrome H (measureSyndrome H e) = (H.filter zFlag_dec).map fun r => symp r e := by
  unfold extractZSyndrome; rw [zIndices_eq_dec, measureSyndrome_eq_dec]; exact maskSelect_map zFlag_dec _ H

theorem isCss_iff_dec (H : Mat) : isCss H = true ↔ ∀ r ∈ H, ¬ (xFlag_dec r = true ∧ zFlag_dec r = true) := by
  unfold isCss
  rw [xIndices_eq_dec, zIndices_eq_dec]
  induction H with
  | nil => simp
  | cons r H ih =>
    simp only [List.map_cons, List.zipWith_cons_cons, List.all_cons, Bool.and_eq_true,
      List.mem_cons, forall_eq_or_imp]
    rw [ih]
    cases xFlag_dec r <;> cases zFlag_dec r <;> simp

/-! ### dot products with zero blocks -/

theorem dot_zero_left_dec : ∀ a b : List Nat, (∀ x ∈ a, x = 0) → dot a b = 0
  | [], b, _ => by simp [dot]
  | a :: as, [], _ => by simp [dot]
  | a :: as, b :: bs, h => by
    have h0 : a = 0 := h a (by simp)
    have ih := dot_zero_left_dec as bs (fun x hx => h x (by simp [hx]))
    simp [h0, ih]

theorem all_zero_of_any_false (a : List Nat) (h : a.any (· ≠ 0) = false) : ∀ x ∈ a, x = 0 := by
  intro x hx
  have := List.any_eq_false.mp h x hx
  simpa using this

theorem symp_of_not_zFlag (r v : List Nat) (h : zFlag_dec r = false) :
    symp r v = dot (xPart r) (zPart v) % 2 := by
  unfold symp
  rw [dot_zero_left_dec (zPart r) (xPart v) (all_zero_of_any_false _ h)]
  simp

theorem symp_of_not_xFlag (r v : List Nat) (h : xFlag_dec r = false) :
    symp r v = dot (zPart r) (xPart v) % 2 := by
  unfold symp
  rw [dot_zero_left_dec (xPart r) (zPart v) (all_zero_of_any_false _ h)]
  simp

theorem xPart_append_dec (a b : List Nat) (h : a.length = b.length) : xPart (a ++ b) = a := by
  unfold xPart
  have : (a ++ b).length / 2 = a.length := by simp; omega
  rw [this]; simp

theorem zPart_append_dec (a b : List Nat) (h : a.length = b.length) : zPart (a ++ b) = b := by
  unfold zPart
  have : (a ++ b).length / 2 = a.length := by simp; omega
  rw [this]; simp

theorem xPart_append_zPart_dec (v : List Nat) : xPart v ++ zPart v = v := by
  unfold xPart zPart; simp

/-! ### the CSS block structure of the syndrome -/

/-- X-row syndromes of `[x | z]` only depend on `z`, through `Hx` -/
theorem css_xrow_block (H : Mat) (hcss : isCss H = true) (v : Vec) :
    extractXSyndrome H (measureSyndrome H v) = sectorSyndrome (Hx H) (zPart v) := by
  rw [extractX_measure_dec, Hx_eq_dec]
  unfold sectorSyndrome
  rw [List.map_map]
  apply List.map_congr_left
  intro r hr
  have hr' := List.mem_filter.mp hr
  have hz : zFlag_dec r = false := by
    have := (isCss_iff_dec H).mp hcss r hr'.1
    cases hzz : zFlag_dec r
    · rfl
    · exact absurd ⟨hr'.2, hzz⟩ this
  simp [symp_of_not_zFlag r v hz]

/-- Z-row syndromes of `[x | z]` only depend on `x`, through `Hz` -/
theorem css_zrow_block (H : Mat) (hcss : isCss H = true) (v : Vec) :
    extractZSyndrome H (measureSyndrome H v) = sectorSyndrome (Hz H) (xPart v) := by
  rw [extractZ_measure_dec, Hz_eq_dec]
  unfold sectorSyndrome
  rw [List.map_map]
  apply List.map_congr_left
  intro r hr
  have hr' := List.mem_filter.mp hr
  have hx : xFlag_dec r = false := by
    have := (isCss_iff_dec H).mp hcss r hr'.1
    cases hxx : xFlag_dec r
    · rfl
    · exact absurd ⟨hxx, hr'.2⟩ this
  simp [symp_of_not_xFlag r v hx]

/-- two vectors with the same X-row and Z-row sector syndromes have the same full
    syndrome (rows flagged in neither mask are zero rows) -/
theorem css_syndrome_eq_of_sectors (H : Mat) (hcss : isCss H = true) (c e : Vec)
    (hx : sectorSyndrome (Hx H) (zPart c) = sectorSyndrome (Hx H) (zPart e))
    (hz : sectorSyndrome (Hz H) (xPart c) = sectorSyndrome (Hz H) (xPart e)) :
    measureSyndrome H c = measureSyndrome H e := by
  rw [measureSyndrome_eq_dec, measureSyndrome_eq_dec]
  apply List.map_congr_left
  intro r hr
  rw [Hx_eq_dec] at hx
  rw [Hz_eq_dec] at hz
  unfold sectorSyndrome at hx hz
  rw [List.map_map, List.map_map] at hx hz
  have hxr := List.map_inj_left.mp hx
  have hzr := List.map_inj_left.mp hz
  have hcssr := (isCss_iff_dec H).mp hcss r hr
  cases hxf : xFlag_dec r
  · -- not an X row
    rw [symp_of_not_xFlag r c hxf, symp_of_not_xFlag r e hxf]
    cases hzf : zFlag_dec r
    · rw [dot_zero_left_dec _ _ (all_zero_of_any_false _ hzf), dot_zero_left_dec _ _ (all_zero_of_any_false _ hzf)]
    · have := hzr r (List.mem_filter.mpr ⟨hr, hzf⟩)
      simpa using this
  · have hzf : zFlag_dec r = false := by
      cases hzz : zFlag_dec r
      · rfl
      · exact absurd ⟨hxf, hzz⟩ hcssr
    rw [symp_of_not_zFlag r c hzf, symp_of_not_zFlag r e hzf]
    have := hxr r (List.mem_filter.mpr ⟨hr, hxf⟩)
    simpa using this

end Panqec
