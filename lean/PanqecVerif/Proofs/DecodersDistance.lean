/-
Hamming weight, linearity of sector syndromes, and the "minimum weight decoder
corrects up to t errors" argument on GF(2) vectors (core Lean only).
-/
import PanqecVerif.Proofs.DecodersGlue

namespace Panqec

theorem hammingWt_nil : hammingWt [] = 0 := rfl

theorem hammingWt_cons (a : Nat) (v : Vec) :
    hammingWt (a :: v) = (if a ≠ 0 then 1 else 0) + hammingWt v := by
  unfold hammingWt
  by_cases h : a = 0 <;> simp [h] <;> omega

theorem vxor_cons (a b : Nat) (as bs : Vec) :
    vxor (a :: as) (b :: bs) = (a + b) % 2 :: vxor as bs := by simp [vxor]

theorem vxor_nil_left (b : Vec) : vxor [] b = [] := by simp [vxor]
theorem vxor_nil_right (a : Vec) : vxor a [] = [] := by simp [vxor]

/-- triangle inequality for the Hamming weight -/
theorem hammingWt_vxor_le : ∀ a b : Vec, hammingWt (vxor a b) ≤ hammingWt a + hammingWt b
  | [], b => by simp [vxor_nil_left, hammingWt_nil]
  | a :: as, [] => by simp [vxor_nil_right, hammingWt_nil]
  | a :: as, b :: bs => by
    rw [vxor_cons, hammingWt_cons, hammingWt_cons, hammingWt_cons]
    have ih := hammingWt_vxor_le as bs
    (repeat' split) <;> omega

theorem vxor_length_dec (a b : Vec) (h : a.length = b.length) : (vxor a b).length = a.length := by
  unfold vxor; simp [vadd_length a b h]

theorem vxor_binary_dec (a b : Vec) : ∀ x ∈ vxor a b, x < 2 := by
  unfold vxor
  intro x hx
  obtain ⟨y, _, rfl⟩ := List.mem_map.mp hx
  omega

theorem dot_vxor_right (r a b : Vec) (h : a.length = b.length) :
    dot r (vxor a b) % 2 = (dot r a % 2 + dot r b % 2) % 2 := by
  unfold vxor
  rw [dot_map_mod_right, dot_comm, dot_vadd_left a b r h, dot_comm a r, dot_comm b r]
  omega

/-- sector syndromes are GF(2)-linear -/
theorem sectorSyndrome_vxor (M : Mat) (a b : Vec) (h : a.length = b.length) :
    sectorSyndrome M (vxor a b) = vxor (sectorSyndrome M a) (sectorSyndrome M b) := by
  unfold sectorSyndrome
  induction M with
  | nil => simp [vxor]
  | cons r M ih =>
    simp only [List.map_cons, vxor_cons]
    rw [ih, dot_vxor_right r a b h]

theorem vxor_self_zero : ∀ (s : Vec), ∀ x ∈ vxor s s, x = 0
  | [], x, hx => by simp [vxor] at hx
  | a :: s, x, hx => by
    rw [vxor_cons] at hx
    rcases List.mem_cons.mp hx with h | h
    · subst h; omega
    · exact vxor_self_zero s x h

/-- **Minimum-weight decoding corrects up to `t` errors** (one sector, abstract form).
    `M` is the sector check matrix, `IsStab` the set of trivial operators of that sector
    (row space of the dual sector matrix).  If every undetectable (`M v = 0`) non-trivial
    vector has weight at least `2t+1` (sector distance ≥ 2t+1) and the decoder returns a
    minimum-Hamming-weight solution of `M c = M e`, then for every error of weight at most
    `t` the residual `e ⊕ c` is undetectable, has weight at most `2t`, and is trivial. -/
theorem corrects_up_to_t_sector (M : Mat) (n t : Nat) (IsStab : Vec → Prop)
    (hdist : ∀ v : Vec, v.length = n → (∀ x ∈ v, x < 2) →
        (∀ x ∈ sectorSyndrome M v, x = 0) → ¬ IsStab v → 2 * t + 1 ≤ hammingWt v)
    (e c : Vec) (he : e.length = n) (heb : ∀ x ∈ e, x < 2) (hwt : hammingWt e ≤ t)
    (hc : Solves n M (sectorSyndrome M e) c)
    (hmin : ∀ c', Solves n M (sectorSyndrome M e) c' → hammingWt c ≤ hammingWt c') :
    (∀ x ∈ sectorSyndrome M (vxor e c), x = 0) ∧ hammingWt (vxor e c) ≤ 2 * t ∧
      IsStab (vxor e c) := by
  obtain ⟨hcl, hcb, hcs⟩ := hc
  have hlen : e.length = c.length := by omega
  have hsyn : ∀ x ∈ sectorSyndrome M (vxor e c), x = 0 := by
    rw [sectorSyndrome_vxor M e c hlen, hcs]
    exact vxor_self_zero _
  have hce : hammingWt c ≤ hammingWt e := hmin e ⟨he, heb, rfl⟩
  have hw : hammingWt (vxor e c) ≤ 2 * t := by
    have := hammingWt_vxor_le e c
    omega
  refine ⟨hsyn, hw, ?_⟩
  apply Classical.byContradiction
  intro hns
  have := hdist (vxor e c) (by rw [vxor_length_dec e c hlen]; exact he) (vxor_binary_dec e c) hsyn hns
  omega

/-- sector weights are bounded by the Pauli weight `bsf_wt` -/
theorem hammingWt_le_zipWith_add : ∀ xs zs : Vec, xs.length ≤ zs.length →
    hammingWt xs ≤ hammingWt (List.zipWith (fun x z => x + z) xs zs)
  | [], _, _ => by simp [hammingWt_nil]
  | x :: xs, [], h => by simp at h
  | x :: xs, z :: zs, h => by
    simp at h
    have ih := hammingWt_le_zipWith_add xs zs h
    rw [List.zipWith_cons_cons, hammingWt_cons, hammingWt_cons]
    (repeat' split) <;> omega

theorem hammingWt_le_zipWith_add' : ∀ xs zs : Vec, zs.length ≤ xs.length →
    hammingWt zs ≤ hammingWt (List.zipWith (fun x z => x + z) xs zs)
  | _, [], _ => by simp [hammingWt_nil]
  | [], z :: zs, h => by simp at h
  | x :: xs, z :: zs, h => by
    simp at h
    have ih := hammingWt_le_zipWith_add' xs zs h
    rw [List.zipWith_cons_cons, hammingWt_cons, hammingWt_cons]
    (repeat' split) <;> omega

theorem bsfWt_eq (e : Vec) : bsfWt e = hammingWt (List.zipWith (fun x z => x + z) (xPart e) (zPart e)) := rfl

theorem sector_weights_le_pauli_weight (e : Vec) (n : Nat) (he : e.length = 2 * n) :
    hammingWt (xPart e) ≤ bsfWt e ∧ hammingWt (zPart e) ≤ bsfWt e := by
  have hx := xPart_length_of e n he
  have hz := zPart_length_of e n he
  rw [bsfWt_eq]
  exact ⟨hammingWt_le_zipWith_add _ _ (by omega), hammingWt_le_zipWith_add' _ _ (by omega)⟩

theorem xPart_vxor_dec (a b : Vec) (h : a.length = b.length) :
    xPart (vxor a b) = vxor (xPart a) (xPart b) := by
  unfold vxor; rw [xPart_map, xPart_vadd a b h]

theorem zPart_vxor_dec (a b : Vec) (h : a.length = b.length) :
    zPart (vxor a b) = vxor (zPart a) (zPart b) := by
  unfold vxor; rw [zPart_map, zPart_vadd a b h]

end Panqec

namespace Panqec

/-! ### zero vectors, sweep-match assembly -/

theorem dot_zeros_right : ∀ (a : Vec) (k : Nat), dot a (List.replicate k 0) = 0
  | [], k => by simp [dot]
  | a :: as, 0 => by simp [dot]
  | a :: as, k + 1 => by simp [List.replicate_succ, dot_zeros_right as k]

theorem symp_zeros (r : Vec) (k : Nat) : symp r (List.replicate k 0) = 0 := by
  unfold symp xPart zPart
  simp [dot_zeros_right]

theorem measureSyndrome_zeros (H : Mat) (k : Nat) :
    measureSyndrome H (List.replicate k 0) = List.replicate H.length 0 := by
  rw [measureSyndrome_eq_dec]
  simp only [symp_zeros]
  induction H with
  | nil => rfl
  | cons r H ih => simp [List.replicate_succ, ih]

theorem sectorSyndrome_zeros (M : Mat) (k : Nat) :
    sectorSyndrome M (List.replicate k 0) = List.replicate M.length 0 := by
  unfold sectorSyndrome
  simp only [dot_zeros_right, Nat.zero_mod]
  induction M with
  | nil => rfl
  | cons r M ih => simp [List.replicate_succ, ih]

theorem xPart_zeros (n : Nat) : xPart (List.replicate (2 * n) 0) = List.replicate n 0 := by
  unfold xPart; simp; omega

theorem zPart_zeros (n : Nat) : zPart (List.replicate (2 * n) 0) = List.replicate n 0 := by
  unfold zPart; simp; omega

theorem vxor_append_dec : ∀ (a b a' b' : Vec), a.length = b.length →
    vxor (a ++ a') (b ++ b') = vxor a b ++ vxor a' b'
  | [], [], _, _, _ => by simp [vxor_nil_left]
  | [], _ :: _, _, _, h => by simp at h
  | _ :: _, [], _, _, h => by simp at h
  | x :: a, y :: b, a', b', h => by
    simp at h
    simp [vxor_cons, vxor_append_dec a b a' b' h]

theorem vxor_zeros_right : ∀ (a : Vec), (∀ x ∈ a, x < 2) → vxor a (List.replicate a.length 0) = a
  | [], _ => by simp [vxor_nil_left]
  | x :: a, h => by
    have hx : x < 2 := h x (by simp)
    simp only [List.length_cons, List.replicate_succ, vxor_cons]
    rw [vxor_zeros_right a (fun y hy => h y (by simp [hy]))]
    congr 1; omega

theorem vxor_zeros_left : ∀ (a : Vec), (∀ x ∈ a, x < 2) → vxor (List.replicate a.length 0) a = a
  | [], _ => by simp [vxor_nil_left]
  | x :: a, h => by
    have hx : x < 2 := h x (by simp)
    simp only [List.length_cons, List.replicate_succ, vxor_cons]
    rw [vxor_zeros_left a (fun y hy => h y (by simp [hy]))]
    congr 1; omega

/-- `(x_correction + z_correction) % 2` with an X-only and a Z-only part is `[cx | zz]` -/
theorem sweepmatch_assemble (n : Nat) (cx zz : Vec) (hcx : cx.length = n) (hzz : zz.length = n)
    (hbx : ∀ x ∈ cx, x < 2) (hbz : ∀ x ∈ zz, x < 2) :
    vxor (cx ++ List.replicate n 0) (List.replicate n 0 ++ zz) = cx ++ zz := by
  rw [vxor_append_dec cx (List.replicate n 0) _ _ (by simp [hcx])]
  have h1 := vxor_zeros_right cx hbx
  have h2 := vxor_zeros_left zz hbz
  rw [hcx] at h1
  rw [hzz] at h2
  rw [h1, h2]

end Panqec

namespace Panqec

/-- sweep-match glue under the sweeper's interface contract -/
theorem sweepmatch_valid {W R : Type} (sweep : R → Vec → R × Vec) (solve : WSolver W)
    (H : Mat) (n : Nat) (mw : List W × List W) (m : MatchingDec W)
    (hm : sweepMatchMatcher H n mw = .ok m)
    (hX : SolverValidOn n solve (Hz H))
    (hsweep : ∀ r s, ∃ zz, (sweep r s).2 = List.replicate n 0 ++ zz ∧ zz.length = n ∧ ∀ x ∈ zz, x < 2)
    (rng : R) (e : Vec) (he : e.length = 2 * n) :
    ∃ c ev, (sweepMatchDecode sweep solve m rng (measureSyndrome H e)).2 = .ok (c, ev) ∧
      c.length = 2 * n ∧ (∀ x ∈ c, x < 2) ∧
      xPart c = solve (Hz H) mw.1 (extractZSyndrome H (measureSyndrome H e)) ∧
      extractZSyndrome H (measureSyndrome H c) = extractZSyndrome H (measureSyndrome H e) := by
  unfold sweepMatchMatcher at hm
  obtain ⟨ev, hd, hsol⟩ := matching_valid_X solve H n none mw m hm hX e he
  obtain ⟨_, _, hcss, _⟩ := MatchingDec.new_ok H n (some "X") none mw m hm
  obtain ⟨zz, hz, hzl, hzb⟩ := hsweep rng (measureSyndrome H e)
  obtain ⟨hcl, hcb, hcs⟩ := hsol
  simp only [Option.getD_none] at hd hcl hcb hcs
  unfold sweepMatchDecode
  simp only [hd, hz]
  have hlen : (solve (Hz H) mw.1 (extractZSyndrome H (measureSyndrome H e)) ++
      List.replicate n 0).length = (List.replicate n 0 ++ zz).length := by simp [hcl, hzl]
  simp only [hlen, ne_eq, not_true_eq_false, if_false]
  rw [sweepmatch_assemble n _ zz hcl hzl hcb hzb]
  refine ⟨_, _, rfl, by simp [hcl, hzl]; omega, binary_append hcb hzb, ?_, ?_⟩
  · exact xPart_append_dec _ _ (by omega)
  · rw [css_zrow_block H hcss, xPart_append_dec _ _ (by omega), hcs]

end Panqec
