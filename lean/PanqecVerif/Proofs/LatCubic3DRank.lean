/-
Operator-level GF(2) independence (the rank clause of C01 for hand-written lattice models):
a family of operators is independent when no non-empty sub-family multiplies to the identity up to
phase, i.e. has even X-parity and even Z-parity on every location.  `opsIndep_of_triangular` is the
criterion used for the all-sizes families: every member has a witness location and a rank such
that any other member acting (with the same component) on the witness has smaller rank.
-/
import PanqecVerif.Proofs.LatCubic3D

namespace Panqec.Cubic3D

/-- the operator has an X component (letter X or Y) on `q` -/
def hitX (op : Op) (q : Coord) : Bool :=
  match op.get? q with
  | some .X => true
  | some .Y => true
  | _ => false

/-- the operator has a Z component (letter Z or Y) on `q` -/
def hitZ (op : Op) (q : Coord) : Bool :=
  match op.get? q with
  | some .Z => true
  | some .Y => true
  | _ => false

/-- GF(2) independence of the BSF rows of a family of operators -/
def OpsIndep (F : List Op) : Prop :=
  ∀ S : List Op, S.Sublist F →
    (∀ q, (S.countP fun op => hitX op q) % 2 = 0 ∧ (S.countP fun op => hitZ op q) % 2 = 0) →
    S = []

/-- X component if `b`, Z component otherwise -/
def hit (b : Bool) (op : Op) (q : Coord) : Bool := if b then hitX op q else hitZ op q

theorem hitX_uop (ks : List Coord) (p : Pauli) (q : Coord) :
    hitX (uop ks p) q = (decide (q ∈ ks) && (p == .X || p == .Y)) := by
  unfold hitX
  rw [uop_get?]
  by_cases h : q ∈ ks <;> cases p <;> simp [h]

theorem hitZ_uop (ks : List Coord) (p : Pauli) (q : Coord) :
    hitZ (uop ks p) q = (decide (q ∈ ks) && (p == .Z || p == .Y)) := by
  unfold hitZ
  rw [uop_get?]
  by_cases h : q ∈ ks <;> cases p <;> simp [h]

theorem exists_min_of_ne_nil {α : Type} (f : α → Nat) :
    ∀ (l : List α), l ≠ [] → ∃ a ∈ l, ∀ b ∈ l, f a ≤ f b
  | [], h => absurd rfl h
  | [a], _ => ⟨a, by simp, by simp⟩
  | a :: b :: l, _ => by
    obtain ⟨m, hm, hmin⟩ := exists_min_of_ne_nil f (b :: l) (by simp)
    by_cases h : f a ≤ f m
    · refine ⟨a, by simp, ?_⟩
      intro c hc
      rcases List.mem_cons.mp hc with rfl | hc
      · exact Nat.le_refl _
      · exact Nat.le_trans h (hmin c hc)
    · refine ⟨m, List.mem_cons_of_mem _ hm, ?_⟩
      intro c hc
      rcases List.mem_cons.mp hc with rfl | hc
      · omega
      · exact hmin c hc

theorem opsIndep_of_triangular {B : List Coord} {g : Coord → Op} (hB : B.Nodup)
    (r : Coord → Nat) (w : Coord → Coord) (xz : Coord → Bool)
    (h : ∀ s ∈ B, hit (xz s) (g s) (w s) = true ∧
      ∀ t ∈ B, hit (xz s) (g t) (w s) = true → t = s ∨ r t < r s) :
    OpsIndep (B.map g) := by
  intro S hS hpar
  obtain ⟨S', hS', rfl⟩ := List.sublist_map_iff.mp hS
  by_contra hne
  have hne' : S' ≠ [] := by
    intro h0; apply hne; rw [h0]; rfl
  obtain ⟨s, hs, hmin⟩ := exists_min_of_ne_nil r S' hne'
  have hsB : s ∈ B := hS'.subset hs
  have hnd : S'.Nodup := hB.sublist hS'
  have hcount : (S'.map g).countP (fun op => hit (xz s) op (w s)) = 1 := by
    rw [List.countP_map]
    have : S'.countP ((fun op => hit (xz s) op (w s)) ∘ g) = S'.countP (· == s) := by
      apply List.countP_congr
      intro t ht
      simp only [Function.comp, beq_iff_eq]
      constructor
      · intro h1
        rcases (h s hsB).2 t (hS'.subset ht) h1 with e | lt
        · exact e
        · have := hmin t ht; omega
      · rintro rfl; exact (h t hsB).1
    rw [this, ← List.count_eq_countP, List.count_eq_one_of_mem hnd hs]
  have hp := hpar (w s)
  unfold hit at hcount
  by_cases hb : xz s = true
  · simp only [hb, if_true] at hcount
    rw [hcount] at hp; omega
  · have hb' : xz s = false := by simpa using hb
    simp only [hb', Bool.false_eq_true, if_false] at hcount
    rw [hcount] at hp; omega

/-- monotonicity of the triple loop in the innermost list -/
theorem grid_sublist {xs ys zs zs' : List Int} (h : zs.Sublist zs') :
    (grid xs ys zs).Sublist (grid xs ys zs') := by
  unfold grid
  induction xs with
  | nil => simp
  | cons x xs ihx =>
    simp only [List.flatMap_cons]
    refine List.Sublist.append ?_ ihx
    clear ihx
    induction ys with
    | nil => simp
    | cons y ys ihy =>
      simp only [List.flatMap_cons]
      exact List.Sublist.append (h.map _) ihy

end Panqec.Cubic3D
