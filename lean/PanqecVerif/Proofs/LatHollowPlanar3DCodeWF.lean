/-
`HollowPlanar3DCode`, every size: commutation of vertex and face operators (the overlap is the one
of `Planar3DCode`: a location shared by a vertex and a face outside the hole is an edge of that face,
hence outside the hole), the logical X line and the end plane `x = 1` (they avoid the hole:
`y = z = 0`, resp. `x = 1`; the end plane was the listed logical Z before the repair of
`get_logicals_z` and is the reference plane of the parity argument), distinctness / disjointness of
the coordinate lists, the uniform description of `get_stabilizer`, and the clauses of
`Lattice.CommPair` that do not involve the logical Z.  The logical Z of the current code (the
cross-section through the cavity) is treated in `LatHollowPlanar3DCodeLogZ.lean`.
-/
import PanqecVerif.Proofs.LatHollowPlanar3DCodeStab

set_option linter.unusedVariables false
set_option linter.unusedSectionVars false
set_option linter.unusedSimpArgs false

namespace Panqec.HollowPlanar3DCode
open Panqec.Cubic3D
open Panqec.Planar3DCode (inE inO inE2 inO1 isVertex isFaceXY isFaceYZ isFaceXZ isq isq_iff lxK lzK
  lxK_nodup lzK_nodup mem_lxK mem_lzK shape_lxK shape_lzK)

/-! ### vertex against face -/

theorem ov_vertex_faceXY {Lx Ly Lz : Nat} {x y z a b c : Int} (hv : isVertex Lx Ly Lz x y z)
    (hf : isFaceXY Lx Ly Lz a b c) (hn : ¬ Hole Lx Ly Lz a b c) :
    ov (vertexKeys Lx Ly Lz x y z) (faceXYKeys Lx Ly Lz a b c) % 2 = 0 := by
  unfold vertexKeys faceXYKeys
  have hsh : ∀ q ∈ Planar3DCode.vertexKeys Lx Ly Lz x y z,
      q ∈ Planar3DCode.faceXYKeys Lx Ly Lz a b c → notHoleC Lx Ly Lz q = true := by
    intro q _ hq
    unfold Planar3DCode.faceXYKeys at hq
    exact faceXY_edges hf hn q (List.mem_filter.mp hq).1
  rw [ov_filter_both _ hsh]
  exact Planar3DCode.ov_vertex_faceXY hv hf

theorem ov_vertex_faceYZ {Lx Ly Lz : Nat} {x y z a b c : Int} (hv : isVertex Lx Ly Lz x y z)
    (hf : isFaceYZ Lx Ly Lz a b c) (hn : ¬ Hole Lx Ly Lz a b c) :
    ov (vertexKeys Lx Ly Lz x y z) (faceYZKeys Lx Ly Lz a b c) % 2 = 0 := by
  unfold vertexKeys faceYZKeys
  have hsh : ∀ q ∈ Planar3DCode.vertexKeys Lx Ly Lz x y z,
      q ∈ Planar3DCode.faceYZKeys Lx Ly Lz a b c → notHoleC Lx Ly Lz q = true := by
    intro q _ hq
    unfold Planar3DCode.faceYZKeys at hq
    exact faceYZ_edges hf hn q (List.mem_filter.mp hq).1
  rw [ov_filter_both _ hsh]
  exact Planar3DCode.ov_vertex_faceYZ hv hf

theorem ov_vertex_faceXZ {Lx Ly Lz : Nat} {x y z a b c : Int} (hv : isVertex Lx Ly Lz x y z)
    (hf : isFaceXZ Lx Ly Lz a b c) (hn : ¬ Hole Lx Ly Lz a b c) :
    ov (vertexKeys Lx Ly Lz x y z) (faceXZKeys Lx Ly Lz a b c) % 2 = 0 := by
  unfold vertexKeys faceXZKeys
  have hsh : ∀ q ∈ Planar3DCode.vertexKeys Lx Ly Lz x y z,
      q ∈ Planar3DCode.faceXZKeys Lx Ly Lz a b c → notHoleC Lx Ly Lz q = true := by
    intro q _ hq
    unfold Planar3DCode.faceXZKeys at hq
    exact faceXZ_edges hf hn q (List.mem_filter.mp hq).1
  rw [ov_filter_both _ hsh]
  exact Planar3DCode.ov_vertex_faceXZ hv hf

/-! ### the logical operators -/

theorem logX_eq (Lx Ly Lz : Nat) : logX Lx Ly Lz = [uop (lxK Lx) Pauli.X] :=
  Planar3DCode.logX_eq Lx Ly Lz

theorem oldLogZ_eq (Lx Ly Lz : Nat) : oldLogZ Lx Ly Lz = [uop (lzK Ly Lz) Pauli.Z] :=
  Planar3DCode.logZ_eq Lx Ly Lz

theorem lxK_notHole {Lx Ly Lz : Nat} : ∀ q ∈ lxK Lx, notHoleC Lx Ly Lz q = true := by
  intro q hq
  obtain ⟨a, b, c, rfl⟩ := shape_lxK hq
  rw [mem_lxK] at hq
  obtain ⟨_, rfl, rfl⟩ := hq
  rw [notHoleC3]; unfold Hole; omega

theorem lzK_notHole {Lx Ly Lz : Nat} : ∀ q ∈ lzK Ly Lz, notHoleC Lx Ly Lz q = true := by
  intro q hq
  obtain ⟨a, b, c, rfl⟩ := shape_lzK hq
  rw [mem_lzK] at hq
  obtain ⟨rfl, _, _⟩ := hq
  rw [notHoleC3]; unfold Hole; omega

theorem lxK_sub {Lx Ly Lz : Nat} (hLy : 1 ≤ Ly) (hLz : 1 ≤ Lz) :
    ∀ q ∈ lxK Lx, q ∈ qubits Lx Ly Lz := by
  intro q hq
  rw [qubits_eq, List.mem_filter]
  exact ⟨Planar3DCode.lxK_sub hLy hLz q hq, lxK_notHole q hq⟩

theorem lzK_sub {Lx Ly Lz : Nat} (hLx : 1 ≤ Lx) : ∀ q ∈ lzK Ly Lz, q ∈ qubits Lx Ly Lz := by
  intro q hq
  rw [qubits_eq, List.mem_filter]
  exact ⟨Planar3DCode.lzK_sub hLx q hq, lzK_notHole q hq⟩

theorem ov_vertex_lxK {Lx Ly Lz : Nat} (hLy : 1 ≤ Ly) (hLz : 1 ≤ Lz) {x y z : Int}
    (hv : isVertex Lx Ly Lz x y z) : ov (vertexKeys Lx Ly Lz x y z) (lxK Lx) % 2 = 0 := by
  unfold vertexKeys
  rw [ov_filter_left _ lxK_notHole]
  exact Planar3DCode.ov_vertex_lxK hLy hLz hv

/-! ### uniform description of `get_stabilizer` -/

/-- a stabilizer generator is either a vertex operator (letter Z) or a face operator (letter X)
    that overlaps every vertex operator and the logical Z plane on an even number of qubits -/
theorem getStab_kind {Lx Ly Lz : Nat} (hLx : 1 ≤ Lx) {s : Coord} (hs : s ∈ stabs Lx Ly Lz) :
    (∃ x y z, isVertex Lx Ly Lz x y z ∧ ¬ Hole Lx Ly Lz x y z ∧
      getStab Lx Ly Lz s = uop (vertexKeys Lx Ly Lz x y z) Pauli.Z) ∨
    (∃ ks, getStab Lx Ly Lz s = uop ks Pauli.X ∧ ks.Nodup ∧ (∀ q ∈ ks, q ∈ qubits Lx Ly Lz) ∧
      ks ≠ [] ∧
      (∀ x y z, isVertex Lx Ly Lz x y z → ov (vertexKeys Lx Ly Lz x y z) ks % 2 = 0) ∧
      ov ks (lzK Ly Lz) % 2 = 0) := by
  obtain ⟨x, y, z, rfl, hn, h | h | h | h⟩ := stab_cases hs
  · exact Or.inl ⟨x, y, z, h, hn, getStab_vertex h hn⟩
  · refine Or.inr ⟨_, getStab_faceXY h hn, faceXYKeys_nodup _ _ _ _ _ _,
      faceXYKeys_sub _ _ _ _ _ _, ?_, fun _ _ _ hv => ov_vertex_faceXY hv h hn, ?_⟩
    · rw [faceXYKeys_eq h hn]; exact Planar3DCode.faceXYKeys_ne_nil h
    · rw [faceXYKeys_eq h hn]; exact Planar3DCode.ov_faceXY_lzK hLx h
  · refine Or.inr ⟨_, getStab_faceYZ h hn, faceYZKeys_nodup _ _ _ _ _ _,
      faceYZKeys_sub _ _ _ _ _ _, ?_, fun _ _ _ hv => ov_vertex_faceYZ hv h hn, ?_⟩
    · rw [faceYZKeys_eq h hn]; exact Planar3DCode.faceYZKeys_ne_nil h
    · rw [faceYZKeys_eq h hn]; exact Planar3DCode.ov_faceYZ_lzK hLx h
  · refine Or.inr ⟨_, getStab_faceXZ h hn, faceXZKeys_nodup _ _ _ _ _ _,
      faceXZKeys_sub _ _ _ _ _ _, ?_, fun _ _ _ hv => ov_vertex_faceXZ hv h hn, ?_⟩
    · rw [faceXZKeys_eq h hn]; exact Planar3DCode.faceXZKeys_ne_nil h
    · rw [faceXZKeys_eq h hn]; exact Planar3DCode.ov_faceXZ_lzK hLx h

/-- every stabilizer generator is a one-letter operator on a non-empty list of distinct qubits -/
theorem getStab_form {Lx Ly Lz : Nat} (hLx : 1 ≤ Lx) {s : Coord} (hs : s ∈ stabs Lx Ly Lz) :
    ∃ ks p, getStab Lx Ly Lz s = uop ks p ∧ ks.Nodup ∧ (∀ q ∈ ks, q ∈ qubits Lx Ly Lz) ∧
      ks ≠ [] ∧ p ≠ Pauli.I := by
  rcases getStab_kind hLx hs with ⟨x, y, z, hv, hn, e⟩ | ⟨ks, e, hnd, hsub, hne, _⟩
  · exact ⟨_, _, e, vertexKeys_nodup _ _ _ _ _ _, vertexKeys_sub _ _ _ _ _ _,
      vertexKeys_ne_nil hv hn, by decide⟩
  · exact ⟨_, _, e, hnd, hsub, hne, by decide⟩

/-! ### coordinates -/

theorem qubits_nodup (Lx Ly Lz : Nat) : (qubits Lx Ly Lz).Nodup := by
  rw [qubits_eq]; exact (Planar3DCode.qubits_nodup Lx Ly Lz).filter _

theorem stabs_nodup (Lx Ly Lz : Nat) : (stabs Lx Ly Lz).Nodup := by
  rw [stabs_eq]; exact (Planar3DCode.stabs_nodup Lx Ly Lz).filter _

theorem qubits_not_stabs {Lx Ly Lz : Nat} {q : Coord} (h : q ∈ qubits Lx Ly Lz) :
    q ∉ stabs Lx Ly Lz :=
  fun hs => Planar3DCode.qubits_not_stabs (qubits_sub h) (stabs_sub hs)

/-! ### the clauses of `CommPair` -/

section
variable {Lx Ly Lz : Nat} (hLx : 1 ≤ Lx) (hLy : 1 ≤ Ly) (hLz : 1 ≤ Lz)
include hLx hLy hLz

theorem stab_comm {s t : Coord} (hs : s ∈ stabs Lx Ly Lz) (ht : t ∈ stabs Lx Ly Lz) :
    opCommute (getStab Lx Ly Lz s) (getStab Lx Ly Lz t) = true := by
  rcases getStab_kind hLx hs with ⟨x, y, z, hv, _, e⟩ | ⟨ks, e, hn, _, _, hov, _⟩ <;>
    rcases getStab_kind hLx ht with ⟨x', y', z', hv', _, e'⟩ | ⟨ks', e', hn', _, _, hov', _⟩ <;>
    rw [e, e']
  · exact opCommute_uop_same _ _ _
  · exact opCommute_uop_of_even _ _ (hov' _ _ _ hv)
  · refine opCommute_uop_of_even _ _ ?_
    rw [ov_comm hn (vertexKeys_nodup _ _ _ _ _ _)]
    exact hov _ _ _ hv'
  · exact opCommute_uop_same _ _ _

theorem logX_comm {a : Op} (ha : a ∈ logX Lx Ly Lz) {s : Coord} (hs : s ∈ stabs Lx Ly Lz) :
    opCommute a (getStab Lx Ly Lz s) = true := by
  rw [logX_eq] at ha
  simp only [List.mem_cons, List.not_mem_nil, or_false] at ha
  subst ha
  rcases getStab_kind hLx hs with ⟨x, y, z, hv, _, e⟩ | ⟨ks, e, _⟩ <;> rw [e]
  · refine opCommute_uop_of_even _ _ ?_
    rw [ov_comm (lxK_nodup _) (vertexKeys_nodup _ _ _ _ _ _)]
    exact ov_vertex_lxK hLy hLz hv
  · exact opCommute_uop_same _ _ _

/-- the end plane `x = 1` (the logical Z before the repair) commutes with every generator -/
theorem lzK_comm {s : Coord} (hs : s ∈ stabs Lx Ly Lz) :
    opCommute (uop (lzK Ly Lz) Pauli.Z) (getStab Lx Ly Lz s) = true := by
  rcases getStab_kind hLx hs with ⟨x, y, z, hv, _, e⟩ | ⟨ks, e, hn, _, _, _, h0⟩ <;> rw [e]
  · exact opCommute_uop_same _ _ _
  · refine opCommute_uop_of_even _ _ ?_
    rw [ov_comm (lzK_nodup _ _) hn]; exact h0

theorem oldPairing (i j : Nat) (hi : i < 1) (hj : j < 1) :
    opAntiCount ((logX Lx Ly Lz).getD i []) ((oldLogZ Lx Ly Lz).getD j []) % 2 =
      if i = j then 1 else 0 :=
  Planar3DCode.pairing hLx hLy hLz i j hi hj

/-- the X line and the end plane `x = 1` anticommute -/
theorem lxK_lzK_anti : opAntiCount (uop (lxK Lx) Pauli.X) (uop (lzK Ly Lz) Pauli.Z) % 2 = 1 := by
  have h := oldPairing hLx hLy hLz 0 0 (by omega) (by omega)
  rw [logX_eq, oldLogZ_eq] at h
  simpa using h

end

theorem logXX {Lx Ly Lz : Nat} {a b : Op} (ha : a ∈ logX Lx Ly Lz) (hb : b ∈ logX Lx Ly Lz) :
    opCommute a b = true := Planar3DCode.logXX (Lx := Lx) (Ly := Ly) (Lz := Lz) ha hb


/-- `qubit_axis` on the three blocks of `get_qubit_coordinates` -/
theorem qubitAxis_of_mem_qubits {Lx Ly Lz : Nat} {x y z : Int} (h : [x, y, z] ∈ qubits Lx Ly Lz) :
    qubitAxis [x, y, z] =
      some (if x % 2 = 1 then Axis.x else if y % 2 = 1 then Axis.y else Axis.z) :=
  Planar3DCode.qubitAxis_of_mem_qubits (qubits_sub h)

/-- `stabilizer_type` and the letter / weight bound of `get_stabilizer` for the four kinds -/
theorem stab_shape {Lx Ly Lz : Nat} {s : Coord} (hs : s ∈ stabs Lx Ly Lz) :
    (stabilizerType Lx Ly Lz s = some StabType.vertex ∧
      ∃ ks, getStab Lx Ly Lz s = uop ks Pauli.Z ∧ ks.length ≤ 6) ∨
    (stabilizerType Lx Ly Lz s = some StabType.face ∧
      ∃ ks, getStab Lx Ly Lz s = uop ks Pauli.X ∧ ks.length ≤ 4) := by
  have len4 : ∀ (c : List Coord) (p q : Coord → Bool), c.length = 4 →
      ((c.filter p).filter q).length ≤ 4 := fun c p q hc =>
    Nat.le_trans (List.length_filter_le _ _) (hc ▸ List.length_filter_le _ _)
  obtain ⟨x, y, z, rfl, hn, h | h | h | h⟩ := stab_cases hs
  · left
    refine ⟨?_, _, getStab_vertex h hn,
      Nat.le_trans (List.length_filter_le _ _) (List.length_filter_le _ _)⟩
    obtain ⟨hx, hy, _⟩ := h
    simp only [inE, inE2] at hx hy
    simp [stabilizerType, hs, typeOf, hx.2.2, hy.2.2]
  · right
    refine ⟨?_, _, getStab_faceXY h hn, len4 _ _ _ rfl⟩
    obtain ⟨hx, hy, _⟩ := h
    simp only [inO, inO1] at hx hy
    simp [stabilizerType, hs, typeOf, hx.2.2, hy.2.2]
  · right
    refine ⟨?_, _, getStab_faceYZ h hn, len4 _ _ _ rfl⟩
    obtain ⟨hx, hy, _⟩ := h
    simp only [inE2, inO] at hx hy
    simp [stabilizerType, hs, typeOf, hx.2.2, hy.2.2]
  · right
    refine ⟨?_, _, getStab_faceXZ h hn, len4 _ _ _ rfl⟩
    obtain ⟨hx, hy, _⟩ := h
    simp only [inO1, inE] at hx hy
    simp [stabilizerType, hs, typeOf, hx.2.2, hy.2.2]

/-! ### the fields of `lattice` as rewrite rules -/

theorem lattice_qubits (Lx Ly Lz : Nat) : (lattice Lx Ly Lz).qubits = qubits Lx Ly Lz := by
  simp only [lattice]
theorem lattice_stabs (Lx Ly Lz : Nat) : (lattice Lx Ly Lz).stabs = stabs Lx Ly Lz := by
  simp only [lattice]
theorem lattice_getStab (Lx Ly Lz : Nat) : (lattice Lx Ly Lz).getStab = getStab Lx Ly Lz := by
  simp only [lattice]
theorem lattice_logX (Lx Ly Lz : Nat) : (lattice Lx Ly Lz).logX = logX Lx Ly Lz := by
  simp only [lattice]
theorem lattice_logZ (Lx Ly Lz : Nat) : (lattice Lx Ly Lz).logZ = logZ Lx Ly Lz := by
  simp only [lattice]

theorem oldLattice_qubits (Lx Ly Lz : Nat) : (oldLattice Lx Ly Lz).qubits = qubits Lx Ly Lz := by
  simp only [oldLattice]
theorem oldLattice_logX (Lx Ly Lz : Nat) : (oldLattice Lx Ly Lz).logX = logX Lx Ly Lz := by
  simp only [oldLattice]
theorem oldLattice_logZ (Lx Ly Lz : Nat) : (oldLattice Lx Ly Lz).logZ = oldLogZ Lx Ly Lz := by
  simp only [oldLattice]

end Panqec.HollowPlanar3DCode
