/-
Color3DCode, even sides `≥ 2`: the red-cell test of the hexagon membranes of `get_logicals_z`.
A wrapped location is a red cell iff its three residues modulo 4 are 2 and the coordinate sum is
`≡ 2 (mod 8)` (the periods are multiples of 8: this is where evenness of the sides is used).
Core Lean only.
-/
import PanqecVerif.Proofs.LatColor3DCodeD

set_option linter.unusedVariables false

namespace Panqec.Color3DCode
open Panqec.Lat2D Panqec.Color

theorem cellColor_red_iff (r : Int) : cellColor r = StabType.red ↔ r = 2 := by
  unfold cellColor
  by_cases h6 : r = 6
  · rw [if_pos h6]; simp; omega
  · rw [if_neg h6]
    by_cases h2 : r = 2
    · rw [if_pos h2]; simp [h2]
    · rw [if_neg h2]
      by_cases h4 : r = 4
      · rw [if_pos h4]; simp [h2]
      · rw [if_neg h4]
        by_cases h0 : r = 0
        · rw [if_pos h0]; simp [h2]
        · rw [if_neg h0]; simp [h2]

theorem typeOf_red_iff (x y z : Int) :
    typeOf x y z = StabType.red ↔ x % 4 = 2 ∧ y % 4 = 2 ∧ z % 4 = 2 ∧ (x + y + z) % 8 = 2 := by
  unfold typeOf
  by_cases h2 : x % 2 = 1
  · rw [if_pos h2]; simp; omega
  · rw [if_neg h2]
    by_cases hc : x % 4 = z % 4 ∧ y % 4 = z % 4
    · rw [if_pos hc, cellColor_red_iff]; omega
    · rw [if_neg hc]; simp; omega

theorem isRedCell_iff {Lx Ly Lz : Nat} {x y z : Int} :
    isRedCell (stabs Lx Ly Lz) [x, y, z] = true ↔
      IsS Lx Ly Lz x y z ∧ typeOf x y z = StabType.red := by
  unfold isRedCell stabilizerTypeIn
  by_cases hs : isIn (stabs Lx Ly Lz) [x, y, z] = true
  · have hS := isStab_iff.mp hs
    simp only [hs, Bool.not_true, Bool.false_eq_true, if_false, Bool.true_and, beq_iff_eq,
      Option.some.injEq, hS, true_and]
  · have hS : ¬ IsS Lx Ly Lz x y z := fun h => hs (isStab_iff.mpr h)
    simp only [hs, hS, Bool.false_and, Bool.false_eq_true, false_and]

/-- the sides are even: the periods are multiples of 8 -/
theorem dvd8 {L : Nat} (hL : L % 2 = 0) : (8 : Int) ∣ 4 * (L : Int) := ⟨(L : Int) / 2, by omega⟩

theorem emod_emod_8 {L : Nat} (hL : L % 2 = 0) (v : Int) : (v % (4 * (L : Int))) % 8 = v % 8 :=
  Int.emod_emod_of_dvd _ (dvd8 hL)

/-- the red-cell test at a wrapped location -/
theorem redAt_iff {Lx Ly Lz : Nat} (hx : 2 ≤ Lx) (hy : 2 ≤ Ly) (hz : 2 ≤ Lz) (ex : Lx % 2 = 0)
    (ey : Ly % 2 = 0) (ez : Lz % 2 = 0) (X Y Z : Int) :
    isRedCell (stabs Lx Ly Lz) [X % (4 * (Lx : Int)), Y % (4 * (Ly : Int)), Z % (4 * (Lz : Int))] = true ↔
      X % 4 = 2 ∧ Y % 4 = 2 ∧ Z % 4 = 2 ∧ (X + Y + Z) % 8 = 2 := by
  rw [isRedCell_iff, typeOf_red_iff]
  have a := wrap_range (L := Lx) (by omega) X
  have b := wrap_range (L := Ly) (by omega) Y
  have c := wrap_range (L := Lz) (by omega) Z
  have a4 := emod_emod_4 (L := Lx) X
  have b4 := emod_emod_4 (L := Ly) Y
  have c4 := emod_emod_4 (L := Lz) Z
  have a8 := emod_emod_8 ex X
  have b8 := emod_emod_8 ey Y
  have c8 := emod_emod_8 ez Z
  generalize X % (4 * (Lx : Int)) = X' at *
  generalize Y % (4 * (Ly : Int)) = Y' at *
  generalize Z % (4 * (Lz : Int)) = Z' at *
  constructor
  · rintro ⟨_, h1, h2, h3, h4⟩; omega
  · intro h
    refine ⟨Or.inl ?_, by omega⟩
    unfold InA; omega

theorem mem_hexMembraneKeys {ss : List Coord} {Lx Ly Lz : Nat} {us vs : List Int}
    {h c1 c2 : Int → Int → Coord} {q : Coord} :
    q ∈ hexMembraneKeys ss Lx Ly Lz us vs h c1 c2 ↔ ∃ u v, u ∈ us ∧ v ∈ vs ∧
      (isRedCell ss (c1 u v) || isRedCell ss (c2 u v)) = true ∧
      q ∈ ((getStabilizerIn ss Lx Ly Lz (h u v)).getD []).map Prod.fst := by
  unfold hexMembraneKeys
  simp only [List.mem_flatMap]
  constructor
  · rintro ⟨u, hu, v, hv, hq⟩
    by_cases hc : (isRedCell ss (c1 u v) || isRedCell ss (c2 u v)) = true
    · rw [if_pos hc] at hq; exact ⟨u, v, hu, hv, hc, hq⟩
    · rw [if_neg hc] at hq; exact absurd hq (by simp)
  · rintro ⟨u, v, hu, hv, hc, hq⟩
    exact ⟨u, hu, v, hv, by rw [if_pos hc]; exact hq⟩

end Panqec.Color3DCode
