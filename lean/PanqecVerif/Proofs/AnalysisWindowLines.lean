/-
`get_p_th_sd_interp` on curves that are straight lines through a common point `(p_th, A)` (the ansatz with
`C = 0`): linear interpolation is exact, the SD is `|p - p_th|` times a constant, hence V-shaped on the grid,
and the crossover is the grid point nearest to `p_th` (C16).
-/
import PanqecVerif.Proofs.AnalysisWindowVShape
import Mathlib.Tactic.FieldSimp
import Mathlib.Tactic.Ring
import Mathlib.Tactic.Linarith
import Mathlib.Tactic.Positivity

namespace Panqec.An

/-! ### linear interpolation of points on a line is the line -/

theorem interpAt_line {pts : List (Rat × Rat)} {A b pth : Rat} (hline : ∀ q ∈ pts, q.2 = A + b * (q.1 - pth))
    (hd : pts.Pairwise fun a c => a.1 ≠ c.1) (hlen : 2 ≤ pts.length) (x : Rat) :
    interpAt pts x = A + b * (x - pth) := by
  match pts, hline, hd, hlen with
  | p0 :: p1 :: rest, hline, hd, hlen =>
    unfold interpAt
    simp only
    generalize hi : min (max ((p0 :: p1 :: rest).countP fun q => decide (q.1 < x)) 1) ((p0 :: p1 :: rest).length - 1) = i
    have hi1 : 1 ≤ i := by rw [← hi]; simp only [List.length_cons]; omega
    have hi2 : i < (p0 :: p1 :: rest).length := by rw [← hi]; simp only [List.length_cons]; omega
    have hlo : (p0 :: p1 :: rest).getD (i - 1) p0 = (p0 :: p1 :: rest)[i - 1]'(by omega) := by
      rw [List.getD_eq_getElem?_getD, List.getElem?_eq_getElem (by omega)]; rfl
    have hhi : (p0 :: p1 :: rest).getD i p0 = (p0 :: p1 :: rest)[i]'hi2 := by
      rw [List.getD_eq_getElem?_getD, List.getElem?_eq_getElem hi2]; rfl
    rw [hlo, hhi]
    have hne : ((p0 :: p1 :: rest)[i - 1]'(by omega)).1 ≠ ((p0 :: p1 :: rest)[i]'hi2).1 :=
      List.pairwise_iff_getElem.mp hd (i - 1) i (by omega) hi2 (by omega)
    have e1 : ((p0 :: p1 :: rest)[i - 1]'(by omega)).2 = A + b * (((p0 :: p1 :: rest)[i - 1]'(by omega)).1 - pth) :=
      hline _ (List.getElem_mem _)
    have e2 : ((p0 :: p1 :: rest)[i]'hi2).2 = A + b * (((p0 :: p1 :: rest)[i]'hi2).1 - pth) :=
      hline _ (List.getElem_mem hi2)
    rw [e1, e2]
    have hne' : ((p0 :: p1 :: rest)[i]'hi2).1 - ((p0 :: p1 :: rest)[i - 1]'(by omega)).1 ≠ 0 :=
      sub_ne_zero.mpr (Ne.symm hne)
    field_simp
    ring

/-! ### variance of an affine image -/

theorem sum_map_affine (A t : Rat) : ∀ l : List Rat, (l.map fun v => A + v * t).sum = (l.length : Rat) * A + l.sum * t
  | [] => by simp
  | x :: xs => by
    simp only [List.map_cons, List.sum_cons, List.length_cons, Nat.cast_add, Nat.cast_one, sum_map_affine A t xs]
    ring

theorem sum_map_mul_left (c : Rat) : ∀ l : List Rat, (l.map fun v => c * v).sum = c * l.sum
  | [] => by simp
  | x :: xs => by simp only [List.map_cons, List.sum_cons, sum_map_mul_left c xs]; ring

/-- `Var(A + t v) = t² Var(v)` -/
theorem sampleVariance_affine (A t : Rat) (l : List Rat) :
    sampleVariance (l.map fun v => A + v * t) = t ^ 2 * sampleVariance l := by
  unfold sampleVariance
  simp only [List.length_map]
  by_cases hl : l = []
  · subst hl; simp
  · have hn : (l.length : Rat) ≠ 0 := by
      have : 0 < l.length := List.length_pos_iff.mpr hl
      positivity
    rw [sum_map_affine, List.map_map]
    have : ((fun v => (v - ((l.length : Rat) * A + l.sum * t) / (l.length : Rat)) ^ 2) ∘ fun v => A + v * t) =
        fun v => t ^ 2 * (v - l.sum / (l.length : Rat)) ^ 2 := by
      funext v
      simp only [Function.comp]
      field_simp
      ring
    have hmm : (l.map fun v => t ^ 2 * (v - l.sum / (l.length : Rat)) ^ 2) =
        (l.map fun v => (v - l.sum / (l.length : Rat)) ^ 2).map fun w => t ^ 2 * w := by
      rw [List.map_map]; rfl
    rw [this, hmm, sum_map_mul_left]
    ring

theorem sum_sq_nonneg (m : Rat) : ∀ l : List Rat, 0 ≤ (l.map fun v => (v - m) ^ 2).sum
  | [] => by simp
  | x :: xs => by
    simp only [List.map_cons, List.sum_cons]
    have := sum_sq_nonneg m xs
    positivity

theorem sum_sq_pos_of_mem (m : Rat) : ∀ (l : List Rat) (x : Rat), x ∈ l → x ≠ m → 0 < (l.map fun v => (v - m) ^ 2).sum
  | [], _, h, _ => by simp at h
  | y :: ys, x, h, hx => by
    simp only [List.map_cons, List.sum_cons]
    rcases List.mem_cons.mp h with rfl | h
    · have h1 : 0 < (x - m) ^ 2 := by
        have : x - m ≠ 0 := sub_ne_zero.mpr hx
        positivity
      have := sum_sq_nonneg m ys
      linarith
    · have := sum_sq_pos_of_mem m ys x h hx
      have h1 : 0 ≤ (y - m) ^ 2 := by positivity
      linarith

theorem sampleVariance_nonneg (l : List Rat) : 0 ≤ sampleVariance l := by
  unfold sampleVariance
  simp only
  rcases Nat.lt_or_ge l.length 2 with h | h
  · have : l.length = 0 ∨ l.length = 1 := by omega
    rcases this with h0 | h1
    · rw [List.length_eq_zero_iff.mp h0]; simp
    · rw [h1]; simp
  · have hpos : (0 : Rat) < (l.length : Rat) - 1 := by
      have : (2 : Rat) ≤ (l.length : Rat) := by exact_mod_cast h
      linarith
    exact div_nonneg (sum_sq_nonneg _ l) (le_of_lt hpos)

theorem popVariance_nonneg (l : List Rat) : 0 ≤ popVariance l := by
  unfold popVariance
  simp only
  exact div_nonneg (sum_sq_nonneg _ l) (by positivity)

/-- two different values in the sample: the variance is positive -/
theorem sampleVariance_pos {l : List Rat} {x y : Rat} (hx : x ∈ l) (hy : y ∈ l) (hxy : x ≠ y) : 0 < sampleVariance l := by
  unfold sampleVariance
  simp only
  have hlen : 2 ≤ l.length := by
    match l, hx, hy with
    | [], hx, _ => simp at hx
    | [z], hx, hy =>
      simp only [List.mem_singleton] at hx hy
      exact absurd (hx.trans hy.symm) hxy
    | _ :: _ :: _, _, _ => simp
  have hpos : (0 : Rat) < (l.length : Rat) - 1 := by
    have : (2 : Rat) ≤ (l.length : Rat) := by exact_mod_cast hlen
    linarith
  apply div_pos _ hpos
  by_cases hxm : x = l.sum / (l.length : Rat)
  · exact sum_sq_pos_of_mem _ l y hy (fun e => hxy (hxm.trans e.symm))
  · exact sum_sq_pos_of_mem _ l x hx hxm

/-! ### the curves of a table whose rows lie on lines through `(p_th, A)` -/

/-- every row of label `ℓ` lies on the line `A + b ℓ (p - p_th)`, and every label has at least two rows -/
structure OnLines (rows : List TRow) (pth A : Rat) (b : Nat → Rat) : Prop where
  line : ∀ r ∈ rows, r.pest = some (A + b r.label * (r.rate - pth))
  two : ∀ lab ∈ labelsOf rows, 2 ≤ (rows.filter fun r => r.label == lab).length
  keys : KeysNodup rows

theorem pointsOf_line {rows : List TRow} {pth A : Rat} {b : Nat → Rat} (h : OnLines rows pth A b) {lab : Nat}
    (hlab : lab ∈ labelsOf rows) (x : Rat) : interpAt (pointsOf rows lab) x = A + b lab * (x - pth) := by
  apply interpAt_line
  · intro q hq
    unfold pointsOf at hq
    rw [(sortPts_perm _).mem_iff] at hq
    obtain ⟨r, hr, rfl⟩ := List.mem_map.mp hq
    have hr' := List.mem_filter.mp hr
    have hl : r.label = lab := by simpa using hr'.2
    simp only [h.line r hr'.1, Option.getD_some, hl]
  · unfold pointsOf
    have hp := sortPts_perm ((rows.filter fun r => r.label == lab).map fun r => (r.rate, r.pest.getD 0))
    have hnd : (((rows.filter fun r => r.label == lab).map fun r => (r.rate, r.pest.getD 0)).map (·.1)).Nodup := by
      rw [List.map_map]
      have hk := h.keys
      unfold KeysNodup at hk
      have h1 : ((rows.filter fun r => r.label == lab).map fun r => (r.label, r.rate)).Nodup :=
        (List.filter_sublist.map _).nodup hk
      have h2 : ((rows.filter fun r => r.label == lab).map fun r => (r.label, r.rate)) =
          ((rows.filter fun r => r.label == lab).map ((·.1) ∘ fun r => (r.rate, r.pest.getD 0))).map fun p => (lab, p) := by
        rw [List.map_map]
        apply List.map_congr_left
        intro r hr
        have : r.label = lab := by simpa using (List.mem_filter.mp hr).2
        simp [this]
      rw [h2] at h1
      exact h1.of_map _
    have hnd' : ((sortPts ((rows.filter fun r => r.label == lab).map fun r => (r.rate, r.pest.getD 0))).map (·.1)).Nodup :=
      (hp.map _).nodup_iff.mpr hnd
    rw [List.Nodup, List.pairwise_map] at hnd'
    exact hnd'
  · unfold pointsOf
    rw [(sortPts_perm _).length_eq, List.length_map]
    exact h.two lab hlab

/-- the spread at grid point `x`: `(x - p_th)²` times the variance of the slopes -/
theorem sdValues_lines (sq : Rat → Rat) {rows : List TRow} {pth A : Rat} {b : Nat → Rat} (h : OnLines rows pth A b)
    (grid : List Rat) :
    sdValues sq rows grid = grid.map fun x => sq ((x - pth) ^ 2 * sampleVariance ((labelsOf rows).map b)) := by
  unfold sdValues curveValues
  simp only [List.map_map]
  apply List.map_congr_left
  intro x _
  simp only [Function.comp]
  congr 1
  have : (labelsOf rows).map ((fun pts => interpAt pts x) ∘ pointsOf rows) =
      ((labelsOf rows).map b).map fun v => A + v * (x - pth) := by
    rw [List.map_map]
    apply List.map_congr_left
    intro lab hlab
    simp only [Function.comp, pointsOf_line h hlab x]
  rw [this, sampleVariance_affine]

/-! ### V shape on the exact grid -/

theorem exactGrid_length (pmin res : Rat) (N : Nat) : (exactGrid pmin res N).length = N := by
  simp [exactGrid]

theorem exactGrid_getD (pmin res : Rat) {N i : Nat} (h : i < N) : (exactGrid pmin res N).getD i 0 = gridPt pmin res i := by
  unfold exactGrid
  rw [List.getD_eq_getElem?_getD, List.getElem?_map, List.getElem?_range h]
  rfl

theorem vshape_of_lines (sq : Rat → Rat) (hsq : ∀ a c : Rat, 0 ≤ a → a < c → sq a < sq c) {V pth pmin res : Rat}
    (hV : 0 < V) (hres : 0 < res) {N j : Nat} (hj : j < N)
    (hlo : j = 0 ∨ gridPt pmin res j - res / 2 < pth) (hhi : j + 1 = N ∨ pth < gridPt pmin res j + res / 2) :
    VShape ((exactGrid pmin res N).map fun x => sq ((x - pth) ^ 2 * V)) j := by
  have hget : ∀ i, i < N → ((exactGrid pmin res N).map fun x => sq ((x - pth) ^ 2 * V)).getD i 0 =
      sq ((gridPt pmin res i - pth) ^ 2 * V) := by
    intro i hi
    rw [List.getD_eq_getElem?_getD, List.getElem?_map]
    have : (exactGrid pmin res N)[i]? = some (gridPt pmin res i) := by
      unfold exactGrid
      rw [List.getElem?_map, List.getElem?_range hi]; rfl
    rw [this]; rfl
  refine ⟨by simpa [exactGrid_length] using hj, ?_, ?_⟩
  · intro i hij
    rw [hget i (by omega), hget (i + 1) (by omega)]
    apply hsq _ _ (by positivity)
    have hj0 : j ≠ 0 := by omega
    have hp : gridPt pmin res j - res / 2 < pth := hlo.resolve_left hj0
    unfold gridPt at hp ⊢
    have hle : ((i + 1 : Nat) : Rat) ≤ (j : Rat) := by exact_mod_cast hij
    push_cast at hle ⊢
    have h1 : pmin + ((i : Rat) + 1) * res - res / 2 < pth := by nlinarith
    have key : (pmin + ((i : Rat) + 1) * res - pth) ^ 2 < (pmin + (i : Rat) * res - pth) ^ 2 := by
      nlinarith [mul_pos hres (by linarith : 0 < -(2 * (pmin + (i : Rat) * res - pth) + res))]
    exact mul_lt_mul_of_pos_right key hV
  · intro i hji hi
    have hi' : i + 1 < N := by simpa [exactGrid_length] using hi
    rw [hget i (by omega), hget (i + 1) hi']
    apply hsq _ _ (by positivity)
    have hjN : j + 1 ≠ N := by omega
    have hp : pth < gridPt pmin res j + res / 2 := hhi.resolve_left hjN
    unfold gridPt at hp ⊢
    have hle : (j : Rat) ≤ (i : Rat) := by exact_mod_cast hji
    push_cast at hle ⊢
    have h1 : pth < pmin + (i : Rat) * res + res / 2 := by nlinarith
    have key : (pmin + (i : Rat) * res - pth) ^ 2 < (pmin + ((i : Rat) + 1) * res - pth) ^ 2 := by
      nlinarith [mul_pos hres (by linarith : 0 < 2 * (pmin + (i : Rat) * res - pth) + res)]
    exact mul_lt_mul_of_pos_right key hV

end Panqec.An
