/-
Color3DCode, even sides `≥ 2`: the number of keys of a generator that lie on a logical operator, as a
finite function.  The membership in the key list of a logical operator is given in normal form: a
Boolean table `M` of the three REDUCED coordinates — a thin coordinate (kind `thin v τ`) is reduced
to its offset from the constant `v`, clamped to `[−τ, τ] ∪ {9}`; a thick coordinate is reduced to its
residue modulo 8.  For the wrapped key `(s + d) % m` the reduced coordinate is a function of the
delta `d` and of one parameter of the location `s`: its centred difference from `v`, or its residue
modulo 8.  Core Lean only.
-/
import PanqecVerif.Proofs.LatColor3DCodeH

set_option linter.unusedVariables false

namespace Panqec.Color3DCode
open Panqec.Lat2D Panqec.Color

inductive Kind
  | thin (v τ : Int)
  | thick
  deriving DecidableEq

/-- the reduced coordinate of a point -/
def redA : Kind → Int → Int
  | .thin v τ, a => clamp τ (a - v)
  | .thick, a => a % 8

/-- the parameter of a location -/
def param : Kind → Int → Int → Int
  | .thin v _, m, s => cd m s v
  | .thick, _, s => s % 8

/-- the reduced coordinate of the key written for the delta `d` at a location with parameter `p` -/
def redK : Kind → Int → Int → Int
  | .thin _ τ, p, d => clamp τ (d - p)
  | .thick, p, d => (p + d) % 8

/-- a kind is usable at the period `m` -/
def Kind.Ok : Kind → Int → Prop
  | .thin v τ, m => 0 ≤ τ ∧ τ ≤ 1 ∧ τ ≤ v ∧ v + τ < m
  | .thick, _ => True

theorem red_wrap {k : Kind} {m s d : Int} (hm : 8 ≤ m) (h8 : 8 ∣ m) (hk : k.Ok m)
    (hd : -2 ≤ d ∧ d ≤ 2) : redA k ((s + d) % m) = redK k (param k m s) d := by
  cases k with
  | thin v τ =>
    obtain ⟨h0, h1, h2, h3⟩ := hk
    exact clamp_wrap hm h0 h1 h2 h3 hd
  | thick => exact thick_wrap h8

/-- the residue modulo 4 of the location, from its parameter (unless it is far from the plane) -/
theorem param_res4 {k : Kind} {m s : Int} (h4 : 4 ∣ m) :
    (match k with
     | .thin v _ => param k m s = 100 ∨ s % 4 = (v - param k m s) % 4
     | .thick => s % 4 = param k m s % 4) := by
  cases k with
  | thin v τ =>
    simp only [param]
    by_cases h : cd m s v = 100
    · exact Or.inl h
    · right
      have := cd_emod h4 h
      omega
  | thick => simp only [param]; omega

/-- number of deltas whose key lies on the logical operator -/
def cnt (M : Int → Int → Int → Bool) (kx ky kz : Kind) (Δ : List D3) (px py pz : Int) : Nat :=
  Δ.countP fun d => M (redK kx px d.1) (redK ky py d.2.1) (redK kz pz d.2.2)

/-- the key list `K` has the normal form `M` -/
def NF (Lx Ly Lz : Nat) (K : List Coord) (M : Int → Int → Int → Bool) (kx ky kz : Kind) : Prop :=
  ∀ a b c, InBox Lx Ly Lz a b c → ([a, b, c] ∈ K ↔ M (redA kx a) (redA ky b) (redA kz c) = true)

theorem count_keys {Lx Ly Lz : Nat} (hx : 2 ≤ Lx) (hy : 2 ≤ Ly) (hz : 2 ≤ Lz) (ex : Lx % 2 = 0)
    (ey : Ly % 2 = 0) (ez : Lz % 2 = 0) {K : List Coord} {M : Int → Int → Int → Bool}
    {kx ky kz : Kind} (hK : NF Lx Ly Lz K M kx ky kz) (okx : kx.Ok (4 * (Lx : Int)))
    (oky : ky.Ok (4 * (Ly : Int))) (okz : kz.Ok (4 * (Lz : Int))) (x y z : Int) :
    (keys Lx Ly Lz x y z).countP (fun q => decide (q ∈ K)) =
      cnt M kx ky kz (shape x y z) (param kx (4 * (Lx : Int)) x) (param ky (4 * (Ly : Int)) y)
        (param kz (4 * (Lz : Int)) z) := by
  unfold keys cnt
  rw [List.countP_map]
  apply List.countP_congr
  intro d hd
  have bd := shape_bd x y z d hd
  unfold Bd at bd
  simp only [Function.comp]
  have hb := inBox_wrap (Lx := Lx) (Ly := Ly) (Lz := Lz) (by omega) (by omega) (by omega) x y z d _ _ _ rfl
  have h := hK _ _ _ hb
  rw [red_wrap (by omega) (dvd8 ex) okx (by omega), red_wrap (by omega) (dvd8 ey) oky (by omega),
    red_wrap (by omega) (dvd8 ez) okz (by omega)] at h
  unfold wrapAt
  constructor
  · intro h'; exact h.mp (by simpa using h')
  · intro h'; simpa using h.mpr h'

/-! ### the finite check -/

/-- the parameter of a location on one axis together with its residue modulo 4 -/
def dom : Kind → List (Int × Int)
  | .thin v _ => rng7.map (fun c => (c, (v - c) % 4)) ++ res4.map (fun r => (100, r))
  | .thick => res8.map (fun r => (r, r % 4))

theorem mem_dom (k : Kind) (m s : Int) (hm : 8 ≤ m) (h4 : 4 ∣ m) : (param k m s, s % 4) ∈ dom k := by
  cases k with
  | thin v τ =>
    simp only [param, dom, List.mem_append, List.mem_map]
    rcases cd_range m s v hm with h | h
    · left
      refine ⟨cd m s v, mem_rng7 h.1 h.2, ?_⟩
      have := cd_emod h4 (by omega : cd m s v ≠ 100)
      simp only [Prod.mk.injEq, true_and]
      omega
    · right
      exact ⟨s % 4, mem_res4 s, by rw [h]⟩
  | thick =>
    simp only [param, dom, List.mem_map]
    exact ⟨s % 8, mem_res8 s, by simp only [Prod.mk.injEq, true_and]; omega⟩

def isCellRes (rx ry rz : Int) : Bool := decide (IsCellLoc rx ry rz)

/-- every FACE location (all-even or all-odd residues) has an even number of keys on the operator -/
def chkFaces (M : Int → Int → Int → Bool) (kx ky kz : Kind) : Bool :=
  (dom kx).all fun px => (dom ky).all fun py => (dom kz).all fun pz =>
    !(px.2 % 2 == py.2 % 2 && py.2 % 2 == pz.2 % 2) || isCellRes px.2 py.2 pz.2 ||
    cnt M kx ky kz (shape px.2 py.2 pz.2) px.1 py.1 pz.1 % 2 == 0

/-- every CELL location has an even number of keys on the operator -/
def chkCells (M : Int → Int → Int → Bool) (kx ky kz : Kind) : Bool :=
  (dom kx).all fun px => (dom ky).all fun py => (dom kz).all fun pz =>
    !isCellRes px.2 py.2 pz.2 ||
    cnt M kx ky kz deltaCell px.1 py.1 pz.1 % 2 == 0

theorem isCellLoc_congr {x y z x' y' z' : Int} (hx : x % 4 = x' % 4) (hy : y % 4 = y' % 4)
    (hz : z % 4 = z' % 4) : IsCellLoc x y z ↔ IsCellLoc x' y' z' := by
  unfold IsCellLoc; omega

theorem faces_even {Lx Ly Lz : Nat} (hx : 2 ≤ Lx) (hy : 2 ≤ Ly) (hz : 2 ≤ Lz) (ex : Lx % 2 = 0)
    (ey : Ly % 2 = 0) (ez : Lz % 2 = 0) {K : List Coord} {M : Int → Int → Int → Bool}
    {kx ky kz : Kind} (hK : NF Lx Ly Lz K M kx ky kz) (okx : kx.Ok (4 * (Lx : Int)))
    (oky : ky.Ok (4 * (Ly : Int))) (okz : kz.Ok (4 * (Lz : Int)))
    (hc : chkFaces M kx ky kz = true) {x y z : Int} (hp : x % 2 = y % 2 ∧ y % 2 = z % 2)
    (hf : ¬ IsCellLoc x y z) :
    (keys Lx Ly Lz x y z).countP (fun q => decide (q ∈ K)) % 2 = 0 := by
  rw [count_keys hx hy hz ex ey ez hK okx oky okz]
  unfold chkFaces at hc
  simp only [List.all_eq_true] at hc
  have h := hc _ (mem_dom kx (4 * (Lx : Int)) x (by omega) ⟨(Lx : Int), rfl⟩)
    _ (mem_dom ky (4 * (Ly : Int)) y (by omega) ⟨(Ly : Int), rfl⟩)
    _ (mem_dom kz (4 * (Lz : Int)) z (by omega) ⟨(Lz : Int), rfl⟩)
  simp only [Bool.or_eq_true, Bool.not_eq_true', Bool.and_eq_false_iff, beq_eq_false_iff_ne,
    beq_iff_eq, isCellRes, decide_eq_true_eq] at h
  have e1 : x % 4 % 2 = x % 2 := by omega
  have e2 : y % 4 % 2 = y % 2 := by omega
  have e3 : z % 4 % 2 = z % 2 := by omega
  rw [e1, e2, e3] at h
  rcases h with ((h | h) | h) | h
  · exact absurd hp.1 h
  · exact absurd hp.2 h
  · exact absurd ((isCellLoc_congr (by omega) (by omega) (by omega)).mp h) hf
  · rw [shape_congr (x' := x % 4) (y' := y % 4) (z' := z % 4) (by omega) (by omega) (by omega)]
    exact h

theorem cells_even {Lx Ly Lz : Nat} (hx : 2 ≤ Lx) (hy : 2 ≤ Ly) (hz : 2 ≤ Lz) (ex : Lx % 2 = 0)
    (ey : Ly % 2 = 0) (ez : Lz % 2 = 0) {K : List Coord} {M : Int → Int → Int → Bool}
    {kx ky kz : Kind} (hK : NF Lx Ly Lz K M kx ky kz) (okx : kx.Ok (4 * (Lx : Int)))
    (oky : ky.Ok (4 * (Ly : Int))) (okz : kz.Ok (4 * (Lz : Int)))
    (hc : chkCells M kx ky kz = true) {x y z : Int} (hf : IsCellLoc x y z) :
    (keys Lx Ly Lz x y z).countP (fun q => decide (q ∈ K)) % 2 = 0 := by
  rw [count_keys hx hy hz ex ey ez hK okx oky okz, shape_cell hf]
  unfold chkCells at hc
  simp only [List.all_eq_true] at hc
  have h := hc _ (mem_dom kx (4 * (Lx : Int)) x (by omega) ⟨(Lx : Int), rfl⟩)
    _ (mem_dom ky (4 * (Ly : Int)) y (by omega) ⟨(Ly : Int), rfl⟩)
    _ (mem_dom kz (4 * (Lz : Int)) z (by omega) ⟨(Lz : Int), rfl⟩)
  simp only [Bool.or_eq_true, Bool.not_eq_true', isCellRes, decide_eq_false_iff_not, beq_iff_eq] at h
  rcases h with h | h
  · exact absurd ((isCellLoc_congr (by omega) (by omega) (by omega)).mp hf) h
  · exact h

end Panqec.Color3DCode
