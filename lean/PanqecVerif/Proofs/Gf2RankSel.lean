/-
Elementary (Mathlib-free) vocabulary for the GF(2) rank of a list of row masks, in terms
of `xorSelect` (xor of the rows selected by the bits of a number):
`MaskInSpan`, `MaskIndep`, `MaskRank`, and the existence of a basis among the rows.
That `MaskRank` is single-valued and equals `gf2Rank` is proved in `Gf2RankList.lean`.
-/
import PanqecVerif.Model.Mask
import PanqecVerif.Proofs.Mask1

namespace Panqec

/-- `v` is a GF(2) combination of the rows -/
def MaskInSpan (rows : List Nat) (v : Nat) : Prop := ∃ sel, xorSelect rows sel = v

/-- only the empty selection of the rows xors to zero -/
def MaskIndep (rows : List Nat) : Prop :=
  ∀ sel, sel < 2 ^ rows.length → xorSelect rows sel = 0 → sel = 0

/-- `rows` has GF(2) rank `r`: its span has a basis of `r` masks -/
def MaskRank (rows : List Nat) (r : Nat) : Prop :=
  ∃ basis : List Nat, basis.length = r ∧ MaskIndep basis ∧
    (∀ b ∈ basis, MaskInSpan rows b) ∧ ∀ v ∈ rows, MaskInSpan basis v

theorem xorSelect_nil (sel : Nat) : xorSelect [] sel = 0 := rfl

theorem xorSelect_zero : ∀ rows : List Nat, xorSelect rows 0 = 0
  | [] => rfl
  | r :: rs => by simp [xorSelect, xorSelect_zero rs]

theorem xorSelect_cons_even (r : Nat) (rs : List Nat) (s : Nat) :
    xorSelect (r :: rs) (2 * s) = xorSelect rs s := by
  have h1 : (2 * s) % 2 ≠ 1 := by omega
  have h2 : (2 * s) / 2 = s := by omega
  simp [xorSelect, h2]

theorem xorSelect_cons_odd (r : Nat) (rs : List Nat) (s : Nat) :
    xorSelect (r :: rs) (2 * s + 1) = r ^^^ xorSelect rs s := by
  have h1 : (2 * s + 1) % 2 = 1 := by omega
  have h2 : (2 * s + 1) / 2 = s := by omega
  simp [xorSelect, h1, h2]

theorem xor_xor_xor_cancel (r x y : Nat) : (r ^^^ x) ^^^ (r ^^^ y) = x ^^^ y := by
  apply Nat.eq_of_testBit_eq
  intro i
  simp only [Nat.testBit_xor]
  cases r.testBit i <;> cases x.testBit i <;> cases y.testBit i <;> rfl

theorem xorSelect_xor : ∀ (rows : List Nat) (a b : Nat),
    xorSelect rows (a ^^^ b) = xorSelect rows a ^^^ xorSelect rows b
  | [], _, _ => by simp [xorSelect]
  | r :: rs, a, b => by
    have ih := xorSelect_xor rs (a / 2) (b / 2)
    simp only [xorSelect, Nat.xor_div_two, ih]
    have hm := xor_mod_two a b
    rcases Nat.mod_two_eq_zero_or_one a with ha | ha <;>
      rcases Nat.mod_two_eq_zero_or_one b with hb | hb <;>
      rw [ha, hb] at hm <;> rw [hm, ha, hb]
    · simp
    · simp only [Nat.zero_ne_one, if_false, if_true, Nat.zero_xor]
      show r ^^^ _ = _
      rw [← Nat.xor_assoc, Nat.xor_comm r, Nat.xor_assoc]
    · simp only [Nat.zero_ne_one, if_false, if_true, Nat.zero_xor]
      show r ^^^ _ = _
      rw [Nat.xor_assoc]
    · show (0 : Nat) ^^^ _ = (r ^^^ _) ^^^ (r ^^^ _)
      rw [xor_xor_xor_cancel, Nat.zero_xor]

theorem xorSelect_lt (w : Nat) : ∀ (rows : List Nat) (sel : Nat),
    (∀ r ∈ rows, r < 2 ^ w) → xorSelect rows sel < 2 ^ w
  | [], _, _ => by simp [xorSelect]; exact Nat.two_pow_pos w
  | r :: rs, sel, h => by
    have ih := xorSelect_lt w rs (sel / 2) (fun x hx => h x (by simp [hx]))
    have hr : r < 2 ^ w := h r (by simp)
    simp only [xorSelect]
    apply Nat.xor_lt_two_pow _ ih
    by_cases hs : sel % 2 = 1
    · simp [hs, hr]
    · simp [hs]; exact Nat.two_pow_pos w

/-- every row is a combination of the rows (selection `2 ^ index`) -/
theorem exists_sel_of_mem : ∀ (rows : List Nat) (r : Nat), r ∈ rows →
    ∃ sel, sel < 2 ^ rows.length ∧ xorSelect rows sel = r
  | [], _, h => by simp at h
  | x :: xs, r, h => by
    rcases List.mem_cons.mp h with rfl | h
    · refine ⟨1, ?_, ?_⟩
      · rw [List.length_cons, Nat.pow_succ]; have := Nat.two_pow_pos xs.length; omega
      · have := xorSelect_cons_odd r xs 0
        simpa [xorSelect_zero] using this
    · obtain ⟨s, hs, he⟩ := exists_sel_of_mem xs r h
      refine ⟨2 * s, ?_, ?_⟩
      · rw [List.length_cons, Nat.pow_succ]; omega
      · rw [xorSelect_cons_even, he]

theorem maskInSpan_of_mem {rows : List Nat} {r : Nat} (h : r ∈ rows) : MaskInSpan rows r := by
  obtain ⟨s, _, hs⟩ := exists_sel_of_mem rows r h
  exact ⟨s, hs⟩

theorem maskInSpan_cons {rows : List Nat} {v : Nat} (x : Nat) (h : MaskInSpan rows v) :
    MaskInSpan (x :: rows) v := by
  obtain ⟨s, hs⟩ := h
  exact ⟨2 * s, by rw [xorSelect_cons_even, hs]⟩

theorem maskIndep_nil : MaskIndep [] := by
  intro sel h _
  simpa using h

theorem maskIndep_tail {b : Nat} {bs : List Nat} (h : MaskIndep (b :: bs)) : MaskIndep bs := by
  intro sel hs he
  have := h (2 * sel) (by rw [List.length_cons, Nat.pow_succ]; omega)
    (by rw [xorSelect_cons_even, he])
  omega

/-- adding a mask outside the span keeps independence -/
theorem maskIndep_cons {b : Nat} {bs : List Nat} (h : MaskIndep bs) (hb : ¬ MaskInSpan bs b) :
    MaskIndep (b :: bs) := by
  intro sel hs he
  have hs' : sel / 2 < 2 ^ bs.length := by
    rw [List.length_cons, Nat.pow_succ] at hs; omega
  rcases Nat.mod_two_eq_zero_or_one sel with h0 | h1
  · have e : sel = 2 * (sel / 2) := by omega
    rw [e, xorSelect_cons_even] at he
    have := h _ hs' he
    omega
  · exfalso
    have e : sel = 2 * (sel / 2) + 1 := by omega
    rw [e, xorSelect_cons_odd] at he
    apply hb
    refine ⟨sel / 2, ?_⟩
    have h2 : b ^^^ (b ^^^ xorSelect bs (sel / 2)) = b ^^^ 0 := by rw [he]
    rw [← Nat.xor_assoc, Nat.xor_self, Nat.zero_xor, Nat.xor_zero] at h2
    exact h2

/-- the head of an independent list is not in the span of the tail -/
theorem not_maskInSpan_of_indep_cons {b : Nat} {bs : List Nat} (h : MaskIndep (b :: bs))
    (sel : Nat) (hs : sel < 2 ^ bs.length) : xorSelect bs sel ≠ b := by
  intro he
  have := h (2 * sel + 1) (by rw [List.length_cons, Nat.pow_succ]; omega)
    (by rw [xorSelect_cons_odd, he, Nat.xor_self])
  omega

/-- **a basis exists**: some of the rows are independent and span all rows -/
theorem exists_maskBasis : ∀ rows : List Nat, ∃ basis : List Nat,
    MaskIndep basis ∧ (∀ b ∈ basis, b ∈ rows) ∧ ∀ v ∈ rows, MaskInSpan basis v
  | [] => ⟨[], maskIndep_nil, by simp, by simp⟩
  | r :: rs => by
    obtain ⟨basis, hind, hsub, hspan⟩ := exists_maskBasis rs
    by_cases hr : MaskInSpan basis r
    · refine ⟨basis, hind, fun b hb => List.mem_cons_of_mem _ (hsub b hb), ?_⟩
      intro v hv
      rcases List.mem_cons.mp hv with rfl | hv
      · exact hr
      · exact hspan v hv
    · refine ⟨r :: basis, maskIndep_cons hind hr, ?_, ?_⟩
      · intro b hb
        rcases List.mem_cons.mp hb with rfl | hb
        · exact List.mem_cons_self
        · exact List.mem_cons_of_mem _ (hsub b hb)
      · intro v hv
        rcases List.mem_cons.mp hv with rfl | hv
        · exact maskInSpan_of_mem List.mem_cons_self
        · exact maskInSpan_cons _ (hspan v hv)

/-- all rows fit in some common width -/
theorem exists_width : ∀ rows : List Nat, ∃ w, ∀ r ∈ rows, r < 2 ^ w
  | [] => ⟨0, by simp⟩
  | r :: rs => by
    obtain ⟨w, hw⟩ := exists_width rs
    refine ⟨r + w, ?_⟩
    intro x hx
    rcases List.mem_cons.mp hx with rfl | hx
    · exact Nat.lt_of_lt_of_le Nat.lt_two_pow_self (Nat.pow_le_pow_right (by omega) (by omega))
    · exact Nat.lt_of_lt_of_le (hw x hx) (Nat.pow_le_pow_right (by omega) (by omega))

end Panqec
