/-
RotatedPlanar3DCode lattice model: arithmetic characterisation of the coordinate lists and the
closed form of `get_stabilizer` for each of the four stabilizer kinds.
-/
import PanqecVerif.Proofs.Lat3DbCss
import PanqecVerif.Model.Lattices.RotatedPlanar3DCode
open Panqec Panqec.Lat3Db
namespace Panqec.RotatedPlanar3DCode

/-- horizontal qubit -/
def QH (Lx Ly Lz : Nat) (x y z : Int) : Prop := R1 (2 * Lx) x ∧ R1 (2 * Ly) y ∧ R1 (2 * Lz) z
/-- vertical qubit -/
def QV (Lx Ly Lz : Nat) (x y z : Int) : Prop :=
  R2 (2 * Lx) x ∧ R0 (2 * Ly + 1) y ∧ R2 (2 * Lz) z ∧ (x + y) % 4 = 2
/-- vertex -/
def SV (Lx Ly Lz : Nat) (x y z : Int) : Prop :=
  R2 (2 * Lx) x ∧ R0 (2 * Ly + 1) y ∧ R1 (2 * Lz) z ∧ (x + y) % 4 = 2
/-- horizontal (z-normal) face -/
def SH (Lx Ly Lz : Nat) (x y z : Int) : Prop :=
  R0 (2 * Lx + 1) x ∧ R2 (2 * Ly) y ∧ R1 (2 * Lz) z ∧ (x + y) % 4 = 0
/-- vertical face -/
def SF (Lx Ly Lz : Nat) (x y z : Int) : Prop := R1 (2 * Lx + 1) x ∧ R1 (2 * Ly) y ∧ R2 (2 * Lz) z

theorem mem_qubits_iff (Lx Ly Lz : Nat) (x y z : Int) :
    [x, y, z] ∈ qubits Lx Ly Lz ↔ QH Lx Ly Lz x y z ∨ QV Lx Ly Lz x y z := by
  unfold qubits QH QV
  simp only [List.mem_append, mem_grid3_cons, mem_pyRange2_0, mem_pyRange2_1, mem_pyRange2_2,
    beq_iff_eq, and_true]

theorem mem_stabs_iff (Lx Ly Lz : Nat) (x y z : Int) :
    [x, y, z] ∈ stabs Lx Ly Lz ↔ SV Lx Ly Lz x y z ∨ SH Lx Ly Lz x y z ∨ SF Lx Ly Lz x y z := by
  unfold stabs SV SH SF
  simp only [List.mem_append, mem_grid3_cons, mem_pyRange2_0, mem_pyRange2_1, mem_pyRange2_2,
    beq_iff_eq, and_true, or_assoc]

theorem mem_stabs_shape (Lx Ly Lz : Nat) (s : Coord) (h : s ∈ stabs Lx Ly Lz) :
    ∃ x y z, s = [x, y, z] := by
  unfold stabs at h
  simp only [List.mem_append, mem_grid3] at h
  rcases h with (⟨x, y, z, rfl, _⟩ | ⟨x, y, z, rfl, _⟩) | ⟨x, y, z, rfl, _⟩ <;> exact ⟨x, y, z, rfl⟩

theorem mem_qubits_shape (Lx Ly Lz : Nat) (s : Coord) (h : s ∈ qubits Lx Ly Lz) :
    ∃ x y z, s = [x, y, z] := by
  unfold qubits at h
  simp only [List.mem_append, mem_grid3] at h
  rcases h with ⟨x, y, z, rfl, _⟩ | ⟨x, y, z, rfl, _⟩ <;> exact ⟨x, y, z, rfl⟩

theorem isQubit_iff (Lx Ly Lz : Nat) (x y z : Int) :
    isQubit Lx Ly Lz [x, y, z] = true ↔ QH Lx Ly Lz x y z ∨ QV Lx Ly Lz x y z := by
  unfold isQubit
  rw [List.contains_iff_mem, mem_qubits_iff]

/-! ### the four delta lists applied to a location -/

def vertexLocs (x y z : Int) : List Coord :=
  [[x - 1, y - 1, z], [x - 1, y + 1, z], [x + 1, y - 1, z], [x + 1, y + 1, z], [x, y, z - 1], [x, y, z + 1]]
def faceZLocs (x y z : Int) : List Coord :=
  [[x - 1, y - 1, z], [x + 1, y + 1, z], [x - 1, y + 1, z], [x + 1, y - 1, z]]
def faceXLocs (x y z : Int) : List Coord :=
  [[x - 1, y - 1, z], [x + 1, y + 1, z], [x, y, z - 1], [x, y, z + 1]]
def faceYLocs (x y z : Int) : List Coord :=
  [[x - 1, y + 1, z], [x + 1, y - 1, z], [x, y, z - 1], [x, y, z + 1]]

theorem map_vertexDelta (x y z : Int) : vertexDelta.map (addC [x, y, z]) = vertexLocs x y z := by
  simp [vertexDelta, addC, vertexLocs, Int.sub_eq_add_neg]
theorem map_faceDeltaZ (x y z : Int) : faceDeltaZ.map (addC [x, y, z]) = faceZLocs x y z := by
  simp [faceDeltaZ, addC, faceZLocs, Int.sub_eq_add_neg]
theorem map_faceDeltaX (x y z : Int) : faceDeltaX.map (addC [x, y, z]) = faceXLocs x y z := by
  simp [faceDeltaX, addC, faceXLocs, Int.sub_eq_add_neg]
theorem map_faceDeltaY (x y z : Int) : faceDeltaY.map (addC [x, y, z]) = faceYLocs x y z := by
  simp [faceDeltaY, addC, faceYLocs, Int.sub_eq_add_neg]

theorem nodup_vertexLocs (x y z : Int) : (vertexLocs x y z).Nodup := by
  simp [vertexLocs]
  omega
theorem nodup_faceZLocs (x y z : Int) : (faceZLocs x y z).Nodup := by
  simp [faceZLocs]
  omega
theorem nodup_faceXLocs (x y z : Int) : (faceXLocs x y z).Nodup := by
  simp [faceXLocs]
  omega
theorem nodup_faceYLocs (x y z : Int) : (faceYLocs x y z).Nodup := by
  simp [faceYLocs]
  omega

/-- key lists of the four stabilizer kinds -/
def vertexKeys (Lx Ly Lz : Nat) (x y z : Int) : List Coord := (vertexLocs x y z).filter (isQubit Lx Ly Lz)
def faceZKeys (Lx Ly Lz : Nat) (x y z : Int) : List Coord := (faceZLocs x y z).filter (isQubit Lx Ly Lz)
def faceXKeys (Lx Ly Lz : Nat) (x y z : Int) : List Coord := (faceXLocs x y z).filter (isQubit Lx Ly Lz)
def faceYKeys (Lx Ly Lz : Nat) (x y z : Int) : List Coord := (faceYLocs x y z).filter (isQubit Lx Ly Lz)

theorem isStab_of (Lx Ly Lz : Nat) (x y z : Int)
    (h : SV Lx Ly Lz x y z ∨ SH Lx Ly Lz x y z ∨ SF Lx Ly Lz x y z) : isStab Lx Ly Lz [x, y, z] = true := by
  unfold isStab; rw [List.contains_iff_mem, mem_stabs_iff]; exact h

theorem getStab_vertex (Lx Ly Lz : Nat) (x y z : Int) (h : SV Lx Ly Lz x y z) :
    getStab Lx Ly Lz [x, y, z] = constOp (vertexKeys Lx Ly Lz x y z) Pauli.Z := by
  have hv : isVertexXYZ x y z = true := by
    unfold SV R1 at h; unfold isVertexXYZ; simp only [Bool.and_eq_true, beq_iff_eq]; omega
  unfold getStab getStab?
  simp only [isStab_of Lx Ly Lz x y z (Or.inl h), deltaOf, hv, Bool.not_true, Bool.false_eq_true, if_false,
    if_true, Option.getD_some, map_vertexDelta]
  exact buildOp_eq _ _ _ (nodup_vertexLocs x y z)

theorem getStab_faceZ (Lx Ly Lz : Nat) (x y z : Int) (h : SH Lx Ly Lz x y z) :
    getStab Lx Ly Lz [x, y, z] = constOp (faceZKeys Lx Ly Lz x y z) Pauli.X := by
  have hv : isVertexXYZ x y z = false := by
    unfold SH R1 at h; unfold isVertexXYZ
    have : ¬ ((x + y) % 4 = 2) := by omega
    simp [this]
  have hz : (z % 2 == 1) = true := by unfold SH R1 at h; simp only [beq_iff_eq]; omega
  unfold getStab getStab?
  simp only [isStab_of Lx Ly Lz x y z (Or.inr (Or.inl h)), deltaOf, hv, hz, Bool.not_true, Bool.false_eq_true,
    if_false, if_true, Option.getD_some, map_faceDeltaZ]
  exact buildOp_eq _ _ _ (nodup_faceZLocs x y z)

theorem getStab_faceX (Lx Ly Lz : Nat) (x y z : Int) (h : SF Lx Ly Lz x y z) (h4 : (x + y) % 4 = 0) :
    getStab Lx Ly Lz [x, y, z] = constOp (faceXKeys Lx Ly Lz x y z) Pauli.X := by
  have hz0 : ¬ (z % 2 = 1) := by unfold SF R2 at h; omega
  have hv : isVertexXYZ x y z = false := by unfold isVertexXYZ; simp [hz0]
  have hz : (z % 2 == 1) = false := by simpa using hz0
  have h4' : ((x + y) % 4 == 0) = true := by simpa using h4
  unfold getStab getStab?
  simp only [isStab_of Lx Ly Lz x y z (Or.inr (Or.inr h)), deltaOf, hv, hz, h4', Bool.not_true, Bool.false_eq_true,
    if_false, if_true, Option.getD_some, map_faceDeltaX]
  exact buildOp_eq _ _ _ (nodup_faceXLocs x y z)

theorem getStab_faceY (Lx Ly Lz : Nat) (x y z : Int) (h : SF Lx Ly Lz x y z) (h4 : (x + y) % 4 = 2) :
    getStab Lx Ly Lz [x, y, z] = constOp (faceYKeys Lx Ly Lz x y z) Pauli.X := by
  have hz0 : ¬ (z % 2 = 1) := by unfold SF R2 at h; omega
  have hv : isVertexXYZ x y z = false := by unfold isVertexXYZ; simp [hz0]
  have hz : (z % 2 == 1) = false := by simpa using hz0
  have h40 : ((x + y) % 4 == 0) = false := by
    have : ¬ ((x + y) % 4 = 0) := by omega
    simpa using this
  have h4' : ((x + y) % 4 == 2) = true := by simpa using h4
  unfold getStab getStab?
  simp only [isStab_of Lx Ly Lz x y z (Or.inr (Or.inr h)), deltaOf, hv, hz, h40, h4', Bool.not_true,
    Bool.false_eq_true, if_false, if_true, Option.getD_some, map_faceDeltaY]
  exact buildOp_eq _ _ _ (nodup_faceYLocs x y z)

theorem SF_mod4 (Lx Ly Lz : Nat) (x y z : Int) (h : SF Lx Ly Lz x y z) : (x + y) % 4 = 0 ∨ (x + y) % 4 = 2 := by
  unfold SF R1 at h; omega

end Panqec.RotatedPlanar3DCode
