/-
`HollowRhombicCode` for every size: the qubit list is the edge list of `Planar3DCode` filtered by
`not _is_in_hole` (same order), the hole and the qubit test as arithmetic predicates, `n` in closed
form.  Core Lean only.
-/
import PanqecVerif.Proofs.LatHollowPlanar3DCodeBasics
import PanqecVerif.Model.Lattices.HollowRhombicCode

set_option linter.unusedVariables false
set_option linter.unusedSimpArgs false

namespace Panqec.HollowRhombicCode
open Panqec.Cubic3D
open Panqec.Planar3DCode (inE inO inE2 inO1)

/-- `_is_in_hole` as an arithmetic statement -/
def Hole (Lx Ly Lz : Nat) (x y z : Int) : Prop :=
  (2 < x ∧ x < 2 * (Lx : Int) - 2) ∧ (3 ≤ y ∧ y < 2 * (Ly : Int) - 4) ∧
    (3 ≤ z ∧ z < 2 * (Lz : Int) - 4)

instance (Lx Ly Lz : Nat) (x y z : Int) : Decidable (Hole Lx Ly Lz x y z) := by
  unfold Hole; infer_instance

theorem inHole_iff {Lx Ly Lz : Nat} {x y z : Int} :
    inHole Lx Ly Lz x y z = true ↔ Hole Lx Ly Lz x y z := by
  unfold inHole Hole
  simp only [Bool.and_eq_true, decide_eq_true_eq, gt_iff_lt, ge_iff_le, and_assoc]

theorem inHole_false_iff {Lx Ly Lz : Nat} {x y z : Int} :
    inHole Lx Ly Lz x y z = false ↔ ¬ Hole Lx Ly Lz x y z := by
  rw [← inHole_iff]; simp

/-- the guard of the innermost loop body as a predicate on locations -/
def notHoleC (Lx Ly Lz : Nat) : Coord → Bool
  | [x, y, z] => !inHole Lx Ly Lz x y z
  | _ => true

theorem notHoleC3 {Lx Ly Lz : Nat} {x y z : Int} :
    notHoleC Lx Ly Lz [x, y, z] = true ↔ ¬ Hole Lx Ly Lz x y z := by
  simp only [notHoleC, Bool.not_eq_true', inHole_false_iff]

theorem gridH_eq (Lx Ly Lz : Nat) (xs ys zs : List Int) :
    gridH Lx Ly Lz xs ys zs = (grid xs ys zs).filter (notHoleC Lx Ly Lz) := by
  unfold gridH grid
  rw [List.filter_flatMap]
  congr 1; funext x
  rw [List.filter_flatMap]
  congr 1; funext y
  rw [List.filter_map]
  rfl

/-- `get_qubit_coordinates` is the edge list of `Planar3DCode` with the locations in the hole
    removed -/
theorem qubits_eq (Lx Ly Lz : Nat) :
    qubits Lx Ly Lz = (Planar3DCode.qubits Lx Ly Lz).filter (notHoleC Lx Ly Lz) := by
  unfold qubits Planar3DCode.qubits
  simp only [gridH_eq, List.filter_append, HollowPlanar3DCode.range2_one_even]

theorem mem_qubits {Lx Ly Lz : Nat} {x y z : Int} :
    [x, y, z] ∈ qubits Lx Ly Lz ↔
      [x, y, z] ∈ Planar3DCode.qubits Lx Ly Lz ∧ ¬ Hole Lx Ly Lz x y z := by
  rw [qubits_eq, List.mem_filter, notHoleC3]

theorem qubits_sub {Lx Ly Lz : Nat} {q : Coord} (h : q ∈ qubits Lx Ly Lz) :
    q ∈ Planar3DCode.qubits Lx Ly Lz := by
  rw [qubits_eq] at h; exact (List.mem_filter.mp h).1

theorem shape_of_mem_qubits {Lx Ly Lz : Nat} {q : Coord} (h : q ∈ qubits Lx Ly Lz) :
    ∃ x y z, q = [x, y, z] := Planar3DCode.shape_of_mem_qubits (qubits_sub h)

theorem qubits_nodup (Lx Ly Lz : Nat) : (qubits Lx Ly Lz).Nodup := by
  rw [qubits_eq]; exact (Planar3DCode.qubits_nodup Lx Ly Lz).filter _

/-- an x edge is a qubit -/
def Qx (Lx Ly Lz : Nat) (x y z : Int) : Prop :=
  1 ≤ x ∧ x < 2 * (Lx : Int) + 1 ∧ 0 ≤ y ∧ y < 2 * (Ly : Int) ∧ 0 ≤ z ∧ z < 2 * (Lz : Int) ∧
    ¬ Hole Lx Ly Lz x y z
/-- a y edge is a qubit -/
def Qy (Lx Ly Lz : Nat) (x y z : Int) : Prop :=
  2 ≤ x ∧ x < 2 * (Lx : Int) ∧ 1 ≤ y ∧ y < 2 * (Ly : Int) - 1 ∧ 0 ≤ z ∧ z < 2 * (Lz : Int) ∧
    ¬ Hole Lx Ly Lz x y z
/-- a z edge is a qubit -/
def Qz (Lx Ly Lz : Nat) (x y z : Int) : Prop :=
  2 ≤ x ∧ x < 2 * (Lx : Int) ∧ 0 ≤ y ∧ y < 2 * (Ly : Int) ∧ 1 ≤ z ∧ z < 2 * (Lz : Int) - 1 ∧
    ¬ Hole Lx Ly Lz x y z

instance (Lx Ly Lz : Nat) (x y z : Int) : Decidable (Qx Lx Ly Lz x y z) := by unfold Qx; infer_instance
instance (Lx Ly Lz : Nat) (x y z : Int) : Decidable (Qy Lx Ly Lz x y z) := by unfold Qy; infer_instance
instance (Lx Ly Lz : Nat) (x y z : Int) : Decidable (Qz Lx Ly Lz x y z) := by unfold Qz; infer_instance

theorem mem_qubits_x {Lx Ly Lz : Nat} {x y z : Int} (hx : x % 2 = 1) (hy : y % 2 = 0)
    (hz : z % 2 = 0) : [x, y, z] ∈ qubits Lx Ly Lz ↔ Qx Lx Ly Lz x y z := by
  rw [mem_qubits, Planar3DCode.mem_qubits_x hx hy hz]; unfold Qx
  constructor
  · rintro ⟨⟨a, b, c, d, e, f⟩, g⟩; exact ⟨a, b, c, d, e, f, g⟩
  · rintro ⟨a, b, c, d, e, f, g⟩; exact ⟨⟨a, b, c, d, e, f⟩, g⟩
theorem mem_qubits_y {Lx Ly Lz : Nat} {x y z : Int} (hx : x % 2 = 0) (hy : y % 2 = 1)
    (hz : z % 2 = 0) : [x, y, z] ∈ qubits Lx Ly Lz ↔ Qy Lx Ly Lz x y z := by
  rw [mem_qubits, Planar3DCode.mem_qubits_y hx hy hz]; unfold Qy
  constructor
  · rintro ⟨⟨a, b, c, d, e, f⟩, g⟩; exact ⟨a, b, c, d, e, f, g⟩
  · rintro ⟨a, b, c, d, e, f, g⟩; exact ⟨⟨a, b, c, d, e, f⟩, g⟩
theorem mem_qubits_z {Lx Ly Lz : Nat} {x y z : Int} (hx : x % 2 = 0) (hy : y % 2 = 0)
    (hz : z % 2 = 1) : [x, y, z] ∈ qubits Lx Ly Lz ↔ Qz Lx Ly Lz x y z := by
  rw [mem_qubits, Planar3DCode.mem_qubits_z hx hy hz]; unfold Qz
  constructor
  · rintro ⟨⟨a, b, c, d, e, f⟩, g⟩; exact ⟨a, b, c, d, e, f, g⟩
  · rintro ⟨a, b, c, d, e, f, g⟩; exact ⟨⟨a, b, c, d, e, f⟩, g⟩

/-- a qubit has exactly one odd coordinate -/
theorem qubit_parity {Lx Ly Lz : Nat} {x y z : Int} (h : [x, y, z] ∈ qubits Lx Ly Lz) :
    (x % 2 = 1 ∧ y % 2 = 0 ∧ z % 2 = 0) ∨ (x % 2 = 0 ∧ y % 2 = 1 ∧ z % 2 = 0) ∨
    (x % 2 = 0 ∧ y % 2 = 0 ∧ z % 2 = 1) := by
  have := Planar3DCode.mem_qubits.mp (qubits_sub h)
  unfold inE inO inE2 inO1 at this
  omega

/-! ### counting -/

def holeX (Lx : Nat) (x : Int) : Bool := decide (x > 2) && decide (x < 2 * (Lx : Int) - 2)
def holeY (L : Nat) (y : Int) : Bool := decide (y ≥ 3) && decide (y < 2 * (L : Int) - 4)

theorem length_gridH (Lx Ly Lz : Nat) (xs ys zs : List Int) :
    (gridH Lx Ly Lz xs ys zs).length +
      (xs.filter (holeX Lx)).length * (ys.filter (holeY Ly)).length *
        (zs.filter (holeY Lz)).length = xs.length * ys.length * zs.length := by
  rw [gridH_eq, ← length_grid, ← length_grid,
    ← HollowPlanar3DCode.filter_grid_box xs ys zs (holeX Lx) (holeY Ly) (holeY Lz)
      (fun q => !notHoleC Lx Ly Lz q) (by intro x y z; simp [notHoleC, inHole, holeX, holeY])]
  have := List.length_eq_length_filter_add (l := grid xs ys zs) (notHoleC Lx Ly Lz)
  omega

open HollowPlanar3DCode (length_filter_range2)

theorem len_holeX_E2 (L : Nat) : ((range2 2 (2 * (L : Int))).filter (holeX L)).length = L - 3 := by
  rw [length_filter_range2 (a' := 4) (b' := 2 * (L : Int) - 2), length_range2]
  · omega
  · intro x; simp only [mem_range2, holeX, Bool.and_eq_true, decide_eq_true_eq]; omega

theorem len_holeX_O1 (L : Nat) :
    ((range2 1 (2 * (L : Int) + 1)).filter (holeX L)).length = L - 2 := by
  rw [length_filter_range2 (a' := 3) (b' := 2 * (L : Int) - 2), length_range2]
  · omega
  · intro x; simp only [mem_range2, holeX, Bool.and_eq_true, decide_eq_true_eq]; omega

theorem len_holeY_E (L : Nat) : ((range2 0 (2 * (L : Int))).filter (holeY L)).length = L - 4 := by
  rw [length_filter_range2 (a' := 4) (b' := 2 * (L : Int) - 4), length_range2]
  · omega
  · intro x; simp only [mem_range2, holeY, Bool.and_eq_true, decide_eq_true_eq]; omega

theorem len_holeY_O (L : Nat) :
    ((range2 1 (2 * (L : Int) - 1)).filter (holeY L)).length = L - 3 := by
  rw [length_filter_range2 (a' := 3) (b' := 2 * (L : Int) - 4), length_range2]
  · omega
  · intro x; simp only [mem_range2, holeY, Bool.and_eq_true, decide_eq_true_eq]; omega

open Planar3DCode (length_rangeE length_rangeO length_rangeE2 length_rangeO1) in
/-- `n` plus the number of removed edges is the `n` of `Planar3DCode` (x, y, z edges) -/
theorem qubits_length_add (Lx Ly Lz : Nat) : (qubits Lx Ly Lz).length +
    ((Lx - 2) * (Ly - 4) * (Lz - 4) + (Lx - 3) * (Ly - 3) * (Lz - 4) +
      (Lx - 3) * (Ly - 4) * (Lz - 3)) =
    Lx * Ly * Lz + (Lx - 1) * (Ly - 1) * Lz + (Lx - 1) * Ly * (Lz - 1) := by
  have h1 := length_gridH Lx Ly Lz (range2 1 (2 * (Lx : Int) + 1)) (range2 0 (2 * (Ly : Int)))
    (range2 0 (2 * (Lz : Int)))
  have h2 := length_gridH Lx Ly Lz (range2 2 (2 * (Lx : Int))) (range2 1 (2 * (Ly : Int) - 1))
    (range2 0 (2 * (Lz : Int)))
  have h3 := length_gridH Lx Ly Lz (range2 2 (2 * (Lx : Int))) (range2 0 (2 * (Ly : Int)))
    (range2 1 (2 * (Lz : Int) - 1))
  simp only [len_holeX_E2, len_holeX_O1, len_holeY_E, len_holeY_O, length_rangeE, length_rangeO,
    length_rangeE2, length_rangeO1] at h1 h2 h3
  simp only [qubits, List.length_append]
  omega

end Panqec.HollowRhombicCode
