/-
Color666PlanarCode, all sizes `L ≥ 1`: assembly of `Lattice.WF` and `Lattice.CommPair`.
Core Lean only.
-/
import PanqecVerif.Proofs.LatColor666PlanarCodeCountQ

set_option linter.unusedVariables false

namespace Panqec.Color666PlanarCode
open Panqec.Lat2D Panqec.Color

theorem stab_comm (L L' : Nat) :
    ∀ s ∈ (lattice L L').stabs, ∀ t ∈ (lattice L L').stabs,
      opCommute ((lattice L L').getStab s) ((lattice L L').getStab t) = true := by
  intro s hs t ht
  obtain ⟨ax, ay, p, rfl, ha, _⟩ := (mem_stabs (L' := L')).mp hs
  obtain ⟨bx, by', p', rfl, hb, _⟩ := (mem_stabs (L' := L')).mp ht
  rw [getStab_eq hs, getStab_eq ht]
  apply opCommute_const_of
  intro _
  exact face_face_even ha hb

theorem logX_comm {L L' : Nat} (hL : 1 ≤ L) :
    ∀ a ∈ (lattice L L').logX, ∀ s ∈ (lattice L L').stabs,
      opCommute a ((lattice L L').getStab s) = true := by
  intro a ha s hs
  obtain ⟨x, y, p, rfl, h, _⟩ := (mem_stabs (L' := L')).mp hs
  rw [getStab_eq hs]
  change a ∈ logX L L' at ha
  rw [logX_eq] at ha
  simp only [List.mem_cons, List.not_mem_nil, or_false] at ha
  subst ha
  apply opCommute_const_of; intro _
  rw [interCount_comm _ _ (nodup_kB L L') (nodup_supp ..)]; exact supp_kB hL h

theorem logZ_comm {L L' : Nat} (hL : 1 ≤ L) :
    ∀ a ∈ (lattice L L').logZ, ∀ s ∈ (lattice L L').stabs,
      opCommute a ((lattice L L').getStab s) = true := by
  intro a ha s hs
  obtain ⟨x, y, p, rfl, h, _⟩ := (mem_stabs (L' := L')).mp hs
  rw [getStab_eq hs]
  change a ∈ logZ L L' at ha
  rw [logZ_eq] at ha
  simp only [List.mem_cons, List.not_mem_nil, or_false] at ha
  subst ha
  apply opCommute_const_of; intro _
  rw [interCount_comm _ _ (nodup_kB L L') (nodup_supp ..)]; exact supp_kB hL h

theorem pairing {L L' : Nat} (hL : 1 ≤ L) :
    ∀ i j, i < (lattice L L').logX.length → j < (lattice L L').logZ.length →
      opAntiCount ((lattice L L').logX.getD i []) ((lattice L L').logZ.getD j []) % 2
        = if i = j then 1 else 0 := by
  intro i j hi hj
  change i < (logX L L').length at hi
  change j < (logZ L L').length at hj
  show opAntiCount ((logX L L').getD i []) ((logZ L L').getD j []) % 2 = _
  rw [logX_eq] at hi ⊢
  rw [logZ_eq] at hj ⊢
  simp only [List.length_cons, List.length_nil] at hi hj
  have hXZ : Pauli.anti Pauli.X Pauli.Z = true := by decide
  obtain rfl : i = 0 := by omega
  obtain rfl : j = 0 := by omega
  simp only [List.getD_cons_zero, opAntiCount_const, hXZ, if_true]
  rw [interCount_self, length_kB hL]
  omega

theorem commPair_all {L L' : Nat} (hL : 1 ≤ L) : (lattice L L').CommPair where
  stab_comm := stab_comm L L'
  logX_comm := logX_comm hL
  logZ_comm := logZ_comm hL
  same_k := rfl
  pairing := pairing hL
  logXX := by
    intro a ha b hb
    change a ∈ logX L L' at ha; change b ∈ logX L L' at hb
    rw [logX_eq] at ha hb
    simp only [List.mem_cons, List.not_mem_nil, or_false] at ha hb
    subst ha; subst hb; exact opCommute_same _ _ _
  logZZ := by
    intro a ha b hb
    change a ∈ logZ L L' at ha; change b ∈ logZ L L' at hb
    rw [logZ_eq] at ha hb
    simp only [List.mem_cons, List.not_mem_nil, or_false] at ha hb
    subst ha; subst hb; exact opCommute_same _ _ _

/-! ### well-formedness -/

theorem log_mem {L L' : Nat} {a : Op} (ha : a ∈ (lattice L L').logX ++ (lattice L L').logZ) :
    ∃ (P : Pauli), a = (kB L L').map (fun q => (q, P)) ∧ P ≠ Pauli.I := by
  change a ∈ logX L L' ++ logZ L L' at ha
  rw [logX_eq, logZ_eq] at ha
  simp only [List.cons_append, List.nil_append, List.mem_cons, List.not_mem_nil, or_false] at ha
  rcases ha with rfl | rfl
  · exact ⟨Pauli.X, rfl, by decide⟩
  · exact ⟨Pauli.Z, rfl, by decide⟩

theorem kB_qubits {L L' : Nat} : ∀ q ∈ kB L L', q ∈ qubits L L' := by
  intro q hq
  unfold kB at hq
  have := (List.mem_filter.mp hq).2
  unfold isQubit at this
  exact isIn_iff.mp this

theorem wf_all {L L' : Nat} (hL : 1 ≤ L) : (lattice L L').WF where
  qubits_nodup := nodup_qubits L L'
  stabs_nodup := nodup_stabs L L'
  disjoint := qubits_stabs_disjoint L L'
  stab_keys := by
    intro s hs
    obtain ⟨x, y, p, rfl, h, _⟩ := (mem_stabs (L' := L')).mp hs
    rw [getStab_eq hs, map_fst_const]
    exact nodup_supp ..
  stab_supported := by
    intro s hs e he
    obtain ⟨x, y, p, rfl, h, _⟩ := (mem_stabs (L' := L')).mp hs
    rw [getStab_eq hs] at he
    simp only [List.mem_map] at he
    obtain ⟨q, hq, rfl⟩ := he
    exact ⟨mem_qubits_faces.mpr ⟨x, y, h, hq⟩, letter_ne_I p⟩
  stab_nonempty := by
    intro s hs
    obtain ⟨x, y, p, rfl, h, _⟩ := (mem_stabs (L' := L')).mp hs
    rw [getStab_eq hs]
    intro hnil
    exact supp_nonempty h (List.map_eq_nil_iff.mp hnil)
  log_keys := by
    intro a ha
    obtain ⟨P, rfl, _⟩ := log_mem ha
    rw [map_fst_const]; exact nodup_kB L L'
  log_supported := by
    intro a ha e he
    obtain ⟨P, rfl, hP⟩ := log_mem ha
    simp only [List.mem_map] at he
    obtain ⟨q, hq, rfl⟩ := he
    exact ⟨kB_qubits q hq, hP⟩

end Panqec.Color666PlanarCode
