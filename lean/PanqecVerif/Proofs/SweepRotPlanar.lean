/-
Geometry of C10 on RotatedPlanar3DCode, for EVERY size L_x, L_y, L_z (no lower bound is
needed): on every edge `RotatedSweepDecoder3D.flip_edge` (branch on `z % 2`, `x % 4`, `y % 4`,
neighbour list, `is_stabilizer(·, 'face')` filter) toggles exactly the face stabilizers
(rows of type `'face'`, truncated at the boundaries by `is_qubit`) that contain the edge.  The
class is not periodic: `_wrap` is the identity (`rotSeam = false`).
-/
import PanqecVerif.Proofs.SweepRotPlanarBase

namespace Panqec.Sweep

set_option linter.unusedSimpArgs false
set_option linter.unusedVariables false
set_option linter.unusedSectionVars false

section
variable (Lx Ly Lz : Nat)

/-! ### `get_stabilizer` of the four kinds of stabilizer -/

/-- `get_stabilizer` of a horizontal face (z odd, `(x + y) % 4 = 0`): the four diagonal
    neighbours that are qubits -/
theorem rotPlanar_op_hface (a b c : Int) (pc : c % 2 = 1) (h4 : (a + b) % 4 = 0) :
    (rotPlanar3D Lx Ly Lz).stabOp (a, b, c) =
      ([((a - 1, b - 1, c), Pauli.X), ((a + 1, b + 1, c), Pauli.X), ((a - 1, b + 1, c), Pauli.X),
        ((a + 1, b - 1, c), Pauli.X)] : Op).filter
        (fun e => (rotPlanar3D Lx Ly Lz).qubits.contains e.1) ∧
    ([(a - 1, b - 1, c), (a + 1, b + 1, c), (a - 1, b + 1, c), (a + 1, b - 1, c)] : List Loc).Nodup := by
  have e02 : ((0 : Int) == 2) = false := by decide
  have hnd : ([(a - 1, b - 1, c), (a + 1, b + 1, c), (a - 1, b + 1, c), (a + 1, b - 1, c)] :
      List Loc).Nodup := by
    simp only [List.nodup_cons, List.mem_cons, List.not_mem_nil, or_false, Prod.mk.injEq,
      List.nodup_nil, and_true, not_or, true_and, not_false_eq_true]
    omega
  refine ⟨?_, hnd⟩
  simp only [rotPlanar3D, rotPlanarStabOp, rotIsFace, rotFaceDeltas, xyMod4, h4, pc, e02,
    beq_self_eq_true, Bool.false_and, Bool.not_false, if_true, List.map_cons, List.map_nil,
    addLoc, Int.add_zero]
  rw [show a + -1 = a - 1 from rfl, show b + -1 = b - 1 from rfl]
  exact buildOp_eq_filter _ _ (by simpa using hnd)

/-- `get_stabilizer` of a vertical face (z even) with `(x + y) % 4 = 0` -/
theorem rotPlanar_op_vface0 (a b c : Int) (pc : c % 2 = 0) (h4 : (a + b) % 4 = 0) :
    (rotPlanar3D Lx Ly Lz).stabOp (a, b, c) =
      ([((a - 1, b - 1, c), Pauli.X), ((a + 1, b + 1, c), Pauli.X), ((a, b, c - 1), Pauli.X),
        ((a, b, c + 1), Pauli.X)] : Op).filter
        (fun e => (rotPlanar3D Lx Ly Lz).qubits.contains e.1) ∧
    ([(a - 1, b - 1, c), (a + 1, b + 1, c), (a, b, c - 1), (a, b, c + 1)] : List Loc).Nodup := by
  have e02 : ((0 : Int) == 2) = false := by decide
  have e01 : ((0 : Int) == 1) = false := by decide
  have hnd : ([(a - 1, b - 1, c), (a + 1, b + 1, c), (a, b, c - 1), (a, b, c + 1)] :
      List Loc).Nodup := by
    simp only [List.nodup_cons, List.mem_cons, List.not_mem_nil, or_false, Prod.mk.injEq,
      List.nodup_nil, and_true, not_or, true_and, not_false_eq_true]
    omega
  refine ⟨?_, hnd⟩
  simp only [rotPlanar3D, rotPlanarStabOp, rotIsFace, rotFaceDeltas, xyMod4, h4, pc, e02, e01,
    beq_self_eq_true, Bool.false_and, Bool.and_false, Bool.not_false, if_true, if_false,
    Bool.false_eq_true, List.map_cons, List.map_nil, addLoc, Int.add_zero]
  rw [show a + -1 = a - 1 from rfl, show b + -1 = b - 1 from rfl, show c + -1 = c - 1 from rfl]
  exact buildOp_eq_filter _ _ (by simpa using hnd)

/-- `get_stabilizer` of a vertical face (z even) with `(x + y) % 4 = 2` -/
theorem rotPlanar_op_vface2 (a b c : Int) (pc : c % 2 = 0) (h4 : (a + b) % 4 = 2) :
    (rotPlanar3D Lx Ly Lz).stabOp (a, b, c) =
      ([((a - 1, b + 1, c), Pauli.X), ((a + 1, b - 1, c), Pauli.X), ((a, b, c - 1), Pauli.X),
        ((a, b, c + 1), Pauli.X)] : Op).filter
        (fun e => (rotPlanar3D Lx Ly Lz).qubits.contains e.1) ∧
    ([(a - 1, b + 1, c), (a + 1, b - 1, c), (a, b, c - 1), (a, b, c + 1)] : List Loc).Nodup := by
  have e20 : ((2 : Int) == 0) = false := by decide
  have e01 : ((0 : Int) == 1) = false := by decide
  have hnd : ([(a - 1, b + 1, c), (a + 1, b - 1, c), (a, b, c - 1), (a, b, c + 1)] :
      List Loc).Nodup := by
    simp only [List.nodup_cons, List.mem_cons, List.not_mem_nil, or_false, Prod.mk.injEq,
      List.nodup_nil, and_true, not_or, true_and, not_false_eq_true]
    omega
  refine ⟨?_, hnd⟩
  simp only [rotPlanar3D, rotPlanarStabOp, rotIsFace, rotFaceDeltas, xyMod4, h4, pc, e20, e01,
    beq_self_eq_true, Bool.true_and, Bool.false_and, Bool.and_false, Bool.not_false, if_true,
    if_false, Bool.false_eq_true, List.map_cons, List.map_nil, addLoc, Int.add_zero]
  rw [show a + -1 = a - 1 from rfl, show b + -1 = b - 1 from rfl, show c + -1 = c - 1 from rfl]
  exact buildOp_eq_filter _ _ (by simpa using hnd)

/-- `get_stabilizer` of a vertex (z odd, `(x + y) % 4 = 2`) has Z entries only -/
theorem rotPlanar_op_vertex (a b c : Int) (pc : c % 2 = 1) (h4 : (a + b) % 4 = 2) :
    ∀ e ∈ (rotPlanar3D Lx Ly Lz).stabOp (a, b, c), e.2 = Pauli.Z := by
  simp only [rotPlanar3D, rotPlanarStabOp, rotIsFace, xyMod4, h4, pc, beq_self_eq_true,
    Bool.and_self, Bool.not_true, Bool.false_eq_true, if_false]
  apply buildOp_all
  intro d hd
  simp only [rotVertexDeltasPlanar, List.map_cons, List.map_nil, List.mem_cons, List.not_mem_nil,
    or_false] at hd
  rcases hd with rfl | rfl | rfl | rfl | rfl | rfl <;> rfl

/-! ### one edge of each kind -/

/-- flipping a horizontal edge with `(x + y) % 4 = 2` (axis 'x') toggles exactly the faces
    containing it -/
theorem rotPlanar_flipOK_xedge (x y z : Int)
    (hq : 1 ≤ x ∧ x < 2 * (Lx : Int) ∧ x % 2 = 1 ∧ 1 ≤ y ∧ y < 2 * (Ly : Int) ∧ y % 2 = 1 ∧
      1 ≤ z ∧ z < 2 * (Lz : Int) ∧ z % 2 = 1) (h4 : (x + y) % 4 = 2) :
    flipOKRot (rotPlanar3D Lx Ly Lz) (flipFacesRot (rotPlanar3D Lx Ly Lz)) (x, y, z) = true := by
  have hqmem : (x, y, z) ∈ (rotPlanar3D Lx Ly Lz).qubits := by
    rw [show (rotPlanar3D Lx Ly Lz).qubits = rotPlanarQubits Lx Ly Lz from rfl, mem_rotPlanarQubits]
    left; omega
  have hfaces : flipFacesRot (rotPlanar3D Lx Ly Lz) (x, y, z) =
      some (([(x + 1, y + 1, z), (x - 1, y - 1, z), (x, y, z + 1), (x, y, z - 1)] : List Loc).filter
        (rotPlanar3D Lx Ly Lz).isStabFace) := by
    rw [flipFacesRot_noSeam _ rfl]
    rw [rotRaw_xedge x y z (by omega) (by omega) (by omega) h4]
    rfl
  apply flipOKRot_of_filterP _ _ _ _ _ hfaces
  · simp only [List.nodup_cons, List.mem_cons, List.not_mem_nil, or_false, Prod.mk.injEq,
      List.nodup_nil, and_true, not_or, true_and, not_false_eq_true]
    omega
  · rintro ⟨a, b, c⟩ hs
    rw [show (rotPlanar3D Lx Ly Lz).stabs = rotPlanarStabs Lx Ly Lz from rfl] at hs
    rw [rotPlanar_isStabFace_of_mem Lx Ly Lz _ hs]
    rw [mem_rotPlanarStabs] at hs
    rcases hs with hs | hs | hs
    · -- vertex
      rw [rotIsFace_vertex a b c (by omega) (by omega),
        faceHasRot_of_not_face _ _ _ (rotIsFace_vertex a b c (by omega) (by omega))]
      simp
    · -- horizontal face
      obtain ⟨hop, hnd⟩ := rotPlanar_op_hface Lx Ly Lz a b c (by omega) (by omega)
      rw [rotIsFace_hface a b c (by omega),
        faceHasRot_of_X_filter _ _ _ _ (rotIsFace_hface a b c (by omega)) hop (by simpa using hnd)
          (by simp) hqmem]
      simp only [List.map_cons, List.map_nil, List.mem_cons, List.not_mem_nil, or_false,
        Prod.mk.injEq, decide_eq_true_eq, and_true]
      constructor
      · rintro (h | h | h | h) <;> omega
      · rintro (h | h | h | h) <;> omega
    · -- vertical face
      have hcase : (a + b) % 4 = 0 ∨ (a + b) % 4 = 2 := by omega
      rw [rotIsFace_vface a b c (by omega)]
      rcases hcase with h4 | h4
      · obtain ⟨hop, hnd⟩ := rotPlanar_op_vface0 Lx Ly Lz a b c (by omega) h4
        rw [faceHasRot_of_X_filter _ _ _ _ (rotIsFace_vface a b c (by omega)) hop
          (by simpa using hnd) (by simp) hqmem]
        simp only [List.map_cons, List.map_nil, List.mem_cons, List.not_mem_nil, or_false,
          Prod.mk.injEq, decide_eq_true_eq, and_true]
        constructor
        · rintro (h | h | h | h) <;> omega
        · rintro (h | h | h | h) <;> omega
      · obtain ⟨hop, hnd⟩ := rotPlanar_op_vface2 Lx Ly Lz a b c (by omega) h4
        rw [faceHasRot_of_X_filter _ _ _ _ (rotIsFace_vface a b c (by omega)) hop
          (by simpa using hnd) (by simp) hqmem]
        simp only [List.map_cons, List.map_nil, List.mem_cons, List.not_mem_nil, or_false,
          Prod.mk.injEq, decide_eq_true_eq, and_true]
        constructor
        · rintro (h | h | h | h) <;> omega
        · rintro (h | h | h | h) <;> omega

/-- flipping a horizontal edge with `(x + y) % 4 = 0` (axis 'y') toggles exactly the faces
    containing it -/
theorem rotPlanar_flipOK_yedge (x y z : Int)
    (hq : 1 ≤ x ∧ x < 2 * (Lx : Int) ∧ x % 2 = 1 ∧ 1 ≤ y ∧ y < 2 * (Ly : Int) ∧ y % 2 = 1 ∧
      1 ≤ z ∧ z < 2 * (Lz : Int) ∧ z % 2 = 1) (h4 : (x + y) % 4 = 0) :
    flipOKRot (rotPlanar3D Lx Ly Lz) (flipFacesRot (rotPlanar3D Lx Ly Lz)) (x, y, z) = true := by
  have hqmem : (x, y, z) ∈ (rotPlanar3D Lx Ly Lz).qubits := by
    rw [show (rotPlanar3D Lx Ly Lz).qubits = rotPlanarQubits Lx Ly Lz from rfl, mem_rotPlanarQubits]
    left; omega
  have hfaces : flipFacesRot (rotPlanar3D Lx Ly Lz) (x, y, z) =
      some (([(x + 1, y - 1, z), (x - 1, y + 1, z), (x, y, z + 1), (x, y, z - 1)] : List Loc).filter
        (rotPlanar3D Lx Ly Lz).isStabFace) := by
    rw [flipFacesRot_noSeam _ rfl]
    rw [rotRaw_yedge x y z (by omega) (by omega) (by omega) h4]
    rfl
  apply flipOKRot_of_filterP _ _ _ _ _ hfaces
  · simp only [List.nodup_cons, List.mem_cons, List.not_mem_nil, or_false, Prod.mk.injEq,
      List.nodup_nil, and_true, not_or, true_and, not_false_eq_true]
    omega
  · rintro ⟨a, b, c⟩ hs
    rw [show (rotPlanar3D Lx Ly Lz).stabs = rotPlanarStabs Lx Ly Lz from rfl] at hs
    rw [rotPlanar_isStabFace_of_mem Lx Ly Lz _ hs]
    rw [mem_rotPlanarStabs] at hs
    rcases hs with hs | hs | hs
    · -- vertex
      rw [rotIsFace_vertex a b c (by omega) (by omega),
        faceHasRot_of_not_face _ _ _ (rotIsFace_vertex a b c (by omega) (by omega))]
      simp
    · -- horizontal face
      obtain ⟨hop, hnd⟩ := rotPlanar_op_hface Lx Ly Lz a b c (by omega) (by omega)
      rw [rotIsFace_hface a b c (by omega),
        faceHasRot_of_X_filter _ _ _ _ (rotIsFace_hface a b c (by omega)) hop (by simpa using hnd)
          (by simp) hqmem]
      simp only [List.map_cons, List.map_nil, List.mem_cons, List.not_mem_nil, or_false,
        Prod.mk.injEq, decide_eq_true_eq, and_true]
      constructor
      · rintro (h | h | h | h) <;> omega
      · rintro (h | h | h | h) <;> omega
    · -- vertical face
      have hcase : (a + b) % 4 = 0 ∨ (a + b) % 4 = 2 := by omega
      rw [rotIsFace_vface a b c (by omega)]
      rcases hcase with h4 | h4
      · obtain ⟨hop, hnd⟩ := rotPlanar_op_vface0 Lx Ly Lz a b c (by omega) h4
        rw [faceHasRot_of_X_filter _ _ _ _ (rotIsFace_vface a b c (by omega)) hop
          (by simpa using hnd) (by simp) hqmem]
        simp only [List.map_cons, List.map_nil, List.mem_cons, List.not_mem_nil, or_false,
          Prod.mk.injEq, decide_eq_true_eq, and_true]
        constructor
        · rintro (h | h | h | h) <;> omega
        · rintro (h | h | h | h) <;> omega
      · obtain ⟨hop, hnd⟩ := rotPlanar_op_vface2 Lx Ly Lz a b c (by omega) h4
        rw [faceHasRot_of_X_filter _ _ _ _ (rotIsFace_vface a b c (by omega)) hop
          (by simpa using hnd) (by simp) hqmem]
        simp only [List.map_cons, List.map_nil, List.mem_cons, List.not_mem_nil, or_false,
          Prod.mk.injEq, decide_eq_true_eq, and_true]
        constructor
        · rintro (h | h | h | h) <;> omega
        · rintro (h | h | h | h) <;> omega

/-- flipping a vertical edge (axis 'z') toggles exactly the four vertical faces around it that
    exist -/
theorem rotPlanar_flipOK_zedge (x y z : Int)
    (hq : 2 ≤ x ∧ x < 2 * (Lx : Int) ∧ x % 2 = 0 ∧ 0 ≤ y ∧ y < 2 * (Ly : Int) + 1 ∧ y % 2 = 0 ∧
      2 ≤ z ∧ z < 2 * (Lz : Int) ∧ z % 2 = 0 ∧ (x + y) % 4 = 2) :
    flipOKRot (rotPlanar3D Lx Ly Lz) (flipFacesRot (rotPlanar3D Lx Ly Lz)) (x, y, z) = true := by
  have hqmem : (x, y, z) ∈ (rotPlanar3D Lx Ly Lz).qubits := by
    rw [show (rotPlanar3D Lx Ly Lz).qubits = rotPlanarQubits Lx Ly Lz from rfl, mem_rotPlanarQubits]
    right; omega
  have hfaces : flipFacesRot (rotPlanar3D Lx Ly Lz) (x, y, z) =
      some (([(x + 1, y + 1, z), (x - 1, y - 1, z), (x - 1, y + 1, z), (x + 1, y - 1, z)] : List Loc).filter
        (rotPlanar3D Lx Ly Lz).isStabFace) := by
    rw [flipFacesRot_noSeam _ rfl]
    rw [rotRaw_zedge x y z (by omega)]
    rfl
  apply flipOKRot_of_filterP _ _ _ _ _ hfaces
  · simp only [List.nodup_cons, List.mem_cons, List.not_mem_nil, or_false, Prod.mk.injEq,
      List.nodup_nil, and_true, not_or, true_and, not_false_eq_true]
    omega
  · rintro ⟨a, b, c⟩ hs
    rw [show (rotPlanar3D Lx Ly Lz).stabs = rotPlanarStabs Lx Ly Lz from rfl] at hs
    rw [rotPlanar_isStabFace_of_mem Lx Ly Lz _ hs]
    rw [mem_rotPlanarStabs] at hs
    rcases hs with hs | hs | hs
    · -- vertex
      rw [rotIsFace_vertex a b c (by omega) (by omega),
        faceHasRot_of_not_face _ _ _ (rotIsFace_vertex a b c (by omega) (by omega))]
      simp
    · -- horizontal face
      obtain ⟨hop, hnd⟩ := rotPlanar_op_hface Lx Ly Lz a b c (by omega) (by omega)
      rw [rotIsFace_hface a b c (by omega),
        faceHasRot_of_X_filter _ _ _ _ (rotIsFace_hface a b c (by omega)) hop (by simpa using hnd)
          (by simp) hqmem]
      simp only [List.map_cons, List.map_nil, List.mem_cons, List.not_mem_nil, or_false,
        Prod.mk.injEq, decide_eq_true_eq, and_true]
      constructor
      · rintro (h | h | h | h) <;> omega
      · rintro (h | h | h | h) <;> omega
    · -- vertical face
      have hcase : (a + b) % 4 = 0 ∨ (a + b) % 4 = 2 := by omega
      rw [rotIsFace_vface a b c (by omega)]
      rcases hcase with h4 | h4
      · obtain ⟨hop, hnd⟩ := rotPlanar_op_vface0 Lx Ly Lz a b c (by omega) h4
        rw [faceHasRot_of_X_filter _ _ _ _ (rotIsFace_vface a b c (by omega)) hop
          (by simpa using hnd) (by simp) hqmem]
        simp only [List.map_cons, List.map_nil, List.mem_cons, List.not_mem_nil, or_false,
          Prod.mk.injEq, decide_eq_true_eq, and_true]
        constructor
        · rintro (h | h | h | h) <;> omega
        · rintro (h | h | h | h) <;> omega
      · obtain ⟨hop, hnd⟩ := rotPlanar_op_vface2 Lx Ly Lz a b c (by omega) h4
        rw [faceHasRot_of_X_filter _ _ _ _ (rotIsFace_vface a b c (by omega)) hop
          (by simpa using hnd) (by simp) hqmem]
        simp only [List.map_cons, List.map_nil, List.mem_cons, List.not_mem_nil, or_false,
          Prod.mk.injEq, decide_eq_true_eq, and_true]
        constructor
        · rintro (h | h | h | h) <;> omega
        · rintro (h | h | h | h) <;> omega

/-- GEOMETRY, all sizes: on every edge of `RotatedPlanar3DCode(L_x, L_y, L_z)`,
    `RotatedSweepDecoder3D.flip_edge` toggles exactly the face stabilizers that anticommute
    with Z on that edge. -/
theorem rotPlanar_flipTableOK :
    flipTableOKRot (rotPlanar3D Lx Ly Lz) (flipFacesRot (rotPlanar3D Lx Ly Lz)) = true := by
  unfold flipTableOKRot
  rw [List.all_eq_true]
  rintro ⟨x, y, z⟩ hq
  rw [show (rotPlanar3D Lx Ly Lz).qubits = rotPlanarQubits Lx Ly Lz from rfl, mem_rotPlanarQubits] at hq
  rcases hq with hq | hq
  · have hcase : (x + y) % 4 = 2 ∨ (x + y) % 4 = 0 := by omega
    rcases hcase with h4 | h4
    · exact rotPlanar_flipOK_xedge Lx Ly Lz x y z hq h4
    · exact rotPlanar_flipOK_yedge Lx Ly Lz x y z hq h4
  · exact rotPlanar_flipOK_zedge Lx Ly Lz x y z hq

end
end Panqec.Sweep
