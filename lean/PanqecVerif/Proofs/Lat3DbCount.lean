/-
Counting lemmas for the hand-written lattice models: length of a `grid3` whose filter depends on
`(x, y)` only, and the number of points of the checkerboard filter `(x + y) % 4 == 2`.
-/
import PanqecVerif.Proofs.Lat3DbCss
open Panqec Panqec.Lat3Db
namespace Panqec.Lat3Db

/-- sum over `x` of the number of `y` with `f x y` -/
def cnt2 (xs ys : List Int) (f : Int → Int → Bool) : Nat := (xs.map fun x => ys.countP (f x)).sum

theorem length_grid3_xy (xs ys zs : List Int) (f : Int → Int → Bool) :
    (grid3 xs ys zs fun x y _ => f x y).length = cnt2 xs ys f * zs.length := by
  unfold grid3 cnt2
  induction xs with
  | nil => simp
  | cons x xs ih =>
    have h2 : ∀ ys : List Int, (ys.flatMap fun y => (zs.filter fun _ => f x y).map fun z => [x, y, z]).length
        = ys.countP (f x) * zs.length := by
      intro ys
      induction ys with
      | nil => simp
      | cons y ys ih2 =>
        simp only [List.flatMap_cons, List.length_append, ih2, List.countP_cons, List.length_map]
        by_cases h : f x y = true
        · simp [h, Nat.add_mul, Nat.add_comm]
        · simp [h]
    simp only [List.flatMap_cons, List.length_append, ih, h2, List.map_cons, List.sum_cons, Nat.add_mul]

theorem countP_odd_range (n : Nat) : (List.range n).countP (fun j => j % 2 == 1) = n / 2 := by
  induction n with
  | zero => rfl
  | succ n ih =>
    rw [List.range_succ, List.countP_append, ih]
    simp only [List.countP_cons, List.countP_nil, beq_iff_eq]
    split <;> omega

theorem countP_even_range (n : Nat) : (List.range n).countP (fun j => j % 2 == 0) = (n + 1) / 2 := by
  induction n with
  | zero => rfl
  | succ n ih =>
    rw [List.range_succ, List.countP_append, ih]
    simp only [List.countP_cons, List.countP_nil, beq_iff_eq]
    split <;> omega

theorem pyRange2_eq_map (a b : Nat) :
    pyRange2 a b = (List.range ((b + 1 - a) / 2)).map fun i => ((a + 2 * i : Nat) : Int) := by
  unfold pyRange2
  apply List.ext_getElem
  · simp
  · intro i h1 h2
    simp


/-- number of `y` in `range(0, 2*Ly+1, 2)` with `(x + y) % 4 = 2`, for even `x` -/
theorem countP_mod4 (Ly : Nat) (x : Int) (hx : x % 2 = 0) :
    (pyRange2 0 (2*Ly+1)).countP (fun y => (x + y) % 4 == 2) = if x % 4 = 2 then Ly / 2 + 1 else (Ly + 1) / 2 := by
  rw [pyRange2_eq_map, List.countP_map]
  have hlen : (2 * Ly + 1 + 1 - 0) / 2 = Ly + 1 := by omega
  rw [hlen]
  by_cases h : x % 4 = 2
  · simp only [h, if_true]
    rw [List.countP_congr (q := fun j => j % 2 == 0), countP_even_range]
    · omega
    · intro j _; simp only [Function.comp, beq_iff_eq]; omega
  · simp only [h, if_false]
    rw [List.countP_congr (q := fun j => j % 2 == 1), countP_odd_range]
    intro j _; simp only [Function.comp, beq_iff_eq]; omega

theorem cnt2_checker (Lx Ly : Nat) :
    cnt2 (pyRange2 2 (2*Lx)) (pyRange2 0 (2*Ly+1)) (fun x y => (x + y) % 4 == 2) =
      (Lx / 2) * (Ly / 2 + 1) + ((Lx - 1) / 2) * ((Ly + 1) / 2) := by
  unfold cnt2
  rw [pyRange2_eq_map 2 (2*Lx), List.map_map]
  have hlen : (2 * Lx + 1 - 2) / 2 = Lx - 1 := by omega
  rw [hlen]
  have hf : ∀ i ∈ List.range (Lx - 1),
      ((fun x => (pyRange2 0 (2*Ly+1)).countP (fun y => (x + y) % 4 == 2)) ∘ fun i => ((2 + 2 * i : Nat) : Int)) i
        = if i % 2 = 0 then Ly / 2 + 1 else (Ly + 1) / 2 := by
    intro i _
    simp only [Function.comp]
    rw [countP_mod4 Ly _ (by omega)]
    by_cases h : i % 2 = 0
    · have : ((2 + 2 * i : Nat) : Int) % 4 = 2 := by omega
      rw [if_pos this, if_pos h]
    · have : ¬ ((2 + 2 * i : Nat) : Int) % 4 = 2 := by omega
      rw [if_neg this, if_neg h]
  rw [List.map_congr_left hf]
  generalize Ly / 2 + 1 = A
  generalize (Ly + 1) / 2 = B
  have key : ∀ m, ((List.range m).map fun i => if i % 2 = 0 then A else B).sum = ((m + 1) / 2) * A + (m / 2) * B := by
    intro m
    induction m with
    | zero => simp
    | succ m ih =>
      rw [List.range_succ, List.map_append, List.sum_append, ih]
      simp only [List.map_cons, List.map_nil, List.sum_cons, List.sum_nil, Nat.add_zero]
      have hm : ∃ t, m = 2 * t ∨ m = 2 * t + 1 := ⟨m / 2, by omega⟩
      obtain ⟨t, ht | ht⟩ := hm
      · subst ht
        have e1 : (2 * t + 1) / 2 = t := by omega
        have e2 : (2 * t) / 2 = t := by omega
        have e3 : (2 * t + 1 + 1) / 2 = t + 1 := by omega
        have e4 : (2 * t) % 2 = 0 := by omega
        rw [e1, e2, e3]; simp only [e4, if_true]
        rw [Nat.add_mul]; omega
      · subst ht
        have e1 : (2 * t + 1 + 1) / 2 = t + 1 := by omega
        have e2 : (2 * t + 1) / 2 = t := by omega
        have e3 : (2 * t + 1 + 1 + 1) / 2 = t + 1 := by omega
        have e4 : ¬ (2 * t + 1) % 2 = 0 := by omega
        rw [e1, e2, e3]; simp only [e4, if_false]
        rw [Nat.add_mul, Nat.add_mul]; omega
  rw [key]
  have : (Lx - 1 + 1) / 2 = Lx / 2 ∨ Lx = 0 := by omega
  rcases this with h | h
  · rw [h]
  · subst h; simp

end Panqec.Lat3Db
