/-
Soundness of the kernel-efficient checker: `checkValidFast c rc = true → ValidCodeL …`
(the same conclusion as `checkValid_sound`), and `reportedDistanceFast = reportedDistanceOK`.
Helper lemmas: Proofs/Mask3.lean (lanes), Proofs/Mask4.lean (batched primitives).
Core Lean only.
-/
import PanqecVerif.Proofs.Mask
import PanqecVerif.Proofs.Mask4

namespace Panqec

theorem mem_map_unpack (w : Nat) (xs : List Nat) (a : List Nat)
    (h : a ∈ xs.map (unpackBits w)) : ∃ i, i < xs.length ∧ a = unpackBits w (xs.getD i 0) := by
  obtain ⟨x, hx, rfl⟩ := List.mem_map.mp h
  obtain ⟨i, hi, rfl⟩ := List.mem_iff_getElem.mp hx
  exact ⟨i, hi, by simp [List.getD_eq_getElem?_getD, hi]⟩

/-- `zeroRows`: everything in `ds` commutes with every row (membership form) -/
theorem zeroRows_comm (s n : Nat) (hn : 2 * n ≤ 2 ^ s) (rows ds : List Nat) (k : Nat)
    (h : zeroRows s n (2 ^ n) (repunit (2 ^ 2 ^ s) rows.length) (packLanes (2 ^ 2 ^ s) rows)
      ds k = true) :
    ∀ l ∈ ds.map (unpackBits (2 * n)), ∀ g ∈ rows.map (unpackBits (2 * n)), symp l g = 0 := by
  intro l hl g hg
  obtain ⟨d, hd, rfl⟩ := List.mem_map.mp hl
  obtain ⟨i, hi, rfl⟩ := mem_map_unpack _ _ _ hg
  rw [symp_comm]
  exact zeroRows_sound s n (2 ^ s) rfl hn rows ds k h d hd i hi

/-- the kernel-efficient rank certificate check -/
theorem rankFast_sound (n k s : Nat) (hn : 2 * n ≤ 2 ^ s) (stabs basis dual combo : List Nat)
    (hfit : ∀ r ∈ stabs, r < 2 ^ (2 * n))
    (hsub : basis.Sublist stabs)
    (hlen : basis.length + k = n)
    (hdl : dual.length = basis.length)
    (hdual : deltaRows s n (2 ^ n) (2 ^ 2 ^ s) (repunit (2 ^ 2 ^ s) basis.length)
      (packLanes (2 ^ 2 ^ s) basis) dual 0 1 = true)
    (hcl : combo.length = stabs.length)
    (hcombo : comboAcc (repunit (2 ^ 2 ^ s) stabs.length) basis (packLanes (2 ^ 2 ^ s) combo) =
      packLanes (2 ^ 2 ^ s) stabs) :
    HasRank (2 * n) (stabs.map (unpackBits (2 * n))) (n - k) := by
  have hL : 0 < 2 ^ s := Nat.two_pow_pos s
  refine ⟨basis.map (unpackBits (2 * n)), hsub.map _, by simp; omega, ?_, ?_⟩
  · -- independence from the dual certificate
    apply indep_of_dual n _ (dual.map (unpackBits (2 * n))) (wfRows_map_unpack n basis)
    · simp [hdl]
    · intro i j hi hj
      have hi' : i < basis.length := by simpa using hi
      have hj' : j < dual.length := by simpa using hj
      rw [getD_map_unpack _ _ _ hi', getD_map_unpack _ _ _ hj']
      exact deltaRows_sound0 s n (2 ^ s) rfl hn basis dual 0 hdual i j hi' hj'
  · -- every generator is a combination of the picked ones
    have hbfit : ∀ b ∈ basis, b < 2 ^ 2 ^ s := fun b hb =>
      Nat.lt_of_lt_of_le (hfit b (hsub.subset hb)) (Nat.pow_le_pow_right (by omega) hn)
    have hacc := comboAcc_eq (2 ^ s) hL combo basis 0 (by omega) hbfit
    rw [Nat.shiftRight_zero, hcl, hcombo] at hacc
    have hinj := packLanes_inj (2 ^ 2 ^ s) (Nat.two_pow_pos _) _ _ (by simp [hcl]) hacc
    intro v hv
    obtain ⟨i, hi, rfl⟩ := mem_map_unpack _ _ _ hv
    have h1 := hinj i
    rw [getD_map_zero, if_pos (by omega), Nat.shiftRight_zero] at h1
    refine ⟨selBits basis.length (combo.getD i 0), by simp [selBits_length], ?_⟩
    rw [← unpackBits_xorSelect]
    exact (unpackBits_congr_mod (2 * n) (2 ^ s) _ _ hn h1).symm

/-! ### MAIN: soundness of `checkValidFast` -/

/-- If the kernel-efficient checker accepts the packed code (with some rank certificate),
    the unpacked rows form a valid `[[n, k]]` stabilizer code in the sense of `ValidCodeL`. -/
theorem checkValidFast_sound (c : MaskCode) (rc : RankCert) (h : checkValidFast c rc = true) :
    ValidCodeL c.n c.k (c.stabs.map (unpackBits (2 * c.n)))
      (c.logX.map (unpackBits (2 * c.n))) (c.logZ.map (unpackBits (2 * c.n))) := by
  have hn : 2 * c.n ≤ 2 ^ foldsFor (2 * c.n) := le_two_pow_foldsFor (2 * c.n)
  simp only [checkValidFast, Bool.and_eq_true, beq_iff_eq] at h
  obtain ⟨⟨⟨⟨⟨⟨⟨⟨⟨⟨⟨⟨⟨hfS, hkX⟩, hkZ⟩, hlen⟩, hSS⟩, hXS⟩, hZS⟩, hP⟩, hXX⟩, hZZ⟩, hdl⟩, hdual⟩,
    hcl⟩, hcombo⟩ := h
  have hrank := rankFast_sound c.n c.k _ hn c.stabs _ rc.dual rc.combo (rowsFit_sound _ _ hfS)
    (pickSorted_sublist c.stabs rc.basisIdx 0) hlen hdl hdual hcl hcombo
  exact {
    wfH := wfRows_map_unpack _ _
    wfX := wfRows_map_unpack _ _
    wfZ := wfRows_map_unpack _ _
    kX := by simpa using hkX
    kZ := by simpa using hkZ
    stab_comm := zeroRows_comm _ _ hn _ _ _ hSS
    logX_comm := zeroRows_comm _ _ hn _ _ _ hXS
    logZ_comm := zeroRows_comm _ _ hn _ _ _ hZS
    pairing := fun i j hi hj => by
      have hi' : i < c.logX.length := by omega
      have hj' : j < c.logZ.length := by omega
      rw [getD_map_unpack _ _ _ hi', getD_map_unpack _ _ _ hj', symp_comm,
        deltaRows_sound0 _ c.n _ rfl hn c.logZ c.logX 0 hP j i hj' hi']
      by_cases hij : i = j
      · simp [hij]
      · have : ¬ j = i := fun h => hij h.symm
        simp [hij, this]
    logXX := zeroRows_comm _ _ hn _ _ _ hXX
    logZZ := zeroRows_comm _ _ hn _ _ _ hZZ
    rank := hrank
    k_le := by omega }

/-- distance: the fast check gives the same conclusion as `reportedDistanceOK_sound` -/
theorem reportedDistanceFast_sound (c : MaskCode) (rc : RankCert)
    (hv : checkValidFast c rc = true) (h : reportedDistanceFast c = true) :
    distance (c.logX.map (unpackBits (2 * c.n))) (c.logZ.map (unpackBits (2 * c.n)))
      = some c.d := by
  rw [reportedDistanceFast_eq] at h
  have hV := checkValidFast_sound c rc hv
  have hlen : c.logX.length = c.logZ.length := by
    have h1 := hV.kX; have h2 := hV.kZ
    simp only [List.length_map] at h1 h2
    omega
  -- `reportedDistanceOK_sound` does not use its `rowsFit` hypotheses; go through the
  -- hypothesis-free core of its proof
  have hw : weightMask c.n = fun a => rowWeight (unpackBits (2 * c.n) a) :=
    funext (weightMask_eq' c.n)
  unfold reportedDistanceOK at h
  rw [hw] at h
  unfold distance
  simp only [List.map_map]
  cases hx : c.logX with
  | nil =>
    cases hz : c.logZ with
    | nil => simp [hx, hz, listMin] at h
    | cons z zs => simp [hx, hz] at hlen
  | cons x xs =>
    cases hz : c.logZ with
    | nil => simp [hx, hz] at hlen
    | cons z zs =>
      rw [hx, hz, List.map_append, List.map_cons, List.map_cons, listMin_append_cons] at h
      simp only [beq_iff_eq] at h
      simp only [List.map_cons, listMin, Function.comp_def]
      rw [← h]

/-- what an instance theorem `all.all (fun p => checkValidFast p.1 p.2 &&
    reportedDistanceFast p.1) = true` gives for each listed instance -/
theorem instances_sound (all : List (MaskCode × RankCert))
    (h : (all.all fun p => checkValidFast p.1 p.2 && reportedDistanceFast p.1) = true) :
    ∀ p ∈ all,
      ValidCodeL p.1.n p.1.k (p.1.stabs.map (unpackBits (2 * p.1.n)))
        (p.1.logX.map (unpackBits (2 * p.1.n))) (p.1.logZ.map (unpackBits (2 * p.1.n))) ∧
      distance (p.1.logX.map (unpackBits (2 * p.1.n))) (p.1.logZ.map (unpackBits (2 * p.1.n)))
        = some p.1.d := by
  intro p hp
  have := List.all_eq_true.mp h p hp
  simp only [Bool.and_eq_true] at this
  exact ⟨checkValidFast_sound _ _ this.1, reportedDistanceFast_sound _ _ this.1 this.2⟩

/-! ### non-vacuity -/

example : checkValidFast code422 cert422 = true := by decide
example : reportedDistanceFast code422 = true := by decide
example : checkValidFast { code422 with stabs := [0x0F, 0xF0, 0xFF] }
    { basisIdx := [0, 1], dual := [0x10, 0x01], combo := [1, 2, 3] } = true := by decide
/-- swapped logical Z's -/
example : checkValidFast { code422 with logZ := [0x30, 0x50] } cert422 = false := by decide
/-- anticommuting generators -/
example : checkValidFast { code422 with stabs := [0x0F, 0x10] } cert422 = false := by decide
/-- wrong dual certificate -/
example : checkValidFast code422 { cert422 with dual := [0x01, 0x10] } = false := by decide
/-- unsorted basis indices pick fewer rows: the count fails -/
example : checkValidFast code422 { basisIdx := [1, 0], dual := [0x01, 0x10], combo := [2, 1] }
    = false := by decide
/-- wrong combo (generator 1 claimed to be generator 0) -/
example : checkValidFast code422 { cert422 with combo := [1, 1] } = false := by decide
/-- a logical that anticommutes with a generator -/
example : checkValidFast { code422 with logX := [0x01, 0x05] } cert422 = false := by decide
example : reportedDistanceFast { code422 with d := 3 } = false := by decide

end Panqec
