/-
`HollowRhombicCode`, `Lx, Ly ≥ 1`, `Lz ≥ 3`: `Lattice.WF` and `Lattice.CommPair`.  Core Lean only.
-/
import PanqecVerif.Proofs.LatHollowRhombicCodeD

set_option linter.unusedVariables false
set_option linter.unusedSimpArgs false
set_option linter.unusedSectionVars false

namespace Panqec.HollowRhombicCode
open Panqec.Cubic3D
open Panqec.Planar3DCode (inE inO inE2 inO1)

/-- a listed cube has at least one key: the x edge `(cx, y', cz ± 1)` or the z edge `(cx ± 1, y', cz)`
    on a side where the cube sticks out of the hole -/
theorem cubeKeys_ne_nil {Lx Ly Lz : Nat} (hy : 1 ≤ Ly) {cx cy cz : Int}
    (hc : CubeLoc Lx Ly Lz cx cy cz) : cubeKeys Lx Ly Lz cx cy cz ≠ [] := by
  unfold CubeLoc at hc
  obtain ⟨c1, c2, c3, c4, c5⟩ := hc
  have hpc : cx % 2 = 1 ∧ cy % 2 = 1 ∧ cz % 2 = 1 := ⟨c1.2.2, c2.2.2, c3.2.2⟩
  -- it suffices to name one candidate that is a qubit
  suffices h : ∃ a b c, [a, b, c] ∈ cubeCands cx cy cz ∧ [a, b, c] ∈ qubits Lx Ly Lz by
    obtain ⟨a, b, c, h1, h2⟩ := h
    intro he
    have : [a, b, c] ∈ cubeKeys Lx Ly Lz cx cy cz := List.mem_filter.mpr ⟨h1, isq_iff.mpr h2⟩
    rw [he] at this
    exact absurd this (by simp)
  -- an x edge `(cx, y', z')` with `y' = cy ± 1` inside the lattice
  have xedge : ∀ y' z', (y' = cy + 1 ∨ y' = cy - 1) → (z' = cz + 1 ∨ z' = cz - 1) →
      0 ≤ y' → y' < 2 * (Ly : Int) → ¬ Hole Lx Ly Lz cx y' z' →
      ∃ a b c, [a, b, c] ∈ cubeCands cx cy cz ∧ [a, b, c] ∈ qubits Lx Ly Lz := by
    intro y' z' hy' hz' h0 h1 hh
    refine ⟨cx, y', z', (mem_cubeCands_x hpc c1.2.2 (by omega) (by omega)).mpr ⟨rfl, hy', hz'⟩, ?_⟩
    rw [mem_qubits_x c1.2.2 (by omega) (by omega)]
    unfold Qx
    exact ⟨by omega, by omega, h0, h1, by omega, by omega, hh⟩
  -- a z edge `(x', y', cz)`
  have zedge : ∀ x' y', (x' = cx + 1 ∨ x' = cx - 1) → (y' = cy + 1 ∨ y' = cy - 1) →
      2 ≤ x' → x' < 2 * (Lx : Int) → 0 ≤ y' → y' < 2 * (Ly : Int) → ¬ Hole Lx Ly Lz x' y' cz →
      ∃ a b c, [a, b, c] ∈ cubeCands cx cy cz ∧ [a, b, c] ∈ qubits Lx Ly Lz := by
    intro x' y' hx' hy' h0 h1 h2 h3 hh
    refine ⟨x', y', cz, (mem_cubeCands_z hpc (by omega) (by omega) c3.2.2).mpr ⟨rfl, hx', hy'⟩, ?_⟩
    rw [mem_qubits_z (by omega) (by omega) c3.2.2]
    unfold Qz
    exact ⟨h0, h1, h2, h3, by omega, by omega, hh⟩
  by_cases hlow : 0 ≤ cy - 1
  · -- `y' = cy − 1` is inside the lattice
    by_cases h1 : Hole Lx Ly Lz cx (cy - 1) (cz + 1)
    · by_cases h2 : Hole Lx Ly Lz cx (cy - 1) (cz - 1)
      · by_cases h3 : Hole Lx Ly Lz (cx - 1) (cy - 1) cz
        · by_cases h4 : Hole Lx Ly Lz (cx + 1) (cy - 1) cz
          · -- the whole lower side is in the hole: the upper side is not
            have h5 : ¬ Hole Lx Ly Lz cx (cy + 1) (cz + 1) := by
              intro h5
              apply c5
              unfold Hole at *
              omega
            exact xedge (cy + 1) (cz + 1) (Or.inl rfl) (Or.inl rfl) (by omega)
              (by unfold Hole at h1; omega) h5
          · exact zedge (cx + 1) (cy - 1) (Or.inl rfl) (Or.inr rfl) (by omega)
              (by unfold Hole at h1; omega) (by omega) (by omega) h4
        · exact zedge (cx - 1) (cy - 1) (Or.inr rfl) (Or.inr rfl) (by unfold Hole at h1; omega)
            (by omega) (by omega) (by omega) h3
      · exact xedge (cy - 1) (cz - 1) (Or.inr rfl) (Or.inr rfl) (by omega) (by omega) h2
    · exact xedge (cy - 1) (cz + 1) (Or.inr rfl) (Or.inl rfl) (by omega) (by omega) h1
  · -- `cy = −1`: the x edge `(cx, 0, cz + 1)` is outside the hole
    exact xedge (cy + 1) (cz + 1) (Or.inl rfl) (Or.inl rfl) (by omega) (by omega)
      (by unfold Hole; omega)

theorem triKeys_ne_nil {Lx Ly Lz : Nat} {a x y z : Int} (hv : VertexLoc Lx Ly Lz x y z)
    (hk : TriKeep Lx Ly Lz (TX Lx Ly Lz a x y z) (TY Lx Ly Lz a x y z) (TZ Lx Ly Lz a x y z) x y z) :
    triKeys Lx Ly Lz a x y z ≠ [] := by
  unfold VertexLoc inE2 inE at hv
  rw [triKeys_eq hv.1.2.2 hv.2.1.2.2 hv.2.2.2.2]
  unfold TriKeep at hk
  rcases hk.1 with h | h | h
  · simp [h.1]
  · simp [h.1]
  · simp [h.1]

section
variable {Lx Ly Lz : Nat} (hx : 1 ≤ Lx) (hy : 1 ≤ Ly) (hz : 3 ≤ Lz)
include hx hy hz

theorem wf_all : (lattice Lx Ly Lz).WF where
  qubits_nodup := qubits_nodup Lx Ly Lz
  stabs_nodup := nodup_stabs Lx Ly Lz
  disjoint := qubits_stabs_disjoint
  stab_keys := by
    intro s hs
    rcases mem_stabs.mp hs with ⟨x, y, z, rfl, hc⟩ | ⟨a, x, y, z, rfl, ha, hv, hk⟩
    · rw [getStab_cube', uop_keys]; exact nodup_cubeKeys _ _ _ _ _ _
    · rw [getStab_tri' _ _ _ ha, uop_keys]; exact nodup_triKeys _ _ _ _ _ _ _
  stab_supported := by
    intro s hs e he
    rcases mem_stabs.mp hs with ⟨x, y, z, rfl, hc⟩ | ⟨a, x, y, z, rfl, ha, hv, hk⟩
    · rw [getStab_cube'] at he
      obtain ⟨h1, h2⟩ := mem_uop.mp he
      exact ⟨isq_iff.mp (List.mem_filter.mp h1).2, by rw [h2]; decide⟩
    · rw [getStab_tri' _ _ _ ha] at he
      obtain ⟨h1, h2⟩ := mem_uop.mp he
      exact ⟨isq_iff.mp (List.mem_filter.mp h1).2, by rw [h2]; decide⟩
  stab_nonempty := by
    intro s hs
    rcases mem_stabs.mp hs with ⟨x, y, z, rfl, hc⟩ | ⟨a, x, y, z, rfl, ha, hv, hk⟩
    · rw [getStab_cube']
      intro h
      exact cubeKeys_ne_nil hy hc (List.map_eq_nil_iff.mp h)
    · rw [getStab_tri' _ _ _ ha]
      intro h
      exact triKeys_ne_nil hv hk (List.map_eq_nil_iff.mp h)
  log_keys := by
    intro a ha
    have ha' : a ∈ logX Lx Ly Lz ++ logZ Lx Ly Lz := ha
    rw [logX_eq, logZ_eq] at ha'
    simp only [List.mem_append, List.mem_cons, List.not_mem_nil, or_false] at ha'
    rcases ha' with rfl | rfl
    · rw [uop_keys]; exact (nodup_sheetCands Lx Ly).filter _
    · rw [uop_keys]; exact nodup_lineKeys Lx Ly Lz
  log_supported := by
    intro a ha e he
    have ha' : a ∈ logX Lx Ly Lz ++ logZ Lx Ly Lz := ha
    rw [logX_eq, logZ_eq] at ha'
    simp only [List.mem_append, List.mem_cons, List.not_mem_nil, or_false] at ha'
    rcases ha' with rfl | rfl
    · obtain ⟨h1, h2⟩ := mem_uop.mp he
      exact ⟨isq_iff.mp (List.mem_filter.mp h1).2, by rw [h2]; decide⟩
    · obtain ⟨h1, h2⟩ := mem_uop.mp he
      exact ⟨lineKeys_sub hx hy _ h1, by rw [h2]; decide⟩

theorem commPair_all : (lattice Lx Ly Lz).CommPair where
  stab_comm := stab_comm_all Lx Ly Lz
  logX_comm := by
    intro a ha s hs
    have ha' : a ∈ logX Lx Ly Lz := ha
    rw [logX_eq] at ha'
    simp only [List.mem_cons, List.not_mem_nil, or_false] at ha'
    subst ha'
    rcases mem_stabs.mp hs with ⟨x, y, z, rfl, hc⟩ | ⟨a, x, y, z, rfl, ha, hv, hk⟩
    · rw [getStab_cube']; exact opCommute_uop_same _ _ _
    · rw [getStab_tri' _ _ _ ha]
      apply opCommute_uop_of_even
      have hn : (sheetKeys Lx Ly Lz).Nodup := (nodup_sheetCands Lx Ly).filter _
      rw [ov_comm hn (nodup_triKeys _ _ _ _ _ _ _)]
      exact sheet_tri_even ha hv hk
  logZ_comm := by
    intro a ha s hs
    have ha' : a ∈ logZ Lx Ly Lz := ha
    rw [logZ_eq] at ha'
    simp only [List.mem_cons, List.not_mem_nil, or_false] at ha'
    subst ha'
    rcases mem_stabs.mp hs with ⟨x, y, z, rfl, hc⟩ | ⟨a, x, y, z, rfl, ha, hv, hk⟩
    · rw [getStab_cube']
      apply opCommute_uop_of_even
      exact line_cube_even hx hy hc
    · rw [getStab_tri' _ _ _ ha]; exact opCommute_uop_same _ _ _
  same_k := rfl
  pairing := by
    intro i j hi hj
    have hi' : i < 1 := hi
    have hj' : j < 1 := hj
    have e1 : i = 0 := by omega
    have e2 : j = 0 := by omega
    subst e1 e2
    show opAntiCount ((logX Lx Ly Lz).getD 0 []) ((logZ Lx Ly Lz).getD 0 []) % 2 = 1
    rw [logX_eq, logZ_eq]
    show opAntiCount (uop (sheetKeys Lx Ly Lz) Pauli.X) (uop (lineKeys Lx Ly Lz) Pauli.Z) % 2 = 1
    rw [opAntiCount_uop, sheet_line_one hx hy hz]
    rfl
  logXX := by
    intro a ha b hb
    have ha' : a ∈ logX Lx Ly Lz := ha
    have hb' : b ∈ logX Lx Ly Lz := hb
    rw [logX_eq] at ha' hb'
    simp only [List.mem_cons, List.not_mem_nil, or_false] at ha' hb'
    subst ha' hb'
    exact opCommute_uop_same _ _ _
  logZZ := by
    intro a ha b hb
    have ha' : a ∈ logZ Lx Ly Lz := ha
    have hb' : b ∈ logZ Lx Ly Lz := hb
    rw [logZ_eq] at ha' hb'
    simp only [List.mem_cons, List.not_mem_nil, or_false] at ha' hb'
    subst ha' hb'
    exact opCommute_uop_same _ _ _

end

end Panqec.HollowRhombicCode
