/-
Color488Code, all sizes `Lx, Ly ≥ 1` (`x` is taken modulo `8Lx`, `y` modulo `8Ly`): arithmetic description of the face list, of
`get_stabilizer` (wrapped square / octagon corners, no duplicate keys), and of the DERIVED qubit
list (closed form `IsQ`).  Wrap-around is handled algebraically: `(a + d) % m = (b + d') % m` iff
`(b − a) % m = (d − d') % m`, and `k % m` is known for the small constants `k`.  Core Lean only.
-/
import PanqecVerif.Proofs.ColorBase
import PanqecVerif.Model.Lattices.Color488Code

set_option linter.unusedVariables false

namespace Panqec.Color488Code
open Panqec.Lat2D Panqec.Color

/-! ### wrap-around -/

theorem emod_zero_neg {x m : Int} (h : x % m = 0) : (-x) % m = 0 :=
  Int.emod_eq_zero_of_dvd (Int.dvd_neg.mpr (Int.dvd_of_emod_eq_zero h))

/-- two wrapped coordinates agree iff the offsets of the two base points agree modulo the period -/
theorem emod_bridge (a b d d' m : Int) :
    (a + d) % m = (b + d') % m ↔ (b - a) % m = (d - d') % m := by
  rw [Int.emod_eq_emod_iff_emod_sub_eq_zero, Int.emod_eq_emod_iff_emod_sub_eq_zero]
  have e : b - a - (d - d') = -(a + d - (b + d')) := by omega
  rw [e]
  constructor
  · exact emod_zero_neg
  · intro h; have := emod_zero_neg h; rwa [Int.neg_neg] at this

theorem emod_small {k m : Int} (h0 : 0 ≤ k) (h : k < m) : k % m = k := Int.emod_eq_of_lt h0 h

theorem emod_neg_small {k m : Int} (h0 : k < 0) (h : -m ≤ k) : k % m = k + m := by
  rw [← Int.add_emod_right k m]
  exact Int.emod_eq_of_lt (by omega) (by omega)

/-- `k % (8L)` for the differences of two deltas -/
structure Consts (m : Int) : Prop where
  c0 : (0 : Int) % m = 0
  c2 : (2 : Int) % m = 2
  c4 : (4 : Int) % m = 4
  c6 : (6 : Int) % m = 6
  n2 : (-2 : Int) % m = m - 2
  n4 : (-4 : Int) % m = m - 4
  n6 : (-6 : Int) % m = m - 6

theorem consts {L : Nat} (hL : 1 ≤ L) : Consts (8 * (L : Int)) where
  c0 := by simp
  c2 := emod_small (by omega) (by omega)
  c4 := emod_small (by omega) (by omega)
  c6 := emod_small (by omega) (by omega)
  n2 := by rw [emod_neg_small (by omega) (by omega)]; omega
  n4 := by rw [emod_neg_small (by omega) (by omega)]; omega
  n6 := by rw [emod_neg_small (by omega) (by omega)]; omega

theorem emod_range {L : Nat} (hL : 1 ≤ L) (v : Int) :
    0 ≤ v % (8 * (L : Int)) ∧ v % (8 * (L : Int)) < 8 * (L : Int) ∧
      (v % (8 * (L : Int))) % 8 = v % 8 :=
  ⟨Int.emod_nonneg _ (by omega), Int.emod_lt_of_pos _ (by omega),
    Int.emod_emod_of_dvd _ ⟨(L : Int), rfl⟩⟩

/-! ### faces -/

/-- `(x, y)` is the centre of a face (the seam rows `x = 8Lx`, `y = 8Ly` included) -/
def IsF (Lx Ly : Nat) (x y : Int) : Prop :=
  x % 4 = 0 ∧ y % 4 = 0 ∧ 0 ≤ x ∧ x ≤ 8 * (Lx : Int) ∧ 0 ≤ y ∧ y ≤ 8 * (Ly : Int)

/-- `(a, b)` is a qubit coordinate (closed form of the derived list): a corner of a square -/
def IsQ (Lx Ly : Nat) (a b : Int) : Prop :=
  0 ≤ a ∧ a < 8 * (Lx : Int) ∧ 0 ≤ b ∧ b < 8 * (Ly : Int) ∧
    (((a % 8 = 1 ∨ a % 8 = 7) ∧ (b % 8 = 1 ∨ b % 8 = 7)) ∨
     ((a % 8 = 3 ∨ a % 8 = 5) ∧ (b % 8 = 3 ∨ b % 8 = 5)))

instance (Lx Ly : Nat) (x y : Int) : Decidable (IsF Lx Ly x y) := by unfold IsF; infer_instance
instance (Lx Ly : Nat) (x y : Int) : Decidable (IsQ Lx Ly x y) := by unfold IsQ; infer_instance

theorem mem_faces {Lx Ly : Nat} {q : Coord} :
    q ∈ faces Lx Ly ↔ ∃ x y, q = [x, y] ∧ IsF Lx Ly x y := by
  unfold faces IsF
  simp only [mem_grid, mem_pyRangeStep4]
  constructor
  · rintro ⟨x, y, hx, hy, rfl⟩; refine ⟨x, y, rfl, ?_⟩; omega
  · rintro ⟨x, y, rfl, h⟩; exact ⟨x, y, by omega, by omega, rfl⟩

theorem mem_faces' {Lx Ly : Nat} {x y : Int} : [x, y] ∈ faces Lx Ly ↔ IsF Lx Ly x y := by
  rw [mem_faces]
  constructor
  · rintro ⟨x', y', h, hq⟩
    simp only [List.cons.injEq, and_true] at h
    rw [h.1, h.2]; exact hq
  · intro h; exact ⟨x, y, rfl, h⟩

theorem nodup_faces (Lx Ly : Nat) : (faces Lx Ly).Nodup :=
  nodup_grid (nodup_pyRangeStep _ _ _ (by decide)) (nodup_pyRangeStep _ _ _ (by decide))

theorem mem_stabs {Lx Ly : Nat} {s : Coord} :
    s ∈ stabs Lx Ly ↔ ∃ x y p, s = [x, y, p] ∧ IsF Lx Ly x y ∧ (p = 0 ∨ p = 1) := by
  unfold stabs
  rw [mem_both]
  constructor
  · rintro ⟨c, hc, h⟩
    obtain ⟨x, y, rfl, hf⟩ := mem_faces.mp hc
    rcases h with rfl | rfl
    · exact ⟨x, y, 0, rfl, hf, Or.inl rfl⟩
    · exact ⟨x, y, 1, rfl, hf, Or.inr rfl⟩
  · rintro ⟨x, y, p, rfl, hf, rfl | rfl⟩
    · exact ⟨[x, y], mem_faces'.mpr hf, Or.inl rfl⟩
    · exact ⟨[x, y], mem_faces'.mpr hf, Or.inr rfl⟩

theorem mem_stabs' {Lx Ly : Nat} {x y p : Int} :
    [x, y, p] ∈ stabs Lx Ly ↔ IsF Lx Ly x y ∧ (p = 0 ∨ p = 1) := by
  rw [mem_stabs]
  constructor
  · rintro ⟨x', y', p', h, hq⟩
    simp only [List.cons.injEq, and_true] at h
    rw [h.1, h.2.1, h.2.2]; exact hq
  · intro h; exact ⟨x, y, p, rfl, h⟩

theorem nodup_stabs (Lx Ly : Nat) : (stabs Lx Ly).Nodup := nodup_both (nodup_faces Lx Ly)

/-! ### `get_stabilizer` -/

/-- the wrapped corners of the square at `(x, y)`, in delta order -/
def sqC (Lx Ly : Nat) (x y : Int) : List Coord :=
  [[(x + -1) % (8 * (Lx : Int)), (y + -1) % (8 * (Ly : Int))],
   [(x + 1) % (8 * (Lx : Int)), (y + 1) % (8 * (Ly : Int))],
   [(x + -1) % (8 * (Lx : Int)), (y + 1) % (8 * (Ly : Int))],
   [(x + 1) % (8 * (Lx : Int)), (y + -1) % (8 * (Ly : Int))]]

/-- the wrapped corners of the octagon at `(x, y)`, in delta order -/
def ocC (Lx Ly : Nat) (x y : Int) : List Coord :=
  [[(x + 1) % (8 * (Lx : Int)), (y + -3) % (8 * (Ly : Int))],
   [(x + 3) % (8 * (Lx : Int)), (y + -1) % (8 * (Ly : Int))],
   [(x + 3) % (8 * (Lx : Int)), (y + 1) % (8 * (Ly : Int))],
   [(x + 1) % (8 * (Lx : Int)), (y + 3) % (8 * (Ly : Int))],
   [(x + -1) % (8 * (Lx : Int)), (y + 3) % (8 * (Ly : Int))],
   [(x + -3) % (8 * (Lx : Int)), (y + 1) % (8 * (Ly : Int))],
   [(x + -3) % (8 * (Lx : Int)), (y + -1) % (8 * (Ly : Int))],
   [(x + -1) % (8 * (Lx : Int)), (y + -3) % (8 * (Ly : Int))]]

/-- the support of the two generators of the face `(x, y)` -/
def supp (Lx Ly : Nat) (x y : Int) : List Coord :=
  if (x + y) % 8 = 0 then sqC Lx Ly x y else ocC Lx Ly x y

theorem candidates_eq (Lx Ly : Nat) (x y : Int) : candidates Lx Ly x y = supp Lx Ly x y := by
  unfold candidates isSquare supp
  by_cases h : (x + y) % 8 = 0
  · simp only [h, decide_true, if_true, deltaSquare, List.map_cons, List.map_nil]; rfl
  · simp only [h, decide_false, if_false, Bool.false_eq_true, deltaOctagon, List.map_cons,
      List.map_nil]; rfl

theorem nodup_sqC {Lx Ly : Nat} (hx : 1 ≤ Lx) (hy : 1 ≤ Ly) (x y : Int) : (sqC Lx Ly x y).Nodup := by
  obtain ⟨c0, c2, c4, c6, n2, n4, n6⟩ := consts hx
  obtain ⟨d0, d2, d4, d6, m2, m4, m6⟩ := consts hy
  unfold sqC
  simp only [List.nodup_cons, List.mem_cons, List.cons.injEq, and_true, List.not_mem_nil,
    or_false, not_false_eq_true, List.nodup_nil, emod_bridge, Int.sub_self,
    Int.reduceSub, Int.reduceNeg]
  omega

theorem nodup_ocC {Lx Ly : Nat} (hx : 1 ≤ Lx) (hy : 1 ≤ Ly) (x y : Int) : (ocC Lx Ly x y).Nodup := by
  obtain ⟨c0, c2, c4, c6, n2, n4, n6⟩ := consts hx
  obtain ⟨d0, d2, d4, d6, m2, m4, m6⟩ := consts hy
  unfold ocC
  simp only [List.nodup_cons, List.mem_cons, List.cons.injEq, and_true, List.not_mem_nil,
    or_false, not_false_eq_true, List.nodup_nil, emod_bridge, Int.sub_self,
    Int.reduceSub, Int.reduceNeg]
  omega

theorem nodup_supp {Lx Ly : Nat} (hx : 1 ≤ Lx) (hy : 1 ≤ Ly) (x y : Int) : (supp Lx Ly x y).Nodup := by
  unfold supp
  by_cases h : (x + y) % 8 = 0
  · rw [if_pos h]; exact nodup_sqC hx hy x y
  · rw [if_neg h]; exact nodup_ocC hx hy x y

theorem supp_shape {Lx Ly : Nat} {x y : Int} {q : Coord} (h : q ∈ supp Lx Ly x y) : ∃ a b, q = [a, b] := by
  unfold supp at h
  by_cases h8 : (x + y) % 8 = 0
  · rw [if_pos h8] at h; unfold sqC at h
    simp only [List.mem_cons, List.not_mem_nil, or_false] at h
    rcases h with rfl | rfl | rfl | rfl <;> exact ⟨_, _, rfl⟩
  · rw [if_neg h8] at h; unfold ocC at h
    simp only [List.mem_cons, List.not_mem_nil, or_false] at h
    rcases h with rfl | rfl | rfl | rfl | rfl | rfl | rfl | rfl <;> exact ⟨_, _, rfl⟩

/-- the letter of the generator `(x, y, p)` -/
def letter (p : Int) : Pauli := if p = 0 then Pauli.X else Pauli.Z

theorem letter_ne_I (p : Int) : letter p ≠ Pauli.I := by
  unfold letter; by_cases h : p = 0 <;> simp [h]

theorem getStabIn_eq {Lx Ly : Nat} (hx : 1 ≤ Lx) (hy : 1 ≤ Ly) {x y p : Int} (h : [x, y, p] ∈ stabs Lx Ly) :
    getStabilizerIn (stabs Lx Ly) Lx Ly [x, y, p] = some ((supp Lx Ly x y).map (fun q => (q, letter p))) := by
  have hs : isIn (stabs Lx Ly) [x, y, p] = true := isIn_iff.mpr h
  unfold getStabilizerIn
  simp only [hs, Bool.not_true, Bool.false_eq_true, if_false]
  rw [candidates_eq, lineOp_eq _ _ (nodup_supp hx hy x y)]
  rfl

theorem getStab_eq {Lx Ly : Nat} (hx : 1 ≤ Lx) (hy : 1 ≤ Ly) {x y p : Int} (h : [x, y, p] ∈ stabs Lx Ly) :
    (lattice Lx Ly).getStab [x, y, p] = (supp Lx Ly x y).map (fun q => (q, letter p)) := by
  show (getStabilizer? Lx Ly [x, y, p]).getD [] = _
  unfold getStabilizer?
  rw [getStabIn_eq hx hy h]; rfl

/-! ### the derived qubit list -/

theorem nodup_qubits (Lx Ly : Nat) : (qubits Lx Ly).Nodup := nodup_derivedQubits _ _

theorem mem_qubits_faces {Lx Ly : Nat} (hx : 1 ≤ Lx) (hy : 1 ≤ Ly) {q : Coord} :
    q ∈ qubits Lx Ly ↔ ∃ x y, IsF Lx Ly x y ∧ q ∈ supp Lx Ly x y := by
  unfold qubits
  simp only []
  rw [mem_derivedQubits]
  constructor
  · rintro ⟨s, hs, hq⟩
    obtain ⟨x, y, p, rfl, hf, hp⟩ := mem_stabs.mp hs
    rw [getStabIn_eq hx hy hs, Option.getD_some, map_fst_const] at hq
    exact ⟨x, y, hf, hq⟩
  · rintro ⟨x, y, hf, hq⟩
    have hs : [x, y, 0] ∈ stabs Lx Ly := mem_stabs'.mpr ⟨hf, Or.inl rfl⟩
    refine ⟨[x, y, 0], hs, ?_⟩
    rw [getStabIn_eq hx hy hs, Option.getD_some, map_fst_const]
    exact hq

/-- a wrapped corner `((x + dx) % 8Lx, (y + dy) % 8Ly)` is a site of the closed form as soon as
    `(x + dx, y + dy)` has the right residues modulo 8 -/
theorem isQ_wrapped {Lx Ly : Nat} (hx : 1 ≤ Lx) (hy : 1 ≤ Ly) (u v : Int)
    (h : ((u % 8 = 1 ∨ u % 8 = 7) ∧ (v % 8 = 1 ∨ v % 8 = 7)) ∨
         ((u % 8 = 3 ∨ u % 8 = 5) ∧ (v % 8 = 3 ∨ v % 8 = 5))) :
    IsQ Lx Ly (u % (8 * (Lx : Int))) (v % (8 * (Ly : Int))) := by
  obtain ⟨a1, a2, a3⟩ := emod_range hx u
  obtain ⟨b1, b2, b3⟩ := emod_range hy v
  unfold IsQ
  rw [a3, b3]
  exact ⟨a1, a2, b1, b2, h⟩

theorem isQ_of_corner {Lx Ly : Nat} (hx : 1 ≤ Lx) (hy : 1 ≤ Ly) {x y a b : Int} (hf : IsF Lx Ly x y)
    (h : [a, b] ∈ supp Lx Ly x y) : IsQ Lx Ly a b := by
  unfold IsF at hf
  unfold supp at h
  by_cases h8 : (x + y) % 8 = 0
  · rw [if_pos h8] at h; unfold sqC at h
    simp only [List.mem_cons, List.cons.injEq, and_true, List.not_mem_nil, or_false] at h
    rcases h with ⟨rfl, rfl⟩ | ⟨rfl, rfl⟩ | ⟨rfl, rfl⟩ | ⟨rfl, rfl⟩ <;>
      exact isQ_wrapped hx hy _ _ (by omega)
  · rw [if_neg h8] at h; unfold ocC at h
    simp only [List.mem_cons, List.cons.injEq, and_true, List.not_mem_nil, or_false] at h
    rcases h with ⟨rfl, rfl⟩ | ⟨rfl, rfl⟩ | ⟨rfl, rfl⟩ | ⟨rfl, rfl⟩ | ⟨rfl, rfl⟩ | ⟨rfl, rfl⟩ |
      ⟨rfl, rfl⟩ | ⟨rfl, rfl⟩ <;> exact isQ_wrapped hx hy _ _ (by omega)

/-- every site of the closed form is a corner of the square centred at the nearest multiples of 4 -/
theorem corner_of_isQ {Lx Ly : Nat} (hx : 1 ≤ Lx) (hy : 1 ≤ Ly) {a b : Int} (h : IsQ Lx Ly a b) :
    ∃ x y, IsF Lx Ly x y ∧ (x + y) % 8 = 0 ∧ [a, b] ∈ sqC Lx Ly x y := by
  unfold IsQ at h
  have ea : a % (8 * (Lx : Int)) = a := emod_small (by omega) (by omega)
  have eb : b % (8 * (Ly : Int)) = b := emod_small (by omega) (by omega)
  unfold sqC
  simp only [List.mem_cons, List.cons.injEq, and_true, List.not_mem_nil, or_false]
  by_cases ha : a % 4 = 1 <;> by_cases hb : b % 4 = 1
  · refine ⟨a - 1, b - 1, by unfold IsF; omega, by omega, Or.inr (Or.inl ⟨?_, ?_⟩)⟩
    · rw [show a - 1 + 1 = a by omega, ea]
    · rw [show b - 1 + 1 = b by omega, eb]
  · refine ⟨a - 1, b + 1, by unfold IsF; omega, by omega, Or.inr (Or.inr (Or.inr ⟨?_, ?_⟩))⟩
    · rw [show a - 1 + 1 = a by omega, ea]
    · rw [show b + 1 + -1 = b by omega, eb]
  · refine ⟨a + 1, b - 1, by unfold IsF; omega, by omega, Or.inr (Or.inr (Or.inl ⟨?_, ?_⟩))⟩
    · rw [show a + 1 + -1 = a by omega, ea]
    · rw [show b - 1 + 1 = b by omega, eb]
  · refine ⟨a + 1, b + 1, by unfold IsF; omega, by omega, Or.inl ⟨?_, ?_⟩⟩
    · rw [show a + 1 + -1 = a by omega, ea]
    · rw [show b + 1 + -1 = b by omega, eb]

theorem mem_qubits {Lx Ly : Nat} (hx : 1 ≤ Lx) (hy : 1 ≤ Ly) {q : Coord} :
    q ∈ qubits Lx Ly ↔ ∃ a b, q = [a, b] ∧ IsQ Lx Ly a b := by
  rw [mem_qubits_faces hx hy]
  constructor
  · rintro ⟨x, y, hf, hq⟩
    obtain ⟨a, b, rfl⟩ := supp_shape hq
    exact ⟨a, b, rfl, isQ_of_corner hx hy hf hq⟩
  · rintro ⟨a, b, rfl, h⟩
    obtain ⟨x, y, hf, h8, hm⟩ := corner_of_isQ hx hy h
    refine ⟨x, y, hf, ?_⟩
    unfold supp; rw [if_pos h8]; exact hm

theorem mem_qubits' {Lx Ly : Nat} (hx : 1 ≤ Lx) (hy : 1 ≤ Ly) {a b : Int} : [a, b] ∈ qubits Lx Ly ↔ IsQ Lx Ly a b := by
  rw [mem_qubits hx hy]
  constructor
  · rintro ⟨x', y', h, hq⟩
    simp only [List.cons.injEq, and_true] at h
    rw [h.1, h.2]; exact hq
  · intro h; exact ⟨a, b, rfl, h⟩

theorem isQubit_iff {Lx Ly : Nat} (hx : 1 ≤ Lx) (hy : 1 ≤ Ly) {a b : Int} :
    isQubit Lx Ly [a, b] = true ↔ IsQ Lx Ly a b := by
  unfold isQubit; rw [isIn_iff, mem_qubits' hx hy]

theorem qubits_stabs_disjoint {Lx Ly : Nat} (hx : 1 ≤ Lx) (hy : 1 ≤ Ly) : ∀ q ∈ qubits Lx Ly, q ∉ stabs Lx Ly := by
  intro q hq hs
  obtain ⟨a, b, rfl, _⟩ := (mem_qubits hx hy).mp hq
  obtain ⟨x', y', p, h, _⟩ := mem_stabs.mp hs
  simp at h

theorem supp_nonempty (Lx Ly : Nat) (x y : Int) : supp Lx Ly x y ≠ [] := by
  unfold supp sqC ocC
  by_cases h : (x + y) % 8 = 0 <;> simp [h]

end Panqec.Color488Code
