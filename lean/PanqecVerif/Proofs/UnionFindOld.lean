/-
Union-find internals (C05), regression: the code BEFORE the repair of `Peeling_Tree.peel`
(`oldPeelRound … oldDecodeWith` of `Model/UnionFind.lean`: every member qubit shared by a
syndrome-carrying leaf and its parent is added) agrees with the repaired code (the first shared
qubit) on every SIMPLE graph: a leaf and its parent share exactly one member qubit there.
-/
import PanqecVerif.Proofs.UnionFindWF

namespace Panqec.UF

set_option linter.unusedSimpArgs false
set_option linter.unusedVariables false

/-- no parallel edges -/
def Simple (H : Mat) : Prop :=
  ∀ i j q q', i ≠ j → hb H i q = true → hb H j q = true → hb H i q' = true → hb H j q' = true → q = q'

section
variable {H : Mat} {stabs qubits : Nat → Bool} {root : Nat} {S0 : Nat → Nat → Bool}
  {syn0 : Nat → Bool} {al : Nat → Bool} {st : PeelSt}

/-- without parallel edges the list of shared member qubits of a tree edge is `[eOf]` -/
theorem edge_filter (G : GraphOK H) (hS : Simple H) (T : TreeOK H stabs qubits root S0) {p c : Nat}
    (h : S0 p c = true) :
    (List.range (ncols H)).filter (fun q => adjq H stabs qubits p c q) = [eOf H stabs qubits p c] := by
  have he := (edge_spec G T h).1
  have he' := (adjq_true H stabs qubits p c _).mp he
  have hne := (T.mem p c h).2.2.1
  apply filter_range_unique _ _ _ (G.inRange p _ he'.1).2 he
  intro i _ hi
  have hi' := (adjq_true H stabs qubits p c i).mp hi
  exact hS p c i _ hne hi'.1 hi'.2.1 he'.1 he'.2.1

theorem oldPeelRound_eq (G : GraphOK H) (hS : Simple H) (hst : ∀ s, stabs s = true → s < H.length)
    (T : TreeOK H stabs qubits root S0) (I : PInv H stabs qubits S0 syn0 al st)
    (hroot : root ∉ st.leaves) :
    oldPeelRound H stabs qubits st = .ok (nextSt H stabs qubits S0 st) := by
  unfold oldPeelRound
  simp only []
  rw [parents_eq hst T I hroot]
  rw [if_neg (by simp)]
  have hadd : (((st.leaves.map (parOf H.length S0)).zip st.leaves).flatMap fun pc =>
      if st.syn pc.2 = true then
        (List.range (ncols H)).filter fun q => subH H stabs qubits pc.1 q && subH H stabs qubits pc.2 q
      else []) =
      (st.leaves.filter st.syn).map (fun c => eOf H stabs qubits (parOf H.length S0 c) c) := by
    rw [zip_map_self, List.flatMap_map, ← flatMap_ite_singleton]
    apply flatMap_congr'
    intro c hc
    simp only []
    cases hs : st.syn c
    · simp
    · simp only [if_true]
      exact edge_filter G hS T (leaf_edge hst T I hroot hc)
  rw [hadd]
  simp only [tabGet_tabArr]
  rfl

/-- the two loops agree along the invariant -/
theorem oldPeelLoop_eq (G : GraphOK H) (hS : Simple H) (hst : ∀ s, stabs s = true → s < H.length)
    (T : TreeOK H stabs qubits root S0) :
    ∀ fuel (st : PeelSt) (al : Nat → Bool), PInv H stabs qubits S0 syn0 al st →
      oldPeelLoop H stabs qubits fuel st = peelLoop H stabs qubits fuel st := by
  intro fuel
  induction fuel with
  | zero => intro st al _; rfl
  | succ fuel ih =>
    intro st al I
    unfold oldPeelLoop peelLoop
    cases hany : (List.range H.length).any st.syn
    · simp
    · simp only [if_true]
      obtain ⟨s, hs, hsyn⟩ := List.any_eq_true.mp hany
      have hroot : root ∉ st.leaves := by
        intro hr
        have := root_leaf_done hst T I hr s
        rw [hsyn] at this; exact absurd this (by simp)
      obtain ⟨w, hw⟩ := exists_leaf T I (I.syn_al s hsyn)
      have hn : ncols H ≠ 0 := by
        have he := (edge_spec G T (leaf_edge hst T I hroot hw)).1
        have he' := (adjq_true H stabs qubits _ _ _).mp he
        have := (G.inRange _ _ he'.1).2
        omega
      rw [oldPeelRound_eq G hS hst T I hroot, peelRound_eq G hst T I hroot hn]
      simp only []
      exact ih _ _ (PInv_next G hst T I hroot)

end

/-- one cluster -/
theorem oldPeelTree_eq {H : Mat} (G : GraphOK H) (hS : Simple H) (sy : Vec) (sPar qPar : Nat → Int)
    (r : Nat) (hroot : stabsOf H sPar r r = true)
    (hconn : ∀ v, stabsOf H sPar r v = true →
      Reach H (stabsOf H sPar r) (qubitsOf H qPar r) r v)
    (heven : cnt H.length (fun s => defect sy s && stabsOf H sPar r s) % 2 = 0) :
    oldPeelTree H sy sPar qPar r = peelTree H sy sPar qPar r := by
  have hst : ∀ s, stabsOf H sPar r s = true → s < H.length := fun s h => stabsOf_lt h
  obtain ⟨S0, leaves, hbuild, T, L⟩ := buildTree_spec G hst hroot hconn
  have hbuild' : buildTree H (fun s => decide (s < H.length) && decide (sPar s = (r : Int)))
      (fun q => decide (q < ncols H) && decide (qPar q = (r : Int))) r = some (S0, leaves) := hbuild
  -- the initial state satisfies the invariant, or there is no defect and neither loop runs
  have hloop : oldPeelLoop H (stabsOf H sPar r) (qubitsOf H qPar r) (H.length + 1)
        ⟨S0, fun s => defect sy s && stabsOf H sPar r s, leaves, [], []⟩ =
      peelLoop H (stabsOf H sPar r) (qubitsOf H qPar r) (H.length + 1)
        ⟨S0, fun s => defect sy s && stabsOf H sPar r s, leaves, [], []⟩ := by
    by_cases hdef : ∃ s, (defect sy s && stabsOf H sPar r s) = true
    · obtain ⟨s, hs⟩ := hdef
      have hsyn : ∀ s, (defect sy s && stabsOf H sPar r s) = true → stabsOf H sPar r s = true := by
        intro s h; simp only [Bool.and_eq_true] at h; exact h.2
      have hother : ∃ v, stabsOf H sPar r v = true ∧ v ≠ r := by
        by_contra hno
        push Not at hno
        have hsup : ∀ i, (defect sy i && stabsOf H sPar r i) = true → i = r :=
          fun i hi => hno i (hsyn i hi)
        have hc := cnt_single H.length (fun s => defect sy s && stabsOf H sPar r s) r
          (hst r T.rootMem) hsup
        have : s = r := hsup s hs
        subst this
        rw [hc] at heven
        simp only [hs] at heven
        simp at heven
      have I : PInv H (stabsOf H sPar r) (qubitsOf H qPar r) S0
          (fun s => defect sy s && stabsOf H sPar r s) (stabsOf H sPar r)
          ⟨S0, fun s => defect sy s && stabsOf H sPar r s, leaves, [], []⟩ := by
        refine ⟨?_, fun _ h => h, ?_, ?_, L.1, hsyn, ?_, heven, List.nodup_nil, ?_⟩
        · intro p c
          show S0 p c = (S0 p c && stabsOf H sPar r c)
          cases h : S0 p c
          · rfl
          · simp [(T.mem p c h).2.1]
        · intro p c h _; exact (T.mem p c h).1
        · intro v; exact L.2 hother v
        · intro s
          show ((([] : List Nat).countP fun q => hb H s q) +
            b2n (defect sy s && stabsOf H sPar r s)) % 2 = b2n (defect sy s && stabsOf H sPar r s)
          have := b2n_le (defect sy s && stabsOf H sPar r s)
          simp; omega
        · intro q hq; simp at hq
      exact oldPeelLoop_eq G hS hst T _ _ _ I
    · push Not at hdef
      have hany : (List.range H.length).any (fun s => defect sy s && stabsOf H sPar r s) = false := by
        rw [List.any_eq_false]; intro x _; simpa using hdef x
      unfold oldPeelLoop peelLoop
      simp [hany]
  have hloop' : oldPeelLoop H (fun s => decide (s < H.length) && decide (sPar s = (r : Int)))
      (fun q => decide (q < ncols H) && decide (qPar q = (r : Int))) (H.length + 1)
      ⟨S0, fun s => sy.getD s 0 != 0 && (decide (s < H.length) && decide (sPar s = (r : Int))),
        leaves, [], []⟩ =
      peelLoop H (fun s => decide (s < H.length) && decide (sPar s = (r : Int)))
      (fun q => decide (q < ncols H) && decide (qPar q = (r : Int))) (H.length + 1)
      ⟨S0, fun s => sy.getD s 0 != 0 && (decide (s < H.length) && decide (sPar s = (r : Int))),
        leaves, [], []⟩ := hloop
  unfold oldPeelTree peelTree
  simp only [tabGet_tabArr, tabGet2_tabArr2, hbuild', hloop']

/-- all clusters -/
theorem oldPeelAll_eq {H : Mat} (G : GraphOK H) (hS : Simple H) (sy : Vec) (sPar qPar : Nat → Int) :
    ∀ (rs : List Nat),
      (∀ r, r ∈ rs → stabsOf H sPar r r = true) →
      (∀ r, r ∈ rs → ∀ v, stabsOf H sPar r v = true →
        Reach H (stabsOf H sPar r) (qubitsOf H qPar r) r v) →
      (∀ r, r ∈ rs → cnt H.length (fun s => defect sy s && stabsOf H sPar r s) % 2 = 0) →
      oldPeelAll H sy sPar qPar rs = peelAll H sy sPar qPar rs := by
  intro rs
  induction rs with
  | nil => intro _ _ _; rfl
  | cons r rs ih =>
    intro hroot hconn heven
    unfold oldPeelAll peelAll
    rw [oldPeelTree_eq G hS sy sPar qPar r (hroot r (by simp)) (hconn r (by simp)) (heven r (by simp)),
      ih (fun x hx => hroot x (by simp [hx])) (fun x hx => hconn x (by simp [hx]))
        (fun x hx => heven x (by simp [hx]))]

/-- **`Support.decode()` before and after the repair agree on every simple graph**, for every
    syndrome vector and every schedule -/
theorem oldDecodeWith_eq {H : Mat} (hG : graphLike H = true) (sy : Vec) (sched : List (List Int)) :
    oldDecodeWith H sy sched = decodeWith H sy sched := by
  obtain ⟨G, _⟩ := graphLike_ok hG
  have hS : Simple H := fun i j q q' => graphLike_simple hG i j q q'
  unfold oldDecodeWith decodeWith
  simp only []
  cases hterm : (clustering H sy sched).terminated
  · simp
  · obtain ⟨P, _⟩ := clustering_post G sy sched hterm
    simp only [Bool.not_true, Bool.false_eq_true, if_false]
    rw [oldPeelAll_eq G hS sy _ _ _ P.root_self P.conn P.even]

end Panqec.UF
