/-
RhombicToricCode lattice model, rank clause: single-qubit probes and ranks of the selected
generators (`Proofs/LatRhombicToricCodeRank1.lean`), and the diagonal part of the triangular
criterion (each probe sits on a qubit of its generator with an anticommuting letter).

Cubes `(x, y, z)` (rank lexicographic in `(z, y if y ≥ 5 else 0, x)`): for `z ≥ 3` the x edge
`(x, y−1, z−1)` (the other coloured cube on it is two layers below); in the layer `z = 1` the z edge
towards the cube `(x−2, y−2, 1)` for `y ≥ 5`, and in the two rows `y ∈ {1, 3}` the z edge `(x−1, 2, 1)`
towards the cube of the other row with smaller `x` — except `(1, 3, 1)`, which uses `(2, 2, 1)`,
shared with the left-out cube `(3, 1, 1)`.
Triangles `(a, x, y, z)` (rank lexicographic in `(x, [axis 2 in a middle column], y, z, local order)`):
middle columns: axis 3 the x leg `(x−1, y, z)`, axis 2 the y leg below, axis 1 the z leg below;
last column: axis 2 the seam x leg `(x+1, y, z)`, axis 3 the x leg `(x−1, y, z)` (the z leg below on the
row `y = 0`, `(x+y+z) % 4 = 0`), axis 1 the y leg below (`y ≥ 2`) or the x leg / z leg below (`y = 0`);
column `x = 0`: the corners of the y-z torus use their y leg below, their z leg below, or (top layer)
their z leg above.
-/
import PanqecVerif.Proofs.LatRhombicToricCodeRank2
import PanqecVerif.Proofs.Lat2DRank
open Panqec Panqec.Lat3Db Panqec.Rhombic
open Panqec.XCubeCode (up dn up_spec dn_spec)
namespace Panqec.RhombicToricCode

/-- the witness qubit and probe letter of a selected generator -/
def probe (Lx Ly Lz : Nat) : Coord → Coord × Pauli
  | [x, y, z] =>
    (if 3 ≤ z then [x, y - 1, z - 1]
     else if 5 ≤ y then [x - 1, y - 1, 1]
     else if y = 3 ∧ x = 1 then [2, 2, 1]
     else [x - 1, 2, 1], Pauli.Z)
  | [a, x, y, z] =>
    (if x = 2*(Lx:Int)-2 then
       (if a = 2 then [x + 1, y, z]
        else if a = 3 then (if y = 0 ∧ (x + y + z) % 4 = 0 then [x, y, z - 1] else [x - 1, y, z])
        else (if 2 ≤ y then [x, y - 1, z] else if (x + y + z) % 4 = 0 then [x - 1, y, z] else [x, y, z - 1]))
     else if x = 0 then
       (if (a = 1 ∧ (x + y + z) % 4 = 0) ∨ (a = 2 ∧ (x + y + z) % 4 = 2) then [x, dn (2*Ly) y, z]
        else if a = 3 ∨ a = 0 then [x, y, z + 1]
        else [x, y, z - 1])
     else
       (if a = 1 then [x, y, dn (2*Lz) z] else if a = 2 then [x, dn (2*Ly) y, z] else [x - 1, y, z]),
     Pauli.X)
  | _ => ([], Pauli.I)

/-- local order of the triangles of a vertex -/
def rkT (Lx : Nat) (a x y z : Int) : Nat :=
  if x = 2*(Lx:Int)-2 then
    (if 2 ≤ y then (if a = 2 then 0 else if a = 1 then 1 else 2)
     else if (x + y + z) % 4 = 0 then (if a = 2 then 0 else if a = 3 then 1 else 2)
     else (if a = 1 then 0 else if a = 2 then 1 else 2))
  else if x = 0 then
    (if (x + y + z) % 4 = 0 then (if a = 2 then 0 else if a = 1 then 1 else 2)
     else (if a = 1 then 0 else if a = 2 then 1 else 2))
  else (if a = 1 then 0 else if a = 3 then 1 else 2)

/-- axis 2 of the middle columns comes after the other axes of its column -/
def tier (Lx : Nat) (a x : Int) : Nat := if 0 < x ∧ x < 2*(Lx:Int)-2 ∧ a = 2 then 1 else 0

/-- the rank of a selected generator -/
def mu (Lx Ly Lz : Nat) : Coord → Nat
  | [x, y, z] => (z.toNat * (2*Ly+1) + (if y ≤ 3 then 0 else y.toNat)) * (2*Lx+1) + x.toNat
  | [a, x, y, z] =>
    (((2 * x.toNat + tier Lx a x) * (2*Ly+1) + y.toNat) * (2*Lz+1) + z.toNat) * 4 + rkT Lx a x y z
  | _ => 0

theorem rkT_lt (Lx : Nat) (a x y z : Int) : rkT Lx a x y z < 4 := by
  unfold rkT
  repeat' split
  all_goals omega

theorem tier_le (Lx : Nat) (a x : Int) : tier Lx a x ≤ 1 := by unfold tier; split <;> omega

/-- kinds of selected generators -/
def Kind (Lx Ly Lz : Nat) (s : Coord) : Prop :=
  (∃ x y z, s = [x, y, z] ∧ CK Lx Ly Lz x y z) ∨
  (∃ a x y z, s = [a, x, y, z] ∧ TK Lx Ly Lz a x y z)

def keysOf (Lx Ly Lz : Nat) : Coord → List Coord
  | [x, y, z] => cubeKeys Lx Ly Lz x y z
  | [a, x, y, z] => triKeys Lx Ly Lz a x y z
  | _ => []

def letterOf (s : Coord) : Pauli := if s.length = 3 then Pauli.X else Pauli.Z

theorem getStab_eq {Lx Ly Lz : Nat} (hx : 2 ≤ Lx) (hy : 2 ≤ Ly) (hz : 2 ≤ Lz) {s : Coord}
    (h : Kind Lx Ly Lz s) : getStab Lx Ly Lz s = constOp (keysOf Lx Ly Lz s) (letterOf s) := by
  rcases h with ⟨x, y, z, rfl, hk⟩ | ⟨a, x, y, z, rfl, hk⟩
  · exact getStab_cube Lx Ly Lz x y z hx hy hz hk.1
  · exact getStab_tri Lx Ly Lz a x y z hk.st

theorem keysOf_qubits {Lx Ly Lz : Nat} {s : Coord} (h : Kind Lx Ly Lz s) :
    ∀ q ∈ keysOf Lx Ly Lz s, q ∈ qubits Lx Ly Lz := by
  intro q hq
  apply mem_qubits_of_isQubit
  rcases h with ⟨x, y, z, rfl, _⟩ | ⟨a, x, y, z, rfl, _⟩ <;> exact (List.mem_filter.mp hq).2

/-- the wrapped neighbour in closed form -/
theorem step_facts (P : Nat) (v s : Int) (hs : U s) :
    (s = 1 ∧ step P v s = v + 1) ∨
    (s = -1 ∧ ((v = 0 ∧ step P v s = P - 1) ∨ (v ≠ 0 ∧ step P v s = v - 1))) := by
  unfold step
  have := dn_spec P v
  rcases hs with rfl | rfl
  · left; simp
  · right
    have h1 : ¬ ((-1 : Int) = 1) := by decide
    simp only [h1, if_false, true_and]
    omega

/-- every leg of a triangle is a qubit -/
theorem triKeys_eq {Lx Ly Lz : Nat} {a x y z : Int} (h : ST Lx Ly Lz a x y z) :
    triKeys Lx Ly Lz a x y z = triLocs Lx Ly Lz (sgnX a) (sgnY a) (sgnZ a x y z) x y z := by
  obtain ⟨_, hx, hy, hz⟩ := h
  unfold triKeys
  apply List.filter_eq_self.mpr
  intro q hq
  have h1 := step_spec (2*Lx) x (sgnX a) (by omega) hx (sgnX_pm a)
  have h2 := step_spec (2*Ly) y (sgnY a) (by omega) hy (sgnY_pm a)
  have h3 := step_spec (2*Lz) z (sgnZ a x y z) (by omega) hz (sgnZ_pm a x y z)
  simp only [triLocs, List.mem_cons, List.not_mem_nil, or_false] at hq
  rcases hq with rfl | rfl | rfl <;> rw [isQubit_iff]
  · exact Or.inl ⟨h1, hy, hz⟩
  · exact Or.inr (Or.inl ⟨hx, h2, hz⟩)
  · exact Or.inr (Or.inr ⟨hx, hy, h3⟩)

/-- the legs of a triangle operator -/
theorem mem_triKeys_iff {Lx Ly Lz : Nat} {b u v w p q r : Int} (h : ST Lx Ly Lz b u v w) :
    [p, q, r] ∈ triKeys Lx Ly Lz b u v w ↔
      (p = step (2*Lx) u (sgnX b) ∧ q = v ∧ r = w) ∨ (p = u ∧ q = step (2*Ly) v (sgnY b) ∧ r = w) ∨
      (p = u ∧ q = v ∧ r = step (2*Lz) w (sgnZ b u v w)) := by
  rw [triKeys_eq h]
  simp [triLocs]

/-! ### the probe of a selected triangle is one of its legs -/

theorem probe_tri_mem_mid {Lx Ly Lz : Nat} {a x y z : Int} (hst : ST Lx Ly Lz a x y z)
    (h0 : 0 < x) (h1 : x < 2*(Lx:Int)-2) (hc : a = 2 ∨ a = 3 ∨ (a = 1 ∧ (x + y + z) % 4 = 2)) :
    (probe Lx Ly Lz [a, x, y, z]).1 ∈ triKeys Lx Ly Lz a x y z := by
  have hs := sgn_facts a x y z hst.1
  have fx := step_facts (2*Lx) x (sgnX a) (sgnX_pm a)
  have fy := step_facts (2*Ly) y (sgnY a) (sgnY_pm a)
  have fz := step_facts (2*Lz) z (sgnZ a x y z) (sgnZ_pm a x y z)
  have dy := dn_spec (2*Ly) y
  have dz := dn_spec (2*Lz) z
  have key : ∀ p q r : Int,
      ((p = step (2*Lx) x (sgnX a) ∧ q = y ∧ r = z) ∨ (p = x ∧ q = step (2*Ly) y (sgnY a) ∧ r = z) ∨
        (p = x ∧ q = y ∧ r = step (2*Lz) z (sgnZ a x y z))) → [p, q, r] ∈ triKeys Lx Ly Lz a x y z :=
    fun p q r hh => (mem_triKeys_iff hst).mpr hh
  obtain ⟨_, hx, hy, hz⟩ := hst
  unfold R0 at hx hy hz
  simp only [probe]
  generalize dn (2*Ly) y = dny at *
  generalize dn (2*Lz) z = dnz at *
  generalize step (2*Lx) x (sgnX a) = px at *
  generalize step (2*Ly) y (sgnY a) = py at *
  generalize step (2*Lz) z (sgnZ a x y z) = pz at *
  generalize sgnX a = sx at *
  generalize sgnY a = sy at *
  generalize sgnZ a x y z = sz at *
  have e1 : ¬ x = 2*(Lx:Int)-2 := by omega
  have e2 : ¬ x = 0 := by omega
  rw [if_neg e1, if_neg e2]
  rcases hc with rfl | rfl | ⟨rfl, hp⟩ <;> simp at hs <;> repeat' split
  all_goals first | (exfalso; omega) | (apply key; omega)

theorem probe_tri_mem_last {Lx Ly Lz : Nat} (_hLx : 2 ≤ Lx) (hex : Lx % 2 = 0) {a x y z : Int}
    (hst : ST Lx Ly Lz a x y z) (h0 : x = 2*(Lx:Int)-2)
    (hc : a = 2 ∨ a = 3 ∨ (a = 1 ∧ ¬ (y = 0 ∧ z = 0))) :
    (probe Lx Ly Lz [a, x, y, z]).1 ∈ triKeys Lx Ly Lz a x y z := by
  have hs := sgn_facts a x y z hst.1
  have fx := step_facts (2*Lx) x (sgnX a) (sgnX_pm a)
  have fy := step_facts (2*Ly) y (sgnY a) (sgnY_pm a)
  have fz := step_facts (2*Lz) z (sgnZ a x y z) (sgnZ_pm a x y z)
  have dy := dn_spec (2*Ly) y
  have dz := dn_spec (2*Lz) z
  have key : ∀ p q r : Int,
      ((p = step (2*Lx) x (sgnX a) ∧ q = y ∧ r = z) ∨ (p = x ∧ q = step (2*Ly) y (sgnY a) ∧ r = z) ∨
        (p = x ∧ q = y ∧ r = step (2*Lz) z (sgnZ a x y z))) → [p, q, r] ∈ triKeys Lx Ly Lz a x y z :=
    fun p q r hh => (mem_triKeys_iff hst).mpr hh
  obtain ⟨_, hx, hy, hz⟩ := hst
  unfold R0 at hx hy hz
  simp only [probe]
  generalize dn (2*Ly) y = dny at *
  generalize dn (2*Lz) z = dnz at *
  generalize step (2*Lx) x (sgnX a) = px at *
  generalize step (2*Ly) y (sgnY a) = py at *
  generalize step (2*Lz) z (sgnZ a x y z) = pz at *
  generalize sgnX a = sx at *
  generalize sgnY a = sy at *
  generalize sgnZ a x y z = sz at *
  rw [if_pos h0]
  rcases hc with rfl | rfl | ⟨rfl, hp⟩ <;> simp at hs <;> repeat' split
  all_goals first | (exfalso; omega) | (apply key; omega)

theorem probe_tri_mem_first_a {Lx Ly Lz : Nat} (hLx : 2 ≤ Lx) {a x y z : Int}
    (hst : ST Lx Ly Lz a x y z) (h0 : x = 0)
    (hc : (a = 1 ∧ (x + y + z) % 4 = 0) ∨ (a = 2 ∧ (x + y + z) % 4 = 2)) :
    (probe Lx Ly Lz [a, x, y, z]).1 ∈ triKeys Lx Ly Lz a x y z := by
  have hs := sgn_facts a x y z hst.1
  have fx := step_facts (2*Lx) x (sgnX a) (sgnX_pm a)
  have fy := step_facts (2*Ly) y (sgnY a) (sgnY_pm a)
  have fz := step_facts (2*Lz) z (sgnZ a x y z) (sgnZ_pm a x y z)
  have dy := dn_spec (2*Ly) y
  have dz := dn_spec (2*Lz) z
  have key : ∀ p q r : Int,
      ((p = step (2*Lx) x (sgnX a) ∧ q = y ∧ r = z) ∨ (p = x ∧ q = step (2*Ly) y (sgnY a) ∧ r = z) ∨
        (p = x ∧ q = y ∧ r = step (2*Lz) z (sgnZ a x y z))) → [p, q, r] ∈ triKeys Lx Ly Lz a x y z :=
    fun p q r hh => (mem_triKeys_iff hst).mpr hh
  obtain ⟨_, hx, hy, hz⟩ := hst
  unfold R0 at hx hy hz
  simp only [probe]
  generalize dn (2*Ly) y = dny at *
  generalize dn (2*Lz) z = dnz at *
  generalize step (2*Lx) x (sgnX a) = px at *
  generalize step (2*Ly) y (sgnY a) = py at *
  generalize step (2*Lz) z (sgnZ a x y z) = pz at *
  generalize sgnX a = sx at *
  generalize sgnY a = sy at *
  generalize sgnZ a x y z = sz at *
  have e1 : ¬ x = 2*(Lx:Int)-2 := by omega
  rw [if_neg e1, if_pos h0, if_pos hc]
  rcases hc with ⟨rfl, hp⟩ | ⟨rfl, hp⟩ <;> simp at hs <;> (apply key; omega)

theorem probe_tri_mem_first_b {Lx Ly Lz : Nat} (hLx : 2 ≤ Lx) {a x y z : Int}
    (hst : ST Lx Ly Lz a x y z) (h0 : x = 0) (hz2 : 2 ≤ z)
    (hc : (a = 2 ∧ (x + y + z) % 4 = 0) ∨ (a = 1 ∧ (x + y + z) % 4 = 2)) :
    (probe Lx Ly Lz [a, x, y, z]).1 ∈ triKeys Lx Ly Lz a x y z := by
  have hs := sgn_facts a x y z hst.1
  have fx := step_facts (2*Lx) x (sgnX a) (sgnX_pm a)
  have fy := step_facts (2*Ly) y (sgnY a) (sgnY_pm a)
  have fz := step_facts (2*Lz) z (sgnZ a x y z) (sgnZ_pm a x y z)
  have dy := dn_spec (2*Ly) y
  have dz := dn_spec (2*Lz) z
  have key : ∀ p q r : Int,
      ((p = step (2*Lx) x (sgnX a) ∧ q = y ∧ r = z) ∨ (p = x ∧ q = step (2*Ly) y (sgnY a) ∧ r = z) ∨
        (p = x ∧ q = y ∧ r = step (2*Lz) z (sgnZ a x y z))) → [p, q, r] ∈ triKeys Lx Ly Lz a x y z :=
    fun p q r hh => (mem_triKeys_iff hst).mpr hh
  obtain ⟨_, hx, hy, hz⟩ := hst
  unfold R0 at hx hy hz
  simp only [probe]
  generalize dn (2*Ly) y = dny at *
  generalize dn (2*Lz) z = dnz at *
  generalize step (2*Lx) x (sgnX a) = px at *
  generalize step (2*Ly) y (sgnY a) = py at *
  generalize step (2*Lz) z (sgnZ a x y z) = pz at *
  generalize sgnX a = sx at *
  generalize sgnY a = sy at *
  generalize sgnZ a x y z = sz at *
  have e1 : ¬ x = 2*(Lx:Int)-2 := by omega
  have c1 : ¬ ((a = 1 ∧ (x + y + z) % 4 = 0) ∨ (a = 2 ∧ (x + y + z) % 4 = 2)) := by omega
  have c2 : ¬ (a = 3 ∨ a = 0) := by omega
  rw [if_neg e1, if_pos h0, if_neg c1, if_neg c2]
  rcases hc with ⟨rfl, hp⟩ | ⟨rfl, hp⟩ <;> simp at hs <;> (apply key; omega)

theorem probe_tri_mem_first_c {Lx Ly Lz : Nat} (hLx : 2 ≤ Lx) (hLz : 2 ≤ Lz) {a x y z : Int}
    (hst : ST Lx Ly Lz a x y z) (h0 : x = 0) (hzt : z = 2*(Lz:Int)-2)
    (hc : (a = 3 ∧ (x + y + z) % 4 = 2) ∨ (a = 0 ∧ (x + y + z) % 4 = 0)) :
    (probe Lx Ly Lz [a, x, y, z]).1 ∈ triKeys Lx Ly Lz a x y z := by
  have hs := sgn_facts a x y z hst.1
  have fx := step_facts (2*Lx) x (sgnX a) (sgnX_pm a)
  have fy := step_facts (2*Ly) y (sgnY a) (sgnY_pm a)
  have fz := step_facts (2*Lz) z (sgnZ a x y z) (sgnZ_pm a x y z)
  have dy := dn_spec (2*Ly) y
  have dz := dn_spec (2*Lz) z
  have key : ∀ p q r : Int,
      ((p = step (2*Lx) x (sgnX a) ∧ q = y ∧ r = z) ∨ (p = x ∧ q = step (2*Ly) y (sgnY a) ∧ r = z) ∨
        (p = x ∧ q = y ∧ r = step (2*Lz) z (sgnZ a x y z))) → [p, q, r] ∈ triKeys Lx Ly Lz a x y z :=
    fun p q r hh => (mem_triKeys_iff hst).mpr hh
  obtain ⟨_, hx, hy, hz⟩ := hst
  unfold R0 at hx hy hz
  simp only [probe]
  generalize dn (2*Ly) y = dny at *
  generalize dn (2*Lz) z = dnz at *
  generalize step (2*Lx) x (sgnX a) = px at *
  generalize step (2*Ly) y (sgnY a) = py at *
  generalize step (2*Lz) z (sgnZ a x y z) = pz at *
  generalize sgnX a = sx at *
  generalize sgnY a = sy at *
  generalize sgnZ a x y z = sz at *
  have e1 : ¬ x = 2*(Lx:Int)-2 := by omega
  have c1 : ¬ ((a = 1 ∧ (x + y + z) % 4 = 0) ∨ (a = 2 ∧ (x + y + z) % 4 = 2)) := by omega
  have c2 : (a = 3 ∨ a = 0) := by omega
  rw [if_neg e1, if_pos h0, if_neg c1, if_pos c2]
  rcases hc with ⟨rfl, hp⟩ | ⟨rfl, hp⟩ <;> simp at hs <;> (apply key; omega)

theorem probe_tri_mem {Lx Ly Lz : Nat} (hLx : 2 ≤ Lx) (hLz : 2 ≤ Lz) (hex : Lx % 2 = 0) {a x y z : Int}
    (h : TK Lx Ly Lz a x y z) : (probe Lx Ly Lz [a, x, y, z]).1 ∈ triKeys Lx Ly Lz a x y z := by
  have hst := h.st
  obtain ⟨_, _, _, hc⟩ := h
  rcases hc with ⟨h0, h1, hc⟩ | ⟨h0, hc⟩ | ⟨h0, hc | hc | ⟨hz2, hc⟩ | ⟨hzt, _, hc⟩⟩
  · exact probe_tri_mem_mid hst h0 h1 hc
  · exact probe_tri_mem_last hLx hex hst h0 hc
  · exact probe_tri_mem_first_a hLx hst h0 (Or.inl hc)
  · exact probe_tri_mem_first_a hLx hst h0 (Or.inr hc)
  · exact probe_tri_mem_first_b hLx hst h0 hz2 hc
  · exact probe_tri_mem_first_c hLx hLz hst h0 hzt hc

/-- the probe of a selected cube is one of its edges -/
theorem probe_cube_mem {Lx Ly Lz : Nat} (hLx : 2 ≤ Lx) (hLy : 2 ≤ Ly) {x y z : Int}
    (h : CK Lx Ly Lz x y z) : (probe Lx Ly Lz [x, y, z]).1 ∈ cubeKeys Lx Ly Lz x y z := by
  obtain ⟨⟨hx, hy, hz, hp⟩, hne⟩ := h
  have ux := up_spec (2*Lx) x
  have uy := up_spec (2*Ly) y
  unfold R1 at hx hy hz
  simp only [probe]
  unfold cubeKeys
  generalize up (2*Lx) x = xu at *
  generalize up (2*Ly) y = yu at *
  split
  · rw [List.mem_filter, mem_cubeLocs, isQubit_iff]
    refine ⟨Or.inr (Or.inr ⟨rfl, Or.inr rfl, Or.inr rfl⟩), Or.inl ?_⟩
    unfold QX R0 R1; omega
  · split
    · rw [List.mem_filter, mem_cubeLocs, isQubit_iff]
      refine ⟨Or.inl ⟨by omega, Or.inr rfl, Or.inr rfl⟩, Or.inr (Or.inr ?_)⟩
      unfold QZ R0 R1; omega
    · split
      · rename_i h1 h2 h3
        obtain ⟨rfl, rfl⟩ := h3
        rw [List.mem_filter, mem_cubeLocs, isQubit_iff]
        refine ⟨Or.inl ⟨by omega, ?_, Or.inr (by omega)⟩, Or.inr (Or.inr ?_)⟩
        · unfold A; left; have := up_spec (2*Lx) 1; omega
        · unfold QZ R0 R1; omega
      · rw [List.mem_filter, mem_cubeLocs, isQubit_iff]
        refine ⟨Or.inl ⟨by omega, Or.inr rfl, ?_⟩, Or.inr (Or.inr ?_)⟩
        · unfold A
          have := up_spec (2*Ly) y
          omega
        · unfold QZ R0 R1; omega

/-- the probe sits on a qubit of its generator, with an anticommuting letter -/
theorem probe_diag {Lx Ly Lz : Nat} (hLx : 2 ≤ Lx) (hLy : 2 ≤ Ly) (hLz : 2 ≤ Lz) (hex : Lx % 2 = 0)
    {s : Coord} (h : Kind Lx Ly Lz s) :
    Pauli.anti (probe Lx Ly Lz s).2 (letterOf s) = true ∧ (probe Lx Ly Lz s).2 ≠ Pauli.I ∧
      (probe Lx Ly Lz s).1 ∈ keysOf Lx Ly Lz s := by
  rcases h with ⟨x, y, z, rfl, hk⟩ | ⟨a, x, y, z, rfl, hk⟩
  · exact ⟨rfl, fun e => Pauli.noConfusion e, probe_cube_mem hLx hLy hk⟩
  · exact ⟨rfl, fun e => Pauli.noConfusion e, probe_tri_mem hLx hLz hex hk⟩

theorem probe_snd3 (Lx Ly Lz : Nat) (x y z : Int) : (probe Lx Ly Lz [x, y, z]).2 = Pauli.Z := rfl
theorem probe_snd4 (Lx Ly Lz : Nat) (a x y z : Int) : (probe Lx Ly Lz [a, x, y, z]).2 = Pauli.X := rfl

end Panqec.RhombicToricCode
