/-
Kernel-evaluated runs of the model of `XCubeMatchingDecoder.decode` on concrete lattices
(`decide +kernel`, no `native_decide`).  For the code before 869642d (`XCubeDec.old`): the `KeyError`
witness of former finding D16 on 3×2×2 and the wrong-cube-syndrome counterexample on 2×2×3.  For the
repaired code: the same two inputs are decoded to the error itself, and a run on 2×2×2.  Kept in
their own file so that the evaluation is not repeated when the property file changes.
-/
import PanqecVerif.Model.XCubeDecoder

namespace Panqec.XCube

open Panqec

/-- PyMatching's answers in the two kernel-checked witnesses below (each is a solution of the
    sliced syndrome it was asked for, which the witnesses check) -/
def witnessSolve : WSolver Unit := fun M _ sy =>
  if sy == [1, 1, 1, 1] then [0, 0, 0, 0, 1, 1, 0, 0]
  else if sy == [1, 1, 0, 0, 0, 0] then [1, 0, 0, 0, 0, 0, 0, 0, 0, 0, 0, 0]
  else if sy == [0, 1, 1, 0, 1, 1] then [0, 0, 0, 0, 0, 0, 0, 1, 1, 0, 0, 0]
  else if sy == [0, 1, 1, 0, 0, 0] then [0, 0, 1, 0, 0, 0, 0, 0, 0, 0, 0, 0]
  else if sy == [1, 1, 0, 0] then [1, 0, 0, 0, 0, 0, 0, 0]
  else List.replicate (M.headD []).length 0

/-- ldpc on a zero syndrome: the zero vector -/
def witnessBp : BpSolver :=
  { decode := fun M _ _ _ => List.replicate (M.headD []).length 0, converged := fun _ _ _ _ => true }

def witnessCfg : BpCfg := ⟨1/8, 1000, 10, "minimum_sum", false⟩

/-- the decoder for `XCubeCode(Lx, Ly, Lz)` with uniform priors -/
def witnessDec (Lx Ly Lz : Nat) : Except XErr (XCubeDec Unit) :=
  let p := List.replicate (3 * Lx * Ly * Lz) (1/16 : Rat)
  XCubeDec.new (fun _ => ()) Lx Ly Lz none p p p witnessCfg

/-- the BP-OSD decoder's events without their priors -/
def dropPriors : Event Rat → Event Unit
  | .ctor m s er mi oo bm => .ctor m s er mi oo bm
  | .update m p => .update m p
  | .decode m w s a => .decode m (w.map fun _ => ()) s a
  | .sub s a => .sub s a

/-- X error on qubit `q` of `n` qubits -/
def xError (n q : Nat) : Vec := (List.replicate (2 * n) 0).set q 1

/-- every recorded PyMatching answer solves the sliced syndrome it was asked for -/
def answersSolve (ev : List (Event Unit)) : Bool :=
  ev.all fun e => match e with
    | .decode M _ sy a => sectorSyndrome M a == sy
    | _ => true

/-- one call on a fresh decoder object -/
def witnessCall (d : XCubeDec Unit) (s : Vec) : Out Unit Vec :=
  (d.decode witnessSolve witnessBp dropPriors ascending BpSt.init s).2

/-- executable form of `old_xcube_keyerror_witness_322` -/
def keyErrorCheck322 : Bool :=
  match witnessDec 3 2 2 with
  | .error _ => false
  | .ok d =>
    let r := witnessCall d.old (measureSyndrome d.H (xError 36 0))
    (match r.val with
      | .error (.keyError k) => k == [1, 4, 0]
      | _ => false) && answersSolve r.events

set_option maxRecDepth 100000 in
theorem keyErrorCheck322_true : keyErrorCheck322 = true := by decide +kernel

/-- executable form of `old_xcube_cube_syndrome_not_reproduced_223` -/
def cubeSyndromeCheck223 : Bool :=
  match witnessDec 2 2 3 with
  | .error _ => false
  | .ok d =>
    let s := measureSyndrome d.H (xError 36 2)
    let r := witnessCall d.old s
    (match r.val with
      | .ok c => c == List.replicate 72 0
      | _ => false) && answersSolve r.events && (measureSyndrome d.H (List.replicate 72 0) != s)

set_option maxRecDepth 100000 in
theorem cubeSyndromeCheck223_true : cubeSyndromeCheck223 = true := by decide +kernel

/-- on the cubic lattice 2×2×2 the same kind of X error is decoded to itself (an `.ok` call, to
    which the theorems above apply) -/
def okCheck222 : Bool :=
  match witnessDec 2 2 2 with
  | .error _ => false
  | .ok d =>
    match (witnessCall d (measureSyndrome d.H (xError 24 0))).val with
    | .ok c => c == xError 24 0
    | _ => false

set_option maxRecDepth 100000 in
theorem okCheck222_true : okCheck222 = true := by decide +kernel

/-- the repaired code on the input of the former `KeyError` witness: X on qubit 0 of 3×2×2 is
    decoded to itself -/
def okCheck322 : Bool :=
  match witnessDec 3 2 2 with
  | .error _ => false
  | .ok d =>
    let r := witnessCall d (measureSyndrome d.H (xError 36 0))
    (match r.val with
      | .ok c => c == xError 36 0
      | _ => false) && answersSolve r.events

set_option maxRecDepth 100000 in
theorem okCheck322_true : okCheck322 = true := by decide +kernel

/-- the repaired code on the input of the former wrong-syndrome witness: X on qubit 2 of 2×2×3 is
    decoded to itself -/
def okCheck223 : Bool :=
  match witnessDec 2 2 3 with
  | .error _ => false
  | .ok d =>
    let r := witnessCall d (measureSyndrome d.H (xError 36 2))
    (match r.val with
      | .ok c => c == xError 36 2
      | _ => false) && answersSolve r.events

set_option maxRecDepth 100000 in
theorem okCheck223_true : okCheck223 = true := by decide +kernel

end Panqec.XCube
