/-
C08 helper lemmas, part 3: the object-history state machine of `Model/Deform.lean`.
Invariant over every sequence of `deform` / property-access operations:

  (captured = none      ∧ current = orig)             -- no deform so far
∨ (captured = some orig ∧ current = orig.deform D)    -- D = the last deform

and every filled cache holds the matrix of `current`.  Core Lean only.
-/
import PanqecVerif.Model.Deform
import PanqecVerif.Proofs.Bits

namespace Panqec.Deform

open Panqec

/-- the invariant; `last` is the deformation of the last `deform` so far -/
structure Inv (orig : CodeData) (last : Option (Coord → PauliMap)) (s : Obj) : Prop where
  orig_eq : s.orig = orig
  getters : match last with
    | none => s.captured = none ∧ s.current = orig
    | some D => s.captured = some orig ∧ s.current = orig.deform D
  cH : s.cachedH = none ∨ s.cachedH = some (stabilizerMatrix s.current)
  cLx : s.cachedLx = none ∨ s.cachedLx = some (logicalsX s.current)
  cLz : s.cachedLz = none ∨ s.cachedLz = some (logicalsZ s.current)

theorem inv_init (orig : CodeData) : Inv orig none (Obj.init orig) :=
  ⟨rfl, ⟨rfl, rfl⟩, .inl rfl, .inl rfl, .inl rfl⟩

/-- `deform D` re-establishes the invariant with `last = D`, whatever was there before -/
theorem inv_deform {orig : CodeData} {last : Option (Coord → PauliMap)} {s : Obj}
    (h : Inv orig last s) (D : Coord → PauliMap) : Inv orig (some D) (s.deform D) := by
  refine ⟨h.orig_eq, ?_, .inl rfl, .inl rfl, .inl rfl⟩
  cases last with
  | none =>
    have hg : s.captured = none ∧ s.current = orig := h.getters
    simp [Obj.deform, hg.1, hg.2]
  | some D' =>
    have hg : s.captured = some orig ∧ s.current = orig.deform D' := h.getters
    simp [Obj.deform, hg.1]

theorem inv_readH {orig : CodeData} {last : Option (Coord → PauliMap)} {s : Obj}
    (h : Inv orig last s) : Inv orig last s.readH.1 := by
  unfold Obj.readH
  cases hc : s.cachedH with
  | some m => exact h
  | none => exact ⟨h.orig_eq, h.getters, .inr rfl, h.cLx, h.cLz⟩

theorem inv_readLx {orig : CodeData} {last : Option (Coord → PauliMap)} {s : Obj}
    (h : Inv orig last s) : Inv orig last s.readLx.1 := by
  unfold Obj.readLx
  cases hc : s.cachedLx with
  | some m => exact h
  | none => exact ⟨h.orig_eq, h.getters, h.cH, .inr rfl, h.cLz⟩

theorem inv_readLz {orig : CodeData} {last : Option (Coord → PauliMap)} {s : Obj}
    (h : Inv orig last s) : Inv orig last s.readLz.1 := by
  unfold Obj.readLz
  cases hc : s.cachedLz with
  | some m => exact h
  | none => exact ⟨h.orig_eq, h.getters, h.cH, h.cLx, .inr rfl⟩

/-- the last deformation after one more operation -/
def lastAfter (last : Option (Coord → PauliMap)) : Step → Option (Coord → PauliMap)
  | .deform D => some D
  | _ => last

theorem inv_step {orig : CodeData} {last : Option (Coord → PauliMap)} {s : Obj}
    (h : Inv orig last s) (op : Step) : Inv orig (lastAfter last op) (s.step false op) := by
  cases op with
  | deform D => exact inv_deform h D
  | accessH => exact inv_readH h
  | accessLx => exact inv_readLx h
  | accessLz => exact inv_readLz h

theorem lastDeform_append_singleton : ∀ (ops : List Step) (op : Step),
    lastDeform (ops ++ [op]) = lastAfter (lastDeform ops) op
  | [], op => by cases op <;> rfl
  | o :: ops, op => by
    have ih := lastDeform_append_singleton ops op
    cases o <;> cases op <;> simp_all [lastDeform, lastAfter]

theorem lastDeform_append : ∀ (pre post : List Step),
    lastDeform (pre ++ post) =
      match lastDeform post with
      | some D => some D
      | none => lastDeform pre
  | [], post => by
    simp only [List.nil_append]
    cases lastDeform post <;> rfl
  | o :: pre, post => by
    have ih := lastDeform_append pre post
    cases o <;> simp only [List.cons_append, lastDeform, ih] <;>
      cases lastDeform post <;> rfl

/-- a history without `deform` -/
def noDeform (ops : List Step) : Prop := ∀ op ∈ ops, ∀ D, op ≠ .deform D

theorem lastDeform_of_noDeform : ∀ (ops : List Step), noDeform ops → lastDeform ops = none
  | [], _ => rfl
  | o :: ops, h => by
    have ih := lastDeform_of_noDeform ops (fun op hop => h op (by simp [hop]))
    cases o with
    | deform D => exact absurd rfl (h (.deform D) (by simp) D)
    | accessH => simpa [lastDeform] using ih
    | accessLx => simpa [lastDeform] using ih
    | accessLz => simpa [lastDeform] using ih

theorem run_append_singleton (b : Bool) (s : Obj) (ops : List Step) (op : Step) :
    Obj.run b s (ops ++ [op]) = (Obj.run b s ops).step b op := by
  simp [Obj.run, List.foldl_append]

/-- the invariant holds after every history -/
theorem inv_run (orig : CodeData) : ∀ ops : List Step,
    Inv orig (lastDeform ops) (Obj.run false (Obj.init orig) ops) := by
  intro ops
  induction ops using list_rev_induction with
  | hnil => exact inv_init orig
  | hsnoc ops op ih =>
    rw [run_append_singleton, lastDeform_append_singleton]
    exact inv_step ih op

/-- under the invariant a read returns the matrices of the installed getters, whichever
    caches are filled -/
theorem observe_of_inv {orig : CodeData} {last : Option (Coord → PauliMap)} {s : Obj}
    (h : Inv orig last s) : s.observe = matricesOf s.current := by
  have hH : s.readH.2 = stabilizerMatrix s.current := by
    unfold Obj.readH
    rcases h.cH with hc | hc <;> simp [hc]
  have hX : s.readLx.2 = logicalsX s.current := by
    unfold Obj.readLx
    rcases h.cLx with hc | hc <;> simp [hc]
  have hZ : s.readLz.2 = logicalsZ s.current := by
    unfold Obj.readLz
    rcases h.cLz with hc | hc <;> simp [hc]
  simp [Obj.observe, matricesOf, hH, hX, hZ]

/-- the getters the property prescribes after a history whose last deformation is `last` -/
def codeAfter (orig : CodeData) : Option (Coord → PauliMap) → CodeData
  | none => orig
  | some D => orig.deform D

theorem current_of_inv {orig : CodeData} {last : Option (Coord → PauliMap)} {s : Obj}
    (h : Inv orig last s) : s.current = codeAfter orig last := by
  cases last with
  | none => exact (h.getters : _ ∧ _).2
  | some D => exact (h.getters : _ ∧ _).2

theorem expected_eq (orig : CodeData) (ops : List Step) :
    expected orig ops = matricesOf (codeAfter orig (lastDeform ops)) := by
  unfold expected
  cases lastDeform ops <;> rfl

/-- **history independence**: after every sequence of operations the observable matrices
    are those of the last deformation applied to the UNDEFORMED code (of the undeformed
    code itself if there was no `deform`) -/
theorem history_independent (orig : CodeData) (ops : List Step) :
    (Obj.run false (Obj.init orig) ops).observe = expected orig ops := by
  have h := inv_run orig ops
  rw [observe_of_inv h, current_of_inv h, expected_eq]

/-- the form "any prefix, then `deform D`, then any accesses" -/
theorem history_independent_last (orig : CodeData) (pre post : List Step)
    (D : Coord → PauliMap) (hpost : noDeform post) :
    (Obj.run false (Obj.init orig) (pre ++ .deform D :: post)).observe =
      matricesOf (orig.deform D) := by
  rw [history_independent, expected, lastDeform_append]
  simp [lastDeform, lastDeform_of_noDeform post hpost]

/-- no `deform` at all: the observables are those of the class's own getters -/
theorem history_independent_none (orig : CodeData) (ops : List Step) (h : noDeform ops) :
    (Obj.run false (Obj.init orig) ops).observe = matricesOf orig := by
  rw [history_independent, expected, lastDeform_of_noDeform ops h]

/-- the coordinates are never touched: `n` (and the column layout) is constant -/
theorem qubits_deform (c : CodeData) (D : Coord → PauliMap) : (c.deform D).qubits = c.qubits := rfl
theorem stabs_deform (c : CodeData) (D : Coord → PauliMap) : (c.deform D).stabs = c.stabs := rfl
theorem n_deform (c : CodeData) (D : Coord → PauliMap) : (c.deform D).n = c.n := rfl
theorem k_deform (c : CodeData) (D : Coord → PauliMap) : (c.deform D).k = c.k := by
  simp [CodeData.k, CodeData.deform]

end Panqec.Deform
