/-
`HollowRhombicCode`, rank clause, part N: the sizes without hole (`Lx ≤ 2`, `Ly ≤ 3` or `Lz ≤ 3`: the
test `_is_in_hole` is never true) and the sizes whose hole is one layer thin in two directions (the
test is true only at locations with two odd coordinates, which are neither qubits nor vertices).  The selected triangles are the boxes of `RhombicPlanarCode`
(all of axis 3 and 2, the row `y = 2Ly−2` of axis 1, the last column and the upper triangles of
axis 0) and `rankFamily` has `n − 1` members.
-/
import PanqecVerif.Proofs.LatHollowRhombicCodeRankM

set_option linter.unusedVariables false
set_option linter.unusedSimpArgs false
set_option linter.unnecessarySeqFocus false

namespace Panqec.HollowRhombicCode
open Panqec.Lat3Db Panqec.Rhombic
open Panqec.Planar3DCode (inE inO inE2 inO1)

/-- the size has no hole, or a hole that is one layer thin in two directions: no vertex, no leg of a
    triangle and no corner of a cube is ever in the hole (`_is_in_hole` is true only at locations with
    two odd coordinates, or nowhere) -/
def NoHole (Lx Ly Lz : Nat) : Prop :=
  Lx ≤ 2 ∨ Ly ≤ 3 ∨ Lz ≤ 3 ∨ (Lx = 3 ∧ Ly = 4) ∨ (Lx = 3 ∧ Lz = 4) ∨ (Ly = 4 ∧ Lz = 4)

instance (Lx Ly Lz : Nat) : Decidable (NoHole Lx Ly Lz) := by unfold NoHole; infer_instance

section
variable {Lx Ly Lz : Nat}

/-- a location with at most one odd coordinate is not in the hole -/
theorem noHole_hole (h : NoHole Lx Ly Lz) (x y z : Int)
    (hp : (x % 2 = 0 ∧ y % 2 = 0) ∨ (x % 2 = 0 ∧ z % 2 = 0) ∨ (y % 2 = 0 ∧ z % 2 = 0)) :
    ¬ Hole Lx Ly Lz x y z := by
  unfold NoHole at h; unfold Hole; omega

theorem pt_noHole (h : NoHole Lx Ly Lz) {a x y z : Int} (hx : x % 2 = 0) (hy : y % 2 = 0)
    (hz : z % 2 = 0) :
    PT Lx Ly Lz a x y z ↔ (1 ≤ y + sgnY a ∧ y + sgnY a ≤ 2 * (Ly : Int) - 3) := by
  unfold PT
  constructor
  · intro hp; exact hp.2.2.2.2
  · intro hp
    exact ⟨noHole_hole h _ _ _ (Or.inl ⟨hx, hy⟩), noHole_hole h _ _ _ (Or.inr (Or.inr ⟨hy, hz⟩)),
      noHole_hole h _ _ _ (Or.inr (Or.inl ⟨hx, hz⟩)), noHole_hole h _ _ _ (Or.inl ⟨hx, hy⟩), hp⟩

/-- the upper triangles of axis 0 and the last column -/
def B0N (Lx Ly Lz : Nat) (x y z : Int) : Prop :=
  (InAp (2 * Lx - 2) 1 x ∧ InAp 0 (Ly - 1) y ∧ InAp 0 Lz z) ∨
  (InAp 2 (Lx - 2) x ∧ InAp 0 (Ly - 1) y ∧ InAp 2 (Lz - 1) z ∧ (x + y + z) % 4 = 2)

/-- the row of axis 1 -/
def B1N (Lx Ly Lz : Nat) (x y z : Int) : Prop :=
  InAp 2 (Lx - 1) x ∧ InAp (2 * Ly - 2) 1 y ∧ InAp 0 Lz z

theorem ax3N (h : NoHole Lx Ly Lz) (hx : 2 ≤ Lx) (hy : 2 ≤ Ly) (x y z : Int) :
    TS Lx Ly Lz 3 x y z ↔ B3 Lx Ly Lz x y z := by
  unfold B3
  constructor
  · rintro ⟨_, hv, hp, _⟩
    have h5 := hp.2.2.2.2
    rw [sgnY_3] at h5
    unfold VertexLoc inE2 inE at hv
    unfold InAp; omega
  · intro hb
    unfold InAp at hb
    refine ⟨by decide, by unfold VertexLoc inE2 inE; omega, ?_, Or.inl rfl⟩
    rw [pt_noHole h (by omega) (by omega) (by omega), sgnY_3]; omega

theorem ax2N (h : NoHole Lx Ly Lz) (hx : 2 ≤ Lx) (hy : 2 ≤ Ly) (x y z : Int) :
    TS Lx Ly Lz 2 x y z ↔ B2 Lx Ly Lz x y z := by
  unfold B2
  constructor
  · rintro ⟨_, hv, hp, _⟩
    have h5 := hp.2.2.2.2
    rw [sgnY_2] at h5
    unfold VertexLoc inE2 inE at hv
    unfold InAp; omega
  · intro hb
    unfold InAp at hb
    refine ⟨by decide, by unfold VertexLoc inE2 inE; omega, ?_, Or.inr (Or.inl rfl)⟩
    rw [pt_noHole h (by omega) (by omega) (by omega), sgnY_2]; omega

theorem ax1N (h : NoHole Lx Ly Lz) (hx : 2 ≤ Lx) (hy : 2 ≤ Ly) (x y z : Int) :
    TS Lx Ly Lz 1 x y z ↔ B1N Lx Ly Lz x y z := by
  unfold B1N
  constructor
  · rintro ⟨_, hv, hp, hc⟩
    have hv' := hv
    unfold VertexLoc inE2 inE at hv'
    have h5 := hp.2.2.2.2
    rw [sgnY_1] at h5
    unfold SelC at hc
    rcases hc with hc | hc | ⟨_, hc | hc⟩ | ⟨hc, _⟩
    · omega
    · omega
    · by_cases hy3 : y + 1 ≤ 2 * (Ly : Int) - 3
      · exfalso; apply hc
        rw [pt_noHole h (by omega) (by omega) (by omega), sgnY_3]; omega
      · unfold InAp; omega
    · exfalso; apply hc
      rw [pt_noHole h (by omega) (by omega) (by omega), sgnY_2]; omega
    · omega
  · intro hb
    unfold InAp at hb
    refine ⟨by decide, by unfold VertexLoc inE2 inE; omega, ?_, ?_⟩
    · rw [pt_noHole h (by omega) (by omega) (by omega), sgnY_1]; omega
    · refine Or.inr (Or.inr (Or.inl ⟨rfl, Or.inl ?_⟩))
      intro hp
      have h5 := hp.2.2.2.2
      rw [sgnY_3] at h5
      omega

theorem ax0N (h : NoHole Lx Ly Lz) (hx : 2 ≤ Lx) (hy : 2 ≤ Ly) (x y z : Int) :
    TS Lx Ly Lz 0 x y z ↔ B0N Lx Ly Lz x y z := by
  unfold B0N
  constructor
  · rintro ⟨_, hv, hp, hc⟩
    have hv' := hv
    unfold VertexLoc inE2 inE at hv'
    have h5 := hp.2.2.2.2
    rw [sgnY_0] at h5
    unfold SelC at hc
    rcases hc with hc | hc | ⟨hc, _⟩ | ⟨_, hc | hc | hc | hc | hc | hc⟩
    · omega
    · omega
    · omega
    · left; unfold InAp; omega
    · by_cases hl : x = 2 * (Lx : Int) - 2
      · left; unfold InAp; omega
      · right; unfold InAp; omega
    · exfalso; apply hc.2.2
      rw [pt_noHole h (by omega) (by omega) (by omega), sgnY_0]; omega
    · exfalso; unfold QC at hc; unfold NoHole at h; omega
    · exfalso; unfold QY at hc; unfold NoHole at h; omega
    · exfalso; unfold QX at hc; unfold NoHole at h; omega
  · intro hb
    unfold InAp at hb
    refine ⟨by decide, by unfold VertexLoc inE2 inE; omega, ?_, ?_⟩
    · rw [pt_noHole h (by omega) (by omega) (by omega), sgnY_0]; omega
    · exact Or.inr (Or.inr (Or.inr ⟨rfl, by omega⟩))

/-- the boxes of the selected triangles -/
def LN (Lx Ly Lz : Nat) : List Coord :=
  bx 3 2 (Lx - 1) 0 (Ly - 1) 0 Lz tt ++ (bx 2 2 (Lx - 1) 2 (Ly - 1) 0 Lz tt ++
  (bx 1 2 (Lx - 1) (2 * Ly - 2) 1 0 Lz tt ++ (bx 0 (2 * Lx - 2) 1 0 (Ly - 1) 0 Lz tt ++
  bx 0 2 (Lx - 2) 0 (Ly - 1) 2 (Lz - 1) (chk 2))))

theorem selTriangles_noHole (h : NoHole Lx Ly Lz) (hx : 2 ≤ Lx) (hy : 2 ≤ Ly) :
    ((triangles Lx Ly Lz).filter (selTri Lx Ly Lz)).length = (LN Lx Ly Lz).length := by
  have hB := (spec_bx 3 2 (Lx - 1) 0 (Ly - 1) 0 Lz tt).append
    ((spec_bx 2 2 (Lx - 1) 2 (Ly - 1) 0 Lz tt).append
    ((spec_bx 1 2 (Lx - 1) (2 * Ly - 2) 1 0 Lz tt).append
    ((spec_bx 0 (2 * Lx - 2) 1 0 (Ly - 1) 0 Lz tt).append
    (spec_bx 0 2 (Lx - 2) 0 (Ly - 1) 2 (Lz - 1) (chk 2))
    (by intro a x y z h1 h2; simp only [chk_iff, tt_iff] at h1 h2; unfold InAp at h1 h2; omega))
    (by intro a x y z h1 h2; omega))
    (by intro a x y z h1 h2; omega))
    (by intro a x y z h1 h2; omega)
  apply (spec_selTriangles Lx Ly Lz).length_eq hB
  intro a x y z
  simp only [chk_iff, tt_iff, and_true]
  constructor
  · intro ht
    have ha := ht.1
    have h4 : a = 0 ∨ a = 1 ∨ a = 2 ∨ a = 3 := by omega
    rcases h4 with rfl | rfl | rfl | rfl
    · rcases (ax0N h hx hy x y z).mp ht with hb | hb
      · exact Or.inr (Or.inr (Or.inr (Or.inl ⟨rfl, hb⟩)))
      · exact Or.inr (Or.inr (Or.inr (Or.inr ⟨rfl, hb⟩)))
    · exact Or.inr (Or.inr (Or.inl ⟨rfl, (ax1N h hx hy x y z).mp ht⟩))
    · exact Or.inr (Or.inl ⟨rfl, (ax2N h hx hy x y z).mp ht⟩)
    · exact Or.inl ⟨rfl, (ax3N h hx hy x y z).mp ht⟩
  · rintro (⟨rfl, hb⟩ | ⟨rfl, hb⟩ | ⟨rfl, hb⟩ | ⟨rfl, hb⟩ | ⟨rfl, hb⟩)
    · exact (ax3N h hx hy x y z).mpr hb
    · exact (ax2N h hx hy x y z).mpr hb
    · exact (ax1N h hx hy x y z).mpr hb
    · exact (ax0N h hx hy x y z).mpr (Or.inl hb)
    · exact (ax0N h hx hy x y z).mpr (Or.inr hb)

theorem length_LN (Lx Ly Lz : Nat) : (LN Lx Ly Lz).length =
    (Lx - 1) * (Ly - 1) * Lz + ((Lx - 1) * (Ly - 1) * Lz + ((Lx - 1) * 1 * Lz +
    (1 * (Ly - 1) * Lz + half ((Lx - 2) * ((Ly - 1) * (Lz - 1))) false))) := by
  unfold LN
  simp only [List.length_append, length_bx_tt]
  rw [length_bx_chk _ _ _ _ _ _ _ _ (by decide) (by decide)]
  rfl

/-- the arithmetic of the count for a size without hole (the count of `RhombicPlanarCode`) -/
theorem arith_noHole (a b c C T N : Nat)
    (h1 : C = half ((a + 2) * ((b + 2 + 1) * c)) true)
    (h2 : T = (a + 1) * (b + 1) * (c + 1) + ((a + 1) * (b + 1) * (c + 1) + ((a + 1) * 1 * (c + 1) +
      (1 * (b + 1) * (c + 1) + half (a * ((b + 1) * c)) false))))
    (h3 : N = (a + 2) * (b + 2) * (c + 1) + (a + 1) * (b + 1) * (c + 1) + (a + 1) * (b + 2) * c) :
    C + T + 1 = N := by
  simp only [Nat.one_mul, Nat.mul_one, half_mul_true, half_mul_false] at h1 h2
  rcases even_or_odd' a with ⟨a', rfl⟩ | ⟨a', rfl⟩ <;>
  rcases even_or_odd' b with ⟨b', rfl⟩ | ⟨b', rfl⟩ <;>
  rcases even_or_odd' c with ⟨c', rfl⟩ | ⟨c', rfl⟩ <;>
  (simp only [Nat.add_assoc, Nat.reduceAdd,
      e2, e3, e4, e5, e6, e7, half_even, half_odd_true, half_odd_false] at h1 h2
   ring_nf at h1 h2 h3 ⊢
   omega)

/-- `rankFamily` has `n − 1` members: every size of the family without hole -/
theorem noHole_count (h : NoHole Lx Ly Lz) (hx : 2 ≤ Lx) (hy : 2 ≤ Ly) (hz : 1 ≤ Lz) :
    (rankFamily Lx Ly Lz).length + 1 = (qubits Lx Ly Lz).length := by
  have h1 := cubes_count Lx Ly Lz
  have h2 := selTriangles_noHole h hx hy
  have h3 := qubits_length_add Lx Ly Lz
  rw [length_LN] at h2
  unfold rankFamily
  rw [List.length_append]
  generalize (cubes Lx Ly Lz).length = C at *
  generalize ((triangles Lx Ly Lz).filter (selTri Lx Ly Lz)).length = T at *
  generalize (qubits Lx Ly Lz).length = N at *
  have z1 : (Lx - 4) * ((Ly - 5) * (Lz - 5)) = 0 := by
    unfold NoHole at h
    rcases h with h | h | h | h | h | h
    · have : Lx - 4 = 0 := by omega
      rw [this]; simp
    · have : Ly - 5 = 0 := by omega
      rw [this]; simp
    · have : Lz - 5 = 0 := by omega
      rw [this]; simp
    · have : Lx - 4 = 0 := by omega
      rw [this]; simp
    · have : Lx - 4 = 0 := by omega
      rw [this]; simp
    · have : Ly - 5 = 0 := by omega
      rw [this]; simp
  have z2 : (Lx - 2) * (Ly - 4) * (Lz - 4) + (Lx - 3) * (Ly - 3) * (Lz - 4) +
      (Lx - 3) * (Ly - 4) * (Lz - 3) = 0 := by
    unfold NoHole at h
    rcases h with h | h | h | h | h | h
    · have e1 : Lx - 2 = 0 := by omega
      have e2 : Lx - 3 = 0 := by omega
      rw [e1, e2]; simp
    · have e1 : Ly - 4 = 0 := by omega
      have e2 : Ly - 3 = 0 := by omega
      rw [e1, e2]; simp
    · have e1 : Lz - 4 = 0 := by omega
      have e2 : Lz - 3 = 0 := by omega
      rw [e1, e2]; simp
    · have e1 : Ly - 4 = 0 := by omega
      have e2 : Lx - 3 = 0 := by omega
      rw [e1, e2]; simp
    · have e1 : Lz - 4 = 0 := by omega
      have e2 : Lx - 3 = 0 := by omega
      rw [e1, e2]; simp
    · have e1 : Ly - 4 = 0 := by omega
      have e2 : Lz - 4 = 0 := by omega
      rw [e1, e2]; simp
  rw [z1] at h1
  rw [z2] at h3
  have hh : half 0 false = 0 := by decide
  rw [hh] at h1
  obtain ⟨a, rfl⟩ : ∃ a, Lx = a + 2 := ⟨Lx - 2, by omega⟩
  obtain ⟨b, rfl⟩ : ∃ b, Ly = b + 2 := ⟨Ly - 2, by omega⟩
  obtain ⟨c, rfl⟩ : ∃ c, Lz = c + 1 := ⟨Lz - 1, by omega⟩
  simp only [show a + 2 - 1 = a + 1 from by omega, show a + 2 - 2 = a from by omega,
    show b + 2 - 1 = b + 1 from by omega, show c + 1 - 1 = c from by omega,
    Nat.add_zero] at h1 h2 h3
  exact arith_noHole a b c C T N h1 h2 h3

end

end Panqec.HollowRhombicCode
