/-
`HollowRhombicCode`, rank clause, part D (continued): the sizes with `Lz = 4` (the hole is the slab
`z = 3`).  `Lx = 4`, `Ly ≥ 5`: a kept lower triangle `(0, 2, y, 2)` under the hole edge `(3, ·, 3)` (`QY`) has
the probe `X(3,y,2) X(4,y−1,2) X(3,y−2,2)`; among the selected triangles of rank not smaller only
`(1, 4, y, 2)` and `(3, 4, y−2, 2)` contain one of the three qubits, and each of them contains two.
`Ly = 5`, `Lx ≥ 5`: a kept lower triangle `(0, x, 2, 2)` under the hole edge `(·, 3, 3)` (`QX`) has the
probe `X(x,3,2) X(x−1,4,2)`; only `(1, x, 4, 2)` contains one of the two qubits, and it contains both.
Core Lean only.
-/
import PanqecVerif.Proofs.LatHollowRhombicCodeRankD

set_option linter.unusedVariables false
set_option linter.unusedSimpArgs false

namespace Panqec.HollowRhombicCode
open Panqec.Cubic3D
open Panqec.Planar3DCode (inE inO inE2 inO1)

section
variable {Lx Ly Lz : Nat} {x y b u v w : Int}

/-- for `Lx = 4`, `Lz = 4` the lower triangle `(0, 4, 2, 2)` is not selected -/
theorem not_sel_0422 (h4 : Lx = 4 ∧ Lz = 4 ∧ 5 ≤ Ly) : ¬ TS Lx Ly Lz 0 4 2 2 := by
  rintro ⟨_, _, _, hc⟩
  unfold SelC QC QY QX at hc
  rcases hc with hc | hc | ⟨hc, _⟩ | ⟨_, hc | hc | ⟨_, _, hc⟩ | hc | hc | hc⟩
  · omega
  · omega
  · omega
  · omega
  · omega
  · apply hc
    unfold PT
    rw [sgnX_0, sgnY_0, sgnZ_01 (Or.inl rfl)]
    have hcol : ¬ ((4 : Int) + 2 + (2 + 2)) % 4 = 0 := by decide
    rw [if_neg hcol]
    refine ⟨?_, ?_, ?_, ?_, by omega, by omega⟩ <;> (intro hh; unfold Hole at hh; omega)
  · omega
  · omega
  · omega

/-- for `Lx = 4`, `Lz = 4` the triangle `(1, 4, 2, 2)` is not selected (all four triangles of the
    vertex are listed) -/
theorem not_sel_1422 (h4 : Lx = 4 ∧ Lz = 4 ∧ 5 ≤ Ly) : ¬ TS Lx Ly Lz 1 4 2 2 := by
  rintro ⟨_, _, _, hc⟩
  unfold SelC at hc
  have hcol : ((4 : Int) + 2 + 2) % 4 = 0 := by decide
  rcases hc with hc | hc | ⟨_, hc | hc⟩ | ⟨hc, _⟩
  · omega
  · omega
  · apply hc
    unfold PT
    rw [sgnX_3, sgnY_3, sgnZ_23 (Or.inr rfl), if_pos hcol]
    refine ⟨?_, ?_, ?_, ?_, by omega, by omega⟩ <;> (intro hh; unfold Hole at hh; omega)
  · apply hc
    unfold PT
    rw [sgnX_2, sgnY_2, sgnZ_23 (Or.inl rfl), if_pos hcol]
    refine ⟨?_, ?_, ?_, ?_, by omega, by omega⟩ <;> (intro hh; unfold Hole at hh; omega)
  · omega

/-! ### `QY` -/

theorem y_loc1 (hq : QY Lx Ly Lz 2 y 2) (hs : TS Lx Ly Lz 0 2 y 2) (ht : TS Lx Ly Lz b u v w)
    (hne : ¬ (0 = b ∧ 2 = u ∧ y = v ∧ 2 = w))
    (hle : mu Ly Lz [0, 2, y, 2] ≤ mu Ly Lz [b, u, v, w])
    (hmem : [3, y, 2] ∈ triKeys Lx Ly Lz b u v w) : b = 1 ∧ u = 4 ∧ v = y ∧ w = 2 := by
  have hlex := mu_lex hs.2.1 ht.2.1 hle
  have h3 := mem_triKeys hmem
  have hsv := hs.2.1
  have htv := ht.2.1
  have htp := ht.2.2.1
  unfold VertexLoc inE2 inE at hsv htv
  unfold PT Hole at htp
  unfold QY at hq
  have htab := sgn_table (u := u) (v := v) (w := w) ht.1 (by omega)
  clear hmem hle hs ht
  generalize sgnX b = sx at *
  generalize sgnY b = sy at *
  generalize sgnZ b u v w = sz at *
  rcases htab with ⟨rfl, hf⟩ | ⟨rfl, hf⟩ | ⟨rfl, hf⟩ | ⟨rfl, hf⟩ <;> simp [rk] at hlex <;>
    rcases h3 with h3 | h3 | h3 <;> omega

theorem y_loc3 (hq : QY Lx Ly Lz 2 y 2) (hs : TS Lx Ly Lz 0 2 y 2) (ht : TS Lx Ly Lz b u v w)
    (hne : ¬ (0 = b ∧ 2 = u ∧ y = v ∧ 2 = w))
    (hle : mu Ly Lz [0, 2, y, 2] ≤ mu Ly Lz [b, u, v, w])
    (hmem : [3, y - 2, 2] ∈ triKeys Lx Ly Lz b u v w) : b = 3 ∧ u = 4 ∧ v = y - 2 ∧ w = 2 := by
  have hlex := mu_lex hs.2.1 ht.2.1 hle
  have h3 := mem_triKeys hmem
  have hsv := hs.2.1
  have htv := ht.2.1
  have htp := ht.2.2.1
  have hq' := hq
  unfold VertexLoc inE2 inE at hsv htv
  unfold PT Hole at htp
  unfold QY at hq'
  have htab := sgn_table (u := u) (v := v) (w := w) ht.1 (by omega)
  have hloc : (b = 3 ∧ u = 4 ∧ v = y - 2 ∧ w = 2) ∨ (b = 1 ∧ u = 4 ∧ v = 2 ∧ w = 2 ∧ y = 4) := by
    clear hmem hle hs ht
    generalize sgnX b = sx at *
    generalize sgnY b = sy at *
    generalize sgnZ b u v w = sz at *
    rcases htab with ⟨rfl, hf⟩ | ⟨rfl, hf⟩ | ⟨rfl, hf⟩ | ⟨rfl, hf⟩ <;> simp [rk] at hlex <;>
      rcases h3 with h3 | h3 | h3 <;> omega
  rcases hloc with h | ⟨rfl, rfl, rfl, rfl, _⟩
  · exact h
  · exact absurd ht (not_sel_1422 ⟨hq'.2.2.2.2.2.2.1, hq'.2.2.2.2.2.1, hq'.2.2.2.2.2.2.2⟩)

theorem y_loc2 (hq : QY Lx Ly Lz 2 y 2) (hs : TS Lx Ly Lz 0 2 y 2) (ht : TS Lx Ly Lz b u v w)
    (hne : ¬ (0 = b ∧ 2 = u ∧ y = v ∧ 2 = w))
    (hle : mu Ly Lz [0, 2, y, 2] ≤ mu Ly Lz [b, u, v, w])
    (hmem : [4, y - 1, 2] ∈ triKeys Lx Ly Lz b u v w) :
    (b = 1 ∧ u = 4 ∧ v = y ∧ w = 2) ∨ (b = 3 ∧ u = 4 ∧ v = y - 2 ∧ w = 2) := by
  have hlex := mu_lex hs.2.1 ht.2.1 hle
  have h3 := mem_triKeys hmem
  have hsv := hs.2.1
  have htv := ht.2.1
  have htp := ht.2.2.1
  have hq' := hq
  unfold VertexLoc inE2 inE at hsv htv
  unfold PT Hole at htp
  unfold QY at hq'
  have htab := sgn_table (u := u) (v := v) (w := w) ht.1 (by omega)
  have hloc : (b = 1 ∧ u = 4 ∧ v = y ∧ w = 2) ∨ (b = 3 ∧ u = 4 ∧ v = y - 2 ∧ w = 2) ∨
      (b = 0 ∧ u = 4 ∧ v = 2 ∧ w = 2 ∧ y = 4) := by
    clear hmem hle hs ht
    generalize sgnX b = sx at *
    generalize sgnY b = sy at *
    generalize sgnZ b u v w = sz at *
    rcases htab with ⟨rfl, hf⟩ | ⟨rfl, hf⟩ | ⟨rfl, hf⟩ | ⟨rfl, hf⟩ <;> simp [rk] at hlex <;>
      rcases h3 with h3 | h3 | h3 <;> omega
  rcases hloc with h | h | ⟨rfl, rfl, rfl, rfl, _⟩
  · exact Or.inl h
  · exact Or.inr h
  · exact absurd ht (not_sel_0422 ⟨hq'.2.2.2.2.2.2.1, hq'.2.2.2.2.2.1, hq'.2.2.2.2.2.2.2⟩)

theorem y_qubits (hq : QY Lx Ly Lz 2 y 2) :
    [3, y, 2] ∈ qubits Lx Ly Lz ∧ [4, y - 1, 2] ∈ qubits Lx Ly Lz ∧ [3, y - 2, 2] ∈ qubits Lx Ly Lz := by
  unfold QY at hq
  refine ⟨?_, ?_, ?_⟩
  · rw [mem_qubits_x (by decide) (by omega) (by decide)]; unfold Qx Hole; omega
  · rw [mem_qubits_y (by decide) (by omega) (by decide)]; unfold Qy Hole; omega
  · rw [mem_qubits_x (by decide) (by omega) (by decide)]; unfold Qx Hole; omega

theorem y_keys_a (hq : QY Lx Ly Lz 2 y 2) :
    [3, y, 2] ∈ triKeys Lx Ly Lz 1 4 y 2 ∧ [4, y - 1, 2] ∈ triKeys Lx Ly Lz 1 4 y 2 ∧
    [3, y - 2, 2] ∉ triKeys Lx Ly Lz 1 4 y 2 := by
  obtain ⟨q1, q2, q3⟩ := y_qubits hq
  refine ⟨mem_triKeys_of (Or.inl ⟨by rw [sgnX_1]; rfl, rfl, rfl⟩) q1,
    mem_triKeys_of (Or.inr (Or.inl ⟨rfl, by rw [sgnY_1]; rfl, rfl⟩)) q2, ?_⟩
  intro h
  have := mem_triKeys h
  rw [sgnX_1, sgnY_1] at this
  rcases sgnZ_cases 1 4 y 2 with e | e <;> rw [e] at this <;> omega

theorem y_keys_b (hq : QY Lx Ly Lz 2 y 2) :
    [3, y, 2] ∉ triKeys Lx Ly Lz 3 4 (y - 2) 2 ∧ [4, y - 1, 2] ∈ triKeys Lx Ly Lz 3 4 (y - 2) 2 ∧
    [3, y - 2, 2] ∈ triKeys Lx Ly Lz 3 4 (y - 2) 2 := by
  obtain ⟨q1, q2, q3⟩ := y_qubits hq
  refine ⟨?_, mem_triKeys_of (Or.inr (Or.inl ⟨rfl, by rw [sgnY_3]; omega, rfl⟩)) q2,
    mem_triKeys_of (Or.inl ⟨by rw [sgnX_3]; rfl, rfl, rfl⟩) q3⟩
  intro h
  have := mem_triKeys h
  rw [sgnX_3, sgnY_3] at this
  rcases sgnZ_cases 3 4 (y - 2) 2 with e | e <;> rw [e] at this <;> omega

theorem later_y (hq : QY Lx Ly Lz 2 y 2) (hs : TS Lx Ly Lz 0 2 y 2) (ht : TS Lx Ly Lz b u v w)
    (hne : ¬ (0 = b ∧ 2 = u ∧ y = v ∧ 2 = w))
    (hle : mu Ly Lz [0, 2, y, 2] ≤ mu Ly Lz [b, u, v, w]) :
    ([[3, y, 2], [4, y - 1, 2], [3, y - 2, 2]].countP
      fun q => decide (q ∈ triKeys Lx Ly Lz b u v w)) % 2 = 0 := by
  have ha := y_keys_a hq
  have hb := y_keys_b hq
  by_cases m1 : [3, y, 2] ∈ triKeys Lx Ly Lz b u v w
  · obtain ⟨rfl, rfl, rfl, rfl⟩ := y_loc1 hq hs ht hne hle m1
    simp [List.countP_cons, ha.1, ha.2.1, ha.2.2]
  · by_cases m3 : [3, y - 2, 2] ∈ triKeys Lx Ly Lz b u v w
    · obtain ⟨rfl, rfl, rfl, rfl⟩ := y_loc3 hq hs ht hne hle m3
      simp [List.countP_cons, hb.1, hb.2.1, hb.2.2]
    · by_cases m2 : [4, y - 1, 2] ∈ triKeys Lx Ly Lz b u v w
      · rcases y_loc2 hq hs ht hne hle m2 with ⟨rfl, rfl, rfl, rfl⟩ | ⟨rfl, rfl, rfl, rfl⟩
        · exact absurd ha.1 m1
        · exact absurd hb.2.2 m3
      · simp [List.countP_cons, m1, m2, m3]

theorem diag_y (hq : QY Lx Ly Lz 2 y 2) :
    ([[3, y, 2], [4, y - 1, 2], [3, y - 2, 2]].countP
      fun q => decide (q ∈ triKeys Lx Ly Lz 0 2 y 2)) = 1 := by
  obtain ⟨q1, q2, q3⟩ := y_qubits hq
  have h1 : [3, y, 2] ∈ triKeys Lx Ly Lz 0 2 y 2 :=
    mem_triKeys_of (Or.inl ⟨by decide, rfl, rfl⟩) q1
  have h2 : [4, y - 1, 2] ∉ triKeys Lx Ly Lz 0 2 y 2 := by
    intro h; have := mem_triKeys h; omega
  have h3 : [3, y - 2, 2] ∉ triKeys Lx Ly Lz 0 2 y 2 := by
    intro h; have := mem_triKeys h
    rw [sgnX_0, sgnY_0] at this; omega
  simp [List.countP_cons, h1, h2, h3]

/-! ### `QX` -/

theorem x_loc1 (hq : QX Lx Ly Lz x 2 2) (hs : TS Lx Ly Lz 0 x 2 2) (ht : TS Lx Ly Lz b u v w)
    (hne : ¬ (0 = b ∧ x = u ∧ 2 = v ∧ 2 = w))
    (hle : mu Ly Lz [0, x, 2, 2] ≤ mu Ly Lz [b, u, v, w])
    (hmem : [x, 3, 2] ∈ triKeys Lx Ly Lz b u v w) : b = 1 ∧ u = x ∧ v = 4 ∧ w = 2 := by
  have hlex := mu_lex hs.2.1 ht.2.1 hle
  have h3 := mem_triKeys hmem
  have hsv := hs.2.1
  have htv := ht.2.1
  have htp := ht.2.2.1
  unfold VertexLoc inE2 inE at hsv htv
  unfold PT Hole at htp
  unfold QX at hq
  have htab := sgn_table (u := u) (v := v) (w := w) ht.1 (by omega)
  clear hmem hle hs ht
  generalize sgnX b = sx at *
  generalize sgnY b = sy at *
  generalize sgnZ b u v w = sz at *
  rcases htab with ⟨rfl, hf⟩ | ⟨rfl, hf⟩ | ⟨rfl, hf⟩ | ⟨rfl, hf⟩ <;> simp [rk] at hlex <;>
    rcases h3 with h3 | h3 | h3 <;> omega

theorem x_loc2 (hq : QX Lx Ly Lz x 2 2) (hs : TS Lx Ly Lz 0 x 2 2) (ht : TS Lx Ly Lz b u v w)
    (hne : ¬ (0 = b ∧ x = u ∧ 2 = v ∧ 2 = w))
    (hle : mu Ly Lz [0, x, 2, 2] ≤ mu Ly Lz [b, u, v, w])
    (hmem : [x - 1, 4, 2] ∈ triKeys Lx Ly Lz b u v w) : b = 1 ∧ u = x ∧ v = 4 ∧ w = 2 := by
  have hlex := mu_lex hs.2.1 ht.2.1 hle
  have h3 := mem_triKeys hmem
  have hsv := hs.2.1
  have htv := ht.2.1
  have htp := ht.2.2.1
  unfold VertexLoc inE2 inE at hsv htv
  unfold PT Hole at htp
  unfold QX at hq
  have htab := sgn_table (u := u) (v := v) (w := w) ht.1 (by omega)
  clear hmem hle hs ht
  generalize sgnX b = sx at *
  generalize sgnY b = sy at *
  generalize sgnZ b u v w = sz at *
  rcases htab with ⟨rfl, hf⟩ | ⟨rfl, hf⟩ | ⟨rfl, hf⟩ | ⟨rfl, hf⟩ <;> simp [rk] at hlex <;>
    rcases h3 with h3 | h3 | h3 <;> omega

theorem x_qubits (hq : QX Lx Ly Lz x 2 2) :
    [x, 3, 2] ∈ qubits Lx Ly Lz ∧ [x - 1, 4, 2] ∈ qubits Lx Ly Lz := by
  unfold QX at hq
  refine ⟨?_, ?_⟩
  · rw [mem_qubits_y (by omega) (by decide) (by decide)]; unfold Qy Hole; omega
  · rw [mem_qubits_x (by omega) (by decide) (by decide)]; unfold Qx Hole; omega

theorem x_keys (hq : QX Lx Ly Lz x 2 2) :
    [x, 3, 2] ∈ triKeys Lx Ly Lz 1 x 4 2 ∧ [x - 1, 4, 2] ∈ triKeys Lx Ly Lz 1 x 4 2 := by
  obtain ⟨q1, q2⟩ := x_qubits hq
  exact ⟨mem_triKeys_of (Or.inr (Or.inl ⟨rfl, by rw [sgnY_1]; rfl, rfl⟩)) q1,
    mem_triKeys_of (Or.inl ⟨by rw [sgnX_1]; rfl, rfl, rfl⟩) q2⟩

theorem later_x (hq : QX Lx Ly Lz x 2 2) (hs : TS Lx Ly Lz 0 x 2 2) (ht : TS Lx Ly Lz b u v w)
    (hne : ¬ (0 = b ∧ x = u ∧ 2 = v ∧ 2 = w))
    (hle : mu Ly Lz [0, x, 2, 2] ≤ mu Ly Lz [b, u, v, w]) :
    ([[x, 3, 2], [x - 1, 4, 2]].countP
      fun q => decide (q ∈ triKeys Lx Ly Lz b u v w)) % 2 = 0 := by
  have hk := x_keys hq
  by_cases m1 : [x, 3, 2] ∈ triKeys Lx Ly Lz b u v w
  · obtain ⟨rfl, rfl, rfl, rfl⟩ := x_loc1 hq hs ht hne hle m1
    simp [List.countP_cons, hk.1, hk.2]
  · by_cases m2 : [x - 1, 4, 2] ∈ triKeys Lx Ly Lz b u v w
    · obtain ⟨rfl, rfl, rfl, rfl⟩ := x_loc2 hq hs ht hne hle m2
      exact absurd hk.1 m1
    · simp [List.countP_cons, m1, m2]

theorem diag_x (hq : QX Lx Ly Lz x 2 2) :
    ([[x, 3, 2], [x - 1, 4, 2]].countP
      fun q => decide (q ∈ triKeys Lx Ly Lz 0 x 2 2)) = 1 := by
  obtain ⟨q1, q2⟩ := x_qubits hq
  have h1 : [x, 3, 2] ∈ triKeys Lx Ly Lz 0 x 2 2 :=
    mem_triKeys_of (Or.inr (Or.inl ⟨rfl, by decide, rfl⟩)) q1
  have h2 : [x - 1, 4, 2] ∉ triKeys Lx Ly Lz 0 x 2 2 := by
    intro h; have := mem_triKeys h
    rw [sgnX_0, sgnY_0] at this; omega
  simp [List.countP_cons, h1, h2]

end

end Panqec.HollowRhombicCode
