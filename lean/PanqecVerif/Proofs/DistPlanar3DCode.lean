/-
Planar3DCode, all sizes, C17: translates of the two listed logical operators across the lattice,
the parity argument with open boundaries, weights of the listed logicals.

`X̄` (X on the x edges of the line `y = z = 0`, weight `Lx`) has the `Ly·Lz` translates
`(y, z) = (2j, 2k)`: moving `z` by 2 multiplies by the row of xz face generators between the two
lines, moving `y` by 2 by the row of xy face generators.  `Z̄` (Z on the x edges of the plane
`x = 1`, weight `Ly·Lz`) has the `Lx` translates `x = 2i + 1`; consecutive translates differ by
the slab of vertex generators between them.  A generator at the boundary has fewer qubits: the
missing neighbours are not qubits (`indQ` is `0` there).  So the distance is `min Lx (Ly·Lz)`.
-/
import PanqecVerif.Proofs.DistCubic3D
import PanqecVerif.Proofs.LatPlanar3DCodeWF

namespace Panqec.Planar3DCode
open Panqec.Cubic3D Panqec.Lat2D

/-- indicator restricted to the qubits: `0` outside the lattice -/
def indQ (Lx Ly Lz : Nat) (P : Pauli) (b : Op) (q : Coord) : Nat :=
  if isq Lx Ly Lz q = true then ind P b q else 0

theorem indQ_of {Lx Ly Lz : Nat} {q : Coord} (P : Pauli) (b : Op) (h : q ∈ qubits Lx Ly Lz) :
    indQ Lx Ly Lz P b q = ind P b q := by
  unfold indQ; rw [if_pos (isq_iff.mpr h)]

theorem indQ_of_not {Lx Ly Lz : Nat} {q : Coord} (P : Pauli) (b : Op)
    (h : q ∉ qubits Lx Ly Lz) : indQ Lx Ly Lz P b q = 0 := by
  unfold indQ; rw [if_neg (fun h' => h (isq_iff.mp h'))]

theorem ite_and_bool (p q : Bool) :
    (if (p && q) = true then 1 else 0) = if q = true then (if p = true then 1 else 0) else 0 := by
  cases p <;> cases q <;> rfl

/-- `b` commutes with every stabilizer generator of the lattice -/
def CommStabs (Lx Ly Lz : Nat) (b : Op) : Prop :=
  ∀ s ∈ (lattice Lx Ly Lz).stabs, opAntiCount ((lattice Lx Ly Lz).getStab s) b % 2 = 0

variable {Lx Ly Lz : Nat}

/-! ### one generator (neighbours given by name) -/

theorem vertex_even {b : Op} (hb : CommStabs Lx Ly Lz b) {x y z : Int}
    (hv : isVertex Lx Ly Lz x y z) {xm xp ym yp zm zp : Int} (e1 : x + 1 = xp) (e2 : x - 1 = xm)
    (e3 : y + 1 = yp) (e4 : y - 1 = ym) (e5 : z + 1 = zp) (e6 : z - 1 = zm) :
    (indQ Lx Ly Lz Pauli.Z b [xp, y, z] + indQ Lx Ly Lz Pauli.Z b [xm, y, z]
      + indQ Lx Ly Lz Pauli.Z b [x, yp, z] + indQ Lx Ly Lz Pauli.Z b [x, ym, z]
      + indQ Lx Ly Lz Pauli.Z b [x, y, zp] + indQ Lx Ly Lz Pauli.Z b [x, y, zm]) % 2 = 0 := by
  have h := hb [x, y, z] (by rw [lattice_stabs, mem_stabs]; exact Or.inl hv)
  rw [lattice_getStab, getStab_vertex hv, opAntiCount_uop_hit] at h
  subst e1 e2 e3 e4 e5 e6
  unfold vertexKeys vertexCands at h
  rw [List.countP_filter] at h
  simp only [List.countP_cons, List.countP_nil, ite_and_bool] at h
  unfold indQ ind
  omega

theorem faceXY_even {b : Op} (hb : CommStabs Lx Ly Lz b) {x y z : Int}
    (hv : isFaceXY Lx Ly Lz x y z) {xm xp ym yp : Int} (e1 : x - 1 = xm) (e2 : x + 1 = xp)
    (e3 : y - 1 = ym) (e4 : y + 1 = yp) :
    (indQ Lx Ly Lz Pauli.X b [xm, y, z] + indQ Lx Ly Lz Pauli.X b [xp, y, z]
      + indQ Lx Ly Lz Pauli.X b [x, ym, z] + indQ Lx Ly Lz Pauli.X b [x, yp, z]) % 2 = 0 := by
  have h := hb [x, y, z] (by rw [lattice_stabs, mem_stabs]; exact Or.inr (Or.inl hv))
  rw [lattice_getStab, getStab_faceXY hv, opAntiCount_uop_hit] at h
  subst e1 e2 e3 e4
  unfold faceXYKeys faceXYCands at h
  rw [List.countP_filter] at h
  simp only [List.countP_cons, List.countP_nil, ite_and_bool] at h
  unfold indQ ind
  omega

theorem faceXZ_even {b : Op} (hb : CommStabs Lx Ly Lz b) {x y z : Int}
    (hv : isFaceXZ Lx Ly Lz x y z) {xm xp zm zp : Int} (e1 : x - 1 = xm) (e2 : x + 1 = xp)
    (e3 : z - 1 = zm) (e4 : z + 1 = zp) :
    (indQ Lx Ly Lz Pauli.X b [xm, y, z] + indQ Lx Ly Lz Pauli.X b [xp, y, z]
      + indQ Lx Ly Lz Pauli.X b [x, y, zm] + indQ Lx Ly Lz Pauli.X b [x, y, zp]) % 2 = 0 := by
  have h := hb [x, y, z] (by rw [lattice_stabs, mem_stabs]; exact Or.inr (Or.inr (Or.inr hv)))
  rw [lattice_getStab, getStab_faceXZ hv, opAntiCount_uop_hit] at h
  subst e1 e2 e3 e4
  unfold faceXZKeys faceXZCands at h
  rw [List.countP_filter] at h
  simp only [List.countP_cons, List.countP_nil, ite_and_bool] at h
  unfold indQ ind
  omega

/-! ### the translates -/

/-- `X̄` translated to the line `y = 2j`, `z = 2k` -/
def lineX (Lx : Nat) (j k : Nat) : List Coord :=
  (range2 1 (2 * (Lx : Int) + 1)).map fun x => [x, 2 * (j : Int), 2 * (k : Int)]
/-- `Z̄` translated to the plane `x = 2i + 1` -/
def planeX (Ly Lz : Nat) (i : Nat) : List Coord :=
  grid2 (range2 0 (2 * (Ly : Int))) (range2 0 (2 * (Lz : Int))) fun y z => [2 * (i : Int) + 1, y, z]

theorem lxK_eq (Lx : Nat) : lxK Lx = lineX Lx 0 0 := rfl
theorem lzK_eq (Ly Lz : Nat) : lzK Ly Lz = planeX Ly Lz 0 := rfl

theorem mem_lineX {Lx j k : Nat} {q : Coord} :
    q ∈ lineX Lx j k ↔ ∃ x, inO1 Lx x ∧ q = [x, 2 * (j : Int), 2 * (k : Int)] := by
  simp only [lineX, List.mem_map, mem_rangeO1]
  constructor
  · rintro ⟨x, hx, rfl⟩; exact ⟨x, hx, rfl⟩
  · rintro ⟨x, hx, rfl⟩; exact ⟨x, hx, rfl⟩
theorem mem_planeX {Ly Lz i : Nat} {q : Coord} :
    q ∈ planeX Ly Lz i ↔ ∃ y z, inE Ly y ∧ inE Lz z ∧ q = [2 * (i : Int) + 1, y, z] := by
  simp only [planeX, mem_grid2, mem_rangeE]
  constructor
  · rintro ⟨y, hy, z, hz, rfl⟩; exact ⟨y, z, hy, hz, rfl⟩
  · rintro ⟨y, z, hy, hz, rfl⟩; exact ⟨y, hy, z, hz, rfl⟩

theorem lineX_nodup (Lx j k : Nat) : (lineX Lx j k).Nodup :=
  List.Nodup.map (fun a b h => by simpa using h) (nodup_range2 _ _)
theorem planeX_nodup (Ly Lz i : Nat) : (planeX Ly Lz i).Nodup :=
  nodup_grid2 (nodup_range2 _ _) (nodup_range2 _ _) (fun a b a' b' h => by simpa using h)

theorem lineX_sub {j k : Nat} (hj : j < Ly) (hk : k < Lz) :
    ∀ q ∈ lineX Lx j k, q ∈ qubits Lx Ly Lz := by
  intro q hq
  obtain ⟨x, hx, rfl⟩ := mem_lineX.mp hq
  rw [mem_qubits]
  simp only [inO1, inE, inE2, inO] at hx ⊢
  omega
theorem planeX_sub {i : Nat} (hi : i < Lx) : ∀ q ∈ planeX Ly Lz i, q ∈ qubits Lx Ly Lz := by
  intro q hq
  obtain ⟨y, z, hy, hz, rfl⟩ := mem_planeX.mp hq
  rw [mem_qubits]
  simp only [inO1, inE, inE2, inO] at hy hz ⊢
  omega

/-! ### the parity statements -/

theorem notq {x y z : Int} (h : ¬ ((inO1 Lx x ∧ inE Ly y ∧ inE Lz z) ∨
    (inE2 Lx x ∧ inO Ly y ∧ inE Lz z) ∨ (inE2 Lx x ∧ inE Ly y ∧ inO Lz z))) :
    [x, y, z] ∉ qubits Lx Ly Lz := fun hq => h (mem_qubits.mp hq)

/-- `Z̄`: planes `x = 2i + 1`, through the slab of vertices at `x = 2i + 2` -/
theorem parity_Z {b : Op} (hb : CommStabs Lx Ly Lz b) (i : Nat) (hi : i < Lx) :
    (planeX Ly Lz i).countP (opHit Pauli.Z b) % 2 =
      (planeX Ly Lz 0).countP (opHit Pauli.Z b) % 2 := by
  unfold planeX
  rw [countP_planeE, countP_planeE]
  have h := slab_open Lx Ly Lz (fun u v w => indQ Lx Ly Lz Pauli.Z b [u, v, w]) ?_ ?_ ?_ ?_ ?_ i hi
  · have e1 : rsum2 Ly Lz (fun j k =>
          if opHit Pauli.Z b [2 * (i : Int) + 1, 2 * (j : Int), 2 * (k : Int)] = true then 1 else 0) =
        rsum2 Ly Lz (fun j k =>
          indQ Lx Ly Lz Pauli.Z b [2 * (i : Int) + 1, 2 * (j : Int), 2 * (k : Int)]) :=
      rsum2_congr (fun j k hj hk => by
        rw [indQ_of _ _ (planeX_sub hi _ (mem_planeX.mpr ⟨_, _, by simp only [inE]; omega,
          by simp only [inE]; omega, rfl⟩))]
        rfl)
    have e2 : rsum2 Ly Lz (fun j k =>
          if opHit Pauli.Z b [2 * ((0 : Nat) : Int) + 1, 2 * (j : Int), 2 * (k : Int)] = true
            then 1 else 0) =
        rsum2 Ly Lz (fun j k => indQ Lx Ly Lz Pauli.Z b [1, 2 * (j : Int), 2 * (k : Int)]) :=
      rsum2_congr (fun j k hj hk => by
        rw [indQ_of (q := [1, 2 * (j : Int), 2 * (k : Int)]) _ _ (planeX_sub (i := 0) (by omega) _ (mem_planeX.mpr ⟨_, _,
          by simp only [inE]; omega, by simp only [inE]; omega, rfl⟩))]
        rfl)
    rw [e1, e2]
    exact h
  · intro i k; exact indQ_of_not _ _ (notq (by simp only [inO1, inE, inE2, inO]; omega))
  · intro i k; exact indQ_of_not _ _ (notq (by simp only [inO1, inE, inE2, inO]; omega))
  · intro i j; exact indQ_of_not _ _ (notq (by simp only [inO1, inE, inE2, inO]; omega))
  · intro i j; exact indQ_of_not _ _ (notq (by simp only [inO1, inE, inE2, inO]; omega))
  · intro i j k hi hj hk
    have hv : isVertex Lx Ly Lz (2 * (i : Int) + 2) (2 * (j : Int)) (2 * (k : Int)) := by
      simp only [isVertex, inE, inE2]; omega
    have h := vertex_even hb hv (xp := 2 * (i : Int) + 3) (xm := 2 * (i : Int) + 1)
      (yp := 2 * (j : Int) + 1) (ym := 2 * (j : Int) - 1) (zp := 2 * (k : Int) + 1)
      (zm := 2 * (k : Int) - 1) (by omega) (by omega) rfl rfl rfl rfl
    omega

/-- `X̄`, moving `z`: lines `(y, z) = (2j, 2i)`, through the xz faces at `z = 2i + 1` -/
theorem parity_Xz {b : Op} (hb : CommStabs Lx Ly Lz b) (j : Nat) (hj : j < Ly) (i : Nat)
    (hi : i < Lz) :
    (lineX Lx j i).countP (opHit Pauli.X b) % 2 = (lineX Lx j 0).countP (opHit Pauli.X b) % 2 := by
  unfold lineX
  rw [countP_lineO1, countP_lineO1]
  have h := ladder_open 0 1 Lz Lx (fun u w => indQ Lx Ly Lz Pauli.X b [w, 2 * (j : Int), u])
    ?_ ?_ ?_ i hi
  · have e1 : rsum Lx (fun a =>
          if opHit Pauli.X b [2 * (a : Int) + 1, 2 * (j : Int), 2 * (i : Int)] = true then 1 else 0) =
        rsum Lx (fun a =>
          indQ Lx Ly Lz Pauli.X b [2 * (a : Int) + 1, 2 * (j : Int), 2 * (i : Int) + 0]) :=
      rsum_congr Lx (fun a ha => by
        rw [Int.add_zero, indQ_of _ _ (lineX_sub hj hi _ (mem_lineX.mpr ⟨_, by
          simp only [inO1]; omega, rfl⟩))]
        rfl)
    have e2 : rsum Lx (fun a =>
          if opHit Pauli.X b [2 * (a : Int) + 1, 2 * (j : Int), 2 * ((0 : Nat) : Int)] = true
            then 1 else 0) =
        rsum Lx (fun a => indQ Lx Ly Lz Pauli.X b [2 * (a : Int) + 1, 2 * (j : Int), 0]) :=
      rsum_congr Lx (fun a ha => by
        rw [indQ_of (q := [2 * (a : Int) + 1, 2 * (j : Int), 0]) _ _ (lineX_sub hj (k := 0) (by omega) _ (mem_lineX.mpr ⟨_, by
          simp only [inO1]; omega, rfl⟩))]
        rfl)
    rw [e1, e2]
    exact h
  · intro i; exact indQ_of_not _ _ (notq (by simp only [inO1, inE, inE2, inO]; omega))
  · intro i; exact indQ_of_not _ _ (notq (by simp only [inO1, inE, inE2, inO]; omega))
  · intro i a hi ha
    have hf : isFaceXZ Lx Ly Lz (2 * (a : Int) + 1) (2 * (j : Int)) (2 * (i : Int) + 0 + 1) := by
      simp only [isFaceXZ, inO1, inE, inO]; omega
    have h := faceXZ_even hb hf (xm := 2 * (a : Int) + 1 - 1) (xp := 2 * (a : Int) + 1 + 1)
      (zm := 2 * (i : Int) + 0) (zp := 2 * (i : Int) + 0 + 2) rfl rfl (by omega) (by omega)
    omega

/-- `X̄`, moving `y` in the layer `z = 0`: lines `(y, z) = (2i, 0)`, through the xy faces at
    `y = 2i + 1` -/
theorem parity_Xy (hLz : 1 ≤ Lz) {b : Op} (hb : CommStabs Lx Ly Lz b) (i : Nat) (hi : i < Ly) :
    (lineX Lx i 0).countP (opHit Pauli.X b) % 2 = (lineX Lx 0 0).countP (opHit Pauli.X b) % 2 := by
  unfold lineX
  rw [countP_lineO1, countP_lineO1]
  have h := ladder_open 0 1 Ly Lx (fun u w => indQ Lx Ly Lz Pauli.X b [w, u, 2 * ((0 : Nat) : Int)])
    ?_ ?_ ?_ i hi
  · have e1 : rsum Lx (fun a =>
          if opHit Pauli.X b [2 * (a : Int) + 1, 2 * (i : Int), 2 * ((0 : Nat) : Int)] = true
            then 1 else 0) =
        rsum Lx (fun a =>
          indQ Lx Ly Lz Pauli.X b [2 * (a : Int) + 1, 2 * (i : Int) + 0, 2 * ((0 : Nat) : Int)]) :=
      rsum_congr Lx (fun a ha => by
        rw [Int.add_zero, indQ_of _ _ (lineX_sub hi (k := 0) (by omega) _ (mem_lineX.mpr ⟨_, by
          simp only [inO1]; omega, rfl⟩))]
        rfl)
    have e2 : rsum Lx (fun a =>
          if opHit Pauli.X b [2 * (a : Int) + 1, 2 * ((0 : Nat) : Int), 2 * ((0 : Nat) : Int)] = true
            then 1 else 0) =
        rsum Lx (fun a => indQ Lx Ly Lz Pauli.X b [2 * (a : Int) + 1, 0, 2 * ((0 : Nat) : Int)]) :=
      rsum_congr Lx (fun a ha => by
        rw [indQ_of (q := [2 * (a : Int) + 1, 0, 2 * ((0 : Nat) : Int)]) _ _ (lineX_sub (j := 0) (k := 0) (by omega) (by omega) _ (mem_lineX.mpr ⟨_, by
          simp only [inO1]; omega, rfl⟩))]
        rfl)
    rw [e1, e2]
    exact h
  · intro i; exact indQ_of_not _ _ (notq (by simp only [inO1, inE, inE2, inO]; omega))
  · intro i; exact indQ_of_not _ _ (notq (by simp only [inO1, inE, inE2, inO]; omega))
  · intro i a hi ha
    have hf : isFaceXY Lx Ly Lz (2 * (a : Int) + 1) (2 * (i : Int) + 0 + 1)
        (2 * ((0 : Nat) : Int)) := by
      simp only [isFaceXY, inO1, inE, inO]; omega
    have h := faceXY_even hb hf (xm := 2 * (a : Int) + 1 - 1) (xp := 2 * (a : Int) + 1 + 1)
      (ym := 2 * (i : Int) + 0) (yp := 2 * (i : Int) + 0 + 2) rfl rfl (by omega) (by omega)
    omega

/-! ### the packing bound -/

/-- the `Ly·Lz` translates of `X̄`, indexed by `i = j·Lz + k` -/
def lineFam (Lx Lz : Nat) (i : Nat) : List Coord := lineX Lx (i / Lz) (i % Lz)

theorem repsX (hLz : 1 ≤ Lz) (P : Pauli) :
    RepsOK (qubits Lx Ly Lz) (lineFam Lx Lz) (Ly * Lz) P :=
  uopReps _ _ _ P (fun i => lineX_nodup Lx _ _)
    (fun i hi => lineX_sub (Nat.div_lt_of_lt_mul (by rw [Nat.mul_comm]; exact hi))
      (Nat.mod_lt _ (by omega)))
    (fun i i' h q hq hq' => by
      obtain ⟨x, _, rfl⟩ := mem_lineX.mp hq
      obtain ⟨x', _, e⟩ := mem_lineX.mp hq'
      simp only [List.cons.injEq, and_true] at e
      have h1 := Nat.div_add_mod i Lz
      have h2 := Nat.div_add_mod i' Lz
      have e1 : i / Lz = i' / Lz := by omega
      have e2 : i % Lz = i' % Lz := by omega
      rw [e1, e2] at h1
      omega)

theorem repsZ (P : Pauli) : RepsOK (qubits Lx Ly Lz) (planeX Ly Lz) Lx P :=
  uopReps _ _ _ P (planeX_nodup Ly Lz) (fun i hi => planeX_sub hi)
    (fun i i' h q hq hq' => by
      obtain ⟨y, z, _, _, rfl⟩ := mem_planeX.mp hq
      obtain ⟨y', z', _, _, e⟩ := mem_planeX.mp hq'
      simp only [List.cons.injEq, and_true] at e; omega)

/-- every non-trivial logical operator of the `Lx × Ly × Lz` 3-D planar code has weight
    `≥ min Lx (Ly·Lz)` -/
theorem lower_bound (hLz : 1 ≤ Lz) (hwf : (lattice Lx Ly Lz).WF)
    {n : Nat} (hn : (qubits Lx Ly Lz).length = n)
    (hv : ValidCodeL n 1 (lattice Lx Ly Lz).rowsH (lattice Lx Ly Lz).rowsX
      (lattice Lx Ly Lz).rowsZ) :
    ∀ v, IsNontrivialLogical n (lattice Lx Ly Lz).rowsH v → min Lx (Ly * Lz) ≤ pauliWeight v := by
  apply Lattice.packing_bound (lattice Lx Ly Lz) hwf (by rw [lattice_qubits]; exact hn) hv
  intro a ha
  rw [lattice_logX, lattice_logZ, logX_eq, logZ_eq] at ha
  rw [lattice_qubits]
  simp only [List.cons_append, List.nil_append, List.mem_cons, List.not_mem_nil, or_false] at ha
  rcases ha with rfl | rfl
  · obtain ⟨h1, h2, h3⟩ := repsX (Lx := Lx) (Ly := Ly) (Lz := Lz) hLz Pauli.X
    refine ⟨_, by rw [h1]; exact Nat.min_le_right _ _, h2, h3, ?_⟩
    intro b _ _ hb r hr
    obtain ⟨i, hi, rfl⟩ := List.mem_map.mp hr
    have hi' := List.mem_range.mp hi
    have hj : i / Lz < Ly := Nat.div_lt_of_lt_mul (by rw [Nat.mul_comm]; exact hi')
    have hk : i % Lz < Lz := Nat.mod_lt _ (by omega)
    rw [lxK_eq, opAntiCount_uop_hit, opAntiCount_uop_hit]
    unfold lineFam
    rw [parity_Xz hb _ hj _ hk, parity_Xy hLz hb _ hj]
  · obtain ⟨h1, h2, h3⟩ := repsZ (Lx := Lx) (Ly := Ly) (Lz := Lz) Pauli.Z
    refine ⟨_, by rw [h1]; exact Nat.min_le_left _ _, h2, h3, ?_⟩
    intro b _ _ hb r hr
    obtain ⟨i, hi, rfl⟩ := List.mem_map.mp hr
    rw [lzK_eq, opAntiCount_uop_hit, opAntiCount_uop_hit]
    exact parity_Z hb i (List.mem_range.mp hi)

/-! ### weights of the listed logicals, reported distance -/

theorem length_uop (ks : List Coord) (p : Pauli) : (uop ks p).length = ks.length := by
  simp [uop]

/-- the row of `logicals_x` has weight `Lx` (a line), the row of `logicals_z` weight `Ly·Lz`
    (a plane) -/
theorem weights_listed (hwf : (lattice Lx Ly Lz).WF) :
    (lattice Lx Ly Lz).rowsX.map pauliWeight = [Lx] ∧
    (lattice Lx Ly Lz).rowsZ.map pauliWeight = [Ly * Lz] := by
  have hw : ∀ a ∈ (lattice Lx Ly Lz).logX ++ (lattice Lx Ly Lz).logZ,
      pauliWeight (opRow (lattice Lx Ly Lz).qubits a) = a.length := fun a ha =>
    pauliWeight_opRow _ hwf.qubits_nodup a (hwf.log_keys a ha) (hwf.log_supported a ha)
  rw [lattice_logX, lattice_logZ, logX_eq, logZ_eq] at hw
  unfold Lattice.rowsX Lattice.rowsZ
  rw [lattice_logX, lattice_logZ, logX_eq, logZ_eq]
  simp only [List.map_cons, List.map_nil]
  rw [hw _ (by simp), hw _ (by simp)]
  simp only [length_uop, lxK, lzK, List.length_map, length_grid2, length_rangeE, length_rangeO1]
  exact ⟨trivial, trivial⟩

/-- `code.d` (minimum weight of the listed logicals) is `min Lx (Ly·Lz)` -/
theorem reported_distance (hwf : (lattice Lx Ly Lz).WF) :
    distance (lattice Lx Ly Lz).rowsX (lattice Lx Ly Lz).rowsZ = some (min Lx (Ly * Lz)) := by
  obtain ⟨h1, h2⟩ := weights_listed hwf
  unfold distance
  show (match listMin ((lattice Lx Ly Lz).rowsX.map pauliWeight),
    listMin ((lattice Lx Ly Lz).rowsZ.map pauliWeight) with
    | some a, some b => some (min a b)
    | _, _ => none) = _
  rw [h1, h2]
  rfl

end Panqec.Planar3DCode
