/-
Key lists over the Python ranges of `Model/Lattices/Util3Db.lean` (`RotatedPlanar3DCode`,
`XCubeCode`) for the all-sizes distance proofs: `range(1, 2L, 2)` / `range(0, 2L, 2)` as maps over
`List.range`, the anticommutation count of a line / plane operator as a (double) sum of
indicators.
-/
import PanqecVerif.Proofs.DistCubic3D
import PanqecVerif.Proofs.Lat3DbCss

namespace Panqec.Lat3Db
open Panqec.Lat2D (rsum rsum2 rsum_congr countP_range_map range'_two)

/-- Python `range(1, 2L, 2)` -/
theorem pyRange2_odd (L : Nat) :
    pyRange2 1 (2 * L) = (List.range L).map (fun (j : Nat) => 2 * (j : Int) + 1) := by
  unfold pyRange2
  have h : (2 * L + 1 - 1) / 2 = L := by omega
  rw [h, range'_two, List.map_map]
  apply List.map_congr_left
  intro j _
  simp only [Function.comp, Int.ofNat_eq_natCast]
  omega

theorem length_pyRange2_odd (L : Nat) : (pyRange2 1 (2 * L)).length = L := by
  rw [pyRange2_odd]; simp

theorem countP_lineO (p : Coord → Bool) (f : Int → Coord) (L : Nat) :
    ((pyRange2 1 (2 * L)).map f).countP p =
      rsum L (fun j => if p (f (2 * (j : Int) + 1)) = true then 1 else 0) := by
  rw [pyRange2_odd, List.map_map]
  exact countP_range_map p _ L

theorem countP_planeO (p : Coord → Bool) (f : Int → Int → Coord) (A B : Nat) :
    ((pyRange2 1 (2 * A)).flatMap fun z => (pyRange2 1 (2 * B)).map fun y => f y z).countP p =
      rsum2 A B (fun k j =>
        if p (f (2 * (j : Int) + 1) (2 * (k : Int) + 1)) = true then 1 else 0) := by
  unfold rsum2
  rw [pyRange2_odd A, List.flatMap_map, Cubic3D.countP_flatMap_range]
  apply rsum_congr
  intro k _
  exact countP_lineO p _ B

theorem opAntiCount_constOp_hit (K : List Coord) (P : Pauli) (b : Op) :
    opAntiCount (constOp K P) b = K.countP (opHit P b) :=
  opAntiCount_line K P b

/-- Python `range(0, 2L, 2)` -/
theorem pyRange2_even (L : Nat) :
    pyRange2 0 (2 * L) = (List.range L).map (fun (j : Nat) => 2 * (j : Int)) := by
  unfold pyRange2
  have h : (2 * L + 1 - 0) / 2 = L := by omega
  rw [h, range'_two, List.map_map]
  apply List.map_congr_left
  intro j _
  simp only [Function.comp, Int.ofNat_eq_natCast]
  omega

theorem length_pyRange2_even (L : Nat) : (pyRange2 0 (2 * L)).length = L := by
  rw [pyRange2_even]; simp

theorem countP_lineE (p : Coord → Bool) (f : Int → Coord) (L : Nat) :
    ((pyRange2 0 (2 * L)).map f).countP p =
      rsum L (fun j => if p (f (2 * (j : Int))) = true then 1 else 0) := by
  rw [pyRange2_even, List.map_map]
  exact countP_range_map p _ L

end Panqec.Lat3Db

