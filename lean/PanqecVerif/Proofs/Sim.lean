/-
Helper lemmas about `Model/Sim.lean`: the `DirectSimulation` state machine
(accounting invariants, composition of `run` calls, dependence on the variate stream).
Core Lean only.
-/
import PanqecVerif.Model.Sim
import PanqecVerif.Proofs.Bits

namespace Panqec.Sim

open Panqec

/-! ### syndrome / logical effect as symplectic products -/

theorem measureSyndrome_eq_symp (H : List (List Nat)) (e : List Nat) :
    measureSyndrome H e = H.map fun r => symp r e := by
  simp [measureSyndrome, bsProdRows, bsProdSparse_eq_symp]

theorem logicalErrors_eq_symp (dt : DType) (Lx Lz : List (List Nat)) (e : List Nat) :
    logicalErrors dt Lx Lz e = (Lz.map fun r => symp r e) ++ (Lx.map fun r => symp r e) := by
  simp [logicalErrors, bsProdRows, bsProdDense_eq_symp]

theorem measureSyndrome_vxor (H : List (List Nat)) (e f : List Nat) (h : e.length = f.length) :
    measureSyndrome H (vxor e f) = vxor (measureSyndrome H e) (measureSyndrome H f) := by
  rw [measureSyndrome_eq_symp, measureSyndrome_eq_symp, measureSyndrome_eq_symp]
  induction H with
  | nil => simp [vxor]
  | cons r H ih =>
    simp only [List.map_cons]
    simp only [vxor, vadd_cons, List.map_cons] at ih ⊢
    rw [ih]
    have hs : symp r (List.map (fun x => x % 2) (vadd e f)) = (symp r e + symp r f) % 2 :=
      symp_vxor_right r e f h
    rw [hs]

/-! ### `step` / `run` / `runs` -/

theorem step_ok (cfg : Config) (u : Nat → Rat) (s : State) (h : rateOk cfg.rate = true) :
    step cfg u s = .ok
      { nRuns := s.nRuns + 1
        effectiveError := s.effectiveError ++
          [(classify cfg.dt cfg.code (generate cfg.probs u s.pos) (cfg.decode s.nRuns)).effectiveError]
        success := s.success ++
          [(classify cfg.dt cfg.code (generate cfg.probs u s.pos) (cfg.decode s.nRuns)).success]
        codespace := s.codespace ++
          [(classify cfg.dt cfg.code (generate cfg.probs u s.pos) (cfg.decode s.nRuns)).codespace]
        pos := s.pos + cfg.probs.length } := by
  simp [step, runOnce, h]

theorem step_err (cfg : Config) (u : Nat → Rat) (s : State) (h : rateOk cfg.rate = false) :
    step cfg u s = .error .rate := by
  simp [step, runOnce, h]

/-- with a valid error rate `run` never raises -/
theorem run_ok_of_rateOk (cfg : Config) (u : Nat → Rat) (h : rateOk cfg.rate = true) :
    ∀ (k : Nat) (s : State), ∃ s', run cfg u k s = .ok s'
  | 0, s => ⟨s, rfl⟩
  | k + 1, s => by
    simp only [run, step_ok cfg u s h]
    exact run_ok_of_rateOk cfg u h k _

/-- with an invalid error rate `run(k)` raises for every `k ≥ 1`, before touching the state;
    `run(0)` is a no-op -/
theorem run_err_of_not_rateOk (cfg : Config) (u : Nat → Rat) (h : rateOk cfg.rate = false)
    (k : Nat) (s : State) : run cfg u (k + 1) s = .error .rate := by
  simp [run, step_err cfg u s h]

theorem run_zero (cfg : Config) (u : Nat → Rat) (s : State) : run cfg u 0 s = .ok s := rfl

/-- `run(a + b)` is `run(a)` followed by `run(b)` -/
theorem run_add (cfg : Config) (u : Nat → Rat) : ∀ (a b : Nat) (s : State),
    run cfg u (a + b) s = (match run cfg u a s with
      | .error e => .error e
      | .ok s' => run cfg u b s')
  | 0, b, s => by simp [run]
  | a + 1, b, s => by
    have : a + 1 + b = (a + b) + 1 := by omega
    rw [this]
    simp only [run]
    cases step cfg u s with
    | error e => rfl
    | ok s' => exact run_add cfg u a b s'

/-- any history of `run(k)` calls that does not raise ends in the same state as one call
    with the total -/
theorem runs_eq_run_sum (cfg : Config) (u : Nat → Rat) : ∀ (ks : List Nat) (s s' : State),
    runs cfg u ks s = .ok s' → run cfg u ks.sum s = .ok s'
  | [], s, s', h => by simpa [runs, run] using h
  | k :: ks, s, s', h => by
    simp only [runs] at h
    rw [List.sum_cons, run_add]
    cases hk : run cfg u k s with
    | error e => rw [hk] at h; cases h
    | ok s1 =>
      rw [hk] at h
      exact runs_eq_run_sum cfg u ks s1 s' h

/-- the accounting invariant: the three lists have length `n_runs`, and the generator has
    been read `n` times per trial -/
structure State.Wf (n : Nat) (s : State) : Prop where
  eff : s.effectiveError.length = s.nRuns
  suc : s.success.length = s.nRuns
  cod : s.codespace.length = s.nRuns
  pos : s.pos = n * s.nRuns

theorem init_wf (n : Nat) : State.init.Wf n := ⟨rfl, rfl, rfl, by simp [State.init]⟩

theorem step_wf (cfg : Config) (u : Nat → Rat) (s s' : State) (hs : s.Wf cfg.probs.length)
    (h : step cfg u s = .ok s') : s'.Wf cfg.probs.length ∧ s'.nRuns = s.nRuns + 1 := by
  cases hr : rateOk cfg.rate with
  | false => rw [step_err cfg u s hr] at h; cases h
  | true =>
    rw [step_ok cfg u s hr] at h
    cases h
    refine ⟨⟨?_, ?_, ?_, ?_⟩, rfl⟩
    · simp [hs.eff]
    · simp [hs.suc]
    · simp [hs.cod]
    · simp [hs.pos, Nat.mul_add]

theorem run_wf (cfg : Config) (u : Nat → Rat) : ∀ (k : Nat) (s s' : State),
    s.Wf cfg.probs.length → run cfg u k s = .ok s' →
    s'.Wf cfg.probs.length ∧ s'.nRuns = s.nRuns + k
  | 0, s, s', hs, h => by
    simp only [run] at h; cases h; exact ⟨hs, rfl⟩
  | k + 1, s, s', hs, h => by
    simp only [run] at h
    cases hst : step cfg u s with
    | error e => rw [hst] at h; cases h
    | ok s1 =>
      rw [hst] at h
      have h1 := step_wf cfg u s s1 hs hst
      have h2 := run_wf cfg u k s1 s' h1.1 h
      exact ⟨h2.1, by rw [h2.2, h1.2]; omega⟩

theorem runs_wf (cfg : Config) (u : Nat → Rat) : ∀ (ks : List Nat) (s s' : State),
    s.Wf cfg.probs.length → runs cfg u ks s = .ok s' →
    s'.Wf cfg.probs.length ∧ s'.nRuns = s.nRuns + ks.sum
  | [], s, s', hs, h => by
    simp only [runs] at h; cases h; exact ⟨hs, by simp⟩
  | k :: ks, s, s', hs, h => by
    simp only [runs] at h
    cases hk : run cfg u k s with
    | error e => rw [hk] at h; cases h
    | ok s1 =>
      rw [hk] at h
      have h1 := run_wf cfg u k s s1 hs hk
      have h2 := runs_wf cfg u ks s1 s' h1.1 h
      exact ⟨h2.1, by rw [h2.2, h1.2, List.sum_cons]; omega⟩

/-! ### counting -/

theorem count_not_add_count (l : List Bool) :
    (l.map (!·)).count true + l.count true = l.length := by
  induction l with
  | nil => rfl
  | cons b l ih => cases b <;> simp <;> omega

/-! ### dependence on the variate stream -/

theorem genPaulis_congr : ∀ (probs : List QubitProbs) (u u' : Nat → Rat) (pos : Nat),
    (∀ i, pos ≤ i → i < pos + probs.length → u i = u' i) →
    genPaulis probs u pos = genPaulis probs u' pos
  | [], _, _, _, _ => rfl
  | q :: qs, u, u', pos, h => by
    simp only [genPaulis]
    rw [h pos (Nat.le_refl _) (by simp), genPaulis_congr qs u u' (pos + 1)]
    intro i h1 h2
    exact h i (by omega) (by simp only [List.length_cons]; omega)

theorem generate_congr (probs : List QubitProbs) (u u' : Nat → Rat) (pos : Nat)
    (h : ∀ i, pos ≤ i → i < pos + probs.length → u i = u' i) :
    generate probs u pos = generate probs u' pos := by
  unfold generate; rw [genPaulis_congr probs u u' pos h]

theorem step_congr (cfg : Config) (u u' : Nat → Rat) (s : State)
    (h : ∀ i, s.pos ≤ i → i < s.pos + cfg.probs.length → u i = u' i) :
    step cfg u s = step cfg u' s := by
  unfold step runOnce
  rw [generate_congr cfg.probs u u' s.pos h]

theorem step_pos (cfg : Config) (u : Nat → Rat) (s s' : State) (h : step cfg u s = .ok s') :
    s'.pos = s.pos + cfg.probs.length := by
  cases hr : rateOk cfg.rate with
  | false => rw [step_err cfg u s hr] at h; cases h
  | true => rw [step_ok cfg u s hr] at h; cases h; rfl

theorem run_congr (cfg : Config) (u u' : Nat → Rat) : ∀ (k : Nat) (s : State),
    (∀ i, s.pos ≤ i → i < s.pos + k * cfg.probs.length → u i = u' i) →
    run cfg u k s = run cfg u' k s
  | 0, _, _ => rfl
  | k + 1, s, h => by
    simp only [run]
    have hst : step cfg u s = step cfg u' s :=
      step_congr cfg u u' s fun i h1 h2 => h i h1 (by rw [Nat.add_mul]; omega)
    rw [← hst]
    cases hs : step cfg u s with
    | error e => rfl
    | ok s1 =>
      have hp := step_pos cfg u s s1 hs
      apply run_congr cfg u u' k s1
      intro i h1 h2
      apply h i (by omega)
      rw [Nat.add_mul]; omega

theorem run_pos (cfg : Config) (u : Nat → Rat) : ∀ (k : Nat) (s s' : State),
    run cfg u k s = .ok s' → s'.pos = s.pos + k * cfg.probs.length
  | 0, s, s', h => by simp only [run] at h; cases h; simp
  | k + 1, s, s', h => by
    simp only [run] at h
    cases hst : step cfg u s with
    | error e => rw [hst] at h; cases h
    | ok s1 =>
      rw [hst] at h
      rw [run_pos cfg u k s1 s' h, step_pos cfg u s s1 hst, Nat.add_mul]; omega

theorem runs_congr (cfg : Config) (u u' : Nat → Rat) : ∀ (ks : List Nat) (s : State),
    (∀ i, s.pos ≤ i → i < s.pos + ks.sum * cfg.probs.length → u i = u' i) →
    runs cfg u ks s = runs cfg u' ks s
  | [], _, _ => rfl
  | k :: ks, s, h => by
    simp only [runs]
    have hk : run cfg u k s = run cfg u' k s :=
      run_congr cfg u u' k s fun i h1 h2 => h i h1 (by rw [List.sum_cons, Nat.add_mul]; omega)
    rw [← hk]
    cases hr : run cfg u k s with
    | error e => rfl
    | ok s1 =>
      have hp := run_pos cfg u k s s1 hr
      apply runs_congr cfg u u' ks s1
      intro i h1 h2
      apply h i (by omega)
      rw [List.sum_cons, Nat.add_mul]; omega

end Panqec.Sim
