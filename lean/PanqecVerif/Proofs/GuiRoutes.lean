/-
Helper lemmas for `Properties/C20Routes.lean`: the `Except` monad of the route models, Python dict
look-ups after an assignment, the split of the correction, the discarded `error_spec` comprehension.
-/
import PanqecVerif.Model.GuiRoutesLib

namespace Panqec.GuiRoutes
open Panqec.Gui Panqec.GuiRepr

theorem ok_bind {ε α β} (a : α) (f : α → Except ε β) : (Except.ok a >>= f) = f a := rfl
theorem err_bind {ε α β} (e : ε) (f : α → Except ε β) : (Except.error e >>= f) = .error e := rfl

theorem bind_eq_ok {ε α β} {x : Except ε α} {f : α → Except ε β} {b : β} :
    (x >>= f) = .ok b ↔ ∃ a, x = .ok a ∧ f a = .ok b := by
  cases x with
  | error e => simp [err_bind]
  | ok a => simp [ok_bind]

theorem bind_eq_error_of {ε α β} {x : Except ε α} {f : α → Except ε β} {e : ε}
    (h : x = .error e) : (x >>= f) = .error e := by rw [h]; rfl

/-- a request field is read with `getKey` -/
theorem field_eq_ok {d : Req} {k : String} {v : JV} : field d k = .ok v ↔ getKey d k = some v := by
  unfold field
  cases getKey d k <;> simp

theorem field_of_getKey {d : Req} {k : String} {v : JV} (h : getKey d k = some v) :
    field d k = .ok v := field_eq_ok.mpr h

/-- `d[k] = v` leaves the other keys alone -/
theorem getKey_setKey_ne (d : Dict) (k k' : String) (v : JV) (h : k' ≠ k) :
    getKey (setKey d k v) k' = getKey d k' := by
  induction d with
  | nil =>
    simp only [setKey, getKey, List.find?]
    have : (k == k') = false := by simpa using fun h' => h h'.symm
    simp [this]
  | cons a d ih =>
    obtain ⟨a1, a2⟩ := a
    unfold setKey
    by_cases hak : (a1 == k) = true
    · simp only [hak, if_true]
      have hk : a1 = k := by simpa using hak
      have h1 : (k == k') = false := by simpa using fun h' => h h'.symm
      have h2 : (a1 == k') = false := by rw [hk]; exact h1
      simp [getKey, List.find?, h1, h2]
    · have hak' : (a1 == k) = false := by simpa using hak
      simp only [hak', Bool.false_eq_true, if_false]
      unfold getKey at ih ⊢
      by_cases h3 : (a1 == k') = true
      · simp [List.find?, h3]
      · have h3' : (a1 == k') = false := by simpa using h3
        simp only [List.find?, h3']
        exact ih

/-! ### the split of the correction -/

theorem take_append_drop_split (n : Nat) (c : List Int) : c.take n ++ c.drop n = c :=
  List.take_append_drop n c

/-! ### `errorSpecCheck` -/

theorem forM_ok_of_all {α} (l : List α) (f : α → Except String Unit)
    (h : ∀ a ∈ l, f a = .ok ()) : forEach l f = .ok () := by
  induction l with
  | nil => rfl
  | cons a l ih =>
    unfold forEach
    rw [h a (by simp)]
    exact ih fun b hb => h b (by simp [hb])

theorem forM_all_of_ok {α} (l : List α) (f : α → Except String Unit)
    (h : forEach l f = .ok ()) : ∀ a ∈ l, f a = .ok () := by
  induction l with
  | nil => intro a ha; cases ha
  | cons a l ih =>
    unfold forEach at h
    intro b hb
    cases hfa : f a with
    | error e => rw [hfa] at h; cases h
    | ok u =>
      rw [hfa] at h
      rcases List.mem_cons.mp hb with rfl | hb
      · exact hfa
      · exact ih h b hb

/-- the discarded comprehension succeeds exactly when the entries `i` and `i + n`, `i < n`, exist
    and are 0 / 1 -/
theorem errorSpecCheck_ok_iff (n : Nat) (errors : List Int) :
    errorSpecCheck n errors = .ok () ↔
      ∀ i < n, ∃ a b, errors[i]? = some a ∧ errors[i + n]? = some b ∧
        (a = 0 ∨ a = 1) ∧ (b = 0 ∨ b = 1) := by
  unfold errorSpecCheck
  constructor
  · intro h i hi
    have := forM_all_of_ok _ _ h i (List.mem_range.mpr hi)
    cases ha : errors[i]? with
    | none => simp [ha] at this
    | some a =>
      cases hb : errors[i + n]? with
      | none => simp [ha, hb] at this
      | some b =>
        simp only [ha, hb] at this
        refine ⟨a, b, rfl, rfl, ?_⟩
        by_cases hc : ((a == 0 || a == 1) && (b == 0 || b == 1)) = true
        · simpa using hc
        · simp [hc] at this
  · intro h
    apply forM_ok_of_all
    intro i hi
    obtain ⟨a, b, ha, hb, hab⟩ := h i (List.mem_range.mp hi)
    simp only [ha, hb]
    have : ((a == 0 || a == 1) && (b == 0 || b == 1)) = true := by simpa using hab
    simp [this]

/-- a binary vector of length `2n` passes -/
theorem errorSpecCheck_binary (n : Nat) (v : List Nat) (hlen : v.length = 2 * n)
    (hbin : ∀ x ∈ v, x < 2) : errorSpecCheck n (v.map Int.ofNat) = .ok () := by
  rw [errorSpecCheck_ok_iff]
  intro i hi
  have h1 : i < v.length := by omega
  have h2 : i + n < v.length := by omega
  refine ⟨(v[i] : Nat), (v[i + n] : Nat), by simp [h1], by simp [h2], ?_, ?_⟩
  · have := hbin v[i] (List.getElem_mem h1); omega
  · have := hbin v[i + n] (List.getElem_mem h2); omega

end Panqec.GuiRoutes
