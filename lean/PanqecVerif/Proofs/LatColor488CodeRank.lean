/-
Color488Code, all sizes `Lx, Ly ≥ 1`: an independent family of `n − k = 8·Lx·Ly − 4` generators.
Selected: the X and the Z generator of every face centre in `[0, 8Lx) × [0, 8Ly)` (the seam rows are copies)
except the green octagon `(0, 4)` and the blue octagon `(4, 0)`.  Triangular single-qubit probes
(each qubit lies on one square, one green and one blue octagon):

* columns `x = 0` and `x = 4` are peeled upwards from the hole, level by level in `y`, the octagon
  of a level before its square — probes `(1, ·)` / `(3, ·)` between the two columns, whose two
  other faces are one level down (or removed, or the octagon of the same level);
* every column `x ≥ 8` after all columns to its left, octagons before squares — probe on the left
  side `(x−3, y+1)` / `(x−1, y+1)`, whose other faces are in the column `x − 4` (or the octagon
  `(x, y+4)` of the same column for a square); wrap-around in `y` is harmless.

Core Lean only.
-/
import PanqecVerif.Proofs.Lat2DRank
import PanqecVerif.Proofs.LatColor488CodeE

set_option linter.unusedVariables false
set_option linter.unusedSimpArgs false

namespace Panqec.Color488Code
open Panqec.Lat2D Panqec.Color

/-- canonical face centres -/
def IsC (Lx Ly : Nat) (x y : Int) : Prop :=
  x % 4 = 0 ∧ y % 4 = 0 ∧ 0 ≤ x ∧ x < 8 * (Lx : Int) ∧ 0 ≤ y ∧ y < 8 * (Ly : Int)

/-! `canonFaces`, `selFaces`, `sel` (the selected stabilizer locations): defined in
    `Model/Lattices/Color488Code.lean` (linked into the driver, op `rankfamily`) -/

theorem mem_canonFaces {Lx Ly : Nat} {q : Coord} :
    q ∈ canonFaces Lx Ly ↔ ∃ x y, q = [x, y] ∧ IsC Lx Ly x y := by
  unfold canonFaces IsC
  simp only [mem_grid, mem_pyRangeStep4]
  constructor
  · rintro ⟨x, y, hx, hy, rfl⟩; refine ⟨x, y, rfl, ?_⟩; omega
  · rintro ⟨x, y, rfl, h⟩; exact ⟨x, y, by omega, by omega, rfl⟩

theorem nodup_canonFaces (Lx Ly : Nat) : (canonFaces Lx Ly).Nodup :=
  nodup_grid (nodup_pyRangeStep _ _ _ (by decide)) (nodup_pyRangeStep _ _ _ (by decide))

theorem mem_sel {Lx Ly : Nat} {s : Coord} :
    s ∈ sel Lx Ly ↔ ∃ x y p, s = [x, y, p] ∧ IsC Lx Ly x y ∧ ¬ (x = 0 ∧ y = 4) ∧ ¬ (x = 4 ∧ y = 0) ∧
      (p = 0 ∨ p = 1) := by
  unfold sel selFaces
  rw [mem_both]
  simp only [List.mem_filter, Bool.and_eq_true, bne_iff_ne, ne_eq]
  constructor
  · rintro ⟨c, ⟨hc, h1, h2⟩, h⟩
    obtain ⟨x, y, rfl, hf⟩ := mem_canonFaces.mp hc
    have h1' : ¬ (x = 0 ∧ y = 4) := fun e => h1 (by rw [e.1, e.2])
    have h2' : ¬ (x = 4 ∧ y = 0) := fun e => h2 (by rw [e.1, e.2])
    rcases h with rfl | rfl
    · exact ⟨x, y, 0, rfl, hf, h1', h2', Or.inl rfl⟩
    · exact ⟨x, y, 1, rfl, hf, h1', h2', Or.inr rfl⟩
  · rintro ⟨x, y, p, rfl, hf, h1, h2, hp⟩
    refine ⟨[x, y], ⟨mem_canonFaces.mpr ⟨x, y, rfl, hf⟩, ?_, ?_⟩, ?_⟩
    · intro e; simp only [List.cons.injEq, and_true] at e; exact h1 e
    · intro e; simp only [List.cons.injEq, and_true] at e; exact h2 e
    · rcases hp with rfl | rfl
      · exact Or.inl rfl
      · exact Or.inr rfl

theorem nodup_sel (Lx Ly : Nat) : (sel Lx Ly).Nodup :=
  nodup_both ((nodup_canonFaces Lx Ly).sublist List.filter_sublist)

theorem sel_subset {Lx Ly : Nat} : ∀ s ∈ sel Lx Ly, s ∈ stabs Lx Ly := by
  intro s hs
  obtain ⟨x, y, p, rfl, hc, _, _, hp⟩ := mem_sel.mp hs
  rw [mem_stabs']
  unfold IsC at hc
  exact ⟨by unfold IsF; omega, hp⟩

theorem length_range4' (L : Nat) : (pyRangeStep 0 (8 * (L : Int)) 4).length = 2 * L := by
  unfold pyRangeStep
  simp only [List.length_map, List.length_range']
  omega

/-- `#sel + k = n` -/
theorem length_sel {Lx Ly : Nat} (hx : 1 ≤ Lx) (hy : 1 ≤ Ly) : (sel Lx Ly).length + 4 = 8 * (Lx * Ly) := by
  unfold sel
  rw [Color666PlanarCode.length_both]
  have h := length_remove_two (canonFaces Lx Ly) [0, 4] [4, 0] (nodup_canonFaces Lx Ly)
    (mem_canonFaces.mpr ⟨0, 4, rfl, by unfold IsC; omega⟩)
    (mem_canonFaces.mpr ⟨4, 0, rfl, by unfold IsC; omega⟩) (by decide)
  have h2 : (canonFaces Lx Ly).length = 4 * (Lx * Ly) := by
    unfold canonFaces
    rw [length_grid, length_range4', length_range4']
    rw [Nat.mul_mul_mul_comm]
  unfold selFaces
  have h3 : 1 ≤ Lx * Ly := Nat.mul_pos hx hy
  omega

/-! ### probes and ranks -/

def probeQubit (x y : Int) : Coord :=
  if 8 ≤ x then (if (x + y) % 8 = 0 then [x - 1, y + 1] else [x - 3, y + 1])
  else if x = 0 then
    (if (x + y) % 8 = 0 then (if y = 0 then [1, 1] else [1, y - 1]) else [1, y - 3])
  else (if (x + y) % 8 = 0 then [3, y - 1] else [3, y - 3])

def probe (s : Coord) : Coord × Pauli :=
  match s with
  | [x, y, p] => (probeQubit x y, if p = 0 then Pauli.Z else Pauli.X)
  | _ => ([], Pauli.I)

def rankI (Lx Ly : Nat) (x y : Int) : Int :=
  (if 8 ≤ x then 16 * (Ly : Int) + x / 2 else y / 2) + (if (x + y) % 8 = 0 then 1 else 0)

def rankOf (Lx Ly : Nat) (s : Coord) : Nat :=
  match s with
  | [x, y, _] => (rankI Lx Ly x y).toNat
  | _ => 0

theorem rankI_spec (Lx Ly : Nat) (x y : Int) :
    (8 ≤ x ∧ (x + y) % 8 = 0 ∧ rankI Lx Ly x y = 16 * (Ly : Int) + x / 2 + 1) ∨
    (8 ≤ x ∧ (x + y) % 8 ≠ 0 ∧ rankI Lx Ly x y = 16 * (Ly : Int) + x / 2) ∨
    (x < 8 ∧ (x + y) % 8 = 0 ∧ rankI Lx Ly x y = y / 2 + 1) ∨
    (x < 8 ∧ (x + y) % 8 ≠ 0 ∧ rankI Lx Ly x y = y / 2) := by
  unfold rankI
  by_cases h1 : 8 ≤ x <;> by_cases h2 : (x + y) % 8 = 0 <;> simp [h1, h2] <;> omega

/-- the seven kinds of probes, each a (wrapped, but in range) corner of its own face -/
theorem probeQubit_spec {Lx Ly : Nat} (hx : 1 ≤ Lx) (hy : 1 ≤ Ly) {x y : Int} (hc : IsC Lx Ly x y)
    (h1 : ¬ (x = 0 ∧ y = 4)) (h2 : ¬ (x = 4 ∧ y = 0)) :
    (8 ≤ x ∧ (x + y) % 8 = 0 ∧
      probeQubit x y = [(x + -1) % (8 * (Lx : Int)), (y + 1) % (8 * (Ly : Int))]) ∨
    (8 ≤ x ∧ (x + y) % 8 ≠ 0 ∧
      probeQubit x y = [(x + -3) % (8 * (Lx : Int)), (y + 1) % (8 * (Ly : Int))]) ∨
    (x = 0 ∧ y = 0 ∧
      probeQubit x y = [(x + 1) % (8 * (Lx : Int)), (y + 1) % (8 * (Ly : Int))]) ∨
    (x = 0 ∧ 8 ≤ y ∧ (x + y) % 8 = 0 ∧
      probeQubit x y = [(x + 1) % (8 * (Lx : Int)), (y + -1) % (8 * (Ly : Int))]) ∨
    (x = 0 ∧ 12 ≤ y ∧ (x + y) % 8 ≠ 0 ∧
      probeQubit x y = [(x + 1) % (8 * (Lx : Int)), (y + -3) % (8 * (Ly : Int))]) ∨
    (x = 4 ∧ 4 ≤ y ∧ (x + y) % 8 = 0 ∧
      probeQubit x y = [(x + -1) % (8 * (Lx : Int)), (y + -1) % (8 * (Ly : Int))]) ∨
    (x = 4 ∧ 8 ≤ y ∧ (x + y) % 8 ≠ 0 ∧
      probeQubit x y = [(x + -1) % (8 * (Lx : Int)), (y + -3) % (8 * (Ly : Int))]) := by
  unfold IsC at hc
  unfold probeQubit
  by_cases hx8 : 8 ≤ x
  · by_cases h8 : (x + y) % 8 = 0
    · left; refine ⟨hx8, h8, ?_⟩
      rw [if_pos hx8, if_pos h8, emod_small (k := x + -1) (by omega) (by omega),
        emod_small (k := y + 1) (by omega) (by omega)]; rfl
    · right; left; refine ⟨hx8, h8, ?_⟩
      rw [if_pos hx8, if_neg h8, emod_small (k := x + -3) (by omega) (by omega),
        emod_small (k := y + 1) (by omega) (by omega)]; rfl
  · by_cases hx0 : x = 0
    · by_cases h8 : (x + y) % 8 = 0
      · by_cases hy0 : y = 0
        · right; right; left; refine ⟨hx0, hy0, ?_⟩
          rw [if_neg hx8, if_pos hx0, if_pos h8, if_pos hy0, hx0, hy0,
            emod_small (k := 0 + 1) (m := 8 * (Lx : Int)) (by omega) (by omega),
            emod_small (k := 0 + 1) (m := 8 * (Ly : Int)) (by omega) (by omega)]; rfl
        · right; right; right; left; refine ⟨hx0, by omega, h8, ?_⟩
          rw [if_neg hx8, if_pos hx0, if_pos h8, if_neg hy0, hx0,
            emod_small (k := 0 + 1) (by omega) (by omega),
            emod_small (k := y + -1) (by omega) (by omega)]; rfl
      · right; right; right; right; left; refine ⟨hx0, by omega, h8, ?_⟩
        rw [if_neg hx8, if_pos hx0, if_neg h8, hx0,
          emod_small (k := 0 + 1) (by omega) (by omega),
          emod_small (k := y + -3) (by omega) (by omega)]; rfl
    · have hx4 : x = 4 := by omega
      by_cases h8 : (x + y) % 8 = 0
      · right; right; right; right; right; left; refine ⟨hx4, by omega, h8, ?_⟩
        rw [if_neg hx8, if_neg hx0, if_pos h8, hx4,
          emod_small (k := 4 + -1) (by omega) (by omega),
          emod_small (k := y + -1) (by omega) (by omega)]; rfl
      · right; right; right; right; right; right; refine ⟨hx4, by omega, h8, ?_⟩
        rw [if_neg hx8, if_neg hx0, if_neg h8, hx4,
          emod_small (k := 4 + -1) (by omega) (by omega),
          emod_small (k := y + -3) (by omega) (by omega)]; rfl

theorem emod_diff {m a b : Int} (ha0 : 0 ≤ a) (ha : a < m) (hb0 : 0 ≤ b) (hb : b < m) :
    ((b - a) % m = b - a ∧ a ≤ b) ∨ ((b - a) % m = b - a + m ∧ b < a) := by
  by_cases h : a ≤ b
  · left; exact ⟨emod_small (by omega) (by omega), h⟩
  · right; exact ⟨emod_neg_small (by omega) (by omega), by omega⟩

end Panqec.Color488Code
