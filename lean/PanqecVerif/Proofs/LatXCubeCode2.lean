/-
XCubeCode lattice model: for sizes ≥ 2 the twelve (four) wrapped neighbours of a cube (vertex) are
distinct qubits, hence `get_stabilizer` is the constant-letter operator on them.
-/
import PanqecVerif.Proofs.LatXCubeCode1
open Panqec Panqec.Lat3Db
namespace Panqec.XCubeCode

theorem nodup_cubeLocs (Lx Ly Lz : Nat) (x y z : Int) (hx : 2 ≤ Lx) (hy : 2 ≤ Ly) (hz : 2 ≤ Lz)
    (h : SC Lx Ly Lz x y z) : (cubeLocs Lx Ly Lz x y z).Nodup := by
  unfold SC R1 at h
  have ux := up_spec (2*Lx) x
  have uy := up_spec (2*Ly) y
  have uz := up_spec (2*Lz) z
  unfold cubeLocs
  generalize up (2*Lx) x = xu at ux ⊢
  generalize up (2*Ly) y = yu at uy ⊢
  generalize up (2*Lz) z = zu at uz ⊢
  have hxu : xu ≠ x - 1 ∧ xu ≠ x := by omega
  have hyu : yu ≠ y - 1 ∧ yu ≠ y := by omega
  have hzu : zu ≠ z - 1 ∧ zu ≠ z := by omega
  clear ux uy uz h
  simp
  omega

theorem nodup_faceLocsX (Lx Ly Lz : Nat) (x y z : Int) (hy : 2 ≤ Ly) (hz : 2 ≤ Lz)
    (h : SVx Lx Ly Lz x y z) : (faceLocsX Lx Ly Lz x y z).Nodup := by
  unfold SVx R0 at h
  have dy := dn_spec (2*Ly) y
  have dz := dn_spec (2*Lz) z
  unfold faceLocsX
  generalize dn (2*Ly) y = yd at dy ⊢
  generalize dn (2*Lz) z = zd at dz ⊢
  have h1 : yd ≠ y + 1 ∧ yd ≠ y := by omega
  have h2 : zd ≠ z + 1 ∧ zd ≠ z := by omega
  clear dy dz h
  simp
  omega

theorem nodup_faceLocsY (Lx Ly Lz : Nat) (x y z : Int) (hx : 2 ≤ Lx) (hz : 2 ≤ Lz)
    (h : SVx Lx Ly Lz x y z) : (faceLocsY Lx Ly Lz x y z).Nodup := by
  unfold SVx R0 at h
  have dx := dn_spec (2*Lx) x
  have dz := dn_spec (2*Lz) z
  unfold faceLocsY
  generalize dn (2*Lx) x = xd at dx ⊢
  generalize dn (2*Lz) z = zd at dz ⊢
  have h1 : xd ≠ x + 1 ∧ xd ≠ x := by omega
  have h2 : zd ≠ z + 1 ∧ zd ≠ z := by omega
  clear dx dz h
  simp
  omega

theorem nodup_faceLocsZ (Lx Ly Lz : Nat) (x y z : Int) (hx : 2 ≤ Lx) (hy : 2 ≤ Ly)
    (h : SVx Lx Ly Lz x y z) : (faceLocsZ Lx Ly Lz x y z).Nodup := by
  unfold SVx R0 at h
  have dx := dn_spec (2*Lx) x
  have dy := dn_spec (2*Ly) y
  unfold faceLocsZ
  generalize dn (2*Lx) x = xd at dx ⊢
  generalize dn (2*Ly) y = yd at dy ⊢
  have h1 : xd ≠ x + 1 ∧ xd ≠ x := by omega
  have h2 : yd ≠ y + 1 ∧ yd ≠ y := by omega
  clear dx dy h
  simp
  omega

/-- range facts about the wrapped neighbours -/
theorem up_R0 (P : Nat) (x : Int) (hP : P % 2 = 0) (h : R1 P x) : R0 P (up P x) := by
  unfold R1 at h; unfold R0; have := up_spec P x; omega
theorem pred_R0 (P : Nat) (x : Int) (h : R1 P x) : R0 P (x - 1) := by
  unfold R1 at h; unfold R0; omega
theorem dn_R1 (P : Nat) (x : Int) (hP : P % 2 = 0) (h : R0 P x) : R1 P (dn P x) := by
  unfold R0 at h; unfold R1; have := dn_spec P x; omega
theorem succ_R1 (P : Nat) (x : Int) (hP : P % 2 = 0) (h : R0 P x) : R1 P (x + 1) := by
  unfold R0 at h; unfold R1; omega

theorem cubeLocs_qubits (Lx Ly Lz : Nat) (x y z : Int) (h : SC Lx Ly Lz x y z) :
    ∀ q ∈ cubeLocs Lx Ly Lz x y z, isQubit Lx Ly Lz q = true := by
  obtain ⟨hx, hy, hz⟩ := h
  have ux := up_R0 (2*Lx) x (by omega) hx
  have uy := up_R0 (2*Ly) y (by omega) hy
  have uz := up_R0 (2*Lz) z (by omega) hz
  have px := pred_R0 (2*Lx) x hx
  have py := pred_R0 (2*Ly) y hy
  have pz := pred_R0 (2*Lz) z hz
  intro q hq
  simp only [cubeLocs, List.mem_cons, List.not_mem_nil, or_false] at hq
  rcases hq with rfl | rfl | rfl | rfl | rfl | rfl | rfl | rfl | rfl | rfl | rfl | rfl <;>
    (rw [isQubit_iff]; unfold QX QY QZ; simp only [*, and_self, true_or, or_true])

theorem faceLocsX_qubits (Lx Ly Lz : Nat) (x y z : Int) (h : SVx Lx Ly Lz x y z) :
    ∀ q ∈ faceLocsX Lx Ly Lz x y z, isQubit Lx Ly Lz q = true := by
  obtain ⟨hx, hy, hz⟩ := h
  have dy := dn_R1 (2*Ly) y (by omega) hy
  have dz := dn_R1 (2*Lz) z (by omega) hz
  have sy := succ_R1 (2*Ly) y (by omega) hy
  have sz := succ_R1 (2*Lz) z (by omega) hz
  intro q hq
  simp only [faceLocsX, List.mem_cons, List.not_mem_nil, or_false] at hq
  rcases hq with rfl | rfl | rfl | rfl <;>
    (rw [isQubit_iff]; unfold QX QY QZ; simp only [*, and_self, true_or, or_true])

theorem faceLocsY_qubits (Lx Ly Lz : Nat) (x y z : Int) (h : SVx Lx Ly Lz x y z) :
    ∀ q ∈ faceLocsY Lx Ly Lz x y z, isQubit Lx Ly Lz q = true := by
  obtain ⟨hx, hy, hz⟩ := h
  have dx := dn_R1 (2*Lx) x (by omega) hx
  have dz := dn_R1 (2*Lz) z (by omega) hz
  have sx := succ_R1 (2*Lx) x (by omega) hx
  have sz := succ_R1 (2*Lz) z (by omega) hz
  intro q hq
  simp only [faceLocsY, List.mem_cons, List.not_mem_nil, or_false] at hq
  rcases hq with rfl | rfl | rfl | rfl <;>
    (rw [isQubit_iff]; unfold QX QY QZ; simp only [*, and_self, true_or, or_true])

theorem faceLocsZ_qubits (Lx Ly Lz : Nat) (x y z : Int) (h : SVx Lx Ly Lz x y z) :
    ∀ q ∈ faceLocsZ Lx Ly Lz x y z, isQubit Lx Ly Lz q = true := by
  obtain ⟨hx, hy, hz⟩ := h
  have dx := dn_R1 (2*Lx) x (by omega) hx
  have dy := dn_R1 (2*Ly) y (by omega) hy
  have sx := succ_R1 (2*Lx) x (by omega) hx
  have sy := succ_R1 (2*Ly) y (by omega) hy
  intro q hq
  simp only [faceLocsZ, List.mem_cons, List.not_mem_nil, or_false] at hq
  rcases hq with rfl | rfl | rfl | rfl <;>
    (rw [isQubit_iff]; unfold QX QY QZ; simp only [*, and_self, true_or, or_true])

theorem filter_all {α} (p : α → Bool) (l : List α) (h : ∀ a ∈ l, p a = true) : l.filter p = l :=
  List.filter_eq_self.mpr h

theorem isStab_cube (Lx Ly Lz : Nat) (x y z : Int) (h : SC Lx Ly Lz x y z) : isStab Lx Ly Lz [x, y, z] = true := by
  unfold isStab; rw [List.contains_iff_mem, mem_stabs_cube]; exact h

theorem isStab_face (Lx Ly Lz : Nat) (ax x y z : Int) (ha : ax = 0 ∨ ax = 1 ∨ ax = 2) (h : SVx Lx Ly Lz x y z) :
    isStab Lx Ly Lz [ax, x, y, z] = true := by
  unfold isStab; rw [List.contains_iff_mem, mem_stabs_face]; exact ⟨ha, h⟩

theorem getStab_cube (Lx Ly Lz : Nat) (x y z : Int) (hx : 2 ≤ Lx) (hy : 2 ≤ Ly) (hz : 2 ≤ Lz)
    (h : SC Lx Ly Lz x y z) :
    getStab Lx Ly Lz [x, y, z] = constOp (cubeLocs Lx Ly Lz x y z) Pauli.Z := by
  unfold getStab getStab?
  simp only [isStab_cube Lx Ly Lz x y z h, Bool.not_true, Bool.false_eq_true, if_false, Option.getD_some,
    map_cubeDelta Lx Ly Lz x y z h]
  rw [buildOp_eq _ _ _ (nodup_cubeLocs Lx Ly Lz x y z hx hy hz h), filter_all _ _ (cubeLocs_qubits Lx Ly Lz x y z h)]

theorem getStab_faceX (Lx Ly Lz : Nat) (x y z : Int) (hy : 2 ≤ Ly) (hz : 2 ≤ Lz) (h : SVx Lx Ly Lz x y z) :
    getStab Lx Ly Lz [0, x, y, z] = constOp (faceLocsX Lx Ly Lz x y z) Pauli.X := by
  unfold getStab getStab?
  simp only [isStab_face Lx Ly Lz 0 x y z (Or.inl rfl) h, Bool.not_true, Bool.false_eq_true, if_false,
    Option.getD_some, beq_self_eq_true, if_true, map_faceDeltaX Lx Ly Lz x y z h]
  rw [buildOp_eq _ _ _ (nodup_faceLocsX Lx Ly Lz x y z hy hz h), filter_all _ _ (faceLocsX_qubits Lx Ly Lz x y z h)]

theorem getStab_faceY (Lx Ly Lz : Nat) (x y z : Int) (hx : 2 ≤ Lx) (hz : 2 ≤ Lz) (h : SVx Lx Ly Lz x y z) :
    getStab Lx Ly Lz [1, x, y, z] = constOp (faceLocsY Lx Ly Lz x y z) Pauli.X := by
  unfold getStab getStab?
  have e : ((1 : Int) == 0) = false := by decide
  simp only [isStab_face Lx Ly Lz 1 x y z (Or.inr (Or.inl rfl)) h, Bool.not_true, Bool.false_eq_true, if_false,
    Option.getD_some, beq_self_eq_true, if_true, e, map_faceDeltaY Lx Ly Lz x y z h]
  rw [buildOp_eq _ _ _ (nodup_faceLocsY Lx Ly Lz x y z hx hz h), filter_all _ _ (faceLocsY_qubits Lx Ly Lz x y z h)]

theorem getStab_faceZ (Lx Ly Lz : Nat) (x y z : Int) (hx : 2 ≤ Lx) (hy : 2 ≤ Ly) (h : SVx Lx Ly Lz x y z) :
    getStab Lx Ly Lz [2, x, y, z] = constOp (faceLocsZ Lx Ly Lz x y z) Pauli.X := by
  unfold getStab getStab?
  have e : ((2 : Int) == 0) = false := by decide
  have e' : ((2 : Int) == 1) = false := by decide
  simp only [isStab_face Lx Ly Lz 2 x y z (Or.inr (Or.inr rfl)) h, Bool.not_true, Bool.false_eq_true, if_false,
    Option.getD_some, e, e', map_faceDeltaZ Lx Ly Lz x y z h]
  rw [buildOp_eq _ _ _ (nodup_faceLocsZ Lx Ly Lz x y z hx hy h), filter_all _ _ (faceLocsZ_qubits Lx Ly Lz x y z h)]

end Panqec.XCubeCode
