import PanqecVerif.Generated.Deformations
namespace Panqec
/-- every single-qubit relabelling any library class returns from `get_deformation`
    (regenerated from the source) is a permutation of {X, Y, Z} -/
theorem deformationTable_perm :
    (Generated.deformationTable.all fun e => e.2.2.isPerm) = true := by decide
end Panqec
