/-
Union-find internals (C05), growth phase, part E: the invariant of `Support.clustering`
(parent-pointer forest, cluster records, connectivity of every cluster through the qubits
assigned to it) and its preservation by the body of `for q in fusion_set`.
-/
import PanqecVerif.Proofs.UnionFindGrowD

namespace Panqec.UF

set_option linter.unusedSimpArgs false
set_option linter.unusedVariables false

/-- the entry `(u, q)` of `_H_to_grow` has been zeroed -/
def grown (H : Mat) (rowDead colDead : Nat → Bool) (u q : Nat) : Bool :=
  hb H u q && !live H rowDead colDead u q

theorem hb_lt {H : Mat} {s q : Nat} (h : hb H s q = true) : s < H.length := by
  by_contra hs
  unfold hb at h
  have hn : H[s]? = none := List.getElem?_eq_none (by omega)
  have hrow : H.getD s [] = [] := by rw [List.getD_eq_getElem?_getD, hn]; rfl
  rw [hrow] at h
  simp at h

/-- `q` joins `u` and `v` inside one cluster: both half-edges are grown, both ends are in the same
    tree and `_q_parents[q]` points into that tree -/
structure EdgeOK (H : Mat) (rowDead colDead : Nat → Bool) (sPar qPar : Nat → Int) (rep : Nat → Nat)
    (u q v : Nat) : Prop where
  gu : grown H rowDead colDead u q = true
  gv : grown H rowDead colDead v q = true
  lu : sPar u ≠ -1
  lv : sPar v ≠ -1
  same : rep u = rep v
  qp : ∃ x : Nat, qPar q = (x : Int) ∧ sPar x ≠ -1 ∧ rep x = rep u

inductive Conn (H : Mat) (rowDead colDead : Nat → Bool) (sPar qPar : Nat → Int) (rep : Nat → Nat) :
    Nat → Nat → Prop
  | refl (u : Nat) : Conn H rowDead colDead sPar qPar rep u u
  | step {u v q w : Nat} : Conn H rowDead colDead sPar qPar rep u v →
      EdgeOK H rowDead colDead sPar qPar rep v q w → Conn H rowDead colDead sPar qPar rep u w

section
variable {H : Mat} {rowDead colDead : Nat → Bool} {sPar qPar : Nat → Int} {rep : Nat → Nat}

theorem EdgeOK.symm {u q v : Nat} (e : EdgeOK H rowDead colDead sPar qPar rep u q v) :
    EdgeOK H rowDead colDead sPar qPar rep v q u := by
  obtain ⟨x, h1, h2, h3⟩ := e.qp
  exact ⟨e.gv, e.gu, e.lv, e.lu, e.same.symm, x, h1, h2, h3.trans e.same⟩

theorem Conn.trans {a b c : Nat} (h1 : Conn H rowDead colDead sPar qPar rep a b)
    (h2 : Conn H rowDead colDead sPar qPar rep b c) : Conn H rowDead colDead sPar qPar rep a c := by
  induction h2 with
  | refl => exact h1
  | step _ e ih => exact Conn.step ih e

theorem Conn.symm {a b : Nat} (h : Conn H rowDead colDead sPar qPar rep a b) :
    Conn H rowDead colDead sPar qPar rep b a := by
  induction h with
  | refl => exact Conn.refl _
  | step _ e ih => exact Conn.trans (Conn.step (Conn.refl _) e.symm) ih

theorem Conn.same {a b : Nat} (h : Conn H rowDead colDead sPar qPar rep a b) : rep a = rep b := by
  induction h with
  | refl => rfl
  | step _ e ih => exact ih.trans e.same

theorem Conn.live {a b : Nat} (h : Conn H rowDead colDead sPar qPar rep a b) (ha : sPar a ≠ -1) :
    sPar b ≠ -1 := by
  induction h with
  | refl => exact ha
  | step _ e _ => exact e.lv

theorem Conn.lift {rowDead' colDead' : Nat → Bool} {sPar' qPar' : Nat → Int} {rep' : Nat → Nat}
    (hl : ∀ u q v, EdgeOK H rowDead colDead sPar qPar rep u q v →
      EdgeOK H rowDead' colDead' sPar' qPar' rep' u q v)
    {a b : Nat} (h : Conn H rowDead colDead sPar qPar rep a b) :
    Conn H rowDead' colDead' sPar' qPar' rep' a b := by
  induction h with
  | refl => exact Conn.refl _
  | step _ e ih => exact Conn.step ih (hl _ _ _ e)

end

/-- invariant of the `while smallest_cluster` loop and of the loop over the fusion set -/
structure GInv (H : Mat) (sy : Vec) (st : GState) (rep d : Nat → Nat) : Prop where
  uf : UFInv H.length st.sPar rep d
  fi : FInv H.length sy st.sPar rep st.forest
  nbad : st.bad = false
  conn : ∀ i, st.sPar i ≠ -1 → Conn H st.rowDead st.colDead st.sPar st.qPar rep (rep i) i
  qrng : ∀ q, st.qPar q = -1 ∨ ∃ x : Nat, st.qPar q = (x : Int) ∧ st.sPar x ≠ -1

/-- the rows of column `q` whose entry in `_H_to_grow` has been zeroed
    (`(H[:, q] - _H_to_grow[:, q]).nonzero()[0]`) -/
def grownRows (H : Mat) (st : GState) (q : Nat) : List Nat :=
  (List.range H.length).filter fun s => hb H s q && !live H st.rowDead st.colDead s q

theorem mem_grownRows {H : Mat} {st : GState} {q s : Nat} :
    s ∈ grownRows H st q ↔ grown H st.rowDead st.colDead s q = true := by
  unfold grownRows
  rw [mem_filter_range]
  unfold grown
  constructor
  · exact fun h => h.2
  · intro h
    exact ⟨hb_lt (by simp only [Bool.and_eq_true] at h; exact h.1), h⟩

/-- **`_q_parents[q] = merge_clusters(grown rows of q)` preserves the invariant**; the
    specification of the merge is exported for the termination argument -/
theorem fuse_spec {H : Mat} {sy : Vec} {st : GState} {rep d : Nat → Nat} (I : GInv H sy st rep d)
    (qi : Int) : ∃ rep' d', GInv H sy (fuseStep H st qi) rep' d' ∧
      MergeSpec H.length sy st.sPar rep st.forest (grownRows H st qi.toNat)
        ((fuseStep H st qi).qPar qi.toNat) (fuseStep H st qi).sPar (fuseStep H st qi).forest rep' d' ∧
      (fuseStep H st qi).rowDead = st.rowDead ∧ (fuseStep H st qi).colDead = st.colDead := by
  unfold grownRows
  -- the rows of the column that have been grown
  have hssm : ∀ s, s ∈ ((List.range H.length).filter fun s =>
      hb H s qi.toNat && !live H st.rowDead st.colDead s qi.toNat) → s < H.length := by
    intro s hs; exact ((mem_filter_range _ _ _).mp hs).1
  obtain ⟨rep', d', M, hbad⟩ := mergeClusters_spec I.uf I.fi _ hssm ((List.nodup_range).filter _)
  have hssmem : ∀ s, s ∈ ((List.range H.length).filter fun s =>
      hb H s qi.toNat && !live H st.rowDead st.colDead s qi.toNat) ↔
      grown H st.rowDead st.colDead s qi.toNat = true := by
    intro s
    rw [mem_filter_range]
    unfold grown
    constructor
    · exact fun h => h.2
    · intro h
      refine ⟨hb_lt (by simp only [Bool.and_eq_true] at h; exact h.1), h⟩
  generalize hss : ((List.range H.length).filter fun s =>
      hb H s qi.toNat && !live H st.rowDead st.colDead s qi.toNat) = ss at M hbad hssmem
  have hstep : fuseStep H st qi =
      { st with sPar := (mergeClusters H.length st.sPar st.forest ss).2.1,
                forest := (mergeClusters H.length st.sPar st.forest ss).2.2.1,
                bad := st.bad || (mergeClusters H.length st.sPar st.forest ss).2.2.2,
                qPar := fun i => if i = qi.toNat then (mergeClusters H.length st.sPar st.forest ss).1
                  else st.qPar i } := by
    unfold fuseStep; simp only [hss]
  rw [hstep]
  generalize mergeClusters H.length st.sPar st.forest ss = r at M hbad
  obtain ⟨rt, sp', forest', bad'⟩ := r
  simp only [] at M hbad ⊢
  subst hbad
  by_cases hlive : ∃ s, s ∈ ss ∧ st.sPar s ≠ -1
  · -- some grown row already belongs to a tree: everything adjacent to `q` is merged into `b`
    obtain ⟨b, hrt, hbroot, hall, sb, hsb, hsbl, hsbr⟩ := M.merged hlive
    have hbrep : rep' b = b := M.uf.root_rep b hbroot
    -- old edges stay edges
    have hlift : ∀ u q v, EdgeOK H st.rowDead st.colDead st.sPar st.qPar rep u q v →
        EdgeOK H st.rowDead st.colDead sp'
          (fun i => if i = qi.toNat then rt else st.qPar i) rep' u q v := by
      intro u q v e
      refine ⟨e.gu, e.gv, M.live_mono u e.lu, M.live_mono v e.lv, M.coarse u v e.lu e.lv e.same, ?_⟩
      by_cases hq : q = qi.toNat
      · subst hq
        have hu := (hall u ((hssmem u).mpr e.gu))
        refine ⟨b, by simp [hrt], by rw [hbroot]; omega, ?_⟩
        rw [hbrep, hu.2]
      · obtain ⟨x, h1, h2, h3⟩ := e.qp
        refine ⟨x, by simp [hq, h1], M.live_mono x h2, M.coarse x u h2 e.lu h3⟩
    -- new edges between any two grown rows of the column
    have hnew : ∀ s s', s ∈ ss → s' ∈ ss →
        EdgeOK H st.rowDead st.colDead sp'
          (fun i => if i = qi.toNat then rt else st.qPar i) rep' s qi.toNat s' := by
      intro s s' hs hs'
      have h1 := hall s hs
      have h2 := hall s' hs'
      exact ⟨(hssmem s).mp hs, (hssmem s').mp hs', h1.1, h2.1, h1.2.trans h2.2.symm,
        b, by simp [hrt], by rw [hbroot]; omega, by rw [hbrep, h1.2]⟩
    -- `b` is connected to every grown row
    have hb_s : ∀ s, s ∈ ss → Conn H st.rowDead st.colDead sp'
        (fun i => if i = qi.toNat then rt else st.qPar i) rep' b s := by
      intro s hs
      have h1 := (I.conn sb hsbl).lift hlift
      rw [hsbr] at h1
      exact Conn.step h1 (hnew sb s hsb hs)
    refine ⟨rep', d', ⟨M.uf, M.fi, by simp [I.nbad], ?_, ?_⟩, by simpa using M, trivial, trivial⟩
    · intro i hi
      show Conn H st.rowDead st.colDead sp' (fun i => if i = qi.toNat then rt else st.qPar i) rep' (rep' i) i
      by_cases hold : st.sPar i = -1
      · have his := M.newlive i hold hi
        rw [(hall i his).2]; exact hb_s i his
      · have hc := (I.conn i hold).lift hlift
        rcases M.frame i hold with h | ⟨s, hs, hsl, hsr⟩
        · rw [h]; exact hc
        · -- the tree of `i` was merged: go through `s`
          have h1 : rep' i = b := by
            rw [M.coarse i s hold hsl hsr.symm]; exact (hall s hs).2
          rw [h1]
          have h2 := (I.conn s hsl).lift hlift
          rw [hsr] at h2
          exact (hb_s s hs).trans (h2.symm.trans hc)
    · intro q
      by_cases hq : q = qi.toNat
      · refine Or.inr ⟨b, by simp [hq, hrt], ?_⟩
        show sp' b ≠ -1
        rw [hbroot]; omega
      · simp only [hq, if_false]
        rcases I.qrng q with h | ⟨x, h1, h2⟩
        · exact Or.inl h
        · exact Or.inr ⟨x, h1, M.live_mono x h2⟩
  · -- nothing to merge
    have hall : ∀ s, s ∈ ss → st.sPar s = -1 := by
      intro s hs
      by_contra h
      exact hlive ⟨s, hs, h⟩
    obtain ⟨hrt, hfresh⟩ := M.none hall
    have hrep : ∀ i, st.sPar i ≠ -1 → rep' i = rep i := by
      intro i hi
      rcases M.frame i hi with h | ⟨s, hs, hsl, _⟩
      · exact h
      · exact absurd (hall s hs) hsl
    have hlift : ∀ u q v, EdgeOK H st.rowDead st.colDead st.sPar st.qPar rep u q v →
        EdgeOK H st.rowDead st.colDead sp'
          (fun i => if i = qi.toNat then rt else st.qPar i) rep' u q v := by
      intro u q v e
      have hq : q ≠ qi.toNat := by
        intro hq; subst hq
        exact e.lu (hall u ((hssmem u).mpr e.gu))
      obtain ⟨x, h1, h2, h3⟩ := e.qp
      exact ⟨e.gu, e.gv, M.live_mono u e.lu, M.live_mono v e.lv, M.coarse u v e.lu e.lv e.same,
        x, by simp [hq, h1], M.live_mono x h2, M.coarse x u h2 e.lu h3⟩
    refine ⟨rep', d', ⟨M.uf, M.fi, by simp [I.nbad], ?_, ?_⟩, by simpa using M, trivial, trivial⟩
    · intro i hi
      have hold : st.sPar i ≠ -1 := fun h => hi ((hfresh i).mpr h)
      show Conn H st.rowDead st.colDead sp' (fun i => if i = qi.toNat then rt else st.qPar i) rep' (rep' i) i
      rw [hrep i hold]
      exact (I.conn i hold).lift hlift
    · intro q
      by_cases hq : q = qi.toNat
      · exact Or.inl (by simp [hq, hrt])
      · simp only [hq, if_false]
        rcases I.qrng q with h | ⟨x, h1, h2⟩
        · exact Or.inl h
        · exact Or.inr ⟨x, h1, M.live_mono x h2⟩

theorem GInv_fuse {H : Mat} {sy : Vec} {st : GState} {rep d : Nat → Nat} (I : GInv H sy st rep d)
    (qi : Int) : ∃ rep' d', GInv H sy (fuseStep H st qi) rep' d' := by
  obtain ⟨rep', d', h, _⟩ := fuse_spec I qi
  exact ⟨rep', d', h⟩

end Panqec.UF
