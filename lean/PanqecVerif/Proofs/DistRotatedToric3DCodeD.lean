/-
RotatedToric3DCode, supported family, C17 (3b/3): anticommutation counts of the row / column /
wall operators as the sums of `Proofs/DistRotatedToric3DCodeB.lean`, and the parity chains: every
row (column) of a layer against the first one, every layer against the bottom one, every wall
against the first one.
-/
import PanqecVerif.Proofs.DistRotatedToric3DCodeC

namespace Panqec.RotatedToric3DCode
open Panqec.Lat3Db
open Panqec.Lat2D (rsum rsum2 rsum_congr rsum2_congr rsum_even rsum2_even rsum_add rsum2_add
  chain ind)

set_option linter.unusedVariables false
set_option linter.unusedSimpArgs false

variable {Lx Ly Lz : Nat}

/-! ### sums -/

theorem rsum_mod2_congr {f g : Nat → Nat} : ∀ L : Nat, (∀ j, j < L → f j % 2 = g j % 2) →
    rsum L f % 2 = rsum L g % 2
  | 0, _ => rfl
  | L + 1, h => by
    have ih := rsum_mod2_congr L (fun j hj => h j (by omega))
    have hl := h L (by omega)
    simp only [rsum]
    omega

theorem rsum2_mod2_congr {A B : Nat} {f g : Nat → Nat → Nat}
    (h : ∀ j k, j < A → k < B → f j k % 2 = g j k % 2) : rsum2 A B f % 2 = rsum2 A B g % 2 :=
  rsum_mod2_congr A (fun j hj => rsum_mod2_congr B (fun k hk => h j k hj hk))

theorem rsum2_swap (B : Nat) (f : Nat → Nat → Nat) : ∀ A : Nat,
    rsum2 A B f = rsum2 B A (fun k j => f j k)
  | 0 => by
    unfold rsum2
    simp only [rsum]
    exact (Lat2D.rsum_zero B (fun _ _ => rfl)).symm
  | A + 1 => by
    have ih := rsum2_swap B f A
    unfold rsum2 at ih ⊢
    simp only [rsum]
    rw [rsum_add, ih]

/-! ### letters and signs -/

theorem dl_not_col (q : Coord) : dl (!col q) q = Pauli.X := by
  unfold dl; cases col q <;> rfl
theorem dl_col (q : Coord) : dl (col q) q = Pauli.Z := by
  unfold dl; cases col q <;> rfl

theorem xH_qubit {b : Op} {q : Coord} (hq : isQubit Lx Ly Lz q = true) :
    xH Lx Ly Lz b q = if opHit Pauli.X b q = true then 1 else 0 := by
  unfold xH hS
  rw [if_pos hq, dl_not_col]
  rfl

/-- Z indicator + X indicator = the two sign indicators -/
theorem zH_add_xH {b : Op} {q : Coord} (hq : isQubit Lx Ly Lz q = true) :
    (if opHit Pauli.Z b q = true then 1 else 0) + xH Lx Ly Lz b q =
      hS Lx Ly Lz b true q + hS Lx Ly Lz b false q := by
  unfold xH hS
  simp only [hq, if_true]
  unfold opHit
  have h1 := dl_not_col q; have h2 := dl_col q
  cases hc : col q <;> rw [hc] at h1 h2 <;> simp only [Bool.not_true, Bool.not_false] at h1 ⊢ <;>
    rw [h1, h2] <;> omega

/-- the Y indicator has the parity of the two sign indicators together -/
theorem yH_mod2 {b : Op} {q : Coord} (hq : isQubit Lx Ly Lz q = true) :
    (if opHit Pauli.Y b q = true then 1 else 0) % 2 =
      (hS Lx Ly Lz b true q + hS Lx Ly Lz b false q) % 2 := by
  unfold hS
  simp only [hq, if_true]
  unfold opHit dl
  cases col q <;> cases Op.letter b q <;> simp [Pauli.anti]

/-! ### counts of the operators -/

theorem count_rowK (b : Op) {g c : Int} (hg : R1 (2 * Ly) g) (hc : R1 (2 * Lz) c) :
    (rowK Lx g c).countP (opHit Pauli.X b) = xRow Lx Ly Lz b g c := by
  unfold rowK xRow
  rw [countP_lineO]
  apply rsum_congr
  intro j hj
  rw [xH_qubit (isQ_h (by unfold Od; omega) (R1_Od.mp hg) hc)]

theorem count_colK (b : Op) {f c : Int} (hf : R1 (2 * Lx) f) (hc : R1 (2 * Lz) c) :
    (colK Ly f c).countP (opHit Pauli.X b) = xCol Lx Ly Lz b f c := by
  unfold colK xCol
  rw [countP_lineO]
  apply rsum_congr
  intro j hj
  rw [xH_qubit (isQ_h (R1_Od.mp hf) (by unfold Od; omega) hc)]

theorem count_wallYK_Y (b : Op) {g : Int} (hg : R1 (2 * Ly) g) :
    (wallYK Lx Lz g).countP (opHit Pauli.Y b) % 2 = yWall Lx Ly Lz b g % 2 := by
  unfold wallYK yWall
  rw [countP_planeO (opHit Pauli.Y b) (fun x z => [x, g, z]) Lz Lx, rsum2_swap Lz _ Lx]
  apply rsum2_mod2_congr
  intro k j hk hj
  exact yH_mod2 (isQ_h (by unfold Od; omega) (R1_Od.mp hg) (by unfold R1; omega))

theorem count_wallXK_Y (b : Op) {f : Int} (hf : R1 (2 * Lx) f) :
    (wallXK Ly Lz f).countP (opHit Pauli.Y b) % 2 = xWall Lx Ly Lz b f % 2 := by
  unfold wallXK xWall
  rw [countP_planeO (opHit Pauli.Y b) (fun y z => [f, y, z]) Lz Ly, rsum2_swap Lz _ Ly]
  apply rsum2_mod2_congr
  intro k j hk hj
  exact yH_mod2 (isQ_h (R1_Od.mp hf) (by unfold Od; omega) (by unfold R1; omega))

/-- the Z count of the wall `y = g` plus the X counts of its rows is the Y-count of the wall -/
theorem count_wallYK_Z (b : Op) {g : Int} (hg : R1 (2 * Ly) g) :
    (wallYK Lx Lz g).countP (opHit Pauli.Z b)
      + rsum Lz (fun k => xRow Lx Ly Lz b g (2 * (k : Int) + 1)) = yWall Lx Ly Lz b g := by
  unfold wallYK yWall xRow
  rw [countP_planeO (opHit Pauli.Z b) (fun x z => [x, g, z]) Lz Lx, rsum2_swap Lz _ Lx]
  show rsum2 Lz Lx _ + rsum2 Lz Lx (fun k j => xH Lx Ly Lz b [2 * (j : Int) + 1, g, 2 * (k : Int) + 1])
    = _
  rw [← rsum2_add]
  apply rsum2_congr
  intro k j hk hj
  exact zH_add_xH (isQ_h (by unfold Od; omega) (R1_Od.mp hg) (by unfold R1; omega))

theorem count_wallXK_Z (b : Op) {f : Int} (hf : R1 (2 * Lx) f) :
    (wallXK Ly Lz f).countP (opHit Pauli.Z b)
      + rsum Lz (fun k => xCol Lx Ly Lz b f (2 * (k : Int) + 1)) = xWall Lx Ly Lz b f := by
  unfold wallXK xWall xCol
  rw [countP_planeO (opHit Pauli.Z b) (fun y z => [f, y, z]) Lz Ly, rsum2_swap Lz _ Ly]
  show rsum2 Lz Ly _ + rsum2 Lz Ly (fun k j => xH Lx Ly Lz b [f, 2 * (j : Int) + 1, 2 * (k : Int) + 1])
    = _
  rw [← rsum2_add]
  apply rsum2_congr
  intro k j hk hj
  exact zH_add_xH (isQ_h (R1_Od.mp hf) (by unfold Od; omega) (by unfold R1; omega))

/-! ### chains -/

theorem xRow_all (hF : Fam Lx Ly) (hpx : Lx % 2 = 0) {b : Op} (hb : CommStabs Lx Ly Lz b)
    {k : Nat} (hk : k < Lz) (i : Nat) (hi : i < Ly) :
    xRow Lx Ly Lz b (2 * (i : Int) + 1) (2 * (k : Int) + 1) % 2 =
      xRow Lx Ly Lz b 1 (2 * (k : Int) + 1) % 2 := by
  have h := chain Ly (fun i => xRow Lx Ly Lz b (2 * (i : Int) + 1) (2 * (k : Int) + 1))
    (fun i hi => by
      have e : (2 * ((i + 1 : Nat) : Int) + 1) = 2 * (i : Int) + 3 := by omega
      simp only [e]
      exact xRow_step hF hpx hb hi hk) i hi
  simpa using h

theorem xCol_all (hF : Fam Lx Ly) (hpy : Ly % 2 = 0) {b : Op} (hb : CommStabs Lx Ly Lz b)
    {k : Nat} (hk : k < Lz) (i : Nat) (hi : i < Lx) :
    xCol Lx Ly Lz b (2 * (i : Int) + 1) (2 * (k : Int) + 1) % 2 =
      xCol Lx Ly Lz b 1 (2 * (k : Int) + 1) % 2 := by
  have h := chain Lx (fun i => xCol Lx Ly Lz b (2 * (i : Int) + 1) (2 * (k : Int) + 1))
    (fun i hi => by
      have e : (2 * ((i + 1 : Nat) : Int) + 1) = 2 * (i : Int) + 3 := by omega
      simp only [e]
      exact xCol_step hF hpy hb hi hk) i hi
  simpa using h

theorem yWall_all (hF : Fam Lx Ly) {b : Op} (hb : CommStabs Lx Ly Lz b) (i : Nat) (hi : i < Ly) :
    yWall Lx Ly Lz b (2 * (i : Int) + 1) % 2 = yWall Lx Ly Lz b 1 % 2 := by
  have h := chain Ly (fun i => yWall Lx Ly Lz b (2 * (i : Int) + 1))
    (fun i hi => by
      have e : (2 * ((i + 1 : Nat) : Int) + 1) = 2 * (i : Int) + 3 := by omega
      simp only [e]
      exact yWall_step hF hb i hi) i hi
  simpa using h

theorem xWall_all (hF : Fam Lx Ly) {b : Op} (hb : CommStabs Lx Ly Lz b) (i : Nat) (hi : i < Lx) :
    xWall Lx Ly Lz b (2 * (i : Int) + 1) % 2 = xWall Lx Ly Lz b 1 % 2 := by
  have h := chain Lx (fun i => xWall Lx Ly Lz b (2 * (i : Int) + 1))
    (fun i hi => by
      have e : (2 * ((i + 1 : Nat) : Int) + 1) = 2 * (i : Int) + 3 := by omega
      simp only [e]
      exact xWall_step hF hb i hi) i hi
  simpa using h

theorem xRow_layers (hF : Fam Lx Ly) (hpx : Lx % 2 = 0) {b : Op} (hb : CommStabs Lx Ly Lz b)
    {i : Nat} (hi : i < Ly) (hrow : ¬ (Ly % 2 = 1 ∧ i = 0)) (k : Nat) (hk : k < Lz) :
    xRow Lx Ly Lz b (2 * (i : Int) + 1) (2 * (k : Int) + 1) % 2 =
      xRow Lx Ly Lz b (2 * (i : Int) + 1) 1 % 2 := by
  have h := chain Lz (fun k => xRow Lx Ly Lz b (2 * (i : Int) + 1) (2 * (k : Int) + 1))
    (fun k hk => by
      have e : (2 * ((k + 1 : Nat) : Int) + 1) = 2 * (k : Int) + 3 := by omega
      simp only [e]
      exact xRow_up hF hpx hb hi hrow hk) k hk
  simpa using h

theorem xCol_layers (hF : Fam Lx Ly) (hpy : Ly % 2 = 0) {b : Op} (hb : CommStabs Lx Ly Lz b)
    {i : Nat} (hi : i < Lx) (hcol : ¬ (Lx % 2 = 1 ∧ i = 0)) (k : Nat) (hk : k < Lz) :
    xCol Lx Ly Lz b (2 * (i : Int) + 1) (2 * (k : Int) + 1) % 2 =
      xCol Lx Ly Lz b (2 * (i : Int) + 1) 1 % 2 := by
  have h := chain Lz (fun k => xCol Lx Ly Lz b (2 * (i : Int) + 1) (2 * (k : Int) + 1))
    (fun k hk => by
      have e : (2 * ((k + 1 : Nat) : Int) + 1) = 2 * (k : Int) + 3 := by omega
      simp only [e]
      exact xCol_up hF hpy hb hi hcol hk) k hk
  simpa using h

/-- odd × even: every column of every layer against the column `x = 1` of the bottom layer
    (inside a layer through the faces; between the layers along the column `x = 3`, because the
    column `x = 1` carries no vertical faces) -/
theorem xCol_any_OE (hF : Fam Lx Ly) (hx : Lx % 2 = 1) (hy : Ly % 2 = 0) {b : Op}
    (hb : CommStabs Lx Ly Lz b) {i k : Nat} (hi : i < Lx) (hk : k < Lz) :
    xCol Lx Ly Lz b (2 * (i : Int) + 1) (2 * (k : Int) + 1) % 2 = xCol Lx Ly Lz b 1 1 % 2 := by
  have hLx : 3 ≤ Lx := by have := hF.1; omega
  have hLz : 0 < Lz := by omega
  have h1 := xCol_all hF hy hb hk i hi
  have h2 := xCol_all hF hy hb hk 1 (by omega)
  have h3 := xCol_layers hF hy hb (i := 1) (by omega) (by omega) k hk
  have h4 := xCol_all hF hy hb (k := 0) hLz 1 (by omega)
  simp only [Nat.cast_one, Nat.cast_zero, Int.mul_one, Int.mul_zero, Int.zero_add] at h2 h3 h4
  have e : (2 : Int) + 1 = 3 := by norm_num
  rw [e] at h2 h3 h4
  omega

/-- even × odd: every row of every layer against the row `y = 1` of the bottom layer -/
theorem xRow_any_EO (hF : Fam Lx Ly) (hx : Lx % 2 = 0) (hy : Ly % 2 = 1) {b : Op}
    (hb : CommStabs Lx Ly Lz b) {i k : Nat} (hi : i < Ly) (hk : k < Lz) :
    xRow Lx Ly Lz b (2 * (i : Int) + 1) (2 * (k : Int) + 1) % 2 = xRow Lx Ly Lz b 1 1 % 2 := by
  have hLy : 3 ≤ Ly := by have := hF.2.1; omega
  have hLz : 0 < Lz := by omega
  have h1 := xRow_all hF hx hb hk i hi
  have h2 := xRow_all hF hx hb hk 1 (by omega)
  have h3 := xRow_layers hF hx hb (i := 1) (by omega) (by omega) k hk
  have h4 := xRow_all hF hx hb (k := 0) hLz 1 (by omega)
  simp only [Nat.cast_one, Nat.cast_zero, Int.mul_one, Int.mul_zero, Int.zero_add] at h2 h3 h4
  have e : (2 : Int) + 1 = 3 := by norm_num
  rw [e] at h2 h3 h4
  omega

/-- even × even: the Z count of every wall `x = f` against the wall `x = 1` -/
theorem zWallX_all (hF : Fam Lx Ly) (hy : Ly % 2 = 0) {b : Op} (hb : CommStabs Lx Ly Lz b)
    (i : Nat) (hi : i < Lx) :
    (wallXK Ly Lz (2 * (i : Int) + 1)).countP (opHit Pauli.Z b) % 2 =
      (wallXK Ly Lz 1).countP (opHit Pauli.Z b) % 2 := by
  have h1 := count_wallXK_Z (Lx := Lx) (Ly := Ly) (Lz := Lz) b (f := 2 * (i : Int) + 1)
    (by unfold R1; omega)
  have h2 := count_wallXK_Z (Lx := Lx) (Ly := Ly) (Lz := Lz) b (f := 1) (by unfold R1; omega)
  have h3 := xWall_all hF hb i hi
  have h4 := rsum_mod2_congr (f := fun k => xCol Lx Ly Lz b (2 * (i : Int) + 1) (2 * (k : Int) + 1))
    (g := fun k => xCol Lx Ly Lz b 1 (2 * (k : Int) + 1)) Lz
    (fun k hk => xCol_all hF hy hb hk i hi)
  omega

theorem zWallY_all (hF : Fam Lx Ly) (hx : Lx % 2 = 0) {b : Op} (hb : CommStabs Lx Ly Lz b)
    (i : Nat) (hi : i < Ly) :
    (wallYK Lx Lz (2 * (i : Int) + 1)).countP (opHit Pauli.Z b) % 2 =
      (wallYK Lx Lz 1).countP (opHit Pauli.Z b) % 2 := by
  have h1 := count_wallYK_Z (Lx := Lx) (Ly := Ly) (Lz := Lz) b (g := 2 * (i : Int) + 1)
    (by unfold R1; omega)
  have h2 := count_wallYK_Z (Lx := Lx) (Ly := Ly) (Lz := Lz) b (g := 1)
    (by unfold R1; have := hF.2.1; omega)
  have h3 := yWall_all hF hb i hi
  have h4 := rsum_mod2_congr (f := fun k => xRow Lx Ly Lz b (2 * (i : Int) + 1) (2 * (k : Int) + 1))
    (g := fun k => xRow Lx Ly Lz b 1 (2 * (k : Int) + 1)) Lz
    (fun k hk => xRow_all hF hx hb hk i hi)
  omega

end Panqec.RotatedToric3DCode
