/-
Soundness of the packed-bitmask checker (part 2): independence from a dual certificate,
`xorSelect` versus `xorCombo`, picked generators form a sublist, minimum of a concatenation.
Core Lean only.
-/
import PanqecVerif.Proofs.Mask1

namespace Panqec

/-! ### vzero / vxor / xorCombo basics -/

theorem vxor_length (a b : List Nat) (h : a.length = b.length) :
    (vxor a b).length = a.length := by
  simp [vxor, vadd_length a b h]

theorem xorCombo_length (m : Nat) : ∀ (sel : List Bool) (rows : List (List Nat)),
    (∀ r ∈ rows, r.length = m) → (xorCombo m sel rows).length = m
  | [], _, _ => by simp [xorCombo, vzero]
  | _ :: _, [], _ => by simp [xorCombo, vzero]
  | s :: sel, r :: rows, h => by
    have ih := xorCombo_length m sel rows (fun x hx => h x (by simp [hx]))
    have hr : r.length = m := h r (by simp)
    cases s
    · simpa [xorCombo] using ih
    · simp only [xorCombo, if_true]
      rw [vxor_length _ _ (by rw [ih, hr]), hr]

theorem dot_replicate_zero_left : ∀ (k : Nat) (b : List Nat), dot (List.replicate k 0) b = 0
  | 0, b => by simp [dot]
  | k + 1, [] => by simp [dot_nil_right]
  | k + 1, b :: bs => by simp [List.replicate_succ, dot_replicate_zero_left k bs]

theorem symp_vzero_left (m : Nat) (d : List Nat) : symp (vzero m) d = 0 := by
  simp [symp, vzero, xPart, zPart, dot_replicate_zero_left]

/-! ### 6a. independence from a dual certificate -/

/-- `Σ_i sel[i] · symp rows[i] d` -/
def sympCombo (d : List Nat) : List Bool → List (List Nat) → Nat
  | s :: sel, r :: rows => (if s then symp r d else 0) + sympCombo d sel rows
  | _, _ => 0

/-- bilinearity: pairing a combination of rows with `d` -/
theorem symp_xorCombo (m : Nat) (d : List Nat) : ∀ (sel : List Bool) (rows : List (List Nat)),
    (∀ r ∈ rows, r.length = m) → symp (xorCombo m sel rows) d = sympCombo d sel rows % 2
  | [], _, _ => by simp [xorCombo, sympCombo, symp_vzero_left]
  | _ :: _, [], _ => by simp [xorCombo, sympCombo, symp_vzero_left]
  | s :: sel, r :: rows, h => by
    have hrows : ∀ x ∈ rows, x.length = m := fun x hx => h x (by simp [hx])
    have ih := symp_xorCombo m d sel rows hrows
    have hr : r.length = m := h r (by simp)
    cases s
    · simpa [xorCombo, sympCombo] using ih
    · simp only [xorCombo, sympCombo, if_true]
      rw [symp_vxor_left _ _ _ (by rw [xorCombo_length m sel rows hrows, hr]), ih]
      omega

theorem sympCombo_zero (d : List Nat) : ∀ (sel : List Bool) (rows : List (List Nat)),
    (∀ i, i < rows.length → symp (rows.getD i []) d = 0) → sympCombo d sel rows = 0
  | [], _, _ => by simp [sympCombo]
  | _ :: _, [], _ => by simp [sympCombo]
  | s :: sel, r :: rows, h => by
    have h0 : symp r d = 0 := by simpa using h 0 (by simp)
    have ih := sympCombo_zero d sel rows (fun i hi => by
      have := h (i + 1) (by simp; omega)
      simpa using this)
    simp [sympCombo, h0, ih]

/-- if `d` anticommutes with exactly row `j`, the pairing reads off `sel[j]` -/
theorem sympCombo_delta (d : List Nat) : ∀ (rows : List (List Nat)) (sel : List Bool) (j : Nat),
    sel.length = rows.length →
    (∀ i, i < rows.length → symp (rows.getD i []) d = if i = j then 1 else 0) →
    sympCombo d sel rows = if sel.getD j false then 1 else 0
  | [], [], j, _, _ => by simp [sympCombo]
  | [], _ :: _, _, hl, _ => by simp at hl
  | _ :: _, [], _, hl, _ => by simp at hl
  | r :: rows, s :: sel, j, hl, h => by
    have hl' : sel.length = rows.length := by simpa using hl
    cases j with
    | zero =>
      have h0 : symp r d = 1 := by simpa using h 0 (by simp)
      have hz := sympCombo_zero d sel rows (fun i hi => by
        have := h (i + 1) (by simp; omega)
        simpa using this)
      cases s <;> simp [sympCombo, h0, hz]
    | succ j =>
      have h0 : symp r d = 0 := by simpa using h 0 (by simp)
      have ih := sympCombo_delta d rows sel j hl' (fun i hi => by
        have := h (i + 1) (by simp; omega)
        simpa using this)
      simp [sympCombo, h0, ih]

/-- Rows that admit a dual family (`symp rows[i] dual[j] = δ_ij`) are linearly independent. -/
theorem indep_of_dual (n : Nat) (rows dual : List (List Nat)) (hwf : WFRows n rows)
    (hlen : rows.length = dual.length)
    (h : ∀ i j, i < rows.length → j < dual.length →
      symp (rows.getD i []) (dual.getD j []) = if i = j then 1 else 0) :
    Indep (2 * n) rows := by
  intro sel hsel hz s hs
  obtain ⟨j, hj, rfl⟩ := List.mem_iff_getElem.mp hs
  have hj' : j < dual.length := by omega
  have h1 := symp_xorCombo (2 * n) (dual.getD j []) sel rows (fun r hr => (hwf r hr).1)
  rw [hz, symp_vzero_left,
    sympCombo_delta _ rows sel j hsel (fun i hi => h i j hi hj')] at h1
  have hg : sel.getD j false = sel[j] := by simp [List.getD_eq_getElem?_getD, hj]
  rw [hg] at h1
  cases hsj : sel[j]
  · rfl
  · rw [hsj] at h1; simp at h1

/-! ### 6b. `xorSelect` is `xorCombo` on the unpacked rows -/

/-- the low `w` bits of `sel` as a selection list -/
def selBits : Nat → Nat → List Bool
  | 0, _ => []
  | w + 1, s => decide (s % 2 = 1) :: selBits w (s / 2)

theorem selBits_length : ∀ (w s : Nat), (selBits w s).length = w
  | 0, _ => rfl
  | w + 1, s => by simp [selBits, selBits_length w]

theorem unpackBits_xorSelect (m : Nat) : ∀ (rows : List Nat) (sel : Nat),
    unpackBits m (xorSelect rows sel) =
      xorCombo m (selBits rows.length sel) (rows.map (unpackBits m))
  | [], _ => by simp [xorSelect, selBits, xorCombo, unpackBits_zero]
  | r :: rs, sel => by
    have ih := unpackBits_xorSelect m rs (sel / 2)
    by_cases hs : sel % 2 = 1
    · simp [xorSelect, selBits, xorCombo, hs, unpackBits_xor, ih]
    · simp [xorSelect, selBits, xorCombo, hs, ih]

/-- the statement with the `2n` of the task description and the (unneeded) size hypothesis -/
theorem unpackBits_xorSelect_fit (n : Nat) (rows : List Nat) (sel : Nat)
    (_h : ∀ r ∈ rows, r < 2 ^ (2 * n)) :
    unpackBits (2 * n) (xorSelect rows sel) =
      xorCombo (2 * n) (selBits rows.length sel) (rows.map (unpackBits (2 * n))) :=
  unpackBits_xorSelect (2 * n) rows sel

/-! ### picked generators form a sublist -/

theorem basisIdxSorted_cons : ∀ (a : Nat) (rest : List Nat),
    basisIdxSorted (a :: rest) = true → (∀ i ∈ rest, a < i) ∧ basisIdxSorted rest = true
  | _, [], _ => by simp [basisIdxSorted]
  | a, b :: rest, h => by
    simp only [basisIdxSorted, Bool.and_eq_true, decide_eq_true_eq] at h
    have ih := basisIdxSorted_cons b rest h.2
    refine ⟨?_, h.2⟩
    intro i hi
    rcases List.mem_cons.mp hi with rfl | hi
    · exact h.1
    · exact Nat.lt_trans h.1 (ih.1 i hi)

theorem map_getD_sublist_off {α : Type} (d : α) : ∀ (l : List α) (idx : List Nat) (off : Nat),
    basisIdxSorted idx = true → (∀ i ∈ idx, off ≤ i ∧ i < off + l.length) →
    (idx.map fun i => l.getD (i - off) d).Sublist l
  | [], [], _, _, _ => by simp
  | [], i :: _, off, _, hb => by
    have := hb i (by simp)
    simp at this; omega
  | _ :: _, [], _, _, _ => by simp
  | x :: xs, i :: rest, off, hs, hb => by
    obtain ⟨hgt, hs'⟩ := basisIdxSorted_cons i rest hs
    have hbi := hb i (by simp)
    simp only [List.length_cons] at hb hbi
    by_cases hi : i = off
    · subst hi
      have hcongr : (rest.map fun j => (x :: xs).getD (j - i) d) =
          rest.map fun j => xs.getD (j - (i + 1)) d := by
        apply List.map_congr_left
        intro j hj
        have := hgt j hj
        have e : j - i = (j - (i + 1)) + 1 := by omega
        rw [e, List.getD_cons_succ]
      have ih := map_getD_sublist_off d xs rest (i + 1) hs' (fun j hj => by
        have := hgt j hj
        have := hb j (by simp [hj])
        omega)
      simp only [List.map_cons, Nat.sub_self, List.getD_cons_zero, hcongr]
      exact List.Sublist.cons_cons x ih
    · have hcongr : ((i :: rest).map fun j => (x :: xs).getD (j - off) d) =
          (i :: rest).map fun j => xs.getD (j - (off + 1)) d := by
        apply List.map_congr_left
        intro j hj
        have hj' : i ≤ j := by
          rcases List.mem_cons.mp hj with rfl | hj
          · exact Nat.le_refl _
          · exact Nat.le_of_lt (hgt j hj)
        have e : j - off = (j - (off + 1)) + 1 := by omega
        rw [e, List.getD_cons_succ]
      have ih := map_getD_sublist_off d xs (i :: rest) (off + 1) hs (fun j hj => by
        have hj' : i ≤ j := by
          rcases List.mem_cons.mp hj with rfl | hj
          · exact Nat.le_refl _
          · exact Nat.le_of_lt (hgt j hj)
        have := hb j hj
        omega)
      rw [hcongr]
      exact List.Sublist.cons x ih

/-- strictly increasing in-range indices pick a sublist -/
theorem map_getD_sublist {α : Type} (d : α) (l : List α) (idx : List Nat)
    (hs : basisIdxSorted idx = true) (hb : ∀ i ∈ idx, i < l.length) :
    (idx.map fun i => l.getD i d).Sublist l := by
  have := map_getD_sublist_off d l idx 0 hs (fun i hi => by have := hb i hi; omega)
  simpa using this

/-! ### minimum of a concatenation -/

theorem foldl_min_assoc : ∀ (l : List Nat) (a b : Nat),
    List.foldl min (min a b) l = min a (List.foldl min b l)
  | [], _, _ => rfl
  | x :: l, a, b => by
    simp only [List.foldl_cons]
    rw [Nat.min_assoc, foldl_min_assoc l]

theorem listMin_append_cons (a : Nat) (as : List Nat) (b : Nat) (bs : List Nat) :
    listMin ((a :: as) ++ (b :: bs)) = some (min (as.foldl min a) (bs.foldl min b)) := by
  simp only [List.cons_append, listMin, List.foldl_append, List.foldl_cons]
  rw [foldl_min_assoc]

end Panqec
