/-
RotatedPlanar2DCode, all sizes `Lx, Ly ≥ 1`: the number of stabilizer locations is
`Lx·Ly − 1 = n − k` (count of the `(x + y) % 4` guard over the two nested loops).
-/
import PanqecVerif.Proofs.LatRotatedPlanar2DCodeC
import Mathlib.Tactic.Ring

set_option linter.unusedVariables false

namespace Panqec.RotatedPlanar2DCode
open Panqec.Lat2D

/-- among `a, a+2, a+4, …` (`m` terms) those with `(c + y) % 4 = r`, when `c + a ≡ r (mod 2)` -/
theorem countP_mod4 (c r : Int) : ∀ (m a : Nat), (c + (a : Int)) % 2 = r % 2 → 0 ≤ r → r < 4 →
    ((List.range' a m 2).map (fun n : Nat => (n : Int))).countP
        (fun y => decide ((c + y) % 4 = r))
      = if (c + (a : Int)) % 4 = r then (m + 1) / 2 else m / 2
  | 0, a, _, _, _ => by simp
  | 1, a, _, _, _ => by
    simp only [List.range'_one, List.map_cons, List.map_nil, List.countP_cons, List.countP_nil,
      decide_eq_true_eq]
    split <;> simp
  | m + 2, a, h, h0, h4 => by
    have ih := countP_mod4 c r m (a + 2 + 2) (by omega) h0 h4
    rw [List.range'_succ, List.range'_succ]
    simp only [List.map_cons, List.countP_cons, decide_eq_true_eq]
    rw [ih]
    have e1 : ((a + 2 + 2 : Nat) : Int) = (a : Int) + 4 := by omega
    have e2 : ((a + 2 : Nat) : Int) = (a : Int) + 2 := by omega
    rw [e1, e2]
    split <;> split <;> split <;> omega

theorem length_gridIf (xs ys : List Int) (p : Int → Int → Bool) :
    (gridIf xs ys p).length = (xs.map fun x => ys.countP (p x)).sum := by
  unfold gridIf
  induction xs with
  | nil => rfl
  | cons x xs ih =>
    simp only [List.flatMap_cons, List.length_append, List.length_map, List.map_cons,
      List.sum_cons, ih, List.countP_eq_length_filter]

theorem sum_ite (q : Int → Bool) (A B : Nat) : ∀ (l : List Int),
    (l.map fun x => if q x = true then A else B).sum + B * l.countP q
      = A * l.countP q + B * l.length
  | [] => by simp
  | x :: l => by
    have ih := sum_ite q A B l
    simp only [List.map_cons, List.sum_cons, List.countP_cons, List.length_cons]
    by_cases h : q x = true
    · simp only [h, if_true, Nat.mul_add, Nat.mul_one]; omega
    · simp only [h, Nat.mul_add, Nat.mul_one]
      simp only [Bool.false_eq_true, if_false, Nat.add_zero, Nat.mul_zero]; omega


theorem pyRange2_def (a b : Nat) :
    pyRange2 a b = (List.range' a ((b - a + 1) / 2) 2).map (fun n : Nat => (n : Int)) := rfl

/-- vertices: `V + B·c = A·c + B·(Lx−1)` with `c = Lx/2` columns `x ≡ 2 (mod 4)` -/
theorem count_vertices (Lx Ly : Nat) (hx : 1 ≤ Lx) :
    (gridIf (pyRange2 2 (2 * Lx)) (pyRange2 0 (2 * Ly + 1))
        (fun x y => decide ((x + y) % 4 = 2))).length + (Ly + 1) / 2 * (Lx / 2)
      = (Ly + 2) / 2 * (Lx / 2) + (Ly + 1) / 2 * (Lx - 1) := by
  rw [length_gridIf]
  have hcol : ∀ x ∈ pyRange2 2 (2 * Lx),
      (pyRange2 0 (2 * Ly + 1)).countP (fun y => decide ((x + y) % 4 = 2))
        = if decide ((0 + x) % 4 = 2) = true then (Ly + 2) / 2 else (Ly + 1) / 2 := by
    intro x hxm
    rw [mem_pyRange2] at hxm
    rw [pyRange2_def, countP_mod4 x 2 _ 0 (by omega) (by omega) (by omega)]
    have e : (2 * Ly + 1 - 0 + 1) / 2 = Ly + 1 := by omega
    rw [e]
    simp only [decide_eq_true_eq]
    split <;> split <;> omega
  rw [List.map_congr_left hcol]
  have hs := sum_ite (fun x => decide ((0 + x) % 4 = 2)) ((Ly + 2) / 2) ((Ly + 1) / 2)
    (pyRange2 2 (2 * Lx))
  have hc : (pyRange2 2 (2 * Lx)).countP (fun x => decide ((0 + x) % 4 = 2)) = Lx / 2 := by
    rw [pyRange2_def, countP_mod4 0 2 _ 2 (by omega) (by omega) (by omega)]
    have e : (2 * Lx - 2 + 1) / 2 = Lx - 1 := by omega
    rw [e]
    split <;> omega
  have hl : (pyRange2 2 (2 * Lx)).length = Lx - 1 := by rw [length_pyRange2]; omega
  rw [hc, hl] at hs
  exact hs

/-- faces: `F + B·c = A·c + B·(Lx+1)` with `c = (Lx+1)/2` columns `x ≡ 2 (mod 4)` -/
theorem count_faces (Lx Ly : Nat) (hy : 1 ≤ Ly) :
    (gridIf (pyRange2 0 (2 * Lx + 1)) (pyRange2 2 (2 * Ly))
        (fun x y => decide ((x + y) % 4 = 0))).length + (Ly - 1) / 2 * ((Lx + 1) / 2)
      = Ly / 2 * ((Lx + 1) / 2) + (Ly - 1) / 2 * (Lx + 1) := by
  rw [length_gridIf]
  have hcol : ∀ x ∈ pyRange2 0 (2 * Lx + 1),
      (pyRange2 2 (2 * Ly)).countP (fun y => decide ((x + y) % 4 = 0))
        = if decide ((2 + x) % 4 = 0) = true then Ly / 2 else (Ly - 1) / 2 := by
    intro x hxm
    rw [mem_pyRange2] at hxm
    rw [pyRange2_def, countP_mod4 x 0 _ 2 (by omega) (by omega) (by omega)]
    have e : (2 * Ly - 2 + 1) / 2 = Ly - 1 := by omega
    rw [e]
    simp only [decide_eq_true_eq]
    split <;> split <;> omega
  rw [List.map_congr_left hcol]
  have hs := sum_ite (fun x => decide ((2 + x) % 4 = 0)) (Ly / 2) ((Ly - 1) / 2)
    (pyRange2 0 (2 * Lx + 1))
  have hc : (pyRange2 0 (2 * Lx + 1)).countP (fun x => decide ((2 + x) % 4 = 0))
      = (Lx + 1) / 2 := by
    rw [pyRange2_def, countP_mod4 2 0 _ 0 (by omega) (by omega) (by omega)]
    have e : (2 * Lx + 1 - 0 + 1) / 2 = Lx + 1 := by omega
    rw [e]
    split <;> omega
  have hl : (pyRange2 0 (2 * Lx + 1)).length = Lx + 1 := by rw [length_pyRange2]; omega
  rw [hc, hl] at hs
  exact hs

/-- number of stabilizer locations `= Lx·Ly − 1` -/
theorem length_stabs {Lx Ly : Nat} (hx : 1 ≤ Lx) (hy : 1 ≤ Ly) :
    (stabs Lx Ly).length + 1 = Lx * Ly := by
  unfold stabs
  rw [List.length_append]
  have hV := count_vertices Lx Ly hx
  have hF := count_faces Lx Ly hy
  generalize (gridIf (pyRange2 2 (2 * Lx)) (pyRange2 0 (2 * Ly + 1))
    (fun x y => decide ((x + y) % 4 = 2))).length = V at hV ⊢
  generalize (gridIf (pyRange2 0 (2 * Lx + 1)) (pyRange2 2 (2 * Ly))
    (fun x y => decide ((x + y) % 4 = 0))).length = F at hF ⊢
  rcases Nat.even_or_odd' Lx with ⟨a, rfl | rfl⟩ <;> rcases Nat.even_or_odd' Ly with ⟨b, rfl | rfl⟩
  · obtain ⟨a, rfl⟩ : ∃ a', a = a' + 1 := ⟨a - 1, by omega⟩
    obtain ⟨b, rfl⟩ : ∃ b', b = b' + 1 := ⟨b - 1, by omega⟩
    have e1 : (2 * (b + 1) + 1) / 2 = b + 1 := by omega
    have e2 : (2 * (b + 1) + 2) / 2 = b + 2 := by omega
    have e3 : 2 * (a + 1) / 2 = a + 1 := by omega
    have e4 : (2 * (a + 1) + 1) / 2 = a + 1 := by omega
    have e5 : 2 * (b + 1) / 2 = b + 1 := by omega
    have e6 : (2 * (b + 1) - 1) / 2 = b := by omega
    have e7 : 2 * (a + 1) - 1 = 2 * a + 1 := by omega
    rw [e1, e2, e3, e7] at hV
    rw [e4, e5, e6] at hF
    ring_nf at hV hF ⊢
    omega
  · obtain ⟨a, rfl⟩ : ∃ a', a = a' + 1 := ⟨a - 1, by omega⟩
    have e1 : (2 * b + 1 + 1) / 2 = b + 1 := by omega
    have e2 : (2 * b + 1 + 2) / 2 = b + 1 := by omega
    have e3 : 2 * (a + 1) / 2 = a + 1 := by omega
    have e4 : (2 * (a + 1) + 1) / 2 = a + 1 := by omega
    have e5 : (2 * b + 1) / 2 = b := by omega
    have e6 : (2 * b + 1 - 1) / 2 = b := by omega
    have e7 : 2 * (a + 1) - 1 = 2 * a + 1 := by omega
    rw [e1, e2, e3, e7] at hV
    rw [e4, e5, e6] at hF
    ring_nf at hV hF ⊢
    omega
  · obtain ⟨b, rfl⟩ : ∃ b', b = b' + 1 := ⟨b - 1, by omega⟩
    have e1 : (2 * (b + 1) + 1) / 2 = b + 1 := by omega
    have e2 : (2 * (b + 1) + 2) / 2 = b + 2 := by omega
    have e3 : (2 * a + 1) / 2 = a := by omega
    have e4 : (2 * a + 1 + 1) / 2 = a + 1 := by omega
    have e5 : 2 * (b + 1) / 2 = b + 1 := by omega
    have e6 : (2 * (b + 1) - 1) / 2 = b := by omega
    have e7 : 2 * a + 1 - 1 = 2 * a := by omega
    rw [e1, e2, e3, e7] at hV
    rw [e4, e5, e6] at hF
    ring_nf at hV hF ⊢
    omega
  · have e1 : (2 * b + 1 + 1) / 2 = b + 1 := by omega
    have e2 : (2 * b + 1 + 2) / 2 = b + 1 := by omega
    have e3 : (2 * a + 1) / 2 = a := by omega
    have e4 : (2 * a + 1 + 1) / 2 = a + 1 := by omega
    have e5 : (2 * b + 1) / 2 = b := by omega
    have e6 : (2 * b + 1 - 1) / 2 = b := by omega
    have e7 : 2 * a + 1 - 1 = 2 * a := by omega
    rw [e1, e2, e3, e7] at hV
    rw [e4, e5, e6] at hF
    ring_nf at hV hF ⊢
    omega

end Panqec.RotatedPlanar2DCode
