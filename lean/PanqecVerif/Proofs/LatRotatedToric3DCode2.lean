/-
`RotatedToric3DCode`: generic lemmas for operators whose letter depends on the location
(`gop keys g`), as built by the `get_stabilizer` loop (conditional dict assignments on pairwise
distinct neighbours), and for "signed key lists": every stabilizer of this class writes on a qubit
`q` the letter `dl σ q` (Z when the sign `σ` agrees with the colour of `q`, X otherwise), so two
stabilizers anticommute on a shared qubit exactly when their signs differ there.
-/
import PanqecVerif.Proofs.LatRotatedToric3DCode1
open Panqec Panqec.Lat3Db
namespace Panqec.RotatedToric3DCode

set_option linter.unusedVariables false
set_option linter.unusedSimpArgs false

/-- the operator with key list `ks` and letter `g q` on `q` -/
def gop (ks : List Coord) (g : Coord → Pauli) : Op := ks.map fun q => (q, g q)

theorem gop_keys (ks : List Coord) (g : Coord → Pauli) : (gop ks g).map Prod.fst = ks := by
  simp [gop, Function.comp_def]

theorem mem_gop {ks : List Coord} {g : Coord → Pauli} {e : Coord × Pauli} :
    e ∈ gop ks g ↔ e.1 ∈ ks ∧ e.2 = g e.1 := by
  unfold gop
  simp only [List.mem_map]
  constructor
  · rintro ⟨q, hq, rfl⟩; exact ⟨hq, rfl⟩
  · rintro ⟨h1, h2⟩; exact ⟨e.1, h1, by rw [← h2]⟩

theorem gop_any (ks : List Coord) (g : Coord → Pauli) (q : Coord) :
    (gop ks g).any (·.1 == q) = decide (q ∈ ks) := by
  induction ks with
  | nil => simp [gop]
  | cons k ks ih =>
    simp only [gop, List.map_cons, List.any_cons, List.mem_cons] at ih ⊢
    rw [ih]
    by_cases h : k = q
    · simp [h]
    · have h' : ¬ q = k := fun e => h e.symm
      simp [h, h']

theorem insert_gop_new {ks : List Coord} {g : Coord → Pauli} {q : Coord} (h : q ∉ ks) :
    (gop ks g).insert q (g q) = gop (ks ++ [q]) g := by
  unfold Op.insert
  rw [gop_any]
  simp [h, gop]

/-- the loop of `get_stabilizer` over pairwise distinct neighbour locations keeps, in order, the
    neighbours that are qubits, each with its letter -/
theorem foldl_gop (isQ : Coord → Bool) (g : Coord → Pauli) (locs : List Coord) (h : locs.Nodup) :
    locs.foldl (fun (op : Op) q => if isQ q then op.insert q (g q) else op) ([] : Op) =
      gop (locs.filter isQ) g := by
  suffices H : ∀ (acc : List Coord), (∀ c ∈ locs, c ∉ acc) →
      locs.foldl (fun (op : Op) q => if isQ q then op.insert q (g q) else op) (gop acc g) =
        gop (acc ++ locs.filter isQ) g by
    simpa [gop] using H [] (by simp)
  induction locs with
  | nil => intro acc _; simp
  | cons c cs ih =>
    intro acc hacc
    rw [List.nodup_cons] at h
    simp only [List.foldl_cons]
    by_cases hc : isQ c = true
    · rw [if_pos hc, insert_gop_new (hacc c (by simp)), ih h.2]
      · simp [hc]
      · intro d hd
        simp only [List.mem_append, List.mem_singleton, not_or]
        refine ⟨hacc d (by simp [hd]), ?_⟩
        rintro rfl; exact h.1 hd
    · rw [if_neg hc, ih h.2]
      · simp [hc]
      · intro d hd; exact hacc d (by simp [hd])

theorem gop_get? (ks : List Coord) (g : Coord → Pauli) (q : Coord) :
    (gop ks g).get? q = if q ∈ ks then some (g q) else none := by
  unfold Op.get?
  induction ks with
  | nil => simp [gop]
  | cons k ks ih =>
    simp only [gop, List.map_cons, List.find?_cons, List.mem_cons] at ih ⊢
    by_cases h : k = q
    · simp [h]
    · have h' : ¬ q = k := fun e => h e.symm
      have hb : (k == q) = false := by simp [h]
      simp only [hb, h', false_or]
      exact ih

theorem opAntiCount_gop (k1 k2 : List Coord) (g1 g2 : Coord → Pauli) :
    opAntiCount (gop k1 g1) (gop k2 g2) =
      k1.countP fun q => decide (q ∈ k2) && Pauli.anti (g1 q) (g2 q) := by
  unfold opAntiCount
  rw [← List.countP_eq_length_filter]
  simp only [gop, List.countP_map]
  apply List.countP_congr
  intro q _
  have := gop_get? k2 g2 q
  simp only [gop] at this
  simp only [Function.comp, this]
  by_cases hq : q ∈ k2 <;> simp [hq]

/-- a constant-letter operator is a `gop` -/
theorem constOp_eq_gop (ks : List Coord) (p : Pauli) : constOp ks p = gop ks fun _ => p := rfl

/-! ### colours and signs -/

/-- the colour of a qubit location: vertical qubits and the horizontal qubits with
    `(x + y) % 4 = 0` -/
def col : Coord → Bool
  | [x, y, z] => z % 2 == 0 || (x + y) % 4 == 0
  | _ => false

/-- the letter of a signed key: Z when the sign agrees with the colour, X otherwise -/
def dl (σ : Bool) (q : Coord) : Pauli := if σ == col q then Pauli.Z else Pauli.X

theorem anti_dl (σ τ : Bool) (q : Coord) : Pauli.anti (dl σ q) (dl τ q) = (σ != τ) := by
  unfold dl
  cases σ <;> cases τ <;> cases col q <;> rfl

theorem dl_ne_I (σ : Bool) (q : Coord) : dl σ q ≠ Pauli.I := by
  unfold dl; split <;> decide

theorem anti_dl_X (σ : Bool) (q : Coord) : Pauli.anti (dl σ q) Pauli.X = (σ == col q) := by
  unfold dl; cases σ <;> cases col q <;> rfl
theorem anti_dl_Z (σ : Bool) (q : Coord) : Pauli.anti (dl σ q) Pauli.Z = (σ != col q) := by
  unfold dl; cases σ <;> cases col q <;> rfl
theorem anti_dl_Y (σ : Bool) (q : Coord) : Pauli.anti (dl σ q) Pauli.Y = true := by
  unfold dl; cases σ <;> cases col q <;> rfl

/-- a stabilizer described by signed candidate keys: the candidates that are qubits, each with the
    letter `dl σ q` -/
structure Signed (Lx Ly Lz : Nat) (op : Op) (K : List (Coord × Bool)) : Prop where
  keys_nodup : (K.map Prod.fst).Nodup
  eq : ∃ g : Coord → Pauli, op = gop ((K.map Prod.fst).filter (isQubit Lx Ly Lz)) g ∧
    ∀ e ∈ K, g e.1 = dl e.2 e.1

/-- number of candidate pairs on the same qubit with different signs -/
def antiPairs (Lx Ly Lz : Nat) (K1 K2 : List (Coord × Bool)) : Nat :=
  K1.countP fun e => isQubit Lx Ly Lz e.1 && K2.any fun e' => e'.1 == e.1 && (e.2 != e'.2)

theorem sign_unique {K : List (Coord × Bool)} (h : (K.map Prod.fst).Nodup) {e e' : Coord × Bool}
    (he : e ∈ K) (he' : e' ∈ K) (hk : e.1 = e'.1) : e = e' :=
  List.inj_on_of_nodup_map h he he' hk

theorem opAntiCount_signed {Lx Ly Lz : Nat} {a b : Op} {K1 K2 : List (Coord × Bool)}
    (ha : Signed Lx Ly Lz a K1) (hb : Signed Lx Ly Lz b K2) :
    opAntiCount a b = antiPairs Lx Ly Lz K1 K2 := by
  obtain ⟨g1, rfl, hg1⟩ := ha.eq
  obtain ⟨g2, rfl, hg2⟩ := hb.eq
  rw [opAntiCount_gop, List.countP_filter, List.countP_map]
  unfold antiPairs
  apply List.countP_congr
  intro e he
  simp only [Function.comp]
  by_cases hq : isQubit Lx Ly Lz e.1 = true
  · have hmem : decide (e.1 ∈ (K2.map Prod.fst).filter (isQubit Lx Ly Lz)) =
        decide (e.1 ∈ K2.map Prod.fst) := by
      simp [List.mem_filter, hq]
    rw [hmem, hq, Bool.and_true, Bool.true_and]
    by_cases hm : e.1 ∈ K2.map Prod.fst
    · obtain ⟨e', he', hk⟩ := List.mem_map.mp hm
      have h2 : g2 e.1 = dl e'.2 e.1 := by rw [← hk]; exact hg2 e' he'
      rw [hg1 e he, h2, anti_dl]
      simp only [hm, decide_true, Bool.true_and]
      rw [Bool.eq_iff_iff]
      simp only [bne_iff_ne, ne_eq, List.any_eq_true, Bool.and_eq_true, beq_iff_eq]
      constructor
      · intro hne; exact ⟨e', he', hk, by simpa using hne⟩
      · rintro ⟨e'', he'', hk'', hne⟩
        have := sign_unique hb.keys_nodup he'' he' (hk''.trans hk.symm)
        rw [← this]; simpa using hne
    · have : K2.any (fun e' => e'.1 == e.1 && (e.2 != e'.2)) = false := by
        rw [List.any_eq_false]
        intro e' he'
        have : ¬ e'.1 = e.1 := fun hk => hm (List.mem_map.mpr ⟨e', he', hk⟩)
        simp [this]
      simp [hm, this]
  · have hq' : isQubit Lx Ly Lz e.1 = false := by simpa using hq
    simp [hq']

theorem opCommute_signed {Lx Ly Lz : Nat} {a b : Op} {K1 K2 : List (Coord × Bool)}
    (ha : Signed Lx Ly Lz a K1) (hb : Signed Lx Ly Lz b K2)
    (h : antiPairs Lx Ly Lz K1 K2 % 2 = 0) : opCommute a b = true := by
  unfold opCommute
  rw [opAntiCount_signed ha hb, h]; rfl

/-- a signed operator against a constant-letter operator -/
theorem opAntiCount_signed_const {Lx Ly Lz : Nat} {a : Op} {K1 : List (Coord × Bool)}
    (ha : Signed Lx Ly Lz a K1) (ks : List Coord) (p : Pauli) :
    opAntiCount a (constOp ks p) =
      K1.countP fun e => isQubit Lx Ly Lz e.1 && (decide (e.1 ∈ ks) && Pauli.anti (dl e.2 e.1) p) := by
  obtain ⟨g1, rfl, hg1⟩ := ha.eq
  rw [constOp_eq_gop, opAntiCount_gop, List.countP_filter, List.countP_map]
  apply List.countP_congr
  intro e he
  simp only [Function.comp, hg1 e he]
  rw [Bool.and_comm]

end Panqec.RotatedToric3DCode
