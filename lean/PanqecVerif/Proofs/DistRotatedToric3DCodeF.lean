/-
RotatedToric3DCode, supported family, C17: weights of the listed logical operators and the reported
distance, for the three parities of the family.
-/
import PanqecVerif.Proofs.DistRotatedToric3DCodeE

namespace Panqec.RotatedToric3DCode
open Panqec.Lat3Db

set_option linter.unusedVariables false
set_option linter.unusedSimpArgs false

variable {Lx Ly Lz : Nat}

theorem length_constOp' (ks : List Coord) (p : Pauli) : (constOp ks p).length = ks.length := by
  simp [constOp]

/-- the weight of the row of a listed logical = the number of its keys -/
theorem weight_listed (hwf : (lattice Lx Ly Lz).WF) {a : Op}
    (ha : a ∈ (lattice Lx Ly Lz).logX ++ (lattice Lx Ly Lz).logZ) :
    pauliWeight (opRow (lattice Lx Ly Lz).qubits a) = a.length :=
  pauliWeight_opRow _ hwf.qubits_nodup a (hwf.log_keys a ha) (hwf.log_supported a ha)

theorem weights_EE (hF : Fam Lx Ly) (hx : Lx % 2 = 0) (hy : Ly % 2 = 0) (hLz : 1 ≤ Lz)
    (hwf : (lattice Lx Ly Lz).WF) :
    (lattice Lx Ly Lz).rowsX.map pauliWeight = [Lx, Ly] ∧
    (lattice Lx Ly Lz).rowsZ.map pauliWeight = [Ly * Lz, Lx * Lz] := by
  have h1x : 1 ≤ Lx := by have := hF.1; omega
  have h1y : 1 ≤ Ly := by have := hF.2.1; omega
  have hw := fun a ha => weight_listed hwf (a := a) ha
  rw [lattice_logX, lattice_logZ, logX_EE h1x h1y hx hy, logZ_EE hx hy] at hw
  unfold Lattice.rowsX Lattice.rowsZ
  rw [lattice_logX, lattice_logZ, logX_EE h1x h1y hx hy, logZ_EE hx hy]
  simp only [List.map_cons, List.map_nil]
  rw [hw _ (by simp), hw _ (by simp), hw _ (by simp), hw _ (by simp)]
  simp only [length_constOp', (LK_fXy_perm (Lx := Lx) h1y hLz).length_eq,
    (LK_fXx_perm (Ly := Ly) h1x hLz).length_eq, (LK_fZx_perm (Ly := Ly) (Lz := Lz) h1x).length_eq,
    (LK_fZy_perm (Lx := Lx) (Lz := Lz) h1y).length_eq, length_rowK, length_colK, length_wallXK,
    length_wallYK]
  exact ⟨trivial, trivial⟩

theorem weights_OE (hF : Fam Lx Ly) (hx : Lx % 2 = 1) (hy : Ly % 2 = 0) (hLz : 1 ≤ Lz)
    (hwf : (lattice Lx Ly Lz).WF) :
    (lattice Lx Ly Lz).rowsX.map pauliWeight = [Ly] ∧
    (lattice Lx Ly Lz).rowsZ.map pauliWeight = [Lx * Lz] := by
  have h1x : 1 ≤ Lx := by have := hF.1; omega
  have h1y : 1 ≤ Ly := by have := hF.2.1; omega
  have hw := fun a ha => weight_listed hwf (a := a) ha
  rw [lattice_logX, lattice_logZ, logX_OE h1x h1y hx hy, logZ_odd (by omega) hF.2.2] at hw
  unfold Lattice.rowsX Lattice.rowsZ
  rw [lattice_logX, lattice_logZ, logX_OE h1x h1y hx hy, logZ_odd (by omega) hF.2.2]
  simp only [List.map_cons, List.map_nil]
  rw [hw _ (by simp), hw _ (by simp)]
  simp only [length_constOp', (LK_fXx_perm (Ly := Ly) h1x hLz).length_eq,
    (LK_fY_perm_OE (Lz := Lz) h1y hx hy).length_eq, length_colK, length_wallYK]
  exact ⟨trivial, trivial⟩

theorem weights_EO (hF : Fam Lx Ly) (hx : Lx % 2 = 0) (hy : Ly % 2 = 1) (hLz : 1 ≤ Lz)
    (hwf : (lattice Lx Ly Lz).WF) :
    (lattice Lx Ly Lz).rowsX.map pauliWeight = [Lx] ∧
    (lattice Lx Ly Lz).rowsZ.map pauliWeight = [Ly * Lz] := by
  have h1x : 1 ≤ Lx := by have := hF.1; omega
  have h1y : 1 ≤ Ly := by have := hF.2.1; omega
  have hw := fun a ha => weight_listed hwf (a := a) ha
  rw [lattice_logX, lattice_logZ, logX_EO h1x h1y hx hy, logZ_odd (by omega) hF.2.2] at hw
  unfold Lattice.rowsX Lattice.rowsZ
  rw [lattice_logX, lattice_logZ, logX_EO h1x h1y hx hy, logZ_odd (by omega) hF.2.2]
  simp only [List.map_cons, List.map_nil]
  rw [hw _ (by simp), hw _ (by simp)]
  simp only [length_constOp', (LK_fXy_perm (Lx := Lx) h1y hLz).length_eq,
    (LK_fY_perm_EO (Lz := Lz) h1x hx hy).length_eq, length_rowK, length_wallXK]
  exact ⟨trivial, trivial⟩

theorem distance_of_weights {X Z : List (List Nat)} {wx wz : List Nat} {a b : Nat}
    (h1 : X.map pauliWeight = wx) (h2 : Z.map pauliWeight = wz) (ha : listMin wx = some a)
    (hb : listMin wz = some b) : distance X Z = some (min a b) := by
  unfold distance
  show (match listMin (X.map pauliWeight), listMin (Z.map pauliWeight) with
    | some a, some b => some (min a b)
    | _, _ => none) = _
  rw [h1, h2, ha, hb]

/-- even × even: `code.d = min Lx Ly` -/
theorem reported_EE (hF : Fam Lx Ly) (hx : Lx % 2 = 0) (hy : Ly % 2 = 0) (hLz : 1 ≤ Lz)
    (hwf : (lattice Lx Ly Lz).WF) :
    distance (lattice Lx Ly Lz).rowsX (lattice Lx Ly Lz).rowsZ = some (min Lx Ly) := by
  obtain ⟨h1, h2⟩ := weights_EE hF hx hy hLz hwf
  rw [distance_of_weights h1 h2 (a := min Lx Ly) (b := min (Ly * Lz) (Lx * Lz)) rfl rfl]
  have e1 : Lx ≤ Lx * Lz := Nat.le_mul_of_pos_right _ (by omega)
  have e2 : Ly ≤ Ly * Lz := Nat.le_mul_of_pos_right _ (by omega)
  congr 1
  omega

/-- odd × even: `code.d = min Ly (Lx·Lz)` -/
theorem reported_OE (hF : Fam Lx Ly) (hx : Lx % 2 = 1) (hy : Ly % 2 = 0) (hLz : 1 ≤ Lz)
    (hwf : (lattice Lx Ly Lz).WF) :
    distance (lattice Lx Ly Lz).rowsX (lattice Lx Ly Lz).rowsZ = some (min Ly (Lx * Lz)) := by
  obtain ⟨h1, h2⟩ := weights_OE hF hx hy hLz hwf
  exact distance_of_weights h1 h2 rfl rfl

/-- even × odd: `code.d = min Lx (Ly·Lz)` -/
theorem reported_EO (hF : Fam Lx Ly) (hx : Lx % 2 = 0) (hy : Ly % 2 = 1) (hLz : 1 ≤ Lz)
    (hwf : (lattice Lx Ly Lz).WF) :
    distance (lattice Lx Ly Lz).rowsX (lattice Lx Ly Lz).rowsZ = some (min Lx (Ly * Lz)) := by
  obtain ⟨h1, h2⟩ := weights_EO hF hx hy hLz hwf
  exact distance_of_weights h1 h2 rfl rfl

end Panqec.RotatedToric3DCode
