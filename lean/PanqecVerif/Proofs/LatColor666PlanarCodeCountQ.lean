/-
Color666PlanarCode, all sizes `L ≥ 1`: the number of (derived) qubits.  The qubit list has the same
members as `{(0,0)} ∪ ⨆_{i<L}` of four explicit columns with `6(i+1)` sites in total, hence
`n = 3L² + 3L + 1 = n_stabilizers + 1`.  Core Lean only.
-/
import PanqecVerif.Proofs.LatColor666PlanarCodeCount

set_option linter.unusedVariables false

namespace Panqec.Color666PlanarCode
open Panqec.Lat2D Panqec.Color

/-- the four qubit columns added by the `i`-th unit cell: `x = 3(i+1)` and `x = 3i+1` on the rising
    side, `x = 6L−3i` and `x = 6L−2−3i` on the falling side -/
def InBlock (L i : Nat) (x y : Int) : Prop :=
  (x = 3 * (i : Int) + 3 ∧ ∃ m : Nat, m < 3 * (i + 1) / 2 + 1 ∧ y = parity2 i + 4 * (m : Int)) ∨
  (x = 6 * (L : Int) - 3 * (i : Int) ∧ ∃ m : Nat, m < 3 * i / 2 + 1 ∧ y = parity0 i + 4 * (m : Int)) ∨
  (x = 3 * (i : Int) + 1 ∧ ∃ m : Nat, m < (3 * i + 1) / 2 + 1 ∧ y = parity2 i + 4 * (m : Int)) ∨
  (x = 6 * (L : Int) - 2 - 3 * (i : Int) ∧
    ∃ m : Nat, m < 3 * i / 2 + 2 ∧ y = parity0 i + 4 * (m : Int))

def qBlock (L i : Nat) : List Coord :=
  col (3 * (i : Int) + 3) (parity2 i) (3 * (i + 1) / 2 + 1) ++
  (col (6 * (L : Int) - 3 * (i : Int)) (parity0 i) (3 * i / 2 + 1) ++
  (col (3 * (i : Int) + 1) (parity2 i) ((3 * i + 1) / 2 + 1) ++
   col (6 * (L : Int) - 2 - 3 * (i : Int)) (parity0 i) (3 * i / 2 + 2)))

def niceQubits (L : Nat) : List Coord := [[0, 0]] ++ (List.range L).flatMap (qBlock L)

theorem mem_qBlock {L i : Nat} {q : Coord} :
    q ∈ qBlock L i ↔ ∃ x y, q = [x, y] ∧ InBlock L i x y := by
  unfold qBlock InBlock
  simp only [List.mem_append, mem_col]
  constructor
  · rintro (⟨m, hm, rfl⟩ | ⟨m, hm, rfl⟩ | ⟨m, hm, rfl⟩ | ⟨m, hm, rfl⟩)
    · exact ⟨_, _, rfl, Or.inl ⟨rfl, m, hm, rfl⟩⟩
    · exact ⟨_, _, rfl, Or.inr (Or.inl ⟨rfl, m, hm, rfl⟩)⟩
    · exact ⟨_, _, rfl, Or.inr (Or.inr (Or.inl ⟨rfl, m, hm, rfl⟩))⟩
    · exact ⟨_, _, rfl, Or.inr (Or.inr (Or.inr ⟨rfl, m, hm, rfl⟩))⟩
  · rintro ⟨x, y, rfl, ⟨rfl, m, hm, rfl⟩ | ⟨rfl, m, hm, rfl⟩ | ⟨rfl, m, hm, rfl⟩ | ⟨rfl, m, hm, rfl⟩⟩
    · exact Or.inl ⟨m, hm, rfl⟩
    · exact Or.inr (Or.inl ⟨m, hm, rfl⟩)
    · exact Or.inr (Or.inr (Or.inl ⟨m, hm, rfl⟩))
    · exact Or.inr (Or.inr (Or.inr ⟨m, hm, rfl⟩))

theorem isQ_of_inBlock {L i : Nat} (hi : i < L) {x y : Int} (h : InBlock L i x y) : IsQ L x y := by
  unfold IsQ InT
  rcases h with ⟨rfl, m, hm, rfl⟩ | ⟨rfl, m, hm, rfl⟩ | ⟨rfl, m, hm, rfl⟩ | ⟨rfl, m, hm, rfl⟩
  · rcases parity2_cases i with ⟨hp, hq⟩ | ⟨hp, hq⟩ <;> rw [hq] <;> omega
  · rcases parity0_cases i with ⟨hp, hq⟩ | ⟨hp, hq⟩ <;> rw [hq] <;> omega
  · rcases parity2_cases i with ⟨hp, hq⟩ | ⟨hp, hq⟩ <;> rw [hq] <;> omega
  · rcases parity0_cases i with ⟨hp, hq⟩ | ⟨hp, hq⟩ <;> rw [hq] <;> omega

theorem inBlock_of_isQ {L : Nat} {x y : Int} (h : IsQ L x y) (h0 : ¬ (x = 0 ∧ y = 0)) :
    ∃ i, i < L ∧ InBlock L i x y := by
  unfold IsQ InT at h
  unfold InBlock
  by_cases h3 : x % 3 = 0
  · by_cases hr : x ≤ 3 * (L : Int)
    · refine ⟨(x / 3 - 1).toNat, by omega, Or.inl ⟨by omega, (y / 4).toNat, ?_, ?_⟩⟩
      · omega
      · rcases parity2_cases (x / 3 - 1).toNat with ⟨hp, hq⟩ | ⟨hp, hq⟩ <;> rw [hq] <;> omega
    · refine ⟨(2 * (L : Int) - x / 3).toNat, by omega,
        Or.inr (Or.inl ⟨by omega, (y / 4).toNat, ?_, ?_⟩)⟩
      · omega
      · rcases parity0_cases (2 * (L : Int) - x / 3).toNat with ⟨hp, hq⟩ | ⟨hp, hq⟩ <;>
          rw [hq] <;> omega
  · by_cases hr : x ≤ 3 * (L : Int) - 2
    · refine ⟨((x - 1) / 3).toNat, by omega,
        Or.inr (Or.inr (Or.inl ⟨by omega, (y / 4).toNat, ?_, ?_⟩))⟩
      · omega
      · rcases parity2_cases ((x - 1) / 3).toNat with ⟨hp, hq⟩ | ⟨hp, hq⟩ <;> rw [hq] <;> omega
    · refine ⟨((6 * (L : Int) - 2 - x) / 3).toNat, by omega,
        Or.inr (Or.inr (Or.inr ⟨by omega, (y / 4).toNat, ?_, ?_⟩))⟩
      · omega
      · rcases parity0_cases ((6 * (L : Int) - 2 - x) / 3).toNat with ⟨hp, hq⟩ | ⟨hp, hq⟩ <;>
          rw [hq] <;> omega

theorem mem_niceQubits {L L' : Nat} (hL : 1 ≤ L) {q : Coord} :
    q ∈ niceQubits L ↔ q ∈ qubits L L' := by
  unfold niceQubits
  rw [List.mem_append, List.mem_flatMap, mem_qubits hL]
  constructor
  · rintro (h | ⟨i, hi, hq⟩)
    · simp only [List.mem_singleton] at h
      subst h
      exact ⟨0, 0, rfl, by unfold IsQ InT; omega⟩
    · obtain ⟨x, y, rfl, h⟩ := mem_qBlock.mp hq
      exact ⟨x, y, rfl, isQ_of_inBlock (List.mem_range.mp hi) h⟩
  · rintro ⟨x, y, rfl, h⟩
    by_cases h0 : x = 0 ∧ y = 0
    · left; rw [h0.1, h0.2]; simp
    · right
      obtain ⟨i, hi, h'⟩ := inBlock_of_isQ h h0
      exact ⟨i, List.mem_range.mpr hi, mem_qBlock.mpr ⟨x, y, rfl, h'⟩⟩

/-- the `x` coordinate of a member of a block determines which of the four columns it is in -/
theorem inBlock_x {L i : Nat} {x y : Int} (h : InBlock L i x y) :
    x = 3 * (i : Int) + 3 ∨ x = 6 * (L : Int) - 3 * (i : Int) ∨ x = 3 * (i : Int) + 1 ∨
      x = 6 * (L : Int) - 2 - 3 * (i : Int) := by
  rcases h with ⟨h, _⟩ | ⟨h, _⟩ | ⟨h, _⟩ | ⟨h, _⟩
  · exact Or.inl h
  · exact Or.inr (Or.inl h)
  · exact Or.inr (Or.inr (Or.inl h))
  · exact Or.inr (Or.inr (Or.inr h))

theorem col_disjoint {x x' r r' : Int} {c c' : Nat} (hx : x ≠ x') :
    ∀ a ∈ col x r c, ∀ b ∈ col x' r' c', a ≠ b := by
  intro a ha b hb e
  subst e
  obtain ⟨m, _, rfl⟩ := mem_col.mp ha
  obtain ⟨m', _, e⟩ := mem_col.mp hb
  simp only [List.cons.injEq, and_true] at e
  exact hx e.1

theorem nodup_qBlock (L i : Nat) (hi : i < L) : (qBlock L i).Nodup := by
  unfold qBlock
  rw [List.nodup_append]
  refine ⟨nodup_col .., ?_, ?_⟩
  · rw [List.nodup_append]
    refine ⟨nodup_col .., ?_, ?_⟩
    · rw [List.nodup_append]
      exact ⟨nodup_col .., nodup_col .., col_disjoint (by omega)⟩
    · intro a ha b hb
      rcases List.mem_append.mp hb with hb | hb
      · exact col_disjoint (by omega) a ha b hb
      · exact col_disjoint (by omega) a ha b hb
  · intro a ha b hb
    rcases List.mem_append.mp hb with hb | hb
    · exact col_disjoint (by omega) a ha b hb
    · rcases List.mem_append.mp hb with hb | hb
      · exact col_disjoint (by omega) a ha b hb
      · exact col_disjoint (by omega) a ha b hb

theorem nodup_niceQubits (L : Nat) : (niceQubits L).Nodup := by
  unfold niceQubits
  rw [List.nodup_append]
  refine ⟨by simp, ?_, ?_⟩
  · show List.Pairwise _ _
    rw [List.pairwise_flatMap]
    constructor
    · intro i hi; exact nodup_qBlock L i (List.mem_range.mp hi)
    · refine List.Pairwise.imp_of_mem ?_ List.nodup_range
      intro i j hi hj hij q hq r hr e
      subst e
      have hi' := List.mem_range.mp hi
      have hj' := List.mem_range.mp hj
      obtain ⟨x, y, rfl, h⟩ := mem_qBlock.mp hq
      obtain ⟨x', y', e, h'⟩ := mem_qBlock.mp hr
      simp only [List.cons.injEq, and_true] at e
      obtain ⟨rfl, rfl⟩ := e
      have h1 := inBlock_x h
      have h2 := inBlock_x h'
      omega
  · intro a ha b hb e
    subst e
    simp only [List.mem_singleton] at ha
    subst ha
    simp only [List.mem_flatMap, List.mem_range] at hb
    obtain ⟨i, _, hb⟩ := hb
    obtain ⟨x, y, e, h⟩ := mem_qBlock.mp hb
    simp only [List.cons.injEq, and_true] at e
    have h1 := inBlock_x h
    omega

theorem length_qBlock (L i : Nat) : (qBlock L i).length = 6 * (i + 1) := by
  unfold qBlock
  simp only [List.length_append, length_col]
  have h : i % 2 = 0 ∨ i % 2 = 1 := by omega
  rcases h with h | h <;> omega

theorem sum_six : ∀ L, ((List.range L).map fun i => 6 * (i + 1)).sum = 3 * L * (L + 1)
  | 0 => rfl
  | L + 1 => by
    rw [List.range_succ, List.map_append, List.sum_append, sum_six L]
    simp only [List.map_cons, List.map_nil, List.sum_cons, List.sum_nil]
    have e1 : 3 * L * (L + 1) = 3 * (L * L) + 3 * L := by
      rw [Nat.mul_assoc, Nat.mul_add, Nat.mul_add]; omega
    have e2 : 3 * (L + 1) * (L + 1 + 1) = 3 * (L * L) + 9 * L + 6 := by
      have : (L + 1) * (L + 1 + 1) = L * L + 3 * L + 2 := by
        rw [Nat.add_mul, Nat.mul_add, Nat.mul_add]; omega
      rw [Nat.mul_assoc, this]; omega
    omega

/-- `n = 3L(L+1) + 1 = 3L² + 3L + 1` -/
theorem length_qubits {L L' : Nat} (hL : 1 ≤ L) : (qubits L L').length = 3 * L * (L + 1) + 1 := by
  rw [← length_eq_of_mem_iff (nodup_niceQubits L) (nodup_qubits L L') (fun q => mem_niceQubits hL)]
  unfold niceQubits
  rw [List.length_append, length_flatMap_range _ _ (length_qBlock L), sum_six]
  simp only [List.length_cons, List.length_nil]; omega

end Panqec.Color666PlanarCode
