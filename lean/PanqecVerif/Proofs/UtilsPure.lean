/-
Helper lemmas for `Properties/C03Utils.lean` (pure helpers of `panqec/utils.py`).  Core Lean only.
-/
import PanqecVerif.Model.UtilsPure

namespace Panqec.UtilsPure

/-- decidable equality of results, so that concrete instances can be closed by `decide` -/
instance instDecEqExcept {ε α} [DecidableEq ε] [DecidableEq α] : DecidableEq (Except ε α)
  | .ok a, .ok b => if h : a = b then isTrue (by rw [h]) else isFalse (fun h' => h (by injection h'))
  | .error a, .error b => if h : a = b then isTrue (by rw [h]) else isFalse (fun h' => h (by injection h'))
  | .ok _, .error _ => isFalse (fun h => by injection h)
  | .error _, .ok _ => isFalse (fun h => by injection h)

theorem mem_idxNonzero (k i : Nat) (v : List Int) :
    i ∈ idxNonzero k v ↔ k ≤ i ∧ i - k < v.length ∧ v.getD (i - k) 0 ≠ 0 := by
  induction v generalizing k with
  | nil => simp [idxNonzero]
  | cons a as ih =>
    unfold idxNonzero
    by_cases ha : a ≠ 0
    · rw [if_pos ha, List.mem_cons, ih (k + 1)]
      constructor
      · rintro (h | ⟨h1, h2, h3⟩)
        · subst h
          refine ⟨Nat.le_refl _, by simp, ?_⟩
          simpa using ha
        · have e : i - k = (i - (k + 1)) + 1 := by omega
          refine ⟨by omega, by rw [List.length_cons]; omega, ?_⟩
          rw [e, List.getD_cons_succ]; exact h3
      · rintro ⟨h1, h2, h3⟩
        by_cases hk : i = k
        · exact Or.inl hk
        · right
          have e : i - k = (i - (k + 1)) + 1 := by omega
          rw [e, List.getD_cons_succ] at h3
          rw [List.length_cons] at h2
          exact ⟨by omega, by omega, h3⟩
    · rw [if_neg ha, ih (k + 1)]
      have ha0 : a = 0 := by simpa using ha
      constructor
      · rintro ⟨h1, h2, h3⟩
        have e : i - k = (i - (k + 1)) + 1 := by omega
        refine ⟨by omega, by rw [List.length_cons]; omega, ?_⟩
        rw [e, List.getD_cons_succ]; exact h3
      · rintro ⟨h1, h2, h3⟩
        by_cases hk : i = k
        · subst hk
          rw [Nat.sub_self] at h3
          exact absurd (by simpa using ha0) h3
        · have e : i - k = (i - (k + 1)) + 1 := by omega
          rw [e, List.getD_cons_succ] at h3
          rw [List.length_cons] at h2
          exact ⟨by omega, by omega, h3⟩

theorem idxNonzero_sorted (k : Nat) (v : List Int) : (idxNonzero k v).Pairwise (· < ·) := by
  induction v generalizing k with
  | nil => simp [idxNonzero]
  | cons a as ih =>
    unfold idxNonzero
    by_cases ha : a ≠ 0
    · rw [if_pos ha, List.pairwise_cons]
      refine ⟨?_, ih (k + 1)⟩
      intro j hj
      have := (mem_idxNonzero (k + 1) j as).mp hj
      omega
    · rw [if_neg ha]; exact ih (k + 1)

/-! ### `find_nearest` -/

theorem nearestAux_spec (x best : Int) (as : List Int) :
    nearestAux x best as ∈ best :: as ∧
    ∀ a ∈ best :: as, (nearestAux x best as - x).natAbs ≤ (a - x).natAbs := by
  induction as generalizing best with
  | nil => simp [nearestAux]
  | cons a as ih =>
    unfold nearestAux
    by_cases h : (a - x).natAbs < (best - x).natAbs
    · rw [if_pos h]
      obtain ⟨h1, h2⟩ := ih a
      refine ⟨List.mem_cons_of_mem _ h1, ?_⟩
      intro b hb
      rcases List.mem_cons.mp hb with rfl | hb
      · have := h2 a (by simp); omega
      · exact h2 b hb
    · rw [if_neg h]
      obtain ⟨h1, h2⟩ := ih best
      refine ⟨?_, ?_⟩
      · rcases List.mem_cons.mp h1 with h1 | h1
        · rw [h1]; simp
        · exact List.mem_cons_of_mem _ (List.mem_cons_of_mem _ h1)
      · intro b hb
        rcases List.mem_cons.mp hb with rfl | hb
        · exact h2 _ (by simp)
        · rcases List.mem_cons.mp hb with rfl | hb
          · have := h2 best (by simp); omega
          · exact h2 b (List.mem_cons_of_mem _ hb)

/-! ### `np.mod` with an even positive modulus -/

theorem npMod_spec (n a : Int) (ha : 0 < a) :
    0 ≤ npMod n (2 * a) ∧ npMod n (2 * a) < 2 * a ∧ npMod n (2 * a) % 2 = n % 2 ∧
      (2 * a) ∣ (n - npMod n (2 * a)) := by
  have hpos : 0 < 2 * a := by omega
  have hne : 2 * a ≠ 0 := by omega
  unfold npMod
  rw [if_neg hne, Int.fmod_eq_emod_of_nonneg n (Int.le_of_lt hpos)]
  refine ⟨Int.emod_nonneg n hne, Int.emod_lt_of_pos n hpos, ?_, ?_⟩
  · exact Int.emod_emod_of_dvd n (Int.dvd_mul_right 2 a)
  · refine ⟨n / (2 * a), ?_⟩
    have := Int.mul_ediv_add_emod n (2 * a)
    generalize 2 * a * (n / (2 * a)) = q at this ⊢
    omega

/-! ### `nested_map` -/

mutual
theorem NL.map_id : ∀ x : NL, NL.map (fun v => v) x = x
  | .leaf v => by rw [NL.map]
  | .node xs => by rw [NL.map, NL.mapList_id xs]
theorem NL.mapList_id : ∀ xs : List NL, NL.mapList (fun v => v) xs = xs
  | [] => by rw [NL.mapList]
  | x :: xs => by rw [NL.mapList, NL.map_id x, NL.mapList_id xs]
end

mutual
theorem NL.map_comp (f g : Int → Int) : ∀ x : NL, NL.map f (NL.map g x) = NL.map (fun v => f (g v)) x
  | .leaf v => by rw [NL.map, NL.map, NL.map]
  | .node xs => by rw [NL.map, NL.map, NL.map, NL.mapList_comp f g xs]
theorem NL.mapList_comp (f g : Int → Int) :
    ∀ xs : List NL, NL.mapList f (NL.mapList g xs) = NL.mapList (fun v => f (g v)) xs
  | [] => by rw [NL.mapList, NL.mapList, NL.mapList]
  | x :: xs => by rw [NL.mapList, NL.mapList, NL.mapList, NL.map_comp f g x, NL.mapList_comp f g xs]
end

theorem NL.mapList_eq_map (f : Int → Int) : ∀ xs : List NL, NL.mapList f xs = xs.map (NL.map f)
  | [] => by rw [NL.mapList]; rfl
  | x :: xs => by rw [NL.mapList, NL.mapList_eq_map f xs]; rfl

end Panqec.UtilsPure
