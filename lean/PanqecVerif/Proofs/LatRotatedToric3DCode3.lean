/-
`RotatedToric3DCode`, every size of the supported family (`2 ≤ Lx, Ly`, not both odd): closed form
of `get_stabilizer` for the four stabilizer kinds as signed candidate lists — the neighbours after
the seam rules (`sw`: successor of an even coordinate, `pw`: predecessor of an odd coordinate), and
the letter written on each of them.  With the defect rule of the class, a stabilizer in a layer
writes `dl true q` on its two neighbours `q` along the main diagonal and `dl false q` on the two
along the anti-diagonal, whether or not it sits on a defect line: the swapped letters on a defect
line are exactly what the colour of the qubits on the other side of the seam asks for.
-/
import PanqecVerif.Proofs.LatRotatedToric3DCode2
open Panqec Panqec.Lat3Db
namespace Panqec.RotatedToric3DCode

set_option linter.unusedVariables false
set_option linter.unusedSimpArgs false

/-- successor of an even coordinate across the seam (`2L + 1 → 1`) -/
def sw (L : Nat) (x : Int) : Int := if x = 2 * (L : Int) then 1 else x + 1
/-- predecessor of an odd coordinate across the seam (`0 → 2L`) -/
def pw (L : Nat) (f : Int) : Int := if f = 1 then 2 * (L : Int) else f - 1

/-- even coordinate of the period: member of `range(2, 2L+1, 2)` -/
def Ev (L : Nat) (x : Int) : Prop := x % 2 = 0 ∧ 2 ≤ x ∧ x ≤ 2 * (L : Int)
/-- odd coordinate of the period: member of `range(1, 2L, 2)` -/
def Od (L : Nat) (f : Int) : Prop := f % 2 = 1 ∧ 1 ≤ f ∧ f < 2 * (L : Int)

theorem R2_Ev {L : Nat} {x : Int} : R2 (2 * L + 1) x ↔ Ev L x := by
  unfold R2 Ev; omega
theorem R1_Od {L : Nat} {x : Int} : R1 (2 * L) x ↔ Od L x := by
  unfold R1 Od; omega

theorem sw_spec (L : Nat) (x : Int) :
    (x = 2 * (L : Int) ∧ sw L x = 1) ∨ (x ≠ 2 * (L : Int) ∧ sw L x = x + 1) := by
  unfold sw; split <;> simp_all
theorem pw_spec (L : Nat) (f : Int) :
    (f = 1 ∧ pw L f = 2 * (L : Int)) ∨ (f ≠ 1 ∧ pw L f = f - 1) := by
  unfold pw; split <;> simp_all

theorem wrap_succ_ev {L : Nat} {x : Int} (h : Ev L x) : wrap L (x + 1) = sw L x := by
  unfold wrap sw Ev at *
  simp only [beq_iff_eq, gt_iff_lt]
  repeat' split
  all_goals omega

theorem wrap_pred_ev {L : Nat} {x : Int} (h : Ev L x) : wrap L (x - 1) = x - 1 := by
  unfold wrap Ev at *
  simp only [beq_iff_eq, gt_iff_lt]
  repeat' split
  all_goals omega

theorem wrap_succ_od {L : Nat} {f : Int} (h : Od L f) : wrap L (f + 1) = f + 1 := by
  unfold wrap Od at *
  simp only [beq_iff_eq, gt_iff_lt]
  repeat' split
  all_goals omega

theorem wrap_pred_od {L : Nat} {f : Int} (h : Od L f) : wrap L (f - 1) = pw L f := by
  unfold wrap pw Od at *
  simp only [beq_iff_eq, gt_iff_lt]
  repeat' split
  all_goals omega

theorem wrap_id_ev {L : Nat} {x : Int} (h : Ev L x) : wrap L x = x := by
  unfold wrap Ev at *
  simp only [beq_iff_eq, gt_iff_lt]
  repeat' split
  all_goals omega

theorem wrap_id_od {L : Nat} {f : Int} (h : Od L f) : wrap L f = f := by
  unfold wrap Od at *
  simp only [beq_iff_eq, gt_iff_lt]
  repeat' split
  all_goals omega

theorem sw_od {L : Nat} {x : Int} (hL : 1 ≤ L) (h : Ev L x) : Od L (sw L x) := by
  unfold Ev Od at *; have := sw_spec L x; omega
theorem pred_od {L : Nat} {x : Int} (h : Ev L x) : Od L (x - 1) := by
  unfold Ev Od at *; omega
theorem pw_ev {L : Nat} {f : Int} (hL : 1 ≤ L) (h : Od L f) : Ev L (pw L f) := by
  unfold Ev Od at *; have := pw_spec L f; omega
theorem succ_ev {L : Nat} {f : Int} (h : Od L f) : Ev L (f + 1) := by
  unfold Ev Od at *; omega

/-! ### signed candidate lists -/

/-- vertex: `delta = [(1,-1,0), (-1,1,0), (1,1,0), (-1,-1,0), (0,0,1), (0,0,-1)]` -/
def KV (Lx Ly : Nat) (x y z : Int) : List (Coord × Bool) :=
  [([sw Lx x, y - 1, z], false), ([x - 1, sw Ly y, z], false), ([sw Lx x, sw Ly y, z], true),
   ([x - 1, y - 1, z], true), ([x, y, z + 1], true), ([x, y, z - 1], true)]
/-- horizontal face: `delta = [(-1,-1,0), (1,1,0), (-1,1,0), (1,-1,0)]` -/
def KH (Lx Ly : Nat) (a b c : Int) : List (Coord × Bool) :=
  [([a - 1, b - 1, c], true), ([sw Lx a, sw Ly b, c], true), ([a - 1, sw Ly b, c], false),
   ([sw Lx a, b - 1, c], false)]
/-- vertical face with `(x + y) % 4 = 0`: `delta = [(-1,-1,0), (1,1,0), (0,0,-1), (0,0,1)]` -/
def KFX (Lx Ly : Nat) (f g h : Int) : List (Coord × Bool) :=
  [([pw Lx f, pw Ly g, h], false), ([f + 1, g + 1, h], false), ([f, g, h - 1], false),
   ([f, g, h + 1], false)]
/-- vertical face with `(x + y) % 4 = 2`: `delta = [(-1,1,0), (1,-1,0), (0,0,-1), (0,0,1)]` -/
def KFY (Lx Ly : Nat) (f g h : Int) : List (Coord × Bool) :=
  [([pw Lx f, g + 1, h], false), ([f + 1, pw Ly g, h], false), ([f, g, h - 1], true),
   ([f, g, h + 1], true)]

/-- `buildStab` as a fold over the neighbour locations -/
theorem buildStab_eq (Lx Ly Lz : Nat) (x y z : Int) (pauli : Pauli) (delta : List Coord)
    (h : (delta.map (neighbour Lx Ly x y z)).Nodup) :
    buildStab Lx Ly Lz x y z pauli delta =
      gop ((delta.map (neighbour Lx Ly x y z)).filter (isQubit Lx Ly Lz))
        (letterAt (onDefectBoundary Lx Ly x y) pauli) := by
  rw [← foldl_gop _ _ _ h, List.foldl_map]
  rfl

section vertex
variable {Lx Ly Lz : Nat} {x y z : Int}

theorem nb_vertex (hx : Ev Lx x) (hy : Ev Ly y) :
    vertexDelta.map (neighbour Lx Ly x y z) = (KV Lx Ly x y z).map Prod.fst := by
  simp only [vertexDelta, neighbour, KV, List.map_cons, List.map_nil, wrap_succ_ev hx,
    wrap_succ_ev hy, wrap_pred_ev hx, wrap_pred_ev hy, wrap_id_ev hx, wrap_id_ev hy,
    Int.add_zero, ← Int.sub_eq_add_neg]

theorem KV_nodup (hLx : 2 ≤ Lx) (hLy : 2 ≤ Ly) (hx : Ev Lx x) (hy : Ev Ly y) :
    ((KV Lx Ly x y z).map Prod.fst).Nodup := by
  unfold Ev at hx hy
  have := sw_spec Lx x; have := sw_spec Ly y
  simp only [KV, List.map_cons, List.map_nil, List.nodup_cons, List.mem_cons, List.cons.injEq,
    List.not_mem_nil, and_true, or_false, not_false_eq_true, List.nodup_nil]
  omega

end vertex

section hface
variable {Lx Ly Lz : Nat} {a b c : Int}

theorem nb_hface (ha : Ev Lx a) (hb : Ev Ly b) :
    faceDeltaZ.map (neighbour Lx Ly a b c) = (KH Lx Ly a b c).map Prod.fst := by
  simp only [faceDeltaZ, neighbour, KH, List.map_cons, List.map_nil, wrap_succ_ev ha,
    wrap_succ_ev hb, wrap_pred_ev ha, wrap_pred_ev hb, Int.add_zero, ← Int.sub_eq_add_neg]

theorem KH_nodup (hLx : 2 ≤ Lx) (hLy : 2 ≤ Ly) (ha : Ev Lx a) (hb : Ev Ly b) :
    ((KH Lx Ly a b c).map Prod.fst).Nodup := by
  unfold Ev at ha hb
  have := sw_spec Lx a; have := sw_spec Ly b
  simp only [KH, List.map_cons, List.map_nil, List.nodup_cons, List.mem_cons, List.cons.injEq,
    List.not_mem_nil, and_true, or_false, not_false_eq_true, List.nodup_nil]
  omega

end hface

section vface
variable {Lx Ly Lz : Nat} {f g h : Int}

theorem nb_vfaceX (hf : Od Lx f) (hg : Od Ly g) :
    faceDeltaX.map (neighbour Lx Ly f g h) = (KFX Lx Ly f g h).map Prod.fst := by
  simp only [faceDeltaX, neighbour, KFX, List.map_cons, List.map_nil, wrap_succ_od hf,
    wrap_succ_od hg, wrap_pred_od hf, wrap_pred_od hg, wrap_id_od hf, wrap_id_od hg,
    Int.add_zero, ← Int.sub_eq_add_neg]

theorem nb_vfaceY (hf : Od Lx f) (hg : Od Ly g) :
    faceDeltaY.map (neighbour Lx Ly f g h) = (KFY Lx Ly f g h).map Prod.fst := by
  simp only [faceDeltaY, neighbour, KFY, List.map_cons, List.map_nil, wrap_succ_od hf,
    wrap_succ_od hg, wrap_pred_od hf, wrap_pred_od hg, wrap_id_od hf, wrap_id_od hg,
    Int.add_zero, ← Int.sub_eq_add_neg]

theorem KFX_nodup (hLx : 2 ≤ Lx) (hLy : 2 ≤ Ly) (hf : Od Lx f) (hg : Od Ly g) :
    ((KFX Lx Ly f g h).map Prod.fst).Nodup := by
  unfold Od at hf hg
  have := pw_spec Lx f; have := pw_spec Ly g
  simp only [KFX, List.map_cons, List.map_nil, List.nodup_cons, List.mem_cons, List.cons.injEq,
    List.not_mem_nil, and_true, or_false, not_false_eq_true, List.nodup_nil]
  omega

theorem KFY_nodup (hLx : 2 ≤ Lx) (hLy : 2 ≤ Ly) (hf : Od Lx f) (hg : Od Ly g) :
    ((KFY Lx Ly f g h).map Prod.fst).Nodup := by
  unfold Od at hf hg
  have := pw_spec Lx f; have := pw_spec Ly g
  simp only [KFY, List.map_cons, List.map_nil, List.nodup_cons, List.mem_cons, List.cons.injEq,
    List.not_mem_nil, and_true, or_false, not_false_eq_true, List.nodup_nil]
  omega

end vface

end Panqec.RotatedToric3DCode
