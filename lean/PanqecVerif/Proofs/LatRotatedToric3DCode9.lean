/-
`RotatedToric3DCode`, supported family (`2 ≤ Lx, Ly`, not both odd; `1 ≤ Lz` for the pairing):
the clauses of `Lattice.WF` and `Lattice.CommPair` assembled from the signed closed forms, the
pairwise sign-clash parities, the logical closed forms and the stabilizer / logical parities; the
pairing table (lines crossing in the single qubit `(1, 1, 1)`; a line inside a plane has `Lx` resp.
`Ly` qubits, an even number when two logical qubits exist).
-/
import PanqecVerif.Proofs.LatRotatedToric3DCode8b
open Panqec Panqec.Lat3Db
namespace Panqec.RotatedToric3DCode

set_option linter.unusedVariables false
set_option linter.unusedSimpArgs false

/-! ### a stabilizer generator against a logical operator -/

theorem constOp_keysNodup (Lx Ly Lz : Nat) (f : Int → Int → Int → Bool) (p : Pauli) :
    ((constOp (LK Lx Ly Lz f) p).map Prod.fst).Nodup := by
  rw [keys_constOp]; exact LK_nodup Lx Ly Lz f

theorem log_stab_comm {Lx Ly Lz : Nat} (hF : Fam Lx Ly) {s : Coord} {K : List (Coord × Bool)}
    (hk : Kind Lx Ly Lz s K) (f : Int → Int → Int → Bool) (p : Pauli)
    (h : logCount Lx Ly Lz K f p % 2 = 0) :
    opCommute (constOp (LK Lx Ly Lz f) p) (getStab Lx Ly Lz s) = true := by
  have sg := signed_of_kind hF hk
  rw [opCommute_comm (show KeysNodup _ from constOp_keysNodup Lx Ly Lz f p)
    (show KeysNodup _ from sg.keysNodup)]
  unfold opCommute
  rw [opAntiCount_signed_const sg]
  unfold logCount at h
  rw [h]; rfl

section counts
variable {Lx Ly Lz : Nat} {s : Coord} {K : List (Coord × Bool)}

theorem count_Xy (hF : Fam Lx Ly) (hpx : Lx % 2 = 0) (hk : Kind Lx Ly Lz s K) :
    logCount Lx Ly Lz K fXy Pauli.X % 2 = 0 := by
  cases hk with
  | vertex h => exact log_V_Xy hF hpx h
  | hface h => exact log_H_Xy hF hpx h
  | vfaceX h h4 => exact log_FX_Xy hF hpx h h4
  | vfaceY h h4 => exact log_FY_Xy hF hpx h h4

theorem count_Xx (hF : Fam Lx Ly) (hpy : Ly % 2 = 0) (hk : Kind Lx Ly Lz s K) :
    logCount Lx Ly Lz K fXx Pauli.X % 2 = 0 := by
  cases hk with
  | vertex h => exact log_V_Xx hF hpy h
  | hface h => exact log_H_Xx hF hpy h
  | vfaceX h h4 => exact log_FX_Xx hF hpy h h4
  | vfaceY h h4 => exact log_FY_Xx hF hpy h h4

theorem count_Zx (hF : Fam Lx Ly) (hpx : Lx % 2 = 0) (hpy : Ly % 2 = 0)
    (hk : Kind Lx Ly Lz s K) : logCount Lx Ly Lz K fZx Pauli.Z % 2 = 0 := by
  cases hk with
  | vertex h => exact log_V_Zx hF hpx hpy h
  | hface h => exact log_H_Zx hF hpx hpy h
  | vfaceX h h4 => exact log_FX_Zx hF hpx hpy h h4
  | vfaceY h h4 => exact log_FY_Zx hF hpx hpy h h4

theorem count_Zy (hF : Fam Lx Ly) (hpx : Lx % 2 = 0) (hpy : Ly % 2 = 0)
    (hk : Kind Lx Ly Lz s K) : logCount Lx Ly Lz K fZy Pauli.Z % 2 = 0 := by
  cases hk with
  | vertex h => exact log_V_Zy hF hpx hpy h
  | hface h => exact log_H_Zy hF hpx hpy h
  | vfaceX h h4 => exact log_FX_Zy hF hpx hpy h h4
  | vfaceY h h4 => exact log_FY_Zy hF hpx hpy h h4

theorem count_Y (hF : Fam Lx Ly) (hk : Kind Lx Ly Lz s K) :
    logCount Lx Ly Lz K (fY Lx Ly) Pauli.Y % 2 = 0 := by
  cases hk with
  | vertex h => exact log_V_Y hF h
  | hface h => exact log_H_Y hF h
  | vfaceX h h4 => exact log_FX_Y hF h h4
  | vfaceY h h4 => exact log_FY_Y hF h h4

end counts

/-- the parity cases of the supported family -/
theorem fam_cases {Lx Ly : Nat} (hF : Fam Lx Ly) :
    (Lx % 2 = 0 ∧ Ly % 2 = 0) ∨ (Lx % 2 = 1 ∧ Ly % 2 = 0) ∨ (Lx % 2 = 0 ∧ Ly % 2 = 1) := by
  obtain ⟨_, _, h⟩ := hF; omega

theorem logX_comm {Lx Ly Lz : Nat} (hF : Fam Lx Ly) {a : Op} (ha : a ∈ logX Lx Ly Lz) {s : Coord}
    (hs : s ∈ stabs Lx Ly Lz) : opCommute a (getStab Lx Ly Lz s) = true := by
  obtain ⟨K, hk⟩ := kind_of_mem hs
  have h1x : 1 ≤ Lx := by have := hF.1; omega
  have h1y : 1 ≤ Ly := by have := hF.2.1; omega
  rcases fam_cases hF with ⟨hx, hy⟩ | ⟨hx, hy⟩ | ⟨hx, hy⟩
  · rw [logX_EE h1x h1y hx hy] at ha
    simp only [List.mem_cons, List.not_mem_nil, or_false] at ha
    rcases ha with rfl | rfl
    · exact log_stab_comm hF hk _ _ (count_Xy hF hx hk)
    · exact log_stab_comm hF hk _ _ (count_Xx hF hy hk)
  · rw [logX_OE h1x h1y hx hy] at ha
    simp only [List.mem_cons, List.not_mem_nil, or_false] at ha
    subst ha
    exact log_stab_comm hF hk _ _ (count_Xx hF hy hk)
  · rw [logX_EO h1x h1y hx hy] at ha
    simp only [List.mem_cons, List.not_mem_nil, or_false] at ha
    subst ha
    exact log_stab_comm hF hk _ _ (count_Xy hF hx hk)

theorem logZ_comm {Lx Ly Lz : Nat} (hF : Fam Lx Ly) {a : Op} (ha : a ∈ logZ Lx Ly Lz) {s : Coord}
    (hs : s ∈ stabs Lx Ly Lz) : opCommute a (getStab Lx Ly Lz s) = true := by
  obtain ⟨K, hk⟩ := kind_of_mem hs
  rcases fam_cases hF with ⟨hx, hy⟩ | ⟨hx, hy⟩ | ⟨hx, hy⟩
  · rw [logZ_EE hx hy] at ha
    simp only [List.mem_cons, List.not_mem_nil, or_false] at ha
    rcases ha with rfl | rfl
    · exact log_stab_comm hF hk _ _ (count_Zx hF hx hy hk)
    · exact log_stab_comm hF hk _ _ (count_Zy hF hx hy hk)
  · rw [logZ_odd (by omega) hF.2.2] at ha
    simp only [List.mem_cons, List.not_mem_nil, or_false] at ha
    subst ha
    exact log_stab_comm hF hk _ _ (count_Y hF hk)
  · rw [logZ_odd (by omega) hF.2.2] at ha
    simp only [List.mem_cons, List.not_mem_nil, or_false] at ha
    subst ha
    exact log_stab_comm hF hk _ _ (count_Y hF hk)

/-! ### overlaps of the logical key lists -/

theorem ovl_eq_one {k1 k2 : List Coord} (h1 : k1.Nodup) (q : Coord) (hq : q ∈ k1)
    (h : ∀ e ∈ k1, e ∈ k2 ↔ e = q) : ovl k1 k2 = 1 := by
  unfold ovl
  have : k1.countP (fun e => k2.contains e) = k1.countP (· == q) := by
    apply List.countP_congr
    intro e he
    simp [h e he]
  rw [this, ← List.count_eq_countP, List.count_eq_one_of_mem h1 hq]

theorem ovl_of_subset {k1 k2 : List Coord} (h : ∀ e ∈ k1, e ∈ k2) : ovl k1 k2 = k1.length := by
  unfold ovl
  rw [List.countP_eq_length]
  intro e he
  simpa using h e he

theorem LK_shape {Lx Ly Lz : Nat} {f : Int → Int → Int → Bool} {q : Coord}
    (h : q ∈ LK Lx Ly Lz f) : ∃ x y z, q = [x, y, z] := mem_qubits_shape _ _ _ _ (LK_sub h)

theorem q111 {Lx Ly Lz : Nat} (hLx : 1 ≤ Lx) (hLy : 1 ≤ Ly) (hLz : 1 ≤ Lz) :
    [(1 : Int), 1, 1] ∈ qubits Lx Ly Lz := by
  rw [mem_qubits_iff]; left; unfold QH R1; omega

/-- two logical lines / planes that meet exactly in the qubit `(1, 1, 1)` -/
theorem ovl_cross {Lx Ly Lz : Nat} (hLx : 1 ≤ Lx) (hLy : 1 ≤ Ly) (hLz : 1 ≤ Lz)
    (f1 f2 : Int → Int → Int → Bool) (h1 : f1 1 1 1 = true) (h2 : f2 1 1 1 = true)
    (h : ∀ x y z : Int, [x, y, z] ∈ qubits Lx Ly Lz → f1 x y z = true → f2 x y z = true →
      x = 1 ∧ y = 1 ∧ z = 1) :
    ovl (LK Lx Ly Lz f1) (LK Lx Ly Lz f2) = 1 := by
  refine ovl_eq_one (LK_nodup _ _ _ _) [1, 1, 1] (mem_LK.mpr ⟨q111 hLx hLy hLz, h1⟩) ?_
  intro e he
  obtain ⟨x, y, z, rfl⟩ := LK_shape he
  rw [mem_LK] at he ⊢
  constructor
  · rintro ⟨hq, hf2⟩
    obtain ⟨rfl, rfl, rfl⟩ := h x y z hq he.2 hf2
    rfl
  · intro e1
    simp only [List.cons.injEq, and_true] at e1
    obtain ⟨rfl, rfl, rfl⟩ := e1
    exact ⟨he.1, h2⟩

theorem length_eq_of_mem3 {l1 l2 : List Coord} (n1 : l1.Nodup) (n2 : l2.Nodup)
    (s1 : ∀ q ∈ l1, ∃ x y z, q = [x, y, z]) (s2 : ∀ q ∈ l2, ∃ x y z, q = [x, y, z])
    (h : ∀ x y z : Int, [x, y, z] ∈ l1 ↔ [x, y, z] ∈ l2) : l1.length = l2.length := by
  apply List.Perm.length_eq
  rw [List.perm_ext_iff_of_nodup n1 n2]
  intro q
  constructor
  · intro hq; obtain ⟨x, y, z, rfl⟩ := s1 q hq; exact (h x y z).mp hq
  · intro hq; obtain ⟨x, y, z, rfl⟩ := s2 q hq; exact (h x y z).mpr hq

theorem length_LK_Xy {Lx Ly Lz : Nat} (hLy : 1 ≤ Ly) (hLz : 1 ≤ Lz) :
    (LK Lx Ly Lz fXy).length = Lx := by
  have hl : ((pyRange2 1 (2 * Lx)).map fun x => [x, (1 : Int), 1]).length = Lx := by
    rw [List.length_map, length_pyRange2]; omega
  rw [← hl]
  refine length_eq_of_mem3 (LK_nodup _ _ _ _) ?_ (fun q hq => LK_shape hq) ?_ ?_
  · refine List.Nodup.map ?_ (nodup_pyRange2 _ _)
    intro a b h; simpa using h
  · intro q hq; obtain ⟨x, _, rfl⟩ := List.mem_map.mp hq; exact ⟨_, _, _, rfl⟩
  · intro x y z
    rw [mem_LK, mem_qubits_iff]
    simp only [fXy, Bool.and_eq_true, beq_iff_eq, List.mem_map, mem_pyRange2_1, List.cons.injEq,
      and_true]
    constructor
    · rintro ⟨hq, rfl, rfl⟩
      refine ⟨x, ?_, rfl, rfl, rfl⟩
      unfold QH QV R1 R2 at hq; unfold R1; omega
    · rintro ⟨x', hx', rfl, rfl, rfl⟩
      refine ⟨Or.inl ?_, rfl, rfl⟩
      unfold QH R1; unfold R1 at hx'; omega

theorem length_LK_Xx {Lx Ly Lz : Nat} (hLx : 1 ≤ Lx) (hLz : 1 ≤ Lz) :
    (LK Lx Ly Lz fXx).length = Ly := by
  have hl : ((pyRange2 1 (2 * Ly)).map fun y => [(1 : Int), y, 1]).length = Ly := by
    rw [List.length_map, length_pyRange2]; omega
  rw [← hl]
  refine length_eq_of_mem3 (LK_nodup _ _ _ _) ?_ (fun q hq => LK_shape hq) ?_ ?_
  · refine List.Nodup.map ?_ (nodup_pyRange2 _ _)
    intro a b h; simpa using h
  · intro q hq; obtain ⟨x, _, rfl⟩ := List.mem_map.mp hq; exact ⟨_, _, _, rfl⟩
  · intro x y z
    rw [mem_LK, mem_qubits_iff]
    simp only [fXx, Bool.and_eq_true, beq_iff_eq, List.mem_map, mem_pyRange2_1, List.cons.injEq,
      and_true]
    constructor
    · rintro ⟨hq, rfl, rfl⟩
      refine ⟨y, ?_, rfl, rfl, rfl⟩
      unfold QH QV R1 R2 at hq; unfold R1; omega
    · rintro ⟨y', hy', rfl, rfl, rfl⟩
      refine ⟨Or.inl ?_, rfl, rfl⟩
      unfold QH R1; unfold R1 at hy'; omega

/-! ### the pairing table -/

theorem anti_XZ : Pauli.anti Pauli.X Pauli.Z = true := rfl
theorem anti_XY : Pauli.anti Pauli.X Pauli.Y = true := rfl

theorem pairing {Lx Ly Lz : Nat} (hF : Fam Lx Ly) (hLz : 1 ≤ Lz) (i j : Nat)
    (hi : i < (logX Lx Ly Lz).length) (hj : j < (logZ Lx Ly Lz).length) :
    opAntiCount ((logX Lx Ly Lz).getD i []) ((logZ Lx Ly Lz).getD j []) % 2 =
      if i = j then 1 else 0 := by
  have h1x : 1 ≤ Lx := by have := hF.1; omega
  have h1y : 1 ≤ Ly := by have := hF.2.1; omega
  have cXyZx : ovl (LK Lx Ly Lz fXy) (LK Lx Ly Lz fZx) = 1 :=
    ovl_cross h1x h1y hLz _ _ rfl rfl (by
      intro x y z _ h1 h2
      simp only [fXy, fZx, Bool.and_eq_true, beq_iff_eq] at h1 h2
      exact ⟨h2, h1.1, h1.2⟩)
  have cXxZy : ovl (LK Lx Ly Lz fXx) (LK Lx Ly Lz fZy) = 1 :=
    ovl_cross h1x h1y hLz _ _ rfl rfl (by
      intro x y z _ h1 h2
      simp only [fXx, fZy, Bool.and_eq_true, beq_iff_eq] at h1 h2
      exact ⟨h1.1, h2, h1.2⟩)
  rcases fam_cases hF with ⟨hx, hy⟩ | ⟨hx, hy⟩ | ⟨hx, hy⟩
  · rw [logX_EE h1x h1y hx hy] at hi ⊢
    rw [logZ_EE hx hy] at hj ⊢
    have cXyZy : ovl (LK Lx Ly Lz fXy) (LK Lx Ly Lz fZy) = Lx := by
      rw [ovl_of_subset, length_LK_Xy h1y hLz]
      intro e he
      obtain ⟨x, y, z, rfl⟩ := LK_shape he
      rw [mem_LK] at he ⊢
      simp only [fXy, fZy, Bool.and_eq_true, beq_iff_eq] at he ⊢
      exact ⟨he.1, he.2.1⟩
    have cXxZx : ovl (LK Lx Ly Lz fXx) (LK Lx Ly Lz fZx) = Ly := by
      rw [ovl_of_subset, length_LK_Xx h1x hLz]
      intro e he
      obtain ⟨x, y, z, rfl⟩ := LK_shape he
      rw [mem_LK] at he ⊢
      simp only [fXx, fZx, Bool.and_eq_true, beq_iff_eq] at he ⊢
      exact ⟨he.1, he.2.1⟩
    simp only [List.length_cons, List.length_nil] at hi hj
    have hi' : i = 0 ∨ i = 1 := by omega
    have hj' : j = 0 ∨ j = 1 := by omega
    rcases hi' with rfl | rfl <;> rcases hj' with rfl | rfl <;>
      simp [opAntiCount_constOp, anti_XZ, cXyZx, cXxZy, cXyZy, cXxZx, hx, hy]
  · rw [logX_OE h1x h1y hx hy] at hi ⊢
    rw [logZ_odd (by omega) hF.2.2] at hj ⊢
    have c : ovl (LK Lx Ly Lz fXx) (LK Lx Ly Lz (fY Lx Ly)) = 1 :=
      ovl_cross h1x h1y hLz _ _ rfl (by simp [fY, hx]) (by
        intro x y z _ h1 h2
        simp only [fXx, fY, Bool.and_eq_true, Bool.or_eq_true, beq_iff_eq] at h1 h2
        have : y = 1 := by
          rcases h2 with h2 | h2
          · exact h2.2
          · omega
        exact ⟨h1.1, this, h1.2⟩)
    simp only [List.length_cons, List.length_nil] at hi hj
    obtain rfl : i = 0 := by omega
    obtain rfl : j = 0 := by omega
    simp [opAntiCount_constOp, anti_XY, c]
  · rw [logX_EO h1x h1y hx hy] at hi ⊢
    rw [logZ_odd (by omega) hF.2.2] at hj ⊢
    have c : ovl (LK Lx Ly Lz fXy) (LK Lx Ly Lz (fY Lx Ly)) = 1 :=
      ovl_cross h1x h1y hLz _ _ rfl (by simp [fY, hy]) (by
        intro x y z _ h1 h2
        simp only [fXy, fY, Bool.and_eq_true, Bool.or_eq_true, beq_iff_eq] at h1 h2
        have : x = 1 := by
          rcases h2 with h2 | h2
          · omega
          · exact h2.2
        exact ⟨this, h1.1, h1.2⟩)
    simp only [List.length_cons, List.length_nil] at hi hj
    obtain rfl : i = 0 := by omega
    obtain rfl : j = 0 := by omega
    simp [opAntiCount_constOp, anti_XY, c]

theorem logXX {Lx Ly Lz : Nat} (hF : Fam Lx Ly) {a b : Op} (ha : a ∈ logX Lx Ly Lz)
    (hb : b ∈ logX Lx Ly Lz) : opCommute a b = true := by
  have h1x : 1 ≤ Lx := by have := hF.1; omega
  have h1y : 1 ≤ Ly := by have := hF.2.1; omega
  rcases fam_cases hF with ⟨hx, hy⟩ | ⟨hx, hy⟩ | ⟨hx, hy⟩
  · rw [logX_EE h1x h1y hx hy] at ha hb
    simp only [List.mem_cons, List.not_mem_nil, or_false] at ha hb
    rcases ha with rfl | rfl <;> rcases hb with rfl | rfl <;> exact opCommute_constOp_same _ _ _
  · rw [logX_OE h1x h1y hx hy] at ha hb
    simp only [List.mem_cons, List.not_mem_nil, or_false] at ha hb
    subst ha; subst hb; exact opCommute_constOp_same _ _ _
  · rw [logX_EO h1x h1y hx hy] at ha hb
    simp only [List.mem_cons, List.not_mem_nil, or_false] at ha hb
    subst ha; subst hb; exact opCommute_constOp_same _ _ _

theorem logZZ {Lx Ly Lz : Nat} (hF : Fam Lx Ly) {a b : Op} (ha : a ∈ logZ Lx Ly Lz)
    (hb : b ∈ logZ Lx Ly Lz) : opCommute a b = true := by
  rcases fam_cases hF with ⟨hx, hy⟩ | ⟨hx, hy⟩ | ⟨hx, hy⟩
  · rw [logZ_EE hx hy] at ha hb
    simp only [List.mem_cons, List.not_mem_nil, or_false] at ha hb
    rcases ha with rfl | rfl <;> rcases hb with rfl | rfl <;> exact opCommute_constOp_same _ _ _
  · rw [logZ_odd (by omega) hF.2.2] at ha hb
    simp only [List.mem_cons, List.not_mem_nil, or_false] at ha hb
    subst ha; subst hb; exact opCommute_constOp_same _ _ _
  · rw [logZ_odd (by omega) hF.2.2] at ha hb
    simp only [List.mem_cons, List.not_mem_nil, or_false] at ha hb
    subst ha; subst hb; exact opCommute_constOp_same _ _ _

/-! ### the two structures -/

theorem wf {Lx Ly Lz : Nat} (hF : Fam Lx Ly) : (lattice Lx Ly Lz).WF := by
  constructor <;>
    simp only [lattice_qubits, lattice_stabs, lattice_getStab, lattice_logX, lattice_logZ]
  · exact qubits_nodup Lx Ly Lz
  · exact stabs_nodup Lx Ly Lz
  · exact fun _ hq => qubits_not_stabs hq
  · intro s hs
    obtain ⟨K, hk⟩ := kind_of_mem hs
    exact (signed_of_kind hF hk).keysNodup
  · intro s hs
    obtain ⟨K, hk⟩ := kind_of_mem hs
    exact (signed_of_kind hF hk).supported
  · intro s hs
    obtain ⟨K, hk⟩ := kind_of_mem hs
    exact (signed_of_kind hF hk).ne_nil (first_candidate_qubit hF hk)
  · intro a ha
    obtain ⟨f, p, rfl, _⟩ := logical_form hF ha
    exact constOp_keysNodup Lx Ly Lz f p
  · intro a ha e he
    obtain ⟨f, p, rfl, hp⟩ := logical_form hF ha
    rw [mem_constOp] at he
    exact ⟨LK_sub he.1, by rw [he.2]; exact hp⟩

theorem commPair {Lx Ly Lz : Nat} (hF : Fam Lx Ly) (hLz : 1 ≤ Lz) :
    (lattice Lx Ly Lz).CommPair := by
  constructor <;>
    simp only [lattice_stabs, lattice_getStab, lattice_logX, lattice_logZ]
  · exact fun _ hs _ ht => stab_comm hF hs ht
  · exact fun _ ha _ hs => logX_comm hF ha hs
  · exact fun _ ha _ hs => logZ_comm hF ha hs
  · rw [logX_length, logZ_length]
  · exact fun i j hi hj => pairing hF hLz i j hi hj
  · exact fun _ ha _ hb => logXX hF ha hb
  · exact fun _ ha _ hb => logZZ hF ha hb

end Panqec.RotatedToric3DCode
