/-
Planar2DCode, all sizes: overlaps (vertex/face, logical/stabilizer, logical/logical).
Core Lean only.
-/
import PanqecVerif.Proofs.LatPlanar2DCodeA

set_option linter.unusedVariables false

namespace Panqec.Planar2DCode
open Panqec.Lat2D

/-- a vertex and a face share 0 or 2 qubits (both shared candidates are qubits whenever the
    vertex and the face are stabilizer locations) -/
theorem vertex_face_even {Lx Ly : Nat} {ax ay bx by' : Int}
    (ha : IsV Lx Ly ax ay) (hb : IsF Lx Ly bx by') :
    interCount (supp Lx Ly ax ay) (supp Lx Ly bx by') % 2 = 0 := by
  unfold IsV at ha; unfold IsF at hb
  have key := interCount_filter4_iff [ax - 1, ay] [ax + 1, ay] [ax, ay - 1] [ax, ay + 1]
    (isQubit Lx Ly) (supp Lx Ly bx by')
    (bx = ax - 1 ∧ (by' = ay + 1 ∨ by' = ay - 1)) (bx = ax + 1 ∧ (by' = ay + 1 ∨ by' = ay - 1))
    (by' = ay - 1 ∧ (bx = ax + 1 ∨ bx = ax - 1)) (by' = ay + 1 ∧ (bx = ax + 1 ∨ bx = ax - 1))
    (by unfold supp; rw [List.mem_filter, isQubit_iff, mem_nbrs]; unfold IsQ; omega)
    (by unfold supp; rw [List.mem_filter, isQubit_iff, mem_nbrs]; unfold IsQ; omega)
    (by unfold supp; rw [List.mem_filter, isQubit_iff, mem_nbrs]; unfold IsQ; omega)
    (by unfold supp; rw [List.mem_filter, isQubit_iff, mem_nbrs]; unfold IsQ; omega)
  show interCount ([[ax - 1, ay], [ax + 1, ay], [ax, ay - 1], [ax, ay + 1]].filter (isQubit Lx Ly))
    (supp Lx Ly bx by') % 2 = 0
  rw [key]
  split <;> split <;> split <;> split <;> omega

def kX (Lx : Nat) : List Coord := (pyRange2 1 (2 * Lx)).map fun x => [x, 0]
def kZ (Ly : Nat) : List Coord := (pyRange2 0 (2 * Ly)).map fun y => [1, y]

theorem nodup_kX (L : Nat) : (kX L).Nodup :=
  nodup_map_pair _ (fun a b h => by simpa using h) (nodup_pyRange2 ..)
theorem nodup_kZ (L : Nat) : (kZ L).Nodup :=
  nodup_map_pair _ (fun a b h => by simpa using h) (nodup_pyRange2 ..)

theorem mem_kX {L : Nat} {a b : Int} :
    [a, b] ∈ kX L ↔ (1 ≤ a ∧ a < 2 * (L : Int) ∧ a % 2 = 1 ∧ b = 0) := by
  unfold kX
  simp only [List.mem_map, mem_pyRange2, List.cons.injEq, and_true]
  constructor
  · rintro ⟨x, hx, rfl, rfl⟩; omega
  · rintro ⟨h1, h2, h3, rfl⟩; exact ⟨a, by omega, rfl, rfl⟩
theorem mem_kZ {L : Nat} {a b : Int} :
    [a, b] ∈ kZ L ↔ (0 ≤ b ∧ b < 2 * (L : Int) ∧ b % 2 = 0 ∧ a = 1) := by
  unfold kZ
  simp only [List.mem_map, mem_pyRange2, List.cons.injEq, and_true]
  constructor
  · rintro ⟨x, hx, rfl, rfl⟩; omega
  · rintro ⟨h1, h2, h3, rfl⟩; exact ⟨b, by omega, rfl, rfl⟩

theorem logX_eq (Lx Ly : Nat) : logX Lx Ly = [(kX Lx).map (fun q => (q, Pauli.X))] := by
  show [lineOp (kX Lx) Pauli.X] = _
  rw [lineOp_eq _ _ (nodup_kX Lx)]
theorem logZ_eq (Lx Ly : Nat) : logZ Lx Ly = [(kZ Ly).map (fun q => (q, Pauli.Z))] := by
  show [lineOp (kZ Ly) Pauli.Z] = _
  rw [lineOp_eq _ _ (nodup_kZ Ly)]

theorem supp_kX {Lx Ly : Nat} {x y : Int} (h : IsV Lx Ly x y) :
    interCount (supp Lx Ly x y) (kX Lx) % 2 = 0 := by
  unfold IsV at h
  have key := interCount_filter4_iff [x - 1, y] [x + 1, y] [x, y - 1] [x, y + 1]
    (isQubit Lx Ly) (kX Lx) (y = 0) (y = 0) False False
    (by rw [isQubit_iff, mem_kX]; unfold IsQ; omega)
    (by rw [isQubit_iff, mem_kX]; unfold IsQ; omega)
    (by rw [isQubit_iff, mem_kX, iff_false]; unfold IsQ; omega)
    (by rw [isQubit_iff, mem_kX, iff_false]; unfold IsQ; omega)
  show interCount ([[x - 1, y], [x + 1, y], [x, y - 1], [x, y + 1]].filter (isQubit Lx Ly))
    (kX Lx) % 2 = 0
  rw [key]
  by_cases hy : y = 0 <;> simp [hy]

theorem supp_kZ {Lx Ly : Nat} {x y : Int} (h : IsF Lx Ly x y) :
    interCount (supp Lx Ly x y) (kZ Ly) % 2 = 0 := by
  unfold IsF at h
  have key := interCount_filter4_iff [x - 1, y] [x + 1, y] [x, y - 1] [x, y + 1]
    (isQubit Lx Ly) (kZ Ly) False False (x = 1) (x = 1)
    (by rw [isQubit_iff, mem_kZ, iff_false]; unfold IsQ; omega)
    (by rw [isQubit_iff, mem_kZ, iff_false]; unfold IsQ; omega)
    (by rw [isQubit_iff, mem_kZ]; unfold IsQ; omega)
    (by rw [isQubit_iff, mem_kZ]; unfold IsQ; omega)
  show interCount ([[x - 1, y], [x + 1, y], [x, y - 1], [x, y + 1]].filter (isQubit Lx Ly))
    (kZ Ly) % 2 = 0
  rw [key]
  by_cases hx : x = 1 <;> simp [hx]

theorem kX_kZ {Lx Ly : Nat} (hx : 1 ≤ Lx) (hy : 1 ≤ Ly) : interCount (kX Lx) (kZ Ly) = 1 := by
  unfold interCount
  apply countP_eq_one _ _ [1, 0] (nodup_kX Lx)
  · rw [mem_kX]; omega
  · simp only [List.contains_eq_mem, decide_eq_true_eq]; rw [mem_kZ]; omega
  · intro a ha h
    simp only [List.contains_eq_mem, decide_eq_true_eq] at h
    unfold kX at ha
    simp only [List.mem_map] at ha
    obtain ⟨x, _, rfl⟩ := ha
    rw [mem_kZ] at h
    rw [h.2.2.2]

end Panqec.Planar2DCode
