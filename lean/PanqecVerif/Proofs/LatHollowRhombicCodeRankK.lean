/-
`HollowRhombicCode`, rank clause, part K: the selected triangles of axis 0 of a size with a thick
hole (`Lx ≥ 4`, `Ly, Lz ≥ 5`) as boxes (continuation of parts I, J).  Core Lean only.
-/
import PanqecVerif.Proofs.LatHollowRhombicCodeRankJ

set_option linter.unusedVariables false
set_option linter.unusedSimpArgs false

namespace Panqec.HollowRhombicCode
open Panqec.Lat3Db Panqec.Rhombic
open Panqec.Planar3DCode (inE inO inE2 inO1)

section
variable {Lx Ly Lz : Nat}

/-- the upper triangles of axis 0 next to the hole that are not listed -/
def P0 (Lx Ly Lz : Nat) (x y z : Int) : Prop :=
  (InAp 4 (Lx - 3) x ∧ InAp 4 (Ly - 4) y ∧ InAp 4 (Lz - 4) z ∧ (x + y + z) % 4 = 2) ∨
  (InAp 2 1 x ∧ InAp 4 (Ly - 4) y ∧ InAp 4 (Lz - 4) z ∧ (x + y + z) % 4 = 2) ∨
  (InAp 4 (Lx - 3) x ∧ InAp 2 1 y ∧ InAp 4 (Lz - 4) z ∧ (x + y + z) % 4 = 2) ∨
  (InAp 4 (Lx - 3) x ∧ InAp 4 (Ly - 4) y ∧ InAp (2 * Lz - 4) 1 z ∧ (x + y + z) % 4 = 2)

/-- the number of kept lower triangles of axis 0 along the hole edge `x = y = 3` -/
def qn (Lx Ly Lz : Nat) : Nat :=
  if (4 ≤ Lx ∧ 4 ≤ Ly) ∨ (Lx = 3 ∧ 5 ≤ Ly) then (Lz - 5) / 2 else 0

/-- the kept lower triangles of axis 0 along the hole edge `x = y = 3` -/
def QR (Lx Ly Lz : Nat) (x y z : Int) : Prop :=
  x = 2 ∧ y = 2 ∧ 8 ≤ z ∧ z < 8 + 4 * ((qn Lx Ly Lz : Nat) : Int) ∧ (z - 8) % 4 = 0

/-- the boxes of the triangles of axis 0 -/
def B0 (Lx Ly Lz : Nat) (x y z : Int) : Prop :=
  (InAp (2 * Lx - 2) 1 x ∧ InAp 0 (Ly - 1) y ∧ InAp 0 Lz z) ∨
  (InAp 2 (Lx - 2) x ∧ InAp 0 (Ly - 1) y ∧ InAp 2 (Lz - 1) z ∧ (x + y + z) % 4 = 2) ∨
  (InAp 2 1 x ∧ InAp 4 (Ly - 4) y ∧ InAp 2 1 z ∧ (x + y + z) % 4 = 0) ∨
  (InAp 4 (Lx - 3) x ∧ InAp 2 1 y ∧ InAp 2 1 z ∧ (x + y + z) % 4 = 0) ∨
  QR Lx Ly Lz x y z

theorem ax0_mp (hx : 3 ≤ Lx) (hy : 4 ≤ Ly) (hz : 5 ≤ Lz) (x y z : Int)
    (h : TS Lx Ly Lz 0 x y z) : B0 Lx Ly Lz x y z := by
  unfold B0 QR
  obtain ⟨_, hv, hp, hc⟩ := h
  have hv' := hv
  unfold VertexLoc inE2 inE at hv'
  unfold PT at hp
  rw [sgnX_0, sgnY_0, sgnZ_01 (Or.inl rfl)] at hp
  obtain ⟨p1, p2, p3, p4, p5, p6⟩ := hp
  unfold SelC at hc
  rcases hc with hc | hc | ⟨hc, _⟩ | ⟨_, hc | ⟨h2, hz2⟩ | ⟨h0, hzt, hn⟩ | hq | hqy | hqx⟩
  · omega
  · omega
  · omega
  · left; unfold InAp; omega
  · by_cases hl : x = 2 * (Lx : Int) - 2
    · left; unfold InAp; omega
    · right; left; unfold InAp; omega
  · by_cases hl : x = 2 * (Lx : Int) - 2
    · left; unfold InAp; omega
    · rw [if_pos h0] at p4
      have hcol : ¬ (x + y + (z + 2)) % 4 = 0 := by omega
      by_cases q1 : Hole Lx Ly Lz x y (z + 2)
      · exfalso; unfold Hole at q1 p4; omega
      by_cases q2 : Hole Lx Ly Lz (x + 1) y (z + 2)
      · right; right; left; unfold Hole at q2 p2 p4; unfold InAp; omega
      by_cases q3 : Hole Lx Ly Lz x (y + 1) (z + 2)
      · right; right; right; left; unfold Hole at q3 p3 p4; unfold InAp; omega
      exfalso; apply hn
      unfold PT; rw [sgnX_0, sgnY_0, sgnZ_01 (Or.inl rfl), if_neg hcol]
      have e : z + 2 + -1 = z + 1 := by omega
      rw [e]
      exact ⟨q1, q2, q3, p4, p5, p6⟩
  · right; right; right; right; unfold QC at hq; unfold qn; rw [if_pos hq.2.2.2.2.2]; omega
  · exfalso; unfold QY at hqy; omega
  · exfalso; unfold QX at hqx; omega

theorem ax0_abs (hx : 3 ≤ Lx) (hy : 4 ≤ Ly) (hz : 5 ≤ Lz) (x y z : Int)
    (h : P0 Lx Ly Lz x y z) : B0 Lx Ly Lz x y z := by
  unfold P0 at h; unfold B0
  right; left
  rcases h with h | h | h | h <;> unfold InAp at h ⊢ <;> omega

theorem ax0_mpr (hx : 3 ≤ Lx) (hy : 4 ≤ Ly) (hz : 5 ≤ Lz) (x y z : Int)
    (h : B0 Lx Ly Lz x y z) : TS Lx Ly Lz 0 x y z ∨ P0 Lx Ly Lz x y z := by
  unfold B0 QR at h
  unfold P0
  rcases h with h | h | h | h | h
  · -- the last column
    unfold InAp at h
    left
    refine ⟨by decide, ?_, ?_, ?_⟩
    · unfold VertexLoc inE2 inE; omega
    · unfold PT; rw [sgnX_0, sgnY_0]
      refine ⟨?_, ?_, ?_, ?_, by omega, by omega⟩
      · intro hh; unfold Hole at hh; omega
      · intro hh; unfold Hole at hh; omega
      · intro hh; unfold Hole at hh; omega
      · intro hh; unfold Hole at hh; omega
    · unfold SelC; right; right; right; exact ⟨rfl, Or.inl (by omega)⟩
  · -- the upper triangles
    obtain ⟨hX, hY, hZ, hc2⟩ := h
    unfold InAp at hX hY hZ
    have hcol : ¬ (x + y + z) % 4 = 0 := by omega
    by_cases h1 : Hole Lx Ly Lz x y z
    · right; left; unfold Hole at h1; unfold InAp; omega
    by_cases h2 : Hole Lx Ly Lz (x + 1) y z
    · right; right; left; unfold Hole at h1 h2; unfold InAp; omega
    by_cases h3 : Hole Lx Ly Lz x (y + 1) z
    · right; right; right; left; unfold Hole at h1 h3; unfold InAp; omega
    by_cases h4 : Hole Lx Ly Lz x y (z + -1)
    · right; right; right; right; unfold Hole at h1 h4; unfold InAp; omega
    left
    refine ⟨by decide, ?_, ?_, ?_⟩
    · unfold VertexLoc inE2 inE; omega
    · unfold PT; rw [sgnX_0, sgnY_0, sgnZ_01 (Or.inl rfl), if_neg hcol]
      exact ⟨h1, h2, h3, h4, by omega, by omega⟩
    · unfold SelC; right; right; right; exact ⟨rfl, Or.inr (Or.inl ⟨hc2, by omega⟩)⟩
  · -- the lower triangles under the hole edge (3, ·, 3)
    obtain ⟨hX, hY, hZ, hc0⟩ := h
    unfold InAp at hX hY hZ
    left
    refine ⟨by decide, ?_, ?_, ?_⟩
    · unfold VertexLoc inE2 inE; omega
    · unfold PT; rw [sgnX_0, sgnY_0, sgnZ_01 (Or.inl rfl), if_pos hc0]
      refine ⟨?_, ?_, ?_, ?_, by omega, by omega⟩
      · intro hh; unfold Hole at hh; omega
      · intro hh; unfold Hole at hh; omega
      · intro hh; unfold Hole at hh; omega
      · intro hh; unfold Hole at hh; omega
    · unfold SelC; right; right; right
      refine ⟨rfl, Or.inr (Or.inr (Or.inl ⟨hc0, by omega, ?_⟩))⟩
      intro hp; apply hp.2.1; rw [sgnX_0]; unfold Hole; omega
  · -- the lower triangles under the hole edge (·, 3, 3)
    obtain ⟨hX, hY, hZ, hc0⟩ := h
    unfold InAp at hX hY hZ
    left
    refine ⟨by decide, ?_, ?_, ?_⟩
    · unfold VertexLoc inE2 inE; omega
    · unfold PT; rw [sgnX_0, sgnY_0, sgnZ_01 (Or.inl rfl), if_pos hc0]
      refine ⟨?_, ?_, ?_, ?_, by omega, by omega⟩
      · intro hh; unfold Hole at hh; omega
      · intro hh; unfold Hole at hh; omega
      · intro hh; unfold Hole at hh; omega
      · intro hh; unfold Hole at hh; omega
    · unfold SelC; right; right; right
      refine ⟨rfl, Or.inr (Or.inr (Or.inl ⟨hc0, by omega, ?_⟩))⟩
      intro hp; apply hp.2.2.1; rw [sgnY_0]; unfold Hole; omega
  · -- the kept lower triangles along the hole edge (3, 3, ·)
    obtain ⟨rfl, rfl, hz1, hz2, hz3⟩ := h
    have hg : (4 ≤ Lx ∧ 4 ≤ Ly) ∨ (Lx = 3 ∧ 5 ≤ Ly) := by
      unfold qn at hz2
      by_contra hn
      rw [if_neg hn] at hz2
      omega
    unfold qn at hz2
    rw [if_pos hg] at hz2
    have hc0 : (2 + 2 + z) % 4 = 0 := by omega
    left
    refine ⟨by decide, ?_, ?_, ?_⟩
    · unfold VertexLoc inE2 inE; omega
    · unfold PT; rw [sgnX_0, sgnY_0, sgnZ_01 (Or.inl rfl), if_pos hc0]
      refine ⟨?_, ?_, ?_, ?_, by omega, by omega⟩
      · intro hh; unfold Hole at hh; omega
      · intro hh; unfold Hole at hh; omega
      · intro hh; unfold Hole at hh; omega
      · intro hh; unfold Hole at hh; omega
    · unfold SelC QC; right; right; right
      exact ⟨rfl, Or.inr (Or.inr (Or.inr (Or.inl ⟨rfl, rfl, by omega, by omega, by omega, hg⟩)))⟩

theorem ax0 (hx : 3 ≤ Lx) (hy : 4 ≤ Ly) (hz : 5 ≤ Lz) (x y z : Int) :
    (TS Lx Ly Lz 0 x y z ∨ P0 Lx Ly Lz x y z) ↔ B0 Lx Ly Lz x y z :=
  ⟨fun h => h.elim (ax0_mp hx hy hz x y z) (ax0_abs hx hy hz x y z), ax0_mpr hx hy hz x y z⟩

theorem ax0_disj (hx : 3 ≤ Lx) (hy : 4 ≤ Ly) (hz : 4 ≤ Lz) (x y z : Int)
    (ht : TS Lx Ly Lz 0 x y z) (hp : P0 Lx Ly Lz x y z) : False := by
  obtain ⟨_, hv, hpt, _⟩ := ht
  unfold PT at hpt
  rw [sgnX_0, sgnY_0, sgnZ_01 (Or.inl rfl)] at hpt
  unfold P0 at hp
  rcases hp with h | h | h | h <;> unfold InAp at h
  · exact hpt.1 (by unfold Hole; omega)
  · exact hpt.2.1 (by unfold Hole; omega)
  · exact hpt.2.2.1 (by unfold Hole; omega)
  · have hc : ¬ (x + y + z) % 4 = 0 := by omega
    rw [if_neg hc] at hpt
    exact hpt.2.2.2.1 (by unfold Hole; omega)

end

end Panqec.HollowRhombicCode
