/-
Color488Code, square sizes `L ≥ 1`: assembly of `Lattice.WF` and `Lattice.CommPair`, and the
size formulas `n = 8L²`, `n_stabilizers = 2(2L+1)²`.  Core Lean only.
-/
import PanqecVerif.Proofs.LatColor488CodeD

set_option linter.unusedVariables false
set_option linter.unusedSimpArgs false

namespace Panqec.Color488Code
open Panqec.Lat2D Panqec.Color

theorem logX_eq (L : Nat) : logX L L =
    [(k3 L).map (fun q => (q, Pauli.X)), (k7 L).map (fun q => (q, Pauli.X)),
     (r5 L).map (fun q => (q, Pauli.X)), (r1 L).map (fun q => (q, Pauli.X))] := by
  show [collect (col3 L) (isQubit L L) Pauli.X, collect (col7 L) (isQubit L L) Pauli.X,
    collect (row5 L) (isQubit L L) Pauli.X, collect (row1 L) (isQubit L L) Pauli.X] = _
  rw [collect_eq _ _ _ (nodup_col3 L), collect_eq _ _ _ (nodup_col7 L),
    collect_eq _ _ _ (nodup_row5 L), collect_eq _ _ _ (nodup_row1 L)]; rfl

theorem logZ_eq (L : Nat) : logZ L L =
    [(r5 L).map (fun q => (q, Pauli.Z)), (r1 L).map (fun q => (q, Pauli.Z)),
     (k3 L).map (fun q => (q, Pauli.Z)), (k7 L).map (fun q => (q, Pauli.Z))] := by
  show [collect (row5 L) (isQubit L L) Pauli.Z, collect (row1 L) (isQubit L L) Pauli.Z,
    collect (col3 L) (isQubit L L) Pauli.Z, collect (col7 L) (isQubit L L) Pauli.Z] = _
  rw [collect_eq _ _ _ (nodup_col3 L), collect_eq _ _ _ (nodup_col7 L),
    collect_eq _ _ _ (nodup_row5 L), collect_eq _ _ _ (nodup_row1 L)]; rfl

/-- every logical operator is a single letter on one of the four lines -/
theorem log_mem {L : Nat} {a : Op} (ha : a ∈ logX L L ++ logZ L L) :
    ∃ (K : List Coord) (P : Pauli), a = K.map (fun q => (q, P)) ∧ P ≠ Pauli.I ∧
      (K = k3 L ∨ K = k7 L ∨ K = r5 L ∨ K = r1 L) := by
  rw [logX_eq, logZ_eq] at ha
  simp only [List.cons_append, List.nil_append, List.mem_cons, List.not_mem_nil, or_false] at ha
  rcases ha with rfl | rfl | rfl | rfl | rfl | rfl | rfl | rfl
  · exact ⟨_, Pauli.X, rfl, by decide, Or.inl rfl⟩
  · exact ⟨_, Pauli.X, rfl, by decide, Or.inr (Or.inl rfl)⟩
  · exact ⟨_, Pauli.X, rfl, by decide, Or.inr (Or.inr (Or.inl rfl))⟩
  · exact ⟨_, Pauli.X, rfl, by decide, Or.inr (Or.inr (Or.inr rfl))⟩
  · exact ⟨_, Pauli.Z, rfl, by decide, Or.inr (Or.inr (Or.inl rfl))⟩
  · exact ⟨_, Pauli.Z, rfl, by decide, Or.inr (Or.inr (Or.inr rfl))⟩
  · exact ⟨_, Pauli.Z, rfl, by decide, Or.inl rfl⟩
  · exact ⟨_, Pauli.Z, rfl, by decide, Or.inr (Or.inl rfl)⟩

theorem line_nodup {L : Nat} {K : List Coord} (h : K = k3 L ∨ K = k7 L ∨ K = r5 L ∨ K = r1 L) :
    K.Nodup := by
  rcases h with rfl | rfl | rfl | rfl
  · exact nodup_k3 L
  · exact nodup_k7 L
  · exact nodup_r5 L
  · exact nodup_r1 L

theorem line_qubits {L : Nat} {K : List Coord} (h : K = k3 L ∨ K = k7 L ∨ K = r5 L ∨ K = r1 L) :
    ∀ q ∈ K, q ∈ qubits L L := by
  rcases h with rfl | rfl | rfl | rfl <;> exact filter_qubits

theorem line_face_even {L : Nat} (hL : 1 ≤ L) {K : List Coord}
    (h : K = k3 L ∨ K = k7 L ∨ K = r5 L ∨ K = r1 L) {x y : Int} (hf : IsF L x y) :
    interCount (supp L x y) K % 2 = 0 := by
  rcases h with rfl | rfl | rfl | rfl
  · exact supp_line_even hL hf _ _ (mem_k3 hL) (πx_col 3)
  · exact supp_line_even hL hf _ _ (mem_k7 hL) (πx_col 7)
  · exact supp_line_even hL hf _ _ (mem_r5 hL) (πy_row 5)
  · exact supp_line_even hL hf _ _ (mem_r1 hL) (πy_row 1)

theorem stab_comm {L : Nat} (hL : 1 ≤ L) :
    ∀ s ∈ (lattice L L).stabs, ∀ t ∈ (lattice L L).stabs,
      opCommute ((lattice L L).getStab s) ((lattice L L).getStab t) = true := by
  intro s hs t ht
  obtain ⟨ax, ay, p, rfl, ha, _⟩ := mem_stabs.mp hs
  obtain ⟨bx, by', p', rfl, hb, _⟩ := mem_stabs.mp ht
  rw [getStab_eq hL hs, getStab_eq hL ht]
  apply opCommute_const_of
  intro _
  exact face_face_even hL ha hb

theorem log_comm {L : Nat} (hL : 1 ≤ L) :
    ∀ a ∈ logX L L ++ logZ L L, ∀ s ∈ (lattice L L).stabs,
      opCommute a ((lattice L L).getStab s) = true := by
  intro a ha s hs
  obtain ⟨x, y, p, rfl, h, _⟩ := mem_stabs.mp hs
  obtain ⟨K, P, rfl, _, hK⟩ := log_mem ha
  rw [getStab_eq hL hs]
  apply opCommute_const_of; intro _
  rw [interCount_comm _ _ (line_nodup hK) (nodup_supp hL ..)]
  exact line_face_even hL hK h

theorem pairing {L : Nat} (hL : 1 ≤ L) :
    ∀ i j, i < (lattice L L).logX.length → j < (lattice L L).logZ.length →
      opAntiCount ((lattice L L).logX.getD i []) ((lattice L L).logZ.getD j []) % 2
        = if i = j then 1 else 0 := by
  intro i j hi hj
  change i < (logX L L).length at hi
  change j < (logZ L L).length at hj
  show opAntiCount ((logX L L).getD i []) ((logZ L L).getD j []) % 2 = _
  rw [logX_eq] at hi ⊢
  rw [logZ_eq] at hj ⊢
  simp only [List.length_cons, List.length_nil] at hi hj
  have hXZ : Pauli.anti Pauli.X Pauli.Z = true := by decide
  have e3 := length_k3 hL; have e7 := length_k7 hL; have e5 := length_r5 hL; have e1 := length_r1 hL
  obtain rfl | rfl | rfl | rfl : i = 0 ∨ i = 1 ∨ i = 2 ∨ i = 3 := by omega
  · obtain rfl | rfl | rfl | rfl : j = 0 ∨ j = 1 ∨ j = 2 ∨ j = 3 := by omega
    · simp only [List.getD_cons_zero, List.getD_cons_succ, opAntiCount_const, hXZ, if_true]
      rw [k3_r5 hL]
    · simp only [List.getD_cons_zero, List.getD_cons_succ, opAntiCount_const, hXZ, if_true]
      rw [k3_r1 hL]; rfl
    · simp only [List.getD_cons_zero, List.getD_cons_succ, opAntiCount_const, hXZ, if_true]
      rw [interCount_self, e3]; simp
    · simp only [List.getD_cons_zero, List.getD_cons_succ, opAntiCount_const, hXZ, if_true]
      rw [k3_k7 hL]; rfl
  · obtain rfl | rfl | rfl | rfl : j = 0 ∨ j = 1 ∨ j = 2 ∨ j = 3 := by omega
    · simp only [List.getD_cons_zero, List.getD_cons_succ, opAntiCount_const, hXZ, if_true]
      rw [k7_r5 hL]; rfl
    · simp only [List.getD_cons_zero, List.getD_cons_succ, opAntiCount_const, hXZ, if_true]
      rw [k7_r1 hL]
    · simp only [List.getD_cons_zero, List.getD_cons_succ, opAntiCount_const, hXZ, if_true]
      rw [k7_k3 hL]; rfl
    · simp only [List.getD_cons_zero, List.getD_cons_succ, opAntiCount_const, hXZ, if_true]
      rw [interCount_self, e7]; simp
  · obtain rfl | rfl | rfl | rfl : j = 0 ∨ j = 1 ∨ j = 2 ∨ j = 3 := by omega
    · simp only [List.getD_cons_zero, List.getD_cons_succ, opAntiCount_const, hXZ, if_true]
      rw [interCount_self, e5]; simp
    · simp only [List.getD_cons_zero, List.getD_cons_succ, opAntiCount_const, hXZ, if_true]
      rw [r5_r1 hL]; rfl
    · simp only [List.getD_cons_zero, List.getD_cons_succ, opAntiCount_const, hXZ, if_true]
      rw [r5_k3 hL]
    · simp only [List.getD_cons_zero, List.getD_cons_succ, opAntiCount_const, hXZ, if_true]
      rw [r5_k7 hL]; rfl
  · obtain rfl | rfl | rfl | rfl : j = 0 ∨ j = 1 ∨ j = 2 ∨ j = 3 := by omega
    · simp only [List.getD_cons_zero, List.getD_cons_succ, opAntiCount_const, hXZ, if_true]
      rw [r1_r5 hL]; rfl
    · simp only [List.getD_cons_zero, List.getD_cons_succ, opAntiCount_const, hXZ, if_true]
      rw [interCount_self, e1]; simp
    · simp only [List.getD_cons_zero, List.getD_cons_succ, opAntiCount_const, hXZ, if_true]
      rw [r1_k3 hL]; rfl
    · simp only [List.getD_cons_zero, List.getD_cons_succ, opAntiCount_const, hXZ, if_true]
      rw [r1_k7 hL]

theorem same_letter_comm {L : Nat} (P : Pauli) (l : List Op)
    (hl : ∀ a ∈ l, ∃ K : List Coord, a = K.map (fun q => (q, P))) :
    ∀ a ∈ l, ∀ b ∈ l, opCommute a b = true := by
  intro a ha b hb
  obtain ⟨K, rfl⟩ := hl a ha
  obtain ⟨K', rfl⟩ := hl b hb
  exact opCommute_same _ _ _

theorem commPair_all {L : Nat} (hL : 1 ≤ L) : (lattice L L).CommPair where
  stab_comm := stab_comm hL
  logX_comm := fun a ha s hs => log_comm hL a (List.mem_append_left _ ha) s hs
  logZ_comm := fun a ha s hs => log_comm hL a (List.mem_append_right _ ha) s hs
  same_k := rfl
  pairing := pairing hL
  logXX := by
    apply same_letter_comm (L := L) Pauli.X
    intro a ha
    change a ∈ logX L L at ha
    rw [logX_eq] at ha
    simp only [List.mem_cons, List.not_mem_nil, or_false] at ha
    rcases ha with rfl | rfl | rfl | rfl <;> exact ⟨_, rfl⟩
  logZZ := by
    apply same_letter_comm (L := L) Pauli.Z
    intro a ha
    change a ∈ logZ L L at ha
    rw [logZ_eq] at ha
    simp only [List.mem_cons, List.not_mem_nil, or_false] at ha
    rcases ha with rfl | rfl | rfl | rfl <;> exact ⟨_, rfl⟩

theorem wf_all {L : Nat} (hL : 1 ≤ L) : (lattice L L).WF where
  qubits_nodup := nodup_qubits L
  stabs_nodup := nodup_stabs L
  disjoint := qubits_stabs_disjoint hL
  stab_keys := by
    intro s hs
    obtain ⟨x, y, p, rfl, h, _⟩ := mem_stabs.mp hs
    rw [getStab_eq hL hs, map_fst_const]
    exact nodup_supp hL ..
  stab_supported := by
    intro s hs e he
    obtain ⟨x, y, p, rfl, h, _⟩ := mem_stabs.mp hs
    rw [getStab_eq hL hs] at he
    simp only [List.mem_map] at he
    obtain ⟨q, hq, rfl⟩ := he
    exact ⟨(mem_qubits_faces hL).mpr ⟨x, y, h, hq⟩, letter_ne_I p⟩
  stab_nonempty := by
    intro s hs
    obtain ⟨x, y, p, rfl, h, _⟩ := mem_stabs.mp hs
    rw [getStab_eq hL hs]
    intro hnil
    exact supp_nonempty L x y (List.map_eq_nil_iff.mp hnil)
  log_keys := by
    intro a ha
    obtain ⟨K, P, rfl, _, hK⟩ := log_mem ha
    rw [map_fst_const]; exact line_nodup hK
  log_supported := by
    intro a ha e he
    obtain ⟨K, P, rfl, hP, hK⟩ := log_mem ha
    simp only [List.mem_map] at he
    obtain ⟨q, hq, rfl⟩ := he
    exact ⟨line_qubits hK q hq, hP⟩

/-! ### sizes -/

theorem length_range4 (L : Nat) : (pyRangeStep 0 (8 * (L : Int) + 4) 4).length = 2 * L + 1 := by
  unfold pyRangeStep
  simp only [List.length_map, List.length_range']
  omega

/-- `n_stabilizers = 2(2L+1)²` (the seam rows are listed twice) -/
theorem length_stabs (L : Nat) : (stabs L L).length = 2 * ((2 * L + 1) * (2 * L + 1)) := by
  unfold stabs faces
  rw [Color666PlanarCode.length_both, length_grid, length_range4]

/-- the eight qubits of the unit cell `(i, j)` -/
def cell (i j : Nat) : List Coord :=
  [[8 * (i : Int) + 1, 8 * (j : Int) + 1], [8 * (i : Int) + 1, 8 * (j : Int) + 7],
   [8 * (i : Int) + 7, 8 * (j : Int) + 1], [8 * (i : Int) + 7, 8 * (j : Int) + 7],
   [8 * (i : Int) + 3, 8 * (j : Int) + 3], [8 * (i : Int) + 3, 8 * (j : Int) + 5],
   [8 * (i : Int) + 5, 8 * (j : Int) + 3], [8 * (i : Int) + 5, 8 * (j : Int) + 5]]

def niceQubits (L : Nat) : List Coord :=
  (List.range L).flatMap fun i => (List.range L).flatMap fun j => cell i j

theorem mem_cell {i j : Nat} {q : Coord} : q ∈ cell i j ↔ ∃ a b, q = [a, b] ∧
    8 * (i : Int) ≤ a ∧ a < 8 * (i : Int) + 8 ∧ 8 * (j : Int) ≤ b ∧ b < 8 * (j : Int) + 8 ∧
    (((a % 8 = 1 ∨ a % 8 = 7) ∧ (b % 8 = 1 ∨ b % 8 = 7)) ∨
     ((a % 8 = 3 ∨ a % 8 = 5) ∧ (b % 8 = 3 ∨ b % 8 = 5))) := by
  unfold cell
  simp only [List.mem_cons, List.not_mem_nil, or_false]
  constructor
  · rintro (rfl | rfl | rfl | rfl | rfl | rfl | rfl | rfl) <;> exact ⟨_, _, rfl, by omega⟩
  · rintro ⟨a, b, rfl, h1, h2, h3, h4, h⟩
    simp only [List.cons.injEq, and_true]
    rcases h with ⟨ha | ha, hb | hb⟩ | ⟨ha | ha, hb | hb⟩
    · exact Or.inl ⟨by omega, by omega⟩
    · exact Or.inr (Or.inl ⟨by omega, by omega⟩)
    · exact Or.inr (Or.inr (Or.inl ⟨by omega, by omega⟩))
    · exact Or.inr (Or.inr (Or.inr (Or.inl ⟨by omega, by omega⟩)))
    · exact Or.inr (Or.inr (Or.inr (Or.inr (Or.inl ⟨by omega, by omega⟩))))
    · exact Or.inr (Or.inr (Or.inr (Or.inr (Or.inr (Or.inl ⟨by omega, by omega⟩)))))
    · exact Or.inr (Or.inr (Or.inr (Or.inr (Or.inr (Or.inr (Or.inl ⟨by omega, by omega⟩))))))
    · exact Or.inr (Or.inr (Or.inr (Or.inr (Or.inr (Or.inr (Or.inr ⟨by omega, by omega⟩))))))

theorem nodup_cell (i j : Nat) : (cell i j).Nodup := by
  unfold cell
  simp only [List.nodup_cons, List.mem_cons, List.cons.injEq, and_true, List.not_mem_nil,
    or_false, not_false_eq_true, List.nodup_nil]
  omega

theorem mem_niceQubits {L : Nat} (hL : 1 ≤ L) {q : Coord} : q ∈ niceQubits L ↔ q ∈ qubits L L := by
  unfold niceQubits
  simp only [List.mem_flatMap, List.mem_range]
  rw [mem_qubits hL]
  constructor
  · rintro ⟨i, hi, j, hj, hq⟩
    obtain ⟨a, b, rfl, h⟩ := mem_cell.mp hq
    exact ⟨a, b, rfl, by unfold IsQ; omega⟩
  · rintro ⟨a, b, rfl, h⟩
    unfold IsQ at h
    exact ⟨(a / 8).toNat, by omega, (b / 8).toNat, by omega,
      mem_cell.mpr ⟨a, b, rfl, by omega⟩⟩

theorem nodup_niceQubits (L : Nat) : (niceQubits L).Nodup := by
  unfold niceQubits
  apply Color666PlanarCode.nodup_blocks
  · intro i
    apply Color666PlanarCode.nodup_blocks
    · intro j; exact nodup_cell i j
    · intro j j' _ _ hjj q hq hr
      obtain ⟨a, b, rfl, h⟩ := mem_cell.mp hq
      obtain ⟨a', b', e, h'⟩ := mem_cell.mp hr
      simp only [List.cons.injEq, and_true] at e
      omega
  · intro i i' _ _ hii q hq hr
    simp only [List.mem_flatMap, List.mem_range] at hq hr
    obtain ⟨j, _, hq⟩ := hq
    obtain ⟨j', _, hr⟩ := hr
    obtain ⟨a, b, rfl, h⟩ := mem_cell.mp hq
    obtain ⟨a', b', e, h'⟩ := mem_cell.mp hr
    simp only [List.cons.injEq, and_true] at e
    omega

/-- `n = 8L²` -/
theorem length_qubits {L : Nat} (hL : 1 ≤ L) : (qubits L L).length = 8 * (L * L) := by
  rw [← length_eq_of_mem_iff (nodup_niceQubits L) (nodup_qubits L) (fun q => mem_niceQubits hL)]
  unfold niceQubits
  rw [length_flatMap_range _ (fun _ => 8 * L) (fun i => by
    rw [length_flatMap_range _ (fun _ => 8) (fun j => rfl), Color666PlanarCode.sum_const]),
    Color666PlanarCode.sum_const, Nat.mul_assoc]

end Panqec.Color488Code
