/-
Color488Code, all sizes `Lx, Ly ≥ 1`: assembly of `Lattice.WF` and `Lattice.CommPair`, and the
size formulas `n = 8·Lx·Ly`, `n_stabilizers = 2(2Lx+1)(2Ly+1)`.  Core Lean only.
-/
import PanqecVerif.Proofs.LatColor488CodeD

set_option linter.unusedVariables false
set_option linter.unusedSimpArgs false

namespace Panqec.Color488Code
open Panqec.Lat2D Panqec.Color

theorem logX_eq (Lx Ly : Nat) : logX Lx Ly =
    [(k3 Lx Ly).map (fun q => (q, Pauli.X)), (k7 Lx Ly).map (fun q => (q, Pauli.X)),
     (r5 Lx Ly).map (fun q => (q, Pauli.X)), (r1 Lx Ly).map (fun q => (q, Pauli.X))] := by
  show [collect (col3 Ly) (isQubit Lx Ly) Pauli.X, collect (col7 Ly) (isQubit Lx Ly) Pauli.X,
    collect (row5 Lx) (isQubit Lx Ly) Pauli.X, collect (row1 Lx) (isQubit Lx Ly) Pauli.X] = _
  rw [collect_eq _ _ _ (nodup_col3 Ly), collect_eq _ _ _ (nodup_col7 Ly),
    collect_eq _ _ _ (nodup_row5 Lx), collect_eq _ _ _ (nodup_row1 Lx)]; rfl

theorem logZ_eq (Lx Ly : Nat) : logZ Lx Ly =
    [(r5 Lx Ly).map (fun q => (q, Pauli.Z)), (r1 Lx Ly).map (fun q => (q, Pauli.Z)),
     (k3 Lx Ly).map (fun q => (q, Pauli.Z)), (k7 Lx Ly).map (fun q => (q, Pauli.Z))] := by
  show [collect (row5 Lx) (isQubit Lx Ly) Pauli.Z, collect (row1 Lx) (isQubit Lx Ly) Pauli.Z,
    collect (col3 Ly) (isQubit Lx Ly) Pauli.Z, collect (col7 Ly) (isQubit Lx Ly) Pauli.Z] = _
  rw [collect_eq _ _ _ (nodup_col3 Ly), collect_eq _ _ _ (nodup_col7 Ly),
    collect_eq _ _ _ (nodup_row5 Lx), collect_eq _ _ _ (nodup_row1 Lx)]; rfl

/-- every logical operator is a single letter on one of the four lines -/
theorem log_mem {Lx Ly : Nat} {a : Op} (ha : a ∈ logX Lx Ly ++ logZ Lx Ly) :
    ∃ (K : List Coord) (P : Pauli), a = K.map (fun q => (q, P)) ∧ P ≠ Pauli.I ∧
      (K = k3 Lx Ly ∨ K = k7 Lx Ly ∨ K = r5 Lx Ly ∨ K = r1 Lx Ly) := by
  rw [logX_eq, logZ_eq] at ha
  simp only [List.cons_append, List.nil_append, List.mem_cons, List.not_mem_nil, or_false] at ha
  rcases ha with rfl | rfl | rfl | rfl | rfl | rfl | rfl | rfl
  · exact ⟨_, Pauli.X, rfl, by decide, Or.inl rfl⟩
  · exact ⟨_, Pauli.X, rfl, by decide, Or.inr (Or.inl rfl)⟩
  · exact ⟨_, Pauli.X, rfl, by decide, Or.inr (Or.inr (Or.inl rfl))⟩
  · exact ⟨_, Pauli.X, rfl, by decide, Or.inr (Or.inr (Or.inr rfl))⟩
  · exact ⟨_, Pauli.Z, rfl, by decide, Or.inr (Or.inr (Or.inl rfl))⟩
  · exact ⟨_, Pauli.Z, rfl, by decide, Or.inr (Or.inr (Or.inr rfl))⟩
  · exact ⟨_, Pauli.Z, rfl, by decide, Or.inl rfl⟩
  · exact ⟨_, Pauli.Z, rfl, by decide, Or.inr (Or.inl rfl)⟩

theorem line_nodup {Lx Ly : Nat} {K : List Coord} (h : K = k3 Lx Ly ∨ K = k7 Lx Ly ∨ K = r5 Lx Ly ∨ K = r1 Lx Ly) :
    K.Nodup := by
  rcases h with rfl | rfl | rfl | rfl
  · exact nodup_k3 Lx Ly
  · exact nodup_k7 Lx Ly
  · exact nodup_r5 Lx Ly
  · exact nodup_r1 Lx Ly

theorem line_qubits {Lx Ly : Nat} {K : List Coord} (h : K = k3 Lx Ly ∨ K = k7 Lx Ly ∨ K = r5 Lx Ly ∨ K = r1 Lx Ly) :
    ∀ q ∈ K, q ∈ qubits Lx Ly := by
  rcases h with rfl | rfl | rfl | rfl <;> exact filter_qubits

theorem line_face_even {Lx Ly : Nat} (hx : 1 ≤ Lx) (hy : 1 ≤ Ly) {K : List Coord}
    (h : K = k3 Lx Ly ∨ K = k7 Lx Ly ∨ K = r5 Lx Ly ∨ K = r1 Lx Ly) {x y : Int} (hf : IsF Lx Ly x y) :
    interCount (supp Lx Ly x y) K % 2 = 0 := by
  rcases h with rfl | rfl | rfl | rfl
  · exact supp_line_even hx hy hf _ _ (mem_k3 hx hy) (πx_col 3)
  · exact supp_line_even hx hy hf _ _ (mem_k7 hx hy) (πx_col 7)
  · exact supp_line_even hx hy hf _ _ (mem_r5 hx hy) (πy_row 5)
  · exact supp_line_even hx hy hf _ _ (mem_r1 hx hy) (πy_row 1)

theorem stab_comm {Lx Ly : Nat} (hx : 1 ≤ Lx) (hy : 1 ≤ Ly) :
    ∀ s ∈ (lattice Lx Ly).stabs, ∀ t ∈ (lattice Lx Ly).stabs,
      opCommute ((lattice Lx Ly).getStab s) ((lattice Lx Ly).getStab t) = true := by
  intro s hs t ht
  obtain ⟨ax, ay, p, rfl, ha, _⟩ := mem_stabs.mp hs
  obtain ⟨bx, by', p', rfl, hb, _⟩ := mem_stabs.mp ht
  rw [getStab_eq hx hy hs, getStab_eq hx hy ht]
  apply opCommute_const_of
  intro _
  exact face_face_even hx hy ha hb

theorem log_comm {Lx Ly : Nat} (hx : 1 ≤ Lx) (hy : 1 ≤ Ly) :
    ∀ a ∈ logX Lx Ly ++ logZ Lx Ly, ∀ s ∈ (lattice Lx Ly).stabs,
      opCommute a ((lattice Lx Ly).getStab s) = true := by
  intro a ha s hs
  obtain ⟨x, y, p, rfl, h, _⟩ := mem_stabs.mp hs
  obtain ⟨K, P, rfl, _, hK⟩ := log_mem ha
  rw [getStab_eq hx hy hs]
  apply opCommute_const_of; intro _
  rw [interCount_comm _ _ (line_nodup hK) (nodup_supp hx hy ..)]
  exact line_face_even hx hy hK h

theorem pairing {Lx Ly : Nat} (hx : 1 ≤ Lx) (hy : 1 ≤ Ly) :
    ∀ i j, i < (lattice Lx Ly).logX.length → j < (lattice Lx Ly).logZ.length →
      opAntiCount ((lattice Lx Ly).logX.getD i []) ((lattice Lx Ly).logZ.getD j []) % 2
        = if i = j then 1 else 0 := by
  intro i j hi hj
  change i < (logX Lx Ly).length at hi
  change j < (logZ Lx Ly).length at hj
  show opAntiCount ((logX Lx Ly).getD i []) ((logZ Lx Ly).getD j []) % 2 = _
  rw [logX_eq] at hi ⊢
  rw [logZ_eq] at hj ⊢
  simp only [List.length_cons, List.length_nil] at hi hj
  have hXZ : Pauli.anti Pauli.X Pauli.Z = true := by decide
  have e3 := length_k3 hx hy; have e7 := length_k7 hx hy; have e5 := length_r5 hx hy; have e1 := length_r1 hx hy
  obtain rfl | rfl | rfl | rfl : i = 0 ∨ i = 1 ∨ i = 2 ∨ i = 3 := by omega
  · obtain rfl | rfl | rfl | rfl : j = 0 ∨ j = 1 ∨ j = 2 ∨ j = 3 := by omega
    · simp only [List.getD_cons_zero, List.getD_cons_succ, opAntiCount_const, hXZ, if_true]
      rw [k3_r5 hx hy]
    · simp only [List.getD_cons_zero, List.getD_cons_succ, opAntiCount_const, hXZ, if_true]
      rw [k3_r1 hx hy]; rfl
    · simp only [List.getD_cons_zero, List.getD_cons_succ, opAntiCount_const, hXZ, if_true]
      rw [interCount_self, e3]; simp
    · simp only [List.getD_cons_zero, List.getD_cons_succ, opAntiCount_const, hXZ, if_true]
      rw [k3_k7 hx hy]; rfl
  · obtain rfl | rfl | rfl | rfl : j = 0 ∨ j = 1 ∨ j = 2 ∨ j = 3 := by omega
    · simp only [List.getD_cons_zero, List.getD_cons_succ, opAntiCount_const, hXZ, if_true]
      rw [k7_r5 hx hy]; rfl
    · simp only [List.getD_cons_zero, List.getD_cons_succ, opAntiCount_const, hXZ, if_true]
      rw [k7_r1 hx hy]
    · simp only [List.getD_cons_zero, List.getD_cons_succ, opAntiCount_const, hXZ, if_true]
      rw [k7_k3 hx hy]; rfl
    · simp only [List.getD_cons_zero, List.getD_cons_succ, opAntiCount_const, hXZ, if_true]
      rw [interCount_self, e7]; simp
  · obtain rfl | rfl | rfl | rfl : j = 0 ∨ j = 1 ∨ j = 2 ∨ j = 3 := by omega
    · simp only [List.getD_cons_zero, List.getD_cons_succ, opAntiCount_const, hXZ, if_true]
      rw [interCount_self, e5]; simp
    · simp only [List.getD_cons_zero, List.getD_cons_succ, opAntiCount_const, hXZ, if_true]
      rw [r5_r1 hx hy]; rfl
    · simp only [List.getD_cons_zero, List.getD_cons_succ, opAntiCount_const, hXZ, if_true]
      rw [r5_k3 hx hy]
    · simp only [List.getD_cons_zero, List.getD_cons_succ, opAntiCount_const, hXZ, if_true]
      rw [r5_k7 hx hy]; rfl
  · obtain rfl | rfl | rfl | rfl : j = 0 ∨ j = 1 ∨ j = 2 ∨ j = 3 := by omega
    · simp only [List.getD_cons_zero, List.getD_cons_succ, opAntiCount_const, hXZ, if_true]
      rw [r1_r5 hx hy]; rfl
    · simp only [List.getD_cons_zero, List.getD_cons_succ, opAntiCount_const, hXZ, if_true]
      rw [interCount_self, e1]; simp
    · simp only [List.getD_cons_zero, List.getD_cons_succ, opAntiCount_const, hXZ, if_true]
      rw [r1_k3 hx hy]; rfl
    · simp only [List.getD_cons_zero, List.getD_cons_succ, opAntiCount_const, hXZ, if_true]
      rw [r1_k7 hx hy]

theorem same_letter_comm {Lx Ly : Nat} (P : Pauli) (l : List Op)
    (hl : ∀ a ∈ l, ∃ K : List Coord, a = K.map (fun q => (q, P))) :
    ∀ a ∈ l, ∀ b ∈ l, opCommute a b = true := by
  intro a ha b hb
  obtain ⟨K, rfl⟩ := hl a ha
  obtain ⟨K', rfl⟩ := hl b hb
  exact opCommute_same _ _ _

theorem commPair_all {Lx Ly : Nat} (hx : 1 ≤ Lx) (hy : 1 ≤ Ly) : (lattice Lx Ly).CommPair where
  stab_comm := stab_comm hx hy
  logX_comm := fun a ha s hs => log_comm hx hy a (List.mem_append_left _ ha) s hs
  logZ_comm := fun a ha s hs => log_comm hx hy a (List.mem_append_right _ ha) s hs
  same_k := rfl
  pairing := pairing hx hy
  logXX := by
    apply same_letter_comm (Lx := Lx) (Ly := Ly) Pauli.X
    intro a ha
    change a ∈ logX Lx Ly at ha
    rw [logX_eq] at ha
    simp only [List.mem_cons, List.not_mem_nil, or_false] at ha
    rcases ha with rfl | rfl | rfl | rfl <;> exact ⟨_, rfl⟩
  logZZ := by
    apply same_letter_comm (Lx := Lx) (Ly := Ly) Pauli.Z
    intro a ha
    change a ∈ logZ Lx Ly at ha
    rw [logZ_eq] at ha
    simp only [List.mem_cons, List.not_mem_nil, or_false] at ha
    rcases ha with rfl | rfl | rfl | rfl <;> exact ⟨_, rfl⟩

theorem wf_all {Lx Ly : Nat} (hx : 1 ≤ Lx) (hy : 1 ≤ Ly) : (lattice Lx Ly).WF where
  qubits_nodup := nodup_qubits Lx Ly
  stabs_nodup := nodup_stabs Lx Ly
  disjoint := qubits_stabs_disjoint hx hy
  stab_keys := by
    intro s hs
    obtain ⟨x, y, p, rfl, h, _⟩ := mem_stabs.mp hs
    rw [getStab_eq hx hy hs, map_fst_const]
    exact nodup_supp hx hy ..
  stab_supported := by
    intro s hs e he
    obtain ⟨x, y, p, rfl, h, _⟩ := mem_stabs.mp hs
    rw [getStab_eq hx hy hs] at he
    simp only [List.mem_map] at he
    obtain ⟨q, hq, rfl⟩ := he
    exact ⟨(mem_qubits_faces hx hy).mpr ⟨x, y, h, hq⟩, letter_ne_I p⟩
  stab_nonempty := by
    intro s hs
    obtain ⟨x, y, p, rfl, h, _⟩ := mem_stabs.mp hs
    rw [getStab_eq hx hy hs]
    intro hnil
    exact supp_nonempty Lx Ly x y (List.map_eq_nil_iff.mp hnil)
  log_keys := by
    intro a ha
    obtain ⟨K, P, rfl, _, hK⟩ := log_mem ha
    rw [map_fst_const]; exact line_nodup hK
  log_supported := by
    intro a ha e he
    obtain ⟨K, P, rfl, hP, hK⟩ := log_mem ha
    simp only [List.mem_map] at he
    obtain ⟨q, hq, rfl⟩ := he
    exact ⟨line_qubits hK q hq, hP⟩

/-! ### sizes -/

theorem length_range4 (L : Nat) : (pyRangeStep 0 (8 * (L : Int) + 4) 4).length = 2 * L + 1 := by
  unfold pyRangeStep
  simp only [List.length_map, List.length_range']
  omega

/-- `n_stabilizers = 2(2Lx+1)(2Ly+1)` (the seam rows are listed twice) -/
theorem length_stabs (Lx Ly : Nat) : (stabs Lx Ly).length = 2 * ((2 * Lx + 1) * (2 * Ly + 1)) := by
  unfold stabs faces
  rw [Color666PlanarCode.length_both, length_grid, length_range4, length_range4]

/-- the eight qubits of the unit cell `(i, j)` -/
def cell (i j : Nat) : List Coord :=
  [[8 * (i : Int) + 1, 8 * (j : Int) + 1], [8 * (i : Int) + 1, 8 * (j : Int) + 7],
   [8 * (i : Int) + 7, 8 * (j : Int) + 1], [8 * (i : Int) + 7, 8 * (j : Int) + 7],
   [8 * (i : Int) + 3, 8 * (j : Int) + 3], [8 * (i : Int) + 3, 8 * (j : Int) + 5],
   [8 * (i : Int) + 5, 8 * (j : Int) + 3], [8 * (i : Int) + 5, 8 * (j : Int) + 5]]

def niceQubits (Lx Ly : Nat) : List Coord :=
  (List.range Lx).flatMap fun i => (List.range Ly).flatMap fun j => cell i j

theorem mem_cell {i j : Nat} {q : Coord} : q ∈ cell i j ↔ ∃ a b, q = [a, b] ∧
    8 * (i : Int) ≤ a ∧ a < 8 * (i : Int) + 8 ∧ 8 * (j : Int) ≤ b ∧ b < 8 * (j : Int) + 8 ∧
    (((a % 8 = 1 ∨ a % 8 = 7) ∧ (b % 8 = 1 ∨ b % 8 = 7)) ∨
     ((a % 8 = 3 ∨ a % 8 = 5) ∧ (b % 8 = 3 ∨ b % 8 = 5))) := by
  unfold cell
  simp only [List.mem_cons, List.not_mem_nil, or_false]
  constructor
  · rintro (rfl | rfl | rfl | rfl | rfl | rfl | rfl | rfl) <;> exact ⟨_, _, rfl, by omega⟩
  · rintro ⟨a, b, rfl, h1, h2, h3, h4, h⟩
    simp only [List.cons.injEq, and_true]
    rcases h with ⟨ha | ha, hb | hb⟩ | ⟨ha | ha, hb | hb⟩
    · exact Or.inl ⟨by omega, by omega⟩
    · exact Or.inr (Or.inl ⟨by omega, by omega⟩)
    · exact Or.inr (Or.inr (Or.inl ⟨by omega, by omega⟩))
    · exact Or.inr (Or.inr (Or.inr (Or.inl ⟨by omega, by omega⟩)))
    · exact Or.inr (Or.inr (Or.inr (Or.inr (Or.inl ⟨by omega, by omega⟩))))
    · exact Or.inr (Or.inr (Or.inr (Or.inr (Or.inr (Or.inl ⟨by omega, by omega⟩)))))
    · exact Or.inr (Or.inr (Or.inr (Or.inr (Or.inr (Or.inr (Or.inl ⟨by omega, by omega⟩))))))
    · exact Or.inr (Or.inr (Or.inr (Or.inr (Or.inr (Or.inr (Or.inr ⟨by omega, by omega⟩))))))

theorem nodup_cell (i j : Nat) : (cell i j).Nodup := by
  unfold cell
  simp only [List.nodup_cons, List.mem_cons, List.cons.injEq, and_true, List.not_mem_nil,
    or_false, not_false_eq_true, List.nodup_nil]
  omega

theorem mem_niceQubits {Lx Ly : Nat} (hx : 1 ≤ Lx) (hy : 1 ≤ Ly) {q : Coord} : q ∈ niceQubits Lx Ly ↔ q ∈ qubits Lx Ly := by
  unfold niceQubits
  simp only [List.mem_flatMap, List.mem_range]
  rw [mem_qubits hx hy]
  constructor
  · rintro ⟨i, hi, j, hj, hq⟩
    obtain ⟨a, b, rfl, h⟩ := mem_cell.mp hq
    exact ⟨a, b, rfl, by unfold IsQ; omega⟩
  · rintro ⟨a, b, rfl, h⟩
    unfold IsQ at h
    exact ⟨(a / 8).toNat, by omega, (b / 8).toNat, by omega,
      mem_cell.mpr ⟨a, b, rfl, by omega⟩⟩

theorem nodup_niceQubits (Lx Ly : Nat) : (niceQubits Lx Ly).Nodup := by
  unfold niceQubits
  apply Color666PlanarCode.nodup_blocks
  · intro i
    apply Color666PlanarCode.nodup_blocks
    · intro j; exact nodup_cell i j
    · intro j j' _ _ hjj q hq hr
      obtain ⟨a, b, rfl, h⟩ := mem_cell.mp hq
      obtain ⟨a', b', e, h'⟩ := mem_cell.mp hr
      simp only [List.cons.injEq, and_true] at e
      omega
  · intro i i' _ _ hii q hq hr
    simp only [List.mem_flatMap, List.mem_range] at hq hr
    obtain ⟨j, _, hq⟩ := hq
    obtain ⟨j', _, hr⟩ := hr
    obtain ⟨a, b, rfl, h⟩ := mem_cell.mp hq
    obtain ⟨a', b', e, h'⟩ := mem_cell.mp hr
    simp only [List.cons.injEq, and_true] at e
    omega

/-- `n = 8·Lx·Ly` -/
theorem length_qubits {Lx Ly : Nat} (hx : 1 ≤ Lx) (hy : 1 ≤ Ly) : (qubits Lx Ly).length = 8 * (Lx * Ly) := by
  rw [← length_eq_of_mem_iff (nodup_niceQubits Lx Ly) (nodup_qubits Lx Ly) (fun q => mem_niceQubits hx hy)]
  unfold niceQubits
  rw [length_flatMap_range _ (fun _ => 8 * Ly) (fun i => by
    rw [length_flatMap_range _ (fun _ => 8) (fun j => rfl), Color666PlanarCode.sum_const]),
    Color666PlanarCode.sum_const, Nat.mul_assoc, Nat.mul_comm Ly Lx]

end Panqec.Color488Code
