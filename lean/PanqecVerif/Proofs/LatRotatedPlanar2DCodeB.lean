/-
RotatedPlanar2DCode, all sizes: overlaps (vertex/face, logical/stabilizer, logical/logical).
Core Lean only.
-/
import PanqecVerif.Proofs.LatRotatedPlanar2DCodeA

set_option linter.unusedVariables false

namespace Panqec.RotatedPlanar2DCode
open Panqec.Lat2D

theorem vf1 {Lx Ly : Nat} {ax ay bx by' : Int} (ha : IsV Lx Ly ax ay) (hb : IsF Lx Ly bx by') :
    (isQubit Lx Ly [ax - 1, ay - 1] = true ∧ [ax - 1, ay - 1] ∈ supp Lx Ly bx by') ↔
      ((bx = ax ∧ by' = ay - 2) ∨ (bx = ax - 2 ∧ by' = ay)) := by
  unfold IsV at ha; unfold IsF at hb
  unfold supp; rw [List.mem_filter, isQubit_iff, mem_nbrs]; unfold IsQ
  constructor
  · rintro ⟨_, h | h | h | h, _⟩ <;> omega
  · rintro (h | h) <;> omega

theorem vf2 {Lx Ly : Nat} {ax ay bx by' : Int} (ha : IsV Lx Ly ax ay) (hb : IsF Lx Ly bx by') :
    (isQubit Lx Ly [ax - 1, ay + 1] = true ∧ [ax - 1, ay + 1] ∈ supp Lx Ly bx by') ↔
      ((bx = ax ∧ by' = ay + 2) ∨ (bx = ax - 2 ∧ by' = ay)) := by
  unfold IsV at ha; unfold IsF at hb
  unfold supp; rw [List.mem_filter, isQubit_iff, mem_nbrs]; unfold IsQ
  constructor
  · rintro ⟨_, h | h | h | h, _⟩ <;> omega
  · rintro (h | h) <;> omega

theorem vf3 {Lx Ly : Nat} {ax ay bx by' : Int} (ha : IsV Lx Ly ax ay) (hb : IsF Lx Ly bx by') :
    (isQubit Lx Ly [ax + 1, ay - 1] = true ∧ [ax + 1, ay - 1] ∈ supp Lx Ly bx by') ↔
      ((bx = ax ∧ by' = ay - 2) ∨ (bx = ax + 2 ∧ by' = ay)) := by
  unfold IsV at ha; unfold IsF at hb
  unfold supp; rw [List.mem_filter, isQubit_iff, mem_nbrs]; unfold IsQ
  constructor
  · rintro ⟨_, h | h | h | h, _⟩ <;> omega
  · rintro (h | h) <;> omega

theorem vf4 {Lx Ly : Nat} {ax ay bx by' : Int} (ha : IsV Lx Ly ax ay) (hb : IsF Lx Ly bx by') :
    (isQubit Lx Ly [ax + 1, ay + 1] = true ∧ [ax + 1, ay + 1] ∈ supp Lx Ly bx by') ↔
      ((bx = ax ∧ by' = ay + 2) ∨ (bx = ax + 2 ∧ by' = ay)) := by
  unfold IsV at ha; unfold IsF at hb
  unfold supp; rw [List.mem_filter, isQubit_iff, mem_nbrs]; unfold IsQ
  constructor
  · rintro ⟨_, h | h | h | h, _⟩ <;> omega
  · rintro (h | h) <;> omega

/-- a vertex and a face share 0 or 2 qubits: they are either edge-adjacent plaquettes of the
    checkerboard (two shared corners, both of which are qubits) or share nothing; corner
    adjacency is excluded by `(x + y) % 4` -/
theorem vertex_face_even {Lx Ly : Nat} {ax ay bx by' : Int}
    (ha : IsV Lx Ly ax ay) (hb : IsF Lx Ly bx by') :
    interCount (supp Lx Ly ax ay) (supp Lx Ly bx by') % 2 = 0 := by
  have key := interCount_filter4_iff [ax - 1, ay - 1] [ax - 1, ay + 1] [ax + 1, ay - 1]
    [ax + 1, ay + 1] (isQubit Lx Ly) (supp Lx Ly bx by') _ _ _ _
    (vf1 ha hb) (vf2 ha hb) (vf3 ha hb) (vf4 ha hb)
  show interCount ([[ax - 1, ay - 1], [ax - 1, ay + 1], [ax + 1, ay - 1],
    [ax + 1, ay + 1]].filter (isQubit Lx Ly)) (supp Lx Ly bx by') % 2 = 0
  rw [key]
  by_cases c1 : bx = ax ∧ by' = ay - 2
  · rw [if_pos (Or.inl c1), if_neg (by omega), if_pos (Or.inl c1), if_neg (by omega)]
  · by_cases c2 : bx = ax ∧ by' = ay + 2
    · rw [if_neg (by omega), if_pos (Or.inl c2), if_neg (by omega), if_pos (Or.inl c2)]
    · by_cases c3 : bx = ax - 2 ∧ by' = ay
      · rw [if_pos (Or.inr c3), if_pos (Or.inr c3), if_neg (by omega), if_neg (by omega)]
      · by_cases c4 : bx = ax + 2 ∧ by' = ay
        · rw [if_neg (by omega), if_neg (by omega), if_pos (Or.inr c4), if_pos (Or.inr c4)]
        · rw [if_neg (by omega), if_neg (by omega), if_neg (by omega), if_neg (by omega)]

def kX (Lx : Nat) : List Coord := (pyRange2 1 (2 * Lx + 1)).map fun x => [x, 1]
def kZ (Ly : Nat) : List Coord := (pyRange2 1 (2 * Ly + 1)).map fun y => [1, y]

theorem nodup_kX (L : Nat) : (kX L).Nodup :=
  nodup_map_pair _ (fun a b h => by simpa using h) (nodup_pyRange2 ..)
theorem nodup_kZ (L : Nat) : (kZ L).Nodup :=
  nodup_map_pair _ (fun a b h => by simpa using h) (nodup_pyRange2 ..)

theorem mem_kX {L : Nat} {a b : Int} :
    [a, b] ∈ kX L ↔ (1 ≤ a ∧ a < 2 * (L : Int) + 1 ∧ a % 2 = 1 ∧ b = 1) := by
  unfold kX
  simp only [List.mem_map, mem_pyRange2, List.cons.injEq, and_true]
  constructor
  · rintro ⟨x, hx, rfl, rfl⟩; omega
  · rintro ⟨h1, h2, h3, rfl⟩; exact ⟨a, by omega, rfl, rfl⟩
theorem mem_kZ {L : Nat} {a b : Int} :
    [a, b] ∈ kZ L ↔ (1 ≤ b ∧ b < 2 * (L : Int) + 1 ∧ b % 2 = 1 ∧ a = 1) := by
  unfold kZ
  simp only [List.mem_map, mem_pyRange2, List.cons.injEq, and_true]
  constructor
  · rintro ⟨x, hx, rfl, rfl⟩; omega
  · rintro ⟨h1, h2, h3, rfl⟩; exact ⟨b, by omega, rfl, rfl⟩

theorem logX_eq (Lx Ly : Nat) : logX Lx Ly = [(kX Lx).map (fun q => (q, Pauli.X))] := by
  show [lineOp (kX Lx) Pauli.X] = _
  rw [lineOp_eq _ _ (nodup_kX Lx)]
theorem logZ_eq (Lx Ly : Nat) : logZ Lx Ly = [(kZ Ly).map (fun q => (q, Pauli.Z))] := by
  show [lineOp (kZ Ly) Pauli.Z] = _
  rw [lineOp_eq _ _ (nodup_kZ Ly)]

theorem supp_kX {Lx Ly : Nat} {x y : Int} (hy : 1 ≤ Ly) (h : IsV Lx Ly x y) :
    interCount (supp Lx Ly x y) (kX Lx) % 2 = 0 := by
  unfold IsV at h
  have key := interCount_filter4_iff [x - 1, y - 1] [x - 1, y + 1] [x + 1, y - 1] [x + 1, y + 1]
    (isQubit Lx Ly) (kX Lx) (y = 2) (y = 0) (y = 2) (y = 0)
    (by rw [isQubit_iff, mem_kX]; unfold IsQ; omega)
    (by rw [isQubit_iff, mem_kX]; unfold IsQ; omega)
    (by rw [isQubit_iff, mem_kX]; unfold IsQ; omega)
    (by rw [isQubit_iff, mem_kX]; unfold IsQ; omega)
  show interCount ([[x - 1, y - 1], [x - 1, y + 1], [x + 1, y - 1],
    [x + 1, y + 1]].filter (isQubit Lx Ly)) (kX Lx) % 2 = 0
  rw [key]
  split <;> split <;> omega

theorem supp_kZ {Lx Ly : Nat} {x y : Int} (hx : 1 ≤ Lx) (h : IsF Lx Ly x y) :
    interCount (supp Lx Ly x y) (kZ Ly) % 2 = 0 := by
  unfold IsF at h
  have key := interCount_filter4_iff [x - 1, y - 1] [x - 1, y + 1] [x + 1, y - 1] [x + 1, y + 1]
    (isQubit Lx Ly) (kZ Ly) (x = 2) (x = 2) (x = 0) (x = 0)
    (by rw [isQubit_iff, mem_kZ]; unfold IsQ; omega)
    (by rw [isQubit_iff, mem_kZ]; unfold IsQ; omega)
    (by rw [isQubit_iff, mem_kZ]; unfold IsQ; omega)
    (by rw [isQubit_iff, mem_kZ]; unfold IsQ; omega)
  show interCount ([[x - 1, y - 1], [x - 1, y + 1], [x + 1, y - 1],
    [x + 1, y + 1]].filter (isQubit Lx Ly)) (kZ Ly) % 2 = 0
  rw [key]
  split <;> split <;> omega

theorem kX_kZ {Lx Ly : Nat} (hx : 1 ≤ Lx) (hy : 1 ≤ Ly) : interCount (kX Lx) (kZ Ly) = 1 := by
  unfold interCount
  apply countP_eq_one _ _ [1, 1] (nodup_kX Lx)
  · rw [mem_kX]; omega
  · simp only [List.contains_eq_mem, decide_eq_true_eq]; rw [mem_kZ]; omega
  · intro a ha h
    simp only [List.contains_eq_mem, decide_eq_true_eq] at h
    unfold kX at ha
    simp only [List.mem_map] at ha
    obtain ⟨x, _, rfl⟩ := ha
    rw [mem_kZ] at h
    rw [h.2.2.2]

end Panqec.RotatedPlanar2DCode
