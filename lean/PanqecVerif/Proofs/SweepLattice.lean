/-
Helper lemmas for the geometry part of C10: Python `range`/nested loops as lists
(membership, distinctness), `get_stabilizer` dict building, wrap-around arithmetic
(`%` by an even period as case distinctions usable by `omega`), and the reduction of
`flipOK` to a membership statement.
-/
import Mathlib.Data.List.Nodup
import PanqecVerif.Proofs.SweepGeneric

namespace Panqec.Sweep

set_option linter.unusedSimpArgs false

/-! ### ranges and nested loops -/

theorem mem_range2 (a b x : Int) : x ∈ range2 a b ↔ a ≤ x ∧ x < b ∧ (x - a) % 2 = 0 := by
  unfold range2
  simp only [List.mem_map, List.mem_range]
  constructor
  · rintro ⟨i, hi, rfl⟩
    have : (i : Int) < ((b - a + 1) / 2).toNat := by exact_mod_cast hi
    omega
  · intro ⟨h1, h2, h3⟩
    refine ⟨((x - a) / 2).toNat, ?_, ?_⟩
    · omega
    · omega

theorem nodup_range2 (a b : Int) : (range2 a b).Nodup := by
  unfold range2
  refine List.Nodup.map_on ?_ List.nodup_range
  intro i _ j _ h
  omega

theorem mem_prod3 (A B C : List Int) (l : Loc) :
    l ∈ prod3 A B C ↔ l.1 ∈ A ∧ l.2.1 ∈ B ∧ l.2.2 ∈ C := by
  obtain ⟨x, y, z⟩ := l
  unfold prod3
  simp only [List.mem_flatMap, List.mem_map, Prod.mk.injEq]
  constructor
  · rintro ⟨x', hx, y', hy, z', hz, rfl, rfl, rfl⟩
    exact ⟨hx, hy, hz⟩
  · rintro ⟨hx, hy, hz⟩
    exact ⟨x, hx, y, hy, z, hz, rfl, rfl, rfl⟩

theorem nodup_prod3 (A B C : List Int) (hA : A.Nodup) (hB : B.Nodup) (hC : C.Nodup) :
    (prod3 A B C).Nodup := by
  unfold prod3
  rw [List.nodup_flatMap]
  constructor
  · intro x _
    rw [List.nodup_flatMap]
    constructor
    · intro y _
      exact List.Nodup.map_on (fun a _ b _ h => by simpa using h) hC
    · refine List.Pairwise.imp ?_ hB
      intro y y' hne
      simp only [Function.onFun, List.disjoint_left, List.mem_map]
      rintro l ⟨z, _, rfl⟩ ⟨z', _, h⟩
      simp only [Prod.mk.injEq] at h
      exact hne h.2.1.symm
  · refine List.Pairwise.imp ?_ hA
    intro x x' hne
    simp only [Function.onFun, List.disjoint_left, List.mem_flatMap, List.mem_map]
    rintro l ⟨y, _, z, _, rfl⟩ ⟨y', _, z', _, h⟩
    simp only [Prod.mk.injEq] at h
    exact hne h.1.symm

theorem nodup_prod3_range (a1 b1 a2 b2 a3 b3 : Int) :
    (prod3 (range2 a1 b1) (range2 a2 b2) (range2 a3 b3)).Nodup :=
  nodup_prod3 _ _ _ (nodup_range2 _ _) (nodup_range2 _ _) (nodup_range2 _ _)

/-! ### building a stabilizer dict -/

theorem buildOp_foldl_eq (qs : List Loc) (cands acc : List (Loc × Pauli))
    (hq : ∀ c ∈ cands, qs.contains c.1 = true) (hnd : ((acc ++ cands).map Prod.fst).Nodup) :
    cands.foldl (fun op c => if qs.contains c.1 then dictSet op c.1 c.2 else op) acc = acc ++ cands := by
  induction cands generalizing acc with
  | nil => simp
  | cons c cands ih =>
    simp only [List.foldl_cons, hq c List.mem_cons_self, if_true]
    have hnot : acc.any (fun e => e.1 == c.1) = false := by
      rw [List.any_eq_false]
      intro e he
      simp only [beq_iff_eq]
      intro h
      rw [List.map_append, List.nodup_append] at hnd
      exact hnd.2.2 e.1 (List.mem_map_of_mem he) c.1 (List.mem_map_of_mem List.mem_cons_self) h
    have hds : dictSet acc c.1 c.2 = acc ++ [c] := by
      unfold dictSet
      simp [hnot]
    rw [hds, ih (acc ++ [c]) (fun d hd => hq d (List.mem_cons_of_mem _ hd)) (by simpa using hnd)]
    simp

/-- when the candidate locations are qubits and pairwise distinct the dict is the
    candidate list itself -/
theorem buildOp_eq (qs : List Loc) (cands : List (Loc × Pauli))
    (hq : ∀ c ∈ cands, qs.contains c.1 = true) (hnd : (cands.map Prod.fst).Nodup) :
    buildOp qs cands = cands := by
  unfold buildOp
  rw [buildOp_foldl_eq qs cands [] hq (by simpa using hnd)]
  simp

/-! ### parity sums over duplicate-free lists are membership tests -/

theorem oddCount_nodup (fl : List Loc) (h : fl.Nodup) (s : Loc) : oddCount fl s = decide (s ∈ fl) := by
  induction fl with
  | nil => simp [oddCount]
  | cons f fl ih =>
    rw [List.nodup_cons] at h
    have ih' := ih h.2
    unfold oddCount at ih' ⊢
    simp only [xorSum_cons, ih']
    by_cases hfs : f = s
    · subst hfs
      simp [h.1]
    · have : (f == s) = false := by simpa using hfs
      have hne : ¬ s = f := fun h' => hfs h'.symm
      simp [this, hne]

theorem xorSum_keys_nodup (op : Op) (h : (op.map Prod.fst).Nodup)
    (hx : ∀ e ∈ op, hasX e.2 = true) (loc : Loc) :
    xorSum op (fun e => hasX e.2 && e.1 == loc) = decide (loc ∈ op.map Prod.fst) := by
  induction op with
  | nil => simp
  | cons e op ih =>
    rw [List.map_cons, List.nodup_cons] at h
    simp only [xorSum_cons, ih h.2 (fun d hd => hx d (List.mem_cons_of_mem _ hd)),
      hx e List.mem_cons_self, Bool.true_and, List.map_cons, List.mem_cons]
    by_cases hfs : e.1 = loc
    · subst hfs
      simp [h.1]
    · have hne : ¬ loc = e.1 := fun h' => hfs h'.symm
      have hb : (e.1 == loc) = false := by simpa using hfs
      simp [hb, hne]

/-- a stabilizer whose dict is a duplicate-free list of X entries -/
theorem faceHas_of_X (lat : Lattice) (s loc : Loc) (cands : Op) (hop : lat.stabOp s = cands)
    (hnd : (cands.map Prod.fst).Nodup) (hx : ∀ e ∈ cands, e.2 = Pauli.X) :
    faceHas lat s loc = decide (loc ∈ cands.map Prod.fst) := by
  unfold faceHas Lattice.zIndex
  rw [hop]
  have hz : cands.any (fun e => hasZ e.2) = false := by
    rw [List.any_eq_false]
    intro e he
    rw [hx e he]
    simp [hasZ]
  rw [hz, xorSum_keys_nodup cands hnd (fun e he => by rw [hx e he]; rfl)]
  simp

theorem faceHas_of_Z (lat : Lattice) (s loc : Loc) (e : Loc × Pauli) (he : e ∈ lat.stabOp s)
    (hz : e.2 = Pauli.Z) : faceHas lat s loc = false := by
  unfold faceHas Lattice.zIndex
  have : (lat.stabOp s).any (fun e => hasZ e.2) = true := by
    rw [List.any_eq_true]
    exact ⟨e, he, by rw [hz]; rfl⟩
  simp [this]

/-- reduction of `flipOK` to a membership statement -/
theorem flipOK_of (lat : Lattice) (faces : Loc → Option (List Loc)) (loc : Loc) (fl : List Loc)
    (hf : faces loc = some fl) (hnd : fl.Nodup)
    (h : ∀ s ∈ lat.stabs, (s ∈ fl ↔ faceHas lat s loc = true)) : flipOK lat faces loc = true := by
  unfold flipOK
  simp only [hf, List.all_eq_true, beq_iff_eq]
  intro s hs
  rw [oddCount_nodup fl hnd]
  have := h s hs
  cases hfh : faceHas lat s loc
  · rw [hfh] at this
    simp at this
    simp [this]
  · rw [hfh] at this
    simp at this
    simp [this]


/-! ### Z entries survive dict building -/

/-- inserting further Z entries keeps a Z entry in the dict -/
theorem foldl_dict_keeps_Z (qs : List Loc) (rest acc : List (Loc × Pauli))
    (hall : ∀ c ∈ rest, c.2 = Pauli.Z) (hacc : ∃ e ∈ acc, e.2 = Pauli.Z)
    (haccZ : ∀ e ∈ acc, e.2 = Pauli.Z) :
    ∃ e ∈ rest.foldl (fun op c => if qs.contains c.1 then dictSet op c.1 c.2 else op) acc,
      e.2 = Pauli.Z := by
  induction rest generalizing acc with
  | nil => simpa using hacc
  | cons c rest ih =>
    simp only [List.foldl_cons]
    have hc : c.2 = Pauli.Z := hall c List.mem_cons_self
    apply ih _ (fun d hd => hall d (List.mem_cons_of_mem _ hd))
    · split
      · unfold dictSet
        split
        · obtain ⟨e, he, hz⟩ := hacc
          refine ⟨if e.1 == c.1 then (c.1, c.2) else e, List.mem_map.mpr ⟨e, he, rfl⟩, ?_⟩
          split <;> simp [hc, hz]
        · obtain ⟨e, he, hz⟩ := hacc
          exact ⟨e, List.mem_append_left _ he, hz⟩
      · exact hacc
    · split
      · unfold dictSet
        split
        · intro e he
          obtain ⟨d, hd, rfl⟩ := List.mem_map.mp he
          split
          · exact hc
          · exact haccZ d hd
        · intro e he
          rcases List.mem_append.mp he with h | h
          · exact haccZ e h
          · simp at h; rw [h]; exact hc
      · exact haccZ

/-- a dict built from Z candidates whose first location is a qubit has a Z entry -/
theorem buildOp_head_Z (qs : List Loc) (c0 : Loc × Pauli) (rest : List (Loc × Pauli))
    (hq : qs.contains c0.1 = true) (hall : ∀ c ∈ c0 :: rest, c.2 = Pauli.Z) :
    ∃ e ∈ buildOp qs (c0 :: rest), e.2 = Pauli.Z := by
  unfold buildOp
  simp only [List.foldl_cons, hq, if_true]
  have h0 : c0.2 = Pauli.Z := hall c0 List.mem_cons_self
  exact foldl_dict_keeps_Z qs rest (dictSet [] c0.1 c0.2) (fun c hc => hall c (List.mem_cons_of_mem _ hc))
    ⟨(c0.1, c0.2), by simp [dictSet], h0⟩ (by simp [dictSet, h0])

/-! ### versions with the `is_qubit` / `is_stabilizer` filters kept (open boundaries) -/

theorem buildOp_foldl_filter (qs : List Loc) (cands acc : List (Loc × Pauli))
    (hnd : ((acc ++ cands).map Prod.fst).Nodup) :
    cands.foldl (fun op c => if qs.contains c.1 then dictSet op c.1 c.2 else op) acc =
      acc ++ cands.filter (fun c => qs.contains c.1) := by
  induction cands generalizing acc with
  | nil => simp
  | cons c cands ih =>
    simp only [List.foldl_cons]
    by_cases hc : qs.contains c.1 = true
    · simp only [hc, if_true, List.filter_cons]
      have hnot : acc.any (fun e => e.1 == c.1) = false := by
        rw [List.any_eq_false]
        intro e he
        simp only [beq_iff_eq]
        intro h
        rw [List.map_append, List.nodup_append] at hnd
        exact hnd.2.2 e.1 (List.mem_map_of_mem he) c.1 (List.mem_map_of_mem List.mem_cons_self) h
      have hds : dictSet acc c.1 c.2 = acc ++ [c] := by
        unfold dictSet
        simp [hnot]
      rw [hds, ih (acc ++ [c]) (by simpa using hnd)]
      simp
    · have hc' : qs.contains c.1 = false := by simpa using hc
      simp only [hc', Bool.false_eq_true, if_false, List.filter_cons]
      apply ih
      rw [List.map_append, List.nodup_append] at hnd ⊢
      refine ⟨hnd.1, ?_, ?_⟩
      · have := hnd.2.1
        rw [List.map_cons, List.nodup_cons] at this
        exact this.2
      · intro a ha b hb
        exact hnd.2.2 a ha b (by rw [List.map_cons]; exact List.mem_cons_of_mem _ hb)

/-- with pairwise distinct candidate locations the dict is the list of the candidates that
    are qubits -/
theorem buildOp_eq_filter (qs : List Loc) (cands : List (Loc × Pauli))
    (hnd : (cands.map Prod.fst).Nodup) :
    buildOp qs cands = cands.filter (fun c => qs.contains c.1) := by
  unfold buildOp
  rw [buildOp_foldl_filter qs cands [] (by simpa using hnd)]
  simp

theorem mem_keys_filter (qs : List Loc) (cands : List (Loc × Pauli)) (loc : Loc) :
    loc ∈ (cands.filter (fun c => qs.contains c.1)).map Prod.fst ↔
      loc ∈ cands.map Prod.fst ∧ loc ∈ qs := by
  simp only [List.mem_map, List.mem_filter, List.contains_iff_mem]
  constructor
  · rintro ⟨e, ⟨he, hq⟩, rfl⟩
    exact ⟨⟨e, he, rfl⟩, hq⟩
  · rintro ⟨⟨e, he, rfl⟩, hq⟩
    exact ⟨e, ⟨he, hq⟩, rfl⟩

theorem nodup_keys_filter (p : Loc × Pauli → Bool) (cands : List (Loc × Pauli))
    (hnd : (cands.map Prod.fst).Nodup) : ((cands.filter p).map Prod.fst).Nodup :=
  List.Nodup.sublist (List.Sublist.map _ List.filter_sublist) hnd

/-- a filtered list is duplicate-free as soon as equal entries of the list fail the filter -/
theorem nodup_filter_of_pairwise (p : Loc → Bool) (l : List Loc)
    (h : l.Pairwise (fun a b => a = b → p a = false)) : (l.filter p).Nodup := by
  induction l with
  | nil => simp
  | cons a l ih =>
    rw [List.pairwise_cons] at h
    rw [List.filter_cons]
    split
    · rename_i hp
      rw [List.nodup_cons]
      refine ⟨?_, ih h.2⟩
      intro hmem
      have := h.1 a (List.mem_filter.mp hmem).1 rfl
      rw [hp] at this
      cases this
    · exact ih h.2

/-- a stabilizer whose dict is the qubit-filtered part of a duplicate-free list of X candidates -/
theorem faceHas_of_X_filter (lat : Lattice) (s loc : Loc) (cands : Op)
    (hop : lat.stabOp s = cands.filter (fun c => lat.qubits.contains c.1))
    (hnd : (cands.map Prod.fst).Nodup) (hx : ∀ e ∈ cands, e.2 = Pauli.X) (hq : loc ∈ lat.qubits) :
    faceHas lat s loc = decide (loc ∈ cands.map Prod.fst) := by
  rw [faceHas_of_X lat s loc _ hop (nodup_keys_filter _ cands hnd)
    (fun e he => hx e (List.mem_filter.mp he).1)]
  have := mem_keys_filter lat.qubits cands loc
  simp only [this, hq, and_true]

/-- reduction of `flipOK` when the face list keeps its `is_stabilizer` filter -/
theorem flipOK_of_filter (lat : Lattice) (faces : Loc → Option (List Loc)) (loc : Loc)
    (raw : List Loc) (hf : faces loc = some (raw.filter lat.isStab))
    (hpw : raw.Pairwise (fun a b => a = b → lat.isStab a = false))
    (h : ∀ s ∈ lat.stabs, (s ∈ raw ↔ faceHas lat s loc = true)) : flipOK lat faces loc = true := by
  apply flipOK_of lat faces loc _ hf (nodup_filter_of_pairwise _ raw hpw)
  intro s hs
  rw [List.mem_filter, ← h s hs]
  simp [Lattice.isStab, hs]

/-! ### the same reductions for the rotated decoder (face rows = rows of type `'face'`) -/

theorem xorSum_filter {α : Type} (l : List α) (p f : α → Bool) :
    xorSum (l.filter p) f = xorSum l (fun a => p a && f a) := by
  induction l with
  | nil => rfl
  | cons a l ih =>
    rw [List.filter_cons]
    cases hp : p a
    · simp [ih, hp]
    · simp [ih, hp]

/-- a generator of type `'vertex'` is never toggled -/
theorem faceHasRot_of_not_face (lat : Lattice) (s loc : Loc) (h : lat.isFace s = false) :
    faceHasRot lat s loc = false := by
  simp [faceHasRot, faceHasK, h]

/-- a generator of type `'face'` whose dict has distinct keys: it is toggled by `loc` iff its
    dict has an X (or Y) on `loc` — also when other entries are Z (defect lines) -/
theorem faceHasRot_of_keys (lat : Lattice) (s loc : Loc) (hf : lat.isFace s = true)
    (hnd : ((lat.stabOp s).map Prod.fst).Nodup) :
    faceHasRot lat s loc = decide (loc ∈ ((lat.stabOp s).filter fun e => hasX e.2).map Prod.fst) := by
  unfold faceHasRot faceHasK
  rw [hf, Bool.true_and]
  have h1 : xorSum (lat.stabOp s) (fun e => hasX e.2 && e.1 == loc) =
      xorSum ((lat.stabOp s).filter fun e => hasX e.2) (fun e => hasX e.2 && e.1 == loc) := by
    rw [xorSum_filter]
    apply xorSum_congr
    intro e _
    cases hasX e.2 <;> rfl
  rw [h1, xorSum_keys_nodup _ (nodup_keys_filter _ _ hnd) (fun e he => (List.mem_filter.mp he).2)]

/-- a generator of type `'face'` whose dict is the qubit-filtered part of a candidate list with
    distinct locations (letters X or Z): it is toggled by the qubit `loc` iff a candidate sits on
    `loc` with the letter X -/
theorem faceHasRot_of_filter (lat : Lattice) (s loc : Loc) (cands : Op) (hf : lat.isFace s = true)
    (hop : lat.stabOp s = cands.filter (fun c => lat.qubits.contains c.1))
    (hnd : (cands.map Prod.fst).Nodup) (hq : loc ∈ lat.qubits) :
    faceHasRot lat s loc = decide (∃ e ∈ cands, e.1 = loc ∧ hasX e.2 = true) := by
  rw [faceHasRot_of_keys lat s loc hf (by rw [hop]; exact nodup_keys_filter _ cands hnd), hop]
  apply decide_eq_decide.mpr
  simp only [List.mem_map, List.mem_filter, List.contains_iff_mem]
  constructor
  · rintro ⟨e, ⟨⟨he, _⟩, hx⟩, rfl⟩
    exact ⟨e, he, rfl, hx⟩
  · rintro ⟨e, he, rfl, hx⟩
    exact ⟨e, ⟨⟨he, hq⟩, hx⟩, rfl⟩

/-- the same when every candidate letter is X -/
theorem faceHasRot_of_X_filter (lat : Lattice) (s loc : Loc) (cands : Op) (hf : lat.isFace s = true)
    (hop : lat.stabOp s = cands.filter (fun c => lat.qubits.contains c.1))
    (hnd : (cands.map Prod.fst).Nodup) (hx : ∀ e ∈ cands, e.2 = Pauli.X) (hq : loc ∈ lat.qubits) :
    faceHasRot lat s loc = decide (loc ∈ cands.map Prod.fst) := by
  rw [faceHasRot_of_filter lat s loc cands hf hop hnd hq]
  apply decide_eq_decide.mpr
  simp only [List.mem_map]
  constructor
  · rintro ⟨e, he, rfl, _⟩
    exact ⟨e, he, rfl⟩
  · rintro ⟨e, he, rfl⟩
    exact ⟨e, he, rfl, by rw [hx e he]; rfl⟩

/-- reduction of `flipOKRot` to a membership statement -/
theorem flipOKRot_of (lat : Lattice) (faces : Loc → Option (List Loc)) (loc : Loc) (fl : List Loc)
    (hf : faces loc = some fl) (hnd : fl.Nodup)
    (h : ∀ s ∈ lat.stabs, (s ∈ fl ↔ faceHasRot lat s loc = true)) :
    flipOKRot lat faces loc = true := by
  unfold flipOKRot flipOKK
  simp only [hf, List.all_eq_true, beq_iff_eq]
  intro s hs
  rw [oddCount_nodup fl hnd]
  have := h s hs
  change _ = faceHasRot lat s loc
  cases hfh : faceHasRot lat s loc
  · rw [hfh] at this
    simp at this
    simp [this]
  · rw [hfh] at this
    simp at this
    simp [this]

/-- reduction of `flipOKRot` when the face list keeps an arbitrary filter
    (`is_stabilizer(·, 'face')`) and the unfiltered neighbour list is duplicate-free -/
theorem flipOKRot_of_filterP (lat : Lattice) (faces : Loc → Option (List Loc)) (loc : Loc)
    (raw : List Loc) (p : Loc → Bool) (hf : faces loc = some (raw.filter p)) (hnd : raw.Nodup)
    (h : ∀ s ∈ lat.stabs, ((s ∈ raw ∧ p s = true) ↔ faceHasRot lat s loc = true)) :
    flipOKRot lat faces loc = true := by
  apply flipOKRot_of lat faces loc _ hf (hnd.filter _)
  intro s hs
  rw [List.mem_filter]
  exact h s hs

/-! ### wrap-around arithmetic -/

theorem emod_in (a P : Int) (h0 : 0 ≤ a) (h1 : a < P) : a % P = a := Int.emod_eq_of_lt h0 h1

theorem emod_succ_cases (a P : Int) (h0 : 0 ≤ a) (h1 : a < P) :
    ((a + 1) % P = a + 1 ∧ a + 1 < P) ∨ ((a + 1) % P = 0 ∧ a + 1 = P) := by
  by_cases h : a + 1 < P
  · left; exact ⟨Int.emod_eq_of_lt (by omega) h, h⟩
  · right
    have h2 : a + 1 = P := by omega
    exact ⟨by rw [h2]; exact Int.emod_self, h2⟩

theorem emod_pred_cases (a P : Int) (h0 : 0 ≤ a) (h1 : a < P) :
    ((a - 1) % P = a - 1 ∧ 1 ≤ a) ∨ ((a - 1) % P = P - 1 ∧ a = 0) := by
  by_cases h : 1 ≤ a
  · left; exact ⟨Int.emod_eq_of_lt (by omega) (by omega), h⟩
  · right
    have h2 : a = 0 := by omega
    subst h2
    refine ⟨?_, rfl⟩
    have h3 : (0 - 1 : Int) % P = (P - 1) % P := by
      have : (P - 1 : Int) = (0 - 1) + P := by omega
      rw [this, Int.add_emod_right]
    rw [h3]
    exact Int.emod_eq_of_lt (by omega) (by omega)

/-- even coordinate, even period: the successor never wraps -/
theorem emod_succ_even (a L : Int) (h0 : 0 ≤ a) (h1 : a < 2 * L) (p : a % 2 = 0) :
    (a + 1) % (2 * L) = a + 1 := by
  have := emod_succ_cases a (2 * L) h0 h1; omega

/-- odd coordinate: the predecessor never wraps -/
theorem emod_pred_odd (a L : Int) (h0 : 0 ≤ a) (h1 : a < 2 * L) (p : a % 2 = 1) :
    (a - 1) % (2 * L) = a - 1 := by
  have := emod_pred_cases a (2 * L) h0 h1; omega

end Panqec.Sweep
