/-
Color666ToricCode, all square sizes `L ≥ 1`, C17 part F: assembly.

Every listed logical (one of the strings `kA … kD` with the letter X or Z) has `4L` representatives
with pairwise disjoint supports: the `3L` zig-zags of its family (equivalent to it through the
zig-zag ladder, part B) and the `L` closed straight lines of the family (equivalent to it through
C04, `Lattice.same_class`: a line commutes with every generator and has the parities of the listed
string with all eight listed logicals — the pairing table of the strings and `line_zig_parity`
agree: odd exactly for the other frame and the other colour offset).  `lower_bound`
(`Lattice.packing_bound`), `weights_listed`, `reported_distance`.
-/
import PanqecVerif.Proofs.DistColor666ToricCodeE
import PanqecVerif.Proofs.DistClass
import PanqecVerif.Proofs.Lat2DRankBridge

set_option linter.unusedVariables false

namespace Panqec.Color666ToricCode
open Panqec.Lat2D Panqec.Color

/-! ### the four strings and their families -/

/-- a listed string with its frame, colour offset and index in the zig-zag family -/
structure Str (L : Nat) where
  K : List Coord
  f : Bool
  c : Int
  t0 : Nat

def strA (L : Nat) : Str L := ⟨kA L, true, 1, 0⟩
def strB (L : Nat) : Str L := ⟨kB L, true, 0, 1⟩
def strC (L : Nat) : Str L := ⟨kC L, false, 0, 0⟩
def strD (L : Nat) : Str L := ⟨kD L, false, 1, 0⟩

/-- `e` is one of the four listed strings -/
def Listed {L : Nat} (e : Str L) : Prop := e = strA L ∨ e = strB L ∨ e = strC L ∨ e = strD L

theorem Listed.perm {L : Nat} (hL : 1 ≤ L) {e : Str L} (h : Listed e) :
    e.K.Perm (zigK L e.f e.c (e.t0 : Int)) := by
  rcases h with rfl | rfl | rfl | rfl
  · exact kA_perm hL
  · exact kB_perm hL
  · exact kC_perm hL
  · exact kD_perm hL

theorem Listed.nodup {L : Nat} (hL : 1 ≤ L) {e : Str L} (h : Listed e) : e.K.Nodup := by
  rcases h with rfl | rfl | rfl | rfl
  · exact nodup_kA hL
  · exact nodup_kB L
  · exact nodup_kC L
  · exact nodup_kD L

theorem Listed.hc {L : Nat} {e : Str L} (h : Listed e) : e.c = 0 ∨ e.c = 1 := by
  rcases h with rfl | rfl | rfl | rfl
  · exact Or.inr rfl
  · exact Or.inl rfl
  · exact Or.inl rfl
  · exact Or.inr rfl

theorem Listed.isString {L : Nat} {e : Str L} (h : Listed e) :
    e.K = kA L ∨ e.K = kB L ∨ e.K = kC L ∨ e.K = kD L := by
  rcases h with rfl | rfl | rfl | rfl
  · exact Or.inl rfl
  · exact Or.inr (Or.inl rfl)
  · exact Or.inr (Or.inr (Or.inl rfl))
  · exact Or.inr (Or.inr (Or.inr rfl))

/-- the pairing table of the strings: two of them share an odd number of qubits exactly when they
    lie in different frames and have different colour offsets -/
theorem Listed.pairing {L : Nat} (hL : 1 ≤ L) {e e' : Str L} (h : Listed e) (h' : Listed e') :
    interCount e'.K e.K % 2 = if e.f ≠ e'.f ∧ e.c ≠ e'.c then 1 else 0 := by
  have cA := nodup_kA hL; have cB := nodup_kB L; have cC := nodup_kC L; have cD := nodup_kD L
  rcases h with rfl | rfl | rfl | rfl <;> rcases h' with rfl | rfl | rfl | rfl <;>
    simp only [strA, strB, strC, strD]
  · rw [interCount_self, len_kA_even]; simp
  · rw [interCount_comm _ _ cB cA, kA_kB hL]; simp
  · rw [interCount_comm _ _ cC cA, kA_kC hL]; simp
  · rw [interCount_comm _ _ cD cA, kA_kD hL]; simp
  · rw [kA_kB hL]; simp
  · rw [interCount_self, len_kB_even]; simp
  · rw [interCount_comm _ _ cC cB, kB_kC hL]; simp
  · rw [interCount_comm _ _ cD cB, kB_kD hL]; simp
  · rw [kA_kC hL]; simp
  · rw [kB_kC hL]; simp
  · rw [interCount_self, len_kC_even]; simp
  · rw [interCount_comm _ _ cD cC, kC_kD_even hL]; simp
  · rw [kA_kD hL]; simp
  · rw [kB_kD hL]; simp
  · rw [kC_kD_even hL]; simp
  · rw [interCount_self, len_kD_even]; simp

theorem interCount_perm {A A' : List Coord} (B : List Coord) (h : A.Perm A') :
    interCount A B = interCount A' B := by
  unfold interCount; exact h.countP_eq _

/-- a line of the family of `e` against the listed string `e'` -/
theorem Listed.line_parity {L : Nat} (hL : 1 ≤ L) {e e' : Str L} (h : Listed e) (h' : Listed e')
    (m : Int) : interCount e'.K (lineK L e.f e.c m) % 2 = interCount e'.K e.K % 2 := by
  rw [interCount_perm _ (h'.perm hL), line_zig_parity hL e.f e'.f h.hc h'.hc, h.pairing hL h']

/-- every listed logical is a single-letter operator on a listed string -/
theorem log_listed {L : Nat} (hL : 1 ≤ L) {a : Op} (ha : a ∈ logX L L ++ logZ L L) :
    ∃ (e : Str L) (P : Pauli), Listed e ∧ a = e.K.map (fun q => (q, P)) ∧
      (P = Pauli.X ∨ P = Pauli.Z) := by
  rw [logX_eq hL, logZ_eq hL] at ha
  simp only [List.cons_append, List.nil_append, List.mem_cons, List.not_mem_nil, or_false] at ha
  rcases ha with rfl | rfl | rfl | rfl | rfl | rfl | rfl | rfl
  · exact ⟨strA L, Pauli.X, Or.inl rfl, rfl, Or.inl rfl⟩
  · exact ⟨strB L, Pauli.X, Or.inr (Or.inl rfl), rfl, Or.inl rfl⟩
  · exact ⟨strC L, Pauli.X, Or.inr (Or.inr (Or.inl rfl)), rfl, Or.inl rfl⟩
  · exact ⟨strD L, Pauli.X, Or.inr (Or.inr (Or.inr rfl)), rfl, Or.inl rfl⟩
  · exact ⟨strC L, Pauli.Z, Or.inr (Or.inr (Or.inl rfl)), rfl, Or.inr rfl⟩
  · exact ⟨strD L, Pauli.Z, Or.inr (Or.inr (Or.inr rfl)), rfl, Or.inr rfl⟩
  · exact ⟨strA L, Pauli.Z, Or.inl rfl, rfl, Or.inr rfl⟩
  · exact ⟨strB L, Pauli.Z, Or.inr (Or.inl rfl), rfl, Or.inr rfl⟩

/-! ### single-letter operators against the generators -/

/-- a single-letter operator on a key list that meets every face in an even number of qubits
    commutes with every generator -/
theorem commStabs_of_faces {L : Nat} (hL : 1 ≤ L) (K : List Coord) (P : Pauli)
    (h : ∀ x y, IsF L x y → interCount (supp L x y) K % 2 = 0) :
    CommStabs L (K.map (fun q => (q, P))) := by
  intro s hs
  obtain ⟨x, y, p, rfl, hf, _⟩ := mem_stabs.mp hs
  show opAntiCount ((lattice L L).getStab [x, y, p]) _ % 2 = 0
  rw [getStab_eq hL hs, opAntiCount_const]
  by_cases ha : Pauli.anti (letter p) P = true
  · rw [if_pos ha]; exact h x y hf
  · rw [if_neg ha]

/-! ### families of single-letter operators as representatives -/

/-- the side conditions of `Lattice.packing_bound` for the single-letter operators on the key
    lists `K 0, …, K (M−1)` -/
theorem famReps (qs : List Coord) (K : Nat → List Coord) (M : Nat) (P : Pauli)
    (hnd : ∀ i, i < M → (K i).Nodup) (hq : ∀ i, i < M → ∀ q ∈ K i, q ∈ qs) :
    ∀ r ∈ (List.range M).map fun i => (K i).map (fun q => (q, P)),
      KeysNodup r ∧ opSupported qs r = true := by
  intro r hr
  obtain ⟨i, hi, rfl⟩ := List.mem_map.mp hr
  have hi := List.mem_range.mp hi
  exact ⟨keysNodup_line P (hnd i hi), opSupported_line P (hq i hi)⟩

theorem famPairwise (K : Nat → List Coord) (M : Nat) (P : Pauli)
    (hdis : ∀ i i', i < M → i' < M → i ≠ i' → ∀ q ∈ K i, q ∉ K i') :
    ((List.range M).map fun i => (K i).map (fun q => (q, P))).Pairwise KeysDisjoint := by
  rw [List.pairwise_map]
  refine List.Pairwise.imp_of_mem ?_ List.pairwise_lt_range
  intro i i' hi hi' hii q h1 h2
  rw [Lat2D.map_fst_const] at h1 h2
  exact hdis i i' (List.mem_range.mp hi) (List.mem_range.mp hi') (by omega) q h1 h2

/-! ### one listed logical: `4L` disjoint representatives -/

theorem reps_of {L : Nat} (hL : 1 ≤ L) (hwf : (lattice L L).WF) {n k : Nat}
    (hn : (qubits L L).length = n)
    (hv : ValidCodeL n k (lattice L L).rowsH (lattice L L).rowsX (lattice L L).rowsZ)
    {e : Str L} (he : Listed e) {p : Int} (hp : p = 0 ∨ p = 1) :
    ∃ reps : List Op, 4 * L ≤ reps.length ∧
      (∀ r ∈ reps, KeysNodup r ∧ opSupported (qubits L L) r = true) ∧
      reps.Pairwise KeysDisjoint ∧
      ∀ b : Op, KeysNodup b → opSupported (qubits L L) b = true → CommStabs L b →
        ∀ r ∈ reps, opAntiCount r b % 2 =
          opAntiCount (e.K.map (fun q => (q, letter p))) b % 2 := by
  refine ⟨((List.range (3 * L)).map fun (t : Nat) =>
      (zigK L e.f e.c (t : Int)).map (fun q => (q, letter p))) ++
    ((List.range L).map fun (m : Nat) =>
      (lineK L e.f e.c (m : Int)).map (fun q => (q, letter p))), ?_, ?_, ?_, ?_⟩
  · simp only [List.length_append, List.length_map, List.length_range]; omega
  · intro r hr
    rcases List.mem_append.mp hr with h | h
    · exact famReps _ (fun t => zigK L e.f e.c (t : Int)) _ _
        (fun t _ => nodup_zigK hL e.f e.c t) (fun t _ => zigK_qubits hL e.f e.c t) r h
    · exact famReps _ (fun m => lineK L e.f e.c (m : Int)) _ _
        (fun m _ => nodup_lineK hL e.f e.c m) (fun m _ => lineK_qubits hL e.f e.c m) r h
  · rw [List.pairwise_append]
    refine ⟨famPairwise (fun t => zigK L e.f e.c (t : Int)) _ _
        (fun t t' ht ht' hne => zigK_disjoint hL e.f e.c ht ht' hne),
      famPairwise (fun m => lineK L e.f e.c (m : Int)) _ _
        (fun m m' hm hm' hne => lineK_disjoint hL e.f e.c hm hm' hne), ?_⟩
    intro r hr r' hr'
    obtain ⟨t, _, rfl⟩ := List.mem_map.mp hr
    obtain ⟨m, _, rfl⟩ := List.mem_map.mp hr'
    intro q h1 h2
    rw [Lat2D.map_fst_const] at h1 h2
    exact zigK_lineK_disjoint hL e.f e.c t m q h1 h2
  · intro b _ _ hb r hr
    rcases List.mem_append.mp hr with h | h
    · -- a zig-zag of the family: the ladder
      obtain ⟨t, ht, rfl⟩ := List.mem_map.mp h
      rw [opAntiCount_line, opAntiCount_line, (he.perm hL).countP_eq, countP_zigK, countP_zigK,
        zig_parity hL e.f hb hp e.c (t + 1) t (by omega),
        zig_parity hL e.f hb hp e.c (e.t0 + 1) e.t0 (by omega)]
    · -- a closed straight line of the family: C04
      obtain ⟨m, hm, rfl⟩ := List.mem_map.mp h
      have hr1 : KeysNodup ((lineK L e.f e.c (m : Int)).map (fun q => (q, letter p))) ∧
          opSupported (qubits L L) ((lineK L e.f e.c (m : Int)).map (fun q => (q, letter p))) = true :=
        ⟨keysNodup_line _ (nodup_lineK hL e.f e.c m), opSupported_line _ (lineK_qubits hL e.f e.c m)⟩
      have ha1 : KeysNodup (e.K.map (fun q => (q, letter p))) ∧
          opSupported (qubits L L) (e.K.map (fun q => (q, letter p))) = true :=
        ⟨keysNodup_line _ (he.nodup hL), opSupported_line _ (string_qubits hL he.isString)⟩
      exact Lattice.same_class (lattice L L) hwf hn hv hr1 ha1
        (commStabs_of_faces hL _ _ (fun x y hf => line_face_even hL e.f e.c m hf))
        (commStabs_of_faces hL _ _ (fun x y hf => face_string_even hL hf he.isString))
        (by
          intro m' hm'
          obtain ⟨e', P', he', rfl, _⟩ := log_listed hL hm'
          rw [opAntiCount_const, opAntiCount_const]
          by_cases ha : Pauli.anti P' (letter p) = true
          · rw [if_pos ha, if_pos ha]; exact he.line_parity hL he' m
          · rw [if_neg ha, if_neg ha])
        b hb

/-- every non-trivial logical operator of the `L × L` 6.6.6 toric colour code has weight `≥ 4L` -/
theorem lower_bound {L : Nat} (hL : 1 ≤ L) (hwf : (lattice L L).WF) {n k : Nat}
    (hn : (qubits L L).length = n)
    (hv : ValidCodeL n k (lattice L L).rowsH (lattice L L).rowsX (lattice L L).rowsZ) :
    ∀ v, IsNontrivialLogical n (lattice L L).rowsH v → 4 * L ≤ pauliWeight v := by
  apply Lattice.packing_bound (lattice L L) hwf hn hv
  intro a ha
  change a ∈ logX L L ++ logZ L L at ha
  change ∃ reps : List Op, _ ∧ (∀ r ∈ reps, KeysNodup r ∧ opSupported (qubits L L) r = true) ∧
    _ ∧ ∀ b : Op, _ → _ → CommStabs L b → _
  obtain ⟨e, P, he, rfl, hPX⟩ := log_listed hL ha
  rcases hPX with rfl | rfl
  · exact reps_of hL hwf hn hv he (p := 0) (Or.inl rfl)
  · exact reps_of hL hwf hn hv he (p := 1) (Or.inr rfl)

/-! ### weights of the listed logicals, reported distance -/

theorem weight_listed {L : Nat} (hwf : (lattice L L).WF) {a : Op}
    (ha : a ∈ (lattice L L).logX ++ (lattice L L).logZ) :
    pauliWeight (opRow (lattice L L).qubits a) = a.length :=
  pauliWeight_opRow _ hwf.qubits_nodup a (hwf.log_keys a ha) (hwf.log_supported a ha)

/-- every row of `logicals_x` and of `logicals_z` has weight `4L` -/
theorem weights_listed {L : Nat} (hL : 1 ≤ L) (hwf : (lattice L L).WF) :
    (lattice L L).rowsX.map pauliWeight = [4 * L, 4 * L, 4 * L, 4 * L] ∧
    (lattice L L).rowsZ.map pauliWeight = [4 * L, 4 * L, 4 * L, 4 * L] := by
  have hw := fun a ha => weight_listed hwf (a := a) ha
  change ∀ a, a ∈ logX L L ++ logZ L L → _ at hw
  rw [logX_eq hL, logZ_eq hL] at hw
  unfold Lattice.rowsX Lattice.rowsZ
  change (List.map (opRow (lattice L L).qubits) (logX L L)).map pauliWeight = _ ∧
    (List.map (opRow (lattice L L).qubits) (logZ L L)).map pauliWeight = _
  rw [logX_eq hL, logZ_eq hL]
  simp only [List.map_cons, List.map_nil]
  rw [hw _ (by simp), hw _ (by simp), hw _ (by simp), hw _ (by simp), hw _ (by simp),
    hw _ (by simp), hw _ (by simp), hw _ (by simp)]
  simp only [List.length_map, length_kA, length_kB, length_kC, length_kD]
  exact ⟨trivial, trivial⟩

/-- `code.d` (minimum weight of the listed logicals) is `4L` -/
theorem reported_distance {L : Nat} (hL : 1 ≤ L) (hwf : (lattice L L).WF) :
    distance (lattice L L).rowsX (lattice L L).rowsZ = some (4 * L) := by
  obtain ⟨h1, h2⟩ := weights_listed hL hwf
  unfold distance
  show (match listMin ((lattice L L).rowsX.map pauliWeight),
    listMin ((lattice L L).rowsZ.map pauliWeight) with
    | some a, some b => some (min a b)
    | _, _ => none) = _
  rw [h1, h2]
  simp only [listMin, List.foldl_cons, List.foldl_nil]
  congr 1
  omega

end Panqec.Color666ToricCode
