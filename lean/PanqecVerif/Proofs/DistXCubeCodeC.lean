/-
XCubeCode, all sizes, C17 part C: the weights of the listed logical operators (`Lz, Ly, Lz, Lx,
Ly, Lx` for the six blocks of `logicals_x`; `Lx, 2Lx, Ly, 2Ly, Lz, 2Lz` for those of
`logicals_z`) and the reported distance `min Lx (min Ly Lz)`.
-/
import PanqecVerif.Proofs.DistXCubeCodeB
import PanqecVerif.Proofs.Dist

namespace Panqec

theorem foldl_min_le : ∀ (as : List Nat) (a : Nat),
    as.foldl min a ≤ a ∧ ∀ x ∈ as, as.foldl min a ≤ x
  | [], a => ⟨Nat.le_refl _, fun _ h => absurd h List.not_mem_nil⟩
  | b :: as, a => by
    obtain ⟨h1, h2⟩ := foldl_min_le as (min a b)
    rw [List.foldl_cons]
    refine ⟨Nat.le_trans h1 (Nat.min_le_left _ _), ?_⟩
    intro x hx
    rcases List.mem_cons.mp hx with rfl | hx
    · exact Nat.le_trans h1 (Nat.min_le_right _ _)
    · exact h2 x hx

/-- `min` of a list: an element that is a lower bound -/
theorem listMin_eq_some {l : List Nat} {m : Nat} (hm : m ∈ l) (hle : ∀ x ∈ l, m ≤ x) :
    listMin l = some m := by
  cases l with
  | nil => exact absurd hm List.not_mem_nil
  | cons a as =>
    have hmem := listMin_mem (a :: as) (as.foldl min a) rfl
    obtain ⟨h1, h2⟩ := foldl_min_le as a
    have hle' : as.foldl min a ≤ m := by
      rcases List.mem_cons.mp hm with rfl | h
      · exact h1
      · exact h2 m h
    show some (as.foldl min a) = some m
    congr 1
    exact Nat.le_antisymm hle' (hle _ hmem)

end Panqec

namespace Panqec.XCubeCode
open Panqec.Lat3Db

variable {Lx Ly Lz : Nat}

theorem length_constOp (ks : List Coord) (p : Pauli) : (constOp ks p).length = ks.length := by
  simp [constOp]

/-- every listed logical has at least `min Lx (min Ly Lz)` entries -/
theorem listed_length_ge {a : Op} (ha : a ∈ logX Lx Ly Lz ++ logZ Lx Ly Lz) :
    min Lx (min Ly Lz) ≤ a.length := by
  rw [logX_eq, logZ_eq] at ha
  simp only [List.mem_append, List.mem_map] at ha
  rcases ha with (((((⟨t, ht, rfl⟩ | ⟨t, ht, rfl⟩) | ⟨t, ht, rfl⟩) | ⟨t, ht, rfl⟩) | ⟨t, ht, rfl⟩) |
    ⟨t, ht, rfl⟩) | (((((⟨t, ht, rfl⟩ | ⟨t, ht, rfl⟩) | ⟨t, ht, rfl⟩) | ⟨t, ht, rfl⟩) |
    ⟨t, ht, rfl⟩) | ⟨t, ht, rfl⟩) <;>
  simp only [length_constOp, kXA1, kXA2, kXB1, kXB2, kXC1, kXC2, kZA1, kZA2, kZB1, kZB2, kZC1, kZC2,
    List.length_map, List.length_append, length_pyRange2_even, length_pyRange2_odd] <;> omega

theorem two_mem_E2 {L : Nat} (h : 2 ≤ L) : (2 : Int) ∈ pyRange2 2 (2 * L) := by
  rw [mem_pyRange2_2]; unfold R2; omega

/-- each of `Lx`, `Ly`, `Lz` is the number of entries of a listed logical X … -/
theorem listedX_attained (hy : 2 ≤ Ly) (hz : 2 ≤ Lz) :
    (∃ a ∈ logX Lx Ly Lz, a.length = Lx) ∧ (∃ a ∈ logX Lx Ly Lz, a.length = Ly) ∧
    (∃ a ∈ logX Lx Ly Lz, a.length = Lz) := by
  rw [logX_eq]
  refine ⟨⟨constOp (kXB2 Lx 2) Pauli.X, ?_, ?_⟩, ⟨constOp (kXA2 Ly 2) Pauli.X, ?_, ?_⟩,
    ⟨constOp (kXA1 Lz 0) Pauli.X, ?_, ?_⟩⟩
  · simp only [List.mem_append, List.mem_map]
    exact Or.inl (Or.inl (Or.inr ⟨2, two_mem_E2 hz, rfl⟩))
  · simp [length_constOp, kXB2, length_pyRange2_even]
  · simp only [List.mem_append, List.mem_map]
    exact Or.inl (Or.inl (Or.inl (Or.inl (Or.inr ⟨2, two_mem_E2 hz, rfl⟩))))
  · simp [length_constOp, kXA2, length_pyRange2_even]
  · simp only [List.mem_append, List.mem_map]
    exact Or.inl (Or.inl (Or.inl (Or.inl (Or.inl ⟨0, zero_mem_E Ly (by omega), rfl⟩))))
  · simp [length_constOp, kXA1, length_pyRange2_even]

/-- … and of a listed logical Z -/
theorem listedZ_attained (hx : 2 ≤ Lx) (hy : 2 ≤ Ly) :
    (∃ a ∈ logZ Lx Ly Lz, a.length = Lx) ∧ (∃ a ∈ logZ Lx Ly Lz, a.length = Ly) ∧
    (∃ a ∈ logZ Lx Ly Lz, a.length = Lz) := by
  rw [logZ_eq]
  refine ⟨⟨constOp (kZA1 Lx 0) Pauli.Z, ?_, ?_⟩, ⟨constOp (kZB1 Ly 0) Pauli.Z, ?_, ?_⟩,
    ⟨constOp (kZC1 Lz 0) Pauli.Z, ?_, ?_⟩⟩
  · simp only [List.mem_append, List.mem_map]
    exact Or.inl (Or.inl (Or.inl (Or.inl (Or.inl ⟨0, zero_mem_E Ly (by omega), rfl⟩))))
  · simp [length_constOp, kZA1, length_pyRange2_odd]
  · simp only [List.mem_append, List.mem_map]
    exact Or.inl (Or.inl (Or.inl (Or.inr ⟨0, zero_mem_E Lx (by omega), rfl⟩)))
  · simp [length_constOp, kZB1, length_pyRange2_odd]
  · simp only [List.mem_append, List.mem_map]
    exact Or.inl (Or.inr ⟨0, zero_mem_E Lx (by omega), rfl⟩)
  · simp [length_constOp, kZC1, length_pyRange2_odd]

/-- the Pauli weight of the row of a listed logical is its number of entries -/
theorem weight_listed (hwf : (lattice Lx Ly Lz).WF) {a : Op}
    (ha : a ∈ logX Lx Ly Lz ++ logZ Lx Ly Lz) :
    pauliWeight (opRow (qubits Lx Ly Lz) a) = a.length :=
  pauliWeight_opRow _ hwf.qubits_nodup a (hwf.log_keys a ha) (hwf.log_supported a ha)

theorem min3_cases (a b c : Nat) : min a (min b c) = a ∨ min a (min b c) = b ∨ min a (min b c) = c := by
  omega

/-- `code.d` (minimum weight of the listed logicals) is `min Lx (min Ly Lz)` -/
theorem reported_distance (hx : 2 ≤ Lx) (hy : 2 ≤ Ly) (hz : 2 ≤ Lz)
    (hwf : (lattice Lx Ly Lz).WF) :
    distance (lattice Lx Ly Lz).rowsX (lattice Lx Ly Lz).rowsZ =
      some (min Lx (min Ly Lz)) := by
  have hX : listMin ((lattice Lx Ly Lz).rowsX.map rowWeight) = some (min Lx (min Ly Lz)) := by
    apply listMin_eq_some
    · obtain ⟨⟨a1, h1, e1⟩, ⟨a2, h2, e2⟩, ⟨a3, h3, e3⟩⟩ := listedX_attained (Lx := Lx) hy hz
      have w : ∀ a ∈ logX Lx Ly Lz, a.length ∈ (lattice Lx Ly Lz).rowsX.map rowWeight := by
        intro a ha
        rw [← weight_listed hwf (List.mem_append.mpr (Or.inl ha))]
        exact List.mem_map.mpr ⟨_, List.mem_map.mpr ⟨a, ha, rfl⟩, rfl⟩
      rcases min3_cases Lx Ly Lz with h | h | h <;> rw [h]
      · have := w a1 h1; rw [e1] at this; exact this
      · have := w a2 h2; rw [e2] at this; exact this
      · have := w a3 h3; rw [e3] at this; exact this
    · intro x hx'
      obtain ⟨r, hr, rfl⟩ := List.mem_map.mp hx'
      obtain ⟨a, ha, rfl⟩ := List.mem_map.mp hr
      have ha' : a ∈ logX Lx Ly Lz ++ logZ Lx Ly Lz := List.mem_append.mpr (Or.inl ha)
      have := weight_listed hwf ha'
      unfold pauliWeight at this
      show _ ≤ rowWeight (opRow (qubits Lx Ly Lz) a)
      rw [this]
      exact listed_length_ge ha'
  have hZ : listMin ((lattice Lx Ly Lz).rowsZ.map rowWeight) = some (min Lx (min Ly Lz)) := by
    apply listMin_eq_some
    · obtain ⟨⟨a1, h1, e1⟩, ⟨a2, h2, e2⟩, ⟨a3, h3, e3⟩⟩ := listedZ_attained (Lz := Lz) hx hy
      have w : ∀ a ∈ logZ Lx Ly Lz, a.length ∈ (lattice Lx Ly Lz).rowsZ.map rowWeight := by
        intro a ha
        rw [← weight_listed hwf (List.mem_append.mpr (Or.inr ha))]
        exact List.mem_map.mpr ⟨_, List.mem_map.mpr ⟨a, ha, rfl⟩, rfl⟩
      rcases min3_cases Lx Ly Lz with h | h | h <;> rw [h]
      · have := w a1 h1; rw [e1] at this; exact this
      · have := w a2 h2; rw [e2] at this; exact this
      · have := w a3 h3; rw [e3] at this; exact this
    · intro x hx'
      obtain ⟨r, hr, rfl⟩ := List.mem_map.mp hx'
      obtain ⟨a, ha, rfl⟩ := List.mem_map.mp hr
      have ha' : a ∈ logX Lx Ly Lz ++ logZ Lx Ly Lz := List.mem_append.mpr (Or.inr ha)
      have := weight_listed hwf ha'
      unfold pauliWeight at this
      show _ ≤ rowWeight (opRow (qubits Lx Ly Lz) a)
      rw [this]
      exact listed_length_ge ha'
  unfold distance
  rw [hX, hZ]
  simp

end Panqec.XCubeCode
