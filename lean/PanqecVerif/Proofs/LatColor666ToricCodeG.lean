/-
Color666ToricCode, square sizes `L ≥ 1`: overlaps of the logical strings (pairing table), assembly
of `Lattice.WF` and `Lattice.CommPair`.  Core Lean only.
-/
import PanqecVerif.Proofs.LatColor666ToricCodeF

set_option linter.unusedVariables false
set_option linter.unusedSimpArgs false

namespace Panqec.Color666ToricCode
open Panqec.Lat2D Panqec.Color
open Panqec.Color488Code (interCount_pred cross_one cross_zero)

/-! ### overlaps of two strings -/

theorem kA_kC {L : Nat} (hL : 1 ≤ L) : interCount (kA L) (kC L) = 1 := by
  apply cross_one hL _ _ (nodup_kA hL) [4, 12 * (L : Int) - 2]
  · rw [mem_kA hL]; exact ⟨_, _, rfl, by rw [isQ_unfold]; omega, by unfold PA; omega⟩
  · rw [mem_kC hL]; exact ⟨_, _, rfl, by rw [isQ_unfold]; omega, by unfold PC; omega⟩
  · intro q hq hq'
    obtain ⟨a, b, rfl, h, hp⟩ := (mem_kA hL).mp hq
    obtain ⟨a', b', e, h', hp'⟩ := (mem_kC hL).mp hq'
    simp only [List.cons.injEq, and_true] at e
    obtain ⟨rfl, rfl⟩ := e
    rw [isQ_unfold] at h
    unfold PA at hp; unfold PC at hp'
    have : a = 4 ∧ b = 12 * (L : Int) - 2 := by omega
    rw [this.1, this.2]

theorem kB_kD {L : Nat} (hL : 1 ≤ L) : interCount (kB L) (kD L) = 1 := by
  apply cross_one hL _ _ (nodup_kB L) [4, 12 * (L : Int) - 6]
  · rw [mem_kB hL]; exact ⟨_, _, rfl, by rw [isQ_unfold]; omega, by unfold PB; omega⟩
  · rw [mem_kD hL]; exact ⟨_, _, rfl, by rw [isQ_unfold]; omega, by unfold PD; omega⟩
  · intro q hq hq'
    obtain ⟨a, b, rfl, h, hp⟩ := (mem_kB hL).mp hq
    obtain ⟨a', b', e, h', hp'⟩ := (mem_kD hL).mp hq'
    simp only [List.cons.injEq, and_true] at e
    obtain ⟨rfl, rfl⟩ := e
    rw [isQ_unfold] at h
    unfold PB at hp; unfold PD at hp'
    have : a = 4 ∧ b = 12 * (L : Int) - 6 := by omega
    rw [this.1, this.2]

theorem kA_kD {L : Nat} (hL : 1 ≤ L) : interCount (kA L) (kD L) = 0 := by
  apply cross_zero
  intro q hq hq'
  obtain ⟨a, b, rfl, h, hp⟩ := (mem_kA hL).mp hq
  obtain ⟨a', b', e, h', hp'⟩ := (mem_kD hL).mp hq'
  simp only [List.cons.injEq, and_true] at e
  obtain ⟨rfl, rfl⟩ := e
  rw [isQ_unfold] at h
  unfold PA at hp; unfold PD at hp'
  omega

theorem kB_kC {L : Nat} (hL : 1 ≤ L) : interCount (kB L) (kC L) = 0 := by
  apply cross_zero
  intro q hq hq'
  obtain ⟨a, b, rfl, h, hp⟩ := (mem_kB hL).mp hq
  obtain ⟨a', b', e, h', hp'⟩ := (mem_kC hL).mp hq'
  simp only [List.cons.injEq, and_true] at e
  obtain ⟨rfl, rfl⟩ := e
  rw [isQ_unfold] at h
  unfold PB at hp; unfold PC at hp'
  omega

theorem kA_kB {L : Nat} (hL : 1 ≤ L) : interCount (kA L) (kB L) = 0 := by
  apply cross_zero
  intro q hq hq'
  obtain ⟨a, b, rfl, h, hp⟩ := (mem_kA hL).mp hq
  obtain ⟨a', b', e, h', hp'⟩ := (mem_kB hL).mp hq'
  simp only [List.cons.injEq, and_true] at e
  obtain ⟨rfl, rfl⟩ := e
  unfold PA at hp; unfold PB at hp'
  omega

theorem sum_map_even {α} (l : List α) (g : α → Nat) (h : ∀ x ∈ l, g x % 2 = 0) :
    (l.map g).sum % 2 = 0 := by
  induction l with
  | nil => rfl
  | cons a l ih =>
    have h1 := h a (List.mem_cons_self ..)
    have h2 := ih (fun x hx => h x (List.mem_cons_of_mem _ hx))
    simp only [List.map_cons, List.sum_cons]
    omega

/-- the strings `C` and `D` share two qubits per period -/
theorem kC_kD_even {L : Nat} (hL : 1 ≤ L) : interCount (kC L) (kD L) % 2 = 0 := by
  unfold interCount
  have e : kC L = (pyRangeStep 8 (12 * (L : Int)) 12).flatMap fun y =>
      [[4, y + 2], [3, y], [3, y - 4], [4, y - 6]] := rfl
  rw [e, List.countP_flatMap]
  apply sum_map_even
  intro y hy
  rw [mem_pyRangeStep12] at hy
  simp only [Function.comp, List.countP_cons, List.countP_nil, List.contains_eq_mem,
    decide_eq_true_eq]
  have m1 : [4, y + 2] ∉ kD L := by
    rw [mem_kD hL]; rintro ⟨a, b, e, _, hp⟩
    simp only [List.cons.injEq, and_true] at e; unfold PD at hp; omega
  have m2 : [3, y] ∈ kD L := by
    rw [mem_kD hL]; exact ⟨_, _, rfl, by rw [isQ_unfold]; omega, by unfold PD; omega⟩
  have m3 : [3, y - 4] ∉ kD L := by
    rw [mem_kD hL]; rintro ⟨a, b, e, _, hp⟩
    simp only [List.cons.injEq, and_true] at e; unfold PD at hp; omega
  have m4 : [4, y - 6] ∈ kD L := by
    rw [mem_kD hL]; exact ⟨_, _, rfl, by rw [isQ_unfold]; omega, by unfold PD; omega⟩
  simp [m1, m2, m3, m4]

theorem length_even_of_blocks {α β} (l : List α) (f : α → List β) (h : ∀ x ∈ l, (f x).length % 2 = 0) :
    (l.flatMap f).length % 2 = 0 := by
  rw [List.length_flatMap]
  exact sum_map_even l _ h

theorem len_kA_even (L : Nat) : (kA L).length % 2 = 0 := by
  rw [kA_eq]
  apply length_even_of_blocks
  intro x _
  unfold blockA
  cases isQubit L L [x + 1, 12 * (L : Int) - 6 - 6 * (x - 8) / 9 + 2] <;> simp

theorem len_kB_even (L : Nat) : (kB L).length % 2 = 0 := by
  unfold kB keysB; apply length_even_of_blocks; intro x _; simp
theorem len_kC_even (L : Nat) : (kC L).length % 2 = 0 := by
  unfold kC keysC; apply length_even_of_blocks; intro x _; simp
theorem len_kD_even (L : Nat) : (kD L).length % 2 = 0 := by
  unfold kD keysD; apply length_even_of_blocks; intro x _; simp

/-! ### assembly -/

theorem log_mem {L : Nat} (hL : 1 ≤ L) {a : Op} (ha : a ∈ logX L L ++ logZ L L) :
    ∃ (K : List Coord) (P : Pauli), a = K.map (fun q => (q, P)) ∧ P ≠ Pauli.I ∧
      (K = kA L ∨ K = kB L ∨ K = kC L ∨ K = kD L) := by
  rw [logX_eq hL, logZ_eq hL] at ha
  simp only [List.cons_append, List.nil_append, List.mem_cons, List.not_mem_nil, or_false] at ha
  rcases ha with rfl | rfl | rfl | rfl | rfl | rfl | rfl | rfl
  · exact ⟨_, Pauli.X, rfl, by decide, Or.inl rfl⟩
  · exact ⟨_, Pauli.X, rfl, by decide, Or.inr (Or.inl rfl)⟩
  · exact ⟨_, Pauli.X, rfl, by decide, Or.inr (Or.inr (Or.inl rfl))⟩
  · exact ⟨_, Pauli.X, rfl, by decide, Or.inr (Or.inr (Or.inr rfl))⟩
  · exact ⟨_, Pauli.Z, rfl, by decide, Or.inr (Or.inr (Or.inl rfl))⟩
  · exact ⟨_, Pauli.Z, rfl, by decide, Or.inr (Or.inr (Or.inr rfl))⟩
  · exact ⟨_, Pauli.Z, rfl, by decide, Or.inl rfl⟩
  · exact ⟨_, Pauli.Z, rfl, by decide, Or.inr (Or.inl rfl)⟩

theorem string_nodup {L : Nat} (hL : 1 ≤ L) {K : List Coord}
    (h : K = kA L ∨ K = kB L ∨ K = kC L ∨ K = kD L) : K.Nodup := by
  rcases h with rfl | rfl | rfl | rfl
  · exact nodup_kA hL
  · exact nodup_kB L
  · exact nodup_kC L
  · exact nodup_kD L

theorem string_qubits {L : Nat} (hL : 1 ≤ L) {K : List Coord}
    (h : K = kA L ∨ K = kB L ∨ K = kC L ∨ K = kD L) : ∀ q ∈ K, q ∈ qubits L L := by
  intro q hq
  rcases h with rfl | rfl | rfl | rfl
  · exact ((mem_kA_π hL q).mp hq).1
  · exact ((mem_kB_π hL q).mp hq).1
  · exact ((mem_kC_π hL q).mp hq).1
  · exact ((mem_kD_π hL q).mp hq).1

theorem stab_comm {L : Nat} (hL : 1 ≤ L) :
    ∀ s ∈ (lattice L L).stabs, ∀ t ∈ (lattice L L).stabs,
      opCommute ((lattice L L).getStab s) ((lattice L L).getStab t) = true := by
  intro s hs t ht
  obtain ⟨ax, ay, p, rfl, ha, _⟩ := mem_stabs.mp hs
  obtain ⟨bx, by', p', rfl, hb, _⟩ := mem_stabs.mp ht
  rw [getStab_eq hL hs, getStab_eq hL ht]
  apply opCommute_const_of
  intro _
  exact face_face_even hL ha hb

theorem log_comm {L : Nat} (hL : 1 ≤ L) :
    ∀ a ∈ logX L L ++ logZ L L, ∀ s ∈ (lattice L L).stabs,
      opCommute a ((lattice L L).getStab s) = true := by
  intro a ha s hs
  obtain ⟨x, y, p, rfl, h, _⟩ := mem_stabs.mp hs
  obtain ⟨K, P, rfl, _, hK⟩ := log_mem hL ha
  rw [getStab_eq hL hs]
  apply opCommute_const_of; intro _
  rw [interCount_comm _ _ (string_nodup hL hK) (nodup_supp hL h)]
  exact face_string_even hL h hK

theorem pairing {L : Nat} (hL : 1 ≤ L) :
    ∀ i j, i < (lattice L L).logX.length → j < (lattice L L).logZ.length →
      opAntiCount ((lattice L L).logX.getD i []) ((lattice L L).logZ.getD j []) % 2
        = if i = j then 1 else 0 := by
  intro i j hi hj
  change i < (logX L L).length at hi
  change j < (logZ L L).length at hj
  show opAntiCount ((logX L L).getD i []) ((logZ L L).getD j []) % 2 = _
  rw [logX_eq hL] at hi ⊢
  rw [logZ_eq hL] at hj ⊢
  simp only [List.length_cons, List.length_nil] at hi hj
  have hXZ : Pauli.anti Pauli.X Pauli.Z = true := by decide
  have cA := nodup_kA hL; have cB := nodup_kB L; have cC := nodup_kC L; have cD := nodup_kD L
  obtain rfl | rfl | rfl | rfl : i = 0 ∨ i = 1 ∨ i = 2 ∨ i = 3 := by omega
  · obtain rfl | rfl | rfl | rfl : j = 0 ∨ j = 1 ∨ j = 2 ∨ j = 3 := by omega
    · simp only [List.getD_cons_zero, List.getD_cons_succ, opAntiCount_const, hXZ, if_true]
      rw [kA_kC hL]
    · simp only [List.getD_cons_zero, List.getD_cons_succ, opAntiCount_const, hXZ, if_true]
      rw [kA_kD hL]; rfl
    · simp only [List.getD_cons_zero, List.getD_cons_succ, opAntiCount_const, hXZ, if_true]
      rw [interCount_self, len_kA_even]; rfl
    · simp only [List.getD_cons_zero, List.getD_cons_succ, opAntiCount_const, hXZ, if_true]
      rw [kA_kB hL]; rfl
  · obtain rfl | rfl | rfl | rfl : j = 0 ∨ j = 1 ∨ j = 2 ∨ j = 3 := by omega
    · simp only [List.getD_cons_zero, List.getD_cons_succ, opAntiCount_const, hXZ, if_true]
      rw [kB_kC hL]; rfl
    · simp only [List.getD_cons_zero, List.getD_cons_succ, opAntiCount_const, hXZ, if_true]
      rw [kB_kD hL]
    · simp only [List.getD_cons_zero, List.getD_cons_succ, opAntiCount_const, hXZ, if_true]
      rw [interCount_comm _ _ cB cA, kA_kB hL]; rfl
    · simp only [List.getD_cons_zero, List.getD_cons_succ, opAntiCount_const, hXZ, if_true]
      rw [interCount_self, len_kB_even]; rfl
  · obtain rfl | rfl | rfl | rfl : j = 0 ∨ j = 1 ∨ j = 2 ∨ j = 3 := by omega
    · simp only [List.getD_cons_zero, List.getD_cons_succ, opAntiCount_const, hXZ, if_true]
      rw [interCount_self, len_kC_even]; rfl
    · simp only [List.getD_cons_zero, List.getD_cons_succ, opAntiCount_const, hXZ, if_true]
      rw [kC_kD_even hL]; rfl
    · simp only [List.getD_cons_zero, List.getD_cons_succ, opAntiCount_const, hXZ, if_true]
      rw [interCount_comm _ _ cC cA, kA_kC hL]
    · simp only [List.getD_cons_zero, List.getD_cons_succ, opAntiCount_const, hXZ, if_true]
      rw [interCount_comm _ _ cC cB, kB_kC hL]; rfl
  · obtain rfl | rfl | rfl | rfl : j = 0 ∨ j = 1 ∨ j = 2 ∨ j = 3 := by omega
    · simp only [List.getD_cons_zero, List.getD_cons_succ, opAntiCount_const, hXZ, if_true]
      rw [interCount_comm _ _ cD cC, kC_kD_even hL]; rfl
    · simp only [List.getD_cons_zero, List.getD_cons_succ, opAntiCount_const, hXZ, if_true]
      rw [interCount_self, len_kD_even]; rfl
    · simp only [List.getD_cons_zero, List.getD_cons_succ, opAntiCount_const, hXZ, if_true]
      rw [interCount_comm _ _ cD cA, kA_kD hL]; rfl
    · simp only [List.getD_cons_zero, List.getD_cons_succ, opAntiCount_const, hXZ, if_true]
      rw [interCount_comm _ _ cD cB, kB_kD hL]

theorem same_letter_comm (P : Pauli) (l : List Op)
    (hl : ∀ a ∈ l, ∃ K : List Coord, a = K.map (fun q => (q, P))) :
    ∀ a ∈ l, ∀ b ∈ l, opCommute a b = true := by
  intro a ha b hb
  obtain ⟨K, rfl⟩ := hl a ha
  obtain ⟨K', rfl⟩ := hl b hb
  exact opCommute_same _ _ _

theorem commPair_all {L : Nat} (hL : 1 ≤ L) : (lattice L L).CommPair where
  stab_comm := stab_comm hL
  logX_comm := fun a ha s hs => log_comm hL a (List.mem_append_left _ ha) s hs
  logZ_comm := fun a ha s hs => log_comm hL a (List.mem_append_right _ ha) s hs
  same_k := rfl
  pairing := pairing hL
  logXX := by
    apply same_letter_comm Pauli.X
    intro a ha
    change a ∈ logX L L at ha
    rw [logX_eq hL] at ha
    simp only [List.mem_cons, List.not_mem_nil, or_false] at ha
    rcases ha with rfl | rfl | rfl | rfl <;> exact ⟨_, rfl⟩
  logZZ := by
    apply same_letter_comm Pauli.Z
    intro a ha
    change a ∈ logZ L L at ha
    rw [logZ_eq hL] at ha
    simp only [List.mem_cons, List.not_mem_nil, or_false] at ha
    rcases ha with rfl | rfl | rfl | rfl <;> exact ⟨_, rfl⟩

theorem wf_all {L : Nat} (hL : 1 ≤ L) : (lattice L L).WF where
  qubits_nodup := nodup_qubits L
  stabs_nodup := nodup_stabs L
  disjoint := qubits_stabs_disjoint hL
  stab_keys := by
    intro s hs
    obtain ⟨x, y, p, rfl, h, _⟩ := mem_stabs.mp hs
    rw [getStab_eq hL hs, map_fst_const]
    exact nodup_supp hL h
  stab_supported := by
    intro s hs e he
    obtain ⟨x, y, p, rfl, h, _⟩ := mem_stabs.mp hs
    rw [getStab_eq hL hs] at he
    simp only [List.mem_map] at he
    obtain ⟨q, hq, rfl⟩ := he
    exact ⟨(mem_qubits_faces hL).mpr ⟨x, y, h, hq⟩, letter_ne_I p⟩
  stab_nonempty := by
    intro s hs
    obtain ⟨x, y, p, rfl, h, _⟩ := mem_stabs.mp hs
    rw [getStab_eq hL hs]
    intro hnil
    exact supp_nonempty L x y (List.map_eq_nil_iff.mp hnil)
  log_keys := by
    intro a ha
    obtain ⟨K, P, rfl, _, hK⟩ := log_mem hL ha
    rw [map_fst_const]; exact string_nodup hL hK
  log_supported := by
    intro a ha e he
    obtain ⟨K, P, rfl, hP, hK⟩ := log_mem hL ha
    simp only [List.mem_map] at he
    obtain ⟨q, hq, rfl⟩ := he
    exact ⟨string_qubits hL hK q hq, hP⟩

end Panqec.Color666ToricCode
