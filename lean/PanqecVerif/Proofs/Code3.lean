/-
Helper lemmas about `Model/Code.lean`, part 3: CSS block structure
(`xIndices`, `zIndices`, `isCss`, `Hx`, `Hz`, `extractXSyndrome`, `extractZSyndrome`).
Core Lean only.
-/
import PanqecVerif.Proofs.Code2

namespace Panqec

/-- the row has an X component (`x_indices` flag) -/
def xFlag (r : List Nat) : Bool := (xPart r).any (· ≠ 0)
/-- the row has a Z component (`z_indices` flag) -/
def zFlag (r : List Nat) : Bool := (zPart r).any (· ≠ 0)

theorem xIndices_eq (H : List (List Nat)) : xIndices H = H.map xFlag := rfl
theorem zIndices_eq (H : List (List Nat)) : zIndices H = H.map zFlag := rfl

theorem isCss_iff (H : List (List Nat)) :
    isCss H = true ↔ ∀ r ∈ H, ¬ (xFlag r = true ∧ zFlag r = true) := by
  unfold isCss
  rw [xIndices_eq, zIndices_eq, List.zipWith_map, List.zipWith_self, List.all_eq_true]
  constructor
  · intro h r hr
    have := h _ (List.mem_map.mpr ⟨r, hr, rfl⟩)
    cases hx : xFlag r <;> cases hz : zFlag r <;> simp [hx, hz] at this ⊢
  · intro h b hb
    obtain ⟨r, hr, rfl⟩ := List.mem_map.mp hb
    have := h r hr
    cases hx : xFlag r <;> cases hz : zFlag r <;> simp [hx, hz] at this ⊢

theorem flag_false_iff (a : List Nat) : a.any (· ≠ 0) = false ↔ ∀ x ∈ a, x = 0 := by
  rw [List.any_eq_false]
  constructor
  · intro h x hx; simpa using h x hx
  · intro h x hx; simpa using h x hx

/-- a non-zero row is flagged by at least one mask -/
theorem flag_of_nonzero (r : List Nat) (h : ∃ x ∈ r, x ≠ 0) : xFlag r = true ∨ zFlag r = true := by
  obtain ⟨x, hx, hne⟩ := h
  rw [← xPart_append_zPart r, List.mem_append] at hx
  rcases hx with hx | hx
  · left; unfold xFlag; rw [List.any_eq_true]; exact ⟨x, hx, by simpa using hne⟩
  · right; unfold zFlag; rw [List.any_eq_true]; exact ⟨x, hx, by simpa using hne⟩

theorem dot_zero_left : ∀ (a b : List Nat), (∀ x ∈ a, x = 0) → dot a b = 0
  | [], b, _ => dot_nil_left b
  | a :: as, [], _ => dot_nil_right _
  | a :: as, b :: bs, h => by
    have ha : a = 0 := h a (by simp)
    rw [dot_cons, dot_zero_left as bs (fun x hx => h x (by simp [hx])), ha]
    simp

/-- a row without Z component pairs only with the Z half of the error -/
theorem symp_of_zFlag_false (r e : List Nat) (h : zFlag r = false) :
    symp r e = dot (xPart r) (zPart e) % 2 := by
  unfold symp
  rw [dot_zero_left (zPart r) (xPart e) ((flag_false_iff _).mp h), Nat.add_zero]

/-- a row without X component pairs only with the X half of the error -/
theorem symp_of_xFlag_false (r e : List Nat) (h : xFlag r = false) :
    symp r e = dot (zPart r) (xPart e) % 2 := by
  unfold symp
  rw [dot_zero_left (xPart r) (zPart e) ((flag_false_iff _).mp h), Nat.zero_add]

theorem maskSelect_map_map {α β} (m : α → Bool) (g : α → β) : ∀ H : List α,
    maskSelect (H.map m) (H.map g) = H.filterMap (fun r => if m r then some (g r) else none)
  | [] => rfl
  | r :: H => by
    have ih := maskSelect_map_map m g H
    unfold maskSelect at ih ⊢
    simp only [List.map_cons, List.zip_cons_cons, List.filterMap_cons, ih]

theorem measureSyndrome_eq (H : List (List Nat)) (e : List Nat) :
    measureSyndrome H e = H.map (fun r => symp r e) := by
  unfold measureSyndrome bsProdRows
  simp [bsProdSparse_eq_symp]

theorem extractX_measure (H : List (List Nat)) (e : List Nat) :
    extractXSyndrome H (measureSyndrome H e) =
      H.filterMap (fun r => if xFlag r then some (symp r e) else none) := by
  unfold extractXSyndrome
  rw [measureSyndrome_eq, xIndices_eq, maskSelect_map_map]

theorem extractZ_measure (H : List (List Nat)) (e : List Nat) :
    extractZSyndrome H (measureSyndrome H e) =
      H.filterMap (fun r => if zFlag r then some (symp r e) else none) := by
  unfold extractZSyndrome
  rw [measureSyndrome_eq, zIndices_eq, maskSelect_map_map]

theorem Hx_eq (H : List (List Nat)) :
    Hx H = H.filterMap (fun r => if xFlag r then some (xPart r) else none) := by
  unfold Hx; rw [xIndices_eq, maskSelect_map_map]

theorem Hz_eq (H : List (List Nat)) :
    Hz H = H.filterMap (fun r => if zFlag r then some (zPart r) else none) := by
  unfold Hz; rw [zIndices_eq, maskSelect_map_map]

/-- X part of the syndrome of a CSS code = `Hx · e_Z (mod 2)` -/
theorem extractX_eq_Hx_mul (H : List (List Nat)) (e : List Nat) (hcss : isCss H = true) :
    extractXSyndrome H (measureSyndrome H e) = (Hx H).map (fun h => dot h (zPart e) % 2) := by
  rw [extractX_measure, Hx_eq, List.map_filterMap]
  apply filterMap_congr'
  intro r hr
  cases hx : xFlag r
  · rfl
  · have hz : zFlag r = false := by
      cases hz : zFlag r
      · rfl
      · exact ((isCss_iff H).mp hcss r hr ⟨hx, hz⟩).elim
    simp [symp_of_zFlag_false r e hz]

/-- Z part of the syndrome of a CSS code = `Hz · e_X (mod 2)` -/
theorem extractZ_eq_Hz_mul (H : List (List Nat)) (e : List Nat) (hcss : isCss H = true) :
    extractZSyndrome H (measureSyndrome H e) = (Hz H).map (fun h => dot h (xPart e) % 2) := by
  rw [extractZ_measure, Hz_eq, List.map_filterMap]
  apply filterMap_congr'
  intro r hr
  cases hz : zFlag r
  · rfl
  · have hx : xFlag r = false := by
      cases hx : xFlag r
      · rfl
      · exact ((isCss_iff H).mp hcss r hr ⟨hx, hz⟩).elim
    simp [symp_of_xFlag_false r e hx]

end Panqec
