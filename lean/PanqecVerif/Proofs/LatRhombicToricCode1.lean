/-
RhombicToricCode lattice model: arithmetic characterisation of the coordinate lists, the periodic
wrap as if-then-else (`up` / `dn` / `step`), and the closed form of `get_stabilizer` for cubes and
triangles: the constant-letter operator on the candidate locations that are qubits.  Sizes ≥ 1 (the
twelve / three wrapped candidates are distinct for sizes ≥ 2).
-/
import PanqecVerif.Proofs.LatRhombic
import PanqecVerif.Proofs.LatXCubeCode1
import PanqecVerif.Model.Lattices.RhombicToricCode
open Panqec Panqec.Lat3Db Panqec.Rhombic
open Panqec.XCubeCode (up dn up_spec dn_spec pmod_up pmod_dn pmod_id pmod_succ_nowrap pmod_pred_nowrap)
namespace Panqec.RhombicToricCode

/-- qubit on an x-edge / y-edge / z-edge -/
def QX (Lx Ly Lz : Nat) (x y z : Int) : Prop := R1 (2*Lx) x ∧ R0 (2*Ly) y ∧ R0 (2*Lz) z
def QY (Lx Ly Lz : Nat) (x y z : Int) : Prop := R0 (2*Lx) x ∧ R1 (2*Ly) y ∧ R0 (2*Lz) z
def QZ (Lx Ly Lz : Nat) (x y z : Int) : Prop := R0 (2*Lx) x ∧ R0 (2*Ly) y ∧ R1 (2*Lz) z

/-- coloured cube -/
def SC (Lx Ly Lz : Nat) (x y z : Int) : Prop :=
  R1 (2*Lx) x ∧ R1 (2*Ly) y ∧ R1 (2*Lz) z ∧ (x + y + z) % 4 = 1

/-- triangle -/
def ST (Lx Ly Lz : Nat) (a x y z : Int) : Prop :=
  IsAxis a ∧ R0 (2*Lx) x ∧ R0 (2*Ly) y ∧ R0 (2*Lz) z

instance (Lx Ly Lz : Nat) (x y z : Int) : Decidable (QX Lx Ly Lz x y z) := by unfold QX; infer_instance
instance (Lx Ly Lz : Nat) (x y z : Int) : Decidable (QY Lx Ly Lz x y z) := by unfold QY; infer_instance
instance (Lx Ly Lz : Nat) (x y z : Int) : Decidable (QZ Lx Ly Lz x y z) := by unfold QZ; infer_instance

theorem mem_qubits_iff (Lx Ly Lz : Nat) (x y z : Int) :
    [x, y, z] ∈ qubits Lx Ly Lz ↔ QX Lx Ly Lz x y z ∨ QY Lx Ly Lz x y z ∨ QZ Lx Ly Lz x y z := by
  unfold qubits QX QY QZ
  simp only [List.mem_append, mem_grid3_cons, mem_pyRange2_0, mem_pyRange2_1, allTrue, and_true, or_assoc]

theorem isQubit_iff (Lx Ly Lz : Nat) (x y z : Int) :
    isQubit Lx Ly Lz [x, y, z] = true ↔ QX Lx Ly Lz x y z ∨ QY Lx Ly Lz x y z ∨ QZ Lx Ly Lz x y z := by
  unfold isQubit
  rw [List.contains_iff_mem, mem_qubits_iff]

theorem mem_qubits_shape (Lx Ly Lz : Nat) (s : Coord) (h : s ∈ qubits Lx Ly Lz) :
    ∃ x y z, s = [x, y, z] := by
  unfold qubits at h
  simp only [List.mem_append, mem_grid3] at h
  rcases h with (⟨x, y, z, rfl, _⟩ | ⟨x, y, z, rfl, _⟩) | ⟨x, y, z, rfl, _⟩ <;> exact ⟨x, y, z, rfl⟩

theorem mem_stabs_cube (Lx Ly Lz : Nat) (x y z : Int) :
    [x, y, z] ∈ stabs Lx Ly Lz ↔ SC Lx Ly Lz x y z := by
  unfold stabs SC
  simp only [List.mem_append, mem_grid3_cons, mem_pyRange2_1, List.mem_flatMap, List.mem_map, cubeKeep,
    beq_iff_eq]
  constructor
  · rintro (h | ⟨ax, _, c, hc, h⟩)
    · exact h
    · rw [mem_grid3] at hc
      obtain ⟨a, b, d, rfl, _⟩ := hc
      simp at h
  · intro h; exact Or.inl h

theorem mem_stabs_tri (Lx Ly Lz : Nat) (a x y z : Int) :
    [a, x, y, z] ∈ stabs Lx Ly Lz ↔ ST Lx Ly Lz a x y z := by
  unfold stabs ST IsAxis
  simp only [List.mem_append, List.mem_flatMap, List.mem_map, List.cons.injEq, List.mem_cons,
    List.not_mem_nil, or_false]
  constructor
  · rintro (h | ⟨a', ha, c, hc, rfl, rfl⟩)
    · rw [mem_grid3] at h
      obtain ⟨a', b, d, h, _⟩ := h
      simp at h
    · rw [mem_grid3_cons] at hc
      simp only [mem_pyRange2_0, allTrue, and_true] at hc
      exact ⟨ha, hc⟩
  · rintro ⟨ha, hc⟩
    refine Or.inr ⟨a, ha, [x, y, z], ?_, rfl, rfl⟩
    rw [mem_grid3_cons]
    simp only [mem_pyRange2_0, allTrue, and_true]
    exact hc

theorem mem_stabs_shape (Lx Ly Lz : Nat) (s : Coord) (h : s ∈ stabs Lx Ly Lz) :
    (∃ x y z, s = [x, y, z]) ∨ (∃ a x y z, s = [a, x, y, z]) := by
  unfold stabs at h
  simp only [List.mem_append, List.mem_flatMap, List.mem_map, mem_grid3] at h
  rcases h with ⟨x, y, z, rfl, _⟩ | ⟨a, _, c, ⟨x, y, z, rfl, _⟩, rfl⟩
  · exact Or.inl ⟨x, y, z, rfl⟩
  · exact Or.inr ⟨a, x, y, z, rfl⟩

/-! ### candidate locations -/

/-- `(v + s) % P` for an even `0 ≤ v < P` and `s = ±1`: the lower neighbour wraps -/
def step (P : Nat) (v s : Int) : Int := if s = 1 then v + 1 else dn P v

/-- the twelve edges of the cube `(x, y, z)` (odd coordinates) in the order of `delta`: the upper
    neighbour wraps -/
def cubeLocs (Lx Ly Lz : Nat) (x y z : Int) : List Coord :=
  [[up (2*Lx) x, up (2*Ly) y, z], [x - 1, y - 1, z], [up (2*Lx) x, y - 1, z], [x - 1, up (2*Ly) y, z],
   [up (2*Lx) x, y, up (2*Lz) z], [x - 1, y, z - 1], [up (2*Lx) x, y, z - 1], [x - 1, y, up (2*Lz) z],
   [x, up (2*Ly) y, up (2*Lz) z], [x, y - 1, z - 1], [x, y - 1, up (2*Lz) z], [x, up (2*Ly) y, z - 1]]

/-- the three legs of a triangle at the vertex `(x, y, z)` with sign vector `(sx, sy, sz)` -/
def triLocs (Lx Ly Lz : Nat) (sx sy sz x y z : Int) : List Coord :=
  [[step (2*Lx) x sx, y, z], [x, step (2*Ly) y sy, z], [x, y, step (2*Lz) z sz]]

theorem map_cubeDelta (Lx Ly Lz : Nat) (x y z : Int) (hx : R1 (2*Lx) x) (hy : R1 (2*Ly) y)
    (hz : R1 (2*Lz) z) : cubeDelta.map (wrapAdd Lx Ly Lz x y z) = cubeLocs Lx Ly Lz x y z := by
  unfold R1 at hx hy hz
  have ex := pmod_up (2*Lx) x (by omega) (by omega)
  have ey := pmod_up (2*Ly) y (by omega) (by omega)
  have ez := pmod_up (2*Lz) z (by omega) (by omega)
  have dx := pmod_pred_nowrap (2*Lx) x (by omega) (by omega)
  have dy := pmod_pred_nowrap (2*Ly) y (by omega) (by omega)
  have dz := pmod_pred_nowrap (2*Lz) z (by omega) (by omega)
  have ix := pmod_id (2*Lx) x (by omega) (by omega)
  have iy := pmod_id (2*Ly) y (by omega) (by omega)
  have iz := pmod_id (2*Lz) z (by omega) (by omega)
  simp only [cubeDelta, wrapAdd, List.map_cons, List.map_nil, cubeLocs, ex, ey, ez, dx, dy, dz, ix, iy, iz]

theorem pmod_step (P : Nat) (v s : Int) (hP : P % 2 = 0) (hv : R0 P v) (hs : U s) : pmod (v + s) P = step P v s := by
  unfold R0 at hv
  unfold step
  rcases hs with rfl | rfl
  · simp only [if_true]
    exact pmod_succ_nowrap P v (by omega) (by omega)
  · have : ¬ ((-1 : Int) = 1) := by decide
    simp only [this, if_false]
    exact pmod_dn P v (by omega) (by omega)

theorem map_triDelta (Lx Ly Lz : Nat) (a x y z : Int) (ha : IsAxis a) (hx : R0 (2*Lx) x)
    (hy : R0 (2*Ly) y) (hz : R0 (2*Lz) z) :
    (triDelta a x y z).map (wrapAdd Lx Ly Lz x y z) =
      triLocs Lx Ly Lz (sgnX a) (sgnY a) (sgnZ a x y z) x y z := by
  rw [triDelta_eq a x y z ha]
  have ix := pmod_id (2*Lx) x hx.2.1 hx.2.2
  have iy := pmod_id (2*Ly) y hy.2.1 hy.2.2
  have iz := pmod_id (2*Lz) z hz.2.1 hz.2.2
  simp only [wrapAdd, List.map_cons, List.map_nil, triLocs, ix, iy, iz,
    pmod_step (2*Lx) _ _ (by omega) hx (sgnX_pm a), pmod_step (2*Ly) _ _ (by omega) hy (sgnY_pm a),
    pmod_step (2*Lz) _ _ (by omega) hz (sgnZ_pm a x y z)]

/-- the wrapped neighbour of an even coordinate is odd, hence different from it -/
theorem step_spec (P : Nat) (v s : Int) (hP : P % 2 = 0) (hv : R0 P v) (hs : U s) : R1 P (step P v s) := by
  unfold R0 at hv; unfold R1 step
  have := dn_spec P v
  rcases hs with rfl | rfl
  · simp only [if_true]; omega
  · have h1 : ¬ ((-1 : Int) = 1) := by decide
    simp only [h1, if_false]; omega

theorem nodup_cubeLocs (Lx Ly Lz : Nat) (x y z : Int) (hx : 2 ≤ Lx) (hy : 2 ≤ Ly) (hz : 2 ≤ Lz)
    (h : SC Lx Ly Lz x y z) : (cubeLocs Lx Ly Lz x y z).Nodup := by
  obtain ⟨h1, h2, h3, _⟩ := h
  unfold R1 at h1 h2 h3
  have ux := up_spec (2*Lx) x
  have uy := up_spec (2*Ly) y
  have uz := up_spec (2*Lz) z
  unfold cubeLocs
  generalize up (2*Lx) x = xu at ux ⊢
  generalize up (2*Ly) y = yu at uy ⊢
  generalize up (2*Lz) z = zu at uz ⊢
  have hxu : xu ≠ x - 1 ∧ xu ≠ x := by omega
  have hyu : yu ≠ y - 1 ∧ yu ≠ y := by omega
  have hzu : zu ≠ z - 1 ∧ zu ≠ z := by omega
  clear ux uy uz h1 h2 h3
  simp
  omega

theorem nodup_triLocs (Lx Ly Lz : Nat) (sx sy sz x y z : Int) (hsx : U sx) (hsy : U sy)
    (hx : R0 (2*Lx) x) (hy : R0 (2*Ly) y) : (triLocs Lx Ly Lz sx sy sz x y z).Nodup := by
  have h1 := step_spec (2*Lx) x sx (by omega) hx hsx
  have h2 := step_spec (2*Ly) y sy (by omega) hy hsy
  unfold R0 at hx hy; unfold R1 at h1 h2
  unfold triLocs
  generalize step (2*Lx) x sx = a at *
  generalize step (2*Ly) y sy = b at *
  simp
  omega

theorem isStab_cube (Lx Ly Lz : Nat) (x y z : Int) (h : SC Lx Ly Lz x y z) :
    isStab Lx Ly Lz [x, y, z] = true := by
  unfold isStab; rw [List.contains_iff_mem, mem_stabs_cube]; exact h

theorem isStab_tri (Lx Ly Lz : Nat) (a x y z : Int) (h : ST Lx Ly Lz a x y z) :
    isStab Lx Ly Lz [a, x, y, z] = true := by
  unfold isStab; rw [List.contains_iff_mem, mem_stabs_tri]; exact h

/-- key list of a cube operator -/
def cubeKeys (Lx Ly Lz : Nat) (x y z : Int) : List Coord :=
  (cubeLocs Lx Ly Lz x y z).filter (isQubit Lx Ly Lz)

/-- key list of a triangle operator -/
def triKeys (Lx Ly Lz : Nat) (a x y z : Int) : List Coord :=
  (triLocs Lx Ly Lz (sgnX a) (sgnY a) (sgnZ a x y z) x y z).filter (isQubit Lx Ly Lz)

theorem getStab_cube (Lx Ly Lz : Nat) (x y z : Int) (hx : 2 ≤ Lx) (hy : 2 ≤ Ly) (hz : 2 ≤ Lz)
    (h : SC Lx Ly Lz x y z) :
    getStab Lx Ly Lz [x, y, z] = constOp (cubeKeys Lx Ly Lz x y z) Pauli.X := by
  unfold getStab getStab? cubeKeys
  simp only [isStab_cube Lx Ly Lz x y z h, Bool.not_true, Bool.false_eq_true, if_false,
    Option.getD_some, map_cubeDelta Lx Ly Lz x y z h.1 h.2.1 h.2.2.1]
  rw [buildOp_eq _ _ _ (nodup_cubeLocs Lx Ly Lz x y z hx hy hz h)]

theorem getStab_tri (Lx Ly Lz : Nat) (a x y z : Int) (h : ST Lx Ly Lz a x y z) :
    getStab Lx Ly Lz [a, x, y, z] = constOp (triKeys Lx Ly Lz a x y z) Pauli.Z := by
  unfold getStab getStab? triKeys
  simp only [isStab_tri Lx Ly Lz a x y z h, Bool.not_true, Bool.false_eq_true, if_false,
    Option.getD_some, map_triDelta Lx Ly Lz a x y z h.1 h.2.1 h.2.2.1 h.2.2.2]
  rw [buildOp_eq _ _ _ (nodup_triLocs Lx Ly Lz _ _ _ x y z (sgnX_pm a) (sgnY_pm a) h.2.1 h.2.2.1)]

theorem nodup_cubeKeys (Lx Ly Lz : Nat) (x y z : Int) (hx : 2 ≤ Lx) (hy : 2 ≤ Ly) (hz : 2 ≤ Lz)
    (h : SC Lx Ly Lz x y z) : (cubeKeys Lx Ly Lz x y z).Nodup :=
  (nodup_cubeLocs Lx Ly Lz x y z hx hy hz h).filter _

theorem nodup_triKeys (Lx Ly Lz : Nat) (a x y z : Int) (h : ST Lx Ly Lz a x y z) :
    (triKeys Lx Ly Lz a x y z).Nodup :=
  (nodup_triLocs Lx Ly Lz _ _ _ x y z (sgnX_pm a) (sgnY_pm a) h.2.1 h.2.2.1).filter _

end Panqec.RhombicToricCode
