/-
`Planar3DCode.getStab` of a vertex / xy face / yz face / xz face, for every size: the one-letter
operator on those of the six / four neighbouring locations that are qubits (the boundaries truncate
the operators).
-/
import PanqecVerif.Proofs.LatPlanar3DCodeBasics

set_option linter.unusedVariables false
set_option linter.unusedSimpArgs false

namespace Panqec.Planar3DCode
open Panqec.Cubic3D

/-- the kinds of stabilizer location, with the parity/range conditions on the coordinates -/
def isVertex (Lx Ly Lz : Nat) (x y z : Int) : Prop := inE2 Lx x ∧ inE Ly y ∧ inE Lz z
def isFaceXY (Lx Ly Lz : Nat) (x y z : Int) : Prop := inO1 Lx x ∧ inO Ly y ∧ inE Lz z
def isFaceYZ (Lx Ly Lz : Nat) (x y z : Int) : Prop := inE2 Lx x ∧ inO Ly y ∧ inO Lz z
def isFaceXZ (Lx Ly Lz : Nat) (x y z : Int) : Prop := inO1 Lx x ∧ inE Ly y ∧ inO Lz z

theorem stab_cases {Lx Ly Lz : Nat} {s : Coord} (h : s ∈ stabs Lx Ly Lz) :
    ∃ x y z, s = [x, y, z] ∧ (isVertex Lx Ly Lz x y z ∨ isFaceXY Lx Ly Lz x y z ∨
      isFaceYZ Lx Ly Lz x y z ∨ isFaceXZ Lx Ly Lz x y z) := by
  obtain ⟨x, y, z, rfl⟩ := shape_of_mem_stabs h
  exact ⟨x, y, z, rfl, mem_stabs.mp h⟩

/-- `is_qubit` -/
def isq (Lx Ly Lz : Nat) : Coord → Bool := (qubits Lx Ly Lz).contains

theorem isq_iff {Lx Ly Lz : Nat} {q : Coord} : isq Lx Ly Lz q = true ↔ q ∈ qubits Lx Ly Lz := by
  unfold isq; exact List.contains_iff_mem

def vertexCands (x y z : Int) : List Coord :=
  [[x + 1, y, z], [x - 1, y, z], [x, y + 1, z], [x, y - 1, z], [x, y, z + 1], [x, y, z - 1]]

/-- the qubits among the neighbouring locations, in the order of `delta` -/
def vertexKeys (Lx Ly Lz : Nat) (x y z : Int) : List Coord :=
  (vertexCands x y z).filter (isq Lx Ly Lz)

theorem vertexCands_nodup (x y z : Int) : (vertexCands x y z).Nodup := by
  simp only [vertexCands, List.nodup_cons, List.mem_cons, List.cons.injEq, List.not_mem_nil,
    and_true, or_false, not_false_eq_true, List.nodup_nil]
  omega

theorem vertexKeys_nodup (Lx Ly Lz : Nat) (x y z : Int) : (vertexKeys Lx Ly Lz x y z).Nodup :=
  (vertexCands_nodup x y z).filter _

theorem vertexKeys_sub (Lx Ly Lz : Nat) (x y z : Int) :
    ∀ q ∈ vertexKeys Lx Ly Lz x y z, q ∈ qubits Lx Ly Lz := by
  intro q hq
  simp only [vertexKeys, List.mem_filter] at hq
  exact isq_iff.mp hq.2

theorem vertexKeys_ne_nil {Lx Ly Lz : Nat} {x y z : Int} (h : isVertex Lx Ly Lz x y z) :
    vertexKeys Lx Ly Lz x y z ≠ [] := by
  obtain ⟨hx, hy, hz⟩ := h
  simp only [inE, inO, inE2, inO1] at hx hy hz
  have hm : [x + 1, y, z] ∈ vertexKeys Lx Ly Lz x y z := by
    simp only [vertexKeys, List.mem_filter, isq_iff]
    refine ⟨by simp [vertexCands], ?_⟩
    rw [mem_qubits_x (by omega) (by omega) (by omega)]
    omega
  intro h0; rw [h0] at hm; exact List.not_mem_nil hm

theorem getStab_vertex {Lx Ly Lz : Nat} {x y z : Int} (h : isVertex Lx Ly Lz x y z) :
    getStab Lx Ly Lz [x, y, z] = uop (vertexKeys Lx Ly Lz x y z) Pauli.Z := by
  have hs : (stabs Lx Ly Lz).contains [x, y, z] = true := by
    rw [List.contains_iff_mem, mem_stabs]; exact Or.inl h
  obtain ⟨hx, hy, hz⟩ := h
  simp only [inE, inO, inE2, inO1] at hx hy hz
  have ht : typeOf x y = StabType.vertex := by
    simp [typeOf, hx.2.2, hy.2.2]
  have hc : candidates x y z vertexDelta = vertexCands x y z := by
    show _ = _
    simp only [candidates, vertexDelta, List.map_cons, List.map_nil, vertexCands, Int.add_zero,
      Int.sub_eq_add_neg]
  unfold getStab getStab?
  simp only [hs, if_true, ht, hc, Option.getD_some, reduceCtorEq, if_false]
  rw [collect_eq _ _ _ (vertexCands_nodup x y z)]
  rfl

def faceXYCands (x y z : Int) : List Coord :=
  [[x - 1, y, z], [x + 1, y, z], [x, y - 1, z], [x, y + 1, z]]

/-- the qubits among the neighbouring locations, in the order of `delta` -/
def faceXYKeys (Lx Ly Lz : Nat) (x y z : Int) : List Coord :=
  (faceXYCands x y z).filter (isq Lx Ly Lz)

theorem faceXYCands_nodup (x y z : Int) : (faceXYCands x y z).Nodup := by
  simp only [faceXYCands, List.nodup_cons, List.mem_cons, List.cons.injEq, List.not_mem_nil,
    and_true, or_false, not_false_eq_true, List.nodup_nil]
  omega

theorem faceXYKeys_nodup (Lx Ly Lz : Nat) (x y z : Int) : (faceXYKeys Lx Ly Lz x y z).Nodup :=
  (faceXYCands_nodup x y z).filter _

theorem faceXYKeys_sub (Lx Ly Lz : Nat) (x y z : Int) :
    ∀ q ∈ faceXYKeys Lx Ly Lz x y z, q ∈ qubits Lx Ly Lz := by
  intro q hq
  simp only [faceXYKeys, List.mem_filter] at hq
  exact isq_iff.mp hq.2

theorem faceXYKeys_ne_nil {Lx Ly Lz : Nat} {x y z : Int} (h : isFaceXY Lx Ly Lz x y z) :
    faceXYKeys Lx Ly Lz x y z ≠ [] := by
  obtain ⟨hx, hy, hz⟩ := h
  simp only [inE, inO, inE2, inO1] at hx hy hz
  have hm : [x, y - 1, z] ∈ faceXYKeys Lx Ly Lz x y z := by
    simp only [faceXYKeys, List.mem_filter, isq_iff]
    refine ⟨by simp [faceXYCands], ?_⟩
    rw [mem_qubits_x (by omega) (by omega) (by omega)]
    omega
  intro h0; rw [h0] at hm; exact List.not_mem_nil hm

theorem getStab_faceXY {Lx Ly Lz : Nat} {x y z : Int} (h : isFaceXY Lx Ly Lz x y z) :
    getStab Lx Ly Lz [x, y, z] = uop (faceXYKeys Lx Ly Lz x y z) Pauli.X := by
  have hs : (stabs Lx Ly Lz).contains [x, y, z] = true := by
    rw [List.contains_iff_mem, mem_stabs]; exact Or.inr (Or.inl h)
  obtain ⟨hx, hy, hz⟩ := h
  simp only [inE, inO, inE2, inO1] at hx hy hz
  have ht : typeOf x y = StabType.face := by
    simp [typeOf, hx.2.2, hy.2.2]
  have hd : faceDelta x y z = [(-1, 0, 0), (1, 0, 0), (0, -1, 0), (0, 1, 0)] := by
    simp [faceDelta, hx.2.2, hy.2.2, hz.2.2]
  have hc : candidates x y z (faceDelta x y z) = faceXYCands x y z := by
    rw [hd]
    simp only [candidates, List.map_cons, List.map_nil, faceXYCands, Int.add_zero,
      Int.sub_eq_add_neg]
  unfold getStab getStab?
  simp only [hs, if_true, ht, hc, Option.getD_some, reduceCtorEq, if_false]
  rw [collect_eq _ _ _ (faceXYCands_nodup x y z)]
  rfl

def faceYZCands (x y z : Int) : List Coord :=
  [[x, y - 1, z], [x, y + 1, z], [x, y, z - 1], [x, y, z + 1]]

/-- the qubits among the neighbouring locations, in the order of `delta` -/
def faceYZKeys (Lx Ly Lz : Nat) (x y z : Int) : List Coord :=
  (faceYZCands x y z).filter (isq Lx Ly Lz)

theorem faceYZCands_nodup (x y z : Int) : (faceYZCands x y z).Nodup := by
  simp only [faceYZCands, List.nodup_cons, List.mem_cons, List.cons.injEq, List.not_mem_nil,
    and_true, or_false, not_false_eq_true, List.nodup_nil]
  omega

theorem faceYZKeys_nodup (Lx Ly Lz : Nat) (x y z : Int) : (faceYZKeys Lx Ly Lz x y z).Nodup :=
  (faceYZCands_nodup x y z).filter _

theorem faceYZKeys_sub (Lx Ly Lz : Nat) (x y z : Int) :
    ∀ q ∈ faceYZKeys Lx Ly Lz x y z, q ∈ qubits Lx Ly Lz := by
  intro q hq
  simp only [faceYZKeys, List.mem_filter] at hq
  exact isq_iff.mp hq.2

theorem faceYZKeys_ne_nil {Lx Ly Lz : Nat} {x y z : Int} (h : isFaceYZ Lx Ly Lz x y z) :
    faceYZKeys Lx Ly Lz x y z ≠ [] := by
  obtain ⟨hx, hy, hz⟩ := h
  simp only [inE, inO, inE2, inO1] at hx hy hz
  have hm : [x, y - 1, z] ∈ faceYZKeys Lx Ly Lz x y z := by
    simp only [faceYZKeys, List.mem_filter, isq_iff]
    refine ⟨by simp [faceYZCands], ?_⟩
    rw [mem_qubits_z (by omega) (by omega) (by omega)]
    omega
  intro h0; rw [h0] at hm; exact List.not_mem_nil hm

theorem getStab_faceYZ {Lx Ly Lz : Nat} {x y z : Int} (h : isFaceYZ Lx Ly Lz x y z) :
    getStab Lx Ly Lz [x, y, z] = uop (faceYZKeys Lx Ly Lz x y z) Pauli.X := by
  have hs : (stabs Lx Ly Lz).contains [x, y, z] = true := by
    rw [List.contains_iff_mem, mem_stabs]; exact Or.inr (Or.inr (Or.inl h))
  obtain ⟨hx, hy, hz⟩ := h
  simp only [inE, inO, inE2, inO1] at hx hy hz
  have ht : typeOf x y = StabType.face := by
    simp [typeOf, hx.2.2, hy.2.2]
  have hd : faceDelta x y z = [(0, -1, 0), (0, 1, 0), (0, 0, -1), (0, 0, 1)] := by
    simp [faceDelta, hx.2.2, hy.2.2, hz.2.2]
  have hc : candidates x y z (faceDelta x y z) = faceYZCands x y z := by
    rw [hd]
    simp only [candidates, List.map_cons, List.map_nil, faceYZCands, Int.add_zero,
      Int.sub_eq_add_neg]
  unfold getStab getStab?
  simp only [hs, if_true, ht, hc, Option.getD_some, reduceCtorEq, if_false]
  rw [collect_eq _ _ _ (faceYZCands_nodup x y z)]
  rfl

def faceXZCands (x y z : Int) : List Coord :=
  [[x - 1, y, z], [x + 1, y, z], [x, y, z - 1], [x, y, z + 1]]

/-- the qubits among the neighbouring locations, in the order of `delta` -/
def faceXZKeys (Lx Ly Lz : Nat) (x y z : Int) : List Coord :=
  (faceXZCands x y z).filter (isq Lx Ly Lz)

theorem faceXZCands_nodup (x y z : Int) : (faceXZCands x y z).Nodup := by
  simp only [faceXZCands, List.nodup_cons, List.mem_cons, List.cons.injEq, List.not_mem_nil,
    and_true, or_false, not_false_eq_true, List.nodup_nil]
  omega

theorem faceXZKeys_nodup (Lx Ly Lz : Nat) (x y z : Int) : (faceXZKeys Lx Ly Lz x y z).Nodup :=
  (faceXZCands_nodup x y z).filter _

theorem faceXZKeys_sub (Lx Ly Lz : Nat) (x y z : Int) :
    ∀ q ∈ faceXZKeys Lx Ly Lz x y z, q ∈ qubits Lx Ly Lz := by
  intro q hq
  simp only [faceXZKeys, List.mem_filter] at hq
  exact isq_iff.mp hq.2

theorem faceXZKeys_ne_nil {Lx Ly Lz : Nat} {x y z : Int} (h : isFaceXZ Lx Ly Lz x y z) :
    faceXZKeys Lx Ly Lz x y z ≠ [] := by
  obtain ⟨hx, hy, hz⟩ := h
  simp only [inE, inO, inE2, inO1] at hx hy hz
  have hm : [x, y, z - 1] ∈ faceXZKeys Lx Ly Lz x y z := by
    simp only [faceXZKeys, List.mem_filter, isq_iff]
    refine ⟨by simp [faceXZCands], ?_⟩
    rw [mem_qubits_x (by omega) (by omega) (by omega)]
    omega
  intro h0; rw [h0] at hm; exact List.not_mem_nil hm

theorem getStab_faceXZ {Lx Ly Lz : Nat} {x y z : Int} (h : isFaceXZ Lx Ly Lz x y z) :
    getStab Lx Ly Lz [x, y, z] = uop (faceXZKeys Lx Ly Lz x y z) Pauli.X := by
  have hs : (stabs Lx Ly Lz).contains [x, y, z] = true := by
    rw [List.contains_iff_mem, mem_stabs]; exact Or.inr (Or.inr (Or.inr h))
  obtain ⟨hx, hy, hz⟩ := h
  simp only [inE, inO, inE2, inO1] at hx hy hz
  have ht : typeOf x y = StabType.face := by
    simp [typeOf, hx.2.2, hy.2.2]
  have hd : faceDelta x y z = [(-1, 0, 0), (1, 0, 0), (0, 0, -1), (0, 0, 1)] := by
    simp [faceDelta, hx.2.2, hy.2.2, hz.2.2]
  have hc : candidates x y z (faceDelta x y z) = faceXZCands x y z := by
    rw [hd]
    simp only [candidates, List.map_cons, List.map_nil, faceXZCands, Int.add_zero,
      Int.sub_eq_add_neg]
  unfold getStab getStab?
  simp only [hs, if_true, ht, hc, Option.getD_some, reduceCtorEq, if_false]
  rw [collect_eq _ _ _ (faceXZCands_nodup x y z)]
  rfl

end Panqec.Planar3DCode
