/-
`HollowPlanar3DCode.getStab` of a vertex / xy face / yz face / xz face outside the hole, for every
size: the one-letter operator on the key list of `Planar3DCode` with the locations in the hole
removed.  A face outside the hole has none of its edges in the hole (the hole is bounded by odd
coordinates, an edge differs from a neighbouring face in an even coordinate), so only vertex
operators are truncated by the hole.
-/
import PanqecVerif.Proofs.LatHollowPlanar3DCodeBasics

set_option linter.unusedVariables false
set_option linter.unusedSimpArgs false

namespace Panqec.HollowPlanar3DCode
open Panqec.Cubic3D
open Panqec.Planar3DCode (inE inO inE2 inO1 isVertex isFaceXY isFaceYZ isFaceXZ isq isq_iff
  vertexCands faceXYCands faceYZCands faceXZCands vertexCands_nodup faceXYCands_nodup
  faceYZCands_nodup faceXZCands_nodup)

/-- the qubits among the neighbouring locations, in the order of `delta` -/
def vertexKeys (Lx Ly Lz : Nat) (x y z : Int) : List Coord :=
  (Planar3DCode.vertexKeys Lx Ly Lz x y z).filter (notHoleC Lx Ly Lz)
def faceXYKeys (Lx Ly Lz : Nat) (x y z : Int) : List Coord :=
  (Planar3DCode.faceXYKeys Lx Ly Lz x y z).filter (notHoleC Lx Ly Lz)
def faceYZKeys (Lx Ly Lz : Nat) (x y z : Int) : List Coord :=
  (Planar3DCode.faceYZKeys Lx Ly Lz x y z).filter (notHoleC Lx Ly Lz)
def faceXZKeys (Lx Ly Lz : Nat) (x y z : Int) : List Coord :=
  (Planar3DCode.faceXZKeys Lx Ly Lz x y z).filter (notHoleC Lx Ly Lz)

theorem filter_contains (Lx Ly Lz : Nat) (cands : List Coord) :
    cands.filter (qubits Lx Ly Lz).contains =
      (cands.filter (isq Lx Ly Lz)).filter (notHoleC Lx Ly Lz) := by
  rw [List.filter_filter]
  apply List.filter_congr
  intro q _
  rw [contains_qubits, Bool.and_comm]

theorem mem_keys_sub {Lx Ly Lz : Nat} {ks : List Coord} {q : Coord}
    (hsub : ∀ q ∈ ks, q ∈ Planar3DCode.qubits Lx Ly Lz)
    (hq : q ∈ ks.filter (notHoleC Lx Ly Lz)) : q ∈ qubits Lx Ly Lz := by
  rw [List.mem_filter] at hq
  rw [qubits_eq, List.mem_filter]
  exact ⟨hsub q hq.1, hq.2⟩

theorem vertexKeys_nodup (Lx Ly Lz : Nat) (x y z : Int) : (vertexKeys Lx Ly Lz x y z).Nodup :=
  (Planar3DCode.vertexKeys_nodup Lx Ly Lz x y z).filter _
theorem faceXYKeys_nodup (Lx Ly Lz : Nat) (x y z : Int) : (faceXYKeys Lx Ly Lz x y z).Nodup :=
  (Planar3DCode.faceXYKeys_nodup Lx Ly Lz x y z).filter _
theorem faceYZKeys_nodup (Lx Ly Lz : Nat) (x y z : Int) : (faceYZKeys Lx Ly Lz x y z).Nodup :=
  (Planar3DCode.faceYZKeys_nodup Lx Ly Lz x y z).filter _
theorem faceXZKeys_nodup (Lx Ly Lz : Nat) (x y z : Int) : (faceXZKeys Lx Ly Lz x y z).Nodup :=
  (Planar3DCode.faceXZKeys_nodup Lx Ly Lz x y z).filter _

theorem vertexKeys_sub (Lx Ly Lz : Nat) (x y z : Int) :
    ∀ q ∈ vertexKeys Lx Ly Lz x y z, q ∈ qubits Lx Ly Lz :=
  fun q hq => mem_keys_sub (Planar3DCode.vertexKeys_sub Lx Ly Lz x y z) hq
theorem faceXYKeys_sub (Lx Ly Lz : Nat) (x y z : Int) :
    ∀ q ∈ faceXYKeys Lx Ly Lz x y z, q ∈ qubits Lx Ly Lz :=
  fun q hq => mem_keys_sub (Planar3DCode.faceXYKeys_sub Lx Ly Lz x y z) hq
theorem faceYZKeys_sub (Lx Ly Lz : Nat) (x y z : Int) :
    ∀ q ∈ faceYZKeys Lx Ly Lz x y z, q ∈ qubits Lx Ly Lz :=
  fun q hq => mem_keys_sub (Planar3DCode.faceYZKeys_sub Lx Ly Lz x y z) hq
theorem faceXZKeys_sub (Lx Ly Lz : Nat) (x y z : Int) :
    ∀ q ∈ faceXZKeys Lx Ly Lz x y z, q ∈ qubits Lx Ly Lz :=
  fun q hq => mem_keys_sub (Planar3DCode.faceXZKeys_sub Lx Ly Lz x y z) hq

/-! ### the edges of a face outside the hole are outside the hole -/

theorem faceXY_edges {Lx Ly Lz : Nat} {x y z : Int} (hf : isFaceXY Lx Ly Lz x y z)
    (hn : ¬ Hole Lx Ly Lz x y z) : ∀ q ∈ faceXYCands x y z, notHoleC Lx Ly Lz q = true := by
  obtain ⟨hx, hy, hz⟩ := hf
  simp only [inE, inO, inE2, inO1] at hx hy hz
  intro q hq
  simp only [faceXYCands, List.mem_cons, List.not_mem_nil, or_false] at hq
  unfold Hole at hn
  rcases hq with rfl | rfl | rfl | rfl <;> (rw [notHoleC3]; unfold Hole; omega)

theorem faceYZ_edges {Lx Ly Lz : Nat} {x y z : Int} (hf : isFaceYZ Lx Ly Lz x y z)
    (hn : ¬ Hole Lx Ly Lz x y z) : ∀ q ∈ faceYZCands x y z, notHoleC Lx Ly Lz q = true := by
  obtain ⟨hx, hy, hz⟩ := hf
  simp only [inE, inO, inE2, inO1] at hx hy hz
  intro q hq
  simp only [faceYZCands, List.mem_cons, List.not_mem_nil, or_false] at hq
  unfold Hole at hn
  rcases hq with rfl | rfl | rfl | rfl <;> (rw [notHoleC3]; unfold Hole; omega)

theorem faceXZ_edges {Lx Ly Lz : Nat} {x y z : Int} (hf : isFaceXZ Lx Ly Lz x y z)
    (hn : ¬ Hole Lx Ly Lz x y z) : ∀ q ∈ faceXZCands x y z, notHoleC Lx Ly Lz q = true := by
  obtain ⟨hx, hy, hz⟩ := hf
  simp only [inE, inO, inE2, inO1] at hx hy hz
  intro q hq
  simp only [faceXZCands, List.mem_cons, List.not_mem_nil, or_false] at hq
  unfold Hole at hn
  rcases hq with rfl | rfl | rfl | rfl <;> (rw [notHoleC3]; unfold Hole; omega)

/-- face operators are not truncated by the hole -/
theorem faceXYKeys_eq {Lx Ly Lz : Nat} {x y z : Int} (hf : isFaceXY Lx Ly Lz x y z)
    (hn : ¬ Hole Lx Ly Lz x y z) :
    faceXYKeys Lx Ly Lz x y z = Planar3DCode.faceXYKeys Lx Ly Lz x y z := by
  unfold faceXYKeys
  rw [List.filter_eq_self]
  intro q hq
  exact faceXY_edges hf hn q (List.mem_filter.mp hq).1

theorem faceYZKeys_eq {Lx Ly Lz : Nat} {x y z : Int} (hf : isFaceYZ Lx Ly Lz x y z)
    (hn : ¬ Hole Lx Ly Lz x y z) :
    faceYZKeys Lx Ly Lz x y z = Planar3DCode.faceYZKeys Lx Ly Lz x y z := by
  unfold faceYZKeys
  rw [List.filter_eq_self]
  intro q hq
  exact faceYZ_edges hf hn q (List.mem_filter.mp hq).1

theorem faceXZKeys_eq {Lx Ly Lz : Nat} {x y z : Int} (hf : isFaceXZ Lx Ly Lz x y z)
    (hn : ¬ Hole Lx Ly Lz x y z) :
    faceXZKeys Lx Ly Lz x y z = Planar3DCode.faceXZKeys Lx Ly Lz x y z := by
  unfold faceXZKeys
  rw [List.filter_eq_self]
  intro q hq
  exact faceXZ_edges hf hn q (List.mem_filter.mp hq).1

/-! ### `get_stabilizer` -/

theorem contains_stabs {Lx Ly Lz : Nat} {x y z : Int}
    (h : [x, y, z] ∈ Planar3DCode.stabs Lx Ly Lz) (hn : ¬ Hole Lx Ly Lz x y z) :
    (stabs Lx Ly Lz).contains [x, y, z] = true := by
  rw [List.contains_iff_mem, mem_stabs]; exact ⟨h, hn⟩

theorem getStab_vertex {Lx Ly Lz : Nat} {x y z : Int} (h : isVertex Lx Ly Lz x y z)
    (hn : ¬ Hole Lx Ly Lz x y z) :
    getStab Lx Ly Lz [x, y, z] = uop (vertexKeys Lx Ly Lz x y z) Pauli.Z := by
  have hs := contains_stabs (Planar3DCode.mem_stabs.mpr (Or.inl h)) hn
  obtain ⟨hx, hy, hz⟩ := h
  simp only [inE, inO, inE2, inO1] at hx hy hz
  have ht : typeOf x y = StabType.vertex := by
    simp [typeOf, hx.2.2, hy.2.2]
  have hc : candidates x y z vertexDelta = vertexCands x y z := by
    show _ = _
    simp only [candidates, vertexDelta, List.map_cons, List.map_nil, vertexCands, Int.add_zero,
      Int.sub_eq_add_neg]
  unfold getStab getStab?
  simp only [hs, if_true, ht, hc, Option.getD_some, reduceCtorEq, if_false]
  rw [collect_eq _ _ _ (vertexCands_nodup x y z), filter_contains]
  rfl

theorem getStab_faceXY {Lx Ly Lz : Nat} {x y z : Int} (h : isFaceXY Lx Ly Lz x y z)
    (hn : ¬ Hole Lx Ly Lz x y z) :
    getStab Lx Ly Lz [x, y, z] = uop (faceXYKeys Lx Ly Lz x y z) Pauli.X := by
  have hs := contains_stabs (Planar3DCode.mem_stabs.mpr (Or.inr (Or.inl h))) hn
  obtain ⟨hx, hy, hz⟩ := h
  simp only [inE, inO, inE2, inO1] at hx hy hz
  have ht : typeOf x y = StabType.face := by
    simp [typeOf, hx.2.2, hy.2.2]
  have hd : faceDelta x y z = [(-1, 0, 0), (1, 0, 0), (0, -1, 0), (0, 1, 0)] := by
    simp [faceDelta, hx.2.2, hy.2.2, hz.2.2]
  have hc : candidates x y z (faceDelta x y z) = faceXYCands x y z := by
    rw [hd]
    simp only [candidates, List.map_cons, List.map_nil, faceXYCands, Int.add_zero,
      Int.sub_eq_add_neg]
  unfold getStab getStab?
  simp only [hs, if_true, ht, hc, Option.getD_some, reduceCtorEq, if_false]
  rw [collect_eq _ _ _ (faceXYCands_nodup x y z), filter_contains]
  rfl

theorem getStab_faceYZ {Lx Ly Lz : Nat} {x y z : Int} (h : isFaceYZ Lx Ly Lz x y z)
    (hn : ¬ Hole Lx Ly Lz x y z) :
    getStab Lx Ly Lz [x, y, z] = uop (faceYZKeys Lx Ly Lz x y z) Pauli.X := by
  have hs := contains_stabs (Planar3DCode.mem_stabs.mpr (Or.inr (Or.inr (Or.inl h)))) hn
  obtain ⟨hx, hy, hz⟩ := h
  simp only [inE, inO, inE2, inO1] at hx hy hz
  have ht : typeOf x y = StabType.face := by
    simp [typeOf, hx.2.2, hy.2.2]
  have hd : faceDelta x y z = [(0, -1, 0), (0, 1, 0), (0, 0, -1), (0, 0, 1)] := by
    simp [faceDelta, hx.2.2, hy.2.2, hz.2.2]
  have hc : candidates x y z (faceDelta x y z) = faceYZCands x y z := by
    rw [hd]
    simp only [candidates, List.map_cons, List.map_nil, faceYZCands, Int.add_zero,
      Int.sub_eq_add_neg]
  unfold getStab getStab?
  simp only [hs, if_true, ht, hc, Option.getD_some, reduceCtorEq, if_false]
  rw [collect_eq _ _ _ (faceYZCands_nodup x y z), filter_contains]
  rfl

theorem getStab_faceXZ {Lx Ly Lz : Nat} {x y z : Int} (h : isFaceXZ Lx Ly Lz x y z)
    (hn : ¬ Hole Lx Ly Lz x y z) :
    getStab Lx Ly Lz [x, y, z] = uop (faceXZKeys Lx Ly Lz x y z) Pauli.X := by
  have hs := contains_stabs (Planar3DCode.mem_stabs.mpr (Or.inr (Or.inr (Or.inr h)))) hn
  obtain ⟨hx, hy, hz⟩ := h
  simp only [inE, inO, inE2, inO1] at hx hy hz
  have ht : typeOf x y = StabType.face := by
    simp [typeOf, hx.2.2, hy.2.2]
  have hd : faceDelta x y z = [(-1, 0, 0), (1, 0, 0), (0, 0, -1), (0, 0, 1)] := by
    simp [faceDelta, hx.2.2, hy.2.2, hz.2.2]
  have hc : candidates x y z (faceDelta x y z) = faceXZCands x y z := by
    rw [hd]
    simp only [candidates, List.map_cons, List.map_nil, faceXZCands, Int.add_zero,
      Int.sub_eq_add_neg]
  unfold getStab getStab?
  simp only [hs, if_true, ht, hc, Option.getD_some, reduceCtorEq, if_false]
  rw [collect_eq _ _ _ (faceXZCands_nodup x y z), filter_contains]
  rfl

/-! ### non-emptiness: a vertex keeps the x edge on its outer side -/

/-- the x edge of a vertex that is never in the hole: towards `x = 2Lx − 1` for the last layer of
    vertices, towards `x = 1` otherwise -/
def vertexEdge (Lx : Nat) (x y z : Int) : Coord :=
  if x = 2 * (Lx : Int) - 2 then [x + 1, y, z] else [x - 1, y, z]

theorem vertexEdge_mem {Lx Ly Lz : Nat} {x y z : Int} (h : isVertex Lx Ly Lz x y z)
    (hn : ¬ Hole Lx Ly Lz x y z) : vertexEdge Lx x y z ∈ vertexKeys Lx Ly Lz x y z := by
  obtain ⟨hx, hy, hz⟩ := h
  simp only [inE, inO, inE2, inO1] at hx hy hz
  unfold Hole at hn
  unfold vertexEdge
  by_cases hx2 : x = 2 * (Lx : Int) - 2
  · rw [if_pos hx2]
    simp only [vertexKeys, Planar3DCode.vertexKeys, List.mem_filter, isq_iff, notHoleC3]
    refine ⟨⟨by simp [vertexCands], ?_⟩, ?_⟩
    · rw [Planar3DCode.mem_qubits_x (by omega) (by omega) (by omega)]; omega
    · unfold Hole; omega
  · rw [if_neg hx2]
    simp only [vertexKeys, Planar3DCode.vertexKeys, List.mem_filter, isq_iff, notHoleC3]
    refine ⟨⟨by simp [vertexCands], ?_⟩, ?_⟩
    · rw [Planar3DCode.mem_qubits_x (by omega) (by omega) (by omega)]; omega
    · unfold Hole; omega

theorem vertexKeys_ne_nil {Lx Ly Lz : Nat} {x y z : Int} (h : isVertex Lx Ly Lz x y z)
    (hn : ¬ Hole Lx Ly Lz x y z) : vertexKeys Lx Ly Lz x y z ≠ [] := by
  intro h0
  have := vertexEdge_mem h hn
  rw [h0] at this
  exact List.not_mem_nil this

end Panqec.HollowPlanar3DCode
