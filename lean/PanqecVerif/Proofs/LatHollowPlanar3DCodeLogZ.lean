/-
`HollowPlanar3DCode`, every size: the logical Z of `get_logicals_z` — Z on the existing x edges of
the cross-section `x = 3` when `Lx ≥ 3` (the membrane through the cavity), of the end plane `x = 1`
otherwise — and the clauses of `Lattice.CommPair` / `Lattice.WF` that involve it.

The cross-section `x = 2i + 1` differs from the end plane `x = 1` by the product of the vertex
generators of the slabs `x = 2, …, 2i` (a vertex location in the hole has no generator, but then
none of its six neighbours is a qubit): `parity_Z` of `DistHollowPlanar3DCodeA.lean`.  Hence it
meets every face generator on an even number of qubits and the logical X line on an odd number, as
the end plane does (`LatHollowPlanar3DCodeWF.lean`).  Its weight is
`wZ = Ly·Lz − [Lx ≥ 3]·(Ly − 2)(Lz − 2)`.
-/
import PanqecVerif.Proofs.DistHollowPlanar3DCodeA

namespace Panqec.HollowPlanar3DCode
open Panqec.Cubic3D Panqec.Lat2D
open Panqec.Planar3DCode (inE inO inE2 inO1 isVertex isFaceXY isFaceYZ isFaceXZ isq isq_iff
  lxK lzK lineX planeX mem_lineX mem_planeX lineX_nodup planeX_nodup lxK_nodup lzK_nodup)

/-- the number of x edges in a cross-section through the hole (`x = 3`): the weight of the
    lightest Z membrane -/
def wZ (Lx Ly Lz : Nat) : Nat := Ly * Lz - (if 3 ≤ Lx then (Ly - 2) * (Lz - 2) else 0)

variable {Lx Ly Lz : Nat}

theorem keysNodup_uop {ks : List Coord} (p : Pauli) (h : ks.Nodup) : KeysNodup (uop ks p) :=
  keysNodup_line p h

/-! ### cross-sections -/

theorem mem_crossX {i : Nat} {q : Coord} :
    q ∈ crossX Lx Ly Lz i ↔ ∃ y z, inE Ly y ∧ inE Lz z ∧ q = [2 * (i : Int) + 1, y, z] ∧
      ¬ Hole Lx Ly Lz (2 * (i : Int) + 1) y z := by
  unfold crossX
  rw [List.mem_filter, mem_planeX]
  constructor
  · rintro ⟨⟨y, z, hy, hz, rfl⟩, hn⟩
    exact ⟨y, z, hy, hz, rfl, notHoleC3.mp hn⟩
  · rintro ⟨y, z, hy, hz, rfl, hn⟩
    exact ⟨⟨y, z, hy, hz, rfl⟩, notHoleC3.mpr hn⟩

theorem crossX_nodup (i : Nat) : (crossX Lx Ly Lz i).Nodup := (planeX_nodup Ly Lz i).filter _

theorem crossX_sub {i : Nat} (hi : i < Lx) : ∀ q ∈ crossX Lx Ly Lz i, q ∈ qubits Lx Ly Lz := by
  intro q hq
  obtain ⟨y, z, hy, hz, rfl, hn⟩ := mem_crossX.mp hq
  rw [mem_qubits, Planar3DCode.mem_qubits]
  refine ⟨?_, hn⟩
  simp only [inO1, inE, inE2, inO] at hy hz ⊢
  omega

theorem crossX_zero : crossX Lx Ly Lz 0 = lzK Ly Lz := by
  unfold crossX
  rw [Planar3DCode.lzK_eq, List.filter_eq_self]
  intro q hq
  obtain ⟨y, z, _, _, rfl⟩ := mem_planeX.mp hq
  rw [notHoleC3]
  intro h; unfold Hole at h; omega

/-- the cross-section `x = 3` has `wZ` x edges -/
theorem length_crossX_one : (crossX Lx Ly Lz 1).length = wZ Lx Ly Lz := by
  have e : crossX Lx Ly Lz 1 =
      gridH Lx Ly Lz [3] (range2 0 (2 * (Ly : Int))) (range2 0 (2 * (Lz : Int))) := by
    rw [gridH_eq]
    unfold crossX planeX Cubic3D.grid grid2
    simp
  have h := length_gridH Lx Ly Lz [3] (range2 0 (2 * (Ly : Int))) (range2 0 (2 * (Lz : Int)))
  rw [len_holeYZ_E, len_holeYZ_E, Planar3DCode.length_rangeE, Planar3DCode.length_rangeE] at h
  rw [e]
  unfold wZ
  by_cases h3 : 3 ≤ Lx
  · have hh : holeX Lx 3 = true := by
      simp only [holeX, Bool.and_eq_true, decide_eq_true_eq]; omega
    have hx : ([3] : List Int).filter (holeX Lx) = [3] := by simp [hh]
    rw [hx] at h
    simp only [List.length_cons, List.length_nil, Nat.zero_add, Nat.one_mul] at h
    rw [if_pos h3]
    omega
  · have hh : holeX Lx 3 = false := by
      rw [Bool.eq_false_iff]
      simp only [holeX, ne_eq, Bool.and_eq_true, decide_eq_true_eq]; omega
    have hx : ([3] : List Int).filter (holeX Lx) = [] := by simp [hh]
    rw [hx] at h
    simp only [List.length_cons, List.length_nil, Nat.zero_add, Nat.one_mul, Nat.zero_mul,
      Nat.add_zero] at h
    rw [if_neg h3]
    omega

/-! ### the listed logical Z -/

/-- the index of the cross-section that `get_logicals_z` uses: `x = 2·zIdx + 1` -/
def zIdx (Lx : Nat) : Nat := if 3 ≤ Lx then 1 else 0

theorem logZPlane_eq (Lx : Nat) : logZPlane Lx = 2 * ((zIdx Lx : Nat) : Int) + 1 := by
  unfold logZPlane zIdx
  split <;> rfl

theorem zIdx_lt (hLx : 1 ≤ Lx) : zIdx Lx < Lx := by
  unfold zIdx; split <;> omega

/-- `get_logicals_z` is the Z operator on the existing x edges of the cross-section
    `x = 2·zIdx + 1` -/
theorem logZ_eq (Lx Ly Lz : Nat) :
    logZ Lx Ly Lz = [uop (crossX Lx Ly Lz (zIdx Lx)) Pauli.Z] := by
  unfold logZ crossX planeX grid2 uop
  rw [logZPlane_eq, List.filter_flatMap, List.map_flatMap]
  congr 1
  apply List.flatMap_congr
  intro y _
  rw [List.filter_map, List.map_map]
  rfl

/-- the listed logical Z has `wZ` letters: the full plane `Ly·Lz` when `Lx ≤ 2`, the plane minus the
    `(Ly − 2)(Lz − 2)` x edges in the hole when `Lx ≥ 3` -/
theorem length_crossX_zIdx : (crossX Lx Ly Lz (zIdx Lx)).length = wZ Lx Ly Lz := by
  unfold zIdx
  by_cases h3 : 3 ≤ Lx
  · rw [if_pos h3]; exact length_crossX_one
  · rw [if_neg h3, crossX_zero]
    unfold wZ
    rw [if_neg h3]
    simp only [lzK, length_grid2, Planar3DCode.length_rangeE]
    omega

/-- every logical operator is a one-letter operator on a list of distinct qubits -/
theorem logical_form (hLx : 1 ≤ Lx) (hLy : 1 ≤ Ly) (hLz : 1 ≤ Lz) {a : Op}
    (ha : a ∈ logX Lx Ly Lz ++ logZ Lx Ly Lz) :
    ∃ ks p, a = uop ks p ∧ ks.Nodup ∧ (∀ q ∈ ks, q ∈ qubits Lx Ly Lz) ∧ p ≠ Pauli.I := by
  rw [logX_eq, logZ_eq] at ha
  simp only [List.cons_append, List.nil_append, List.mem_cons, List.not_mem_nil, or_false] at ha
  rcases ha with rfl | rfl
  · exact ⟨_, _, rfl, lxK_nodup _, lxK_sub hLy hLz, by decide⟩
  · exact ⟨_, _, rfl, crossX_nodup _, crossX_sub (zIdx_lt hLx), by decide⟩

/-! ### the clauses of `CommPair` that involve the logical Z -/

section
variable (hLx : 1 ≤ Lx) (hLy : 1 ≤ Ly) (hLz : 1 ≤ Lz)
include hLx hLy hLz

/-- a stabilizer generator commutes with every stabilizer generator -/
theorem commStabs_getStab {s : Coord} (hs : s ∈ stabs Lx Ly Lz) :
    CommStabs Lx Ly Lz (getStab Lx Ly Lz s) := by
  intro t ht
  rw [lattice_stabs] at ht
  rw [lattice_getStab]
  exact (opCommute_iff _ _).mp (stab_comm hLx hLy hLz ht hs)

/-- the logical X line commutes with every stabilizer generator -/
theorem commStabs_lxK : CommStabs Lx Ly Lz (uop (lxK Lx) Pauli.X) := by
  intro t ht
  rw [lattice_stabs] at ht
  rw [lattice_getStab]
  obtain ⟨ks, p, h, hn, _⟩ := getStab_form hLx ht
  have hk : KeysNodup (getStab Lx Ly Lz t) := by rw [h]; exact keysNodup_uop p hn
  rw [opAntiCount_comm_mod2 hk (keysNodup_uop Pauli.X (lxK_nodup Lx))]
  exact (opCommute_iff _ _).mp (logX_comm hLx hLy hLz (by rw [logX_eq]; simp) ht)

/-- every cross-section of existing x edges commutes with every generator: it has the parities of
    the end plane `x = 1` -/
theorem crossX_comm {i : Nat} (hi : i < Lx) {s : Coord} (hs : s ∈ stabs Lx Ly Lz) :
    opCommute (uop (crossX Lx Ly Lz i) Pauli.Z) (getStab Lx Ly Lz s) = true := by
  rw [opCommute_iff, opAntiCount_uop_hit, parity_Z (commStabs_getStab hLx hLy hLz hs) i hi,
    crossX_zero, ← opAntiCount_uop_hit, ← opCommute_iff]
  exact lzK_comm hLx hLy hLz hs

/-- every cross-section of existing x edges anticommutes with the logical X line -/
theorem crossX_anti {i : Nat} (hi : i < Lx) :
    opAntiCount (uop (lxK Lx) Pauli.X) (uop (crossX Lx Ly Lz i) Pauli.Z) % 2 = 1 := by
  rw [opAntiCount_comm_mod2 (keysNodup_uop Pauli.X (lxK_nodup Lx))
      (keysNodup_uop Pauli.Z (crossX_nodup i)),
    opAntiCount_uop_hit, parity_Z (commStabs_lxK hLx hLy hLz) i hi, crossX_zero,
    ← opAntiCount_uop_hit,
    ← opAntiCount_comm_mod2 (keysNodup_uop Pauli.X (lxK_nodup Lx))
      (keysNodup_uop Pauli.Z (lzK_nodup Ly Lz))]
  exact lxK_lzK_anti hLx hLy hLz

theorem logZ_comm {a : Op} (ha : a ∈ logZ Lx Ly Lz) {s : Coord} (hs : s ∈ stabs Lx Ly Lz) :
    opCommute a (getStab Lx Ly Lz s) = true := by
  rw [logZ_eq] at ha
  simp only [List.mem_cons, List.not_mem_nil, or_false] at ha
  subst ha
  exact crossX_comm hLx hLy hLz (zIdx_lt hLx) hs

theorem pairing (i j : Nat) (hi : i < 1) (hj : j < 1) :
    opAntiCount ((logX Lx Ly Lz).getD i []) ((logZ Lx Ly Lz).getD j []) % 2 =
      if i = j then 1 else 0 := by
  obtain rfl : i = 0 := by omega
  obtain rfl : j = 0 := by omega
  rw [logX_eq, logZ_eq]
  simp only [List.getD_cons_zero, if_true]
  exact crossX_anti hLx hLy hLz (zIdx_lt hLx)

end

theorem logZZ {a b : Op} (ha : a ∈ logZ Lx Ly Lz) (hb : b ∈ logZ Lx Ly Lz) :
    opCommute a b = true := by
  rw [logZ_eq] at ha hb
  simp only [List.mem_cons, List.not_mem_nil, or_false] at ha hb
  subst ha hb
  exact opCommute_uop_same _ _ _

end Panqec.HollowPlanar3DCode
