/-
Color3DCode, even sides `≥ 2`: `Lattice.CommPair` (generated case analysis over the 81 pairs).
Core Lean only.
-/
import PanqecVerif.Proofs.LatColor3DCodeO

set_option linter.unusedVariables false
set_option linter.unusedSectionVars false

namespace Panqec.Color3DCode
open Panqec.Lat2D Panqec.Color

theorem pairing_all {Mx My Mz : Nat} (hx : 2 ≤ 2 * Mx) (hy : 2 ≤ 2 * My) (hz : 2 ≤ 2 * Mz) :
    ∀ i j, i < 9 → j < 9 →
      opAntiCount ((logX (2 * Mx) (2 * My) (2 * Mz)).getD i [])
        ((logZ (2 * Mx) (2 * My) (2 * Mz)).getD j []) % 2 = if i = j then 1 else 0 := by
  intro i j hi hj
  rw [logX_eq, logZ_eq]
  have hi' : i = 0 ∨ i = 1 ∨ i = 2 ∨ i = 3 ∨ i = 4 ∨ i = 5 ∨ i = 6 ∨ i = 7 ∨ i = 8 := by omega
  have hj' : j = 0 ∨ j = 1 ∨ j = 2 ∨ j = 3 ∨ j = 4 ∨ j = 5 ∨ j = 6 ∨ j = 7 ∨ j = 8 := by omega
  rcases hi' with rfl | rfl | rfl | rfl | rfl | rfl | rfl | rfl | rfl <;>
    rcases hj' with rfl | rfl | rfl | rfl | rfl | rfl | rfl | rfl | rfl
  · exact pair_1_1 hx hy hz
  · exact pair_1_2 hx hy hz
  · exact pair_1_3 hx hy hz
  · exact pair_1_4 hx hy hz
  · exact pair_1_5 hx hy hz
  · exact pair_1_6 hx hy hz
  · exact pair_1_7 hx hy hz
  · exact pair_1_8 hx hy hz
  · exact pair_1_9 hx hy hz
  · exact pair_2_1 hx hy hz
  · exact pair_2_2 hx hy hz
  · exact pair_2_3 hx hy hz
  · exact pair_2_4 hx hy hz
  · exact pair_2_5 hx hy hz
  · exact pair_2_6 hx hy hz
  · exact pair_2_7 hx hy hz
  · exact pair_2_8 hx hy hz
  · exact pair_2_9 hx hy hz
  · exact pair_3_1 hx hy hz
  · exact pair_3_2 hx hy hz
  · exact pair_3_3 hx hy hz
  · exact pair_3_4 hx hy hz
  · exact pair_3_5 hx hy hz
  · exact pair_3_6 hx hy hz
  · exact pair_3_7 hx hy hz
  · exact pair_3_8 hx hy hz
  · exact pair_3_9 hx hy hz
  · exact pair_4_1 hx hy hz
  · exact pair_4_2 hx hy hz
  · exact pair_4_3 hx hy hz
  · exact pair_4_4 hx hy hz
  · exact pair_4_5 hx hy hz
  · exact pair_4_6 hx hy hz
  · exact pair_4_7 hx hy hz
  · exact pair_4_8 hx hy hz
  · exact pair_4_9 hx hy hz
  · exact pair_5_1 hx hy hz
  · exact pair_5_2 hx hy hz
  · exact pair_5_3 hx hy hz
  · exact pair_5_4 hx hy hz
  · exact pair_5_5 hx hy hz
  · exact pair_5_6 hx hy hz
  · exact pair_5_7 hx hy hz
  · exact pair_5_8 hx hy hz
  · exact pair_5_9 hx hy hz
  · exact pair_6_1 hx hy hz
  · exact pair_6_2 hx hy hz
  · exact pair_6_3 hx hy hz
  · exact pair_6_4 hx hy hz
  · exact pair_6_5 hx hy hz
  · exact pair_6_6 hx hy hz
  · exact pair_6_7 hx hy hz
  · exact pair_6_8 hx hy hz
  · exact pair_6_9 hx hy hz
  · exact pair_7_1 hx hy hz
  · exact pair_7_2 hx hy hz
  · exact pair_7_3 hx hy hz
  · exact pair_7_4 hx hy hz
  · exact pair_7_5 hx hy hz
  · exact pair_7_6 hx hy hz
  · exact pair_7_7 hx hy hz
  · exact pair_7_8 hx hy hz
  · exact pair_7_9 hx hy hz
  · exact pair_8_1 hx hy hz
  · exact pair_8_2 hx hy hz
  · exact pair_8_3 hx hy hz
  · exact pair_8_4 hx hy hz
  · exact pair_8_5 hx hy hz
  · exact pair_8_6 hx hy hz
  · exact pair_8_7 hx hy hz
  · exact pair_8_8 hx hy hz
  · exact pair_8_9 hx hy hz
  · exact pair_9_1 hx hy hz
  · exact pair_9_2 hx hy hz
  · exact pair_9_3 hx hy hz
  · exact pair_9_4 hx hy hz
  · exact pair_9_5 hx hy hz
  · exact pair_9_6 hx hy hz
  · exact pair_9_7 hx hy hz
  · exact pair_9_8 hx hy hz
  · exact pair_9_9 hx hy hz

theorem commPair_all {Lx Ly Lz : Nat} (hx : 2 ≤ Lx) (hy : 2 ≤ Ly) (hz : 2 ≤ Lz) (ex : Lx % 2 = 0)
    (ey : Ly % 2 = 0) (ez : Lz % 2 = 0) : (lattice Lx Ly Lz).CommPair where
  stab_comm := stab_comm_all hx hy hz
  logX_comm := logX_comm_all hx hy hz ex ey ez
  logZ_comm := logZ_comm_all hx hy hz ex ey ez
  same_k := rfl
  pairing := by
    obtain ⟨Mx, rfl⟩ : ∃ M, Lx = 2 * M := ⟨Lx / 2, by omega⟩
    obtain ⟨My, rfl⟩ : ∃ M, Ly = 2 * M := ⟨Ly / 2, by omega⟩
    obtain ⟨Mz, rfl⟩ : ∃ M, Lz = 2 * M := ⟨Lz / 2, by omega⟩
    exact pairing_all hx hy hz
  logXX := by
    intro a ha b hb
    have ha' : a ∈ logX Lx Ly Lz := ha
    have hb' : b ∈ logX Lx Ly Lz := hb
    rw [logX_eq] at ha' hb'
    simp only [List.mem_cons, List.not_mem_nil, or_false] at ha' hb'
    rcases ha' with rfl | rfl | rfl | rfl | rfl | rfl | rfl | rfl | rfl <;>
      rcases hb' with rfl | rfl | rfl | rfl | rfl | rfl | rfl | rfl | rfl <;>
      exact lineOp_same_comm hx hy hz ex ey ez _ _ _
  logZZ := by
    intro a ha b hb
    have ha' : a ∈ logZ Lx Ly Lz := ha
    have hb' : b ∈ logZ Lx Ly Lz := hb
    rw [logZ_eq] at ha' hb'
    simp only [List.mem_cons, List.not_mem_nil, or_false] at ha' hb'
    rcases ha' with rfl | rfl | rfl | rfl | rfl | rfl | rfl | rfl | rfl <;>
      rcases hb' with rfl | rfl | rfl | rfl | rfl | rfl | rfl | rfl | rfl <;>
      exact lineOp_same_comm hx hy hz ex ey ez _ _ _

end Panqec.Color3DCode
