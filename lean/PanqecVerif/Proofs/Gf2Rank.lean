/-
`gf2_rank` / `brank` (`panqec/bpauli.py`) compute the GF(2) rank.

Rows given as binary integers are read as vectors `Fin w → ZMod 2` (coordinate `i` = bit
`i`); the rank is Mathlib's `Module.finrank` of the span of the rows.  The invariant of the
elimination loop of `gf2RankAux` is

    rank counted so far + finrank (span of the remaining rows)  is constant:

* a zero pivot adds nothing to the span;
* a non-zero pivot `p` with lowest set bit `t`: xoring `p` into some of the other rows
  does not change the span of (rows ∪ {p}); afterwards no remaining row has bit `t`, so
  no vector of their span has coordinate `t`, hence `p` is not in it and
  `finrank (span rest' ⊔ span {p}) = finrank (span rest') + 1`.
-/
import Mathlib.LinearAlgebra.FiniteDimensional.Lemmas
import Mathlib.LinearAlgebra.Dimension.Constructions
import Mathlib.Data.ZMod.Basic
import Mathlib.Algebra.Field.ZMod
import PanqecVerif.Proofs.Gf2RankBits

namespace Panqec

open Module Submodule

/-! ### masks as vectors over GF(2) -/

/-- a row mask read as a vector of `w` coordinates: coordinate `i` is bit `i` -/
def toVecMask (w : ℕ) (m : ℕ) : Fin w → ZMod 2 := fun i => if m.testBit i then 1 else 0

theorem toVecMask_xor (w a b : ℕ) :
    toVecMask w (a ^^^ b) = toVecMask w a + toVecMask w b := by
  funext i
  simp only [toVecMask, Pi.add_apply, Nat.testBit_xor]
  cases a.testBit i <;> cases b.testBit i <;> simp
  rfl

theorem toVecMask_zero (w : ℕ) : toVecMask w 0 = 0 := by
  funext i; simp [toVecMask]

theorem toVecMask_add_self (w a : ℕ) : toVecMask w a + toVecMask w a = 0 := by
  rw [← toVecMask_xor, Nat.xor_self, toVecMask_zero]

/-- masks below `2 ^ w` are determined by their vector -/
theorem toVecMask_injective {w a b : ℕ} (ha : a < 2 ^ w) (hb : b < 2 ^ w)
    (h : toVecMask w a = toVecMask w b) : a = b := by
  apply Nat.eq_of_testBit_eq
  intro i
  by_cases hi : i < w
  · have := congrFun h ⟨i, hi⟩
    simp only [toVecMask] at this
    cases ha' : a.testBit i <;> cases hb' : b.testBit i <;> simp [ha', hb'] at this <;> rfl
  · have hw : 2 ^ w ≤ 2 ^ i := Nat.pow_le_pow_right (by omega) (by omega)
    rw [Nat.testBit_lt_two_pow (by omega), Nat.testBit_lt_two_pow (by omega)]

/-- generic: the range of `i ↦ f l[i]` is the image of the members of `l` -/
theorem range_getElem_eq_image {α β : Type*} (f : α → β) (l : List α) :
    (Set.range fun i : Fin l.length => f l[i]) = f '' {x | x ∈ l} := by
  ext v
  constructor
  · rintro ⟨i, rfl⟩
    exact ⟨l[i], List.getElem_mem _, rfl⟩
  · rintro ⟨x, hx, rfl⟩
    obtain ⟨i, hi, rfl⟩ := List.getElem_of_mem hx
    exact ⟨⟨i, hi⟩, rfl⟩

/-- the row space of a list of masks -/
def maskSpan (w : ℕ) (rows : List ℕ) : Submodule (ZMod 2) (Fin w → ZMod 2) :=
  span (ZMod 2) (Set.range fun i : Fin rows.length => toVecMask w rows[i])

/-- **the GF(2) rank** of a list of masks: dimension of the row space -/
noncomputable def maskRank (w : ℕ) (rows : List ℕ) : ℕ := finrank (ZMod 2) (maskSpan w rows)

theorem maskSpan_eq_image (w : ℕ) (rows : List ℕ) :
    maskSpan w rows = span (ZMod 2) (toVecMask w '' {r | r ∈ rows}) := by
  rw [maskSpan, range_getElem_eq_image]

theorem mem_maskSpan_of_mem {w : ℕ} {rows : List ℕ} {r : ℕ} (h : r ∈ rows) :
    toVecMask w r ∈ maskSpan w rows := by
  rw [maskSpan_eq_image]
  exact subset_span ⟨r, h, rfl⟩

theorem maskSpan_le {w : ℕ} {rows : List ℕ} {S : Submodule (ZMod 2) (Fin w → ZMod 2)}
    (h : ∀ r ∈ rows, toVecMask w r ∈ S) : maskSpan w rows ≤ S := by
  rw [maskSpan_eq_image, span_le]
  rintro _ ⟨r, hr, rfl⟩
  exact h r hr

theorem maskSpan_nil (w : ℕ) : maskSpan w [] = ⊥ := by
  rw [eq_bot_iff]; exact maskSpan_le (by simp)

theorem maskRank_nil (w : ℕ) : maskRank w [] = 0 := by
  rw [maskRank, maskSpan_nil, finrank_bot]

theorem maskSpan_snoc (w : ℕ) (rest : List ℕ) (p : ℕ) :
    maskSpan w (rest ++ [p]) = maskSpan w rest ⊔ span (ZMod 2) {toVecMask w p} := by
  apply le_antisymm
  · apply maskSpan_le
    intro r hr
    rcases List.mem_append.mp hr with h | h
    · exact mem_sup_left (mem_maskSpan_of_mem h)
    · rw [List.mem_singleton] at h; subst h
      exact mem_sup_right (mem_span_singleton_self _)
  · apply sup_le
    · exact maskSpan_le fun r hr => mem_maskSpan_of_mem (List.mem_append_left _ hr)
    · rw [span_le, Set.singleton_subset_iff]
      exact mem_maskSpan_of_mem (by simp)

/-- a zero row does not change the row space -/
theorem maskSpan_snoc_zero (w : ℕ) (rest : List ℕ) :
    maskSpan w (rest ++ [0]) = maskSpan w rest := by
  rw [maskSpan_snoc, toVecMask_zero, span_zero_singleton, sup_bot_eq]

/-- xoring the pivot into any selection of the other rows does not change the span of
    (other rows) ∪ {pivot} -/
theorem maskSpan_eliminate (w : ℕ) (rest : List ℕ) (p : ℕ) (c : ℕ → Prop) [DecidablePred c] :
    maskSpan w (rest.map fun r => if c r then r ^^^ p else r) ⊔ span (ZMod 2) {toVecMask w p}
      = maskSpan w rest ⊔ span (ZMod 2) {toVecMask w p} := by
  have hp : toVecMask w p ∈ span (ZMod 2) {toVecMask w p} := mem_span_singleton_self _
  apply le_antisymm
  · apply sup_le _ le_sup_right
    apply maskSpan_le
    intro r' hr'
    obtain ⟨r, hr, rfl⟩ := List.mem_map.mp hr'
    by_cases hc : c r
    · simp only [hc, if_true, toVecMask_xor]
      exact add_mem (mem_sup_left (mem_maskSpan_of_mem hr)) (mem_sup_right hp)
    · simp only [hc, if_false]
      exact mem_sup_left (mem_maskSpan_of_mem hr)
  · apply sup_le _ le_sup_right
    apply maskSpan_le
    intro r hr
    have hmem : (if c r then r ^^^ p else r) ∈ rest.map fun r => if c r then r ^^^ p else r :=
      List.mem_map.mpr ⟨r, hr, rfl⟩
    have h1 := mem_maskSpan_of_mem (w := w) hmem
    by_cases hc : c r
    · simp only [hc, if_true] at h1
      have e : toVecMask w r = toVecMask w (r ^^^ p) + toVecMask w p := by
        rw [toVecMask_xor, add_assoc, toVecMask_add_self, add_zero]
      rw [e]
      exact add_mem (mem_sup_left h1) (mem_sup_right hp)
    · simp only [hc, if_false] at h1
      exact mem_sup_left h1

/-- if no row has bit `t`, no vector of the row space has coordinate `t` -/
theorem maskSpan_coord_zero {w : ℕ} {rows : List ℕ} {t : ℕ} (ht : t < w)
    (h : ∀ r ∈ rows, r.testBit t = false) :
    ∀ v ∈ maskSpan w rows, v ⟨t, ht⟩ = 0 := by
  have hle : maskSpan w rows ≤ LinearMap.ker (LinearMap.proj (R := ZMod 2) (φ := fun _ => ZMod 2)
      (⟨t, ht⟩ : Fin w)) := by
    apply maskSpan_le
    intro r hr
    rw [LinearMap.mem_ker, LinearMap.proj_apply]
    simp [toVecMask, h r hr]
  intro v hv
  have := hle hv
  rwa [LinearMap.mem_ker, LinearMap.proj_apply] at this

/-- a mask with bit `t` is not in the span of masks without bit `t` -/
theorem notMem_maskSpan_of_bit {w : ℕ} {rows : List ℕ} {p t : ℕ} (ht : t < w)
    (hp : p.testBit t = true) (h : ∀ r ∈ rows, r.testBit t = false) :
    toVecMask w p ∉ maskSpan w rows := by
  intro hmem
  have := maskSpan_coord_zero ht h _ hmem
  simp [toVecMask, hp] at this

/-! ### the loop invariant -/

theorem gf2RankAux_nil (fuel rank : ℕ) : gf2RankAux fuel [] rank = rank := by
  cases fuel <;> simp [gf2RankAux]

/-- one pass of the loop, with the popped (last) row made explicit -/
theorem gf2RankAux_snoc (fuel : ℕ) (rest : List ℕ) (pivot rank : ℕ) :
    gf2RankAux (fuel + 1) (rest ++ [pivot]) rank =
      if pivot = 0 then gf2RankAux fuel rest rank
      else gf2RankAux fuel
        (rest.map fun r => if r &&& lowBit pivot ≠ 0 then r ^^^ pivot else r) (rank + 1) := by
  simp [gf2RankAux]

/-- after eliminating with pivot `p` (lowest set bit `t`) no remaining row has bit `t` -/
theorem eliminated_bit_clear {p t : ℕ} (hp : p.testBit t = true) (rest : List ℕ) :
    ∀ r' ∈ rest.map (fun r => if r &&& 2 ^ t ≠ 0 then r ^^^ p else r),
      r'.testBit t = false := by
  intro r' hr'
  obtain ⟨r, _, rfl⟩ := List.mem_map.mp hr'
  by_cases hc : r &&& 2 ^ t ≠ 0
  · have hb := (and_two_pow_ne_zero_iff r t).mp hc
    rw [if_pos hc, Nat.testBit_xor, hb, hp]
    rfl
  · have hb : r.testBit t = false := by
      cases h : r.testBit t with
      | false => rfl
      | true => exact absurd ((and_two_pow_ne_zero_iff r t).mpr h) hc
    rw [if_neg hc, hb]

theorem eliminated_lt {w p : ℕ} (hp : p < 2 ^ w) (c : ℕ → Prop) [DecidablePred c]
    (rest : List ℕ) (h : ∀ r ∈ rest, r < 2 ^ w) :
    ∀ r' ∈ rest.map (fun r => if c r then r ^^^ p else r), r' < 2 ^ w := by
  intro r' hr'
  obtain ⟨r, hr, rfl⟩ := List.mem_map.mp hr'
  by_cases hc : c r
  · simp only [hc, if_true]; exact Nat.xor_lt_two_pow (h r hr) hp
  · simp only [hc, if_false]; exact h r hr

/-- **loop invariant of `gf2_rank`**: the final answer is the rank counted so far plus the
    GF(2) rank of the rows still on the stack. -/
theorem gf2RankAux_eq (w : ℕ) : ∀ (fuel : ℕ) (rows : List ℕ) (rank : ℕ),
    rows.length ≤ fuel → (∀ r ∈ rows, r < 2 ^ w) →
    gf2RankAux fuel rows rank = rank + maskRank w rows := by
  intro fuel
  induction fuel with
  | zero =>
    intro rows rank hlen _
    have : rows = [] := List.length_eq_zero_iff.mp (by omega)
    subst this
    rw [gf2RankAux_nil, maskRank_nil, add_zero]
  | succ fuel ih =>
    intro rows rank hlen hlt
    rcases List.eq_nil_or_concat rows with rfl | ⟨rest, pivot, rfl⟩
    · rw [gf2RankAux_nil, maskRank_nil, add_zero]
    · rw [List.concat_eq_append] at hlen hlt ⊢
      have hlen' : rest.length ≤ fuel := by
        rw [List.length_append, List.length_singleton] at hlen; omega
      have hrest : ∀ r ∈ rest, r < 2 ^ w := fun r hr => hlt r (List.mem_append_left _ hr)
      have hpiv : pivot < 2 ^ w := hlt pivot (by simp)
      rw [gf2RankAux_snoc]
      by_cases hp0 : pivot = 0
      · subst hp0
        rw [if_pos rfl, ih rest rank hlen' hrest, maskRank, maskRank, maskSpan_snoc_zero]
      · rw [if_neg hp0]
        obtain ⟨t, hlb, hbit, hlow⟩ := lowBit_spec pivot hp0
        have htw : t < w := lt_two_pow_of_isLowestBit ⟨hbit, hlow⟩ hpiv
        rw [hlb]
        have hlen'' : (rest.map fun r => if r &&& 2 ^ t ≠ 0 then r ^^^ pivot else r).length
            ≤ fuel := by rw [List.length_map]; exact hlen'
        rw [ih _ (rank + 1) hlen''
          (eliminated_lt hpiv (fun r => r &&& 2 ^ t ≠ 0) rest hrest)]
        have hnot := notMem_maskSpan_of_bit (w := w) htw hbit (eliminated_bit_clear hbit rest)
        have hfin := finrank_sup_span_singleton hnot
        rw [maskSpan_eliminate w rest pivot (fun r => r &&& 2 ^ t ≠ 0), ← maskSpan_snoc] at hfin
        rw [maskRank, maskRank, hfin]
        omega

/-- **MAIN: `gf2_rank` computes the GF(2) rank.**  For rows that fit in `w` bits the
    value returned by the elimination loop equals the dimension over `ZMod 2` of the span
    of the rows read as vectors `Fin w → ZMod 2`. -/
theorem gf2Rank_eq_finrank (w : ℕ) (rows : List ℕ) (h : ∀ r ∈ rows, r < 2 ^ w) :
    gf2Rank rows = maskRank w rows := by
  rw [gf2Rank, gf2RankAux_eq w rows.length rows 0 (le_refl _) h, zero_add]

end Panqec
