/-
Union-find internals (C05), growth phase, part F: `Clustering_Tree.grow`, the choice of the
smallest odd cluster, the `while` loop of `Support.clustering`, the initial state.
-/
import PanqecVerif.Proofs.UnionFindGrowE

namespace Panqec.UF

set_option linter.unusedSimpArgs false
set_option linter.unusedVariables false

/-! ### `grow` only zeroes entries of `_H_to_grow` -/

theorem growStep_mono (H : Mat) (acc : GrowAcc) (b : Int) :
    (∀ i, acc.rowDead i = true → (growStep H acc b).rowDead i = true) ∧
    (∀ i, acc.colDead i = true → (growStep H acc b).colDead i = true) := by
  unfold growStep
  by_cases hb : b < 0
  · simp only [hb, if_true]
    exact ⟨fun i h => by by_cases hi : i = unhashS b <;> simp [hi, h], fun i h => h⟩
  · simp only [hb, if_false]
    exact ⟨fun i h => h, fun i h => by by_cases hi : i = b.toNat <;> simp [hi, h]⟩

theorem growFold_mono (H : Mat) (l : List Int) (acc : GrowAcc) :
    (∀ i, acc.rowDead i = true → (l.foldl (growStep H) acc).rowDead i = true) ∧
    (∀ i, acc.colDead i = true → (l.foldl (growStep H) acc).colDead i = true) := by
  induction l generalizing acc with
  | nil => exact ⟨fun _ h => h, fun _ h => h⟩
  | cons b l ih =>
    simp only [List.foldl_cons]
    have h1 := growStep_mono H acc b
    have h2 := ih (growStep H acc b)
    exact ⟨fun i h => h2.1 i (h1.1 i h), fun i h => h2.2 i (h1.2 i h)⟩

theorem grown_mono {H : Mat} {rd cd rd' cd' : Nat → Bool}
    (hr : ∀ i, rd i = true → rd' i = true) (hc : ∀ i, cd i = true → cd' i = true) {u q : Nat}
    (h : grown H rd cd u q = true) : grown H rd' cd' u q = true := by
  unfold grown live at h ⊢
  cases hh : hb H u q
  · simp [hh] at h
  · simp only [hh, Bool.true_and, Bool.not_and, Bool.not_not, Bool.or_eq_true] at h ⊢
    rcases h with h | h
    · exact Or.inl (hr u h)
    · exact Or.inr (hc q h)

theorem upd_root (c0 : Cluster) (p : Prop) [Decidable p] (nb : List Int) :
    (if p then { c0 with bnd := nb } else c0).root = c0.root := by split <;> rfl

theorem upd_size (c0 : Cluster) (p : Prop) [Decidable p] (nb : List Int) :
    (if p then { c0 with bnd := nb } else c0).size = c0.size := by split <;> rfl

theorem upd_odd (c0 : Cluster) (p : Prop) [Decidable p] (nb : List Int) :
    (if p then { c0 with bnd := nb } else c0).odd = c0.odd := by split <;> rfl

/-- the state after `c.grow()` (before the merges) still satisfies the invariant -/
theorem GInv_grow {H : Mat} {sy : Vec} {st : GState} {rep d : Nat → Nat} (I : GInv H sy st rep d)
    (c : Cluster) : GInv H sy (growCluster H st c).2 rep d := by
  unfold growCluster
  simp only []
  have hmono := growFold_mono H (st.sched.take c.bnd).1 ⟨st.rowDead, st.colDead, [], []⟩
  refine ⟨I.uf, ⟨?_, ?_, ?_, ?_, I.fi.defect_live⟩, I.nbad, ?_, I.qrng⟩
  · intro x
    rw [← I.fi.roots_iff]
    constructor
    · rintro ⟨c', hc', hr⟩
      obtain ⟨c0, hc0, rfl⟩ := List.mem_map.mp hc'
      rw [upd_root] at hr
      exact ⟨c0, hc0, hr⟩
    · rintro ⟨c0, hc0, hr⟩
      refine ⟨_, List.mem_map.mpr ⟨c0, hc0, rfl⟩, ?_⟩
      rw [upd_root]; exact hr
  · have : (List.map (fun x => x.root)
        (st.forest.map fun d => if d.root = c.root then { d with bnd :=
          ((st.sched.take c.bnd).1.foldl (growStep H) ⟨st.rowDead, st.colDead, [], []⟩).newB } else d)) =
        st.forest.map (·.root) := by
      rw [List.map_map]
      apply List.map_congr_left
      intro a _
      exact upd_root a _ _
    rw [this]; exact I.fi.roots_nodup
  · intro c' hc'
    obtain ⟨c0, hc0, rfl⟩ := List.mem_map.mp hc'
    rw [upd_size]; exact I.fi.size_pos c0 hc0
  · intro c' hc'
    obtain ⟨c0, hc0, rfl⟩ := List.mem_map.mp hc'
    rw [upd_odd, upd_root]; exact I.fi.odd_ok c0 hc0
  · intro i hi
    apply (I.conn i hi).lift
    intro u q v e
    exact ⟨grown_mono hmono.1 hmono.2 e.gu, grown_mono hmono.1 hmono.2 e.gv, e.lu, e.lv, e.same, e.qp⟩

theorem GInv_fuseFold {H : Mat} {sy : Vec} (l : List Int) :
    ∀ (st : GState) (rep d : Nat → Nat), GInv H sy st rep d →
      ∃ rep' d', GInv H sy (l.foldl (fuseStep H) st) rep' d' := by
  induction l with
  | nil => intro st rep d I; exact ⟨rep, d, I⟩
  | cons q l ih =>
    intro st rep d I
    obtain ⟨rep1, d1, I1⟩ := GInv_fuse I q
    simp only [List.foldl_cons]
    exact ih _ rep1 d1 I1

/-- one turn of the `while` loop -/
theorem GInv_iter {H : Mat} {sy : Vec} {st : GState} {rep d : Nat → Nat} (I : GInv H sy st rep d)
    (c : Cluster) : ∃ rep' d', GInv H sy (growIter H st c) rep' d' := by
  unfold growIter
  simp only []
  have I1 := GInv_grow I c
  have I2 : GInv H sy { (growCluster H st c).2 with
      sched := ((growCluster H st c).2.sched.take (growCluster H st c).1).2 } rep d :=
    ⟨I1.uf, I1.fi, I1.nbad, I1.conn, I1.qrng⟩
  exact GInv_fuseFold _ _ rep d I2

/-! ### the choice of the cluster -/

theorem take_mem (sc : Sched) (s : List Int) (x : Int) : x ∈ (sc.take s).1 ↔ x ∈ s := by
  unfold Sched.take
  cases hr : sc.rest with
  | nil => simp
  | cons l rest =>
    simp only []
    by_cases hp : isPermOf l s = true
    · simp only [hp, if_true]
      unfold isPermOf at hp
      simp only [Bool.and_eq_true, List.all_eq_true, decide_eq_true_eq] at hp
      exact ⟨fun h => hp.1.1.2 x h, fun h => hp.1.2 x h⟩
    · simp [hp]

theorem smallestInvalid_none (order : List Cluster) (h : smallestInvalid order = none) :
    ∀ c, c ∈ order → c.odd = false := by
  unfold smallestInvalid at h
  have key : ∀ (l : List Cluster) (a : Option Cluster),
      l.foldl (fun (acc : Option Cluster) c =>
        if c.odd then
          match acc with
          | none => some c
          | some a => if c.size < a.size then some c else acc
        else acc) a = none → a = none ∧ ∀ c, c ∈ l → c.odd = false := by
    intro l
    induction l with
    | nil => intro a h; exact ⟨h, by simp⟩
    | cons x l ih =>
      intro a h
      simp only [List.foldl_cons] at h
      obtain ⟨h1, h2⟩ := ih _ h
      cases hx : x.odd
      · simp only [hx] at h1
        refine ⟨by simpa using h1, ?_⟩
        intro c hc
        rcases List.mem_cons.mp hc with rfl | hc
        · exact hx
        · exact h2 c hc
      · exfalso
        simp only [hx, if_true] at h1
        cases a with
        | none => simp at h1
        | some a => by_cases hlt : x.size < a.size <;> simp [hlt] at h1
  exact (key order none h).2

theorem pick_state (st : GState) : (pick st).2 = { st with sched := (pick st).2.sched } := by
  unfold pick; rfl

theorem GInv_pick {H : Mat} {sy : Vec} {st : GState} {rep d : Nat → Nat} (I : GInv H sy st rep d) :
    GInv H sy (pick st).2 rep d := by
  rw [pick_state]
  exact ⟨I.uf, I.fi, I.nbad, I.conn, I.qrng⟩

/-- when no cluster is chosen, no record in the dict is odd -/
theorem pick_none {H : Mat} {sy : Vec} {st : GState} {rep d : Nat → Nat} (I : GInv H sy st rep d)
    (h : (pick st).1 = none) : ∀ c, c ∈ st.forest → c.odd = false := by
  unfold pick at h
  simp only [] at h
  intro c hc
  apply smallestInvalid_none _ h c
  rw [List.mem_filterMap]
  refine ⟨(c.root : Int), ?_, ?_⟩
  · rw [take_mem]; exact List.mem_map.mpr ⟨c, hc, rfl⟩
  · -- the record found under this root is `c` itself
    cases hf : st.forest.find? (fun c' => decide ((c'.root : Int) = (c.root : Int))) with
    | none =>
      have := List.find?_eq_none.mp hf c hc
      simp at this
    | some c' =>
      have hc' : c' ∈ st.forest := List.mem_of_find?_eq_some hf
      have hr : c'.root = c.root := by
        have := List.find?_some hf; simp at this; omega
      -- records with equal roots are equal (roots are distinct)
      have hnd := I.fi.roots_nodup
      have : c' = c := by
        have key : ∀ (l : List Cluster), (l.map (·.root)).Nodup → ∀ a b, a ∈ l → b ∈ l →
            a.root = b.root → a = b := by
          intro l
          induction l with
          | nil => intro _ a b ha; simp at ha
          | cons x l ih =>
            intro hnd a b ha hb hab
            rw [List.map_cons, List.nodup_cons] at hnd
            rcases List.mem_cons.mp ha with ha | ha <;> rcases List.mem_cons.mp hb with hb | hb
            · rw [ha, hb]
            · exact absurd (List.mem_map.mpr ⟨b, hb, by rw [← hab, ha]⟩) hnd.1
            · exact absurd (List.mem_map.mpr ⟨a, ha, by rw [hab, hb]⟩) hnd.1
            · exact ih hnd.2 a b ha hb hab
        exact key _ hnd c' c hc' hc hr
      rw [this]

/-- **the `while` loop**: the invariant holds when it stops, and then no record is odd -/
theorem clusterLoop_inv {H : Mat} {sy : Vec} :
    ∀ (fuel : Nat) (st : GState) (rep d : Nat → Nat), GInv H sy st rep d →
      ∃ rep' d', GInv H sy (clusterLoop H fuel st).1 rep' d' ∧
        ((clusterLoop H fuel st).2 = true → ∀ c, c ∈ (clusterLoop H fuel st).1.forest → c.odd = false) := by
  intro fuel
  induction fuel with
  | zero =>
    intro st rep d I
    exact ⟨rep, d, I, by simp [clusterLoop]⟩
  | succ fuel ih =>
    intro st rep d I
    unfold clusterLoop
    cases hp : pick st with
    | mk o st' =>
      have hst' : st' = (pick st).2 := by rw [hp]
      have ho : o = (pick st).1 := by rw [hp]
      cases o with
      | none =>
        simp only []
        refine ⟨rep, d, hst' ▸ GInv_pick I, ?_⟩
        intro _ c hc
        have hforest : st'.forest = st.forest := by rw [hst', pick_state]
        rw [hforest] at hc
        exact pick_none I ho.symm c hc
      | some c =>
        simp only []
        obtain ⟨rep1, d1, I1⟩ := GInv_iter (hst' ▸ GInv_pick I) c
        exact ih _ rep1 d1 I1

/-! ### the initial state -/

theorem GInv_init (H : Mat) (sy : Vec) (sched : List (List Int)) :
    GInv H sy (initState H sy sched) (fun i => i) (fun _ => 0) := by
  have hmem : ∀ i, i ∈ ((List.range H.length).filter fun i => sy.getD i 0 != 0) ↔
      (i < H.length ∧ defect sy i = true) := by
    intro i; rw [mem_filter_range]; rfl
  unfold initState
  simp only []
  generalize hdef : ((List.range H.length).filter fun i => sy.getD i 0 != 0) = defects at hmem
  have hnd : defects.Nodup := by rw [← hdef]; exact (List.nodup_range).filter _
  have hsp : ∀ i, (if i ∈ defects then (i : Int) else -1) = -1 ↔ i ∉ defects := by
    intro i
    by_cases h : i ∈ defects
    · simp only [h, if_true]; constructor
      · intro hh; omega
      · intro hh; exact absurd trivial hh
    · simp [h]
  have hsp2 : ∀ (i p : Nat), (if i ∈ defects then (i : Int) else -1) = (p : Int) → i ∈ defects ∧ p = i := by
    intro i p h
    by_cases hi : i ∈ defects
    · simp only [hi, if_true] at h; exact ⟨hi, by omega⟩
    · simp only [hi, if_false] at h; omega
  refine ⟨⟨?_, ?_, ?_, ?_, ?_, ?_, ?_, fun _ _ => rfl, fun _ _ => rfl, ?_⟩, ⟨?_, ?_, ?_, ?_, ?_⟩, rfl, ?_,
    fun _ => Or.inl rfl⟩
  · intro s
    by_cases hs : s ∈ defects
    · exact Or.inr ⟨s, ((hmem s).mp hs).1, by simp [hs]⟩
    · exact Or.inl (by simp [hs])
  · intro s hs
    have : s ∉ defects := fun h => by have := ((hmem s).mp h).1; omega
    simp [this]
  · intro s hs
    have : s ∈ defects := by
      by_contra h; exact hs ((hsp s).mpr h)
    simp [this]
  · intro s p h; rw [(hsp2 s p h).2]
  · intro s _; rfl
  · intro s p h
    obtain ⟨h1, h2⟩ := hsp2 s p h
    subst h2
    rw [Ne, hsp]; simpa using h1
  · intro s p h hne; exact absurd (hsp2 s p h).2 hne
  · intro s
    show 0 + cnt H.length (freeOrRoot fun i => if i ∈ defects then (i : Int) else -1) ≤ H.length
    have := cnt_le H.length (freeOrRoot fun i => if i ∈ defects then (i : Int) else -1)
    omega
  · intro x
    constructor
    · rintro ⟨c, hc, rfl⟩
      obtain ⟨i, hi, rfl⟩ := List.mem_map.mp hc
      simp [hi]
    · intro h
      have := (hsp2 x x h).1
      exact ⟨_, List.mem_map.mpr ⟨x, this, rfl⟩, rfl⟩
  · rw [List.map_map]
    have : ((fun c : Cluster => c.root) ∘ fun i => (⟨i, 1, true, [hashS i]⟩ : Cluster)) = id := rfl
    rw [this, List.map_id]; exact hnd
  · intro c hc
    obtain ⟨i, _, rfl⟩ := List.mem_map.mp hc
    exact Nat.one_pos
  · intro c hc
    obtain ⟨i, hi, rfl⟩ := List.mem_map.mp hc
    have him := (hmem i).mp hi
    unfold clsCnt
    rw [cnt_single H.length _ i him.1]
    · simp [hi, him.2]
    · intro j hj
      simp only [Bool.and_eq_true, decide_eq_true_eq] at hj
      exact hj.2
  · intro i hi hd
    have : i ∈ defects := (hmem i).mpr ⟨hi, hd⟩
    simp [this]
  · intro i _; exact Conn.refl _

end Panqec.UF
