/-
Soundness of the packing certificate check `checkPacking` (Model/Dist.lean): an accepted
certificate gives, for every listed logical, `d` representatives modulo the stabilizer group
with pairwise disjoint Pauli supports — the hypothesis of `packing_lower_bound`
(Proofs/CodeAlgebra.lean).
-/
import PanqecVerif.Model.Dist
import PanqecVerif.Proofs.MaskFast
import PanqecVerif.Proofs.CodeAlgebra

namespace Panqec

/-! ### the evaluation-order helpers are identities -/

@[simp] theorem forceNat_eq {α : Type} (x : Nat) (k : Nat → α) : forceNat x k = k x := by
  cases x <;> rfl

@[simp] theorem forceList_eq {α : Type} : ∀ (l : List Nat) (k : List Nat → α),
    forceList l k = k l
  | [], _ => rfl
  | x :: xs, k => by simp [forceList, forceList_eq xs]

@[simp] theorem forcePairs_eq {α : Type} : ∀ (l : List (Nat × Nat)) (k : List (Nat × Nat) → α),
    forcePairs l k = k l
  | [], _ => rfl
  | (x, z) :: t, k => by simp [forcePairs, forcePairs_eq t]

theorem comboAccS_eq (R : Nat) : ∀ (bs : List Nat) (C : Nat), comboAccS R bs C = comboAcc R bs C
  | [], _ => rfl
  | b :: bs, C => by simp [comboAccS, comboAcc, comboAccS_eq R bs]

@[simp] theorem unlanesK_eq {α : Type} (W : Nat) : ∀ (cnt X : Nat) (k : List Nat → α),
    unlanesK W cnt X k = k (unlanes W cnt X)
  | 0, _, _ => rfl
  | cnt + 1, X, k => by simp [unlanesK, unlanes, unlanesK_eq W cnt]

/-! ### lanes -/

theorem unlanes_packLanes (W : Nat) (hW : 0 < W) : ∀ xs : List Nat,
    unlanes W xs.length (packLanes W xs) = xs.map (· % W)
  | [] => rfl
  | x :: xs => by
    have h1 : (W * packLanes W xs + x % W) % W = x % W := by
      rw [Nat.mul_add_mod_self_left, Nat.mod_mod]
    have h2 : (W * packLanes W xs + x % W) / W = packLanes W xs := by
      rw [Nat.mul_add_div hW, Nat.div_eq_of_lt (Nat.mod_lt _ hW), Nat.add_zero]
    simp only [List.length_cons, unlanes, packLanes, h1, h2, List.map_cons,
      unlanes_packLanes W hW xs]

theorem xorSelect_lt_dist (L : Nat) : ∀ (bs : List Nat) (sel : Nat), (∀ b ∈ bs, b < 2 ^ L) →
    xorSelect bs sel < 2 ^ L
  | [], _, _ => by simp [xorSelect]
  | b :: bs, sel, h => by
    have ih := xorSelect_lt_dist L bs (sel / 2) (fun x hx => h x (by simp [hx]))
    have hb := h b (by simp)
    simp only [xorSelect]
    split
    · exact Nat.xor_lt_two_pow hb ih
    · exact Nat.xor_lt_two_pow (Nat.two_pow_pos L) ih

/-- all products of generators at once -/
theorem lanes_xorSelect (L : Nat) (stabs cs : List Nat) (hlen : stabs.length ≤ L) (hL : 0 < L)
    (hfit : ∀ b ∈ stabs, b < 2 ^ L) :
    unlanes (2 ^ L) cs.length
        (comboAccS (repunit (2 ^ L) cs.length) stabs (packLanes (2 ^ L) cs)) =
      cs.map (xorSelect stabs) := by
  have h := comboAcc_eq L hL cs stabs 0 (by omega) hfit
  rw [Nat.shiftRight_zero] at h
  rw [comboAccS_eq, h]
  have hl : cs.length = (cs.map fun c => xorSelect stabs (c >>> 0)).length := by simp
  rw [hl, unlanes_packLanes _ (Nat.two_pow_pos L), List.map_map]
  apply List.map_congr_left
  intro c _
  simp only [Function.comp, Nat.shiftRight_zero]
  exact Nat.mod_eq_of_lt (xorSelect_lt_dist L stabs c hfit)

/-! ### supports -/

theorem getD_unpackBits_ne_zero : ∀ (w m q : Nat),
    (unpackBits w m).getD q 0 ≠ 0 ↔ q < w ∧ m.testBit q = true
  | 0, m, q => by simp [unpackBits]
  | w + 1, m, 0 => by
    simp only [unpackBits, List.getD_cons_zero, Nat.testBit_zero]
    have := Nat.mod_two_eq_zero_or_one m
    constructor
    · intro h; exact ⟨by omega, by simp; omega⟩
    · intro h; have := h.2; simp at this; omega
  | w + 1, m, q + 1 => by
    simp only [unpackBits, List.getD_cons_succ]
    rw [getD_unpackBits_ne_zero w (m / 2) q, Nat.testBit_succ]
    constructor
    · intro h; exact ⟨by omega, h.2⟩
    · intro h; exact ⟨by omega, h.2⟩

/-- the support mask has exactly the qubits of the Pauli support set -/
theorem hasSupp_unpack_iff (n a q : Nat) :
    hasSupp (unpackBits (2 * n) a) q ↔ (suppNat n a).testBit q = true := by
  unfold hasSupp suppNat
  rw [xPart_unpackBits', zPart_unpackBits', getD_unpackBits_ne_zero, getD_unpackBits_ne_zero]
  simp only [Nat.testBit_mod_two_pow, Nat.testBit_or]
  by_cases hq : q < n <;> simp [hq]

theorem suppDisjoint_of_masks (n a b : Nat) (h : suppNat n a &&& suppNat n b = 0) :
    SuppDisjoint (unpackBits (2 * n) a) (unpackBits (2 * n) b) := by
  intro q ⟨ha, hb⟩
  rw [hasSupp_unpack_iff] at ha hb
  have : (suppNat n a &&& suppNat n b).testBit q = true := by
    rw [Nat.testBit_and, ha, hb]; rfl
  rw [h, Nat.zero_testBit] at this
  exact Bool.noConfusion this

theorem pairwiseDisjoint_sound : ∀ ss : List Nat, pairwiseDisjoint ss = true →
    ss.Pairwise (fun s t => s &&& t = 0)
  | [], _ => List.Pairwise.nil
  | s :: ss, h => by
    simp only [pairwiseDisjoint, Bool.and_eq_true, List.all_eq_true, beq_iff_eq] at h
    exact List.Pairwise.cons h.1 (pairwiseDisjoint_sound ss h.2)

/-! ### groups -/

theorem checkGroups_sound (n d : Nat) : ∀ (logs xs : List Nat), checkGroups n d logs xs = true →
    ∀ l ∈ logs, ∃ ys : List Nat, ys.length = d ∧ (∀ y ∈ ys, y ∈ xs) ∧
      (ys.map fun x => suppNat n (l ^^^ x)).Pairwise (fun s t => s &&& t = 0)
  | [], _, _, l, hl => by simp at hl
  | l0 :: ls, xs, h, l, hl => by
    simp only [checkGroups, forceList_eq, Bool.and_eq_true, beq_iff_eq] at h
    obtain ⟨⟨hlen, hdis⟩, hrest⟩ := h
    rcases List.mem_cons.mp hl with rfl | hl
    · exact ⟨xs.take d, hlen, fun y hy => List.mem_of_mem_take hy, pairwiseDisjoint_sound _ hdis⟩
    · obtain ⟨ys, h1, h2, h3⟩ := checkGroups_sound n d ls (xs.drop d) hrest l hl
      exact ⟨ys, h1, fun y hy => List.mem_of_mem_drop (h2 y hy), h3⟩

/-! ### the packing check -/

/-- An accepted packing certificate provides the hypothesis of `packing_lower_bound`. -/
theorem checkPacking_reps (c : MaskCode) (cs : List Nat) (h : checkPacking c cs = true) :
    ∀ l ∈ c.logX.map (unpackBits (2 * c.n)) ++ c.logZ.map (unpackBits (2 * c.n)),
      ∃ reps : List (List Nat), reps.length = c.d ∧
        (∀ r ∈ reps, r.length = 2 * c.n ∧
          InSpan (2 * c.n) (c.stabs.map (unpackBits (2 * c.n))) (vxor l r)) ∧
        reps.Pairwise SuppDisjoint := by
  simp only [checkPacking, forceNat_eq, unlanesK_eq, Bool.and_eq_true, List.all_eq_true,
    Nat.blt_eq] at h
  obtain ⟨hfit, hg⟩ := h
  by_cases hL : 2 * c.n + c.stabs.length = 0
  · -- no qubits and no generators: only possible with `d` representatives of the empty vector
    have hn : c.n = 0 := by omega
    have hs : c.stabs = [] := List.eq_nil_of_length_eq_zero (by omega)
    intro l hl
    rw [← List.map_append] at hl
    obtain ⟨lm, hlm, rfl⟩ := List.mem_map.mp hl
    obtain ⟨ys, h1, _, _⟩ := checkGroups_sound c.n c.d _ _ hg lm hlm
    refine ⟨List.replicate c.d [], by simp, ?_, ?_⟩
    · intro r hr
      rw [List.eq_of_mem_replicate hr, hn, hs]
      exact ⟨rfl, [], rfl, by simp [xorCombo, vzero, unpackBits, vxor]⟩
    · rw [List.pairwise_replicate]
      right
      intro q ⟨hq, _⟩
      simp [hasSupp, xPart, zPart] at hq
  have hlanes := lanes_xorSelect (2 * c.n + c.stabs.length) c.stabs cs (by omega) (by omega) hfit
  rw [hlanes] at hg
  intro l hl
  rw [← List.map_append] at hl
  obtain ⟨lm, hlm, rfl⟩ := List.mem_map.mp hl
  obtain ⟨ys, h1, h2, h3⟩ := checkGroups_sound c.n c.d _ _ hg lm hlm
  refine ⟨ys.map fun y => unpackBits (2 * c.n) (lm ^^^ y), by simpa using h1, ?_, ?_⟩
  · intro r hr
    obtain ⟨y, hy, rfl⟩ := List.mem_map.mp hr
    obtain ⟨s, _, rfl⟩ := List.mem_map.mp (h2 y hy)
    refine ⟨unpackBits_length _ _, selBits c.stabs.length s, by simp [selBits_length], ?_⟩
    rw [← unpackBits_xorSelect, ← unpackBits_xor, ← Nat.xor_assoc, Nat.xor_self, Nat.zero_xor]
  · rw [List.pairwise_map] at h3 ⊢
    exact h3.imp fun {a b} hab => suppDisjoint_of_masks c.n _ _ hab

end Panqec
