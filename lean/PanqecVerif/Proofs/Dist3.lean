/-
Soundness of the exhaustive check `checkExhaustive` (Model/Dist.lean), part 2: the table entries
are symplectic products (`rowEff_symp`), the effect of a non-trivial logical operator is never
harmless (`effect_not_harmless`, uses C04), hence `checkExhaustive_sound`.
-/
import PanqecVerif.Proofs.Dist1
import PanqecVerif.Proofs.Dist2

namespace Panqec

/-! ### rows: table entries are symplectic products -/

theorem rowEff_eq_dot (r n : Nat) : ∀ (len q : Nat) (xs zs : List Nat),
    xs.length = len → zs.length = len →
    rowEff r n q xs zs =
      dot (unpackBits len (r >>> q)) zs + dot (unpackBits len (r >>> (n + q))) xs
  | 0, q, [], zs, _, _ => by simp [rowEff, unpackBits, dot_nil_left]
  | len + 1, q, x :: xs, z :: zs, hx, hz => by
    have ih := rowEff_eq_dot r n len (q + 1) xs zs (by simpa using hx) (by simpa using hz)
    have e1 : r >>> q / 2 = r >>> (q + 1) := by rw [Nat.shiftRight_succ]
    have e2 : r >>> (n + q) / 2 = r >>> (n + (q + 1)) := by
      rw [← Nat.add_assoc, Nat.shiftRight_succ]
    simp only [rowEff, unpackBits, dot_cons, ih, e1, e2]
    rw [Nat.mul_comm x, Nat.mul_comm z]
    omega

/-- entry of the effect vector = symplectic product of the row with the operator -/
theorem rowEff_symp (r n : Nat) (v : List Nat) (hv : v.length = 2 * n) :
    rowEff r n 0 (xPart v) (zPart v) % 2 = symp (unpackBits (2 * n) r) v := by
  rw [rowEff_eq_dot r n n 0 _ _ (xPart_len hv) (zPart_len hv)]
  unfold symp
  rw [xPart_unpackBits', zPart_unpackBits', unpackBits_mod, Nat.shiftRight_zero, Nat.add_zero]

/-! ### packed 0/1 vectors -/

theorem packBits_append : ∀ (a b : List Nat),
    packBits (a ++ b) = packBits a + 2 ^ a.length * packBits b
  | [], b => by simp [packBits]
  | x :: a, b => by
    simp only [List.cons_append, packBits, packBits_append a b, List.length_cons, Nat.pow_succ]
    rw [Nat.mul_add, ← Nat.mul_assoc, Nat.mul_comm 2 (2 ^ a.length)]
    omega

theorem packBits_eq_zero : ∀ (a : List Nat), (∀ x ∈ a, x % 2 = 0) → packBits a = 0
  | [], _ => rfl
  | x :: a, h => by
    simp [packBits, h x (by simp), packBits_eq_zero a (fun y hy => h y (by simp [hy]))]

theorem mod_two_of_packBits_eq_zero : ∀ (a : List Nat), packBits a = 0 → ∀ x ∈ a, x % 2 = 0
  | [], _, x, hx => by simp at hx
  | y :: a, h, x, hx => by
    simp only [packBits] at h
    rcases List.mem_cons.mp hx with rfl | hx
    · omega
    · exact mod_two_of_packBits_eq_zero a (by omega) x hx

/-! ### exhaustive check -/

/-- The effect of a non-trivial logical operator is never harmless: it commutes with every
    generator (no generator bit) and anticommutes with some listed logical (C04). -/
theorem effect_not_harmless (c : MaskCode)
    (hv : ValidCodeL c.n c.k (c.stabs.map (unpackBits (2 * c.n)))
      (c.logX.map (unpackBits (2 * c.n))) (c.logZ.map (unpackBits (2 * c.n))))
    (v : List Nat) (hnt : IsNontrivialLogical c.n (c.stabs.map (unpackBits (2 * c.n))) v)
    (hgood : goodEff (2 ^ (c.logX.length + c.logZ.length))
      (effList (effTableAt (effRows c) c.n c.n) (xPart v) (zPart v)) = true) : False := by
  obtain ⟨l, hl, hlv⟩ := nontrivial_anticommutes_listed hv hnt
  obtain ⟨hlen, hbin, hcomm, _⟩ := hnt
  have hxb : ∀ x ∈ xPart v, x < 2 := fun x hx => hbin x (List.mem_of_mem_take hx)
  have hzb : ∀ x ∈ zPart v, x < 2 := fun x hx => hbin x (List.mem_of_mem_drop hx)
  rw [effList_table _ c.n c.n (Nat.le_refl _) _ _ (xPart_len hlen) (zPart_len hlen)
    hxb hzb, Nat.sub_self] at hgood
  -- split the effect vector into the logical part (low) and the generator part (high)
  unfold effVec effRows at hgood
  rw [List.map_append, packBits_append] at hgood
  have hstab : packBits (c.stabs.map fun r => rowEff r c.n 0 (xPart v) (zPart v)) = 0 := by
    apply packBits_eq_zero
    intro x hx
    obtain ⟨r, hr, rfl⟩ := List.mem_map.mp hx
    rw [rowEff_symp r c.n v hlen]
    exact hcomm _ (List.mem_map.mpr ⟨r, hr, rfl⟩)
  have hlt2 := packBits_lt ((c.logX ++ c.logZ).map fun r => rowEff r c.n 0 (xPart v) (zPart v))
  rw [hstab, Nat.mul_zero, Nat.add_zero] at hgood
  simp only [List.length_map, List.length_append] at hlt2
  have hzero : packBits ((c.logX ++ c.logZ).map fun r => rowEff r c.n 0 (xPart v) (zPart v))
      = 0 := by
    simp only [goodEff, Bool.or_eq_true, beq_iff_eq, Nat.ble_eq] at hgood
    rcases hgood with h0 | hge
    · exact h0
    · omega
  -- but `v` anticommutes with the listed logical `l`
  rw [← List.map_append] at hl
  obtain ⟨lm, hlm, rfl⟩ := List.mem_map.mp hl
  have := mod_two_of_packBits_eq_zero _ hzero (rowEff lm c.n 0 (xPart v) (zPart v))
    (List.mem_map.mpr ⟨lm, hlm, rfl⟩)
  rw [rowEff_symp lm c.n v hlen, hlv] at this
  exact absurd this (by decide)

/-- If the enumeration below `d` accepts, every non-trivial logical operator of a valid code has
    weight at least `d`. -/
theorem checkExhaustive_sound (c : MaskCode)
    (hv : ValidCodeL c.n c.k (c.stabs.map (unpackBits (2 * c.n)))
      (c.logX.map (unpackBits (2 * c.n))) (c.logZ.map (unpackBits (2 * c.n))))
    (h : checkExhaustive c = true) :
    ∀ v, IsNontrivialLogical c.n (c.stabs.map (unpackBits (2 * c.n))) v →
      c.d ≤ pauliWeight v := by
  intro v hnt
  by_contra hlt
  have hw : wtXZ (xPart v) (zPart v) ≤ c.d - 1 := by
    have : pauliWeight v = wtXZ (xPart v) (zPart v) := rfl
    omega
  simp only [checkExhaustive, forceNat_eq, forceList_eq, forcePairs_eq] at h
  have hgood := exhB_cover _ _ _ _ h (xPart v) (zPart v) hw
  rw [Nat.zero_xor] at hgood
  exact effect_not_harmless c hv v hnt hgood

end Panqec
