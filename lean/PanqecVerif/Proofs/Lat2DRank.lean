/-
Operator-level independence of stabilizer generators through a triangular family of
single-qubit probes (the rank clause of C01 for the hand-written 2-D lattice models).

`IndepGenerators l sel`: every non-empty duplicate-free sub-family `T` of the generators at the
locations `sel` has a Pauli operator `d` (a dict with distinct keys) supported on the qubits that anticommutes with an odd
number of members of `T`.  Anticommutation parity with a product is the sum of the parities
with the factors, so `d` anticommutes with the product of `T`, which therefore is not the
identity: no non-trivial product of the selected generators is trivial, i.e. their binary
symplectic rows are linearly independent over GF(2).

`TriangularProbes`: for each selected generator `s` a single-qubit probe that anticommutes with
`s` and commutes with every other selected generator `t` of rank `μ t ≥ μ s`.
Core Lean only.
-/
import PanqecVerif.Proofs.Lat2DBase

namespace Panqec.Lat2D

def IndepGenerators (l : Lattice) (sel : List Coord) : Prop :=
  ∀ T : List Coord, T.Nodup → (∀ t ∈ T, t ∈ sel) → T ≠ [] →
    ∃ d : Op, (d.map Prod.fst).Nodup ∧ (∀ e ∈ d, e.1 ∈ l.qubits ∧ e.2 ≠ Pauli.I) ∧
      (T.map fun t => opAntiCount d (l.getStab t)).sum % 2 = 1

structure TriangularProbes (l : Lattice) (sel : List Coord) (probe : Coord → Coord × Pauli)
    (μ : Coord → Nat) : Prop where
  on_qubits : ∀ s ∈ sel, (probe s).1 ∈ l.qubits ∧ (probe s).2 ≠ Pauli.I
  diag : ∀ s ∈ sel, opAntiCount [probe s] (l.getStab s) % 2 = 1
  later : ∀ s ∈ sel, ∀ t ∈ sel, s ≠ t → μ s ≤ μ t → opAntiCount [probe s] (l.getStab t) % 2 = 0

theorem exists_min (μ : Coord → Nat) : ∀ (T : List Coord), T ≠ [] →
    ∃ t0 ∈ T, ∀ t ∈ T, μ t0 ≤ μ t
  | [], h => absurd rfl h
  | [a], _ => ⟨a, List.mem_cons_self .., by
      intro t ht; simp only [List.mem_cons, List.not_mem_nil, or_false] at ht; rw [ht]; exact Nat.le_refl _⟩
  | a :: b :: T, _ => by
    obtain ⟨t1, ht1, hmin⟩ := exists_min μ (b :: T) (by simp)
    by_cases hle : μ a ≤ μ t1
    · refine ⟨a, List.mem_cons_self .., ?_⟩
      intro t ht
      rcases List.mem_cons.mp ht with rfl | ht
      · exact Nat.le_refl _
      · exact Nat.le_trans hle (hmin t ht)
    · refine ⟨t1, List.mem_cons_of_mem _ ht1, ?_⟩
      intro t ht
      rcases List.mem_cons.mp ht with rfl | ht
      · omega
      · exact hmin t ht

theorem sum_even (f : Coord → Nat) : ∀ (T : List Coord), (∀ t ∈ T, f t % 2 = 0) →
    (T.map f).sum % 2 = 0
  | [], _ => rfl
  | a :: T, h => by
    have h1 := h a (List.mem_cons_self ..)
    have h2 := sum_even f T (fun t ht => h t (List.mem_cons_of_mem _ ht))
    simp only [List.map_cons, List.sum_cons]
    omega

theorem sum_odd_single (f : Coord → Nat) (t0 : Coord) : ∀ (T : List Coord), T.Nodup → t0 ∈ T →
    f t0 % 2 = 1 → (∀ t ∈ T, t ≠ t0 → f t % 2 = 0) → (T.map f).sum % 2 = 1
  | [], _, h, _, _ => absurd h (by simp)
  | a :: T, hnd, hmem, h1, h0 => by
    rw [List.nodup_cons] at hnd
    simp only [List.map_cons, List.sum_cons]
    by_cases ha : a = t0
    · subst ha
      have := sum_even f T (fun t ht => h0 t (List.mem_cons_of_mem _ ht)
        (fun e => hnd.1 (e ▸ ht)))
      omega
    · have hmem' : t0 ∈ T := by
        rcases List.mem_cons.mp hmem with e | e
        · exact absurd e.symm ha
        · exact e
      have := sum_odd_single f t0 T hnd.2 hmem' h1
        (fun t ht hne => h0 t (List.mem_cons_of_mem _ ht) hne)
      have := h0 a (List.mem_cons_self ..) ha
      omega

theorem indep_of_triangular {l : Lattice} {sel : List Coord} {probe : Coord → Coord × Pauli}
    {μ : Coord → Nat} (h : TriangularProbes l sel probe μ) : IndepGenerators l sel := by
  intro T hnd hsub hne
  obtain ⟨t0, ht0, hmin⟩ := exists_min μ T hne
  refine ⟨[probe t0], by simp, ?_, ?_⟩
  · intro e he
    simp only [List.mem_cons, List.not_mem_nil, or_false] at he
    rw [he]; exact h.on_qubits t0 (hsub t0 ht0)
  · apply sum_odd_single _ t0 T hnd ht0 (h.diag t0 (hsub t0 ht0))
    intro t ht hne'
    exact h.later t0 (hsub t0 ht0) t (hsub t ht) (fun e => hne' e.symm) (hmin t ht)

/-- a single-qubit probe against a single-letter dict -/
theorem opAntiCount_probe (q : Coord) (P Q : Pauli) (B : List Coord) :
    opAntiCount [(q, P)] (B.map (fun b => (b, Q))) =
      if Pauli.anti P Q = true ∧ q ∈ B then 1 else 0 := by
  have := opAntiCount_const [q] B P Q
  simp only [List.map_cons, List.map_nil] at this
  rw [this]
  unfold interCount
  by_cases h1 : Pauli.anti P Q = true <;> by_cases h2 : q ∈ B <;> simp [h1, h2]

end Panqec.Lat2D

namespace Panqec.Lat2D

/-- removing two distinct members from a duplicate-free list -/
theorem length_remove_two (l : List Coord) (a b : Coord) (hl : l.Nodup) (ha : a ∈ l) (hb : b ∈ l)
    (hab : a ≠ b) : (l.filter fun s => s != a && s != b).length + 2 = l.length := by
  rw [← List.countP_eq_length_filter]
  have h1 := List.length_eq_countP_add_countP (fun s => s != a && s != b) (l := l)
  have h2 : l.countP (fun s => ¬ (s != a && s != b) = true) =
      l.countP (fun s => s == a || s == b) := by
    apply List.countP_congr
    intro s _
    by_cases e1 : s = a <;> by_cases e2 : s = b <;> simp [e1, e2]
  have h3 := countP_or_disjoint (fun s => s == a) (fun s => s == b) l (by
    intro s _ ⟨e1, e2⟩
    have e1' : s = a := by simpa using e1
    have e2' : s = b := by simpa using e2
    exact hab (e1'.symm.trans e2'))
  have h4 : l.countP (fun s => s == a) = l.count a := rfl
  have h5 : l.countP (fun s => s == b) = l.count b := rfl
  have h6 := hl.count (a := a)
  have h7 := hl.count (a := b)
  simp only [ha, hb, if_true] at h6 h7
  omega

end Panqec.Lat2D
