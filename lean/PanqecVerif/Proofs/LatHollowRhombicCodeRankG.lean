/-
`HollowRhombicCode`, rank clause, part G: counting tools.  Lists of locations described by a region
predicate (`Spec`, `Spec3`): boxes of arithmetic progressions of step 2, optionally with a
checkerboard colour; a concatenation of lists with pairwise disjoint regions; two lists with the
same region have the same length.  Core Lean only.
-/
import PanqecVerif.Proofs.LatRhombicCount
import PanqecVerif.Proofs.LatHollowRhombicCodeRankB

set_option linter.unusedVariables false
set_option linter.unusedSimpArgs false

namespace Panqec.HollowRhombicCode
open Panqec.Lat3Db Panqec.Rhombic

/-- membership in `ap x0 n` -/
def InAp (x0 : Int) (n : Nat) (x : Int) : Prop := x0 ≤ x ∧ x < x0 + 2 * (n : Int) ∧ (x - x0) % 2 = 0

theorem mem_ap {x0 : Int} {n : Nat} {x : Int} : x ∈ ap x0 n ↔ InAp x0 n x := by
  unfold ap InAp
  simp only [List.mem_map, List.mem_range]
  constructor
  · rintro ⟨i, hi, rfl⟩; omega
  · intro h; exact ⟨((x - x0) / 2).toNat, by omega, by omega⟩

theorem nodup_ap (x0 : Int) (n : Nat) : (ap x0 n).Nodup := by
  unfold ap
  refine List.Nodup.map ?_ List.nodup_range
  intro i j h; simp only at h; omega

theorem length_ap (x0 : Int) (n : Nat) : (ap x0 n).length = n := by simp [ap]

/-- a list of locations with four coordinates described by a region -/
structure Spec (l : List Coord) (R : Int → Int → Int → Int → Prop) : Prop where
  nodup : l.Nodup
  mem : ∀ s, s ∈ l ↔ ∃ a x y z, s = [a, x, y, z] ∧ R a x y z

/-- a list of locations with three coordinates described by a region -/
structure Spec3 (l : List Coord) (R : Int → Int → Int → Prop) : Prop where
  nodup : l.Nodup
  mem : ∀ s, s ∈ l ↔ ∃ x y z, s = [x, y, z] ∧ R x y z

theorem Spec.append {l1 l2 : List Coord} {R1 R2 : Int → Int → Int → Int → Prop} (h1 : Spec l1 R1)
    (h2 : Spec l2 R2) (hd : ∀ a x y z, R1 a x y z → R2 a x y z → False) :
    Spec (l1 ++ l2) (fun a x y z => R1 a x y z ∨ R2 a x y z) where
  nodup := by
    rw [List.nodup_append]
    refine ⟨h1.nodup, h2.nodup, ?_⟩
    intro s hs t ht e
    subst e
    obtain ⟨a, x, y, z, rfl, r1⟩ := (h1.mem _).mp hs
    obtain ⟨a', x', y', z', e, r2⟩ := (h2.mem _).mp ht
    simp only [List.cons.injEq, and_true] at e
    obtain ⟨rfl, rfl, rfl, rfl⟩ := e
    exact hd _ _ _ _ r1 r2
  mem := by
    intro s
    rw [List.mem_append, h1.mem, h2.mem]
    constructor
    · rintro (⟨a, x, y, z, e, r⟩ | ⟨a, x, y, z, e, r⟩)
      · exact ⟨a, x, y, z, e, Or.inl r⟩
      · exact ⟨a, x, y, z, e, Or.inr r⟩
    · rintro ⟨a, x, y, z, e, r | r⟩
      · exact Or.inl ⟨a, x, y, z, e, r⟩
      · exact Or.inr ⟨a, x, y, z, e, r⟩

theorem Spec.length_eq {l1 l2 : List Coord} {R1 R2 : Int → Int → Int → Int → Prop} (h1 : Spec l1 R1)
    (h2 : Spec l2 R2) (h : ∀ a x y z, R1 a x y z ↔ R2 a x y z) : l1.length = l2.length := by
  apply List.Perm.length_eq
  apply (List.perm_ext_iff_of_nodup h1.nodup h2.nodup).mpr
  intro s
  rw [h1.mem, h2.mem]
  constructor
  · rintro ⟨a, x, y, z, e, r⟩; exact ⟨a, x, y, z, e, (h a x y z).mp r⟩
  · rintro ⟨a, x, y, z, e, r⟩; exact ⟨a, x, y, z, e, (h a x y z).mpr r⟩

theorem Spec.congr {l : List Coord} {R1 R2 : Int → Int → Int → Int → Prop} (h1 : Spec l R1)
    (h : ∀ a x y z, R1 a x y z ↔ R2 a x y z) : Spec l R2 where
  nodup := h1.nodup
  mem := by
    intro s
    rw [h1.mem]
    constructor
    · rintro ⟨a, x, y, z, e, r⟩; exact ⟨a, x, y, z, e, (h a x y z).mp r⟩
    · rintro ⟨a, x, y, z, e, r⟩; exact ⟨a, x, y, z, e, (h a x y z).mpr r⟩

theorem Spec3.append {l1 l2 : List Coord} {R1 R2 : Int → Int → Int → Prop} (h1 : Spec3 l1 R1)
    (h2 : Spec3 l2 R2) (hd : ∀ x y z, R1 x y z → R2 x y z → False) :
    Spec3 (l1 ++ l2) (fun x y z => R1 x y z ∨ R2 x y z) where
  nodup := by
    rw [List.nodup_append]
    refine ⟨h1.nodup, h2.nodup, ?_⟩
    intro s hs t ht e
    subst e
    obtain ⟨x, y, z, rfl, r1⟩ := (h1.mem _).mp hs
    obtain ⟨x', y', z', e, r2⟩ := (h2.mem _).mp ht
    simp only [List.cons.injEq, and_true] at e
    obtain ⟨rfl, rfl, rfl⟩ := e
    exact hd _ _ _ r1 r2
  mem := by
    intro s
    rw [List.mem_append, h1.mem, h2.mem]
    constructor
    · rintro (⟨x, y, z, e, r⟩ | ⟨x, y, z, e, r⟩)
      · exact ⟨x, y, z, e, Or.inl r⟩
      · exact ⟨x, y, z, e, Or.inr r⟩
    · rintro ⟨x, y, z, e, r | r⟩
      · exact Or.inl ⟨x, y, z, e, r⟩
      · exact Or.inr ⟨x, y, z, e, r⟩

theorem Spec3.length_eq {l1 l2 : List Coord} {R1 R2 : Int → Int → Int → Prop} (h1 : Spec3 l1 R1)
    (h2 : Spec3 l2 R2) (h : ∀ x y z, R1 x y z ↔ R2 x y z) : l1.length = l2.length := by
  apply List.Perm.length_eq
  apply (List.perm_ext_iff_of_nodup h1.nodup h2.nodup).mpr
  intro s
  rw [h1.mem, h2.mem]
  constructor
  · rintro ⟨x, y, z, e, r⟩; exact ⟨x, y, z, e, (h x y z).mp r⟩
  · rintro ⟨x, y, z, e, r⟩; exact ⟨x, y, z, e, (h x y z).mpr r⟩

/-! ### boxes -/

/-- the checkerboard colour `r` -/
def chk (r : Int) : Int → Int → Int → Bool := fun x y z => (x + y + z) % 4 == r
/-- no colour condition -/
def tt : Int → Int → Int → Bool := fun _ _ _ => true

/-- a box of three-coordinate locations -/
def bx3 (x0 : Int) (nx : Nat) (y0 : Int) (ny : Nat) (z0 : Int) (nz : Nat)
    (p : Int → Int → Int → Bool) : List Coord :=
  grid3 (ap x0 nx) (ap y0 ny) (ap z0 nz) p

/-- a box of triangle locations of axis `a` -/
def bx (a : Int) (x0 : Int) (nx : Nat) (y0 : Int) (ny : Nat) (z0 : Int) (nz : Nat)
    (p : Int → Int → Int → Bool) : List Coord :=
  (bx3 x0 nx y0 ny z0 nz p).map fun c => a :: c

theorem spec_bx3 (x0 : Int) (nx : Nat) (y0 : Int) (ny : Nat) (z0 : Int) (nz : Nat)
    (p : Int → Int → Int → Bool) :
    Spec3 (bx3 x0 nx y0 ny z0 nz p)
      (fun x y z => InAp x0 nx x ∧ InAp y0 ny y ∧ InAp z0 nz z ∧ p x y z = true) where
  nodup := nodup_grid3 _ _ _ _ (nodup_ap _ _) (nodup_ap _ _) (nodup_ap _ _)
  mem := by
    intro s
    unfold bx3
    rw [mem_grid3]
    simp only [mem_ap]

theorem spec_bx (a : Int) (x0 : Int) (nx : Nat) (y0 : Int) (ny : Nat) (z0 : Int) (nz : Nat)
    (p : Int → Int → Int → Bool) :
    Spec (bx a x0 nx y0 ny z0 nz p)
      (fun a' x y z => a' = a ∧ InAp x0 nx x ∧ InAp y0 ny y ∧ InAp z0 nz z ∧ p x y z = true) where
  nodup := by
    unfold bx
    refine List.Nodup.map ?_ (spec_bx3 x0 nx y0 ny z0 nz p).nodup
    intro c d h; simpa using h
  mem := by
    intro s
    unfold bx
    rw [List.mem_map]
    constructor
    · rintro ⟨c, hc, rfl⟩
      obtain ⟨x, y, z, rfl, r⟩ := ((spec_bx3 x0 nx y0 ny z0 nz p).mem c).mp hc
      exact ⟨a, x, y, z, rfl, rfl, r⟩
    · rintro ⟨a', x, y, z, rfl, rfl, r⟩
      exact ⟨[x, y, z], ((spec_bx3 x0 nx y0 ny z0 nz p).mem _).mpr ⟨x, y, z, rfl, r⟩, rfl⟩

theorem length_bx3_tt (x0 : Int) (nx : Nat) (y0 : Int) (ny : Nat) (z0 : Int) (nz : Nat) :
    (bx3 x0 nx y0 ny z0 nz tt).length = nx * ny * nz := by
  unfold bx3 tt
  rw [length_grid3_true, length_ap, length_ap, length_ap]

theorem length_bx3_chk (x0 : Int) (nx : Nat) (y0 : Int) (ny : Nat) (z0 : Int) (nz : Nat) (r : Int)
    (hpar : (x0 + y0 + z0 - r) % 2 = 0) (hr : 0 ≤ r ∧ r < 4) :
    (bx3 x0 nx y0 ny z0 nz (chk r)).length = half (nx * (ny * nz)) ((x0 + y0 + z0) % 4 == r) := by
  unfold bx3 chk
  exact length_grid3_checker x0 y0 z0 r nx ny nz hpar hr

theorem length_bx_tt (a : Int) (x0 : Int) (nx : Nat) (y0 : Int) (ny : Nat) (z0 : Int) (nz : Nat) :
    (bx a x0 nx y0 ny z0 nz tt).length = nx * ny * nz := by
  unfold bx; rw [List.length_map, length_bx3_tt]

theorem length_bx_chk (a : Int) (x0 : Int) (nx : Nat) (y0 : Int) (ny : Nat) (z0 : Int) (nz : Nat)
    (r : Int) (hpar : (x0 + y0 + z0 - r) % 2 = 0) (hr : 0 ≤ r ∧ r < 4) :
    (bx a x0 nx y0 ny z0 nz (chk r)).length =
      half (nx * (ny * nz)) ((x0 + y0 + z0) % 4 == r) := by
  unfold bx; rw [List.length_map, length_bx3_chk _ _ _ _ _ _ _ hpar hr]

theorem chk_iff {r x y z : Int} : chk r x y z = true ↔ (x + y + z) % 4 = r := by
  unfold chk; simp

theorem tt_iff {x y z : Int} : tt x y z = true ↔ True := by simp [tt]

/-! ### the model lists -/

theorem spec_cubes (Lx Ly Lz : Nat) : Spec3 (cubes Lx Ly Lz) (CubeLoc Lx Ly Lz) where
  nodup := nodup_cubes Lx Ly Lz
  mem := fun s => mem_cubes

theorem spec_selTriangles (Lx Ly Lz : Nat) :
    Spec ((triangles Lx Ly Lz).filter (selTri Lx Ly Lz)) (TS Lx Ly Lz) where
  nodup := (nodup_triangles Lx Ly Lz).filter _
  mem := by
    intro s
    rw [List.mem_filter, mem_triangles']
    constructor
    · rintro ⟨⟨a, x, y, z, rfl, ha, hv, hp⟩, hs⟩
      exact ⟨a, x, y, z, rfl, ha, hv, hp, (selTri_iff ha).mp hs⟩
    · rintro ⟨a, x, y, z, rfl, ha, hv, hp, hs⟩
      exact ⟨⟨a, x, y, z, rfl, ha, hv, hp⟩, (selTri_iff ha).mpr hs⟩

end Panqec.HollowRhombicCode
