/-
RhombicToricCode lattice model: assembly of `Lattice.CommPair` and `Lattice.WF`, the number of
qubits, logical operators and stabilizer generators, and `qubit_axis` on the qubits.  Sizes even
`≥ 2`.
-/
import PanqecVerif.Proofs.LatRhombicToricCode3
import PanqecVerif.Proofs.LatRhombicCount
open Panqec Panqec.Lat3Db Panqec.Rhombic
open Panqec.XCubeCode (up dn up_spec dn_spec)
namespace Panqec.RhombicToricCode

theorem logX_cases (Lx Ly Lz : Nat) (a : Op) (ha : a ∈ logX Lx Ly Lz) :
    ∃ K, IsSheet Lx Ly Lz K ∧ a = constOp K Pauli.X := by
  rw [logX_eq] at ha
  simp only [List.mem_cons, List.not_mem_nil, or_false] at ha
  rcases ha with rfl | rfl | rfl
  · exact ⟨_, Or.inl rfl, rfl⟩
  · exact ⟨_, Or.inr (Or.inl rfl), rfl⟩
  · exact ⟨_, Or.inr (Or.inr rfl), rfl⟩

theorem logZ_cases (Lx Ly Lz : Nat) (a : Op) (ha : a ∈ logZ Lx Ly Lz) :
    ∃ K, IsLine Lx Ly Lz K ∧ a = constOp K Pauli.Z := by
  rw [logZ_eq] at ha
  simp only [List.mem_cons, List.not_mem_nil, or_false] at ha
  rcases ha with rfl | rfl | rfl
  · exact ⟨_, Or.inl rfl, rfl⟩
  · exact ⟨_, Or.inr (Or.inl rfl), rfl⟩
  · exact ⟨_, Or.inr (Or.inr rfl), rfl⟩

theorem commPair (Lx Ly Lz : Nat) (hLx : 2 ≤ Lx) (hLy : 2 ≤ Ly) (hLz : 2 ≤ Lz)
    (hex : Lx % 2 = 0) (hey : Ly % 2 = 0) (hez : Lz % 2 = 0) : (lattice Lx Ly Lz).CommPair := by
  refine ⟨?_, ?_, ?_, ?_, ?_, ?_, ?_⟩
  · intro s hs t ht; exact stab_comm Lx Ly Lz hLx hLy hLz hex hey hez s t hs ht
  · intro a ha s hs
    obtain ⟨K, hK, rfl⟩ := logX_cases Lx Ly Lz a ha
    change opCommute _ (getStab Lx Ly Lz s) = true
    rcases getStab_cases hLx hLy hLz s hs with ⟨k, hk, e⟩ | ⟨k, hk, e⟩ <;> rw [e]
    · exact opCommute_constOp_same _ _ _
    · obtain ⟨a, x, y, z, hv, rfl⟩ := hk
      exact opCommute_of_ovl_even' _ _ _ _ hK.nodup (nodup_triKeys Lx Ly Lz a x y z hv)
        (tri_sheet_even Lx Ly Lz (by omega) (by omega) (by omega) a x y z hv K hK)
  · intro a ha s hs
    obtain ⟨K, hK, rfl⟩ := logZ_cases Lx Ly Lz a ha
    change opCommute _ (getStab Lx Ly Lz s) = true
    rcases getStab_cases hLx hLy hLz s hs with ⟨k, hk, e⟩ | ⟨k, hk, e⟩ <;> rw [e]
    · obtain ⟨x, y, z, hc, rfl⟩ := hk
      exact opCommute_of_ovl_even' _ _ _ _ hK.nodup (nodup_cubeKeys Lx Ly Lz x y z hLx hLy hLz hc)
        (cube_line_even Lx Ly Lz (by omega) (by omega) (by omega) x y z hc K hK)
    · exact opCommute_constOp_same _ _ _
  · change (logX Lx Ly Lz).length = (logZ Lx Ly Lz).length
    rw [logX_eq, logZ_eq]; rfl
  · intro i j hi hj
    exact pairing Lx Ly Lz (by omega) (by omega) (by omega) hex hey hez i j hi hj
  · intro a ha b hb
    obtain ⟨K, _, rfl⟩ := logX_cases Lx Ly Lz a ha
    obtain ⟨K', _, rfl⟩ := logX_cases Lx Ly Lz b hb
    exact opCommute_constOp_same _ _ _
  · intro a ha b hb
    obtain ⟨K, _, rfl⟩ := logZ_cases Lx Ly Lz a ha
    obtain ⟨K', _, rfl⟩ := logZ_cases Lx Ly Lz b hb
    exact opCommute_constOp_same _ _ _

/-! ### well-formedness -/

theorem nodup_qubits (Lx Ly Lz : Nat) : (qubits Lx Ly Lz).Nodup := by
  unfold qubits
  rw [List.nodup_append, List.nodup_append]
  refine ⟨⟨nodup_grid3 _ _ _ _ (nodup_pyRange2 _ _) (nodup_pyRange2 _ _) (nodup_pyRange2 _ _),
    nodup_grid3 _ _ _ _ (nodup_pyRange2 _ _) (nodup_pyRange2 _ _) (nodup_pyRange2 _ _), ?_⟩,
    nodup_grid3 _ _ _ _ (nodup_pyRange2 _ _) (nodup_pyRange2 _ _) (nodup_pyRange2 _ _), ?_⟩
  · intro a ha b hb hab
    subst hab
    rw [mem_grid3] at ha hb
    obtain ⟨x, y, z, rfl, hx, _⟩ := ha
    obtain ⟨x', y', z', h, hx', _⟩ := hb
    simp only [List.cons.injEq, and_true] at h
    obtain ⟨rfl, rfl, rfl⟩ := h
    rw [mem_pyRange2_1] at hx; rw [mem_pyRange2_0] at hx'
    unfold R1 at hx; unfold R0 at hx'; omega
  · intro a ha b hb hab
    subst hab
    rw [List.mem_append, mem_grid3, mem_grid3] at ha
    rw [mem_grid3] at hb
    obtain ⟨x', y', z', rfl, _, _, hz', _⟩ := hb
    rw [mem_pyRange2_1] at hz'
    unfold R1 at hz'
    rcases ha with ⟨x, y, z, h, _, _, hz, _⟩ | ⟨x, y, z, h, _, _, hz, _⟩ <;>
    · simp only [List.cons.injEq, and_true] at h
      obtain ⟨rfl, rfl, rfl⟩ := h
      rw [mem_pyRange2_0] at hz
      unfold R0 at hz; omega

theorem nodup_stabs (Lx Ly Lz : Nat) : (stabs Lx Ly Lz).Nodup := by
  unfold stabs
  rw [List.nodup_append]
  refine ⟨nodup_grid3 _ _ _ _ (nodup_pyRange2 _ _) (nodup_pyRange2 _ _) (nodup_pyRange2 _ _), ?_, ?_⟩
  · rw [List.nodup_flatMap]
    refine ⟨fun ax _ => (nodup_grid3 _ _ _ _ (nodup_pyRange2 _ _) (nodup_pyRange2 _ _)
      (nodup_pyRange2 _ _)).map (fun a b h => by simpa using h), ?_⟩
    have : ([0, 1, 2, 3] : List Int).Nodup := by decide
    refine List.Pairwise.imp_of_mem ?_ this
    intro a b _ _ hab
    simp only [Function.onFun, List.Disjoint, List.mem_map]
    rintro c ⟨d, _, rfl⟩ ⟨d', _, h⟩
    simp only [List.cons.injEq] at h
    exact hab h.1.symm
  · intro a ha b hb hab
    subst hab
    rw [mem_grid3] at ha
    obtain ⟨x, y, z, rfl, _⟩ := ha
    simp only [List.mem_flatMap, List.mem_map] at hb
    obtain ⟨ax, _, c, hc, h⟩ := hb
    rw [mem_grid3] at hc
    obtain ⟨x', y', z', rfl, _⟩ := hc
    simp at h

theorem qubits_not_stabs (Lx Ly Lz : Nat) (q : Coord) (hq : q ∈ qubits Lx Ly Lz) : q ∉ stabs Lx Ly Lz := by
  obtain ⟨x, y, z, rfl⟩ := mem_qubits_shape Lx Ly Lz q hq
  rw [mem_qubits_iff] at hq
  rw [mem_stabs_cube]
  unfold QX QY QZ R0 R1 at hq
  unfold SC R1
  omega

theorem mem_qubits_of_isQubit (Lx Ly Lz : Nat) (q : Coord) (h : isQubit Lx Ly Lz q = true) :
    q ∈ qubits Lx Ly Lz := List.contains_iff_mem.mp h

theorem IsCubeKeys.qubits {Lx Ly Lz : Nat} {k : List Coord} (h : IsCubeKeys Lx Ly Lz k) :
    ∀ q ∈ k, q ∈ qubits Lx Ly Lz := by
  obtain ⟨x, y, z, _, rfl⟩ := h
  exact fun q hq => mem_qubits_of_isQubit _ _ _ _ (List.mem_filter.mp hq).2

theorem IsTriKeys.qubits {Lx Ly Lz : Nat} {k : List Coord} (h : IsTriKeys Lx Ly Lz k) :
    ∀ q ∈ k, q ∈ qubits Lx Ly Lz := by
  obtain ⟨a, x, y, z, _, rfl⟩ := h
  exact fun q hq => mem_qubits_of_isQubit _ _ _ _ (List.mem_filter.mp hq).2

/-- the edge `(x−1, y−1, z)` of a cube is a qubit -/
theorem IsCubeKeys.ne_nil {Lx Ly Lz : Nat} {k : List Coord} (h : IsCubeKeys Lx Ly Lz k) : k ≠ [] := by
  obtain ⟨x, y, z, ⟨hx, hy, hz, _⟩, rfl⟩ := h
  have : [x - 1, y - 1, z] ∈ cubeKeys Lx Ly Lz x y z := by
    unfold cubeKeys
    rw [List.mem_filter, isQubit_iff]
    refine ⟨by simp [cubeLocs], Or.inr (Or.inr ?_)⟩
    unfold QZ R0; unfold R1 at hx hy
    exact ⟨by omega, by omega, hz⟩
  exact List.ne_nil_of_mem this

/-- the x leg of a triangle is a qubit -/
theorem IsTriKeys.ne_nil {Lx Ly Lz : Nat} {k : List Coord} (h : IsTriKeys Lx Ly Lz k) : k ≠ [] := by
  obtain ⟨a, x, y, z, ⟨_, hx, hy, hz⟩, rfl⟩ := h
  have hs := step_spec (2*Lx) x (sgnX a) (by omega) hx (sgnX_pm a)
  have : [step (2*Lx) x (sgnX a), y, z] ∈ triKeys Lx Ly Lz a x y z := by
    unfold triKeys
    rw [List.mem_filter, isQubit_iff]
    exact ⟨by simp [triLocs], Or.inl ⟨hs, hy, hz⟩⟩
  exact List.ne_nil_of_mem this

theorem constOp_ne_nil {k : List Coord} (p : Pauli) (h : k ≠ []) : constOp k p ≠ [] := by
  unfold constOp; simpa using h

theorem wf (Lx Ly Lz : Nat) (hLx : 2 ≤ Lx) (hLy : 2 ≤ Ly) (hLz : 2 ≤ Lz) : (lattice Lx Ly Lz).WF := by
  refine ⟨nodup_qubits Lx Ly Lz, nodup_stabs Lx Ly Lz, qubits_not_stabs Lx Ly Lz, ?_, ?_, ?_, ?_, ?_⟩
  · intro s hs
    show ((getStab Lx Ly Lz s).map Prod.fst).Nodup
    rcases getStab_cases hLx hLy hLz s hs with ⟨k, hk, e⟩ | ⟨k, hk, e⟩ <;> rw [e, keys_constOp]
    · exact hk.nodup hLx hLy hLz
    · exact hk.nodup
  · intro s hs e he
    change e ∈ getStab Lx Ly Lz s at he
    rcases getStab_cases hLx hLy hLz s hs with ⟨k, hk, eq⟩ | ⟨k, hk, eq⟩ <;>
      (rw [eq, mem_constOp] at he; exact ⟨hk.qubits _ he.1, by rw [he.2]; decide⟩)
  · intro s hs
    show getStab Lx Ly Lz s ≠ []
    rcases getStab_cases hLx hLy hLz s hs with ⟨k, hk, eq⟩ | ⟨k, hk, eq⟩ <;> rw [eq]
    · exact constOp_ne_nil _ hk.ne_nil
    · exact constOp_ne_nil _ hk.ne_nil
  · intro a ha
    rcases List.mem_append.mp ha with h | h
    · obtain ⟨K, hK, rfl⟩ := logX_cases Lx Ly Lz a h
      rw [keys_constOp]; exact hK.nodup
    · obtain ⟨K, hK, rfl⟩ := logZ_cases Lx Ly Lz a h
      rw [keys_constOp]; exact hK.nodup
  · intro a ha e he
    rcases List.mem_append.mp ha with h | h
    · obtain ⟨K, hK, rfl⟩ := logX_cases Lx Ly Lz a h
      rw [mem_constOp] at he
      exact ⟨mem_qubits_of_isQubit _ _ _ _ (hK.qubits (by omega) (by omega) (by omega) _ he.1),
        by rw [he.2]; decide⟩
    · obtain ⟨K, hK, rfl⟩ := logZ_cases Lx Ly Lz a h
      rw [mem_constOp] at he
      exact ⟨mem_qubits_of_isQubit _ _ _ _ (hK.qubits (by omega) (by omega) (by omega) _ he.1),
        by rw [he.2]; decide⟩

/-! ### counts -/

theorem length_qubits (Lx Ly Lz : Nat) : (qubits Lx Ly Lz).length = 3 * (Lx * Ly * Lz) := by
  unfold qubits allTrue
  simp only [List.length_append, length_grid3_true, length_pyRange2]
  have e1 : ∀ L : Nat, (2 * L + 1 - 1) / 2 = L := fun L => by omega
  have e0 : ∀ L : Nat, (2 * L + 1 - 0) / 2 = L := fun L => by omega
  simp only [e1, e0]
  omega

theorem length_logX (Lx Ly Lz : Nat) : (logX Lx Ly Lz).length = 3 := rfl

/-- half of the cubes are coloured (the corner `(1, 1, 1)` is not), four triangles per vertex -/
theorem length_stabs (Lx Ly Lz : Nat) :
    (stabs Lx Ly Lz).length = Lx * (Ly * Lz) / 2 + 4 * (Lx * Ly * Lz) := by
  unfold stabs
  have hc : (grid3 (pyRange2 1 (2*Lx)) (pyRange2 1 (2*Ly)) (pyRange2 1 (2*Lz)) cubeKeep).length =
      Lx * (Ly * Lz) / 2 := by
    rw [pyRange2_eq_ap, pyRange2_eq_ap, pyRange2_eq_ap]
    have e : ∀ L : Nat, (2 * L + 1 - 1) / 2 = L := fun L => by omega
    rw [e, e, e]
    have := length_grid3_checker ((1 : Nat) : Int) ((1 : Nat) : Int) ((1 : Nat) : Int) 1 Lx Ly Lz
      (by decide) (by decide)
    unfold cubeKeep
    rw [this]
    rfl
  rw [List.length_append, hc]
  unfold allTrue
  simp only [List.flatMap_cons, List.flatMap_nil, List.length_append, List.length_map, List.length_nil,
    length_grid3_true, length_pyRange2]
  have e0 : ∀ L : Nat, (2 * L + 1 - 0) / 2 = L := fun L => by omega
  simp only [e0]
  omega

/-! ### `qubit_axis` on the qubits -/

theorem qubitAxis_qubit (Lx Ly Lz : Nat) (x y z : Int) (h : [x, y, z] ∈ qubits Lx Ly Lz) :
    qubitAxis [x, y, z] = some (if x % 2 = 1 then "x" else if y % 2 = 1 then "y" else "z") := by
  rw [mem_qubits_iff] at h
  unfold QX QY QZ R0 R1 at h
  apply Rhombic.qubitAxis_eq
  omega

end Panqec.RhombicToricCode
