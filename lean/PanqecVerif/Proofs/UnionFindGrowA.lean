/-
Union-find internals (C05), growth phase, part A: the parent-pointer forest `_s_parents`
(`find_root` with path compression, linking a root or a fresh stabilizer under a root).

Ghost data: `rep s` = the root of the tree of `s`, `d s` = an upper bound on the number of
parent links from `s` to its root.  `d s + #{fresh or root} ≤ m` bounds every path by `m`,
which is the fuel `find_root` gets in the model.
-/
import PanqecVerif.Proofs.UnionFindPeelB

namespace Panqec.UF

set_option linter.unusedSimpArgs false
set_option linter.unusedVariables false

/-- `s` is fresh (`-1`) or a root (`parents[s] == s`) -/
def freeOrRoot (sPar : Nat → Int) (i : Nat) : Bool := decide (sPar i = -1) || decide (sPar i = (i : Int))

structure UFInv (m : Nat) (sPar : Nat → Int) (rep d : Nat → Nat) : Prop where
  rng : ∀ s, sPar s = -1 ∨ ∃ p, p < m ∧ sPar s = (p : Int)
  out : ∀ s, m ≤ s → sPar s = -1
  rep_root : ∀ s, sPar s ≠ -1 → sPar (rep s) = (rep s : Int)
  rep_par : ∀ (s p : Nat), sPar s = (p : Int) → rep p = rep s
  root_rep : ∀ s, sPar s = (s : Int) → rep s = s
  par_live : ∀ (s p : Nat), sPar s = (p : Int) → sPar p ≠ -1
  d_par : ∀ (s p : Nat), sPar s = (p : Int) → p ≠ s → d p < d s
  d_root : ∀ s, sPar s = (s : Int) → d s = 0
  d_fresh : ∀ s, sPar s = -1 → d s = 0
  d_bound : ∀ s, d s + cnt m (freeOrRoot sPar) ≤ m

theorem UFInv.lt {m : Nat} {sPar : Nat → Int} {rep d : Nat → Nat} (I : UFInv m sPar rep d)
    {s : Nat} (h : sPar s ≠ -1) : s < m := by
  by_contra hs
  exact h (I.out s (by omega))

theorem UFInv.rep_lt {m : Nat} {sPar : Nat → Int} {rep d : Nat → Nat} (I : UFInv m sPar rep d)
    {s : Nat} (h : sPar s ≠ -1) : rep s < m := by
  apply I.lt
  rw [I.rep_root s h]; omega

theorem UFInv.rep_rep {m : Nat} {sPar : Nat → Int} {rep d : Nat → Nat} (I : UFInv m sPar rep d)
    {s : Nat} (h : sPar s ≠ -1) : rep (rep s) = rep s := I.root_rep _ (I.rep_root s h)

/-- the `while v != p` loop climbs to the root -/
theorem findLoop_spec {m : Nat} {par : Nat → Int} {rep d : Nat → Nat} (I : UFInv m par rep d) :
    ∀ (fuel v : Nat) (seen : List Nat), par v ≠ -1 → d v < fuel →
      ∃ path, findLoop par fuel v (par v) seen = some (rep v, seen ++ path) ∧
        d (rep v) ≤ d v ∧
        ∀ x, x ∈ path → par x ≠ -1 ∧ rep x = rep v ∧ par x ≠ (x : Int) ∧ d (rep v) < d x := by
  intro fuel
  induction fuel with
  | zero => intro v seen _ h; omega
  | succ fuel ih =>
    intro v seen hv hd
    unfold findLoop
    by_cases hroot : (v : Int) = par v
    · simp only [hroot, if_true]
      have := I.root_rep v hroot.symm
      exact ⟨[], by simp [this], by rw [this]; exact Nat.le_refl _, by simp⟩
    · simp only [hroot, if_false]
      rcases I.rng v with h | ⟨p, hp, hpv⟩
      · exact absurd h hv
      · have hneg : ¬ par v < 0 := by omega
        simp only [hneg, if_false]
        have htn : (par v).toNat = p := by omega
        rw [htn]
        have hpv' : p ≠ v := fun h => hroot (by omega)
        have hlive := I.par_live v p hpv
        have hdp := I.d_par v p hpv hpv'
        obtain ⟨path, hrun, hdle, hpath⟩ := ih p (seen ++ [v]) hlive (by omega)
        have hrep := I.rep_par v p hpv
        refine ⟨v :: path, ?_, ?_, ?_⟩
        · rw [hrun, hrep]; simp
        · rw [← hrep]; omega
        · intro x hx
          rcases List.mem_cons.mp hx with rfl | hx
          · exact ⟨hv, rfl, fun h => hroot h.symm, by rw [← hrep]; omega⟩
          · have := hpath x hx
            rw [hrep] at this; exact this

theorem findRoot_fresh (m : Nat) (par : Nat → Int) (v : Nat) (h : par v = -1) :
    findRoot m par v = (-1, par, false) := by
  unfold findRoot; simp [h]

/-- path compression: pointing non-root members of one tree directly at its root -/
theorem compress_path {m : Nat} {par : Nat → Int} {rep d : Nat → Nat} (I : UFInv m par rep d)
    (r : Nat) (hr : par r = (r : Int)) (path : List Nat)
    (hpath : ∀ x, x ∈ path → par x ≠ -1 ∧ rep x = r ∧ par x ≠ (x : Int) ∧ d r < d x) :
    UFInv m (fun i => if i ∈ path then (r : Int) else par i) rep d ∧
      (∀ i, (if i ∈ path then (r : Int) else par i) = -1 ↔ par i = -1) ∧
      (∀ i, (if i ∈ path then (r : Int) else par i) = (i : Int) ↔ par i = (i : Int)) := by
  have hrm : r < m := I.lt (by rw [hr]; omega)
  have hrr : rep r = r := I.root_rep r hr
  have hfresh : ∀ i, (if i ∈ path then (r : Int) else par i) = -1 ↔ par i = -1 := by
    intro i
    by_cases hi : i ∈ path
    · simp only [hi, if_true]
      constructor
      · intro h; omega
      · intro h; exact absurd h (hpath i hi).1
    · simp [hi]
  have hroots : ∀ i, (if i ∈ path then (r : Int) else par i) = (i : Int) ↔ par i = (i : Int) := by
    intro i
    by_cases hi : i ∈ path
    · simp only [hi, if_true]
      constructor
      · intro h
        have : r = i := by omega
        rw [← this] at hi
        exact absurd hr (hpath _ hi).2.2.1
      · intro h; exact absurd h (hpath i hi).2.2.1
    · simp [hi]
  refine ⟨⟨?_, ?_, ?_, ?_, ?_, ?_, ?_, ?_, ?_, ?_⟩, hfresh, hroots⟩
  · intro s
    by_cases hs : s ∈ path
    · exact Or.inr ⟨r, hrm, by simp [hs]⟩
    · simp only [hs, if_false]; exact I.rng s
  · intro s hs
    rw [hfresh]; exact I.out s hs
  · intro s hs
    have hs' : par s ≠ -1 := fun h => hs ((hfresh s).mpr h)
    have hnot : rep s ∉ path := fun h => (hpath _ h).2.2.1 (I.rep_root s hs')
    simp only [hnot, if_false]; exact I.rep_root s hs'
  · intro s p hsp
    by_cases hs : s ∈ path
    · simp only [hs, if_true] at hsp
      have : p = r := by omega
      subst this
      rw [hrr, (hpath s hs).2.1]
    · simp only [hs, if_false] at hsp; exact I.rep_par s p hsp
  · intro s hs
    exact I.root_rep s ((hroots s).mp hs)
  · intro s p hsp
    rw [Ne, hfresh]
    by_cases hs : s ∈ path
    · simp only [hs, if_true] at hsp
      have : p = r := by omega
      subst this
      rw [hr]; omega
    · simp only [hs, if_false] at hsp; exact I.par_live s p hsp
  · intro s p hsp hne
    by_cases hs : s ∈ path
    · simp only [hs, if_true] at hsp
      have : p = r := by omega
      subst this
      exact (hpath s hs).2.2.2
    · simp only [hs, if_false] at hsp; exact I.d_par s p hsp hne
  · intro s hs; exact I.d_root s ((hroots s).mp hs)
  · intro s hs; exact I.d_fresh s ((hfresh s).mp hs)
  · intro s
    have : cnt m (freeOrRoot fun i => if i ∈ path then (r : Int) else par i) =
        cnt m (freeOrRoot par) := by
      apply cnt_congr
      intro i _
      unfold freeOrRoot
      have h1 := hfresh i
      have h2 := hroots i
      by_cases a : par i = -1 <;> by_cases b : par i = (i : Int) <;> simp_all
    rw [this]; exact I.d_bound s

/-- `find_root(v)`: returns the root; the compressed array has the same trees (same `rep`),
    the same fresh stabilizers and the same roots -/
theorem findRoot_spec {m : Nat} {par : Nat → Int} {rep d : Nat → Nat} (I : UFInv m par rep d)
    {v : Nat} (hv : par v ≠ -1) :
    ∃ par', findRoot m par v = ((rep v : Int), par', false) ∧ UFInv m par' rep d ∧
      (∀ i, par' i = -1 ↔ par i = -1) ∧ (∀ i, par' i = (i : Int) ↔ par i = (i : Int)) ∧
      (∀ i, par i = (rep i : Int) → par' i = (rep i : Int)) := by
  have hdv : d v < m + 1 := by have := I.d_bound v; omega
  obtain ⟨path, hrun, _, hpath⟩ := findLoop_spec I (m + 1) v [] hv hdv
  have hrr := I.rep_root v hv
  obtain ⟨U', hf, hr⟩ := compress_path I (rep v) hrr path hpath
  refine ⟨fun i => if i ∈ path then (rep v : Int) else par i, ?_, U', hf, hr, ?_⟩
  · unfold findRoot
    simp only [hv, if_false, hrun, List.nil_append]
  · intro i hi
    by_cases hip : i ∈ path
    · simp only [hip, if_true]; rw [(hpath i hip).2.1]
    · simp only [hip, if_false]; exact hi

/-- `_s_parents[x] = b` for a root or fresh `x ≠ b` under a root `b` -/
theorem link_spec {m : Nat} {sPar : Nat → Int} {rep d : Nat → Nat} (I : UFInv m sPar rep d)
    {b x : Nat} (hb : sPar b = (b : Int)) (hx : x < m) (hxb : x ≠ b)
    (hxr : sPar x = (x : Int) ∨ sPar x = -1) :
    UFInv m (fun i => if i = x then (b : Int) else sPar i)
      (fun i => if i = x ∨ (sPar i ≠ -1 ∧ rep i = x) then b else rep i)
      (fun i => if i = x ∨ (sPar i ≠ -1 ∧ rep i = x) then d i + 1 else d i) := by
  have hbm : b < m := I.lt (by rw [hb]; omega)
  have hbrep : rep b = b := I.root_rep b hb
  -- membership in the class of `x` is inherited along parent links
  have hcls : ∀ (s p : Nat), s ≠ x → sPar s = (p : Int) →
      ((p = x ∨ (sPar p ≠ -1 ∧ rep p = x)) ↔ (s = x ∨ (sPar s ≠ -1 ∧ rep s = x))) := by
    intro s p hsx hsp
    have h1 := I.rep_par s p hsp
    have h2 := I.par_live s p hsp
    have h3 : sPar s ≠ -1 := by rw [hsp]; omega
    constructor
    · rintro (h | h)
      · subst h
        rcases hxr with h | h
        · exact Or.inr ⟨h3, by rw [← h1]; exact I.root_rep p h⟩
        · exact absurd h h2
      · exact Or.inr ⟨h3, by rw [← h1]; exact h.2⟩
    · rintro (h | h)
      · exact absurd h hsx
      · exact Or.inr ⟨h2, by rw [h1]; exact h.2⟩
  have hbcls : ¬ (b = x ∨ (sPar b ≠ -1 ∧ rep b = x)) := by
    rintro (h | h)
    · exact hxb h.symm
    · rw [hbrep] at h; exact hxb h.2.symm
  refine ⟨?_, ?_, ?_, ?_, ?_, ?_, ?_, ?_, ?_, ?_⟩
  · intro s
    by_cases hs : s = x
    · exact Or.inr ⟨b, hbm, by simp [hs]⟩
    · simp only [hs, if_false]; exact I.rng s
  · intro s hs
    have : s ≠ x := by omega
    simp only [this, if_false]; exact I.out s hs
  · intro s hs
    by_cases hc : s = x ∨ (sPar s ≠ -1 ∧ rep s = x)
    · simp only [hc, if_true, hxb.symm, if_false]; exact hb
    · simp only [hc, if_false]
      have hsx : s ≠ x := fun h => hc (Or.inl h)
      simp only [hsx, if_false] at hs
      have hrx : rep s ≠ x := fun h => hc (Or.inr ⟨hs, h⟩)
      simp only [hrx, if_false]; exact I.rep_root s hs
  · intro s p hsp
    by_cases hs : s = x
    · subst hs
      simp only [if_true] at hsp
      have : p = b := by omega
      subst this
      simp [hbcls, hbrep]
    · simp only [hs, if_false] at hsp
      have := hcls s p hs hsp
      by_cases hc : s = x ∨ (sPar s ≠ -1 ∧ rep s = x)
      · simp only [hc, this.mpr hc, if_true]
      · have hc' : ¬ (p = x ∨ (sPar p ≠ -1 ∧ rep p = x)) := fun h => hc (this.mp h)
        simp only [hc, hc', if_false]; exact I.rep_par s p hsp
  · intro s hs
    by_cases hsx : s = x
    · subst hsx; simp only [if_true] at hs; omega
    · simp only [hsx, if_false] at hs
      have hr := I.root_rep s hs
      have : ¬ (s = x ∨ (sPar s ≠ -1 ∧ rep s = x)) := by
        rintro (h | h)
        · exact hsx h
        · rw [hr] at h; exact hsx h.2
      simp only [this, if_false]; exact hr
  · intro s p hsp
    by_cases hs : s = x
    · subst hs
      simp only [if_true] at hsp
      have : p = b := by omega
      subst this
      simp only [hxb.symm, if_false]; rw [hb]; omega
    · simp only [hs, if_false] at hsp
      have := I.par_live s p hsp
      by_cases hp : p = x
      · simp [hp]
      · simp only [hp, if_false]; exact this
  · intro s p hsp hne
    by_cases hs : s = x
    · subst hs
      simp only [if_true] at hsp
      have : p = b := by omega
      subst this
      simp only [hbcls, if_false, true_or, if_true]
      rw [I.d_root p hb]; omega
    · simp only [hs, if_false] at hsp
      have := hcls s p hs hsp
      have hd := I.d_par s p hsp hne
      by_cases hc : s = x ∨ (sPar s ≠ -1 ∧ rep s = x)
      · simp only [hc, this.mpr hc, if_true]; omega
      · have hc' : ¬ (p = x ∨ (sPar p ≠ -1 ∧ rep p = x)) := fun h => hc (this.mp h)
        simp only [hc, hc', if_false]; exact hd
  · intro s hs
    by_cases hsx : s = x
    · subst hsx; simp only [if_true] at hs; omega
    · simp only [hsx, if_false] at hs
      have hr := I.root_rep s hs
      have : ¬ (s = x ∨ (sPar s ≠ -1 ∧ rep s = x)) := by
        rintro (h | h)
        · exact hsx h
        · rw [hr] at h; exact hsx h.2
      simp only [this, if_false]; exact I.d_root s hs
  · intro s hs
    by_cases hsx : s = x
    · subst hsx; simp only [if_true] at hs; omega
    · simp only [hsx, if_false] at hs
      have : ¬ (s = x ∨ (sPar s ≠ -1 ∧ rep s = x)) := by
        rintro (h | h)
        · exact hsx h
        · exact h.1 hs
      simp only [this, if_false]; exact I.d_fresh s hs
  · intro s
    have hcnt : cnt m (freeOrRoot fun i => if i = x then (b : Int) else sPar i) + 1 =
        cnt m (freeOrRoot sPar) := by
      have h1 := cnt_update' m (freeOrRoot sPar) x hx false
      have h2 : cnt m (freeOrRoot fun i => if i = x then (b : Int) else sPar i) =
          cnt m (fun j => if j = x then false else freeOrRoot sPar j) := by
        apply cnt_congr
        intro i _
        unfold freeOrRoot
        by_cases hi : i = x
        · subst hi
          simp only [if_true]
          have h3 : ¬ (b : Int) = -1 := by omega
          have h4 : ¬ (b : Int) = (i : Int) := by omega
          simp [h3, h4]
        · simp [hi]
      have h3 : freeOrRoot sPar x = true := by
        unfold freeOrRoot
        rcases hxr with h | h <;> simp [h]
      rw [h2]; rw [h3] at h1; simp only [b2n_true, b2n_false] at h1; omega
    have := I.d_bound s
    by_cases hc : s = x ∨ (sPar s ≠ -1 ∧ rep s = x)
    · simp only [hc, if_true]; omega
    · simp only [hc, if_false]; omega

end Panqec.UF
