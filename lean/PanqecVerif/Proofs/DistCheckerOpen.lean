/-
Counting lemmas for the all-sizes distance proof of the rhombic code with open boundaries (core
Lean only):

* `rsum_restrict`, `rsum2_restrict` — a sum over a larger range of a function vanishing outside a
  smaller one;
* `slab_checker_open` — the checkerboard slab with open boundaries, obtained from the periodic one
  (`slab_checker`) by padding with zeros: the half cubes below the first row are the cubes that the
  padded period wraps around to;
* `rsum_updown` — a stack of sites, the sites of one parity reading the position above, the others
  the position below: every position is read twice (or lies outside);
* `cells_const` — a function on the corners and the centres of the cells of a rectangular grid that
  is constant (mod 2) on every cell is constant.
-/
import PanqecVerif.Proofs.DistChecker

namespace Panqec.Lat2D

theorem rsum_restrict (g : Nat → Nat) (a : Nat) : ∀ A : Nat, a ≤ A → (∀ j, a ≤ j → g j = 0) →
    rsum A g = rsum a g
  | 0, h, _ => by
    have : a = 0 := by omega
    subst this; rfl
  | A + 1, h, hz => by
    by_cases e : a = A + 1
    · subst e; rfl
    · rw [rsum, rsum_restrict g a A (by omega) hz, hz A (by omega)]; rfl

theorem rsum2_restrict (g : Nat → Nat → Nat) (a b A B : Nat) (ha : a ≤ A) (hb : b ≤ B)
    (hz : ∀ j k, ¬ (j < a ∧ k < b) → g j k = 0) : rsum2 A B g = rsum2 a b g := by
  unfold rsum2
  rw [rsum_restrict (fun j => rsum B (g j)) a A ha
    (fun j hj => rsum_zero B (fun k _ => hz j k (by omega)))]
  apply rsum_congr
  intro j hj
  exact rsum_restrict (g j) b B hb (fun k hk => hz j k (by omega))

/-- drop the first row and the last column of a double sum when they carry nothing -/
theorem rsum2_inner_box (F : Nat → Nat → Nat) (a c : Nat) (h0 : ∀ k, F 0 k = 0)
    (hl : ∀ j, F j c = 0) : rsum2 (a + 1) (c + 1) F = rsum2 a c (fun j k => F (j + 1) k) := by
  unfold rsum2
  rw [rsum_succ', rsum_zero (c + 1) (fun k _ => h0 k), Nat.zero_add]
  apply rsum_congr
  intro j _
  show rsum c (F (j + 1)) + F (j + 1) c = _
  rw [hl]
  rfl

theorem wrapS_of_lt {L k : Nat} (h : k + 1 < L) : wrapS L k = k + 1 := by
  unfold wrapS; rw [if_neg (by omega)]
theorem wrapS_last {L k : Nat} (h : k + 1 = L) : wrapS L k = 0 := by
  unfold wrapS; rw [if_pos h]

/-- **Checkerboard slab with open boundaries.**  Planes `i < M`; in-plane edges `P1 i j k`
    (`j < a`, `k < b`), `P2 i j k` and rungs `R i j k` (`1 ≤ j < a`, `k < b`), all vanishing outside
    these ranges.  The cube `(j, k)` (`j < a`, `k < b`) of slab `i`, coloured when `i + j + k` is
    odd, touches `P1 j k`, `P1 j (k+1)`, `P2 j k`, `P2 (j+1) k` in both planes and the four rungs at
    its corners; below the first row there is a row of half cubes `(j, -1)`, coloured when `i + j`
    is even, touching `P1 j 0` in both planes and the rungs `R j 0`, `R (j+1) 0`. -/
theorem slab_checker_open (a b M : Nat) (P1 P2 R : Nat → Nat → Nat → Nat)
    (s1 : ∀ i j k, ¬ (j < a ∧ k < b) → P1 i j k = 0)
    (s2 : ∀ i j k, ¬ (1 ≤ j ∧ j < a ∧ k < b) → P2 i j k = 0)
    (sR : ∀ i j k, ¬ (1 ≤ j ∧ j < a ∧ k < b) → R i j k = 0)
    (h : ∀ i, i + 1 < M → ∀ j k, j < a → k < b → (i + j + k) % 2 = 1 →
      (P1 i j k + P1 i j (k + 1) + P2 i j k + P2 i (j + 1) k
        + P1 (i + 1) j k + P1 (i + 1) j (k + 1) + P2 (i + 1) j k + P2 (i + 1) (j + 1) k
        + R i j k + R i (j + 1) k + R i j (k + 1) + R i (j + 1) (k + 1)) % 2 = 0)
    (h0 : ∀ i, i + 1 < M → ∀ j, j < a → (i + j) % 2 = 0 →
      (P1 i j 0 + P1 (i + 1) j 0 + R i j 0 + R i (j + 1) 0) % 2 = 0) :
    ∀ i, i < M →
      (rsum2 a b (P1 i) + rsum2 a b (P2 i)) % 2 = (rsum2 a b (P1 0) + rsum2 a b (P2 0)) % 2 := by
  intro i hi
  have key := slab_checker (2 * a + 2) (2 * b + 2) M 0 (by omega) (by omega) P1 P2 R ?_ i hi
  · rw [rsum2_restrict (P1 i) a b _ _ (by omega) (by omega) (s1 i),
      rsum2_restrict (P2 i) a b _ _ (by omega) (by omega) (fun j k hjk => s2 i j k (by omega)),
      rsum2_restrict (P1 0) a b _ _ (by omega) (by omega) (s1 0),
      rsum2_restrict (P2 0) a b _ _ (by omega) (by omega) (fun j k hjk => s2 0 j k (by omega))]
      at key
    exact key
  · intro i hi j k hj hk hc
    by_cases hja : j < a
    · have wj : wrapS (2 * a + 2) j = j + 1 := wrapS_of_lt (by omega)
      by_cases hkb : k < b
      · have wk : wrapS (2 * b + 2) k = k + 1 := wrapS_of_lt (by omega)
        rw [wj, wk]
        exact h i hi j k hja hkb (by omega)
      · by_cases hkl : k + 1 = 2 * b + 2
        · have wk : wrapS (2 * b + 2) k = 0 := wrapS_last hkl
          rw [wj, wk]
          have z1 := s1 i j k (by omega)
          have z2 := s2 i j k (by omega)
          have z3 := s2 i (j + 1) k (by omega)
          have z4 := s1 (i + 1) j k (by omega)
          have z5 := s2 (i + 1) j k (by omega)
          have z6 := s2 (i + 1) (j + 1) k (by omega)
          have z7 := sR i j k (by omega)
          have z8 := sR i (j + 1) k (by omega)
          have := h0 i hi j hja (by omega)
          omega
        · have wk : wrapS (2 * b + 2) k = k + 1 := wrapS_of_lt (by omega)
          rw [wj, wk]
          have z1 := s1 i j k (by omega)
          have z1' := s1 i j (k + 1) (by omega)
          have z2 := s2 i j k (by omega)
          have z3 := s2 i (j + 1) k (by omega)
          have z4 := s1 (i + 1) j k (by omega)
          have z4' := s1 (i + 1) j (k + 1) (by omega)
          have z5 := s2 (i + 1) j k (by omega)
          have z6 := s2 (i + 1) (j + 1) k (by omega)
          have z7 := sR i j k (by omega)
          have z8 := sR i (j + 1) k (by omega)
          have z9 := sR i j (k + 1) (by omega)
          have z10 := sR i (j + 1) (k + 1) (by omega)
          omega
    · have wj : wrapS (2 * a + 2) j = 0 ∨ wrapS (2 * a + 2) j = j + 1 := by
        unfold wrapS; split <;> simp
      have z1 := s1 i j k (by omega)
      have z1' := s1 i j (wrapS (2 * b + 2) k) (by omega)
      have z2 := s2 i j k (by omega)
      have z3 := s2 i (wrapS (2 * a + 2) j) k (by omega)
      have z4 := s1 (i + 1) j k (by omega)
      have z4' := s1 (i + 1) j (wrapS (2 * b + 2) k) (by omega)
      have z5 := s2 (i + 1) j k (by omega)
      have z6 := s2 (i + 1) (wrapS (2 * a + 2) j) k (by omega)
      have z7 := sR i j k (by omega)
      have z8 := sR i (wrapS (2 * a + 2) j) k (by omega)
      have z9 := sR i j (wrapS (2 * b + 2) k) (by omega)
      have z10 := sR i (wrapS (2 * a + 2) j) (wrapS (2 * b + 2) k) (by omega)
      omega

/-- **Up/down stack.**  Sites `m < L`; the sites with `m % 2 = e` read the position `2m + 1` above
    them, the others the position `2m - 1` below.  Every position between two sites is read by both
    or by none; the two positions outside carry nothing.  So the total is even. -/
theorem rsum_updown (e : Nat) (he : e < 2) (g : Int → Nat) (h0 : g (-1) = 0) :
    ∀ L : Nat, (rsum L (fun m => if m % 2 = e then g (2 * (m : Int) + 1) else g (2 * (m : Int) - 1))
      + (if 0 < L ∧ (L - 1) % 2 = e then g (2 * (L : Int) - 1) else 0)) % 2 = 0
  | 0 => by simp [rsum]
  | L + 1 => by
    have ih := rsum_updown e he g h0 L
    rw [rsum]
    have eL : 2 * ((L + 1 : Nat) : Int) - 1 = 2 * (L : Int) + 1 := by omega
    rw [eL]
    by_cases hL : L % 2 = e
    · rw [if_pos hL, if_pos ⟨by omega, by simpa using hL⟩]
      rw [if_neg (by omega)] at ih
      omega
    · rw [if_neg hL, if_neg (by simp; exact hL)]
      by_cases h0L : 0 < L
      · rw [if_pos ⟨h0L, by omega⟩] at ih
        omega
      · have : L = 0 := by omega
        subst this
        simp only [Int.natCast_zero, Int.mul_zero, Int.zero_sub] at ih ⊢
        rw [h0]
        simp [rsum]

theorem rsum_updown_even (e : Nat) (he : e < 2) (g : Int → Nat) (L : Nat) (h0 : g (-1) = 0)
    (hL : g (2 * (L : Int) - 1) = 0) :
    rsum L (fun m => if m % 2 = e then g (2 * (m : Int) + 1) else g (2 * (m : Int) - 1)) % 2 = 0 := by
  have := rsum_updown e he g h0 L
  rw [hL] at this
  simpa using this

/-- **Cells.**  `SX` on the corners `(j, k)`, `j < a`, `k < b`, and `SY` on the centres `(j, k)`,
    `j < a - 1`, `k < b - 1`, of the cells of a grid.  If on every cell the four corners have the
    parity of the centre, everything has the parity of the last corner. -/
theorem cells_const (a b : Nat) (ha : 2 ≤ a) (hb : 2 ≤ b) (SX SY : Nat → Nat → Nat)
    (h : ∀ j k, j + 1 < a → k + 1 < b →
      (SX j k + SY j k) % 2 = 0 ∧ (SX (j + 1) k + SY j k) % 2 = 0 ∧
      (SX j (k + 1) + SY j k) % 2 = 0 ∧ (SX (j + 1) (k + 1) + SY j k) % 2 = 0) :
    (∀ j k, j < a → k < b → SX j k % 2 = SX (a - 1) (b - 1) % 2) ∧
    (∀ j k, j + 1 < a → k + 1 < b → SY j k % 2 = SX (a - 1) (b - 1) % 2) := by
  -- all centres have the parity of the centre (0, 0)
  have hrow : ∀ j k, j + 1 < a → k + 1 < b → SY j k % 2 = SY 0 k % 2 := by
    intro j k hj hk
    exact chain (a - 1) (fun j => SY j k) (fun j hj' => by
      have h1 := (h j k (by omega) hk).2.1
      have h2 := (h (j + 1) k (by omega) hk).1
      show (SY j k + SY (j + 1) k) % 2 = 0
      omega) j (by omega)
  have hcol : ∀ k, k + 1 < b → SY 0 k % 2 = SY 0 0 % 2 := by
    intro k hk
    exact chain (b - 1) (fun k => SY 0 k) (fun k hk' => by
      have h1 := (h 0 k (by omega) (by omega)).2.2.1
      have h2 := (h 0 (k + 1) (by omega) (by omega)).1
      show (SY 0 k + SY 0 (k + 1)) % 2 = 0
      omega) k (by omega)
  have hY : ∀ j k, j + 1 < a → k + 1 < b → SY j k % 2 = SY 0 0 % 2 := by
    intro j k hj hk
    rw [hrow j k hj hk, hcol k hk]
  -- every corner is a corner of some cell
  have hX : ∀ j k, j < a → k < b → SX j k % 2 = SY 0 0 % 2 := by
    intro j k hj hk
    by_cases hj' : j + 1 < a
    · by_cases hk' : k + 1 < b
      · have := (h j k hj' hk').1
        have := hY j k hj' hk'
        omega
      · have e : k = (k - 1) + 1 := by omega
        have := (h j (k - 1) hj' (by omega)).2.2.1
        rw [← e] at this
        have := hY j (k - 1) hj' (by omega)
        omega
    · have ej : j = (j - 1) + 1 := by omega
      by_cases hk' : k + 1 < b
      · have := (h (j - 1) k (by omega) hk').2.1
        rw [← ej] at this
        have := hY (j - 1) k (by omega) hk'
        omega
      · have e : k = (k - 1) + 1 := by omega
        have := (h (j - 1) (k - 1) (by omega) (by omega)).2.2.2
        rw [← ej, ← e] at this
        have := hY (j - 1) (k - 1) (by omega) (by omega)
        omega
  have hlast := hX (a - 1) (b - 1) (by omega) (by omega)
  exact ⟨fun j k hj hk => by rw [hX j k hj hk, hlast],
    fun j k hj hk => by rw [hY j k hj hk, hlast]⟩

end Panqec.Lat2D
