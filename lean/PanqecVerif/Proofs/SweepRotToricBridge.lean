/-
The lattice data of RotatedToric3DCode that C10 uses (`Model/SweepLattices.lean`: locations as
triples, dicts by `dictSet`) and the hand-written all-sizes lattice model of C01 / C17
(`Model/Lattices/RotatedToric3DCode.lean`: coordinates as lists, dicts by `Op.insert`) are two
transcriptions of the same class.  Here they are proved to be the same function of the size:
qubit coordinates, stabilizer coordinates (same order), `stabilizer_type`, and `get_stabilizer`
of every stabilizer (same keys in the same order, same letters, defect lines included) — so the
all-sizes theorems of C01 (`valid_code`, `stabilizer_letter_rule`, …) and the geometry theorems of
C10 speak about one object.
-/
import PanqecVerif.Proofs.SweepLattice
import PanqecVerif.Model.Lattices.RotatedToric3DCode

namespace Panqec.Sweep

open Panqec.Lat3Db

set_option linter.unusedSimpArgs false

/-- a location of the sweep model as a coordinate of the lattice models of C01 -/
def toCoord (l : Loc) : Coord := [l.1, l.2.1, l.2.2]

/-- an operator of the sweep model as an operator of the lattice models of C01 -/
def toCOp (op : Sweep.Op) : Panqec.Op := op.map fun e => (toCoord e.1, e.2)

theorem toCoord_inj {a b : Loc} (h : toCoord a = toCoord b) : a = b := by
  obtain ⟨a1, a2, a3⟩ := a
  obtain ⟨b1, b2, b3⟩ := b
  simp only [toCoord, List.cons.injEq, and_true] at h
  obtain ⟨h1, h2, h3⟩ := h
  subst h1 h2 h3
  rfl

theorem toCoord_beq (a b : Loc) : (toCoord a == toCoord b) = (a == b) := by
  by_cases h : a = b
  · subst h; simp
  · have h' : ¬ toCoord a = toCoord b := fun e => h (toCoord_inj e)
    simp [h, h']

theorem contains_map_toCoord (l : List Loc) (q : Loc) :
    (l.map toCoord).contains (toCoord q) = l.contains q := by
  induction l with
  | nil => rfl
  | cons a l ih =>
    simp only [List.map_cons, List.contains_cons, ih]
    rw [toCoord_beq q a]

/-! ### ranges and nested loops -/

theorem range2_eq_pyRange2 (a b : Nat) : range2 (a : Int) (b : Int) = pyRange2 a b := by
  unfold range2 pyRange2
  have hlen : (((b : Int) - (a : Int) + 1) / 2).toNat = (b + 1 - a) / 2 := by omega
  rw [hlen]
  apply List.ext_getElem
  · simp
  · intro i h1 h2
    simp only [List.getElem_map, List.getElem_range, List.getElem_range']
    show (a : Int) + 2 * (i : Int) = Int.ofNat (a + 2 * i)
    simp

theorem map_toCoord_filter_prod3 (A B C : List Int) (p : Loc → Bool) :
    ((prod3 A B C).filter p).map toCoord = grid3 A B C (fun x y z => p (x, y, z)) := by
  unfold prod3 grid3
  rw [List.filter_flatMap, List.map_flatMap]
  congr 1
  funext x
  rw [List.filter_flatMap, List.map_flatMap]
  congr 1
  funext y
  rw [List.filter_map, List.map_map]
  rfl

theorem map_toCoord_prod3 (A B C : List Int) :
    (prod3 A B C).map toCoord = grid3 A B C (fun _ _ _ => true) := by
  have := map_toCoord_filter_prod3 A B C (fun _ => true)
  simpa using this


theorem range2_nat (a b : Nat) (a' b' : Int) (ha : a' = (a : Int)) (hb : b' = (b : Int)) :
    range2 a' b' = pyRange2 a b := by
  rw [ha, hb, range2_eq_pyRange2]

/-! ### building a dict -/

theorem toCOp_any (op : Sweep.Op) (k : Loc) :
    (toCOp op).any (fun e => e.1 == toCoord k) = op.any (fun e => e.1 == k) := by
  unfold toCOp
  induction op with
  | nil => rfl
  | cons e op ih =>
    simp only [List.map_cons, List.any_cons, ih, toCoord_beq]

theorem toCOp_dictSet (op : Sweep.Op) (k : Loc) (v : Pauli) :
    toCOp (dictSet op k v) = Panqec.Op.insert (toCOp op) (toCoord k) v := by
  unfold dictSet Panqec.Op.insert
  rw [toCOp_any]
  cases h : op.any (fun e => e.1 == k)
  · simp [toCOp]
  · simp only [if_true, toCOp, List.map_map]
    apply List.map_congr_left
    intro e _
    simp only [Function.comp, toCoord_beq]
    cases e.1 == k <;> rfl

theorem toCOp_foldl (qs : List Loc) (cands : List (Loc × Pauli)) (acc : Sweep.Op) :
    toCOp (cands.foldl (fun op c => if qs.contains c.1 then dictSet op c.1 c.2 else op) acc) =
      cands.foldl (fun op c => if (qs.map toCoord).contains (toCoord c.1)
        then Panqec.Op.insert op (toCoord c.1) c.2 else op) (toCOp acc) := by
  induction cands generalizing acc with
  | nil => rfl
  | cons c cands ih =>
    simp only [List.foldl_cons, ih, contains_map_toCoord]
    cases qs.contains c.1
    · rfl
    · simp only [if_true, toCOp_dictSet]

/-! ### RotatedToric3DCode: the sweep model against the lattice model of C01 -/

/-- `get_qubit_coordinates`: the two transcriptions list the same locations in the same order -/
theorem rotToric_qubits_agree (Lx Ly Lz : Nat) :
    (rotToric3D Lx Ly Lz).qubits.map toCoord = RotatedToric3DCode.qubits Lx Ly Lz := by
  show (rotToricQubits Lx Ly Lz).map toCoord = _
  unfold rotToricQubits RotatedToric3DCode.qubits
  rw [List.map_append, map_toCoord_prod3, map_toCoord_filter_prod3]
  rw [range2_nat 1 (2 * Lx) 1 (2 * (Lx : Int)) (by omega) (by omega),
    range2_nat 1 (2 * Ly) 1 (2 * (Ly : Int)) (by omega) (by omega),
    range2_nat 1 (2 * Lz) 1 (2 * (Lz : Int)) (by omega) (by omega),
    range2_nat 2 (2 * Lx + 1) 2 (2 * (Lx : Int) + 1) (by omega) (by omega),
    range2_nat 2 (2 * Ly + 1) 2 (2 * (Ly : Int) + 1) (by omega) (by omega),
    range2_nat 2 (2 * Lz) 2 (2 * (Lz : Int)) (by omega) (by omega)]
  rfl

/-- `get_stabilizer_coordinates` -/
theorem rotToric_stabs_agree (Lx Ly Lz : Nat) :
    (rotToric3D Lx Ly Lz).stabs.map toCoord = RotatedToric3DCode.stabs Lx Ly Lz := by
  show (rotToricStabs Lx Ly Lz).map toCoord = _
  unfold rotToricStabs RotatedToric3DCode.stabs
  rw [List.map_append, List.map_append, map_toCoord_filter_prod3, map_toCoord_filter_prod3,
    map_toCoord_filter_prod3]
  rw [range2_nat 1 (2 * Lx) 1 (2 * (Lx : Int)) (by omega) (by omega),
    range2_nat 1 (2 * Ly) 1 (2 * (Ly : Int)) (by omega) (by omega),
    range2_nat 1 (2 * Lz) 1 (2 * (Lz : Int)) (by omega) (by omega),
    range2_nat 2 (2 * Lx + 1) 2 (2 * (Lx : Int) + 1) (by omega) (by omega),
    range2_nat 2 (2 * Ly + 1) 2 (2 * (Ly : Int) + 1) (by omega) (by omega),
    range2_nat 2 (2 * Lz) 2 (2 * (Lz : Int)) (by omega) (by omega)]
  rfl


theorem defectPauli_eq_flipXZ : RotatedToric3DCode.defectPauli = flipXZ := by
  funext p
  cases p <;> rfl

/-- the candidate the sweep model writes for the offset `d` is the one the lattice model writes -/
theorem rotToric_cand_agree (Lx Ly : Nat) (x y z : Int) (p : Pauli) (d : Loc) :
    let q0 := addLoc (x, y, z) d
    let q : Loc := (seam Lx q0.1, seam Ly q0.2.1, q0.2.2)
    RotatedToric3DCode.neighbour Lx Ly x y z (toCoord d) = toCoord q ∧
    RotatedToric3DCode.letterAt (RotatedToric3DCode.onDefectBoundary Lx Ly x y) p (toCoord q) =
      (if ((Lx % 2 == 1 && x == 2 * (Lx : Int)) && q.1 == 1) !=
          ((Ly % 2 == 1 && y == 2 * (Ly : Int)) && q.2.1 == 1) then flipXZ p else p) := by
  obtain ⟨d1, d2, d3⟩ := d
  refine ⟨rfl, ?_⟩
  simp only [RotatedToric3DCode.letterAt, RotatedToric3DCode.onDefectBoundary, toCoord,
    defectPauli_eq_flipXZ]

/-- the dict loop of `get_stabilizer`, for any list of offsets -/
theorem rotToric_build_agree (Lx Ly Lz : Nat) (x y z : Int) (p : Pauli) (ds : List Loc) :
    toCOp (buildOp (rotToricQubits Lx Ly Lz) (ds.map fun d =>
      let q0 := addLoc (x, y, z) d
      let q : Loc := (seam Lx q0.1, seam Ly q0.2.1, q0.2.2)
      let hasDefect := ((Lx % 2 == 1 && x == 2 * (Lx : Int)) && q.1 == 1) !=
        ((Ly % 2 == 1 && y == 2 * (Ly : Int)) && q.2.1 == 1)
      (q, if hasDefect then flipXZ p else p))) =
    RotatedToric3DCode.buildStab Lx Ly Lz x y z p (ds.map toCoord) := by
  unfold buildOp RotatedToric3DCode.buildStab
  rw [toCOp_foldl, List.foldl_map, List.foldl_map]
  congr 1
  funext op d
  have h := rotToric_cand_agree Lx Ly x y z p d
  simp only at h
  simp only [h.1, h.2, RotatedToric3DCode.isQubit, ← rotToric_qubits_agree]
  rfl

/-- `stabilizer_type` -/
theorem rotToric_type_agree (x y z : Int) :
    rotIsFace (x, y, z) = !RotatedToric3DCode.isVertexXYZ x y z := rfl

/-- the `delta` list chosen by `get_stabilizer` -/
theorem rotToric_deltas_agree (x y z : Int) :
    RotatedToric3DCode.deltaOf x y z =
      (if rotIsFace (x, y, z) then rotFaceDeltas (x, y, z) else some rotVertexDeltasToric).map
        (List.map toCoord) := by
  unfold RotatedToric3DCode.deltaOf rotIsFace rotFaceDeltas xyMod4 RotatedToric3DCode.isVertexXYZ
  rcases Bool.eq_false_or_eq_true ((x + y) % 4 == 2 && z % 2 == 1) with h1 | h1
  · simp only [h1, if_true, Bool.not_true, Bool.false_eq_true, if_false]
    rfl
  · simp only [h1, if_false, Bool.not_false, if_true, Bool.false_eq_true]
    rcases Bool.eq_false_or_eq_true (z % 2 == 1) with h2 | h2
    · simp only [h2, if_true]; rfl
    · simp only [h2, if_false, Bool.false_eq_true]
      rcases Bool.eq_false_or_eq_true ((x + y) % 4 == 0) with h3 | h3
      · simp only [h3, if_true]; rfl
      · simp only [h3, if_false, Bool.false_eq_true]
        rcases Bool.eq_false_or_eq_true ((x + y) % 4 == 2) with h4 | h4
        · simp only [h4, if_true]; rfl
        · simp only [h4, if_false, Bool.false_eq_true]; rfl

/-- `get_stabilizer` at every stabilizer location: the two transcriptions build the same dict
    (same keys in the same order, same letters — defect lines included) -/
theorem rotToric_stabOp_agree (Lx Ly Lz : Nat) (s : Loc) (hs : s ∈ (rotToric3D Lx Ly Lz).stabs) :
    toCOp ((rotToric3D Lx Ly Lz).stabOp s) = RotatedToric3DCode.getStab Lx Ly Lz (toCoord s) := by
  obtain ⟨x, y, z⟩ := s
  have hst : RotatedToric3DCode.isStab Lx Ly Lz (toCoord (x, y, z)) = true := by
    unfold RotatedToric3DCode.isStab
    rw [← rotToric_stabs_agree, contains_map_toCoord]
    exact List.contains_iff_mem.mpr hs
  show toCOp (rotToricStabOp Lx Ly Lz (x, y, z)) = _
  unfold RotatedToric3DCode.getStab RotatedToric3DCode.getStab?
  rw [hst]
  simp only [Bool.not_true, Bool.false_eq_true, if_false, toCoord]
  rw [rotToric_deltas_agree]
  unfold rotToricStabOp
  have hp : (if RotatedToric3DCode.isVertexXYZ x y z = true then Pauli.Z else Pauli.X) =
      (if rotIsFace (x, y, z) = true then Pauli.X else Pauli.Z) := by
    rw [rotToric_type_agree]
    cases RotatedToric3DCode.isVertexXYZ x y z <;> rfl
  rw [hp]
  cases (if rotIsFace (x, y, z) = true then rotFaceDeltas (x, y, z) else some rotVertexDeltasToric) with
  | none => rfl
  | some ds =>
    simp only [Option.map_some, Option.getD_some]
    exact rotToric_build_agree Lx Ly Lz x y z _ ds


/-- `stabilizer_type` at every stabilizer location -/
theorem rotToric_stabilizerType_agree (Lx Ly Lz : Nat) (s : Loc)
    (hs : s ∈ (rotToric3D Lx Ly Lz).stabs) :
    RotatedToric3DCode.stabilizerType Lx Ly Lz (toCoord s) =
      some (if (rotToric3D Lx Ly Lz).isFace s then "face" else "vertex") := by
  obtain ⟨x, y, z⟩ := s
  have hst : RotatedToric3DCode.isStab Lx Ly Lz (toCoord (x, y, z)) = true := by
    unfold RotatedToric3DCode.isStab
    rw [← rotToric_stabs_agree, contains_map_toCoord]
    exact List.contains_iff_mem.mpr hs
  unfold RotatedToric3DCode.stabilizerType
  rw [hst]
  show some (if RotatedToric3DCode.isVertexXYZ x y z = true then "vertex" else "face") =
    some (if rotIsFace (x, y, z) = true then "face" else "vertex")
  rw [rotToric_type_agree]
  cases RotatedToric3DCode.isVertexXYZ x y z <;> rfl

end Panqec.Sweep
