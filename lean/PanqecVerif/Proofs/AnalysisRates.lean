/-
Helper lemmas (C15): rates over `Rat`, the word-error-rate formula over the reals,
soundness of the bracketing tests used by the driver.
-/
import PanqecVerif.Proofs.Analysis
import Mathlib.Tactic.Linarith
import Mathlib.Tactic.Ring
import Mathlib.Tactic.FieldSimp
import Mathlib.Tactic.Positivity
import Mathlib.Algebra.Order.Field.Rat
import Mathlib.Analysis.SpecialFunctions.Pow.Deriv

namespace Panqec.An

/-! ### estimator and standard error -/

theorem Group.IsPool.pEst {g : Group} {P : List Trial} (h : g.IsPool P) (hne : P ≠ []) :
    g.pEst = some ((specNFail P : Rat) / (P.length : Rat)) := by
  unfold Group.pEst
  have hl : g.success.length = P.length := by rw [h.success, List.length_map]
  have hpos : 0 < P.length := List.length_pos_iff.mpr hne
  rw [if_neg (by omega), hl, h.success, countTrue_map_su]
  have hn : (P.length : Rat) ≠ 0 := by exact_mod_cast (by omega : P.length ≠ 0)
  have hsum : (P.length : Rat) = (P.countP (·.su) : Rat) + (specNFail P : Rat) := by
    exact_mod_cast length_eq_su_add_fail P
  congr 1
  field_simp
  linarith

theorem Group.IsPool.pEst_empty {g : Group} (h : g.IsPool []) : g.pEst = none := by
  unfold Group.pEst
  rw [h.success]; simp

theorem specNFail_le_length (P : List Trial) : specNFail P ≤ P.length := List.countP_le_length

theorem rate_mem_unit (a n : Nat) (h : a ≤ n) (hn : 0 < n) :
    0 ≤ (a : Rat) / (n : Rat) ∧ (a : Rat) / (n : Rat) ≤ 1 := by
  have hn' : (0 : Rat) < n := by exact_mod_cast hn
  have ha : (a : Rat) ≤ n := by exact_mod_cast h
  constructor
  · positivity
  · rw [div_le_one hn']; exact ha

theorem seRad_nonneg (p : Rat) (n : Nat) (h0 : 0 ≤ p) (h1 : p ≤ 1) : 0 ≤ seRad p n := by
  unfold seRad
  have : (0 : Rat) < (n : Rat) + 1 := by positivity
  apply div_nonneg _ this.le
  nlinarith

theorem seRad_le_quarter (p : Rat) (n : Nat) : seRad p n ≤ 1 / (4 * ((n : Rat) + 1)) := by
  unfold seRad
  have hn : (0 : Rat) < (n : Rat) + 1 := by positivity
  rw [div_le_div_iff₀ hn (by positivity)]
  nlinarith [sq_nonneg (2 * p - 1)]

theorem sum_wall_perm {a b : List Entry} (h : a.Perm b) : (a.map (·.wall)).sum = (b.map (·.wall)).sum :=
  (h.map _).sum_eq

/-! ### soundness of the bracketing tests (what the driver's verdict `ok` means) -/

theorem absR_eq_abs (x : Rat) : absR x = |x| := by
  unfold absR
  split
  · rw [abs_of_neg ‹_›]
  · rw [abs_of_nonneg (not_lt.mp ‹_›)]

theorem within_sound {ε δ f r : Rat} (h : within ε δ f r = true) : |f - r| ≤ ε * |r| + δ := by
  unfold within at h
  rw [absR_eq_abs, absR_eq_abs] at h
  exact of_decide_eq_true h

/-- if the test accepts `f` then `f` is within relative `ε` of the real square root of `r` -/
theorem sqrtWithin_sound {ε f r : Rat} (hε0 : 0 ≤ ε) (hε1 : ε ≤ 1) (h : sqrtWithin ε f r = true) :
    (f : ℝ) * (1 - ε) ≤ Real.sqrt r ∧ Real.sqrt r ≤ (f : ℝ) * (1 + ε) := by
  unfold sqrtWithin at h
  simp only [Bool.and_eq_true, decide_eq_true_eq] at h
  obtain ⟨⟨hf, hlo⟩, hhi⟩ := h
  have hf' : (0 : ℝ) ≤ f := by exact_mod_cast hf
  have hε0' : (0 : ℝ) ≤ ε := by exact_mod_cast hε0
  have hε1' : (ε : ℝ) ≤ 1 := by exact_mod_cast hε1
  have hlo' : ((f : ℝ) * (1 - ε)) ^ 2 ≤ (r : ℝ) := by exact_mod_cast hlo
  have hhi' : (r : ℝ) ≤ ((f : ℝ) * (1 + ε)) ^ 2 := by exact_mod_cast hhi
  constructor
  · apply Real.le_sqrt_of_sq_le hlo'
  · rw [Real.sqrt_le_left (by positivity)]
    exact hhi'

/-! ### word error rate -/

/-- `get_word_error_rate`: `1 - (1 - p)**(1/k)` over the reals -/
noncomputable def wordRate (p : ℝ) (k : ℕ) : ℝ := 1 - (1 - p) ^ ((1 : ℝ) / k)

/-- the standard error the code attaches to it: `(1/k) (1-p)**(1/k - 1) * se` -/
noncomputable def wordSe (p se : ℝ) (k : ℕ) : ℝ := (1 / (k : ℝ)) * (1 - p) ^ ((1 : ℝ) / k - 1) * se

/-- the defining relation: all `k` logical qubits fail independently at rate `p_word` -/
theorem wordRate_relation (p : ℝ) (k : ℕ) (hk : 0 < k) (hp : p ≤ 1) :
    (1 - wordRate p k) ^ k = 1 - p := by
  unfold wordRate
  have h0 : (0 : ℝ) ≤ 1 - p := by linarith
  have hk' : (k : ℝ) ≠ 0 := by exact_mod_cast (by omega : k ≠ 0)
  rw [sub_sub_cancel, ← Real.rpow_natCast, ← Real.rpow_mul h0, one_div, inv_mul_cancel₀ hk', Real.rpow_one]

/-- first-order error propagation: the factor in `p_word_se` is the derivative of the word rate -/
theorem wordRate_hasDerivAt (p : ℝ) (k : ℕ) (hp : p < 1) :
    HasDerivAt (fun q => wordRate q k) ((1 / (k : ℝ)) * (1 - p) ^ ((1 : ℝ) / k - 1)) p := by
  unfold wordRate
  have h1 : HasDerivAt (fun q : ℝ => 1 - q) (-1) p := by
    simpa using (hasDerivAt_id p).const_sub 1
  have h2 := h1.rpow_const (p := (1 : ℝ) / k) (Or.inl (by linarith : (1 : ℝ) - p ≠ 0))
  have h3 := h2.const_sub 1
  have heq : (1 / (k : ℝ)) * (1 - p) ^ ((1 : ℝ) / k - 1)
      = -(-1 * ((1 : ℝ) / k) * (1 - p) ^ ((1 : ℝ) / k - 1)) := by ring
  rw [heq]
  exact h3

theorem wordSe_eq_deriv_mul (p se : ℝ) (k : ℕ) :
    wordSe p se k = ((1 / (k : ℝ)) * (1 - p) ^ ((1 : ℝ) / k - 1)) * se := rfl

/-- the root-free form used by the driver: `se_word · k · (1 - p_word)^(k-1) = se` -/
theorem wordSe_rootfree (p se : ℝ) (k : ℕ) (hk : 0 < k) (hp : p < 1) :
    wordSe p se k * k * (1 - wordRate p k) ^ (k - 1) = se := by
  unfold wordSe wordRate
  have h0 : (0 : ℝ) < 1 - p := by linarith
  have hk' : (k : ℝ) ≠ 0 := by exact_mod_cast (by omega : k ≠ 0)
  rw [sub_sub_cancel, ← Real.rpow_natCast, ← Real.rpow_mul h0.le]
  have hcast : ((k - 1 : ℕ) : ℝ) = (k : ℝ) - 1 := by
    rw [Nat.cast_sub (by omega)]; simp
  rw [hcast]
  have hexp : (1 : ℝ) / k * ((k : ℝ) - 1) = -((1 : ℝ) / k - 1) := by
    field_simp
    ring
  rw [hexp, Real.rpow_neg h0.le]
  have hne : (1 - p) ^ ((1 : ℝ) / k - 1) ≠ 0 := (Real.rpow_pos_of_pos h0 _).ne'
  field_simp

/-- monotone bracketing: if the test accepts `w` then the true word rate of `p` lies between
    `w(1-ε) - δ` and `w(1+ε) + δ` -/
theorem wordWithin_sound {ε δ p w : Rat} {k : ℕ} (hk : 0 < k) (hp : p ≤ 1)
    (h : wordWithin ε δ k p w = true) :
    ((w * (1 - ε) - δ : Rat) : ℝ) ≤ wordRate p k ∧ wordRate p k ≤ ((w * (1 + ε) + δ : Rat) : ℝ) := by
  unfold wordWithin at h
  simp only [Bool.and_eq_true, decide_eq_true_eq] at h
  obtain ⟨⟨hlo1, hlo⟩, hhi⟩ := h
  set lo : Rat := w * (1 - ε) - δ with hlo_def
  set hi : Rat := w * (1 + ε) + δ with hhi_def
  have hrel := wordRate_relation (p : ℝ) k hk (by exact_mod_cast hp)
  have hp0 : (0 : ℝ) ≤ 1 - (p : ℝ) := by
    have : ((p : Rat) : ℝ) ≤ 1 := by exact_mod_cast hp
    linarith
  have hw1 : 0 ≤ 1 - wordRate (p : ℝ) k := by
    unfold wordRate; rw [sub_sub_cancel]; exact Real.rpow_nonneg hp0 _
  have hk0 : k ≠ 0 := by omega
  constructor
  · -- (1 - lo)^k ≥ 1 - p = (1 - w*)^k  ⟹  1 - lo ≥ 1 - w*
    have h1 : (1 - (p : ℝ)) ≤ (1 - (lo : ℝ)) ^ k := by
      have : 1 - (1 - lo) ^ k ≤ p := hlo
      have : ((1 - (1 - lo) ^ k : Rat) : ℝ) ≤ (p : ℝ) := by exact_mod_cast this
      push_cast at this
      linarith
    have hlo1' : (0 : ℝ) ≤ 1 - (lo : ℝ) := by
      have : ((lo : Rat) : ℝ) ≤ 1 := by exact_mod_cast hlo1
      linarith
    rw [← hrel] at h1
    have := (pow_le_pow_iff_left₀ hw1 hlo1' hk0).mp h1
    linarith
  · by_cases hc : hi ≤ 1
    · rw [min_eq_left hc] at hhi
      have h1 : (1 - (hi : ℝ)) ^ k ≤ (1 - (p : ℝ)) := by
        have : ((p : Rat) : ℝ) ≤ ((1 - (1 - hi) ^ k : Rat) : ℝ) := by exact_mod_cast hhi
        push_cast at this
        linarith
      have hhi1' : (0 : ℝ) ≤ 1 - (hi : ℝ) := by
        have : ((hi : Rat) : ℝ) ≤ 1 := by exact_mod_cast hc
        linarith
      rw [← hrel] at h1
      have := (pow_le_pow_iff_left₀ hhi1' hw1 hk0).mp h1
      linarith
    · have : (1 : ℝ) < (hi : ℝ) := by exact_mod_cast (not_le.mp hc)
      linarith

end Panqec.An
