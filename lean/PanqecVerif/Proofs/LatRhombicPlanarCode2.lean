/-
RhombicPlanarCode lattice model: a cube operator and a triangle operator share an even number of
qubits (also at the boundaries, where both are truncated by the `is_qubit` filter); hence all pairs
of stabilizer generators commute.  Every size.
-/
import PanqecVerif.Proofs.LatRhombicPlanarCode1
open Panqec Panqec.Lat3Db Panqec.Rhombic
namespace Panqec.RhombicPlanarCode

/-- `rough_triangle` in terms of the y sign of the triangle -/
theorem rough_iff (Ly : Nat) (a y : Int) (ha : IsAxis a) :
    Rough Ly a y ↔ (y = 0 ∧ sgnY a = -1) ∨ (y = 2*(Ly:Int)-2 ∧ sgnY a = 1) := by
  unfold Rough sgnY
  rcases ha with rfl | rfl | rfl | rfl <;> simp

section legs
variable {Lx Ly Lz : Nat} {vx vy vz cx cy cz sx sy sz : Int}

/-- the x leg of a triangle is always a qubit; it is an edge of the cube iff ... -/
theorem legX_iff (hvx : R2 (2*Lx) vx) (hvy : R0 (2*Ly) vy) (hvz : R0 (2*Lz) vz)
    (hcx : R1 (2*Lx) cx) (hcy : RM (2*Ly) cy) (hcz : R1 (2*Lz-1) cz) (_hsx : U sx) :
    [vx + sx, vy, vz] ∈ cubeKeys Lx Ly Lz cx cy cz ↔ (cx - vx = sx ∧ U (cy - vy) ∧ U (cz - vz)) := by
  unfold cubeKeys
  rw [List.mem_filter, mem_cubeLocs, isQubit_iff]
  unfold QX QY QZ
  unfold R0 R1 R2 RM U at *
  constructor
  · rintro ⟨h | h | h, _⟩ <;> omega
  · intro h
    refine ⟨Or.inr (Or.inr (by omega)), Or.inl (by omega)⟩

/-- the y leg of a triangle that is not rough is a qubit -/
theorem legY_iff (hvx : R2 (2*Lx) vx) (hvy : R0 (2*Ly) vy) (hvz : R0 (2*Lz) vz)
    (hcx : R1 (2*Lx) cx) (hcy : RM (2*Ly) cy) (hcz : R1 (2*Lz-1) cz) (hsy : U sy)
    (hr : ¬ ((vy = 0 ∧ sy = -1) ∨ (vy = 2*(Ly:Int)-2 ∧ sy = 1))) :
    [vx, vy + sy, vz] ∈ cubeKeys Lx Ly Lz cx cy cz ↔ (cy - vy = sy ∧ U (cx - vx) ∧ U (cz - vz)) := by
  unfold cubeKeys
  rw [List.mem_filter, mem_cubeLocs, isQubit_iff]
  unfold QX QY QZ
  unfold R0 R1 R2 RM U at *
  constructor
  · rintro ⟨h | h | h, _⟩ <;> omega
  · intro h
    refine ⟨Or.inr (Or.inl (by omega)), Or.inr (Or.inl (by omega))⟩

/-- the z leg may be missing (bottom and top layers), but then no cube contains it -/
theorem legZ_iff (hvx : R2 (2*Lx) vx) (hvy : R0 (2*Ly) vy) (hvz : R0 (2*Lz) vz)
    (hcx : R1 (2*Lx) cx) (hcy : RM (2*Ly) cy) (hcz : R1 (2*Lz-1) cz) (_hsz : U sz) :
    [vx, vy, vz + sz] ∈ cubeKeys Lx Ly Lz cx cy cz ↔ (cz - vz = sz ∧ U (cx - vx) ∧ U (cy - vy)) := by
  unfold cubeKeys
  rw [List.mem_filter, mem_cubeLocs, isQubit_iff]
  unfold QX QY QZ
  unfold R0 R1 R2 RM U at *
  constructor
  · rintro ⟨h | h | h, _⟩ <;> omega
  · intro h
    refine ⟨Or.inl (by omega), Or.inr (Or.inr (by omega))⟩

end legs

/-- a triangle and a cube share an even number of qubits -/
theorem tri_cube_even (Lx Ly Lz : Nat) (a vx vy vz cx cy cz : Int) (hv : ST Lx Ly Lz a vx vy vz)
    (hc : SC Lx Ly Lz cx cy cz) :
    ovl (triKeys Lx Ly Lz a vx vy vz) (cubeKeys Lx Ly Lz cx cy cz) % 2 = 0 := by
  obtain ⟨ha, hvx, hvy, hvz, hr⟩ := hv
  obtain ⟨hcx, hcy, hcz, hp⟩ := hc
  rw [rough_iff Ly a vy ha] at hr
  have hsx := sgnX_pm a
  have hsy := sgnY_pm a
  have hsz := sgnZ_pm a vx vy vz
  have hpar := sgn_parity a vx vy vz ha hvx.1 hvy.1 hvz.1
  unfold triKeys cubeKeys
  rw [ovl_filter_filter]
  unfold triLocs
  simp only [ovl_cons_ind, ovl_nil]
  generalize sgnX a = sx at *
  generalize sgnY a = sy at *
  generalize sgnZ a vx vy vz = sz at *
  have e1 := legX_iff hvx hvy hvz hcx hcy hcz hsx
  have e2 := legY_iff hvx hvy hvz hcx hcy hcz hsy hr
  have e3 := legZ_iff hvx hvy hvz hcx hcy hcz hsz
  unfold cubeKeys at e1 e2 e3
  rw [ind_congr e1, ind_congr e2, ind_congr e3]
  have := legs_even (cx - vx) (cy - vy) (cz - vz) sx sy sz hsx hsy hsz (fun _ _ _ => by omega)
  omega

/-! ### every stabilizer is a constant-letter operator; all pairs commute -/

def IsCubeKeys (Lx Ly Lz : Nat) (k : List Coord) : Prop :=
  ∃ x y z, SC Lx Ly Lz x y z ∧ k = cubeKeys Lx Ly Lz x y z

def IsTriKeys (Lx Ly Lz : Nat) (k : List Coord) : Prop :=
  ∃ a x y z, ST Lx Ly Lz a x y z ∧ k = triKeys Lx Ly Lz a x y z

theorem IsCubeKeys.nodup {Lx Ly Lz : Nat} {k : List Coord} (h : IsCubeKeys Lx Ly Lz k) : k.Nodup := by
  obtain ⟨x, y, z, _, rfl⟩ := h; exact nodup_cubeKeys Lx Ly Lz x y z

theorem IsTriKeys.nodup {Lx Ly Lz : Nat} {k : List Coord} (h : IsTriKeys Lx Ly Lz k) : k.Nodup := by
  obtain ⟨a, x, y, z, _, rfl⟩ := h; exact nodup_triKeys Lx Ly Lz a x y z

theorem getStab_cases (Lx Ly Lz : Nat) (s : Coord) (hs : s ∈ stabs Lx Ly Lz) :
    (∃ k, IsCubeKeys Lx Ly Lz k ∧ getStab Lx Ly Lz s = constOp k Pauli.X) ∨
    (∃ k, IsTriKeys Lx Ly Lz k ∧ getStab Lx Ly Lz s = constOp k Pauli.Z) := by
  rcases mem_stabs_shape Lx Ly Lz s hs with ⟨x, y, z, rfl⟩ | ⟨a, x, y, z, rfl⟩
  · have h := (mem_stabs_cube Lx Ly Lz x y z).mp hs
    exact Or.inl ⟨_, ⟨x, y, z, h, rfl⟩, getStab_cube Lx Ly Lz x y z h⟩
  · have h := (mem_stabs_tri Lx Ly Lz a x y z).mp hs
    exact Or.inr ⟨_, ⟨a, x, y, z, h, rfl⟩, getStab_tri Lx Ly Lz a x y z h⟩

theorem tri_cube_keys_even {Lx Ly Lz : Nat} {kt kc : List Coord} (ht : IsTriKeys Lx Ly Lz kt)
    (hc : IsCubeKeys Lx Ly Lz kc) : ovl kt kc % 2 = 0 := by
  obtain ⟨cx, cy, cz, hc, rfl⟩ := hc
  obtain ⟨a, x, y, z, hv, rfl⟩ := ht
  exact tri_cube_even Lx Ly Lz a x y z cx cy cz hv hc

theorem stab_comm (Lx Ly Lz : Nat) (s t : Coord) (hs : s ∈ stabs Lx Ly Lz) (ht : t ∈ stabs Lx Ly Lz) :
    opCommute (getStab Lx Ly Lz s) (getStab Lx Ly Lz t) = true := by
  rcases getStab_cases Lx Ly Lz s hs with ⟨k, hk, e⟩ | ⟨k, hk, e⟩ <;>
  rcases getStab_cases Lx Ly Lz t ht with ⟨k', hk', e'⟩ | ⟨k', hk', e'⟩ <;> rw [e, e']
  · exact opCommute_constOp_same _ _ _
  · exact opCommute_of_ovl_even' _ _ _ _ hk.nodup hk'.nodup (tri_cube_keys_even hk' hk)
  · exact opCommute_of_ovl_even _ _ _ _ (tri_cube_keys_even hk hk')
  · exact opCommute_constOp_same _ _ _

end Panqec.RhombicPlanarCode
