/-
Bridge, part B: a lattice model that is well-formed (`Lattice.WF`), satisfies the
operator-level commutation/pairing clauses (`Lattice.CommPair`) and has an independent family
of `n − k` generators (`IndepGenerators`) assembles — through `stabilizer_matrix`,
`logicals_x`, `logicals_z` of the generic code model — into a valid `[[n, k]]` stabilizer
code (`ValidCodeL`, all four clauses of C01, GF(2) rank included).
-/
import PanqecVerif.Proofs.Lat2DBridgeA
import PanqecVerif.Proofs.Lat2DRank
import PanqecVerif.Proofs.Mask2
import PanqecVerif.Proofs.CodeAlgebra

namespace Panqec.Lat2D
open Module

/-! ### the assembled matrices -/

def matH (l : Lattice) : List (List Nat) := l.stabs.map fun s => rowOf l.qubits (l.getStab s)
def matX (l : Lattice) : List (List Nat) := l.logX.map (rowOf l.qubits)
def matZ (l : Lattice) : List (List Nat) := l.logZ.map (rowOf l.qubits)

theorem rowOf_binary (qs : List Coord) (a : Op) (ha : (a.map Prod.fst).Nodup) :
    ∀ x ∈ rowOf qs a, x < 2 := by
  intro x hx
  unfold rowOf at hx
  rw [List.mem_append, List.mem_map, List.mem_map] at hx
  rcases hx with ⟨q, _, rfl⟩ | ⟨q, _, rfl⟩
  · rw [opCount_eq_letter Pauli.xBit xBit_01 rfl a ha q]
    rcases xBit_01 (letterAt a q) with h | h <;> omega
  · rw [opCount_eq_letter Pauli.zBit zBit_01 rfl a ha q]
    rcases zBit_01 (letterAt a q) with h | h <;> omega

theorem map_mod2_of_binary : ∀ (v : List Nat), (∀ x ∈ v, x < 2) → v.map (· % 2) = v
  | [], _ => rfl
  | x :: v, h => by
    have hx := h x (List.mem_cons_self ..)
    rw [List.map_cons, map_mod2_of_binary v (fun y hy => h y (List.mem_cons_of_mem _ hy))]
    congr 1
    omega

theorem mapM_some {α β} (f : α → Option β) (g : α → β) : ∀ (l : List α),
    (∀ a ∈ l, f a = some (g a)) → l.mapM f = some (l.map g)
  | [], _ => rfl
  | a :: l, h => by
    rw [List.mapM_cons, h a (List.mem_cons_self ..),
      mapM_some f g l (fun b hb => h b (List.mem_cons_of_mem _ hb))]
    rfl

theorem stabilizerMatrix_eq (l : Lattice) (hwf : l.WF) :
    stabilizerMatrix l.toCodeData = some (matH l) := by
  unfold stabilizerMatrix matH Lattice.toCodeData
  simp only
  rw [mapM_some (stabRow l.qubits) (rowOf l.qubits), List.map_map]
  · rfl
  · intro op hop
    rw [List.mem_map] at hop
    obtain ⟨s, hs, rfl⟩ := hop
    unfold stabRow
    rw [toBsf_eq _ _ (fun e he => (hwf.stab_supported s hs e he).1), Option.map_some,
      map_mod2_of_binary _ (rowOf_binary _ _ (hwf.stab_keys s hs))]

theorem logicalsX_eq (l : Lattice) (hwf : l.WF) : logicalsX l.toCodeData = some (matX l) := by
  unfold logicalsX matX Lattice.toCodeData
  simp only
  apply mapM_some
  intro a ha
  exact toBsf_eq _ _ (fun e he => (hwf.log_supported a (List.mem_append_left _ ha) e he).1)

theorem logicalsZ_eq (l : Lattice) (hwf : l.WF) : logicalsZ l.toCodeData = some (matZ l) := by
  unfold logicalsZ matZ Lattice.toCodeData
  simp only
  apply mapM_some
  intro a ha
  exact toBsf_eq _ _ (fun e he => (hwf.log_supported a (List.mem_append_right _ ha) e he).1)

/-! ### commutation and pairing -/

theorem getD_map_of_lt {α β} (f : α → β) (d : α) (d' : β) : ∀ (l : List α) (i : Nat),
    i < l.length → (l.map f).getD i d' = f (l.getD i d)
  | [], i, h => absurd h (by simp)
  | a :: l, 0, _ => by simp
  | a :: l, i + 1, h => by
    simp only [List.map_cons, List.getD_cons_succ]
    exact getD_map_of_lt f d d' l i (by simpa using h)

theorem symp_of_commute (qs : List Coord) (hqs : qs.Nodup) (a b : Op)
    (ha : (a.map Prod.fst).Nodup) (hb : (b.map Prod.fst).Nodup) (hsa : ∀ e ∈ a, e.1 ∈ qs)
    (h : opCommute a b = true) : symp (rowOf qs a) (rowOf qs b) = 0 := by
  rw [symp_rowOf qs hqs a b ha hb hsa]
  unfold opCommute at h
  simpa using h

theorem commPairL (l : Lattice) (hwf : l.WF) (hcp : l.CommPair) :
    CommPairL l.qubits.length l.logX.length (matH l) (matX l) (matZ l) where
  wfH := by
    intro r hr
    unfold matH at hr
    rw [List.mem_map] at hr
    obtain ⟨s, hs, rfl⟩ := hr
    exact ⟨rowOf_length _ _, rowOf_binary _ _ (hwf.stab_keys s hs)⟩
  wfX := by
    intro r hr
    unfold matX at hr
    rw [List.mem_map] at hr
    obtain ⟨a, ha, rfl⟩ := hr
    exact ⟨rowOf_length _ _, rowOf_binary _ _ (hwf.log_keys a (List.mem_append_left _ ha))⟩
  wfZ := by
    intro r hr
    unfold matZ at hr
    rw [List.mem_map] at hr
    obtain ⟨a, ha, rfl⟩ := hr
    exact ⟨rowOf_length _ _, rowOf_binary _ _ (hwf.log_keys a (List.mem_append_right _ ha))⟩
  kX := by simp [matX]
  kZ := by simp [matZ, hcp.same_k]
  stab_comm := by
    intro a ha b hb
    unfold matH at ha hb
    rw [List.mem_map] at ha hb
    obtain ⟨s, hs, rfl⟩ := ha
    obtain ⟨t, ht, rfl⟩ := hb
    exact symp_of_commute _ hwf.qubits_nodup _ _ (hwf.stab_keys s hs) (hwf.stab_keys t ht)
      (fun e he => (hwf.stab_supported s hs e he).1) (hcp.stab_comm s hs t ht)
  logX_comm := by
    intro a ha b hb
    unfold matX at ha; unfold matH at hb
    rw [List.mem_map] at ha hb
    obtain ⟨x, hx, rfl⟩ := ha
    obtain ⟨t, ht, rfl⟩ := hb
    exact symp_of_commute _ hwf.qubits_nodup _ _
      (hwf.log_keys x (List.mem_append_left _ hx)) (hwf.stab_keys t ht)
      (fun e he => (hwf.log_supported x (List.mem_append_left _ hx) e he).1)
      (hcp.logX_comm x hx t ht)
  logZ_comm := by
    intro a ha b hb
    unfold matZ at ha; unfold matH at hb
    rw [List.mem_map] at ha hb
    obtain ⟨x, hx, rfl⟩ := ha
    obtain ⟨t, ht, rfl⟩ := hb
    exact symp_of_commute _ hwf.qubits_nodup _ _
      (hwf.log_keys x (List.mem_append_right _ hx)) (hwf.stab_keys t ht)
      (fun e he => (hwf.log_supported x (List.mem_append_right _ hx) e he).1)
      (hcp.logZ_comm x hx t ht)
  pairing := by
    intro i j hi hj
    have hj' : j < l.logZ.length := by rw [← hcp.same_k]; exact hj
    unfold matX matZ
    rw [getD_map_of_lt (rowOf l.qubits) [] [] l.logX i hi,
      getD_map_of_lt (rowOf l.qubits) [] [] l.logZ j hj']
    have hxm : l.logX.getD i [] ∈ l.logX := by
      rw [Panqec.getD_eq_getElem' _ _ hi]; exact List.getElem_mem _
    have hzm : l.logZ.getD j [] ∈ l.logZ := by
      rw [Panqec.getD_eq_getElem' _ _ hj']; exact List.getElem_mem _
    rw [symp_rowOf _ hwf.qubits_nodup _ _ (hwf.log_keys _ (List.mem_append_left _ hxm))
      (hwf.log_keys _ (List.mem_append_right _ hzm))
      (fun e he => (hwf.log_supported _ (List.mem_append_left _ hxm) e he).1)]
    exact hcp.pairing i j hi hj'
  logXX := by
    intro a ha b hb
    unfold matX at ha hb
    rw [List.mem_map] at ha hb
    obtain ⟨x, hx, rfl⟩ := ha
    obtain ⟨y, hy, rfl⟩ := hb
    exact symp_of_commute _ hwf.qubits_nodup _ _
      (hwf.log_keys x (List.mem_append_left _ hx)) (hwf.log_keys y (List.mem_append_left _ hy))
      (fun e he => (hwf.log_supported x (List.mem_append_left _ hx) e he).1) (hcp.logXX x hx y hy)
  logZZ := by
    intro a ha b hb
    unfold matZ at ha hb
    rw [List.mem_map] at ha hb
    obtain ⟨x, hx, rfl⟩ := ha
    obtain ⟨y, hy, rfl⟩ := hb
    exact symp_of_commute _ hwf.qubits_nodup _ _
      (hwf.log_keys x (List.mem_append_right _ hx)) (hwf.log_keys y (List.mem_append_right _ hy))
      (fun e he => (hwf.log_supported x (List.mem_append_right _ hx) e he).1)
      (hcp.logZZ x hx y hy)

/-! ### independence of the rows from `IndepGenerators` -/

/-- the members of `ss` flagged by `bs` -/
def pick : List Bool → List Coord → List Coord
  | b :: bs, s :: ss => if b then s :: pick bs ss else pick bs ss
  | _, _ => []

theorem pick_sublist : ∀ (bs : List Bool) (ss : List Coord), (pick bs ss).Sublist ss
  | [], ss => by simp [pick]
  | _ :: _, [] => by simp [pick]
  | b :: bs, s :: ss => by
    unfold pick
    cases b
    · simpa using (pick_sublist bs ss).cons s
    · simpa using (pick_sublist bs ss).cons_cons s

theorem pick_ne_nil : ∀ (bs : List Bool) (ss : List Coord), bs.length = ss.length →
    (∃ b ∈ bs, b = true) → pick bs ss ≠ []
  | [], _, _, h => by obtain ⟨b, hb, _⟩ := h; simp at hb
  | b :: bs, [], h, _ => by simp at h
  | b :: bs, s :: ss, h, hex => by
    unfold pick
    cases b
    · simp only [Bool.false_eq_true, if_false]
      apply pick_ne_nil bs ss (by simpa using h)
      obtain ⟨b', hb', ht⟩ := hex
      rcases List.mem_cons.mp hb' with e | e
      · rw [e] at ht; exact absurd ht (by decide)
      · exact ⟨b', e, ht⟩
    · simp

theorem sympCombo_pick (d : List Nat) (f : Coord → List Nat) : ∀ (bs : List Bool) (ss : List Coord),
    sympCombo d bs (ss.map f) = ((pick bs ss).map fun t => symp (f t) d).sum
  | [], ss => by cases ss <;> simp [sympCombo, pick]
  | _ :: _, [] => by simp [sympCombo, pick]
  | b :: bs, s :: ss => by
    have ih := sympCombo_pick d f bs ss
    cases b
    · simp [sympCombo, pick, ih]
    · simp [sympCombo, pick, ih]

theorem indep_rows (l : Lattice) (hwf : l.WF) (sel : List Coord) (hsub : sel.Sublist l.stabs)
    (hind : IndepGenerators l sel) :
    Indep (2 * l.qubits.length) (sel.map fun s => rowOf l.qubits (l.getStab s)) := by
  intro bs hlen hx b hb
  cases hbt : b with
  | false => rfl
  | true =>
    exfalso
    rw [List.length_map] at hlen
    let T := pick bs sel
    have hTsub : T.Sublist sel := pick_sublist bs sel
    have hTnd : T.Nodup := (hwf.stabs_nodup.sublist hsub).sublist hTsub
    have hTne : T ≠ [] := pick_ne_nil bs sel hlen ⟨b, hb, hbt⟩
    obtain ⟨d, hdk, hds, hodd⟩ := hind T hTnd (fun t ht => hTsub.subset ht) hTne
    have hrows : ∀ r ∈ sel.map (fun s => rowOf l.qubits (l.getStab s)),
        r.length = 2 * l.qubits.length := by
      intro r hr
      rw [List.mem_map] at hr
      obtain ⟨s, _, rfl⟩ := hr
      exact rowOf_length _ _
    have h1 := symp_xorCombo (2 * l.qubits.length) (rowOf l.qubits d) bs _ hrows
    rw [hx, symp_vzero_left, sympCombo_pick] at h1
    have h2 : ((pick bs sel).map fun t => symp (rowOf l.qubits (l.getStab t)) (rowOf l.qubits d))
        = (pick bs sel).map fun t => opAntiCount d (l.getStab t) % 2 := by
      apply List.map_congr_left
      intro t ht
      have hts : t ∈ l.stabs := hsub.subset (hTsub.subset ht)
      rw [symp_comm, symp_rowOf _ hwf.qubits_nodup d _ hdk (hwf.stab_keys t hts)
        (fun e he => (hds e he).1)]
    rw [h2, ← sum_map_mod2] at h1
    change 0 = (T.map fun t => opAntiCount d (l.getStab t)).sum % 2 at h1
    omega

/-! ### rank and the valid-code statement -/

/-- an independent sub-family of `n − k` rows of a commuting/pairing code has the full rank -/
theorem hasRank_of_indep_sublist {n k : Nat} {H Lx Lz basis : List (List Nat)}
    (hc : CommPairL n k H Lx Lz) (hsub : basis.Sublist H) (hind : Indep (2 * n) basis)
    (hlen : basis.length = n - k) : HasRank (2 * n) H (n - k) := by
  have hwfb : WFRows n basis := fun r hr => hc.wfH r (hsub.subset hr)
  have hb : ∀ r ∈ basis, r.length = 2 * n := fun r hr => (hwfb r hr).1
  refine ⟨basis, hsub, hlen, hind, ?_⟩
  have hle : rowSpan n basis ≤ rowSpan n H := rowSpan_mono_of_subset (fun r hr => hsub.subset hr)
  have hfb : finrank (ZMod 2) (rowSpan n basis) = n - k := by
    rw [finrank_rowSpan_of_hasRank hb (hasRank_of_indep hwfb hind), hlen]
  have hfH : finrank (ZMod 2) (rowSpan n H) ≤ n - k := hc.finrank_rowSpan_le
  have heq : rowSpan n basis = rowSpan n H :=
    Submodule.eq_of_le_of_finrank_le hle (by rw [hfb]; exact hfH)
  intro v hv
  have hvw := hc.wfH v hv
  rw [inSpan_iff_mem_rowSpan hb hvw.1 hvw.2, heq]
  exact toVec_mem_rowSpan n H v hv

/-- a well-formed lattice model with the operator-level commutation/pairing clauses and an
    independent sub-family of `n − k` generators assembles into a valid `[[n, k]]` code -/
theorem validCode_of_lattice (l : Lattice) (hwf : l.WF) (hcp : l.CommPair) (sel : List Coord)
    (hsub : sel.Sublist l.stabs) (hind : IndepGenerators l sel)
    (hcount : sel.length + l.logX.length = l.qubits.length) :
    stabilizerMatrix l.toCodeData = some (matH l) ∧
    logicalsX l.toCodeData = some (matX l) ∧
    logicalsZ l.toCodeData = some (matZ l) ∧
    ValidCodeL l.toCodeData.n l.toCodeData.k (matH l) (matX l) (matZ l) := by
  refine ⟨stabilizerMatrix_eq l hwf, logicalsX_eq l hwf, logicalsZ_eq l hwf, ?_⟩
  have hc := commPairL l hwf hcp
  apply hc.toValid
  apply hasRank_of_indep_sublist hc (hsub.map _) (indep_rows l hwf sel hsub hind)
  rw [List.length_map]
  omega

end Panqec.Lat2D
