/-
`HollowRhombicCode` for every size: a listed cube and a listed triangle share an even number of
qubits.  A triangle `(a, v)` points into one octant of the vertex `v`; the cube of that octant is off
the checkerboard, the three cubes obtained by flipping one sign are on it and contain two of the
three potential qubits of the triangle.  The selection rule of the triangle loop guarantees that
these two are both qubits or both missing (`keep_xy`, `keep_yz`): a two-key triangle survives only
on the two faces `z = 0`, `z = 2Lz − 2`, where its missing key points out of the lattice and the
cubes on that side do not exist.  Core Lean only.
-/
import PanqecVerif.Proofs.LatHollowRhombicCodeB

set_option linter.unusedVariables false
set_option linter.unusedSimpArgs false

namespace Panqec.HollowRhombicCode
open Panqec.Cubic3D
open Panqec.Planar3DCode (inE inO inE2 inO1)

/-- the vertex of a listed triangle -/
def VertexLoc (Lx Ly Lz : Nat) (x y z : Int) : Prop := inE2 Lx x ∧ inE Ly y ∧ inE Lz z

section
variable {Lx Ly Lz : Nat} {x y z sx sy sz : Int}

/-- a missing x key lies in the hole: the vertex is on a magnetic boundary band, away from the
    faces `z = 0`, `z = 2Lz − 2` -/
theorem missing_x (hv : VertexLoc Lx Ly Lz x y z) (hsx : sx = 1 ∨ sx = -1)
    (h4 : ¬ Hole Lx Ly Lz x y z) (hn : ¬ Qx Lx Ly Lz (x + sx) y z) :
    MB Lx Ly Lz x y z ∧ ¬ EB Lz z := by
  unfold VertexLoc inE2 inE at hv
  have hh : Hole Lx Ly Lz (x + sx) y z := by
    unfold Qx at hn
    by_contra hc
    exact hn ⟨by omega, by omega, by omega, by omega, by omega, by omega, hc⟩
  clear hn
  unfold Hole at hh h4
  unfold MB EB
  omega

/-- a missing y key points out of the lattice or lies in the hole: the vertex is on a magnetic
    boundary band; if it is on one of the faces `z = 0`, `z = 2Lz − 2` too, it is on an edge of the box -/
theorem missing_y (hv : VertexLoc Lx Ly Lz x y z) (hsy : sy = 1 ∨ sy = -1)
    (h4 : ¬ Hole Lx Ly Lz x y z) (hn : ¬ Qy Lx Ly Lz x (y + sy) z) :
    MB Lx Ly Lz x y z ∧
      (EB Lz z → ((y = 0 ∨ y = 2 * (Ly : Int) - 2) ∧ (z = 0 ∨ z = 2 * (Lz : Int) - 2))) := by
  unfold VertexLoc inE2 inE at hv
  have hh : y + sy < 1 ∨ y + sy ≥ 2 * (Ly : Int) - 1 ∨ Hole Lx Ly Lz x (y + sy) z := by
    unfold Qy at hn
    by_cases h1 : y + sy < 1
    · exact Or.inl h1
    · by_cases h2 : y + sy ≥ 2 * (Ly : Int) - 1
      · exact Or.inr (Or.inl h2)
      · by_cases h3 : Hole Lx Ly Lz x (y + sy) z
        · exact Or.inr (Or.inr h3)
        · exact absurd ⟨by omega, by omega, by omega, by omega, by omega, by omega, h3⟩ hn
  clear hn
  unfold Hole at hh h4
  unfold MB EB
  omega

/-- a missing z key at a height where cubes exist lies in the hole -/
theorem missing_z (hv : VertexLoc Lx Ly Lz x y z) (hsz : sz = 1 ∨ sz = -1)
    (hcz : 1 ≤ z + sz ∧ z + sz < 2 * (Lz : Int) - 1)
    (h4 : ¬ Hole Lx Ly Lz x y z) (hn : ¬ Qz Lx Ly Lz x y (z + sz)) :
    MB Lx Ly Lz x y z ∧ ¬ EB Lz z := by
  unfold VertexLoc inE2 inE at hv
  have hh : Hole Lx Ly Lz x y (z + sz) := by
    unfold Qz at hn
    by_contra hc
    exact hn ⟨by omega, by omega, by omega, by omega, by omega, by omega, hc⟩
  clear hn
  unfold Hole at hh h4
  unfold MB EB
  omega

/-- a kept triangle has its x key iff it has its y key -/
theorem keep_xy (hv : VertexLoc Lx Ly Lz x y z) (hsx : sx = 1 ∨ sx = -1) (hsy : sy = 1 ∨ sy = -1)
    (hsz : sz = 1 ∨ sz = -1)
    (hk : TriKeep Lx Ly Lz (Qx Lx Ly Lz (x + sx) y z) (Qy Lx Ly Lz x (y + sy) z)
      (Qz Lx Ly Lz x y (z + sz)) x y z) :
    Qx Lx Ly Lz (x + sx) y z ↔ Qy Lx Ly Lz x (y + sy) z := by
  unfold TriKeep at hk
  obtain ⟨h2, h3, h4⟩ := hk
  by_cases tx : Qx Lx Ly Lz (x + sx) y z <;> by_cases ty : Qy Lx Ly Lz x (y + sy) z
  · exact ⟨fun _ => ty, fun _ => tx⟩
  · exfalso
    have tz : Qz Lx Ly Lz x y (z + sz) := by
      rcases h2 with h | h | h
      · exact absurd h.2 ty
      · exact h.2
      · exact absurd h.1 ty
    obtain ⟨m1, m2⟩ := missing_y hv hsy h4 ty
    apply h3
    refine ⟨m1, fun h => ty h.2.1, ?_⟩
    by_cases he : EB Lz z
    · right; exact ⟨m2 he, tz, Or.inl tx⟩
    · left; exact he
  · exfalso
    obtain ⟨m1, m2⟩ := missing_x hv hsx h4 tx
    apply h3
    exact ⟨m1, fun h => tx h.1, Or.inl m2⟩
  · exact ⟨fun h => absurd h tx, fun h => absurd h ty⟩

/-- a kept triangle whose z key points to a height where cubes exist has its y key iff it has its
    z key -/
theorem keep_yz (hv : VertexLoc Lx Ly Lz x y z) (hsx : sx = 1 ∨ sx = -1) (hsy : sy = 1 ∨ sy = -1)
    (hsz : sz = 1 ∨ sz = -1) (hcz : 1 ≤ z + sz ∧ z + sz < 2 * (Lz : Int) - 1)
    (hk : TriKeep Lx Ly Lz (Qx Lx Ly Lz (x + sx) y z) (Qy Lx Ly Lz x (y + sy) z)
      (Qz Lx Ly Lz x y (z + sz)) x y z) :
    Qy Lx Ly Lz x (y + sy) z ↔ Qz Lx Ly Lz x y (z + sz) := by
  have hxy := keep_xy hv hsx hsy hsz hk
  unfold TriKeep at hk
  obtain ⟨h2, h3, h4⟩ := hk
  by_cases ty : Qy Lx Ly Lz x (y + sy) z <;> by_cases tz : Qz Lx Ly Lz x y (z + sz)
  · exact ⟨fun _ => tz, fun _ => ty⟩
  · exfalso
    obtain ⟨m1, m2⟩ := missing_z hv hsz hcz h4 tz
    apply h3
    exact ⟨m1, fun h => tz h.2.2, Or.inl m2⟩
  · exfalso
    have tx : Qx Lx Ly Lz (x + sx) y z := by
      rcases h2 with h | h | h
      · exact h.1
      · exact h.1
      · exact absurd h.1 ty
    exact ty (hxy.mp tx)
  · exact ⟨fun h => absurd h ty, fun h => absurd h tz⟩

end

/-! ### membership of a location in the candidate list of a cube -/

theorem mem_cubeCands {cx cy cz a b c : Int} :
    [a, b, c] ∈ cubeCands cx cy cz ↔
      (a = cx ∧ (b = cy + 1 ∨ b = cy - 1) ∧ (c = cz + 1 ∨ c = cz - 1)) ∨
      (b = cy ∧ (a = cx + 1 ∨ a = cx - 1) ∧ (c = cz + 1 ∨ c = cz - 1)) ∨
      (c = cz ∧ (a = cx + 1 ∨ a = cx - 1) ∧ (b = cy + 1 ∨ b = cy - 1)) := by
  unfold cubeCands cubeDelta
  simp only [List.map_cons, List.map_nil, List.mem_cons, List.cons.injEq, and_true, List.not_mem_nil,
    or_false]
  constructor
  · rintro (⟨h1, h2, h3⟩ | ⟨h1, h2, h3⟩ | ⟨h1, h2, h3⟩ | ⟨h1, h2, h3⟩ | ⟨h1, h2, h3⟩ | ⟨h1, h2, h3⟩ |
      ⟨h1, h2, h3⟩ | ⟨h1, h2, h3⟩ | ⟨h1, h2, h3⟩ | ⟨h1, h2, h3⟩ | ⟨h1, h2, h3⟩ | ⟨h1, h2, h3⟩) <;>
      omega
  · rintro (⟨h1, h2 | h2, h3 | h3⟩ | ⟨h1, h2 | h2, h3 | h3⟩ | ⟨h1, h2 | h2, h3 | h3⟩) <;>
      subst h1 h2 h3
    · right; right; right; right; right; right; right; right; left; omega
    · right; right; right; right; right; right; right; right; right; right; right; omega
    · right; right; right; right; right; right; right; right; right; right; left; omega
    · right; right; right; right; right; right; right; right; right; left; omega
    · right; right; right; right; left; omega
    · right; right; right; right; right; right; left; omega
    · right; right; right; right; right; right; right; left; omega
    · right; right; right; right; right; left; omega
    · left; omega
    · right; right; left; omega
    · right; right; right; left; omega
    · right; left; omega

/-- a candidate x edge / y edge / z edge against the candidates of a cube (parities known) -/
theorem mem_cubeCands_x {cx cy cz a b c : Int} (hc : cx % 2 = 1 ∧ cy % 2 = 1 ∧ cz % 2 = 1)
    (ha : a % 2 = 1) (hb : b % 2 = 0) (hc' : c % 2 = 0) :
    [a, b, c] ∈ cubeCands cx cy cz ↔
      (a = cx ∧ (b = cy + 1 ∨ b = cy - 1) ∧ (c = cz + 1 ∨ c = cz - 1)) := by
  rw [mem_cubeCands]; omega
theorem mem_cubeCands_y {cx cy cz a b c : Int} (hc : cx % 2 = 1 ∧ cy % 2 = 1 ∧ cz % 2 = 1)
    (ha : a % 2 = 0) (hb : b % 2 = 1) (hc' : c % 2 = 0) :
    [a, b, c] ∈ cubeCands cx cy cz ↔
      (b = cy ∧ (a = cx + 1 ∨ a = cx - 1) ∧ (c = cz + 1 ∨ c = cz - 1)) := by
  rw [mem_cubeCands]; omega
theorem mem_cubeCands_z {cx cy cz a b c : Int} (hc : cx % 2 = 1 ∧ cy % 2 = 1 ∧ cz % 2 = 1)
    (ha : a % 2 = 0) (hb : b % 2 = 0) (hc' : c % 2 = 1) :
    [a, b, c] ∈ cubeCands cx cy cz ↔
      (c = cz ∧ (a = cx + 1 ∨ a = cx - 1) ∧ (b = cy + 1 ∨ b = cy - 1)) := by
  rw [mem_cubeCands]; omega

theorem sgn_sum {a x y z : Int} (ha : 0 ≤ a ∧ a < 4) (hx : x % 2 = 0) (hy : y % 2 = 0)
    (hz : z % 2 = 0) : (x + y + z + sgnX a + sgnY a + sgnZ a x y z) % 4 = 3 := by
  have h : a = 0 ∨ a = 1 ∨ a = 2 ∨ a = 3 := by omega
  unfold sgnX sgnY sgnZ
  by_cases hp : (x + y + z) % 4 = 0
  · rcases h with rfl | rfl | rfl | rfl <;> simp [hp] <;> omega
  · rcases h with rfl | rfl | rfl | rfl <;> simp [hp] <;> omega

/-- overlap of two filtered candidate lists -/
theorem ov_filter_filter (A B : List Coord) (p : Coord → Bool) :
    ov (A.filter p) (B.filter p) = A.countP (fun q => p q && decide (q ∈ B)) := by
  unfold ov
  rw [List.countP_filter]
  apply List.countP_congr
  intro q _
  simp only [List.mem_filter, Bool.and_eq_true, decide_eq_true_eq]
  constructor
  · rintro ⟨⟨h1, _⟩, h2⟩; exact ⟨h2, h1⟩
  · rintro ⟨h1, h2⟩; exact ⟨⟨h2, h1⟩, h1⟩

/-- the geometry of a cube of the checkerboard next to a triangle, in relative coordinates
    `(u, v, w) = c − v`: it contains exactly two of the three potential qubits, or none -/
theorem geo {S u v w sx sy sz : Int} (h1 : (S + u + v + w) % 4 = 1) (h3 : (S + sx + sy + sz) % 4 = 3)
    (hsx : sx = 1 ∨ sx = -1) (hsy : sy = 1 ∨ sy = -1) (hsz : sz = 1 ∨ sz = -1) :
    ((u = sx ∧ (v = 1 ∨ v = -1) ∧ (w = 1 ∨ w = -1)) → (v = sy ∧ (u = 1 ∨ u = -1) ∧ (w = 1 ∨ w = -1)) →
      ¬ (w = sz ∧ (u = 1 ∨ u = -1) ∧ (v = 1 ∨ v = -1))) ∧
    ((u = sx ∧ (v = 1 ∨ v = -1) ∧ (w = 1 ∨ w = -1)) →
      (v = sy ∧ (u = 1 ∨ u = -1) ∧ (w = 1 ∨ w = -1)) ∨ (w = sz ∧ (u = 1 ∨ u = -1) ∧ (v = 1 ∨ v = -1))) ∧
    ((v = sy ∧ (u = 1 ∨ u = -1) ∧ (w = 1 ∨ w = -1)) →
      (u = sx ∧ (v = 1 ∨ v = -1) ∧ (w = 1 ∨ w = -1)) ∨ (w = sz ∧ (u = 1 ∨ u = -1) ∧ (v = 1 ∨ v = -1))) ∧
    ((w = sz ∧ (u = 1 ∨ u = -1) ∧ (v = 1 ∨ v = -1)) →
      (u = sx ∧ (v = 1 ∨ v = -1) ∧ (w = 1 ∨ w = -1)) ∨ (v = sy ∧ (u = 1 ∨ u = -1) ∧ (w = 1 ∨ w = -1))) := by
  refine ⟨?_, ?_, ?_, ?_⟩
  · rintro ⟨a1, a2, a3⟩ ⟨b1, b2, b3⟩ ⟨c1, c2, c3⟩; omega
  · rintro ⟨a1, a2, a3⟩
    rcases hsx with rfl | rfl <;> rcases hsy with rfl | rfl <;> rcases hsz with rfl | rfl <;>
      rcases a2 with rfl | rfl <;> rcases a3 with rfl | rfl <;> subst a1 <;> omega
  · rintro ⟨a1, a2, a3⟩
    rcases hsx with rfl | rfl <;> rcases hsy with rfl | rfl <;> rcases hsz with rfl | rfl <;>
      rcases a2 with rfl | rfl <;> rcases a3 with rfl | rfl <;> subst a1 <;> omega
  · rintro ⟨a1, a2, a3⟩
    rcases hsx with rfl | rfl <;> rcases hsy with rfl | rfl <;> rcases hsz with rfl | rfl <;>
      rcases a2 with rfl | rfl <;> rcases a3 with rfl | rfl <;> subst a1 <;> omega

/-- propositional core of the parity argument -/
theorem parity_logic (m1 m2 m3 tx ty tz : Prop) [Decidable m1] [Decidable m2] [Decidable m3]
    [Decidable tx] [Decidable ty] [Decidable tz]
    (g1 : m1 → m2 → ¬ m3) (g2 : m1 → m2 ∨ m3) (g3 : m2 → m1 ∨ m3) (g4 : m3 → m1 ∨ m2)
    (hxy : tx ↔ ty) (hyz : m3 → (ty ↔ tz)) :
    ((if tx ∧ m1 then 1 else 0) + (if ty ∧ m2 then 1 else 0) + (if tz ∧ m3 then 1 else 0)) % 2 = 0 := by
  by_cases h1 : m1 <;> by_cases h2 : m2 <;> by_cases h3 : m3 <;> by_cases htx : tx <;>
    by_cases hty : ty <;> by_cases htz : tz <;> simp_all

/-- a listed cube and a listed triangle share an even number of qubits -/
theorem cube_tri_even {Lx Ly Lz : Nat} {cx cy cz a x y z : Int} (hc : CubeLoc Lx Ly Lz cx cy cz)
    (ha : 0 ≤ a ∧ a < 4) (hv : VertexLoc Lx Ly Lz x y z)
    (hk : TriKeep Lx Ly Lz (TX Lx Ly Lz a x y z) (TY Lx Ly Lz a x y z) (TZ Lx Ly Lz a x y z) x y z) :
    ov (triKeys Lx Ly Lz a x y z) (cubeKeys Lx Ly Lz cx cy cz) % 2 = 0 := by
  have hv' := hv
  unfold VertexLoc inE2 inE at hv'
  obtain ⟨⟨_, _, ex⟩, ⟨_, _, ey⟩, _, _, ez⟩ := hv'
  have hsum := sgn_sum ha ex ey ez
  have hsx := sgnX_cases a
  have hsy := sgnY_cases a
  have hsz := sgnZ_cases a x y z
  have hxy : TX Lx Ly Lz a x y z ↔ TY Lx Ly Lz a x y z := keep_xy hv hsx hsy hsz hk
  have hyz : (1 ≤ z + sgnZ a x y z ∧ z + sgnZ a x y z < 2 * (Lz : Int) - 1) →
      (TY Lx Ly Lz a x y z ↔ TZ Lx Ly Lz a x y z) := fun h => keep_yz hv hsx hsy hsz h hk
  unfold CubeLoc at hc
  obtain ⟨c1, c2, c3, c4, _⟩ := hc
  have hpc : cx % 2 = 1 ∧ cy % 2 = 1 ∧ cz % 2 = 1 := ⟨c1.2.2, c2.2.2, c3.2.2⟩
  unfold triKeys cubeKeys
  rw [ov_filter_filter]
  unfold triCands
  simp only [List.countP_cons, List.countP_nil, Bool.and_eq_true, decide_eq_true_eq,
    isq_tx ex ey ez, isq_ty ex ey ez, isq_tz ex ey ez,
    mem_cubeCands_x hpc (by rcases hsx with h | h <;> omega : (x + sgnX a) % 2 = 1) ey ez,
    mem_cubeCands_y hpc ex (by rcases hsy with h | h <;> omega : (y + sgnY a) % 2 = 1) ez,
    mem_cubeCands_z hpc ex ey (by rcases hsz with h | h <;> omega : (z + sgnZ a x y z) % 2 = 1)]
  have hg := geo (S := x + y + z) (u := cx - x) (v := cy - y) (w := cz - z) (by omega) hsum hsx hsy hsz
  obtain ⟨g1, g2, g3, g4⟩ := hg
  have e1 : (x + sgnX a = cx ∧ (y = cy + 1 ∨ y = cy - 1) ∧ (z = cz + 1 ∨ z = cz - 1)) ↔
      (cx - x = sgnX a ∧ (cy - y = 1 ∨ cy - y = -1) ∧ (cz - z = 1 ∨ cz - z = -1)) := by omega
  have e2 : (y + sgnY a = cy ∧ (x = cx + 1 ∨ x = cx - 1) ∧ (z = cz + 1 ∨ z = cz - 1)) ↔
      (cy - y = sgnY a ∧ (cx - x = 1 ∨ cx - x = -1) ∧ (cz - z = 1 ∨ cz - z = -1)) := by omega
  have e3 : (z + sgnZ a x y z = cz ∧ (x = cx + 1 ∨ x = cx - 1) ∧ (y = cy + 1 ∨ y = cy - 1)) ↔
      (cz - z = sgnZ a x y z ∧ (cx - x = 1 ∨ cx - x = -1) ∧ (cy - y = 1 ∨ cy - y = -1)) := by omega
  simp only [e1, e2, e3]
  have := parity_logic _ _ _ (TX Lx Ly Lz a x y z) (TY Lx Ly Lz a x y z) (TZ Lx Ly Lz a x y z)
    g1 g2 g3 g4 hxy (fun h => hyz (by omega))
  omega

end Panqec.HollowRhombicCode
