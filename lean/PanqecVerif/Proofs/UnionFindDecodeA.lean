/-
Union-find internals (C05), assembly, part A: `Peeling_Tree(r, …).peel()` for one cluster and
`Support.peeling(roots)` over all clusters, under the post-condition of the growth phase
(`ClusterPost`: every cluster is connected through its member qubits and carries an even number
of defects).
-/
import PanqecVerif.Proofs.UnionFindBfsC

namespace Panqec.UF

set_option linter.unusedSimpArgs false
set_option linter.unusedVariables false

/-- `np.where(self._s_parents == r)[0]` as a membership test -/
def stabsOf (H : Mat) (sPar : Nat → Int) (r : Nat) : Nat → Bool :=
  fun s => decide (s < H.length) && decide (sPar s = (r : Int))

/-- `np.where(self._q_parents == r)[0]` as a membership test -/
def qubitsOf (H : Mat) (qPar : Nat → Int) (r : Nat) : Nat → Bool :=
  fun q => decide (q < ncols H) && decide (qPar q = (r : Int))

/-- stabilizer `s` is a defect -/
def defect (sy : Vec) (s : Nat) : Bool := sy.getD s 0 != 0

theorem stabsOf_lt {H : Mat} {sPar : Nat → Int} {r s : Nat} (h : stabsOf H sPar r s = true) :
    s < H.length := by
  unfold stabsOf at h; simp at h; exact h.1

/-- **one cluster**: spanning tree, then peeling -/
theorem peelTree_spec {H : Mat} (G : GraphOK H) (sy : Vec) (sPar qPar : Nat → Int) (r : Nat)
    (hroot : stabsOf H sPar r r = true)
    (hconn : ∀ v, stabsOf H sPar r v = true →
      Reach H (stabsOf H sPar r) (qubitsOf H qPar r) r v)
    (heven : cnt H.length (fun s => defect sy s && stabsOf H sPar r s) % 2 = 0) :
    ∃ t, peelTree H sy sPar qPar r = .ok t ∧ t.corr.Nodup ∧
      (∀ q, q ∈ t.corr → qubitsOf H qPar r q = true) ∧
      ∀ s, t.corr.countP (fun q => hb H s q) % 2 = b2n (defect sy s && stabsOf H sPar r s) := by
  have hst : ∀ s, stabsOf H sPar r s = true → s < H.length := fun s h => stabsOf_lt h
  obtain ⟨S0, leaves, hbuild, T, L⟩ := buildTree_spec G hst hroot hconn
  obtain ⟨st', hrun, hnd, hmem, hbd⟩ := peelLoop_spec (syn0 := fun s => defect sy s && stabsOf H sPar r s)
    G hst T leaves L (by intro s h; simp only [Bool.and_eq_true] at h; exact h.2) heven
  have hbuild' : buildTree H (fun s => decide (s < H.length) && decide (sPar s = (r : Int)))
      (fun q => decide (q < ncols H) && decide (qPar q = (r : Int))) r = some (S0, leaves) := hbuild
  have hrun' : peelLoop H (fun s => decide (s < H.length) && decide (sPar s = (r : Int)))
      (fun q => decide (q < ncols H) && decide (qPar q = (r : Int))) (H.length + 1)
      ⟨S0, fun s => sy.getD s 0 != 0 && (decide (s < H.length) && decide (sPar s = (r : Int))),
        leaves, [], []⟩ = .ok st' := hrun
  unfold peelTree
  simp only [tabGet_tabArr, tabGet2_tabArr2, hbuild', hrun']
  exact ⟨_, rfl, hnd, fun q hq => (hmem q hq).1, hbd⟩

/-- what `Support.clustering()` must deliver for `peeling` to be correct (and does, see
    `UnionFindGrow*`): -/
structure ClusterPost (H : Mat) (sy : Vec) (roots : List Nat) (sPar qPar : Nat → Int) : Prop where
  roots_nodup : roots.Nodup
  root_self : ∀ r, r ∈ roots → stabsOf H sPar r r = true
  cover : ∀ s, s < H.length → defect sy s = true → ∃ r, r ∈ roots ∧ sPar s = (r : Int)
  conn : ∀ r, r ∈ roots → ∀ v, stabsOf H sPar r v = true →
    Reach H (stabsOf H sPar r) (qubitsOf H qPar r) r v
  even : ∀ r, r ∈ roots → cnt H.length (fun s => defect sy s && stabsOf H sPar r s) % 2 = 0

/-- **all clusters** -/
theorem peelAll_spec {H : Mat} (G : GraphOK H) (sy : Vec) (sPar qPar : Nat → Int) :
    ∀ (rs : List Nat), rs.Nodup →
      (∀ r, r ∈ rs → stabsOf H sPar r r = true) →
      (∀ r, r ∈ rs → ∀ v, stabsOf H sPar r v = true →
        Reach H (stabsOf H sPar r) (qubitsOf H qPar r) r v) →
      (∀ r, r ∈ rs → cnt H.length (fun s => defect sy s && stabsOf H sPar r s) % 2 = 0) →
      ∃ ts, peelAll H sy sPar qPar rs = .ok ts ∧ (ts.flatMap (·.corr)).Nodup ∧
        (∀ q, q ∈ ts.flatMap (·.corr) → ∃ r, r ∈ rs ∧ qubitsOf H qPar r q = true) ∧
        ∀ s, (ts.flatMap (·.corr)).countP (fun q => hb H s q) % 2 =
          (rs.countP fun r => defect sy s && stabsOf H sPar r s) % 2 := by
  intro rs
  induction rs with
  | nil => intro _ _ _ _; exact ⟨[], rfl, by simp, by simp, by simp⟩
  | cons r rs ih =>
    intro hnd hroot hconn heven
    rw [List.nodup_cons] at hnd
    obtain ⟨t, ht, htnd, htmem, htbd⟩ := peelTree_spec G sy sPar qPar r (hroot r (by simp))
      (hconn r (by simp)) (heven r (by simp))
    obtain ⟨ts, hts, htsnd, htsmem, htsbd⟩ := ih hnd.2 (fun x hx => hroot x (by simp [hx]))
      (fun x hx => hconn x (by simp [hx])) (fun x hx => heven x (by simp [hx]))
    refine ⟨t :: ts, ?_, ?_, ?_, ?_⟩
    · unfold peelAll; simp only [ht, hts]
    · simp only [List.flatMap_cons]
      rw [List.nodup_append]
      refine ⟨htnd, htsnd, ?_⟩
      intro a ha b hb hab
      subst hab
      have h1 := htmem a ha
      obtain ⟨r', hr', h2⟩ := htsmem a hb
      unfold qubitsOf at h1 h2
      simp only [Bool.and_eq_true, decide_eq_true_eq] at h1 h2
      have : (r : Int) = (r' : Int) := h1.2.symm.trans h2.2
      have : r = r' := by omega
      subst this
      exact hnd.1 hr'
    · intro q hq
      simp only [List.flatMap_cons, List.mem_append] at hq
      rcases hq with hq | hq
      · exact ⟨r, by simp, htmem q hq⟩
      · obtain ⟨r', hr', h⟩ := htsmem q hq
        exact ⟨r', by simp [hr'], h⟩
    · intro s
      simp only [List.flatMap_cons, List.countP_append, List.countP_cons]
      have h1 := htbd s
      have h2 := htsbd s
      have h3 : (if (defect sy s && stabsOf H sPar r s) = true then 1 else 0) =
          b2n (defect sy s && stabsOf H sPar r s) := rfl
      rw [h3]
      omega

/-- each defect lies in exactly one cluster -/
theorem count_clusters {H : Mat} {sy : Vec} {roots : List Nat} {sPar qPar : Nat → Int}
    (P : ClusterPost H sy roots sPar qPar) (s : Nat) (hs : s < H.length) :
    (roots.countP fun r => defect sy s && stabsOf H sPar r s) = b2n (defect sy s) := by
  cases hd : defect sy s
  · simp
  · obtain ⟨r0, hr0, hpar⟩ := P.cover s hs hd
    have : (roots.countP fun r => true && stabsOf H sPar r s) =
        roots.countP (fun r => true && decide (r0 = r)) := by
      apply countP_congr'
      intro r _
      unfold stabsOf
      simp only [hs, decide_true, Bool.true_and, hpar]
      by_cases h : r0 = r
      · simp [h]
      · have : ¬ (r0 : Int) = (r : Int) := by omega
        simp [h, this]
    rw [this, countP_eq_nodup roots P.roots_nodup r0 (fun _ => true)]
    simp [hr0]

end Panqec.UF
