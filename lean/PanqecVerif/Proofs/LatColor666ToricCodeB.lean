/-
Color666ToricCode, square sizes `L ≥ 1`: faces, supports (the six wrapped corners of a hexagon, no
duplicate keys) and the overlap of two faces.  With
`e = ((bx − ax) % 9L, ((3by − 2bx) − (3ay − 2ax)) % 36L)` the corner `a + d` of the face `a` is a
corner of the face `b` iff `e = d − d'` (in the coordinates `(x, 3y − 2x)`, modulo `(9L, 36L)`) for
a delta `d'`; as `e ≡ (0, 0)` modulo `(3, 12)` only `(0,0), ±(3,0), ±(0,12), ±(3,−12)` occur.
The membership lemmas `hh1 … hh6` are generated (one per corner).  Core Lean only.
-/
import PanqecVerif.Proofs.LatColor666ToricCodeA

set_option linter.unusedVariables false
set_option linter.unusedSimpArgs false

namespace Panqec.Color666ToricCode
open Panqec.Lat2D Panqec.Color
open Panqec.Color488Code (emod_small emod_neg_small emod_bridge)

/-! ### faces -/

/-- `(x, y)` is the centre of a face -/
def IsF (L : Nat) (x y : Int) : Prop :=
  x % 3 = 2 ∧ 2 ≤ x ∧ x < 9 * (L : Int) ∧ 2 + skew x ≤ y ∧ y ≤ 12 * (L : Int) + skew x ∧
    (y - (2 + skew x)) % 4 = 0

instance (L : Nat) (x y : Int) : Decidable (IsF L x y) := by unfold IsF; infer_instance

theorem mem_pyRangeI4 {a b x : Int} :
    x ∈ pyRangeI a b 4 ↔ a ≤ x ∧ x < b ∧ (x - a) % 4 = 0 := by
  unfold pyRangeI
  simp only [List.mem_map, List.mem_range]
  constructor
  · rintro ⟨i, hi, rfl⟩
    omega
  · rintro ⟨h1, h2, h3⟩
    exact ⟨((x - a) / 4).toNat, by omega, by omega⟩

theorem nodup_pyRangeI (a b : Int) (step : Nat) (hs : 0 < step) : (pyRangeI a b step).Nodup := by
  unfold pyRangeI
  show List.Pairwise _ _
  rw [List.pairwise_map]
  refine List.Pairwise.imp ?_ List.nodup_range
  intro i j hij e
  apply hij
  have h1 : (step : Int) * (i : Int) = (step : Int) * (j : Int) := by omega
  have h2 : (step : Int) ≠ 0 := by omega
  have := Int.eq_of_mul_eq_mul_left h2 h1
  omega

theorem mem_faces {L : Nat} {q : Coord} :
    q ∈ faces L L ↔ ∃ x y, q = [x, y] ∧ IsF L x y := by
  unfold faces
  rw [mem_columns]
  simp only [mem_pyRangeStep3, mem_pyRangeI4]
  unfold IsF
  constructor
  · rintro ⟨x, y, hx, hy, rfl⟩; refine ⟨x, y, rfl, ?_⟩; omega
  · rintro ⟨x, y, rfl, h⟩; exact ⟨x, y, by omega, by omega, rfl⟩

theorem mem_faces' {L : Nat} {x y : Int} : [x, y] ∈ faces L L ↔ IsF L x y := by
  rw [mem_faces]
  constructor
  · rintro ⟨x', y', h, hq⟩
    simp only [List.cons.injEq, and_true] at h
    rw [h.1, h.2]; exact hq
  · intro h; exact ⟨x, y, rfl, h⟩

theorem nodup_faces (L : Nat) : (faces L L).Nodup := by
  unfold faces
  exact nodup_columns _ (nodup_pyRangeStep _ _ _ (by decide)) (fun x => nodup_pyRangeI _ _ _ (by decide))

theorem mem_stabs {L : Nat} {s : Coord} :
    s ∈ stabs L L ↔ ∃ x y p, s = [x, y, p] ∧ IsF L x y ∧ (p = 0 ∨ p = 1) := by
  unfold stabs
  rw [mem_both]
  constructor
  · rintro ⟨c, hc, h⟩
    obtain ⟨x, y, rfl, hf⟩ := mem_faces.mp hc
    rcases h with rfl | rfl
    · exact ⟨x, y, 0, rfl, hf, Or.inl rfl⟩
    · exact ⟨x, y, 1, rfl, hf, Or.inr rfl⟩
  · rintro ⟨x, y, p, rfl, hf, rfl | rfl⟩
    · exact ⟨[x, y], mem_faces'.mpr hf, Or.inl rfl⟩
    · exact ⟨[x, y], mem_faces'.mpr hf, Or.inr rfl⟩

theorem mem_stabs' {L : Nat} {x y p : Int} :
    [x, y, p] ∈ stabs L L ↔ IsF L x y ∧ (p = 0 ∨ p = 1) := by
  rw [mem_stabs]
  constructor
  · rintro ⟨x', y', p', h, hq⟩
    simp only [List.cons.injEq, and_true] at h
    rw [h.1, h.2.1, h.2.2]; exact hq
  · intro h; exact ⟨x, y, p, rfl, h⟩

theorem nodup_stabs (L : Nat) : (stabs L L).Nodup := nodup_both (nodup_faces L)

/-! ### supports -/

/-- the six keys of the two generators of the face `(x, y)`, in delta order -/
def supp (L : Nat) (x y : Int) : List Coord :=
  [wrapP L (x + -1) (y + -2), wrapP L (x + 1) (y + -2), wrapP L (x + 2) (y + 0),
   wrapP L (x + 1) (y + 2), wrapP L (x + -1) (y + 2), wrapP L (x + -2) (y + 0)]

theorem candidates_eq (L : Nat) (x y : Int) : candidates L L x y = supp L x y := rfl

/-- the corners of a face are near the domain -/
theorem near_corner {L : Nat} (hL : 1 ≤ L) {x y dx dy : Int} (h : IsF L x y)
    (hd : (dx = -1 ∧ dy = -2) ∨ (dx = 1 ∧ dy = -2) ∨ (dx = 2 ∧ dy = 0) ∨ (dx = 1 ∧ dy = 2) ∨
      (dx = -1 ∧ dy = 2) ∨ (dx = -2 ∧ dy = 0)) : Near L (x + dx) (y + dy) := by
  unfold IsF skew at h
  unfold Near skew
  rcases hd with ⟨rfl, rfl⟩ | ⟨rfl, rfl⟩ | ⟨rfl, rfl⟩ | ⟨rfl, rfl⟩ | ⟨rfl, rfl⟩ | ⟨rfl, rfl⟩ <;>
    refine ⟨by omega, by omega, fun _ => by omega, fun _ => by omega⟩

/-- equality of a corner of `a` and a corner of `b`, in residues -/
theorem corner_eq_iff {L : Nat} (hL : 1 ≤ L) {ax ay bx by' dx dy dx' dy' : Int}
    (hn : Near L (ax + dx) (ay + dy)) (hn' : Near L (bx + dx') (by' + dy')) :
    wrapP L (ax + dx) (ay + dy) = wrapP L (bx + dx') (by' + dy') ↔
      ((bx - ax) % (9 * (L : Int)) = (dx - dx') % (9 * (L : Int)) ∧
       ((3 * by' - 2 * bx) - (3 * ay - 2 * ax)) % (36 * (L : Int)) =
         ((3 * dy - 2 * dx) - (3 * dy' - 2 * dx')) % (36 * (L : Int))) := by
  rw [wrapP_eq_iff hL hn hn', Int.emod_eq_emod_iff_emod_sub_eq_zero (m := bx - ax),
    Int.emod_eq_emod_iff_emod_sub_eq_zero (m := 3 * by' - 2 * bx - (3 * ay - 2 * ax))]
  have e1 : bx + dx' - (ax + dx) = bx - ax - (dx - dx') := by omega
  have e2 : 3 * (by' + dy') - 2 * (bx + dx') - (3 * (ay + dy) - 2 * (ax + dx)) =
      3 * by' - 2 * bx - (3 * ay - 2 * ax) - (3 * dy - 2 * dx - (3 * dy' - 2 * dx')) := by omega
  rw [e1, e2]

/-- `k % (9L)` and `k % (36L)` for the differences of two deltas -/
structure Consts (L : Nat) : Prop where
  x0 : (0 : Int) % (9 * (L : Int)) = 0
  x1 : (1 : Int) % (9 * (L : Int)) = 1
  x2 : (2 : Int) % (9 * (L : Int)) = 2
  x3 : (3 : Int) % (9 * (L : Int)) = 3
  x4 : (4 : Int) % (9 * (L : Int)) = 4
  y1 : (-1 : Int) % (9 * (L : Int)) = 9 * (L : Int) - 1
  y2 : (-2 : Int) % (9 * (L : Int)) = 9 * (L : Int) - 2
  y3 : (-3 : Int) % (9 * (L : Int)) = 9 * (L : Int) - 3
  y4 : (-4 : Int) % (9 * (L : Int)) = 9 * (L : Int) - 4
  u0 : (0 : Int) % (36 * (L : Int)) = 0
  u4 : (4 : Int) % (36 * (L : Int)) = 4
  u8 : (8 : Int) % (36 * (L : Int)) = 8
  u12 : (12 : Int) % (36 * (L : Int)) = 12
  u16 : (16 : Int) % (36 * (L : Int)) = 16
  v4 : (-4 : Int) % (36 * (L : Int)) = 36 * (L : Int) - 4
  v8 : (-8 : Int) % (36 * (L : Int)) = 36 * (L : Int) - 8
  v12 : (-12 : Int) % (36 * (L : Int)) = 36 * (L : Int) - 12
  v16 : (-16 : Int) % (36 * (L : Int)) = 36 * (L : Int) - 16

theorem consts {L : Nat} (hL : 1 ≤ L) : Consts L where
  x0 := by simp
  x1 := emod_small (by omega) (by omega)
  x2 := emod_small (by omega) (by omega)
  x3 := emod_small (by omega) (by omega)
  x4 := emod_small (by omega) (by omega)
  y1 := by rw [emod_neg_small (by omega) (by omega)]; omega
  y2 := by rw [emod_neg_small (by omega) (by omega)]; omega
  y3 := by rw [emod_neg_small (by omega) (by omega)]; omega
  y4 := by rw [emod_neg_small (by omega) (by omega)]; omega
  u0 := by simp
  u4 := emod_small (by omega) (by omega)
  u8 := emod_small (by omega) (by omega)
  u12 := emod_small (by omega) (by omega)
  u16 := emod_small (by omega) (by omega)
  v4 := by rw [emod_neg_small (by omega) (by omega)]; omega
  v8 := by rw [emod_neg_small (by omega) (by omega)]; omega
  v12 := by rw [emod_neg_small (by omega) (by omega)]; omega
  v16 := by rw [emod_neg_small (by omega) (by omega)]; omega

/-- the offset of two faces is `≡ (0, 0)` modulo `(3, 12)` -/
theorem diff_mod {L : Nat} {ax ay bx by' : Int} (ha : IsF L ax ay) (hb : IsF L bx by') :
    ((bx - ax) % (9 * (L : Int))) % 3 = 0 ∧
    (((3 * by' - 2 * bx) - (3 * ay - 2 * ax)) % (36 * (L : Int))) % 12 = 0 := by
  unfold IsF skew at ha hb
  rw [Int.emod_emod_of_dvd _ (⟨3 * (L : Int), by omega⟩ : (3 : Int) ∣ 9 * (L : Int)),
    Int.emod_emod_of_dvd _ (⟨3 * (L : Int), by omega⟩ : (12 : Int) ∣ 36 * (L : Int))]
  omega

section
variable {L : Nat} {ax ay bx by' : Int}

theorem hh1 (hL : 1 ≤ L) (ha : IsF L ax ay) (hb : IsF L bx by') :
    wrapP L (ax + -1) (ay + -2) ∈ supp L bx by' ↔
      (((bx - ax) % (9 * (L : Int)) = 0 ∧
        ((3 * by' - 2 * bx) - (3 * ay - 2 * ax)) % (36 * (L : Int)) = 0) ∨
      ((bx - ax) % (9 * (L : Int)) = 9 * (L : Int) - 3 ∧
        ((3 * by' - 2 * bx) - (3 * ay - 2 * ax)) % (36 * (L : Int)) = 0) ∨
      ((bx - ax) % (9 * (L : Int)) = 0 ∧
        ((3 * by' - 2 * bx) - (3 * ay - 2 * ax)) % (36 * (L : Int)) = 36 * (L : Int) - 12)) := by
  obtain ⟨x0, x1, x2, x3, x4, y1, y2, y3, y4, u0, u4, u8, u12, u16, v4, v8, v12, v16⟩ := consts hL
  obtain ⟨m3, m12⟩ := diff_mod ha hb
  have na := near_corner hL ha (dx := -1) (dy := -2) (by omega)
  unfold supp
  simp only [List.mem_cons, List.not_mem_nil, or_false]
  rw [corner_eq_iff hL na (near_corner hL hb (dx := -1) (dy := -2) (by omega)),
    corner_eq_iff hL na (near_corner hL hb (dx := 1) (dy := -2) (by omega)),
    corner_eq_iff hL na (near_corner hL hb (dx := 2) (dy := 0) (by omega)),
    corner_eq_iff hL na (near_corner hL hb (dx := 1) (dy := 2) (by omega)),
    corner_eq_iff hL na (near_corner hL hb (dx := -1) (dy := 2) (by omega)),
    corner_eq_iff hL na (near_corner hL hb (dx := -2) (dy := 0) (by omega))]
  simp only [Int.reduceSub, Int.reduceNeg, Int.reduceMul, Int.reduceAdd]
  generalize (bx - ax) % (9 * (L : Int)) = ex at *
  generalize ((3 * by' - 2 * bx) - (3 * ay - 2 * ax)) % (36 * (L : Int)) = eu at *
  omega

theorem hh2 (hL : 1 ≤ L) (ha : IsF L ax ay) (hb : IsF L bx by') :
    wrapP L (ax + 1) (ay + -2) ∈ supp L bx by' ↔
      (((bx - ax) % (9 * (L : Int)) = 0 ∧
        ((3 * by' - 2 * bx) - (3 * ay - 2 * ax)) % (36 * (L : Int)) = 0) ∨
      ((bx - ax) % (9 * (L : Int)) = 0 ∧
        ((3 * by' - 2 * bx) - (3 * ay - 2 * ax)) % (36 * (L : Int)) = 36 * (L : Int) - 12) ∨
      ((bx - ax) % (9 * (L : Int)) = 3 ∧
        ((3 * by' - 2 * bx) - (3 * ay - 2 * ax)) % (36 * (L : Int)) = 36 * (L : Int) - 12)) := by
  obtain ⟨x0, x1, x2, x3, x4, y1, y2, y3, y4, u0, u4, u8, u12, u16, v4, v8, v12, v16⟩ := consts hL
  obtain ⟨m3, m12⟩ := diff_mod ha hb
  have na := near_corner hL ha (dx := 1) (dy := -2) (by omega)
  unfold supp
  simp only [List.mem_cons, List.not_mem_nil, or_false]
  rw [corner_eq_iff hL na (near_corner hL hb (dx := -1) (dy := -2) (by omega)),
    corner_eq_iff hL na (near_corner hL hb (dx := 1) (dy := -2) (by omega)),
    corner_eq_iff hL na (near_corner hL hb (dx := 2) (dy := 0) (by omega)),
    corner_eq_iff hL na (near_corner hL hb (dx := 1) (dy := 2) (by omega)),
    corner_eq_iff hL na (near_corner hL hb (dx := -1) (dy := 2) (by omega)),
    corner_eq_iff hL na (near_corner hL hb (dx := -2) (dy := 0) (by omega))]
  simp only [Int.reduceSub, Int.reduceNeg, Int.reduceMul, Int.reduceAdd]
  generalize (bx - ax) % (9 * (L : Int)) = ex at *
  generalize ((3 * by' - 2 * bx) - (3 * ay - 2 * ax)) % (36 * (L : Int)) = eu at *
  omega

theorem hh3 (hL : 1 ≤ L) (ha : IsF L ax ay) (hb : IsF L bx by') :
    wrapP L (ax + 2) (ay + 0) ∈ supp L bx by' ↔
      (((bx - ax) % (9 * (L : Int)) = 3 ∧
        ((3 * by' - 2 * bx) - (3 * ay - 2 * ax)) % (36 * (L : Int)) = 0) ∨
      ((bx - ax) % (9 * (L : Int)) = 0 ∧
        ((3 * by' - 2 * bx) - (3 * ay - 2 * ax)) % (36 * (L : Int)) = 0) ∨
      ((bx - ax) % (9 * (L : Int)) = 3 ∧
        ((3 * by' - 2 * bx) - (3 * ay - 2 * ax)) % (36 * (L : Int)) = 36 * (L : Int) - 12)) := by
  obtain ⟨x0, x1, x2, x3, x4, y1, y2, y3, y4, u0, u4, u8, u12, u16, v4, v8, v12, v16⟩ := consts hL
  obtain ⟨m3, m12⟩ := diff_mod ha hb
  have na := near_corner hL ha (dx := 2) (dy := 0) (by omega)
  unfold supp
  simp only [List.mem_cons, List.not_mem_nil, or_false]
  rw [corner_eq_iff hL na (near_corner hL hb (dx := -1) (dy := -2) (by omega)),
    corner_eq_iff hL na (near_corner hL hb (dx := 1) (dy := -2) (by omega)),
    corner_eq_iff hL na (near_corner hL hb (dx := 2) (dy := 0) (by omega)),
    corner_eq_iff hL na (near_corner hL hb (dx := 1) (dy := 2) (by omega)),
    corner_eq_iff hL na (near_corner hL hb (dx := -1) (dy := 2) (by omega)),
    corner_eq_iff hL na (near_corner hL hb (dx := -2) (dy := 0) (by omega))]
  simp only [Int.reduceSub, Int.reduceNeg, Int.reduceMul, Int.reduceAdd]
  generalize (bx - ax) % (9 * (L : Int)) = ex at *
  generalize ((3 * by' - 2 * bx) - (3 * ay - 2 * ax)) % (36 * (L : Int)) = eu at *
  omega

theorem hh4 (hL : 1 ≤ L) (ha : IsF L ax ay) (hb : IsF L bx by') :
    wrapP L (ax + 1) (ay + 2) ∈ supp L bx by' ↔
      (((bx - ax) % (9 * (L : Int)) = 0 ∧
        ((3 * by' - 2 * bx) - (3 * ay - 2 * ax)) % (36 * (L : Int)) = 12) ∨
      ((bx - ax) % (9 * (L : Int)) = 0 ∧
        ((3 * by' - 2 * bx) - (3 * ay - 2 * ax)) % (36 * (L : Int)) = 0) ∨
      ((bx - ax) % (9 * (L : Int)) = 3 ∧
        ((3 * by' - 2 * bx) - (3 * ay - 2 * ax)) % (36 * (L : Int)) = 0)) := by
  obtain ⟨x0, x1, x2, x3, x4, y1, y2, y3, y4, u0, u4, u8, u12, u16, v4, v8, v12, v16⟩ := consts hL
  obtain ⟨m3, m12⟩ := diff_mod ha hb
  have na := near_corner hL ha (dx := 1) (dy := 2) (by omega)
  unfold supp
  simp only [List.mem_cons, List.not_mem_nil, or_false]
  rw [corner_eq_iff hL na (near_corner hL hb (dx := -1) (dy := -2) (by omega)),
    corner_eq_iff hL na (near_corner hL hb (dx := 1) (dy := -2) (by omega)),
    corner_eq_iff hL na (near_corner hL hb (dx := 2) (dy := 0) (by omega)),
    corner_eq_iff hL na (near_corner hL hb (dx := 1) (dy := 2) (by omega)),
    corner_eq_iff hL na (near_corner hL hb (dx := -1) (dy := 2) (by omega)),
    corner_eq_iff hL na (near_corner hL hb (dx := -2) (dy := 0) (by omega))]
  simp only [Int.reduceSub, Int.reduceNeg, Int.reduceMul, Int.reduceAdd]
  generalize (bx - ax) % (9 * (L : Int)) = ex at *
  generalize ((3 * by' - 2 * bx) - (3 * ay - 2 * ax)) % (36 * (L : Int)) = eu at *
  omega

theorem hh5 (hL : 1 ≤ L) (ha : IsF L ax ay) (hb : IsF L bx by') :
    wrapP L (ax + -1) (ay + 2) ∈ supp L bx by' ↔
      (((bx - ax) % (9 * (L : Int)) = 0 ∧
        ((3 * by' - 2 * bx) - (3 * ay - 2 * ax)) % (36 * (L : Int)) = 12) ∨
      ((bx - ax) % (9 * (L : Int)) = 9 * (L : Int) - 3 ∧
        ((3 * by' - 2 * bx) - (3 * ay - 2 * ax)) % (36 * (L : Int)) = 12) ∨
      ((bx - ax) % (9 * (L : Int)) = 0 ∧
        ((3 * by' - 2 * bx) - (3 * ay - 2 * ax)) % (36 * (L : Int)) = 0)) := by
  obtain ⟨x0, x1, x2, x3, x4, y1, y2, y3, y4, u0, u4, u8, u12, u16, v4, v8, v12, v16⟩ := consts hL
  obtain ⟨m3, m12⟩ := diff_mod ha hb
  have na := near_corner hL ha (dx := -1) (dy := 2) (by omega)
  unfold supp
  simp only [List.mem_cons, List.not_mem_nil, or_false]
  rw [corner_eq_iff hL na (near_corner hL hb (dx := -1) (dy := -2) (by omega)),
    corner_eq_iff hL na (near_corner hL hb (dx := 1) (dy := -2) (by omega)),
    corner_eq_iff hL na (near_corner hL hb (dx := 2) (dy := 0) (by omega)),
    corner_eq_iff hL na (near_corner hL hb (dx := 1) (dy := 2) (by omega)),
    corner_eq_iff hL na (near_corner hL hb (dx := -1) (dy := 2) (by omega)),
    corner_eq_iff hL na (near_corner hL hb (dx := -2) (dy := 0) (by omega))]
  simp only [Int.reduceSub, Int.reduceNeg, Int.reduceMul, Int.reduceAdd]
  generalize (bx - ax) % (9 * (L : Int)) = ex at *
  generalize ((3 * by' - 2 * bx) - (3 * ay - 2 * ax)) % (36 * (L : Int)) = eu at *
  omega

theorem hh6 (hL : 1 ≤ L) (ha : IsF L ax ay) (hb : IsF L bx by') :
    wrapP L (ax + -2) (ay + 0) ∈ supp L bx by' ↔
      (((bx - ax) % (9 * (L : Int)) = 9 * (L : Int) - 3 ∧
        ((3 * by' - 2 * bx) - (3 * ay - 2 * ax)) % (36 * (L : Int)) = 12) ∨
      ((bx - ax) % (9 * (L : Int)) = 9 * (L : Int) - 3 ∧
        ((3 * by' - 2 * bx) - (3 * ay - 2 * ax)) % (36 * (L : Int)) = 0) ∨
      ((bx - ax) % (9 * (L : Int)) = 0 ∧
        ((3 * by' - 2 * bx) - (3 * ay - 2 * ax)) % (36 * (L : Int)) = 0)) := by
  obtain ⟨x0, x1, x2, x3, x4, y1, y2, y3, y4, u0, u4, u8, u12, u16, v4, v8, v12, v16⟩ := consts hL
  obtain ⟨m3, m12⟩ := diff_mod ha hb
  have na := near_corner hL ha (dx := -2) (dy := 0) (by omega)
  unfold supp
  simp only [List.mem_cons, List.not_mem_nil, or_false]
  rw [corner_eq_iff hL na (near_corner hL hb (dx := -1) (dy := -2) (by omega)),
    corner_eq_iff hL na (near_corner hL hb (dx := 1) (dy := -2) (by omega)),
    corner_eq_iff hL na (near_corner hL hb (dx := 2) (dy := 0) (by omega)),
    corner_eq_iff hL na (near_corner hL hb (dx := 1) (dy := 2) (by omega)),
    corner_eq_iff hL na (near_corner hL hb (dx := -1) (dy := 2) (by omega)),
    corner_eq_iff hL na (near_corner hL hb (dx := -2) (dy := 0) (by omega))]
  simp only [Int.reduceSub, Int.reduceNeg, Int.reduceMul, Int.reduceAdd]
  generalize (bx - ax) % (9 * (L : Int)) = ex at *
  generalize ((3 * by' - 2 * bx) - (3 * ay - 2 * ax)) % (36 * (L : Int)) = eu at *
  omega

end

end Panqec.Color666ToricCode
