/-
`HollowRhombicCode`, `Lx, Ly ≥ 2`, `Lz ≥ 3` (the generators commute for every size): the logical
operators (the sheet `z = 4` of X, the line `(2Lx−1, 2Ly−2, ·)` of Z) commute with the generators and
anticommute with each other; `Lattice.WF` and `Lattice.CommPair`.  Core Lean only.
-/
import PanqecVerif.Proofs.LatHollowRhombicCodeC
import PanqecVerif.Proofs.Lat2DBase

set_option linter.unusedVariables false
set_option linter.unusedSimpArgs false

namespace Panqec.HollowRhombicCode
open Panqec.Cubic3D
open Panqec.Planar3DCode (inE inO inE2 inO1)

/-! ### the stabilizer list -/

theorem mem_stabs {Lx Ly Lz : Nat} {s : Coord} :
    s ∈ stabs Lx Ly Lz ↔ (∃ x y z, s = [x, y, z] ∧ CubeLoc Lx Ly Lz x y z) ∨
      (∃ a x y z, s = [a, x, y, z] ∧ (0 ≤ a ∧ a < 4) ∧ VertexLoc Lx Ly Lz x y z ∧
        TriKeep Lx Ly Lz (TX Lx Ly Lz a x y z) (TY Lx Ly Lz a x y z) (TZ Lx Ly Lz a x y z) x y z) := by
  unfold stabs VertexLoc
  rw [List.mem_append, mem_cubes, mem_triangles]
  constructor
  · rintro (h | ⟨a, x, y, z, rfl, ha, hx, hy, hz, hk⟩)
    · exact Or.inl h
    · exact Or.inr ⟨a, x, y, z, rfl, ha, ⟨hx, hy, hz⟩, hk⟩
  · rintro (h | ⟨a, x, y, z, rfl, ha, ⟨hx, hy, hz⟩, hk⟩)
    · exact Or.inl h
    · exact Or.inr ⟨a, x, y, z, rfl, ha, hx, hy, hz, hk⟩

theorem nodup_triangles (Lx Ly Lz : Nat) : (triangles Lx Ly Lz).Nodup := by
  unfold triangles
  simp only []
  show List.Pairwise _ _
  rw [List.pairwise_flatMap]
  constructor
  · intro a _
    have h := nodup_grid (nodup_range2 2 (2 * (Lx : Int))) (nodup_range2 0 (2 * (Ly : Int)))
      (nodup_range2 0 (2 * (Lz : Int)))
    have h2 : ((grid (range2 2 (2 * (Lx : Int))) (range2 0 (2 * (Ly : Int)))
        (range2 0 (2 * (Lz : Int)))).map fun c => a :: c).Nodup := by
      show List.Pairwise _ _
      rw [List.pairwise_map]
      exact h.imp (fun hne e => hne (List.cons.inj e).2)
    refine List.Nodup.sublist ?_ h2
    unfold grid
    rw [List.map_flatMap]
    apply sublist_flatMap
    intro x
    rw [List.map_flatMap]
    apply sublist_flatMap
    intro y
    rw [List.map_map]
    exact (List.filter_sublist).map _
  · have hr : (range1 0 4).Nodup := by decide
    refine List.Pairwise.imp ?_ hr
    intro a b hab q hq r hr e
    subst e
    apply hab
    simp only [List.mem_flatMap, List.mem_map] at hq hr
    obtain ⟨x, _, y, _, z, _, rfl⟩ := hq
    obtain ⟨x', _, y', _, z', _, e⟩ := hr
    exact ((List.cons.inj e).1).symm

theorem nodup_stabs (Lx Ly Lz : Nat) : (stabs Lx Ly Lz).Nodup := by
  unfold stabs
  rw [List.nodup_append]
  refine ⟨nodup_cubes Lx Ly Lz, nodup_triangles Lx Ly Lz, ?_⟩
  intro s hs t ht e
  subst e
  obtain ⟨x, y, z, rfl, _⟩ := mem_cubes.mp hs
  obtain ⟨a, x', y', z', e, _⟩ := mem_triangles.mp ht
  have := congrArg List.length e
  simp at this

theorem qubits_stabs_disjoint {Lx Ly Lz : Nat} : ∀ q ∈ qubits Lx Ly Lz, q ∉ stabs Lx Ly Lz := by
  intro q hq hs
  obtain ⟨a, b, c, rfl⟩ := shape_of_mem_qubits hq
  have hp := qubit_parity hq
  rcases mem_stabs.mp hs with ⟨x, y, z, e, hc⟩ | ⟨a', x, y, z, e, _⟩
  · simp only [List.cons.injEq, and_true] at e
    obtain ⟨rfl, rfl, rfl⟩ := e
    unfold CubeLoc at hc
    omega
  · have := congrArg List.length e
    simp at this

/-! ### `get_stabilizer` on the listed locations -/

theorem getStab_cube' (Lx Ly Lz : Nat) (x y z : Int) :
    (lattice Lx Ly Lz).getStab [x, y, z] = uop (cubeKeys Lx Ly Lz x y z) Pauli.X := by
  show (getStabilizer Lx Ly Lz [x, y, z]).getD = _
  rw [getStab_cube]; rfl

theorem getStab_tri' (Lx Ly Lz : Nat) {a x y z : Int} (ha : 0 ≤ a ∧ a < 4) :
    (lattice Lx Ly Lz).getStab [a, x, y, z] = uop (triKeys Lx Ly Lz a x y z) Pauli.Z := by
  show (getStabilizer Lx Ly Lz [a, x, y, z]).getD = _
  rw [getStab_tri Lx Ly Lz ha]; rfl

theorem nodup_cubeKeys (Lx Ly Lz : Nat) (x y z : Int) : (cubeKeys Lx Ly Lz x y z).Nodup :=
  (cubeCands_nodup x y z).filter _
theorem nodup_triKeys (Lx Ly Lz : Nat) (a x y z : Int) : (triKeys Lx Ly Lz a x y z).Nodup :=
  (triCands_nodup a x y z).filter _

/-- all generators commute (every size) -/
theorem stab_comm_all (Lx Ly Lz : Nat) :
    ∀ s ∈ (lattice Lx Ly Lz).stabs, ∀ t ∈ (lattice Lx Ly Lz).stabs,
      opCommute ((lattice Lx Ly Lz).getStab s) ((lattice Lx Ly Lz).getStab t) = true := by
  intro s hs t ht
  rcases mem_stabs.mp hs with ⟨x, y, z, rfl, hc⟩ | ⟨a, x, y, z, rfl, ha, hv, hk⟩ <;>
    rcases mem_stabs.mp ht with ⟨x', y', z', rfl, hc'⟩ | ⟨a', x', y', z', rfl, ha', hv', hk'⟩
  · rw [getStab_cube', getStab_cube']; exact opCommute_uop_same _ _ _
  · rw [getStab_cube', getStab_tri' _ _ _ ha']
    apply opCommute_uop_of_even
    rw [ov_comm (nodup_cubeKeys _ _ _ _ _ _) (nodup_triKeys _ _ _ _ _ _ _)]
    exact cube_tri_even hc ha' hv' hk'
  · rw [getStab_tri' _ _ _ ha, getStab_cube']
    apply opCommute_uop_of_even
    exact cube_tri_even hc' ha hv hk
  · rw [getStab_tri' _ _ _ ha, getStab_tri' _ _ _ ha']; exact opCommute_uop_same _ _ _

/-! ### the logical operators -/

/-- the candidate keys of the sheet `z = 4` -/
def sheetCands (Lx Ly : Nat) : List Coord :=
  (range1 0 (2 * Lx)).flatMap fun x => (range1 0 (2 * Ly)).map fun y => [x, y, 4]

theorem mem_range1 {b x : Int} : x ∈ range1 0 b ↔ 0 ≤ x ∧ x < b := by
  unfold range1 Color.pyRangeI
  simp only [List.mem_map, List.mem_range]
  constructor
  · rintro ⟨i, hi, rfl⟩; omega
  · intro h; exact ⟨x.toNat, by omega, by omega⟩

theorem nodup_range1 (b : Int) : (range1 0 b).Nodup := by
  unfold range1 Color.pyRangeI
  show List.Pairwise _ _
  rw [List.pairwise_map]
  refine List.Pairwise.imp ?_ List.nodup_range
  intro a b' h e
  apply h
  omega

theorem mem_sheetCands {Lx Ly : Nat} {q : Coord} :
    q ∈ sheetCands Lx Ly ↔ ∃ x y, q = [x, y, 4] ∧ 0 ≤ x ∧ x < 2 * (Lx : Int) ∧ 0 ≤ y ∧ y < 2 * (Ly : Int) := by
  unfold sheetCands
  simp only [List.mem_flatMap, List.mem_map, mem_range1]
  constructor
  · rintro ⟨x, hx, y, hy, rfl⟩; exact ⟨x, y, rfl, hx.1, hx.2, hy.1, hy.2⟩
  · rintro ⟨x, y, rfl, h1, h2, h3, h4⟩; exact ⟨x, ⟨h1, h2⟩, y, ⟨h3, h4⟩, rfl⟩

theorem nodup_sheetCands (Lx Ly : Nat) : (sheetCands Lx Ly).Nodup := by
  unfold sheetCands
  show List.Pairwise _ _
  rw [List.pairwise_flatMap]
  constructor
  · intro x _
    rw [List.pairwise_map]
    exact (nodup_range1 _).imp (fun h e => h (by simpa using e))
  · refine List.Pairwise.imp ?_ (nodup_range1 _)
    intro a b hab q hq r hr e
    subst e
    simp only [List.mem_map] at hq hr
    obtain ⟨y, _, rfl⟩ := hq
    obtain ⟨y', _, e⟩ := hr
    apply hab
    simp only [List.cons.injEq, and_true] at e
    exact e.1.symm

def sheetKeys (Lx Ly Lz : Nat) : List Coord := (sheetCands Lx Ly).filter (isq Lx Ly Lz)

theorem logX_eq (Lx Ly Lz : Nat) : logX Lx Ly Lz = [uop (sheetKeys Lx Ly Lz) Pauli.X] := by
  show [collect (qubits Lx Ly Lz) Pauli.X (sheetCands Lx Ly)] = _
  rw [collect_eq _ _ _ (nodup_sheetCands Lx Ly)]
  rfl

/-- the keys of the Z line -/
def lineKeys (Lx Ly Lz : Nat) : List Coord :=
  (range2 0 (2 * Lz)).map fun z => [2 * (Lx : Int) - 1, 2 * (Ly : Int) - 2, z]

theorem logZ_eq (Lx Ly Lz : Nat) : logZ Lx Ly Lz = [uop (lineKeys Lx Ly Lz) Pauli.Z] := by
  unfold logZ lineKeys uop
  rw [List.map_map]; rfl

theorem nodup_lineKeys (Lx Ly Lz : Nat) : (lineKeys Lx Ly Lz).Nodup := by
  unfold lineKeys
  show List.Pairwise _ _
  rw [List.pairwise_map]
  exact (nodup_range2 _ _).imp (fun h e => h (by simpa using e))

theorem mem_lineKeys {Lx Ly Lz : Nat} {q : Coord} :
    q ∈ lineKeys Lx Ly Lz ↔ ∃ z, q = [2 * (Lx : Int) - 1, 2 * (Ly : Int) - 2, z] ∧ inE Lz z := by
  unfold lineKeys
  simp only [List.mem_map, Planar3DCode.mem_rangeE]
  constructor
  · rintro ⟨z, hz, rfl⟩; exact ⟨z, rfl, hz⟩
  · rintro ⟨z, rfl, hz⟩; exact ⟨z, hz, rfl⟩

/-- every key of the line is a qubit (`Lx, Ly ≥ 1`) -/
theorem lineKeys_sub {Lx Ly Lz : Nat} (hx : 1 ≤ Lx) (hy : 1 ≤ Ly) :
    ∀ q ∈ lineKeys Lx Ly Lz, q ∈ qubits Lx Ly Lz := by
  intro q hq
  obtain ⟨z, rfl, hz⟩ := mem_lineKeys.mp hq
  unfold inE at hz
  rw [mem_qubits_x (by omega) (by omega) hz.2.2]
  unfold Qx Hole
  omega

/-- the sheet against a triangle: the x and y keys of a triangle at height 4 -/
theorem sheet_tri_even {Lx Ly Lz : Nat} {a x y z : Int} (ha : 0 ≤ a ∧ a < 4)
    (hv : VertexLoc Lx Ly Lz x y z)
    (hk : TriKeep Lx Ly Lz (TX Lx Ly Lz a x y z) (TY Lx Ly Lz a x y z) (TZ Lx Ly Lz a x y z) x y z) :
    ov (triKeys Lx Ly Lz a x y z) (sheetKeys Lx Ly Lz) % 2 = 0 := by
  have hv' := hv
  unfold VertexLoc inE2 inE at hv'
  obtain ⟨⟨x0, x1, ex⟩, ⟨y0, y1, ey⟩, z0, z1, ez⟩ := hv'
  have hsx := sgnX_cases a
  have hsy := sgnY_cases a
  have hsz := sgnZ_cases a x y z
  have hxy : TX Lx Ly Lz a x y z ↔ TY Lx Ly Lz a x y z := keep_xy hv hsx hsy hsz hk
  have e3 : (isq Lx Ly Lz [x, y, z + sgnZ a x y z] &&
      decide ([x, y, z + sgnZ a x y z] ∈ sheetCands Lx Ly)) = false := by
    rw [Bool.and_eq_false_iff]
    right
    simp only [decide_eq_false_iff_not, mem_sheetCands, List.cons.injEq, and_true]
    rintro ⟨x', y', ⟨h1, h2, h⟩, h3⟩
    rcases hsz with h' | h' <;> rw [h'] at h <;> omega
  have e1 : (isq Lx Ly Lz [x + sgnX a, y, z] && decide ([x + sgnX a, y, z] ∈ sheetCands Lx Ly)) =
      decide (TX Lx Ly Lz a x y z ∧ z = 4) := by
    rw [Bool.eq_iff_iff]
    simp only [Bool.and_eq_true, decide_eq_true_eq, isq_tx ex ey ez, mem_sheetCands, List.cons.injEq,
      and_true]
    constructor
    · rintro ⟨h1, x', y', ⟨_, _, h⟩, _⟩; exact ⟨h1, h⟩
    · rintro ⟨h1, h⟩
      refine ⟨h1, x + sgnX a, y, ⟨rfl, rfl, h⟩, ?_⟩
      unfold TX Qx at h1
      omega
  have e2 : (isq Lx Ly Lz [x, y + sgnY a, z] && decide ([x, y + sgnY a, z] ∈ sheetCands Lx Ly)) =
      decide (TY Lx Ly Lz a x y z ∧ z = 4) := by
    rw [Bool.eq_iff_iff]
    simp only [Bool.and_eq_true, decide_eq_true_eq, isq_ty ex ey ez, mem_sheetCands, List.cons.injEq,
      and_true]
    constructor
    · rintro ⟨h1, x', y', ⟨_, _, h⟩, _⟩; exact ⟨h1, h⟩
    · rintro ⟨h1, h⟩
      refine ⟨h1, x, y + sgnY a, ⟨rfl, rfl, h⟩, ?_⟩
      unfold TY Qy at h1
      omega
  unfold triKeys sheetKeys
  rw [ov_filter_filter]
  unfold triCands
  simp only [List.countP_cons, List.countP_nil, e1, e2, e3]
  by_cases htx : TX Lx Ly Lz a x y z
  · have hty := hxy.mp htx
    by_cases h4 : z = 4
    · subst h4; simp [htx, hty]
    · simp [htx, hty, h4]
  · have hty : ¬ TY Lx Ly Lz a x y z := fun h => htx (hxy.mpr h)
    simp [htx, hty]

theorem countP_two (l : List Int) (u v : Int) (hl : l.Nodup) (hu : u ∈ l) (hv : v ∈ l) (huv : u ≠ v) :
    l.countP (fun z => decide (z = u ∨ z = v)) = 2 := by
  have h1 : l.countP (fun z => decide (z = u ∨ z = v)) = l.countP (fun z => z == u || z == v) := by
    apply List.countP_congr; intro z _; simp
  rw [h1, Panqec.Lat2D.countP_or_disjoint (fun z => z == u) (fun z => z == v) l]
  · have e1 : l.countP (fun z => z == u) = l.count u := rfl
    have e2 : l.countP (fun z => z == v) = l.count v := rfl
    rw [e1, e2, hl.count, hl.count]; simp [hu, hv]
  · intro z _ ⟨h2, h3⟩
    have : z = u := by simpa using h2
    have : z = v := by simpa using h3
    omega

/-- the line against a cube: the two x edges `(cx, cy ± 1, cz ± 1)` of the cube on the line -/
theorem line_cube_even {Lx Ly Lz : Nat} (hx : 1 ≤ Lx) (hy : 1 ≤ Ly) {cx cy cz : Int}
    (hc : CubeLoc Lx Ly Lz cx cy cz) :
    ov (lineKeys Lx Ly Lz) (cubeKeys Lx Ly Lz cx cy cz) % 2 = 0 := by
  unfold CubeLoc at hc
  obtain ⟨c1, c2, c3, c4, _⟩ := hc
  have hpc : cx % 2 = 1 ∧ cy % 2 = 1 ∧ cz % 2 = 1 := ⟨c1.2.2, c2.2.2, c3.2.2⟩
  unfold ov
  have hmem : ∀ q ∈ lineKeys Lx Ly Lz, (decide (q ∈ cubeKeys Lx Ly Lz cx cy cz)) =
      decide (q ∈ cubeCands cx cy cz) := by
    intro q hq
    have := lineKeys_sub (Lz := Lz) hx hy q hq
    unfold cubeKeys
    simp only [List.mem_filter, isq_iff, this, and_true]
  rw [List.countP_congr (fun q hq => by rw [hmem q hq])]
  unfold lineKeys
  rw [List.countP_map]
  by_cases hcond : cx = 2 * (Lx : Int) - 1 ∧ (2 * (Ly : Int) - 2 = cy + 1 ∨ 2 * (Ly : Int) - 2 = cy - 1)
  · have : ∀ z ∈ range2 0 (2 * (Lz : Int)),
        ((fun q => decide (q ∈ cubeCands cx cy cz)) ∘ fun z => [2 * (Lx : Int) - 1, 2 * (Ly : Int) - 2, z]) z =
          decide (z = cz + 1 ∨ z = cz - 1) := by
      intro z hz
      have hz' := Planar3DCode.mem_rangeE.mp hz
      unfold inE at hz'
      simp only [Function.comp]
      apply decide_eq_decide.mpr
      rw [mem_cubeCands_x hpc (by omega) (by omega) hz'.2.2]
      constructor
      · rintro ⟨_, _, h⟩; exact h
      · intro h; exact ⟨hcond.1.symm, hcond.2, h⟩
    rw [List.countP_congr (fun z hz => by rw [this z hz])]
    rw [countP_two _ _ _ (nodup_range2 _ _) (Planar3DCode.mem_rangeE.mpr (by unfold inE; omega))
      (Planar3DCode.mem_rangeE.mpr (by unfold inE; omega)) (by omega)]
  · rw [List.countP_eq_zero.mpr]
    intro z hz
    have hz' := Planar3DCode.mem_rangeE.mp hz
    unfold inE at hz'
    simp only [Function.comp, decide_eq_true_eq]
    rw [mem_cubeCands_x hpc (by omega) (by omega) hz'.2.2]
    intro h
    exact hcond ⟨h.1.symm, h.2.1⟩

/-- the sheet and the line share exactly the qubit `(2Lx−1, 2Ly−2, 4)` (`Lz ≥ 3`) -/
theorem sheet_line_one {Lx Ly Lz : Nat} (hx : 1 ≤ Lx) (hy : 1 ≤ Ly) (hz : 3 ≤ Lz) :
    ov (sheetKeys Lx Ly Lz) (lineKeys Lx Ly Lz) = 1 := by
  have hn : (sheetKeys Lx Ly Lz).Nodup := (nodup_sheetCands Lx Ly).filter _
  rw [ov_comm hn (nodup_lineKeys Lx Ly Lz)]
  apply ov_eq_one (nodup_lineKeys Lx Ly Lz) [2 * (Lx : Int) - 1, 2 * (Ly : Int) - 2, 4]
  · exact mem_lineKeys.mpr ⟨4, rfl, by unfold inE; omega⟩
  · intro e he
    obtain ⟨z, rfl, hz'⟩ := mem_lineKeys.mp he
    have hq := lineKeys_sub (Lz := Lz) hx hy _ he
    unfold sheetKeys
    constructor
    · intro h
      obtain ⟨x', y', hq', _⟩ := mem_sheetCands.mp (List.mem_filter.mp h).1
      simp only [List.cons.injEq, and_true] at hq'
      rw [hq'.2.2]
    · intro h
      have hz4 : z = 4 := by simpa using h
      subst hz4
      exact List.mem_filter.mpr ⟨mem_sheetCands.mpr ⟨_, _, rfl, by omega, by omega, by omega, by omega⟩,
        isq_iff.mpr hq⟩

end Panqec.HollowRhombicCode
