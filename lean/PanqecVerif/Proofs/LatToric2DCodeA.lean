/-
Toric2DCode, all sizes: arithmetic description of the coordinate lists, the wrap-around as
`predW` / `succW`, and `get_stabilizer` as an explicit 4-entry dict (for `2 ≤ Lx`, `2 ≤ Ly`).
Core Lean only.
-/
import PanqecVerif.Proofs.Lat2DBase
import PanqecVerif.Model.Lattices.Toric2DCode

namespace Panqec.Toric2DCode
open Panqec.Lat2D

/-! ### periodic wrap -/

def predW (x P : Int) : Int := if x = 0 then P - 1 else x - 1
def succW (x P : Int) : Int := if x + 1 = P then 0 else x + 1

theorem predW_spec (x P : Int) :
    (x = 0 ∧ predW x P = P - 1) ∨ (x ≠ 0 ∧ predW x P = x - 1) := by
  unfold predW; split <;> simp_all
theorem succW_spec (x P : Int) :
    (x + 1 = P ∧ succW x P = 0) ∨ (x + 1 ≠ P ∧ succW x P = x + 1) := by
  unfold succW; split <;> simp_all

theorem pmod_pred (x : Int) (P : Nat) (h0 : 0 ≤ x) (h1 : x < P) :
    pmod (x + -1) P = predW x P := by
  unfold pmod predW
  split
  · next h =>
    subst h
    rw [← Int.add_emod_right]
    exact Int.emod_eq_of_lt (by omega) (by omega)
  · exact Int.emod_eq_of_lt (by omega) (by omega)

theorem pmod_succ (x : Int) (P : Nat) (h0 : 0 ≤ x) (h1 : x < P) :
    pmod (x + 1) P = succW x P := by
  unfold pmod succW
  split
  · next h => rw [h]; exact Int.emod_self
  · exact Int.emod_eq_of_lt (by omega) (by omega)

theorem pmod_zero (x : Int) (P : Nat) (h0 : 0 ≤ x) (h1 : x < P) : pmod (x + 0) P = x := by
  unfold pmod
  rw [Int.add_zero]
  exact Int.emod_eq_of_lt h0 h1

/-! ### coordinates -/

def InBox (Lx Ly : Nat) (x y : Int) : Prop := 0 ≤ x ∧ x < 2 * (Lx : Int) ∧ 0 ≤ y ∧ y < 2 * (Ly : Int)

/-- `(x, y)` is a qubit coordinate -/
def IsQ (Lx Ly : Nat) (x y : Int) : Prop :=
  InBox Lx Ly x y ∧ ((x % 2 = 1 ∧ y % 2 = 0) ∨ (x % 2 = 0 ∧ y % 2 = 1))
/-- vertex / face coordinates -/
def IsV (Lx Ly : Nat) (x y : Int) : Prop := InBox Lx Ly x y ∧ x % 2 = 0 ∧ y % 2 = 0
def IsF (Lx Ly : Nat) (x y : Int) : Prop := InBox Lx Ly x y ∧ x % 2 = 1 ∧ y % 2 = 1

theorem mem_qubits {Lx Ly : Nat} {q : Coord} :
    q ∈ qubits Lx Ly ↔ ∃ x y, q = [x, y] ∧ IsQ Lx Ly x y := by
  unfold qubits IsQ InBox
  simp only [List.mem_append, mem_grid, mem_pyRange2]
  constructor
  · rintro (⟨x, y, hx, hy, rfl⟩ | ⟨x, y, hx, hy, rfl⟩) <;> refine ⟨x, y, rfl, ?_⟩ <;> omega
  · rintro ⟨x, y, rfl, h⟩
    by_cases hp : x % 2 = 1
    · left; exact ⟨x, y, by omega, by omega, rfl⟩
    · right; exact ⟨x, y, by omega, by omega, rfl⟩

theorem mem_qubits' {Lx Ly : Nat} {x y : Int} : [x, y] ∈ qubits Lx Ly ↔ IsQ Lx Ly x y := by
  rw [mem_qubits]
  constructor
  · rintro ⟨x', y', h, hq⟩
    simp only [List.cons.injEq, and_true] at h
    rw [h.1, h.2]; exact hq
  · intro h; exact ⟨x, y, rfl, h⟩

theorem mem_stabs {Lx Ly : Nat} {q : Coord} :
    q ∈ stabs Lx Ly ↔ ∃ x y, q = [x, y] ∧ (IsV Lx Ly x y ∨ IsF Lx Ly x y) := by
  unfold stabs IsV IsF InBox
  simp only [List.mem_append, mem_grid, mem_pyRange2]
  constructor
  · rintro (⟨x, y, hx, hy, rfl⟩ | ⟨x, y, hx, hy, rfl⟩) <;> refine ⟨x, y, rfl, ?_⟩ <;> omega
  · rintro ⟨x, y, rfl, h | h⟩
    · left; exact ⟨x, y, by omega, by omega, rfl⟩
    · right; exact ⟨x, y, by omega, by omega, rfl⟩

theorem mem_stabs' {Lx Ly : Nat} {x y : Int} :
    [x, y] ∈ stabs Lx Ly ↔ (IsV Lx Ly x y ∨ IsF Lx Ly x y) := by
  rw [mem_stabs]
  constructor
  · rintro ⟨x', y', h, hq⟩
    simp only [List.cons.injEq, and_true] at h
    rw [h.1, h.2]; exact hq
  · intro h; exact ⟨x, y, rfl, h⟩

theorem nodup_qubits (Lx Ly : Nat) : (qubits Lx Ly).Nodup := by
  unfold qubits
  rw [List.nodup_append]
  refine ⟨nodup_grid (nodup_pyRange2 ..) (nodup_pyRange2 ..),
    nodup_grid (nodup_pyRange2 ..) (nodup_pyRange2 ..), ?_⟩
  intro a ha b hb hab
  subst hab
  simp only [mem_grid, mem_pyRange2] at ha hb
  obtain ⟨x, y, hx, hy, rfl⟩ := ha
  obtain ⟨x', y', hx', hy', h⟩ := hb
  simp only [List.cons.injEq, and_true] at h
  omega

theorem nodup_stabs (Lx Ly : Nat) : (stabs Lx Ly).Nodup := by
  unfold stabs
  rw [List.nodup_append]
  refine ⟨nodup_grid (nodup_pyRange2 ..) (nodup_pyRange2 ..),
    nodup_grid (nodup_pyRange2 ..) (nodup_pyRange2 ..), ?_⟩
  intro a ha b hb hab
  subst hab
  simp only [mem_grid, mem_pyRange2] at ha hb
  obtain ⟨x, y, hx, hy, rfl⟩ := ha
  obtain ⟨x', y', hx', hy', h⟩ := hb
  simp only [List.cons.injEq, and_true] at h
  omega

theorem qubits_stabs_disjoint (Lx Ly : Nat) : ∀ q ∈ qubits Lx Ly, q ∉ stabs Lx Ly := by
  intro q hq hs
  rw [mem_qubits] at hq
  obtain ⟨x, y, rfl, h⟩ := hq
  rw [mem_stabs'] at hs
  unfold IsQ at h; unfold IsV IsF at hs
  omega

/-! ### `get_stabilizer` -/

/-- the four neighbours, in delta order -/
def nbrs (Lx Ly : Nat) (x y : Int) : List Coord :=
  [[predW x (2 * (Lx : Int)), y], [succW x (2 * (Lx : Int)), y],
   [x, predW y (2 * (Ly : Int))], [x, succW y (2 * (Ly : Int))]]

theorem candidates_eq {Lx Ly : Nat} {x y : Int} (h : InBox Lx Ly x y) :
    candidates Lx Ly x y = nbrs Lx Ly x y := by
  unfold InBox at h
  unfold candidates delta nbrs
  simp only [List.map_cons, List.map_nil]
  rw [pmod_pred x _ (by omega) (by omega), pmod_succ x _ (by omega) (by omega),
    pmod_pred y _ (by omega) (by omega), pmod_succ y _ (by omega) (by omega),
    pmod_zero x _ (by omega) (by omega), pmod_zero y _ (by omega) (by omega)]
  simp only [Int.natCast_mul, Int.cast_ofNat_Int]

theorem nodup_nbrs {Lx Ly : Nat} {x y : Int} (hx : 2 ≤ Lx) (hy : 2 ≤ Ly) (h : InBox Lx Ly x y) :
    (nbrs Lx Ly x y).Nodup := by
  unfold InBox at h
  unfold nbrs
  have := predW_spec x (2 * (Lx : Int)); have := succW_spec x (2 * (Lx : Int))
  have := predW_spec y (2 * (Ly : Int)); have := succW_spec y (2 * (Ly : Int))
  simp only [List.nodup_cons, List.mem_cons, List.cons.injEq, and_true, List.not_mem_nil,
    or_false, not_false_eq_true, List.nodup_nil]
  omega

theorem nbrs_isQ {Lx Ly : Nat} {x y : Int} (hx : 1 ≤ Lx) (hy : 1 ≤ Ly)
    (h : IsV Lx Ly x y ∨ IsF Lx Ly x y) : ∀ q ∈ nbrs Lx Ly x y, isQubit Lx Ly q = true := by
  intro q hq
  unfold isQubit
  rw [isIn_iff]
  unfold nbrs at hq
  have := predW_spec x (2 * (Lx : Int)); have := succW_spec x (2 * (Lx : Int))
  have := predW_spec y (2 * (Ly : Int)); have := succW_spec y (2 * (Ly : Int))
  simp only [List.mem_cons, List.not_mem_nil, or_false] at hq
  unfold IsV IsF InBox at h
  rcases hq with rfl | rfl | rfl | rfl <;> rw [mem_qubits'] <;> unfold IsQ InBox <;> omega

/-- the letter of the stabilizer at `(x, _)` -/
def letter (x : Int) : Pauli := if x % 2 = 0 then Pauli.Z else Pauli.X

/-- for `Lx, Ly ≥ 2` the dict of a stabilizer is its four neighbours, in delta order -/
theorem getStab_eq {Lx Ly : Nat} {x y : Int} (hx : 2 ≤ Lx) (hy : 2 ≤ Ly)
    (h : [x, y] ∈ stabs Lx Ly) :
    (lattice Lx Ly).getStab [x, y] = (nbrs Lx Ly x y).map (fun q => (q, letter x)) := by
  have hs : isStabilizer Lx Ly [x, y] = true := by unfold isStabilizer; rw [isIn_iff]; exact h
  have h' := mem_stabs'.mp h
  have hbox : InBox Lx Ly x y := by unfold IsV IsF at h'; rcases h' with h' | h' <;> exact h'.1
  show (getStabilizer? Lx Ly [x, y]).getD [] = _
  unfold getStabilizer? stabilizerType
  simp only [hs, Bool.not_true, Bool.false_eq_true, if_false, Option.getD_some]
  rw [candidates_eq hbox, collect_eq _ _ _ (nodup_nbrs hx hy hbox),
    List.filter_eq_self.mpr (nbrs_isQ (by omega) (by omega) h')]
  unfold letter
  by_cases hp : x % 2 = 0 <;> simp [hp]

end Panqec.Toric2DCode
