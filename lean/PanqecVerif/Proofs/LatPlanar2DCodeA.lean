/-
Planar2DCode, all sizes: arithmetic description of the coordinate lists and `get_stabilizer`
as the filtered 4-neighbourhood.  Core Lean only.
-/
import PanqecVerif.Proofs.Lat2DBase
import PanqecVerif.Model.Lattices.Planar2DCode

set_option linter.unusedVariables false

namespace Panqec.Planar2DCode
open Panqec.Lat2D

/-- `(x, y)` is a qubit coordinate -/
def IsQ (Lx Ly : Nat) (x y : Int) : Prop :=
  (x % 2 = 1 ∧ y % 2 = 0 ∧ 1 ≤ x ∧ x < 2 * (Lx : Int) ∧ 0 ≤ y ∧ y < 2 * (Ly : Int)) ∨
  (x % 2 = 0 ∧ y % 2 = 1 ∧ 2 ≤ x ∧ x < 2 * (Lx : Int) ∧ 1 ≤ y ∧ y < 2 * (Ly : Int) - 1)
def IsV (Lx Ly : Nat) (x y : Int) : Prop :=
  x % 2 = 0 ∧ y % 2 = 0 ∧ 2 ≤ x ∧ x < 2 * (Lx : Int) ∧ 0 ≤ y ∧ y < 2 * (Ly : Int)
def IsF (Lx Ly : Nat) (x y : Int) : Prop :=
  x % 2 = 1 ∧ y % 2 = 1 ∧ 1 ≤ x ∧ x < 2 * (Lx : Int) ∧ 1 ≤ y ∧ y < 2 * (Ly : Int) - 1

instance (Lx Ly : Nat) (x y : Int) : Decidable (IsQ Lx Ly x y) := by unfold IsQ; infer_instance
instance (Lx Ly : Nat) (x y : Int) : Decidable (IsV Lx Ly x y) := by unfold IsV; infer_instance
instance (Lx Ly : Nat) (x y : Int) : Decidable (IsF Lx Ly x y) := by unfold IsF; infer_instance

theorem mem_qubits {Lx Ly : Nat} {q : Coord} :
    q ∈ qubits Lx Ly ↔ ∃ x y, q = [x, y] ∧ IsQ Lx Ly x y := by
  unfold qubits IsQ
  simp only [List.mem_append, mem_grid, mem_pyRange2]
  constructor
  · rintro (⟨x, y, hx, hy, rfl⟩ | ⟨x, y, hx, hy, rfl⟩) <;> refine ⟨x, y, rfl, ?_⟩ <;> omega
  · rintro ⟨x, y, rfl, h | h⟩
    · left; exact ⟨x, y, by omega, by omega, rfl⟩
    · right; exact ⟨x, y, by omega, by omega, rfl⟩

theorem mem_qubits' {Lx Ly : Nat} {x y : Int} : [x, y] ∈ qubits Lx Ly ↔ IsQ Lx Ly x y := by
  rw [mem_qubits]
  constructor
  · rintro ⟨x', y', h, hq⟩
    simp only [List.cons.injEq, and_true] at h
    rw [h.1, h.2]; exact hq
  · intro h; exact ⟨x, y, rfl, h⟩

theorem isQubit_iff {Lx Ly : Nat} {x y : Int} : isQubit Lx Ly [x, y] = true ↔ IsQ Lx Ly x y := by
  unfold isQubit; rw [isIn_iff, mem_qubits']

theorem mem_stabs {Lx Ly : Nat} {q : Coord} :
    q ∈ stabs Lx Ly ↔ ∃ x y, q = [x, y] ∧ (IsV Lx Ly x y ∨ IsF Lx Ly x y) := by
  unfold stabs IsV IsF
  simp only [List.mem_append, mem_grid, mem_pyRange2]
  constructor
  · rintro (⟨x, y, hx, hy, rfl⟩ | ⟨x, y, hx, hy, rfl⟩) <;> refine ⟨x, y, rfl, ?_⟩ <;> omega
  · rintro ⟨x, y, rfl, h | h⟩
    · left; exact ⟨x, y, by omega, by omega, rfl⟩
    · right; exact ⟨x, y, by omega, by omega, rfl⟩

theorem mem_stabs' {Lx Ly : Nat} {x y : Int} :
    [x, y] ∈ stabs Lx Ly ↔ (IsV Lx Ly x y ∨ IsF Lx Ly x y) := by
  rw [mem_stabs]
  constructor
  · rintro ⟨x', y', h, hq⟩
    simp only [List.cons.injEq, and_true] at h
    rw [h.1, h.2]; exact hq
  · intro h; exact ⟨x, y, rfl, h⟩

theorem nodup_qubits (Lx Ly : Nat) : (qubits Lx Ly).Nodup := by
  unfold qubits
  rw [List.nodup_append]
  refine ⟨nodup_grid (nodup_pyRange2 ..) (nodup_pyRange2 ..),
    nodup_grid (nodup_pyRange2 ..) (nodup_pyRange2 ..), ?_⟩
  intro a ha b hb hab
  subst hab
  simp only [mem_grid, mem_pyRange2] at ha hb
  obtain ⟨x, y, hx, hy, rfl⟩ := ha
  obtain ⟨x', y', hx', hy', h⟩ := hb
  simp only [List.cons.injEq, and_true] at h
  omega

theorem nodup_stabs (Lx Ly : Nat) : (stabs Lx Ly).Nodup := by
  unfold stabs
  rw [List.nodup_append]
  refine ⟨nodup_grid (nodup_pyRange2 ..) (nodup_pyRange2 ..),
    nodup_grid (nodup_pyRange2 ..) (nodup_pyRange2 ..), ?_⟩
  intro a ha b hb hab
  subst hab
  simp only [mem_grid, mem_pyRange2] at ha hb
  obtain ⟨x, y, hx, hy, rfl⟩ := ha
  obtain ⟨x', y', hx', hy', h⟩ := hb
  simp only [List.cons.injEq, and_true] at h
  omega

theorem qubits_stabs_disjoint (Lx Ly : Nat) : ∀ q ∈ qubits Lx Ly, q ∉ stabs Lx Ly := by
  intro q hq hs
  rw [mem_qubits] at hq
  obtain ⟨x, y, rfl, h⟩ := hq
  rw [mem_stabs'] at hs
  unfold IsQ at h; unfold IsV IsF at hs
  omega

/-! ### `get_stabilizer` -/

/-- the four neighbours, in delta order -/
def nbrs (x y : Int) : List Coord := [[x - 1, y], [x + 1, y], [x, y - 1], [x, y + 1]]

theorem candidates_eq (x y : Int) : candidates x y = nbrs x y := by
  unfold candidates delta nbrs
  simp only [List.map_cons, List.map_nil, Int.add_zero]
  rfl

theorem nodup_nbrs (x y : Int) : (nbrs x y).Nodup := by
  unfold nbrs
  simp only [List.nodup_cons, List.mem_cons, List.cons.injEq, and_true, List.not_mem_nil,
    or_false, not_false_eq_true, List.nodup_nil]
  omega

theorem mem_nbrs {x y a b : Int} :
    [a, b] ∈ nbrs x y ↔
      ((a = x - 1 ∧ b = y) ∨ (a = x + 1 ∧ b = y) ∨ (a = x ∧ b = y - 1) ∨ (a = x ∧ b = y + 1)) := by
  unfold nbrs
  simp only [List.mem_cons, List.cons.injEq, and_true, List.not_mem_nil, or_false]

/-- the letter of the stabilizer at `(x, _)` -/
def letter (x : Int) : Pauli := if x % 2 = 0 then Pauli.Z else Pauli.X

theorem letter_cases (x : Int) :
    (x % 2 = 0 ∧ letter x = Pauli.Z) ∨ (x % 2 = 1 ∧ letter x = Pauli.X) := by
  unfold letter
  by_cases h : x % 2 = 0
  · left; simp [h]
  · right; exact ⟨by omega, by simp [h]⟩

theorem letter_ne_I (x : Int) : letter x ≠ Pauli.I := by
  rcases letter_cases x with ⟨_, h⟩ | ⟨_, h⟩ <;> rw [h] <;> decide

/-- the support of the stabilizer at `(x, y)`: those of the four neighbours that are qubits -/
def supp (Lx Ly : Nat) (x y : Int) : List Coord := (nbrs x y).filter (isQubit Lx Ly)

theorem nodup_supp (Lx Ly : Nat) (x y : Int) : (supp Lx Ly x y).Nodup :=
  (nodup_nbrs x y).sublist List.filter_sublist

theorem getStab_eq {Lx Ly : Nat} {x y : Int} (h : [x, y] ∈ stabs Lx Ly) :
    (lattice Lx Ly).getStab [x, y] = (supp Lx Ly x y).map (fun q => (q, letter x)) := by
  have hs : isStabilizer Lx Ly [x, y] = true := by unfold isStabilizer; rw [isIn_iff]; exact h
  show (getStabilizer? Lx Ly [x, y]).getD [] = _
  unfold getStabilizer? stabilizerType
  simp only [hs, Bool.not_true, Bool.false_eq_true, if_false, Option.getD_some]
  rw [candidates_eq, collect_eq _ _ _ (nodup_nbrs x y)]
  unfold letter supp
  by_cases hp : x % 2 = 0 <;> simp [hp]

theorem supp_nonempty {Lx Ly : Nat} {x y : Int} (h : IsV Lx Ly x y ∨ IsF Lx Ly x y) :
    supp Lx Ly x y ≠ [] := by
  unfold supp
  rcases h with h | h
  · apply List.ne_nil_of_mem (a := [x - 1, y])
    rw [List.mem_filter]
    refine ⟨by simp [nbrs], ?_⟩
    rw [isQubit_iff]; unfold IsV at h; unfold IsQ; omega
  · apply List.ne_nil_of_mem (a := [x, y - 1])
    rw [List.mem_filter]
    refine ⟨by simp [nbrs], ?_⟩
    rw [isQubit_iff]; unfold IsF at h; unfold IsQ; omega

end Panqec.Planar2DCode
