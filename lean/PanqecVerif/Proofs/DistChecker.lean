/-
Counting lemmas for the all-sizes distance proofs of the rhombic codes (core Lean only): sums over
the sites of one colour of a checkerboard (`chk`), cyclic shifts of a coloured sum (the successor of
a site of one colour is a site of the other colour when the period is even), the **checkerboard
slab** argument (planes `P 0, …, P (M-1)` made of two families of in-plane edges; consecutive planes
differ by the coloured cubes of the slab between them: every in-plane edge lies on exactly one
coloured cube of the slab, every rung on exactly two), and rectangular key lists `plane2` with their
anticommutation count as a double sum of indicators.
-/
import PanqecVerif.Proofs.DistCubic3D

namespace Panqec.Lat2D

/-! ### sums over one colour of a checkerboard -/

/-- `g` on the sites `(j, k)` with `(e + j + k) % 2 = r`, zero elsewhere -/
def chk (e r : Nat) (g : Nat → Nat → Nat) : Nat → Nat → Nat :=
  fun j k => if (e + j + k) % 2 = r then g j k else 0

theorem chk_add (A B e r : Nat) (g h : Nat → Nat → Nat) :
    rsum2 A B (chk e r (fun j k => g j k + h j k)) =
      rsum2 A B (chk e r g) + rsum2 A B (chk e r h) := by
  rw [← rsum2_add]
  apply rsum2_congr
  intro j k _ _
  unfold chk
  split <;> rfl

theorem chk_even {A B e r : Nat} {g : Nat → Nat → Nat}
    (h : ∀ j k, j < A → k < B → (e + j + k) % 2 = r → g j k % 2 = 0) :
    rsum2 A B (chk e r g) % 2 = 0 := by
  apply rsum2_even
  intro j k hj hk
  unfold chk
  split
  · exact h j k hj hk ‹_›
  · rfl

/-- the two colours together are all sites -/
theorem chk_split (A B e : Nat) (g : Nat → Nat → Nat) :
    rsum2 A B (chk e 1 g) + rsum2 A B (chk e 0 g) = rsum2 A B g := by
  rw [← rsum2_add]
  apply rsum2_congr
  intro j k _ _
  unfold chk
  by_cases h : (e + j + k) % 2 = 1
  · rw [if_pos h, if_neg (by omega)]; rfl
  · rw [if_neg h, if_pos (by omega)]; omega

theorem wrapS_parity {L k : Nat} (hL : L % 2 = 0) (_hk : k < L) : wrapS L k % 2 = (k + 1) % 2 := by
  unfold wrapS
  split <;> omega

theorem wrapS_lt {L k : Nat} (hk : k < L) : wrapS L k < L := by
  unfold wrapS
  split <;> omega

/-- one dimension: the sites of colour `r`, each reading its cyclic successor, read exactly the
    sites of the other colour `s` (even period) -/
theorem rsum_checker_wrapS (L : Nat) (hL : L % 2 = 0) (e r s : Nat) (hrs : r + s = 1)
    (g : Nat → Nat) :
    rsum L (fun k => if (e + k) % 2 = r then g (wrapS L k) else 0) =
      rsum L (fun k => if (e + k) % 2 = s then g k else 0) := by
  rw [← rsum_wrapS (fun k => if (e + k) % 2 = s then g k else 0) L]
  apply rsum_congr
  intro k hk
  have := wrapS_parity hL hk
  by_cases h : (e + k) % 2 = r
  · rw [if_pos h, if_pos (by omega)]
  · rw [if_neg h, if_neg (by omega)]

/-- cyclic shift of the inner index of a coloured double sum -/
theorem chk_shiftR {A B : Nat} (hB : B % 2 = 0) (e r s : Nat) (hrs : r + s = 1)
    (g : Nat → Nat → Nat) :
    rsum2 A B (chk e r (fun j k => g j (wrapS B k))) = rsum2 A B (chk e s g) := by
  unfold rsum2 chk
  apply rsum_congr
  intro j _
  exact rsum_checker_wrapS B hB (e + j) r s hrs (g j)

/-- cyclic shift of the outer index of a coloured double sum -/
theorem chk_shiftL {A B : Nat} (hA : A % 2 = 0) (e r s : Nat) (hrs : r + s = 1)
    (g : Nat → Nat → Nat) :
    rsum2 A B (chk e r (fun j k => g (wrapS A j) k)) = rsum2 A B (chk e s g) := by
  unfold rsum2
  rw [← rsum_wrapS (fun j => rsum B (chk e s g j)) A]
  apply rsum_congr
  intro j hj
  apply rsum_congr
  intro k _
  have := wrapS_parity hA hj
  unfold chk
  by_cases h : (e + j + k) % 2 = r
  · rw [if_pos h, if_pos (by omega)]
  · rw [if_neg h, if_neg (by omega)]

/-- **Checkerboard slab.**  Planes `i < M` of `A × B` sites carrying two families of in-plane
    edges `P1 i`, `P2 i`; between plane `i` and plane `i + 1` the slab of cubes `(j, k)`, of which
    those with `(e + i + j + k) % 2 = 1` are coloured.  A coloured cube touches, in each of the two
    planes, the edges `P1 j k`, `P1 j (k+1)`, `P2 j k`, `P2 (j+1) k` (cyclically), and the four
    rungs `R i` at its corners.  For even periods every in-plane edge lies on exactly one coloured
    cube of the slab and every rung on exactly two; so if the constraint of every coloured cube is
    even, all planes have the same parity. -/
theorem slab_checker (A B M e : Nat) (hA : A % 2 = 0) (hB : B % 2 = 0)
    (P1 P2 R : Nat → Nat → Nat → Nat)
    (h : ∀ i, i + 1 < M → ∀ j k, j < A → k < B → (e + i + j + k) % 2 = 1 →
      (P1 i j k + P1 i j (wrapS B k) + P2 i j k + P2 i (wrapS A j) k
        + P1 (i + 1) j k + P1 (i + 1) j (wrapS B k) + P2 (i + 1) j k + P2 (i + 1) (wrapS A j) k
        + R i j k + R i (wrapS A j) k + R i j (wrapS B k) + R i (wrapS A j) (wrapS B k)) % 2 = 0) :
    ∀ i, i < M →
      (rsum2 A B (P1 i) + rsum2 A B (P2 i)) % 2 = (rsum2 A B (P1 0) + rsum2 A B (P2 0)) % 2 := by
  apply chain M (fun i => rsum2 A B (P1 i) + rsum2 A B (P2 i))
  intro i hi
  have he : rsum2 A B (chk (e + i) 1 (fun j k =>
      P1 i j k + P1 i j (wrapS B k) + P2 i j k + P2 i (wrapS A j) k
        + P1 (i + 1) j k + P1 (i + 1) j (wrapS B k) + P2 (i + 1) j k + P2 (i + 1) (wrapS A j) k
        + R i j k + R i (wrapS A j) k + R i j (wrapS B k) + R i (wrapS A j) (wrapS B k))) % 2 = 0 :=
    chk_even (fun j k hj hk hc => h i hi j k hj hk hc)
  rw [chk_add, chk_add, chk_add, chk_add, chk_add, chk_add, chk_add, chk_add, chk_add, chk_add,
    chk_add] at he
  have s1 := chk_shiftR (A := A) hB (e + i) 1 0 rfl (P1 i)
  have s2 := chk_shiftL (B := B) hA (e + i) 1 0 rfl (P2 i)
  have s3 := chk_shiftR (A := A) hB (e + i) 1 0 rfl (P1 (i + 1))
  have s4 := chk_shiftL (B := B) hA (e + i) 1 0 rfl (P2 (i + 1))
  have s5 := chk_shiftL (B := B) hA (e + i) 1 0 rfl (R i)
  have s6 := chk_shiftR (A := A) hB (e + i) 1 0 rfl (R i)
  have s7 := chk_shiftL (B := B) hA (e + i) 1 0 rfl (fun j k => R i j (wrapS B k))
  have s8 := chk_shiftR (A := A) hB (e + i) 0 1 rfl (R i)
  have t1 := chk_split A B (e + i) (P1 i)
  have t2 := chk_split A B (e + i) (P2 i)
  have t3 := chk_split A B (e + i) (P1 (i + 1))
  have t4 := chk_split A B (e + i) (P2 (i + 1))
  have t5 := chk_split A B (e + i) (R i)
  rw [s1, s2, s3, s4, s5, s6, s7, s8] at he
  show (rsum2 A B (P1 i) + rsum2 A B (P2 i) + (rsum2 A B (P1 (i + 1)) + rsum2 A B (P2 (i + 1)))) % 2
    = 0
  omega

/-! ### rectangular key lists -/

/-- the key list `f j k`, `j < A`, `k < B` -/
def plane2 (A B : Nat) (f : Nat → Nat → Coord) : List Coord :=
  (List.range A).flatMap fun j => (List.range B).map fun k => f j k

theorem mem_plane2 {A B : Nat} {f : Nat → Nat → Coord} {q : Coord} :
    q ∈ plane2 A B f ↔ ∃ j k, j < A ∧ k < B ∧ q = f j k := by
  unfold plane2
  simp only [List.mem_flatMap, List.mem_map, List.mem_range]
  constructor
  · rintro ⟨j, hj, k, hk, rfl⟩; exact ⟨j, k, hj, hk, rfl⟩
  · rintro ⟨j, k, hj, hk, rfl⟩; exact ⟨j, hj, k, hk, rfl⟩

theorem nodup_plane2 (A B : Nat) (f : Nat → Nat → Coord)
    (hf : ∀ j k j' k', f j k = f j' k' → j = j' ∧ k = k') : (plane2 A B f).Nodup := by
  unfold plane2
  rw [List.nodup_flatMap]
  refine ⟨fun j _ => List.nodup_range.map (fun k k' h => (hf j k j k' h).2), ?_⟩
  refine List.Pairwise.imp_of_mem ?_ List.nodup_range
  intro j j' _ _ hne
  simp only [Function.onFun, List.Disjoint, List.mem_map]
  rintro c ⟨k, _, rfl⟩ ⟨k', _, h⟩
  exact hne (hf j' k' j k h).1.symm

theorem length_plane2 (A B : Nat) (f : Nat → Nat → Coord) : (plane2 A B f).length = A * B := by
  unfold plane2
  induction A with
  | zero => simp
  | succ A ih =>
    rw [List.range_succ, List.flatMap_append, List.length_append, ih]
    simp [Nat.succ_mul]

theorem countP_plane2 (p : Coord → Bool) (A B : Nat) (f : Nat → Nat → Coord) :
    (plane2 A B f).countP p = rsum2 A B (fun j k => if p (f j k) = true then 1 else 0) := by
  unfold plane2 rsum2
  rw [Cubic3D.countP_flatMap_range]
  apply rsum_congr
  intro j _
  exact countP_range_map p _ B

end Panqec.Lat2D
