/-
The variate grid `{0, 1/M, …, (M-1)/M}` realises a channel whose probabilities are multiples
of `1/M` exactly: summing any function of the sampled error over the complete grid gives
`M^n` times its expectation under the product channel.  (This is what makes the harness'
deterministic calibration tolerance-free.)
-/
import PanqecVerif.Proofs.SimDist
import Mathlib.Algebra.Order.Field.Basic
import Mathlib.Tactic.FieldSimp
import Mathlib.Algebra.BigOperators.Group.List.Basic

namespace Panqec.Sim
open Panqec

theorem div_lt_div_nat (j a M : Nat) (hM : 0 < M) :
    ((j : Rat) / (M : Rat) < (a : Rat) / (M : Rat)) ↔ j < a := by
  have hM' : (0 : Rat) < (M : Rat) := by exact_mod_cast hM
  rw [div_lt_div_iff_of_pos_right hM']
  exact_mod_cast Iff.rfl

/-- a channel with probabilities `a/M, b/M, c/M, d/M` -/
def gridProbs (a b c d M : Nat) : QubitProbs :=
  ⟨(a : Rat) / M, (b : Rat) / M, (c : Rat) / M, (d : Rat) / M⟩

/-- on the grid point `j/M` such a channel is sampled by comparing `j` with the cumulative
    counts (this is where `<` versus `<=` in `fast_choice` matters) -/
theorem samplePauli_grid (a b c d j M : Nat) (hM : 0 < M) :
    samplePauli (gridProbs a b c d M) ((j : Rat) / M) =
      if j < a then Pauli.I else if j < a + b then Pauli.X else if j < a + b + c then Pauli.Y
      else Pauli.Z := by
  have e2 : (a : Rat) / M + (b : Rat) / M = ((a + b : Nat) : Rat) / M := by
    push_cast; ring
  have e3 : ((a + b : Nat) : Rat) / M + (c : Rat) / M = ((a + b + c : Nat) : Rat) / M := by
    push_cast; ring
  have e4 : ((a + b + c : Nat) : Rat) / M + (d : Rat) / M = ((a + b + c + d : Nat) : Rat) / M := by
    push_cast; ring
  simp only [samplePauli, fastChoice, gridProbs, zero_add, e2, e3, e4, div_lt_div_nat _ _ _ hM]
  by_cases h1 : j < a
  · simp [h1]
  · by_cases h2 : j < a + b
    · simp [h1, h2]
    · by_cases h3 : j < a + b + c
      · simp [h1, h2, h3]
      · simp [h1, h2, h3]

theorem sum_map_const_on {α : Type} (l : List α) (f : α → Rat) (v : Rat) (h : ∀ x ∈ l, f x = v) :
    (l.map f).sum = (l.length : Rat) * v := by
  induction l with
  | nil => simp
  | cons x l ih =>
    simp only [List.map_cons, List.sum_cons, List.length_cons]
    rw [h x (by simp), ih (fun y hy => h y (by simp [hy]))]
    push_cast; ring

/-- one qubit: the sum of `g(sampled letter)` over the `M` grid points is
    `a·g(I) + b·g(X) + c·g(Y) + d·g(Z) = M · E[g]` -/
theorem grid_single (a b c d M : Nat) (g : Pauli → Rat) (hM : 0 < M) (hsum : a + b + c + d = M) :
    ((List.range M).map fun j : Nat => g (samplePauli (gridProbs a b c d M) ((j : Rat) / (M : Rat)))).sum =
      (M : Rat) * (gridProbs a b c d M).dist.expect g := by
  have hmap : ((List.range M).map fun j : Nat => g (samplePauli (gridProbs a b c d M) ((j : Rat) / (M : Rat)))) =
      (List.range M).map fun j : Nat => g (if j < a then Pauli.I else if j < a + b then Pauli.X
        else if j < a + b + c then Pauli.Y else Pauli.Z) :=
    List.map_congr_left fun j _ => by rw [samplePauli_grid a b c d j M hM]
  rw [hmap]
  have hM' : (M : Rat) ≠ 0 := by exact_mod_cast (Nat.pos_iff_ne_zero.mp hM)
  have hrhs : (M : Rat) * (gridProbs a b c d M).dist.expect g =
      (a : Rat) * g Pauli.I + (b : Rat) * g Pauli.X + (c : Rat) * g Pauli.Y + (d : Rat) * g Pauli.Z := by
    simp only [Dist.expect, QubitProbs.dist, gridProbs, List.map_cons, List.map_nil, List.sum_cons,
      List.sum_nil]
    field_simp
    ring
  rw [hrhs]
  subst hsum
  rw [List.range_add, List.range_add, List.range_add]
  simp only [List.map_append, List.sum_append, List.map_map]
  have s1 : ((List.range a).map fun j => g (if j < a then Pauli.I else if j < a + b then Pauli.X
      else if j < a + b + c then Pauli.Y else Pauli.Z)).sum = (a : Rat) * g Pauli.I := by
    have := sum_map_const_on (List.range a) (fun j => g (if j < a then Pauli.I else if j < a + b then Pauli.X
      else if j < a + b + c then Pauli.Y else Pauli.Z)) (g Pauli.I)
      (fun j hj => by simp [List.mem_range.mp hj])
    simpa using this
  have s2 : ((List.range b).map ((fun j => g (if j < a then Pauli.I else if j < a + b then Pauli.X
      else if j < a + b + c then Pauli.Y else Pauli.Z)) ∘ fun x => a + x)).sum = (b : Rat) * g Pauli.X := by
    have := sum_map_const_on (List.range b) ((fun j => g (if j < a then Pauli.I else if j < a + b then Pauli.X
      else if j < a + b + c then Pauli.Y else Pauli.Z)) ∘ fun x => a + x) (g Pauli.X)
      (fun j hj => by
        have := List.mem_range.mp hj
        simp only [Function.comp]
        rw [if_neg (by omega), if_pos (by omega)])
    simpa using this
  have s3 : ((List.range c).map ((fun j => g (if j < a then Pauli.I else if j < a + b then Pauli.X
      else if j < a + b + c then Pauli.Y else Pauli.Z)) ∘ fun x => a + b + x)).sum = (c : Rat) * g Pauli.Y := by
    have := sum_map_const_on (List.range c) ((fun j => g (if j < a then Pauli.I else if j < a + b then Pauli.X
      else if j < a + b + c then Pauli.Y else Pauli.Z)) ∘ fun x => a + b + x) (g Pauli.Y)
      (fun j hj => by
        have := List.mem_range.mp hj
        simp only [Function.comp]
        rw [if_neg (by omega), if_neg (by omega), if_pos (by omega)])
    simpa using this
  have s4 : ((List.range d).map ((fun j => g (if j < a then Pauli.I else if j < a + b then Pauli.X
      else if j < a + b + c then Pauli.Y else Pauli.Z)) ∘ fun x => a + b + c + x)).sum = (d : Rat) * g Pauli.Z := by
    have := sum_map_const_on (List.range d) ((fun j => g (if j < a then Pauli.I else if j < a + b then Pauli.X
      else if j < a + b + c then Pauli.Y else Pauli.Z)) ∘ fun x => a + b + c + x) (g Pauli.Z)
      (fun j hj => by
        have := List.mem_range.mp hj
        simp only [Function.comp]
        rw [if_neg (by omega), if_neg (by omega), if_neg (by omega)])
    simpa using this
  rw [s1, s2, s3, s4]

/-- a single-qubit channel whose four probabilities are multiples of `1/M` summing to one -/
def OnGrid (M : Nat) (q : QubitProbs) : Prop :=
  ∃ a b c d : Nat, q = gridProbs a b c d M ∧ a + b + c + d = M

/-- the Pauli strings `generate` draws over the complete grid `{j/M}^n`, one per grid point
    (first qubit = slowest digit, as the harness' generator stub enumerates them) -/
def gridPaulis (M : Nat) : List QubitProbs → List (List Pauli)
  | [] => [[]]
  | q :: qs => (List.range M).flatMap fun j : Nat =>
      (gridPaulis M qs).map fun r => samplePauli q ((j : Rat) / (M : Rat)) :: r

theorem gridPaulis_length (M : Nat) : ∀ probs : List QubitProbs,
    (gridPaulis M probs).length = M ^ probs.length
  | [] => by simp [gridPaulis]
  | q :: qs => by
    simp only [gridPaulis, List.length_flatMap, List.length_map, gridPaulis_length M qs,
      List.length_cons]
    simp [Nat.pow_succ, Nat.mul_comm]

/-- the complete grid realises the product channel exactly: for every `f`, the sum of `f` over
    the `M^n` drawn strings is `M^n · E[f]` -/
theorem grid_realises_channel (M : Nat) (hM : 0 < M) (f : List Pauli → Rat) :
    ∀ (probs : List QubitProbs), (∀ q ∈ probs, OnGrid M q) →
      ((gridPaulis M probs).map f).sum =
        (M : Rat) ^ probs.length * (prodDist (probs.map QubitProbs.dist)).expect f
  | [], _ => by simp [gridPaulis, prodDist, Dist.expect]
  | q :: qs, h => by
    obtain ⟨a, b, c, d, hq, hsum⟩ := h q (by simp)
    have ih : ∀ g : List Pauli → Rat, ((gridPaulis M qs).map g).sum =
        (M : Rat) ^ qs.length * (prodDist (qs.map QubitProbs.dist)).expect g :=
      fun g => grid_realises_channel M hM g qs (fun q' hq' => h q' (by simp [hq']))
    simp only [gridPaulis]
    rw [sum_map_flatMap]
    have inner : ∀ j : Nat, (((gridPaulis M qs).map fun r => samplePauli q ((j : Rat) / (M : Rat)) :: r).map f).sum
        = (fun σ => (M : Rat) ^ qs.length *
            (prodDist (qs.map QubitProbs.dist)).expect fun y => f (σ :: y))
          (samplePauli q ((j : Rat) / (M : Rat))) := by
      intro j
      rw [List.map_map]
      exact ih (fun r => f (samplePauli q ((j : Rat) / (M : Rat)) :: r))
    simp only [inner]
    subst hq
    have hG := grid_single a b c d M (fun σ => (M : Rat) ^ qs.length *
            (prodDist (qs.map QubitProbs.dist)).expect fun y => f (σ :: y)) hM hsum
    refine Eq.trans hG ?_
    simp only [List.map_cons, List.length_cons]
    rw [expect_prodDist_cons]
    simp only [Dist.expect]
    rw [← sum_map_mul_left', ← sum_map_mul_left']
    congr 1
    apply List.map_congr_left
    intro x _
    rw [pow_succ]; ring

end Panqec.Sim
