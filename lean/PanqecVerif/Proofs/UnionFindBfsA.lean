/-
Union-find internals (C05), spanning tree (`Peeling_Tree._build_tree`), part A: the adjacency
matrix `(H @ H.T).astype(bool)`, connectivity, the invariant of the breadth-first loops and its
preservation by the step for a non-root frontier vertex.
-/
import PanqecVerif.Proofs.UnionFindPeelB

namespace Panqec.UF

set_option linter.unusedSimpArgs false
set_option linter.unusedVariables false

/-! ### the adjacency matrix -/

theorem shared_imp {H : Mat} {stabs qubits : Nat → Bool} {i j : Nat}
    (h : shared H stabs qubits i j = true) : ∃ q, adjq H stabs qubits i j q = true := by
  unfold shared at h
  have hne : (List.range (ncols H)).countP
      (fun q => subH H stabs qubits i q && subH H stabs qubits j q) ≠ 0 := by
    intro h0; rw [h0] at h; simp at h
  obtain ⟨q, _, hq⟩ := List.countP_pos_iff.mp (Nat.pos_of_ne_zero hne)
  exact ⟨q, hq⟩

theorem shared_stabs {H : Mat} {stabs qubits : Nat → Bool} {i j : Nat}
    (h : shared H stabs qubits i j = true) : stabs i = true ∧ stabs j = true := by
  obtain ⟨q, hq⟩ := shared_imp h
  have := (adjq_true H stabs qubits i j q).mp hq
  exact ⟨this.2.2.2.1, this.2.2.2.2⟩

theorem shared_symm (H : Mat) (stabs qubits : Nat → Bool) (i j : Nat) :
    shared H stabs qubits i j = shared H stabs qubits j i := by
  unfold shared
  congr 2
  apply countP_congr'
  intro q _
  exact Bool.and_comm _ _

/-- with fewer than 256 parallel edges the `uint8` product cannot wrap to zero off the diagonal -/
theorem shared_of {H : Mat} {stabs qubits : Nat → Bool} (G : GraphOK H) {i j : Nat} (hij : i ≠ j)
    (h : ∃ q, adjq H stabs qubits i j q = true) : shared H stabs qubits i j = true := by
  obtain ⟨q, hq⟩ := h
  have hq' := (adjq_true H stabs qubits i j q).mp hq
  have hqn := (G.inRange i q hq'.1).2
  have hpos : 0 < cnt (ncols H) (fun q => adjq H stabs qubits i j q) := cnt_pos _ _ q hqn hq
  have hle : cnt (ncols H) (fun q => adjq H stabs qubits i j q) ≤
      cnt (ncols H) (fun q => hb H i q && hb H j q) := by
    apply cnt_mono
    intro k _ hk
    have hk' := (adjq_true H stabs qubits i j k).mp hk
    simp [hk'.1, hk'.2.1]
  have hlt := G.mult i j hij
  unfold shared
  have : (List.range (ncols H)).countP
      (fun q => subH H stabs qubits i q && subH H stabs qubits j q) =
      cnt (ncols H) (fun q => adjq H stabs qubits i j q) := rfl
  rw [this, Nat.mod_eq_of_lt (by omega)]
  simp
  omega

/-- the member stabilizers reachable from the root through member qubits -/
inductive Reach (H : Mat) (stabs qubits : Nat → Bool) (root : Nat) : Nat → Prop
  | base : Reach H stabs qubits root root
  | step {u v : Nat} : Reach H stabs qubits root u → (∃ q, adjq H stabs qubits u v q = true) →
      Reach H stabs qubits root v

/-! ### invariant of the breadth-first search -/

/-- state of `_build_tree` inside round `r`: `F2` = frontier vertices still to be processed,
    `nl` = `new_leaves_ind` so far; `lv` = (ghost) depth of every visited vertex -/
structure BInv (H : Mat) (stabs qubits : Nat → Bool) (root : Nat) (r : Nat)
    (S : Nat → Nat → Bool) (unseen : Nat → Bool) (F2 nl : List Nat) (lv : Nat → Nat) : Prop where
  un_stabs : ∀ v, unseen v = true → stabs v = true ∧ v ≠ root
  un_eq : ∀ u v, unseen v = true → S u v = shared H stabs qubits u v
  le_shared : ∀ u v, S u v = true → shared H stabs qubits u v = true
  root_col : ∀ p, p ≠ root → S p root = false
  par_ex : ∀ c, stabs c = true → unseen c = false → c ≠ root → ∃ p, S p c = true
  par_spec : ∀ c, stabs c = true → unseen c = false → c ≠ root → ∀ p, S p c = true →
    p ≠ c ∧ stabs p = true ∧ unseen p = false ∧ lv p < lv c
  par_uniq : ∀ c, stabs c = true → unseen c = false → c ≠ root → ∀ p p', S p c = true →
    S p' c = true → p = p'
  pend_iff : ∀ v, stabs v = true → unseen v = false → v ≠ root →
    ((v ∈ F2 ∨ v ∈ nl) ↔ ∀ c, stabs c = true → unseen c = false → S v c = false)
  pend_nodup : (F2 ++ nl).Nodup
  pend_vis : ∀ v, (v ∈ F2 ∨ v ∈ nl) → stabs v = true ∧ unseen v = false ∧ v ≠ root
  front : ∀ u v, stabs u = true → unseen u = false → unseen v = true →
    shared H stabs qubits u v = true → (u ∈ F2 ∨ u ∈ nl)
  lv_vis : ∀ v, stabs v = true → unseen v = false → lv v ≤ r + 1
  lv_F2 : ∀ v, v ∈ F2 → lv v ≤ r

/-- closed form of the matrix after the three assignments of one step -/
theorem bfsStep_S (m : Nat) (acc : BfsAcc) (s : Nat) (ch : List Nat)
    (hch : ch = (List.range m).filter fun j => acc.S s j) (hne : ch ≠ []) (i j : Nat) :
    (bfsStep m acc s).S i j =
      if i = s ∧ j ∈ ch then true
      else if i ∈ ch ∧ j = s then false
      else if j ∈ ch then false
      else acc.S i j := by
  unfold bfsStep
  simp only [← hch, hne, if_false]

theorem bfsStep_unseen (m : Nat) (acc : BfsAcc) (s : Nat) (ch : List Nat)
    (hch : ch = (List.range m).filter fun j => acc.S s j) (hne : ch ≠ []) (j : Nat) :
    (bfsStep m acc s).unseen j = if j ∈ ch then false else acc.unseen j := by
  unfold bfsStep
  simp only [← hch, hne, if_false]

theorem bfsStep_nl (m : Nat) (acc : BfsAcc) (s : Nat) (ch : List Nat)
    (hch : ch = (List.range m).filter fun j => acc.S s j) (hne : ch ≠ []) :
    (bfsStep m acc s).newLeaves = acc.newLeaves ++ ch.filter acc.unseen := by
  unfold bfsStep
  simp only [← hch, hne, if_false]

theorem bfsStep_nil (m : Nat) (acc : BfsAcc) (s : Nat)
    (hch : ((List.range m).filter fun j => acc.S s j) = []) :
    bfsStep m acc s = { acc with newLeaves := acc.newLeaves ++ [s] } := by
  unfold bfsStep
  simp only [hch, if_true]

end Panqec.UF
