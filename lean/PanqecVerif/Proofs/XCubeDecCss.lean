/-
The parity-check matrix of `XCubeCode(Lx, Ly, Lz)` (hand-written lattice model, undeformed) is CSS
for EVERY size: cubes carry only Z letters, the vertex ("face") operators only X letters.
Core Lean + the `mapM` lemmas of `Proofs/Code1.lean`.
-/
import PanqecVerif.Proofs.XCubeDecNew
import PanqecVerif.Proofs.Decoders
import PanqecVerif.Proofs.Code1

namespace Panqec.XCube

open Panqec Panqec.Lat3Db

theorem insert_letters (op : Op) (q : Coord) (p : Pauli) (h : ∀ e ∈ op, e.2 = p) :
    ∀ e ∈ op.insert q p, e.2 = p := by
  unfold Op.insert
  split
  · intro e he
    obtain ⟨e', he', rfl⟩ := List.mem_map.mp he
    split
    · rfl
    · exact h e' he'
  · intro e he
    rcases List.mem_append.mp he with h1 | h1
    · exact h e h1
    · simp only [List.mem_singleton] at h1; subst h1; rfl

theorem foldl_buildOp_letters (isQ : Coord → Bool) (p : Pauli) : ∀ (locs : List Coord) (acc : Op),
    (∀ e ∈ acc, e.2 = p) →
    ∀ e ∈ locs.foldl (fun op q => if isQ q then op.insert q p else op) acc, e.2 = p
  | [], acc, h => h
  | q :: rest, acc, h => by
    simp only [List.foldl_cons]
    apply foldl_buildOp_letters isQ p rest
    split
    · exact insert_letters acc q p h
    · exact h

theorem buildOp_letters (isQ : Coord → Bool) (locs : List Coord) (p : Pauli) :
    ∀ e ∈ buildOp isQ locs p, e.2 = p :=
  foldl_buildOp_letters isQ p locs [] (by simp)

/-- every stabilizer generator of the model has one letter: Z (cubes) or X (vertex operators) -/
theorem getStab_uniform (Lx Ly Lz : Nat) (loc : Coord) :
    (∀ e ∈ XCubeCode.getStab Lx Ly Lz loc, e.2 = Pauli.Z) ∨
    (∀ e ∈ XCubeCode.getStab Lx Ly Lz loc, e.2 = Pauli.X) := by
  unfold XCubeCode.getStab XCubeCode.getStab?
  split
  · left; simp
  · split
    · left; simp only [Option.getD_some]; exact buildOp_letters _ _ _
    · right; simp only [Option.getD_some]; exact buildOp_letters _ _ _
    · left; simp

theorem opCount_eq_zero (op : Op) (q : Coord) (f : Pauli → Nat) (h : ∀ e ∈ op, f e.2 = 0) :
    opCount op q f = 0 := by
  unfold opCount
  rw [List.length_eq_zero_iff, List.filter_eq_nil_iff]
  intro e he
  simp [h e he]

theorem stabRow_xFlag_false (qs : List Coord) (op : Op) (r : List Nat) (hr : stabRow qs op = some r)
    (h : ∀ e ∈ op, e.2 = Pauli.Z) : xFlag_dec r = false := by
  unfold stabRow toBsf at hr
  split at hr
  · simp only [Option.map_some, Option.some.injEq] at hr
    subst hr
    unfold xFlag_dec
    rw [List.map_append, xPart_append_dec _ _ (by simp)]
    simp only [List.any_map, List.any_eq_false, Function.comp]
    intro q _
    have h0 := opCount_eq_zero op q Pauli.xBit (fun e he => by rw [h e he]; rfl)
    simp [h0]
  · simp at hr

theorem stabRow_zFlag_false (qs : List Coord) (op : Op) (r : List Nat) (hr : stabRow qs op = some r)
    (h : ∀ e ∈ op, e.2 = Pauli.X) : zFlag_dec r = false := by
  unfold stabRow toBsf at hr
  split at hr
  · simp only [Option.map_some, Option.some.injEq] at hr
    subst hr
    unfold zFlag_dec
    rw [List.map_append, zPart_append_dec _ _ (by simp)]
    simp only [List.any_map, List.any_eq_false, Function.comp]
    intro q _
    have h0 := opCount_eq_zero op q Pauli.zBit (fun e he => by rw [h e he]; rfl)
    simp [h0]
  · simp at hr

/-- a code all of whose generators are pure-Z or pure-X dicts has a CSS parity-check matrix -/
theorem isCss_of_uniform (c : CodeData)
    (h : ∀ op ∈ c.stabOps, (∀ e ∈ op, e.2 = Pauli.Z) ∨ (∀ e ∈ op, e.2 = Pauli.X)) :
    isCss ((stabilizerMatrix c).getD []) = true := by
  cases hH : stabilizerMatrix c with
  | none => simp [isCss, xIndices, zIndices]
  | some H =>
    simp only [Option.getD_some]
    rw [isCss_iff_dec]
    intro r hr
    obtain ⟨i, hi, rfl⟩ := List.getElem_of_mem hr
    unfold stabilizerMatrix at hH
    have hlen := mapM_some_length _ _ _ hH
    have hrow := mapM_some_getElem? _ _ _ hH i (by omega)
    rw [List.getElem?_eq_getElem hi] at hrow
    rcases h _ (List.getElem_mem (by omega : i < c.stabOps.length)) with hz | hx
    · rw [stabRow_xFlag_false _ _ _ hrow.symm hz]; simp
    · rw [stabRow_zFlag_false _ _ _ hrow.symm hx]; simp

/-- **CSS for every size**: the matrix the decoder is built on (undeformed `XCubeCode`) -/
theorem isCss_xcube (Lx Ly Lz : Nat) :
    isCss ((stabilizerMatrix (codeData Lx Ly Lz none)).getD []) = true := by
  apply isCss_of_uniform
  intro op hop
  simp only [codeData, Lattice.toCodeData, XCubeCode.lattice, List.mem_map] at hop
  obtain ⟨loc, _, rfl⟩ := hop
  exact getStab_uniform Lx Ly Lz loc

end Panqec.XCube
