/-
Toric2DCode, all sizes `Lx, Ly ≥ 2`: assembly of `Lattice.WF` and `Lattice.CommPair`, the
size formulas and the deformation rule.  Core Lean only.
-/
import PanqecVerif.Proofs.LatToric2DCodeC

namespace Panqec.Toric2DCode
open Panqec.Lat2D

theorem letter_cases (x : Int) :
    (x % 2 = 0 ∧ letter x = Pauli.Z) ∨ (x % 2 = 1 ∧ letter x = Pauli.X) := by
  unfold letter
  by_cases h : x % 2 = 0
  · left; simp [h]
  · right; exact ⟨by omega, by simp [h]⟩

theorem box_of_stab {Lx Ly : Nat} {x y : Int} (h : IsV Lx Ly x y ∨ IsF Lx Ly x y) :
    InBox Lx Ly x y := by
  rcases h with h | h <;> exact h.1

/-- any two stabilizers commute -/
theorem stab_comm {Lx Ly : Nat} (hx : 2 ≤ Lx) (hy : 2 ≤ Ly) :
    ∀ s ∈ (lattice Lx Ly).stabs, ∀ t ∈ (lattice Lx Ly).stabs,
      opCommute ((lattice Lx Ly).getStab s) ((lattice Lx Ly).getStab t) = true := by
  intro s hs t ht
  obtain ⟨ax, ay, rfl, ha⟩ := mem_stabs.mp hs
  obtain ⟨bx, by', rfl, hb⟩ := mem_stabs.mp ht
  rw [getStab_eq hx hy hs, getStab_eq hx hy ht]
  apply opCommute_const_of
  intro hanti
  rcases letter_cases ax with ⟨pa, la⟩ | ⟨pa, la⟩ <;>
  rcases letter_cases bx with ⟨pb, lb⟩ | ⟨pb, lb⟩ <;> rw [la, lb] at hanti
  · exact absurd hanti (by decide)
  · have ha' : IsV Lx Ly ax ay := by
      rcases ha with h | h
      · exact h
      · unfold IsF at h; omega
    have hb' : IsF Lx Ly bx by' := by
      rcases hb with h | h
      · unfold IsV at h; omega
      · exact h
    exact vertex_face_even hx hy ha' hb'
  · have ha' : IsF Lx Ly ax ay := by
      rcases ha with h | h
      · unfold IsV at h; omega
      · exact h
    have hb' : IsV Lx Ly bx by' := by
      rcases hb with h | h
      · exact h
      · unfold IsF at h; omega
    rw [interCount_comm _ _ (nodup_nbrs hx hy ha'.1) (nodup_nbrs hx hy hb'.1)]
    exact vertex_face_even hx hy hb' ha'
  · exact absurd hanti (by decide)

theorem logX_comm {Lx Ly : Nat} (hx : 2 ≤ Lx) (hy : 2 ≤ Ly) :
    ∀ a ∈ (lattice Lx Ly).logX, ∀ s ∈ (lattice Lx Ly).stabs,
      opCommute a ((lattice Lx Ly).getStab s) = true := by
  intro a ha s hs
  obtain ⟨x, y, rfl, h⟩ := mem_stabs.mp hs
  rw [getStab_eq hx hy hs]
  have hbox := box_of_stab h
  change a ∈ logX Lx Ly at ha
  rw [logX_eq] at ha
  simp only [List.mem_cons, List.not_mem_nil, or_false] at ha
  rcases letter_cases x with ⟨px, lx⟩ | ⟨px, lx⟩ <;> rw [lx]
  · have hv : IsV Lx Ly x y := by
      rcases h with h | h
      · exact h
      · unfold IsF at h; omega
    rcases ha with rfl | rfl <;> apply opCommute_const_of <;> intro _
    · rw [interCount_comm _ _ (nodup_kX0 Lx) (nodup_nbrs hx hy hbox)]; exact nbrs_kX0 hv
    · rw [interCount_comm _ _ (nodup_kX1 Ly) (nodup_nbrs hx hy hbox)]; exact nbrs_kX1 hv
  · rcases ha with rfl | rfl <;> exact opCommute_same _ _ _

theorem logZ_comm {Lx Ly : Nat} (hx : 2 ≤ Lx) (hy : 2 ≤ Ly) :
    ∀ a ∈ (lattice Lx Ly).logZ, ∀ s ∈ (lattice Lx Ly).stabs,
      opCommute a ((lattice Lx Ly).getStab s) = true := by
  intro a ha s hs
  obtain ⟨x, y, rfl, h⟩ := mem_stabs.mp hs
  rw [getStab_eq hx hy hs]
  have hbox := box_of_stab h
  change a ∈ logZ Lx Ly at ha
  rw [logZ_eq] at ha
  simp only [List.mem_cons, List.not_mem_nil, or_false] at ha
  rcases letter_cases x with ⟨px, lx⟩ | ⟨px, lx⟩ <;> rw [lx]
  · rcases ha with rfl | rfl <;> exact opCommute_same _ _ _
  · have hf : IsF Lx Ly x y := by
      rcases h with h | h
      · unfold IsV at h; omega
      · exact h
    rcases ha with rfl | rfl <;> apply opCommute_const_of <;> intro _
    · rw [interCount_comm _ _ (nodup_kZ0 Ly) (nodup_nbrs hx hy hbox)]; exact nbrs_kZ0 hx hf
    · rw [interCount_comm _ _ (nodup_kZ1 Lx) (nodup_nbrs hx hy hbox)]; exact nbrs_kZ1 hy hf

theorem pairing {Lx Ly : Nat} (hx : 1 ≤ Lx) (hy : 1 ≤ Ly) :
    ∀ i j, i < (lattice Lx Ly).logX.length → j < (lattice Lx Ly).logZ.length →
      opAntiCount ((lattice Lx Ly).logX.getD i []) ((lattice Lx Ly).logZ.getD j []) % 2
        = if i = j then 1 else 0 := by
  intro i j hi hj
  change i < (logX Lx Ly).length at hi
  change j < (logZ Lx Ly).length at hj
  show opAntiCount ((logX Lx Ly).getD i []) ((logZ Lx Ly).getD j []) % 2 = _
  rw [logX_eq] at hi ⊢
  rw [logZ_eq] at hj ⊢
  simp only [List.length_cons, List.length_nil] at hi hj
  have hXZ : Pauli.anti Pauli.X Pauli.Z = true := by decide
  obtain rfl | rfl : i = 0 ∨ i = 1 := by omega
  all_goals obtain rfl | rfl : j = 0 ∨ j = 1 := by omega
  all_goals simp only [List.getD_cons_zero, List.getD_cons_succ, opAntiCount_const, hXZ, if_true]
  · rw [kX0_kZ0 hx hy]
  · rw [kX0_kZ1]; rfl
  · rw [kX1_kZ0]; rfl
  · rw [kX1_kZ1 hx hy]

theorem logXX (Lx Ly : Nat) :
    ∀ a ∈ (lattice Lx Ly).logX, ∀ b ∈ (lattice Lx Ly).logX, opCommute a b = true := by
  intro a ha b hb
  change a ∈ logX Lx Ly at ha
  change b ∈ logX Lx Ly at hb
  rw [logX_eq] at ha hb
  simp only [List.mem_cons, List.not_mem_nil, or_false] at ha hb
  rcases ha with rfl | rfl <;> rcases hb with rfl | rfl <;> exact opCommute_same _ _ _

theorem logZZ (Lx Ly : Nat) :
    ∀ a ∈ (lattice Lx Ly).logZ, ∀ b ∈ (lattice Lx Ly).logZ, opCommute a b = true := by
  intro a ha b hb
  change a ∈ logZ Lx Ly at ha
  change b ∈ logZ Lx Ly at hb
  rw [logZ_eq] at ha hb
  simp only [List.mem_cons, List.not_mem_nil, or_false] at ha hb
  rcases ha with rfl | rfl <;> rcases hb with rfl | rfl <;> exact opCommute_same _ _ _

theorem commPair_all {Lx Ly : Nat} (hx : 2 ≤ Lx) (hy : 2 ≤ Ly) : (lattice Lx Ly).CommPair where
  stab_comm := stab_comm hx hy
  logX_comm := logX_comm hx hy
  logZ_comm := logZ_comm hx hy
  same_k := rfl
  pairing := pairing (by omega) (by omega)
  logXX := logXX Lx Ly
  logZZ := logZZ Lx Ly

/-! ### well-formedness -/

theorem log_mem {Lx Ly : Nat} {a : Op} (ha : a ∈ (lattice Lx Ly).logX ++ (lattice Lx Ly).logZ) :
    ∃ (K : List Coord) (P : Pauli), a = K.map (fun q => (q, P)) ∧ K.Nodup ∧ P ≠ Pauli.I ∧
      (K = kX0 Lx ∨ K = kX1 Ly ∨ K = kZ0 Ly ∨ K = kZ1 Lx) := by
  change a ∈ logX Lx Ly ++ logZ Lx Ly at ha
  rw [logX_eq, logZ_eq] at ha
  simp only [List.cons_append, List.nil_append, List.mem_cons, List.not_mem_nil, or_false] at ha
  rcases ha with rfl | rfl | rfl | rfl
  · exact ⟨kX0 Lx, Pauli.X, rfl, nodup_kX0 Lx, by decide, by simp⟩
  · exact ⟨kX1 Ly, Pauli.X, rfl, nodup_kX1 Ly, by decide, by simp⟩
  · exact ⟨kZ0 Ly, Pauli.Z, rfl, nodup_kZ0 Ly, by decide, by simp⟩
  · exact ⟨kZ1 Lx, Pauli.Z, rfl, nodup_kZ1 Lx, by decide, by simp⟩

theorem log_key_isQ {Lx Ly : Nat} (hx : 1 ≤ Lx) (hy : 1 ≤ Ly) {K : List Coord}
    (hK : K = kX0 Lx ∨ K = kX1 Ly ∨ K = kZ0 Ly ∨ K = kZ1 Lx) : ∀ q ∈ K, q ∈ qubits Lx Ly := by
  intro q hq
  rcases hK with rfl | rfl | rfl | rfl
  · unfold kX0 at hq; simp only [List.mem_map, mem_pyRange2] at hq
    obtain ⟨x, hx', rfl⟩ := hq
    rw [mem_qubits']; unfold IsQ InBox; omega
  · unfold kX1 at hq; simp only [List.mem_map, mem_pyRange2] at hq
    obtain ⟨x, hx', rfl⟩ := hq
    rw [mem_qubits']; unfold IsQ InBox; omega
  · unfold kZ0 at hq; simp only [List.mem_map, mem_pyRange2] at hq
    obtain ⟨x, hx', rfl⟩ := hq
    rw [mem_qubits']; unfold IsQ InBox; omega
  · unfold kZ1 at hq; simp only [List.mem_map, mem_pyRange2] at hq
    obtain ⟨x, hx', rfl⟩ := hq
    rw [mem_qubits']; unfold IsQ InBox; omega

theorem letter_ne_I (x : Int) : letter x ≠ Pauli.I := by
  rcases letter_cases x with ⟨_, h⟩ | ⟨_, h⟩ <;> rw [h] <;> decide

theorem wf_all {Lx Ly : Nat} (hx : 2 ≤ Lx) (hy : 2 ≤ Ly) : (lattice Lx Ly).WF where
  qubits_nodup := nodup_qubits Lx Ly
  stabs_nodup := nodup_stabs Lx Ly
  disjoint := qubits_stabs_disjoint Lx Ly
  stab_keys := by
    intro s hs
    obtain ⟨x, y, rfl, h⟩ := mem_stabs.mp hs
    rw [getStab_eq hx hy hs, map_fst_const]
    exact nodup_nbrs hx hy (box_of_stab h)
  stab_supported := by
    intro s hs e he
    obtain ⟨x, y, rfl, h⟩ := mem_stabs.mp hs
    rw [getStab_eq hx hy hs] at he
    simp only [List.mem_map] at he
    obtain ⟨q, hq, rfl⟩ := he
    have := nbrs_isQ (by omega) (by omega) h q hq
    unfold isQubit at this
    rw [isIn_iff] at this
    exact ⟨this, letter_ne_I x⟩
  stab_nonempty := by
    intro s hs
    obtain ⟨x, y, rfl, h⟩ := mem_stabs.mp hs
    rw [getStab_eq hx hy hs]
    simp [nbrs]
  log_keys := by
    intro a ha
    obtain ⟨K, P, rfl, hK, _, _⟩ := log_mem ha
    rw [map_fst_const]; exact hK
  log_supported := by
    intro a ha e he
    obtain ⟨K, P, rfl, _, hP, hK⟩ := log_mem ha
    simp only [List.mem_map] at he
    obtain ⟨q, hq, rfl⟩ := he
    exact ⟨log_key_isQ (by omega) (by omega) hK q hq, hP⟩

/-! ### sizes -/

theorem length_qubits (Lx Ly : Nat) : (qubits Lx Ly).length = 2 * Lx * Ly := by
  unfold qubits
  rw [List.length_append, length_grid, length_grid]
  simp only [length_pyRange2]
  have h1 : (2 * Lx - 1 + 1) / 2 = Lx := by omega
  have h2 : (2 * Ly - 0 + 1) / 2 = Ly := by omega
  have h3 : (2 * Lx - 0 + 1) / 2 = Lx := by omega
  have h4 : (2 * Ly - 1 + 1) / 2 = Ly := by omega
  rw [h1, h2, h3, h4, Nat.mul_assoc, Nat.two_mul]

theorem length_stabs (Lx Ly : Nat) : (stabs Lx Ly).length = 2 * Lx * Ly := by
  unfold stabs
  rw [List.length_append, length_grid, length_grid]
  simp only [length_pyRange2]
  have h1 : (2 * Lx - 1 + 1) / 2 = Lx := by omega
  have h2 : (2 * Ly - 0 + 1) / 2 = Ly := by omega
  have h3 : (2 * Lx - 0 + 1) / 2 = Lx := by omega
  have h4 : (2 * Ly - 1 + 1) / 2 = Ly := by omega
  rw [h1, h2, h3, h4, Nat.mul_assoc, Nat.two_mul]

/-! ### deformation -/

theorem qubitAxis_of_mem {Lx Ly : Nat} {q : Coord} (h : q ∈ qubits Lx Ly) :
    ∃ x y, q = [x, y] ∧
      ((x % 2 = 1 ∧ y % 2 = 0 ∧ qubitAxis q = some "x") ∨
       (x % 2 = 0 ∧ y % 2 = 1 ∧ qubitAxis q = some "y")) := by
  obtain ⟨x, y, rfl, hq⟩ := mem_qubits.mp h
  refine ⟨x, y, rfl, ?_⟩
  unfold IsQ at hq
  unfold qubitAxis
  rcases hq.2 with ⟨h1, h2⟩ | ⟨h1, h2⟩
  · left; simp [h1, h2]
  · right; simp [h1, h2]

end Panqec.Toric2DCode
