/-
Generic lemmas for the hand-written lattice models of `RotatedPlanar3DCode` and `XCubeCode`:
Python `range(a, b, 2)`, nested coordinate loops (`grid3`: membership, distinctness, length),
dict construction without overwrite (`dictOf` / `buildOp` on distinct keys = `constOp`), and the
anticommutation count of two constant-letter operators as an overlap count (`ovl`) of key lists.
-/
import Mathlib.Data.List.Nodup
import PanqecVerif.Model.Lattices.Util3Db
open Panqec Panqec.Lat3Db
namespace Panqec.Lat3Db

theorem mem_pyRange2 (a b : Nat) (x : Int) :
    x ∈ pyRange2 a b ↔ (a : Int) ≤ x ∧ x < b ∧ (x - a) % 2 = 0 := by
  unfold pyRange2
  simp only [List.mem_map, List.mem_range']
  constructor
  · rintro ⟨m, ⟨i, hi, rfl⟩, rfl⟩
    simp only [Int.ofNat_eq_natCast]
    omega
  · rintro ⟨h1, h2, h3⟩
    refine ⟨x.toNat, ⟨(x.toNat - a) / 2, ?_, ?_⟩, ?_⟩
    · omega
    · omega
    · simp only [Int.ofNat_eq_natCast]; omega

theorem nodup_pyRange2 (a b : Nat) : (pyRange2 a b).Nodup := by
  unfold pyRange2
  refine List.Nodup.map ?_ (List.nodup_range' 2 (by omega))
  intro x y h; exact Int.ofNat.inj h

theorem length_pyRange2 (a b : Nat) : (pyRange2 a b).length = (b + 1 - a) / 2 := by
  simp [pyRange2]

/-! ### grid3 -/

theorem mem_grid3 (xs ys zs : List Int) (p : Int → Int → Int → Bool) (c : Coord) :
    c ∈ grid3 xs ys zs p ↔ ∃ x y z, c = [x, y, z] ∧ x ∈ xs ∧ y ∈ ys ∧ z ∈ zs ∧ p x y z = true := by
  unfold grid3
  simp only [List.mem_flatMap, List.mem_map, List.mem_filter]
  constructor
  · rintro ⟨x, hx, y, hy, z, ⟨hz, hp⟩, rfl⟩
    exact ⟨x, y, z, rfl, hx, hy, hz, hp⟩
  · rintro ⟨x, y, z, rfl, hx, hy, hz, hp⟩
    exact ⟨x, hx, y, hy, z, ⟨hz, hp⟩, rfl⟩

theorem mem_grid3_cons (xs ys zs : List Int) (p : Int → Int → Int → Bool) (x y z : Int) :
    [x, y, z] ∈ grid3 xs ys zs p ↔ x ∈ xs ∧ y ∈ ys ∧ z ∈ zs ∧ p x y z = true := by
  rw [mem_grid3]
  constructor
  · rintro ⟨x', y', z', h, r⟩
    simp only [List.cons.injEq, and_true] at h
    obtain ⟨rfl, rfl, rfl⟩ := h
    exact r
  · intro r; exact ⟨x, y, z, rfl, r⟩

theorem nodup_grid3 (xs ys zs : List Int) (p : Int → Int → Int → Bool)
    (hx : xs.Nodup) (hy : ys.Nodup) (hz : zs.Nodup) : (grid3 xs ys zs p).Nodup := by
  unfold grid3
  rw [List.nodup_flatMap]
  refine ⟨fun x _ => ?_, ?_⟩
  · rw [List.nodup_flatMap]
    refine ⟨fun y _ => ?_, ?_⟩
    · refine List.Nodup.map ?_ (hz.filter _)
      intro a b h; simpa using h
    · refine List.Pairwise.imp_of_mem ?_ hy
      intro a b _ _ hab
      simp only [Function.onFun, List.Disjoint, List.mem_map, List.mem_filter]
      rintro c ⟨z, _, rfl⟩ ⟨z', _, h⟩
      simp only [List.cons.injEq, and_true] at h
      exact hab h.2.1.symm
  · refine List.Pairwise.imp_of_mem ?_ hx
    intro a b _ _ hab
    simp only [Function.onFun, List.Disjoint, List.mem_flatMap, List.mem_map, List.mem_filter]
    rintro c ⟨y, _, z, _, rfl⟩ ⟨y', _, z', _, h⟩
    simp only [List.cons.injEq, and_true] at h
    exact hab h.1.symm

theorem length_grid3_true (xs ys zs : List Int) :
    (grid3 xs ys zs fun _ _ _ => true).length = xs.length * ys.length * zs.length := by
  unfold grid3
  induction xs with
  | nil => simp
  | cons x xs ih =>
    have h2 : ∀ ys : List Int, (ys.flatMap fun y => (zs.filter fun _ => true).map fun z => [x, y, z]).length
        = ys.length * zs.length := by
      intro ys
      induction ys with
      | nil => simp
      | cons y ys ih2 => simp only [List.flatMap_cons, List.length_append, ih2]; simp [Nat.add_mul, Nat.add_comm]
    simp only [List.flatMap_cons, List.length_append, ih, h2, List.length_cons]
    simp [Nat.add_mul, Nat.add_comm]

/-- the constant-letter dict on a key list -/
def constOp (keys : List Coord) (p : Pauli) : Op := keys.map fun q => (q, p)

theorem any_constOp (keys : List Coord) (p : Pauli) (q : Coord) :
    (constOp keys p).any (·.1 == q) = keys.contains q := by
  induction keys with
  | nil => simp [constOp]
  | cons a t ih =>
    simp only [constOp, List.map_cons, List.any_cons, List.contains_cons] at ih ⊢
    rw [ih]
    by_cases h : a = q
    · subst h; simp
    · have h1 : (a == q) = false := by simpa using h
      have h2 : (q == a) = false := by simpa using fun e : q = a => h e.symm
      simp [h1, h2]

theorem insert_constOp_new (keys : List Coord) (p : Pauli) (q : Coord) (h : q ∉ keys) :
    (constOp keys p).insert q p = constOp (keys ++ [q]) p := by
  unfold Op.insert
  rw [any_constOp]
  have : keys.contains q = false := by simpa using h
  rw [this]
  simp [constOp]

theorem dictOf_aux (p : Pauli) (keys acc : List Coord) (h : (acc ++ keys).Nodup) :
    keys.foldl (fun op q => op.insert q p) (constOp acc p) = constOp (acc ++ keys) p := by
  induction keys generalizing acc with
  | nil => simp
  | cons a t ih =>
    simp only [List.foldl_cons]
    have hn : a ∉ acc := by
      intro ha
      have := List.nodup_append.mp h
      exact this.2.2 a ha a (by simp) rfl
    rw [insert_constOp_new _ _ _ hn, ih (acc ++ [a]) (by simpa using h)]
    simp

/-- with distinct keys the dict assignments never overwrite -/
theorem dictOf_eq (keys : List Coord) (p : Pauli) (h : keys.Nodup) :
    dictOf keys p = constOp keys p := by
  have := dictOf_aux p keys [] (by simpa using h)
  simpa [dictOf, constOp] using this

theorem buildOp_eq_dictOf (isQ : Coord → Bool) (locs : List Coord) (p : Pauli) :
    buildOp isQ locs p = dictOf (locs.filter isQ) p := by
  unfold buildOp dictOf
  generalize ([] : Op) = acc
  induction locs generalizing acc with
  | nil => simp
  | cons a t ih =>
    simp only [List.foldl_cons, List.filter_cons]
    by_cases h : isQ a = true
    · simp [h, ih]
    · simp [h, ih]

theorem buildOp_eq (isQ : Coord → Bool) (locs : List Coord) (p : Pauli) (h : locs.Nodup) :
    buildOp isQ locs p = constOp (locs.filter isQ) p := by
  rw [buildOp_eq_dictOf, dictOf_eq _ _ (h.filter _)]

theorem get?_constOp (keys : List Coord) (p : Pauli) (q : Coord) :
    (constOp keys p).get? q = if q ∈ keys then some p else none := by
  induction keys with
  | nil => simp [constOp, Op.get?]
  | cons a t ih =>
    simp only [constOp, Op.get?, List.map_cons, List.find?_cons, List.mem_cons] at ih ⊢
    by_cases h : a = q
    · subst h; simp
    · have h' : (a == q) = false := by simpa using h
      have h'' : ¬ q = a := fun e => h e.symm
      simp only [h', h'', false_or]
      exact ih

/-- number of keys of the first list that occur in the second -/
def ovl (k1 k2 : List Coord) : Nat := k1.countP fun q => k2.contains q

theorem opAntiCount_constOp (k1 k2 : List Coord) (a b : Pauli) :
    opAntiCount (constOp k1 a) (constOp k2 b) = if Pauli.anti a b then ovl k1 k2 else 0 := by
  unfold opAntiCount ovl
  rw [← List.countP_eq_length_filter]
  simp only [constOp, List.countP_map]
  by_cases h : Pauli.anti a b = true
  · simp only [h, if_true]
    apply List.countP_congr
    intro q _
    have := get?_constOp k2 b q
    simp only [constOp] at this
    simp only [Function.comp, this]
    by_cases hq : q ∈ k2 <;> simp [hq, h]
  · simp only [h]
    show _ = 0
    rw [List.countP_eq_zero]
    intro q _
    have := get?_constOp k2 b q
    simp only [constOp] at this
    simp only [Function.comp, this]
    by_cases hq : q ∈ k2 <;> simp [hq, h]

theorem opCommute_constOp_same (k1 k2 : List Coord) (a : Pauli) :
    opCommute (constOp k1 a) (constOp k2 a) = true := by
  unfold opCommute
  rw [opAntiCount_constOp]
  have : Pauli.anti a a = false := by cases a <;> rfl
  simp [this]

theorem ovl_cons (a : Coord) (t k2 : List Coord) :
    ovl (a :: t) k2 = ovl t k2 + if a ∈ k2 then 1 else 0 := by
  unfold ovl
  rw [List.countP_cons]
  simp

theorem ovl_nil (k2 : List Coord) : ovl [] k2 = 0 := rfl

theorem ovl_comm (k1 k2 : List Coord) (h1 : k1.Nodup) (h2 : k2.Nodup) : ovl k1 k2 = ovl k2 k1 := by
  induction k1 generalizing k2 with
  | nil => simp [ovl]
  | cons a t ih =>
    rw [ovl_cons, ih k2 (List.nodup_cons.mp h1).2 h2]
    have hat : a ∉ t := (List.nodup_cons.mp h1).1
    unfold ovl
    clear ih h1
    induction k2 with
    | nil => simp
    | cons b u ih2 =>
      have hb := List.nodup_cons.mp h2
      rw [List.countP_cons, List.countP_cons, ← ih2 hb.2]
      by_cases hab : a = b
      · subst hab
        simp [hat, hb.1]
      · have hba : ¬ b = a := fun e => hab e.symm
        simp [hab, hba]
        omega

end Panqec.Lat3Db

namespace Panqec.Lat3Db

/-- member of `range(1, b, 2)` -/
def R1 (b : Nat) (x : Int) : Prop := x % 2 = 1 ∧ 1 ≤ x ∧ x < b
/-- member of `range(2, b, 2)` -/
def R2 (b : Nat) (x : Int) : Prop := x % 2 = 0 ∧ 2 ≤ x ∧ x < b
/-- member of `range(0, b, 2)` -/
def R0 (b : Nat) (x : Int) : Prop := x % 2 = 0 ∧ 0 ≤ x ∧ x < b

instance (b : Nat) (x : Int) : Decidable (R1 b x) := by unfold R1; infer_instance
instance (b : Nat) (x : Int) : Decidable (R2 b x) := by unfold R2; infer_instance
instance (b : Nat) (x : Int) : Decidable (R0 b x) := by unfold R0; infer_instance

theorem mem_pyRange2_1 (b : Nat) (x : Int) : x ∈ pyRange2 1 b ↔ R1 b x := by
  rw [mem_pyRange2]; unfold R1; omega
theorem mem_pyRange2_2 (b : Nat) (x : Int) : x ∈ pyRange2 2 b ↔ R2 b x := by
  rw [mem_pyRange2]; unfold R2; omega
theorem mem_pyRange2_0 (b : Nat) (x : Int) : x ∈ pyRange2 0 b ↔ R0 b x := by
  rw [mem_pyRange2]; unfold R0; omega

end Panqec.Lat3Db

namespace Panqec.Lat3Db

/-- indicator of a decidable proposition -/
def ind (p : Prop) [Decidable p] : Nat := if p then 1 else 0

theorem ind_congr {p q : Prop} [Decidable p] [Decidable q] (h : p ↔ q) : ind p = ind q := by
  unfold ind; simp [h]

theorem ind_le_one (p : Prop) [Decidable p] : ind p ≤ 1 := by unfold ind; split <;> omega

theorem ovl_cons_ind (a : Coord) (t k2 : List Coord) : ovl (a :: t) k2 = ovl t k2 + ind (a ∈ k2) :=
  ovl_cons a t k2

/-- filtering the first list by a predicate that holds on the second list does not change the overlap -/
theorem ovl_filter_left (p : Coord → Bool) (l k2 : List Coord) (h : ∀ q ∈ k2, p q = true) :
    ovl (l.filter p) k2 = ovl l k2 := by
  unfold ovl; rw [List.countP_filter]
  apply List.countP_congr; intro q _
  by_cases hq : q ∈ k2
  · simp [hq, h q hq]
  · simp [hq]

theorem ovl_filter_filter (p : Coord → Bool) (l l2 : List Coord) :
    ovl (l.filter p) (l2.filter p) = ovl l (l2.filter p) :=
  ovl_filter_left p l _ (fun _ hq => (List.mem_filter.mp hq).2)

end Panqec.Lat3Db

namespace Panqec.Lat3Db

theorem ind_pos {p : Prop} [Decidable p] (h : p) : ind p = 1 := by simp [ind, h]
theorem ind_neg {p : Prop} [Decidable p] (h : ¬ p) : ind p = 0 := by simp [ind, h]

/-- case split: `a` is at offset -2, 0, +2 of `x`, or at none of them -/
theorem near3 (a x : Int) : a = x - 2 ∨ a = x ∨ a = x + 2 ∨ (a ≠ x - 2 ∧ a ≠ x ∧ a ≠ x + 2) := by omega
/-- case split: `a` is at offset -1, +1 of `x`, or at none of them -/
theorem near2 (a x : Int) : a = x - 1 ∨ a = x + 1 ∨ (a ≠ x - 1 ∧ a ≠ x + 1) := by omega

end Panqec.Lat3Db

namespace Panqec.Lat3Db

theorem opCommute_of_ovl_even (k1 k2 : List Coord) (a b : Pauli) (h : ovl k1 k2 % 2 = 0) :
    opCommute (constOp k1 a) (constOp k2 b) = true := by
  unfold opCommute
  rw [opAntiCount_constOp]
  split <;> simp [h]

theorem opCommute_of_ovl_even' (k1 k2 : List Coord) (a b : Pauli) (h1 : k1.Nodup) (h2 : k2.Nodup)
    (h : ovl k2 k1 % 2 = 0) : opCommute (constOp k1 a) (constOp k2 b) = true :=
  opCommute_of_ovl_even k1 k2 a b (by rw [ovl_comm k1 k2 h1 h2]; exact h)

theorem keys_constOp (k : List Coord) (p : Pauli) : (constOp k p).map Prod.fst = k := by
  simp [constOp, Function.comp_def]

theorem mem_constOp (k : List Coord) (p : Pauli) (e : Coord × Pauli) :
    e ∈ constOp k p ↔ e.1 ∈ k ∧ e.2 = p := by
  unfold constOp
  simp only [List.mem_map]
  constructor
  · rintro ⟨q, hq, rfl⟩; exact ⟨hq, rfl⟩
  · rintro ⟨hq, rfl⟩; exact ⟨e.1, hq, rfl⟩

end Panqec.Lat3Db
