/-
Union-find internals (C05), termination of the growth loop, part A: what one call of
`Clustering_Tree.grow` does to `_H_to_grow`, to the new boundary list and to the fusion set, for
any iteration order of the old boundary list.
-/
import PanqecVerif.Proofs.UnionFindGrowG

namespace Panqec.UF

set_option linter.unusedSimpArgs false
set_option linter.unusedVariables false

theorem hashS_neg (s : Nat) : hashS s < 0 := by unfold hashS; omega

theorem hashS_inj {a b : Nat} (h : hashS a = hashS b) : a = b := by unfold hashS at h; omega

theorem unhashS_hashS (s : Nat) : unhashS (hashS s) = s := by unfold unhashS hashS; omega

theorem hashS_unhashS {b : Int} (h : b < 0) : hashS (unhashS b) = b := by
  unfold unhashS hashS; omega

/-- invariant of `for b in self._boundary_list` after the prefix `P` -/
structure GFInv (H : Mat) (st : GState) (P : List Int) (acc : GrowAcc) : Prop where
  row : ∀ s, acc.rowDead s = (st.rowDead s || decide (hashS s ∈ P))
  col : ∀ q : Nat, acc.colDead q = (st.colDead q || decide ((q : Int) ∈ P))
  nb_row : ∀ s, hashS s ∈ P → ∀ q, hb H s q = true →
    st.rowDead s = true ∨ acc.colDead q = true ∨ (q : Int) ∈ acc.newB
  fus_row : ∀ s, hashS s ∈ P → ∀ q, hb H s q = true →
    st.rowDead s = true ∨ st.colDead q = true ∨ (q : Int) ∈ acc.fus
  fus_col : ∀ x, x ∈ P → 0 ≤ x → x ∈ acc.fus
  nb_src : ∀ x, x ∈ acc.newB →
    (0 ≤ x → ∃ s, hashS s ∈ P ∧ hb H s x.toNat = true) ∧
    (x < 0 → ∃ q : Nat, (q : Int) ∈ P ∧ hb H (unhashS x) q = true)

theorem GFInv_init (H : Mat) (st : GState) : GFInv H st [] ⟨st.rowDead, st.colDead, [], []⟩ :=
  ⟨by simp, by simp, by simp, by simp, by simp, by simp⟩

theorem GFInv_step {H : Mat} (hrange : ∀ s q, hb H s q = true → q < ncols H) {st : GState}
    {P : List Int} {acc : GrowAcc} (I : GFInv H st P acc) (b : Int) :
    GFInv H st (P ++ [b]) (growStep H acc b) := by
  unfold growStep
  by_cases hb0 : b < 0
  · -- a stabilizer of the boundary list: `grow_stabilizer`
    simp only [hb0, if_true]
    have hs0 := hashS_unhashS hb0
    have hmemP : ∀ s, hashS s ∈ P ++ [b] ↔ (hashS s ∈ P ∨ s = unhashS b) := by
      intro s
      rw [List.mem_append, List.mem_singleton]
      constructor
      · rintro (h | h)
        · exact Or.inl h
        · exact Or.inr (hashS_inj (h.trans hs0.symm))
      · rintro (h | h)
        · exact Or.inl h
        · exact Or.inr (by rw [h, hs0])
    have hmemQ : ∀ q : Nat, (q : Int) ∈ P ++ [b] ↔ (q : Int) ∈ P := by
      intro q
      rw [List.mem_append, List.mem_singleton]
      constructor
      · rintro (h | h)
        · exact h
        · omega
      · exact fun h => Or.inl h
    have hqs : ∀ q, hb H (unhashS b) q = true → acc.rowDead (unhashS b) = false →
        acc.colDead q = false →
        (q : Int) ∈ ((List.range (ncols H)).filter fun q =>
          live H acc.rowDead acc.colDead (unhashS b) q).map Int.ofNat := by
      intro q h1 h2 h3
      rw [List.mem_map]
      refine ⟨q, ?_, rfl⟩
      rw [mem_filter_range]
      exact ⟨hrange _ q h1, by unfold live; simp [h1, h2, h3]⟩
    refine ⟨?_, ?_, ?_, ?_, ?_, ?_⟩
    · intro s
      simp only []
      by_cases hs : s = unhashS b
      · have : hashS s ∈ P ++ [b] := (hmemP s).mpr (Or.inr hs)
        simp [hs, (hmemP (unhashS b)).mpr (Or.inr rfl)]
      · simp only [hs, if_false, I.row s]
        have : decide (hashS s ∈ P ++ [b]) = decide (hashS s ∈ P) := by
          have := hmemP s
          by_cases h : hashS s ∈ P <;> simp [h, this, hs]
        rw [this]
    · intro q
      simp only []
      rw [I.col q]
      have : decide ((q : Int) ∈ P ++ [b]) = decide ((q : Int) ∈ P) := by
        have := hmemQ q
        by_cases h : (q : Int) ∈ P <;> simp [h, this]
      rw [this]
    · intro s hs q hq
      simp only []
      rw [mem_sunion]
      rcases (hmemP s).mp hs with h | h
      · rcases I.nb_row s h q hq with h1 | h1 | h1
        · exact Or.inl h1
        · exact Or.inr (Or.inl h1)
        · exact Or.inr (Or.inr (Or.inl h1))
      · subst h
        cases hr : st.rowDead (unhashS b)
        · by_cases hP : hashS (unhashS b) ∈ P
          · rcases I.nb_row _ hP q hq with h1 | h1 | h1
            · rw [hr] at h1; exact absurd h1 (by simp)
            · exact Or.inr (Or.inl h1)
            · exact Or.inr (Or.inr (Or.inl h1))
          · have hrd : acc.rowDead (unhashS b) = false := by rw [I.row]; simp [hr, hP]
            cases hc : acc.colDead q
            · exact Or.inr (Or.inr (Or.inr (hqs q hq hrd hc)))
            · exact Or.inr (Or.inl rfl)
        · exact Or.inl rfl
    · intro s hs q hq
      simp only []
      rw [mem_sunion]
      rcases (hmemP s).mp hs with h | h
      · rcases I.fus_row s h q hq with h1 | h1 | h1
        · exact Or.inl h1
        · exact Or.inr (Or.inl h1)
        · exact Or.inr (Or.inr (Or.inl h1))
      · subst h
        cases hr : st.rowDead (unhashS b)
        · by_cases hP : hashS (unhashS b) ∈ P
          · rcases I.fus_row _ hP q hq with h1 | h1 | h1
            · rw [hr] at h1; exact absurd h1 (by simp)
            · exact Or.inr (Or.inl h1)
            · exact Or.inr (Or.inr (Or.inl h1))
          · have hrd : acc.rowDead (unhashS b) = false := by rw [I.row]; simp [hr, hP]
            cases hc : acc.colDead q
            · exact Or.inr (Or.inr (Or.inr (hqs q hq hrd hc)))
            · rw [I.col q] at hc
              simp only [Bool.or_eq_true, decide_eq_true_eq] at hc
              rcases hc with hc | hc
              · exact Or.inr (Or.inl hc)
              · exact Or.inr (Or.inr (Or.inl (I.fus_col _ hc (by omega))))
        · exact Or.inl rfl
    · intro x hx hx0
      simp only []
      rw [mem_sunion]
      rcases List.mem_append.mp hx with h | h
      · exact Or.inl (I.fus_col x h hx0)
      · simp at h; omega
    · intro x hx
      simp only [] at hx
      rw [mem_sunion] at hx
      rcases hx with hx | hx
      · obtain ⟨h1, h2⟩ := I.nb_src x hx
        constructor
        · intro h0
          obtain ⟨s, hs, hh⟩ := h1 h0
          exact ⟨s, List.mem_append.mpr (Or.inl hs), hh⟩
        · intro h0
          obtain ⟨q, hq, hh⟩ := h2 h0
          exact ⟨q, List.mem_append.mpr (Or.inl hq), hh⟩
      · rw [List.mem_map] at hx
        obtain ⟨q, hq, rfl⟩ := hx
        rw [mem_filter_range] at hq
        have hlive := hq.2
        unfold live at hlive
        simp only [Bool.and_eq_true] at hlive
        constructor
        · intro _
          refine ⟨unhashS b, (hmemP _).mpr (Or.inr rfl), ?_⟩
          simpa using hlive.1.1
        · intro h0; simp at h0; omega
  · -- a qubit of the boundary list: `grow_qubit`
    simp only [hb0, if_false]
    have hbq : ((b.toNat : Nat) : Int) = b := by omega
    have hmemP : ∀ s, hashS s ∈ P ++ [b] ↔ hashS s ∈ P := by
      intro s
      rw [List.mem_append, List.mem_singleton]
      have := hashS_neg s
      constructor
      · rintro (h | h)
        · exact h
        · omega
      · exact fun h => Or.inl h
    have hmemQ : ∀ q : Nat, (q : Int) ∈ P ++ [b] ↔ ((q : Int) ∈ P ∨ q = b.toNat) := by
      intro q
      rw [List.mem_append, List.mem_singleton]
      constructor
      · rintro (h | h)
        · exact Or.inl h
        · exact Or.inr (by omega)
      · rintro (h | h)
        · exact Or.inl h
        · exact Or.inr (by omega)
    refine ⟨?_, ?_, ?_, ?_, ?_, ?_⟩
    · intro s
      simp only []
      rw [I.row s]
      have : decide (hashS s ∈ P ++ [b]) = decide (hashS s ∈ P) := by
        have := hmemP s
        by_cases h : hashS s ∈ P <;> simp [h, this]
      rw [this]
    · intro q
      simp only []
      by_cases hq : q = b.toNat
      · have : (q : Int) ∈ P ++ [b] := (hmemQ q).mpr (Or.inr hq)
        simp only [hq, if_true]
        have h2 : ((b.toNat : Nat) : Int) ∈ P ++ [b] := (hmemQ b.toNat).mpr (Or.inr rfl)
        rw [decide_eq_true h2]; simp
      · simp only [hq, if_false, I.col q]
        have : decide ((q : Int) ∈ P ++ [b]) = decide ((q : Int) ∈ P) := by
          have := hmemQ q
          by_cases h : (q : Int) ∈ P <;> simp [h, this, hq]
        rw [this]
    · intro s hs q hq
      simp only []
      rw [mem_sunion]
      rcases I.nb_row s ((hmemP s).mp hs) q hq with h1 | h1 | h1
      · exact Or.inl h1
      · refine Or.inr (Or.inl ?_)
        by_cases h : q = b.toNat <;> simp [h, h1]
      · exact Or.inr (Or.inr (Or.inl h1))
    · intro s hs q hq
      simp only []
      rw [mem_sunion]
      rcases I.fus_row s ((hmemP s).mp hs) q hq with h1 | h1 | h1
      · exact Or.inl h1
      · exact Or.inr (Or.inl h1)
      · exact Or.inr (Or.inr (Or.inl h1))
    · intro x hx hx0
      simp only []
      rw [mem_sunion]
      rcases List.mem_append.mp hx with h | h
      · exact Or.inl (I.fus_col x h hx0)
      · simp at h; subst h; exact Or.inr (by simp)
    · intro x hx
      simp only [] at hx
      rw [mem_sunion] at hx
      rcases hx with hx | hx
      · obtain ⟨h1, h2⟩ := I.nb_src x hx
        constructor
        · intro h0
          obtain ⟨s, hs, hh⟩ := h1 h0
          exact ⟨s, List.mem_append.mpr (Or.inl hs), hh⟩
        · intro h0
          obtain ⟨q, hq, hh⟩ := h2 h0
          exact ⟨q, List.mem_append.mpr (Or.inl hq), hh⟩
      · rw [List.mem_map] at hx
        obtain ⟨s, hs, rfl⟩ := hx
        rw [mem_filter_range] at hs
        have hlive := hs.2
        unfold live at hlive
        simp only [Bool.and_eq_true] at hlive
        constructor
        · intro h0; have := hashS_neg s; omega
        · intro _
          refine ⟨b.toNat, (hmemQ _).mpr (Or.inr rfl), ?_⟩
          rw [unhashS_hashS]; simpa using hlive.1.1

theorem GFInv_fold {H : Mat} (hrange : ∀ s q, hb H s q = true → q < ncols H) {st : GState} :
    ∀ (l P : List Int) (acc : GrowAcc), GFInv H st P acc →
      GFInv H st (P ++ l) (l.foldl (growStep H) acc) := by
  intro l
  induction l with
  | nil => intro P acc I; simpa using I
  | cons b l ih =>
    intro P acc I
    have := ih (P ++ [b]) _ (GFInv_step hrange I b)
    simpa using this

end Panqec.UF
