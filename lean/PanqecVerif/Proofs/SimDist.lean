/-
Helper lemmas about finite rational distributions of `Model/Sim.lean`
(total weight and expectation of independent products; `N` i.i.d. trials).
-/
import PanqecVerif.Model.Sim
import Mathlib.Tactic.Ring
import Mathlib.Tactic.Linarith
import Mathlib.Algebra.Order.Field.Rat

namespace Panqec.Sim

open Panqec

theorem sum_map_flatMap {α β : Type} (l : List α) (f : α → List β) (g : β → Rat) :
    ((l.flatMap f).map g).sum = (l.map fun x => ((f x).map g).sum).sum := by
  induction l with
  | nil => simp
  | cons a l ih => simp [List.flatMap_cons, ih]

theorem sum_map_mul_left' {α : Type} (l : List α) (c : Rat) (f : α → Rat) :
    (l.map fun x => c * f x).sum = c * (l.map f).sum := by
  induction l with
  | nil => simp
  | cons a l ih => simp [ih, mul_add]

theorem sum_map_add' {α : Type} (l : List α) (f g : α → Rat) :
    (l.map fun x => f x + g x).sum = (l.map f).sum + (l.map g).sum := by
  induction l with
  | nil => simp
  | cons a l ih => simp [ih]; ring

/-- expectation over `d :: ds` splits off the first coordinate -/
theorem expect_prodDist_cons {α : Type} (d : Dist α) (ds : List (Dist α)) (g : List α → Rat) :
    (prodDist (d :: ds)).expect g =
      (d.map fun x => x.2 * (prodDist ds).expect fun y => g (x.1 :: y)).sum := by
  simp only [Dist.expect, prodDist]
  rw [sum_map_flatMap]
  congr 1
  apply List.map_congr_left
  intro x _
  rw [List.map_map, ← sum_map_mul_left']
  congr 1
  apply List.map_congr_left
  intro y _
  simp only [Function.comp]
  ring

theorem total_eq_expect_one {α : Type} (d : Dist α) : d.total = d.expect fun _ => 1 := by
  simp [Dist.total, Dist.expect]

/-- total weight of an independent product = product of the totals -/
theorem total_prodDist {α : Type} : ∀ ds : List (Dist α),
    (prodDist ds).total = (ds.map Dist.total).prod
  | [] => by simp [prodDist, Dist.total]
  | d :: ds => by
    rw [total_eq_expect_one, expect_prodDist_cons]
    simp only [← total_eq_expect_one, total_prodDist ds, List.map_cons, List.prod_cons]
    have : (d.map fun x => x.2 * (ds.map Dist.total).prod).sum
        = (ds.map Dist.total).prod * (d.map (·.2)).sum := by
      rw [← sum_map_mul_left']; congr 1; apply List.map_congr_left; intro x _; ring
    rw [this]; simp only [Dist.total]; ring

theorem total_prodDist_of_normalised {α : Type} (ds : List (Dist α))
    (h : ∀ d ∈ ds, d.total = 1) : (prodDist ds).total = 1 := by
  rw [total_prodDist]
  induction ds with
  | nil => simp
  | cons d ds ih =>
    simp only [List.map_cons, List.prod_cons]
    rw [h d (by simp), ih (fun d' hd' => h d' (by simp [hd']))]; ring

theorem expect_add {α : Type} (d : Dist α) (f g : α → Rat) :
    d.expect (fun x => f x + g x) = d.expect f + d.expect g := by
  simp only [Dist.expect]
  rw [← sum_map_add']; congr 1; apply List.map_congr_left; intro x _; ring

theorem expect_const {α : Type} (d : Dist α) (c : Rat) :
    d.expect (fun _ => c) = c * d.total := by
  simp only [Dist.expect, Dist.total]
  rw [← sum_map_mul_left']; congr 1; apply List.map_congr_left; intro x _; ring

theorem expect_map {α β : Type} (d : Dist α) (m : α → β) (f : β → Rat) :
    (Dist.expect (d.map fun x => (m x.1, x.2)) f) = d.expect fun a => f (m a) := by
  simp only [Dist.expect, List.map_map]
  congr 1

theorem total_map {α β : Type} (d : Dist α) (m : α → β) :
    (Dist.total (d.map fun x => (m x.1, x.2))) = d.total := by
  simp only [Dist.total, List.map_map]
  congr 1

theorem countFail_cons {α : Type} (fail : α → Bool) (x : α) (xs : List α) :
    (countFail fail (x :: xs) : Rat) = (if fail x then 1 else 0) + (countFail fail xs : Rat) := by
  unfold countFail
  by_cases h : fail x = true
  · simp [h]; ring
  · simp [h]

/-- expected number of failures in `N` independent trials of a normalised distribution -/
theorem expect_countFail_replicate {α : Type} (d : Dist α) (fail : α → Bool)
    (hd : d.total = 1) : ∀ N : Nat,
    (prodDist (List.replicate N d)).expect (fun xs => (countFail fail xs : Rat)) =
      (N : Rat) * d.expect fun x => if fail x then 1 else 0
  | 0 => by simp [prodDist, Dist.expect, countFail]
  | N + 1 => by
    rw [List.replicate_succ, expect_prodDist_cons]
    have htot : (prodDist (List.replicate N d)).total = 1 :=
      total_prodDist_of_normalised _ (fun d' hd' => by rw [List.eq_of_mem_replicate hd']; exact hd)
    have hinner : ∀ x : α × Rat,
        (prodDist (List.replicate N d)).expect (fun y => (countFail fail (x.1 :: y) : Rat)) =
        (if fail x.1 then 1 else 0) + (N : Rat) * d.expect fun x => if fail x then 1 else 0 := by
      intro x
      have : (fun y => (countFail fail (x.1 :: y) : Rat)) =
          fun y => (if fail x.1 then (1 : Rat) else 0) + (countFail fail y : Rat) := by
        funext y; exact countFail_cons fail x.1 y
      rw [this, expect_add, expect_const, htot, expect_countFail_replicate d fail hd N]; ring
    simp only [hinner]
    have : (d.map fun x => x.2 * ((if fail x.1 then (1 : Rat) else 0) +
              (N : Rat) * d.expect fun x => if fail x then 1 else 0)).sum
        = (d.map fun x => x.2 * (if fail x.1 then (1 : Rat) else 0)).sum +
          ((N : Rat) * d.expect fun x => if fail x then 1 else 0) * (d.map (·.2)).sum := by
      rw [← sum_map_mul_left', ← sum_map_add']; congr 1
      apply List.map_congr_left; intro x _; ring
    rw [this]
    have ht : (d.map (·.2)).sum = 1 := hd
    rw [ht]
    simp only [Dist.expect]
    push_cast; ring

end Panqec.Sim
