/-
Facts about the `Toric2DCode(La, Lb)` objects the X-cube decoder uses, for every size: the first
`La·Lb` qubit coordinates are the x-edges `(odd, even)`; the X-flagged rows of the parity-check
matrix (the faces) are at most `La·Lb` (the `La·Lb` vertex rows, which come first, carry only Z).
-/
import PanqecVerif.Proofs.XCubeDecProject
import PanqecVerif.Proofs.XCubeDecCss

namespace Panqec.XCube

open Panqec

/-- the first `La · Lb` entries of `qubit_coordinates` are the x-edges -/
theorem toric_first_block (La Lb i : Nat) (hi : i < La * Lb) :
    ∃ x y, (Toric2DCode.qubits La Lb)[i]? = some [x, y] ∧
      Lat3Db.R1 (2 * La) x ∧ Lat3Db.R0 (2 * Lb) y := by
  unfold Toric2DCode.qubits
  have hlen : (Lat2D.grid (Lat2D.pyRange2 1 (2 * La)) (Lat2D.pyRange2 0 (2 * Lb))).length = La * Lb := by
    rw [Lat2D.length_grid, Lat2D.length_pyRange2, Lat2D.length_pyRange2]
    congr 1 <;> omega
  rw [List.getElem?_append_left (by omega), List.getElem?_eq_getElem (by omega)]
  have hm := List.getElem_mem (l := Lat2D.grid (Lat2D.pyRange2 1 (2 * La)) (Lat2D.pyRange2 0 (2 * Lb)))
    (by omega : i < _)
  obtain ⟨x, y, hx, hy, hq⟩ := Lat2D.mem_grid.mp hm
  rw [Lat2D.mem_pyRange2] at hx hy
  refine ⟨x, y, by rw [hq], ?_, ?_⟩
  · unfold Lat3Db.R1; omega
  · unfold Lat3Db.R0; omega

/-- letters of a vertex operator: all Z -/
theorem toric_collect_letters (cands : List Coord) (isQ : Coord → Bool) (p : Pauli) :
    ∀ e ∈ Lat2D.collect cands isQ p, e.2 = p :=
  foldl_buildOp_letters isQ p cands [] (by simp)

theorem toric_vertex_letters (La Lb : Nat) (x y : Int) (hx : x % 2 = 0) :
    ∀ e ∈ (Toric2DCode.lattice La Lb).getStab [x, y], e.2 = Pauli.Z := by
  simp only [Toric2DCode.lattice, Toric2DCode.getStabilizer?]
  split
  · simp
  · have : Toric2DCode.stabilizerType La Lb [x, y] = some "vertex" := by
      unfold Toric2DCode.stabilizerType
      rename_i h
      simp only [h, hx, if_true]
      simp
    simp only [this, if_true, Option.getD_some]
    exact toric_collect_letters _ _ _

theorem filter_length_le_of_prefix {α : Type} (p : α → Bool) (l : List α) (k : Nat)
    (h : ∀ i (hi : i < l.length), i < k → p l[i] = false) : (l.filter p).length ≤ l.length - k := by
  have hsplit : l = l.take k ++ l.drop k := (List.take_append_drop k l).symm
  have h1 : (l.take k).filter p = [] := by
    rw [List.filter_eq_nil_iff]
    intro a ha
    obtain ⟨i, hi, rfl⟩ := List.getElem_of_mem ha
    rw [List.length_take] at hi
    rw [List.getElem_take]
    simp [h i (by omega) (by omega)]
  calc (l.filter p).length = ((l.take k ++ l.drop k).filter p).length := by rw [← hsplit]
    _ = ((l.drop k).filter p).length := by rw [List.filter_append, h1, List.nil_append]
    _ ≤ (l.drop k).length := List.length_filter_le _ _
    _ = l.length - k := List.length_drop

/-- at most `La · Lb` rows of the toric parity-check matrix are X-flagged -/
theorem toric_Hx_rows_le (La Lb : Nat) : (Hx (toricView La Lb).H).length ≤ La * Lb := by
  rw [Hx_eq_dec, List.length_map]
  unfold toricView
  simp only
  cases hH : stabilizerMatrix (Toric2DCode.lattice La Lb).toCodeData with
  | none => simp
  | some H =>
    simp only [Option.getD_some]
    unfold stabilizerMatrix at hH
    have hlen := mapM_some_length _ _ _ hH
    have hstabs : (Toric2DCode.lattice La Lb).toCodeData.stabOps.length = 2 * (La * Lb) := by
      simp only [Lattice.toCodeData, Toric2DCode.lattice, Toric2DCode.stabs, List.length_map,
        List.length_append, Lat2D.length_grid, Lat2D.length_pyRange2]
      have h1 : (2 * La - 0 + 1) / 2 = La := by omega
      have h2 : (2 * Lb - 0 + 1) / 2 = Lb := by omega
      have h3 : (2 * La - 1 + 1) / 2 = La := by omega
      have h4 : (2 * Lb - 1 + 1) / 2 = Lb := by omega
      rw [h1, h2, h3, h4]; omega
    have := filter_length_le_of_prefix xFlag_dec H (La * Lb) (by
      intro i hi hik
      have hrow := mapM_some_getElem? _ _ _ hH i (by omega)
      rw [List.getElem?_eq_getElem hi] at hrow
      apply stabRow_xFlag_false _ _ _ hrow.symm
      -- the i-th operator is a vertex operator
      simp only [Lattice.toCodeData, List.getElem_map]
      have hvlen : (Lat2D.grid (Lat2D.pyRange2 0 (2 * La)) (Lat2D.pyRange2 0 (2 * Lb))).length = La * Lb := by
        rw [Lat2D.length_grid, Lat2D.length_pyRange2, Lat2D.length_pyRange2]
        congr 1 <;> omega
      have hget : (Toric2DCode.lattice La Lb).stabs[i]'(by
          simp only [Lattice.toCodeData, List.length_map] at hstabs; omega) ∈
          Lat2D.grid (Lat2D.pyRange2 0 (2 * La)) (Lat2D.pyRange2 0 (2 * Lb)) := by
        simp only [Toric2DCode.lattice, Toric2DCode.stabs]
        rw [List.getElem_append_left (by omega)]
        exact List.getElem_mem _
      obtain ⟨x, y, hx, _, hq⟩ := Lat2D.mem_grid.mp hget
      rw [Lat2D.mem_pyRange2] at hx
      rw [hq]
      exact toric_vertex_letters La Lb x y (by omega))
    omega

end Panqec.XCube
