/-
`HollowRhombicCode`, rank clause, part C: a selected triangle other than `s` whose rank is not smaller
than that of `s` does not contain the single-qubit probe of `s` (the six kinds of single-qubit
probes).  Core Lean only.
-/
import PanqecVerif.Proofs.LatHollowRhombicCodeRankB

set_option linter.unusedVariables false
set_option linter.unusedSimpArgs false

namespace Panqec.HollowRhombicCode
open Panqec.Cubic3D
open Panqec.Planar3DCode (inE inO inE2 inO1)

section
variable {Lx Ly Lz : Nat} {a x y z b u v w : Int}

/-- axis 3, probe on the x leg `(x−1, y, z)` -/
theorem later_3 (hs : TS Lx Ly Lz a x y z) (ht : TS Lx Ly Lz b u v w)
    (hne : ¬ (a = b ∧ x = u ∧ y = v ∧ z = w))
    (hle : mu Ly Lz [a, x, y, z] ≤ mu Ly Lz [b, u, v, w]) (ha : a = 3)
    (hmem : [x - 1, y, z] ∈ triKeys Lx Ly Lz b u v w) : False := by
  have hlex := mu_lex hs.2.1 ht.2.1 hle
  have h3 := mem_triKeys hmem
  have hsv := hs.2.1
  have htv := ht.2.1
  unfold VertexLoc inE2 inE at hsv htv
  have htab := sgn_table (u := u) (v := v) (w := w) ht.1 (by omega)
  clear hmem hle hs ht
  subst ha
  generalize sgnX b = sx at *
  generalize sgnY b = sy at *
  generalize sgnZ b u v w = sz at *
  rcases htab with ⟨rfl, hf⟩ | ⟨rfl, hf⟩ | ⟨rfl, hf⟩ | ⟨rfl, hf⟩ <;> simp [rk] at hlex <;>
    rcases h3 with h3 | h3 | h3 <;> omega

/-- axis 2, probe on the y leg `(x, y−1, z)` -/
theorem later_2 (hs : TS Lx Ly Lz a x y z) (ht : TS Lx Ly Lz b u v w)
    (hne : ¬ (a = b ∧ x = u ∧ y = v ∧ z = w))
    (hle : mu Ly Lz [a, x, y, z] ≤ mu Ly Lz [b, u, v, w]) (ha : a = 2)
    (hmem : [x, y - 1, z] ∈ triKeys Lx Ly Lz b u v w) : False := by
  have hlex := mu_lex hs.2.1 ht.2.1 hle
  have h3 := mem_triKeys hmem
  have hsv := hs.2.1
  have htv := ht.2.1
  unfold VertexLoc inE2 inE at hsv htv
  have htab := sgn_table (u := u) (v := v) (w := w) ht.1 (by omega)
  clear hmem hle hs ht
  subst ha
  generalize sgnX b = sx at *
  generalize sgnY b = sy at *
  generalize sgnZ b u v w = sz at *
  rcases htab with ⟨rfl, hf⟩ | ⟨rfl, hf⟩ | ⟨rfl, hf⟩ | ⟨rfl, hf⟩ <;> simp [rk] at hlex <;>
    rcases h3 with h3 | h3 | h3 <;> omega

/-- axis 1 where the triangle of axis 3 is not listed, probe on the x leg `(x−1, y, z)` -/
theorem later_1x (hs : TS Lx Ly Lz a x y z) (ht : TS Lx Ly Lz b u v w)
    (hne : ¬ (a = b ∧ x = u ∧ y = v ∧ z = w))
    (hle : mu Ly Lz [a, x, y, z] ≤ mu Ly Lz [b, u, v, w]) (ha : a = 1)
    (hn : ¬ PT Lx Ly Lz 3 x y z)
    (hmem : [x - 1, y, z] ∈ triKeys Lx Ly Lz b u v w) : False := by
  have hlex := mu_lex hs.2.1 ht.2.1 hle
  have h3 := mem_triKeys hmem
  have hsv := hs.2.1
  have htv := ht.2.1
  have htp := ht.2.2.1
  unfold VertexLoc inE2 inE at hsv htv
  have htab := sgn_table (u := u) (v := v) (w := w) ht.1 (by omega)
  have hloc : b = 3 ∧ u = x ∧ v = y ∧ w = z := by
    clear hmem hle hs ht htp hn
    subst ha
    generalize sgnX b = sx at *
    generalize sgnY b = sy at *
    generalize sgnZ b u v w = sz at *
    rcases htab with ⟨rfl, hf⟩ | ⟨rfl, hf⟩ | ⟨rfl, hf⟩ | ⟨rfl, hf⟩ <;> simp [rk] at hlex <;>
      rcases h3 with h3 | h3 | h3 <;> omega
  obtain ⟨rfl, rfl, rfl, rfl⟩ := hloc
  exact hn htp

/-- axis 1 where the triangle of axis 2 is not listed, probe on the y leg `(x, y−1, z)` -/
theorem later_1y (hs : TS Lx Ly Lz a x y z) (ht : TS Lx Ly Lz b u v w)
    (hne : ¬ (a = b ∧ x = u ∧ y = v ∧ z = w))
    (hle : mu Ly Lz [a, x, y, z] ≤ mu Ly Lz [b, u, v, w]) (ha : a = 1)
    (hn : ¬ PT Lx Ly Lz 2 x y z)
    (hmem : [x, y - 1, z] ∈ triKeys Lx Ly Lz b u v w) : False := by
  have hlex := mu_lex hs.2.1 ht.2.1 hle
  have h3 := mem_triKeys hmem
  have hsv := hs.2.1
  have htv := ht.2.1
  have htp := ht.2.2.1
  unfold VertexLoc inE2 inE at hsv htv
  have htab := sgn_table (u := u) (v := v) (w := w) ht.1 (by omega)
  have hloc : b = 2 ∧ u = x ∧ v = y ∧ w = z := by
    clear hmem hle hs ht htp hn
    subst ha
    generalize sgnX b = sx at *
    generalize sgnY b = sy at *
    generalize sgnZ b u v w = sz at *
    rcases htab with ⟨rfl, hf⟩ | ⟨rfl, hf⟩ | ⟨rfl, hf⟩ | ⟨rfl, hf⟩ <;> simp [rk] at hlex <;>
      rcases h3 with h3 | h3 | h3 <;> omega
  obtain ⟨rfl, rfl, rfl, rfl⟩ := hloc
  exact hn htp

/-- axis 0 in the last column, probe on the x leg `(x+1, y, z)` -/
theorem later_0x (hs : TS Lx Ly Lz a x y z) (ht : TS Lx Ly Lz b u v w)
    (hne : ¬ (a = b ∧ x = u ∧ y = v ∧ z = w))
    (hle : mu Ly Lz [a, x, y, z] ≤ mu Ly Lz [b, u, v, w]) (ha : a = 0)
    (hx : x = 2 * (Lx : Int) - 2)
    (hmem : [x + 1, y, z] ∈ triKeys Lx Ly Lz b u v w) : False := by
  have hlex := mu_lex hs.2.1 ht.2.1 hle
  have h3 := mem_triKeys hmem
  have hsv := hs.2.1
  have htv := ht.2.1
  unfold VertexLoc inE2 inE at hsv htv
  have htab := sgn_table (u := u) (v := v) (w := w) ht.1 (by omega)
  clear hmem hle hs ht
  subst ha
  generalize sgnX b = sx at *
  generalize sgnY b = sy at *
  generalize sgnZ b u v w = sz at *
  rcases htab with ⟨rfl, hf⟩ | ⟨rfl, hf⟩ | ⟨rfl, hf⟩ | ⟨rfl, hf⟩ <;> simp [rk] at hlex <;>
    rcases h3 with h3 | h3 | h3 <;> omega

/-- the upper triangle of axis 0, probe on the z leg `(x, y, z−1)` -/
theorem later_0d (hs : TS Lx Ly Lz a x y z) (ht : TS Lx Ly Lz b u v w)
    (hne : ¬ (a = b ∧ x = u ∧ y = v ∧ z = w))
    (hle : mu Ly Lz [a, x, y, z] ≤ mu Ly Lz [b, u, v, w]) (ha : a = 0)
    (hx : x ≠ 2 * (Lx : Int) - 2) (hc : (x + y + z) % 4 = 2)
    (hmem : [x, y, z - 1] ∈ triKeys Lx Ly Lz b u v w) : False := by
  have hlex := mu_lex hs.2.1 ht.2.1 hle
  have h3 := mem_triKeys hmem
  have hsv := hs.2.1
  have htv := ht.2.1
  have hsp := hs.2.2.1
  have htc := ht.2.2.2
  unfold VertexLoc inE2 inE at hsv htv
  have htab := sgn_table (u := u) (v := v) (w := w) ht.1 (by omega)
  -- the only candidate: the lower triangle of axis 0 below, which is not selected here
  have hloc : b = 0 ∧ u = x ∧ v = y ∧ w + 2 = z ∧ z ≤ w + 2 := by
    clear hmem hle hs ht hsp htc
    subst ha
    generalize sgnX b = sx at *
    generalize sgnY b = sy at *
    generalize sgnZ b u v w = sz at *
    rcases htab with ⟨rfl, hf⟩ | ⟨rfl, hf⟩ | ⟨rfl, hf⟩ | ⟨rfl, hf⟩ <;> simp [rk] at hlex <;>
      rcases h3 with h3 | h3 | h3 <;> omega
  obtain ⟨rfl, rfl, rfl, rfl, _⟩ := hloc
  subst ha
  unfold SelC QC QY QX at htc
  simp only [rk] at hlex
  rcases htc with h | h | ⟨h, _⟩ | ⟨_, h | ⟨h, _⟩ | ⟨_, _, h⟩ | h | h | h⟩
  · omega
  · omega
  · omega
  · exact hx h
  · omega
  · exact h hsp
  · omega
  · omega
  · omega

/-- the lower triangle of axis 0 whose upper partner is not listed, probe on the z leg
    `(x, y, z+1)` -/
theorem later_0u (hs : TS Lx Ly Lz a x y z) (ht : TS Lx Ly Lz b u v w)
    (hne : ¬ (a = b ∧ x = u ∧ y = v ∧ z = w))
    (hle : mu Ly Lz [a, x, y, z] ≤ mu Ly Lz [b, u, v, w]) (ha : a = 0)
    (hc : (x + y + z) % 4 = 0) (hn : ¬ PT Lx Ly Lz 0 x y (z + 2))
    (hmem : [x, y, z + 1] ∈ triKeys Lx Ly Lz b u v w) : False := by
  have hlex := mu_lex hs.2.1 ht.2.1 hle
  have h3 := mem_triKeys hmem
  have hsv := hs.2.1
  have htv := ht.2.1
  have htp := ht.2.2.1
  unfold VertexLoc inE2 inE at hsv htv
  have htab := sgn_table (u := u) (v := v) (w := w) ht.1 (by omega)
  have hloc : b = 0 ∧ u = x ∧ v = y ∧ w = z + 2 := by
    clear hmem hle hs ht htp hn
    subst ha
    generalize sgnX b = sx at *
    generalize sgnY b = sy at *
    generalize sgnZ b u v w = sz at *
    rcases htab with ⟨rfl, hf⟩ | ⟨rfl, hf⟩ | ⟨rfl, hf⟩ | ⟨rfl, hf⟩ <;> simp [rk] at hlex <;>
      rcases h3 with h3 | h3 | h3 <;> omega
  obtain ⟨rfl, rfl, rfl, rfl⟩ := hloc
  exact hn htp

end

end Panqec.HollowRhombicCode
