/-
Color488Code, all sizes `Lx, Ly ≥ 1`: two faces (equal or not, seam copies included) share an even
number of qubits; every row / column of qubits meets every face in an even number of qubits
(the corners of a face come in pairs with the same `x`, and in pairs with the same `y`).
Core Lean only.
-/
import PanqecVerif.Proofs.LatColor488CodeB

set_option linter.unusedVariables false

namespace Panqec.Color488Code
open Panqec.Lat2D Panqec.Color

theorem diff_mod4 {L : Nat} {a b : Int} (ha : a % 4 = 0) (hb : b % 4 = 0) :
    ((b - a) % (8 * (L : Int))) % 4 = 0 := by
  rw [Int.emod_emod_of_dvd _ (⟨2 * (L : Int), by omega⟩ : (4 : Int) ∣ 8 * (L : Int))]
  omega

theorem sq_sq_even {Lx Ly : Nat} (hx : 1 ≤ Lx) (hy : 1 ≤ Ly) {ax ay bx by' : Int} (ha : IsF Lx Ly ax ay)
    (hb : IsF Lx Ly bx by') : interCount (sqC Lx Ly ax ay) (sqC Lx Ly bx by') % 2 = 0 := by
  have h4x := diff_mod4 (L := Lx) ha.1 hb.1
  have h4y := diff_mod4 (L := Ly) ha.2.1 hb.2.1
  show interCount [[(ax + -1) % (8 * (Lx : Int)), (ay + -1) % (8 * (Ly : Int))],
    [(ax + 1) % (8 * (Lx : Int)), (ay + 1) % (8 * (Ly : Int))],
    [(ax + -1) % (8 * (Lx : Int)), (ay + 1) % (8 * (Ly : Int))],
    [(ax + 1) % (8 * (Lx : Int)), (ay + -1) % (8 * (Ly : Int))]] (sqC Lx Ly bx by') % 2 = 0
  rw [interCount_4]
  simp only [ss1 hx hy h4x h4y, ss2 hx hy h4x h4y, ss3 hx hy h4x h4y, ss4 hx hy h4x h4y]
  generalize (if (bx - ax) % (8 * (Lx : Int)) = 0 ∧ (by' - ay) % (8 * (Ly : Int)) = 0 then 1 else 0)
    = t
  omega

theorem oc_sq_even {Lx Ly : Nat} (hx : 1 ≤ Lx) (hy : 1 ≤ Ly) {ax ay bx by' : Int} (ha : IsF Lx Ly ax ay)
    (hb : IsF Lx Ly bx by') : interCount (ocC Lx Ly ax ay) (sqC Lx Ly bx by') % 2 = 0 := by
  have h4x := diff_mod4 (L := Lx) ha.1 hb.1
  have h4y := diff_mod4 (L := Ly) ha.2.1 hb.2.1
  show interCount [[(ax + 1) % (8 * (Lx : Int)), (ay + -3) % (8 * (Ly : Int))],
    [(ax + 3) % (8 * (Lx : Int)), (ay + -1) % (8 * (Ly : Int))],
    [(ax + 3) % (8 * (Lx : Int)), (ay + 1) % (8 * (Ly : Int))],
    [(ax + 1) % (8 * (Lx : Int)), (ay + 3) % (8 * (Ly : Int))],
    [(ax + -1) % (8 * (Lx : Int)), (ay + 3) % (8 * (Ly : Int))],
    [(ax + -3) % (8 * (Lx : Int)), (ay + 1) % (8 * (Ly : Int))],
    [(ax + -3) % (8 * (Lx : Int)), (ay + -1) % (8 * (Ly : Int))],
    [(ax + -1) % (8 * (Lx : Int)), (ay + -3) % (8 * (Ly : Int))]] (sqC Lx Ly bx by') % 2 = 0
  rw [interCount_8]
  simp only [os1 hx hy h4x h4y, os2 hx hy h4x h4y, os3 hx hy h4x h4y, os4 hx hy h4x h4y, os5 hx hy h4x h4y,
    os6 hx hy h4x h4y, os7 hx hy h4x h4y, os8 hx hy h4x h4y]
  generalize (if (bx - ax) % (8 * (Lx : Int)) = 0 ∧ (by' - ay) % (8 * (Ly : Int)) = 8 * (Ly : Int) - 4
    then 1 else 0) = t1
  generalize (if (bx - ax) % (8 * (Lx : Int)) = 4 ∧ (by' - ay) % (8 * (Ly : Int)) = 0
    then 1 else 0) = t2
  generalize (if (bx - ax) % (8 * (Lx : Int)) = 0 ∧ (by' - ay) % (8 * (Ly : Int)) = 4
    then 1 else 0) = t3
  generalize (if (bx - ax) % (8 * (Lx : Int)) = 8 * (Lx : Int) - 4 ∧ (by' - ay) % (8 * (Ly : Int)) = 0
    then 1 else 0) = t4
  omega

theorem oc_oc_even {Lx Ly : Nat} (hx : 1 ≤ Lx) (hy : 1 ≤ Ly) {ax ay bx by' : Int} (ha : IsF Lx Ly ax ay)
    (hb : IsF Lx Ly bx by') : interCount (ocC Lx Ly ax ay) (ocC Lx Ly bx by') % 2 = 0 := by
  have h4x := diff_mod4 (L := Lx) ha.1 hb.1
  have h4y := diff_mod4 (L := Ly) ha.2.1 hb.2.1
  show interCount [[(ax + 1) % (8 * (Lx : Int)), (ay + -3) % (8 * (Ly : Int))],
    [(ax + 3) % (8 * (Lx : Int)), (ay + -1) % (8 * (Ly : Int))],
    [(ax + 3) % (8 * (Lx : Int)), (ay + 1) % (8 * (Ly : Int))],
    [(ax + 1) % (8 * (Lx : Int)), (ay + 3) % (8 * (Ly : Int))],
    [(ax + -1) % (8 * (Lx : Int)), (ay + 3) % (8 * (Ly : Int))],
    [(ax + -3) % (8 * (Lx : Int)), (ay + 1) % (8 * (Ly : Int))],
    [(ax + -3) % (8 * (Lx : Int)), (ay + -1) % (8 * (Ly : Int))],
    [(ax + -1) % (8 * (Lx : Int)), (ay + -3) % (8 * (Ly : Int))]] (ocC Lx Ly bx by') % 2 = 0
  rw [interCount_8]
  simp only [oo1 hx hy h4x h4y, oo2 hx hy h4x h4y, oo3 hx hy h4x h4y, oo4 hx hy h4x h4y, oo5 hx hy h4x h4y,
    oo6 hx hy h4x h4y, oo7 hx hy h4x h4y, oo8 hx hy h4x h4y]
  generalize (if ((bx - ax) % (8 * (Lx : Int)) = 0 ∧ (by' - ay) % (8 * (Ly : Int)) = 0) ∨
    ((bx - ax) % (8 * (Lx : Int)) = 4 ∧ (by' - ay) % (8 * (Ly : Int)) = 8 * (Ly : Int) - 4)
    then 1 else 0) = t1
  generalize (if ((bx - ax) % (8 * (Lx : Int)) = 0 ∧ (by' - ay) % (8 * (Ly : Int)) = 0) ∨
    ((bx - ax) % (8 * (Lx : Int)) = 4 ∧ (by' - ay) % (8 * (Ly : Int)) = 4)
    then 1 else 0) = t2
  generalize (if ((bx - ax) % (8 * (Lx : Int)) = 8 * (Lx : Int) - 4 ∧ (by' - ay) % (8 * (Ly : Int)) = 4) ∨
    ((bx - ax) % (8 * (Lx : Int)) = 0 ∧ (by' - ay) % (8 * (Ly : Int)) = 0)
    then 1 else 0) = t3
  generalize (if ((bx - ax) % (8 * (Lx : Int)) = 8 * (Lx : Int) - 4 ∧
      (by' - ay) % (8 * (Ly : Int)) = 8 * (Ly : Int) - 4) ∨
    ((bx - ax) % (8 * (Lx : Int)) = 0 ∧ (by' - ay) % (8 * (Ly : Int)) = 0)
    then 1 else 0) = t4
  omega

/-- two faces (equal or not) share an even number of qubits -/
theorem face_face_even {Lx Ly : Nat} (hx : 1 ≤ Lx) (hy : 1 ≤ Ly) {ax ay bx by' : Int} (ha : IsF Lx Ly ax ay)
    (hb : IsF Lx Ly bx by') : interCount (supp Lx Ly ax ay) (supp Lx Ly bx by') % 2 = 0 := by
  unfold supp
  by_cases h1 : (ax + ay) % 8 = 0 <;> by_cases h2 : (bx + by') % 8 = 0
  · rw [if_pos h1, if_pos h2]; exact sq_sq_even hx hy ha hb
  · rw [if_pos h1, if_neg h2, interCount_comm _ _ (nodup_sqC hx hy ..) (nodup_ocC hx hy ..)]
    exact oc_sq_even hx hy hb ha
  · rw [if_neg h1, if_pos h2]; exact oc_sq_even hx hy ha hb
  · rw [if_neg h1, if_neg h2]; exact oc_oc_even hx hy ha hb

/-! ### rows and columns of qubits -/

/-- a set of qubits described by a predicate on the coordinates -/
theorem interCount_pred (A K : List Coord) (π : Coord → Bool) (Q : List Coord)
    (hA : ∀ q ∈ A, q ∈ Q) (hK : ∀ q, q ∈ K ↔ (q ∈ Q ∧ π q = true)) :
    interCount A K = A.countP π := by
  unfold interCount
  apply List.countP_congr
  intro q hq
  simp only [List.contains_eq_mem, decide_eq_true_eq, hK]
  exact ⟨fun h => h.2, fun h => ⟨hA q hq, h⟩⟩

theorem sq_pairs (π : Coord → Bool) (a a' b b' : Int)
    (h : (∀ a b b', π [a, b] = π [a, b']) ∨ (∀ a a' b, π [a, b] = π [a', b])) :
    List.countP π [[a, b], [a', b'], [a, b'], [a', b]] % 2 = 0 := by
  simp only [List.countP_cons, List.countP_nil]
  rcases h with h | h
  · rw [h a b b', h a' b' b]; omega
  · rw [h a a' b, h a a' b']; omega

theorem oc_pairs (π : Coord → Bool) (a1 a3 n1 n3 b1 b3 m1 m3 : Int)
    (h : (∀ a b b', π [a, b] = π [a, b']) ∨ (∀ a a' b, π [a, b] = π [a', b])) :
    List.countP π [[a1, m3], [a3, m1], [a3, b1], [a1, b3], [n1, b3], [n3, b1], [n3, m1], [n1, m3]]
      % 2 = 0 := by
  simp only [List.countP_cons, List.countP_nil]
  rcases h with h | h
  · rw [h a1 m3 b3, h a3 m1 b1, h n1 m3 b3, h n3 m1 b1]; omega
  · rw [h a1 n1 m3, h a3 n3 m1, h a3 n3 b1, h a1 n1 b3]; omega

/-- the corners of a face come in pairs with the same `x` and in pairs with the same `y` -/
theorem countP_supp_even (Lx Ly : Nat) (x y : Int) (π : Coord → Bool)
    (h : (∀ a b b', π [a, b] = π [a, b']) ∨ (∀ a a' b, π [a, b] = π [a', b])) :
    (supp Lx Ly x y).countP π % 2 = 0 := by
  unfold supp
  by_cases h8 : (x + y) % 8 = 0
  · rw [if_pos h8]; exact sq_pairs π _ _ _ _ h
  · rw [if_neg h8]; exact oc_pairs π _ _ _ _ _ _ _ _ h

end Panqec.Color488Code
