/-
Planar2DCode, all sizes: all stabilizer generators are independent (triangular probes: the
X probe left of a vertex, the Z probe below a face).  Core Lean only.
-/
import PanqecVerif.Proofs.Lat2DRank
import PanqecVerif.Proofs.LatPlanar2DCodeC

set_option linter.unusedVariables false

namespace Panqec.Planar2DCode
open Panqec.Lat2D

/-- vertex `(x, y)`: `X` on the qubit `(x−1, y)`; face `(x, y)`: `Z` on the qubit `(x, y−1)` -/
def probe (s : Coord) : Coord × Pauli :=
  match s with
  | [x, y] => if x % 2 = 0 then ([x - 1, y], Pauli.X) else ([x, y - 1], Pauli.Z)
  | _ => ([], Pauli.I)

/-- vertices are ranked by `x`, faces by `y` -/
def rankOf (s : Coord) : Nat :=
  match s with
  | [x, y] => if x % 2 = 0 then x.toNat else y.toNat
  | _ => 0

theorem probe_count {Lx Ly : Nat} {x y x' y' : Int} (ht : [x', y'] ∈ stabs Lx Ly) :
    opAntiCount [probe [x, y]] ((lattice Lx Ly).getStab [x', y']) =
      if Pauli.anti (probe [x, y]).2 (letter x') = true ∧ (probe [x, y]).1 ∈ supp Lx Ly x' y'
      then 1 else 0 := by
  rw [getStab_eq ht]
  exact opAntiCount_probe _ _ _ _

theorem mem_supp {Lx Ly : Nat} {x y a b : Int} :
    [a, b] ∈ supp Lx Ly x y ↔
      (((a = x - 1 ∧ b = y) ∨ (a = x + 1 ∧ b = y) ∨ (a = x ∧ b = y - 1) ∨ (a = x ∧ b = y + 1)) ∧
        IsQ Lx Ly a b) := by
  unfold supp
  rw [List.mem_filter, mem_nbrs, isQubit_iff]

theorem triangular (Lx Ly : Nat) :
    TriangularProbes (lattice Lx Ly) (stabs Lx Ly) probe rankOf where
  on_qubits := by
    intro s hs
    obtain ⟨x, y, rfl, h⟩ := mem_stabs.mp hs
    unfold probe
    by_cases hp : x % 2 = 0
    · have hv := toV h hp
      unfold IsV at hv
      simp only [hp, if_true]
      refine ⟨?_, by decide⟩
      show [x - 1, y] ∈ qubits Lx Ly
      rw [mem_qubits']; unfold IsQ; omega
    · have hf := toF h (by omega)
      unfold IsF at hf
      simp only [hp, if_false]
      refine ⟨?_, by decide⟩
      show [x, y - 1] ∈ qubits Lx Ly
      rw [mem_qubits']; unfold IsQ; omega
  diag := by
    intro s hs
    obtain ⟨x, y, rfl, h⟩ := mem_stabs.mp hs
    rw [probe_count hs]
    unfold probe
    by_cases hp : x % 2 = 0
    · have hv := toV h hp
      unfold IsV at hv
      have hl : letter x = Pauli.Z := by unfold letter; simp [hp]
      simp only [hp, if_true, hl]
      rw [if_pos ⟨by decide, by rw [mem_supp]; unfold IsQ; omega⟩]
    · have hf := toF h (by omega)
      unfold IsF at hf
      have hl : letter x = Pauli.X := by unfold letter; simp [hp]
      simp only [hp, if_false, hl]
      rw [if_pos ⟨by decide, by rw [mem_supp]; unfold IsQ; omega⟩]
  later := by
    intro s hs t ht hne hle
    obtain ⟨x, y, rfl, h⟩ := mem_stabs.mp hs
    obtain ⟨x', y', rfl, h'⟩ := mem_stabs.mp ht
    have hne' : ¬ (x = x' ∧ y = y') := fun e => hne (by rw [e.1, e.2])
    rw [probe_count ht]
    unfold rankOf at hle
    unfold probe
    by_cases hp : x % 2 = 0 <;> by_cases hp' : x' % 2 = 0
    · have hv := toV h hp; have hv' := toV h' hp'
      unfold IsV at hv hv'
      simp only [hp, hp', if_true] at hle ⊢
      rw [if_neg (by rw [mem_supp]; omega)]
    · have hl : letter x' = Pauli.X := by unfold letter; simp [hp']
      simp only [hp, if_true, hl]
      rw [if_neg (fun e => absurd e.1 (by decide))]
    · have hl : letter x' = Pauli.Z := by unfold letter; simp [hp']
      simp only [hp, if_false, hl]
      rw [if_neg (fun e => absurd e.1 (by decide))]
    · have hf := toF h (by omega); have hf' := toF h' (by omega)
      unfold IsF at hf hf'
      simp only [hp, hp', if_false] at hle ⊢
      rw [if_neg (by rw [mem_supp]; omega)]

/-- every non-trivial product of stabilizer generators is non-trivial: the generators at all
    stabilizer locations are independent, for every size -/
theorem indep_all (Lx Ly : Nat) : IndepGenerators (lattice Lx Ly) (stabs Lx Ly) :=
  indep_of_triangular (triangular Lx Ly)

/-- the number of (independent) generators is `n − k` -/
theorem length_stabs_eq {Lx Ly : Nat} (hx : 1 ≤ Lx) (hy : 1 ≤ Ly) :
    (stabs Lx Ly).length = (qubits Lx Ly).length - 1 := by
  rw [length_stabs, length_qubits]
  obtain ⟨a, rfl⟩ : ∃ a, Lx = a + 1 := ⟨Lx - 1, by omega⟩
  obtain ⟨b, rfl⟩ : ∃ b, Ly = b + 1 := ⟨Ly - 1, by omega⟩
  simp only [Nat.add_sub_cancel, Nat.add_mul, Nat.mul_add, Nat.mul_one, Nat.one_mul]
  omega

end Panqec.Planar2DCode
