/-
Color488Code, all sizes `Lx, Ly ≥ 1`: overlaps of two faces.  With `e = ((bx − ax) % 8Lx, (by − ay) % 8Ly)`
the wrapped corner `a + d` of the face `a` is a corner of the face `b` iff `e = d − d'` (mod the periods) for
a delta `d'` of `b`; as `e ≡ 0 (mod 4)` only the differences `0, ±4` occur, and the corners of `a`
fall into pairs with the same condition: two faces share an even number of qubits (0, 2, 4, 8 —
all 8 for the two octagons of `Lx = Ly = 1`).  The membership lemmas are generated (one per corner and
per type of `b`).  Core Lean only.
-/
import PanqecVerif.Proofs.LatColor488CodeA

set_option linter.unusedVariables false

namespace Panqec.Color488Code
open Panqec.Lat2D Panqec.Color

theorem interCount_8 (c1 c2 c3 c4 c5 c6 c7 c8 : Coord) (B : List Coord) :
    interCount [c1, c2, c3, c4, c5, c6, c7, c8] B =
      (if c1 ∈ B then 1 else 0) + (if c2 ∈ B then 1 else 0) + (if c3 ∈ B then 1 else 0) +
      (if c4 ∈ B then 1 else 0) + (if c5 ∈ B then 1 else 0) + (if c6 ∈ B then 1 else 0) +
      (if c7 ∈ B then 1 else 0) + (if c8 ∈ B then 1 else 0) := by
  unfold interCount
  simp only [List.countP_cons, List.countP_nil, List.contains_eq_mem, decide_eq_true_eq]
  omega

section
variable {Lx Ly : Nat} {ax ay bx by' : Int}

theorem oo1 (hx : 1 ≤ Lx) (hy : 1 ≤ Ly) (h4x : ((bx - ax) % (8 * (Lx : Int))) % 4 = 0)
    (h4y : ((by' - ay) % (8 * (Ly : Int))) % 4 = 0) :
    [(ax + 1) % (8 * (Lx : Int)), (ay + -3) % (8 * (Ly : Int))] ∈ ocC Lx Ly bx by' ↔
      (((bx - ax) % (8 * (Lx : Int)) = 0 ∧ (by' - ay) % (8 * (Ly : Int)) = 0) ∨ ((bx - ax) % (8 * (Lx : Int)) = 4 ∧ (by' - ay) % (8 * (Ly : Int)) = 8 * (Ly : Int) - 4)) := by
  obtain ⟨c0, c2, c4, c6, n2, n4, n6⟩ := consts hx
  obtain ⟨d0, d2, d4, d6, m2, m4, m6⟩ := consts hy
  unfold ocC
  simp only [List.mem_cons, List.cons.injEq, and_true, List.not_mem_nil, or_false, emod_bridge,
    Int.reduceSub, Int.reduceNeg]
  generalize (bx - ax) % (8 * (Lx : Int)) = ex at *
  generalize (by' - ay) % (8 * (Ly : Int)) = ey at *
  omega

theorem oo2 (hx : 1 ≤ Lx) (hy : 1 ≤ Ly) (h4x : ((bx - ax) % (8 * (Lx : Int))) % 4 = 0)
    (h4y : ((by' - ay) % (8 * (Ly : Int))) % 4 = 0) :
    [(ax + 3) % (8 * (Lx : Int)), (ay + -1) % (8 * (Ly : Int))] ∈ ocC Lx Ly bx by' ↔
      (((bx - ax) % (8 * (Lx : Int)) = 0 ∧ (by' - ay) % (8 * (Ly : Int)) = 0) ∨ ((bx - ax) % (8 * (Lx : Int)) = 4 ∧ (by' - ay) % (8 * (Ly : Int)) = 8 * (Ly : Int) - 4)) := by
  obtain ⟨c0, c2, c4, c6, n2, n4, n6⟩ := consts hx
  obtain ⟨d0, d2, d4, d6, m2, m4, m6⟩ := consts hy
  unfold ocC
  simp only [List.mem_cons, List.cons.injEq, and_true, List.not_mem_nil, or_false, emod_bridge,
    Int.reduceSub, Int.reduceNeg]
  generalize (bx - ax) % (8 * (Lx : Int)) = ex at *
  generalize (by' - ay) % (8 * (Ly : Int)) = ey at *
  omega

theorem oo3 (hx : 1 ≤ Lx) (hy : 1 ≤ Ly) (h4x : ((bx - ax) % (8 * (Lx : Int))) % 4 = 0)
    (h4y : ((by' - ay) % (8 * (Ly : Int))) % 4 = 0) :
    [(ax + 3) % (8 * (Lx : Int)), (ay + 1) % (8 * (Ly : Int))] ∈ ocC Lx Ly bx by' ↔
      (((bx - ax) % (8 * (Lx : Int)) = 0 ∧ (by' - ay) % (8 * (Ly : Int)) = 0) ∨ ((bx - ax) % (8 * (Lx : Int)) = 4 ∧ (by' - ay) % (8 * (Ly : Int)) = 4)) := by
  obtain ⟨c0, c2, c4, c6, n2, n4, n6⟩ := consts hx
  obtain ⟨d0, d2, d4, d6, m2, m4, m6⟩ := consts hy
  unfold ocC
  simp only [List.mem_cons, List.cons.injEq, and_true, List.not_mem_nil, or_false, emod_bridge,
    Int.reduceSub, Int.reduceNeg]
  generalize (bx - ax) % (8 * (Lx : Int)) = ex at *
  generalize (by' - ay) % (8 * (Ly : Int)) = ey at *
  omega

theorem oo4 (hx : 1 ≤ Lx) (hy : 1 ≤ Ly) (h4x : ((bx - ax) % (8 * (Lx : Int))) % 4 = 0)
    (h4y : ((by' - ay) % (8 * (Ly : Int))) % 4 = 0) :
    [(ax + 1) % (8 * (Lx : Int)), (ay + 3) % (8 * (Ly : Int))] ∈ ocC Lx Ly bx by' ↔
      (((bx - ax) % (8 * (Lx : Int)) = 0 ∧ (by' - ay) % (8 * (Ly : Int)) = 0) ∨ ((bx - ax) % (8 * (Lx : Int)) = 4 ∧ (by' - ay) % (8 * (Ly : Int)) = 4)) := by
  obtain ⟨c0, c2, c4, c6, n2, n4, n6⟩ := consts hx
  obtain ⟨d0, d2, d4, d6, m2, m4, m6⟩ := consts hy
  unfold ocC
  simp only [List.mem_cons, List.cons.injEq, and_true, List.not_mem_nil, or_false, emod_bridge,
    Int.reduceSub, Int.reduceNeg]
  generalize (bx - ax) % (8 * (Lx : Int)) = ex at *
  generalize (by' - ay) % (8 * (Ly : Int)) = ey at *
  omega

theorem oo5 (hx : 1 ≤ Lx) (hy : 1 ≤ Ly) (h4x : ((bx - ax) % (8 * (Lx : Int))) % 4 = 0)
    (h4y : ((by' - ay) % (8 * (Ly : Int))) % 4 = 0) :
    [(ax + -1) % (8 * (Lx : Int)), (ay + 3) % (8 * (Ly : Int))] ∈ ocC Lx Ly bx by' ↔
      (((bx - ax) % (8 * (Lx : Int)) = 8 * (Lx : Int) - 4 ∧ (by' - ay) % (8 * (Ly : Int)) = 4) ∨ ((bx - ax) % (8 * (Lx : Int)) = 0 ∧ (by' - ay) % (8 * (Ly : Int)) = 0)) := by
  obtain ⟨c0, c2, c4, c6, n2, n4, n6⟩ := consts hx
  obtain ⟨d0, d2, d4, d6, m2, m4, m6⟩ := consts hy
  unfold ocC
  simp only [List.mem_cons, List.cons.injEq, and_true, List.not_mem_nil, or_false, emod_bridge,
    Int.reduceSub, Int.reduceNeg]
  generalize (bx - ax) % (8 * (Lx : Int)) = ex at *
  generalize (by' - ay) % (8 * (Ly : Int)) = ey at *
  omega

theorem oo6 (hx : 1 ≤ Lx) (hy : 1 ≤ Ly) (h4x : ((bx - ax) % (8 * (Lx : Int))) % 4 = 0)
    (h4y : ((by' - ay) % (8 * (Ly : Int))) % 4 = 0) :
    [(ax + -3) % (8 * (Lx : Int)), (ay + 1) % (8 * (Ly : Int))] ∈ ocC Lx Ly bx by' ↔
      (((bx - ax) % (8 * (Lx : Int)) = 8 * (Lx : Int) - 4 ∧ (by' - ay) % (8 * (Ly : Int)) = 4) ∨ ((bx - ax) % (8 * (Lx : Int)) = 0 ∧ (by' - ay) % (8 * (Ly : Int)) = 0)) := by
  obtain ⟨c0, c2, c4, c6, n2, n4, n6⟩ := consts hx
  obtain ⟨d0, d2, d4, d6, m2, m4, m6⟩ := consts hy
  unfold ocC
  simp only [List.mem_cons, List.cons.injEq, and_true, List.not_mem_nil, or_false, emod_bridge,
    Int.reduceSub, Int.reduceNeg]
  generalize (bx - ax) % (8 * (Lx : Int)) = ex at *
  generalize (by' - ay) % (8 * (Ly : Int)) = ey at *
  omega

theorem oo7 (hx : 1 ≤ Lx) (hy : 1 ≤ Ly) (h4x : ((bx - ax) % (8 * (Lx : Int))) % 4 = 0)
    (h4y : ((by' - ay) % (8 * (Ly : Int))) % 4 = 0) :
    [(ax + -3) % (8 * (Lx : Int)), (ay + -1) % (8 * (Ly : Int))] ∈ ocC Lx Ly bx by' ↔
      (((bx - ax) % (8 * (Lx : Int)) = 8 * (Lx : Int) - 4 ∧ (by' - ay) % (8 * (Ly : Int)) = 8 * (Ly : Int) - 4) ∨ ((bx - ax) % (8 * (Lx : Int)) = 0 ∧ (by' - ay) % (8 * (Ly : Int)) = 0)) := by
  obtain ⟨c0, c2, c4, c6, n2, n4, n6⟩ := consts hx
  obtain ⟨d0, d2, d4, d6, m2, m4, m6⟩ := consts hy
  unfold ocC
  simp only [List.mem_cons, List.cons.injEq, and_true, List.not_mem_nil, or_false, emod_bridge,
    Int.reduceSub, Int.reduceNeg]
  generalize (bx - ax) % (8 * (Lx : Int)) = ex at *
  generalize (by' - ay) % (8 * (Ly : Int)) = ey at *
  omega

theorem oo8 (hx : 1 ≤ Lx) (hy : 1 ≤ Ly) (h4x : ((bx - ax) % (8 * (Lx : Int))) % 4 = 0)
    (h4y : ((by' - ay) % (8 * (Ly : Int))) % 4 = 0) :
    [(ax + -1) % (8 * (Lx : Int)), (ay + -3) % (8 * (Ly : Int))] ∈ ocC Lx Ly bx by' ↔
      (((bx - ax) % (8 * (Lx : Int)) = 8 * (Lx : Int) - 4 ∧ (by' - ay) % (8 * (Ly : Int)) = 8 * (Ly : Int) - 4) ∨ ((bx - ax) % (8 * (Lx : Int)) = 0 ∧ (by' - ay) % (8 * (Ly : Int)) = 0)) := by
  obtain ⟨c0, c2, c4, c6, n2, n4, n6⟩ := consts hx
  obtain ⟨d0, d2, d4, d6, m2, m4, m6⟩ := consts hy
  unfold ocC
  simp only [List.mem_cons, List.cons.injEq, and_true, List.not_mem_nil, or_false, emod_bridge,
    Int.reduceSub, Int.reduceNeg]
  generalize (bx - ax) % (8 * (Lx : Int)) = ex at *
  generalize (by' - ay) % (8 * (Ly : Int)) = ey at *
  omega

theorem os1 (hx : 1 ≤ Lx) (hy : 1 ≤ Ly) (h4x : ((bx - ax) % (8 * (Lx : Int))) % 4 = 0)
    (h4y : ((by' - ay) % (8 * (Ly : Int))) % 4 = 0) :
    [(ax + 1) % (8 * (Lx : Int)), (ay + -3) % (8 * (Ly : Int))] ∈ sqC Lx Ly bx by' ↔
      (((bx - ax) % (8 * (Lx : Int)) = 0 ∧ (by' - ay) % (8 * (Ly : Int)) = 8 * (Ly : Int) - 4)) := by
  obtain ⟨c0, c2, c4, c6, n2, n4, n6⟩ := consts hx
  obtain ⟨d0, d2, d4, d6, m2, m4, m6⟩ := consts hy
  unfold sqC
  simp only [List.mem_cons, List.cons.injEq, and_true, List.not_mem_nil, or_false, emod_bridge,
    Int.reduceSub, Int.reduceNeg]
  generalize (bx - ax) % (8 * (Lx : Int)) = ex at *
  generalize (by' - ay) % (8 * (Ly : Int)) = ey at *
  omega

theorem os2 (hx : 1 ≤ Lx) (hy : 1 ≤ Ly) (h4x : ((bx - ax) % (8 * (Lx : Int))) % 4 = 0)
    (h4y : ((by' - ay) % (8 * (Ly : Int))) % 4 = 0) :
    [(ax + 3) % (8 * (Lx : Int)), (ay + -1) % (8 * (Ly : Int))] ∈ sqC Lx Ly bx by' ↔
      (((bx - ax) % (8 * (Lx : Int)) = 4 ∧ (by' - ay) % (8 * (Ly : Int)) = 0)) := by
  obtain ⟨c0, c2, c4, c6, n2, n4, n6⟩ := consts hx
  obtain ⟨d0, d2, d4, d6, m2, m4, m6⟩ := consts hy
  unfold sqC
  simp only [List.mem_cons, List.cons.injEq, and_true, List.not_mem_nil, or_false, emod_bridge,
    Int.reduceSub, Int.reduceNeg]
  generalize (bx - ax) % (8 * (Lx : Int)) = ex at *
  generalize (by' - ay) % (8 * (Ly : Int)) = ey at *
  omega

theorem os3 (hx : 1 ≤ Lx) (hy : 1 ≤ Ly) (h4x : ((bx - ax) % (8 * (Lx : Int))) % 4 = 0)
    (h4y : ((by' - ay) % (8 * (Ly : Int))) % 4 = 0) :
    [(ax + 3) % (8 * (Lx : Int)), (ay + 1) % (8 * (Ly : Int))] ∈ sqC Lx Ly bx by' ↔
      (((bx - ax) % (8 * (Lx : Int)) = 4 ∧ (by' - ay) % (8 * (Ly : Int)) = 0)) := by
  obtain ⟨c0, c2, c4, c6, n2, n4, n6⟩ := consts hx
  obtain ⟨d0, d2, d4, d6, m2, m4, m6⟩ := consts hy
  unfold sqC
  simp only [List.mem_cons, List.cons.injEq, and_true, List.not_mem_nil, or_false, emod_bridge,
    Int.reduceSub, Int.reduceNeg]
  generalize (bx - ax) % (8 * (Lx : Int)) = ex at *
  generalize (by' - ay) % (8 * (Ly : Int)) = ey at *
  omega

theorem os4 (hx : 1 ≤ Lx) (hy : 1 ≤ Ly) (h4x : ((bx - ax) % (8 * (Lx : Int))) % 4 = 0)
    (h4y : ((by' - ay) % (8 * (Ly : Int))) % 4 = 0) :
    [(ax + 1) % (8 * (Lx : Int)), (ay + 3) % (8 * (Ly : Int))] ∈ sqC Lx Ly bx by' ↔
      (((bx - ax) % (8 * (Lx : Int)) = 0 ∧ (by' - ay) % (8 * (Ly : Int)) = 4)) := by
  obtain ⟨c0, c2, c4, c6, n2, n4, n6⟩ := consts hx
  obtain ⟨d0, d2, d4, d6, m2, m4, m6⟩ := consts hy
  unfold sqC
  simp only [List.mem_cons, List.cons.injEq, and_true, List.not_mem_nil, or_false, emod_bridge,
    Int.reduceSub, Int.reduceNeg]
  generalize (bx - ax) % (8 * (Lx : Int)) = ex at *
  generalize (by' - ay) % (8 * (Ly : Int)) = ey at *
  omega

theorem os5 (hx : 1 ≤ Lx) (hy : 1 ≤ Ly) (h4x : ((bx - ax) % (8 * (Lx : Int))) % 4 = 0)
    (h4y : ((by' - ay) % (8 * (Ly : Int))) % 4 = 0) :
    [(ax + -1) % (8 * (Lx : Int)), (ay + 3) % (8 * (Ly : Int))] ∈ sqC Lx Ly bx by' ↔
      (((bx - ax) % (8 * (Lx : Int)) = 0 ∧ (by' - ay) % (8 * (Ly : Int)) = 4)) := by
  obtain ⟨c0, c2, c4, c6, n2, n4, n6⟩ := consts hx
  obtain ⟨d0, d2, d4, d6, m2, m4, m6⟩ := consts hy
  unfold sqC
  simp only [List.mem_cons, List.cons.injEq, and_true, List.not_mem_nil, or_false, emod_bridge,
    Int.reduceSub, Int.reduceNeg]
  generalize (bx - ax) % (8 * (Lx : Int)) = ex at *
  generalize (by' - ay) % (8 * (Ly : Int)) = ey at *
  omega

theorem os6 (hx : 1 ≤ Lx) (hy : 1 ≤ Ly) (h4x : ((bx - ax) % (8 * (Lx : Int))) % 4 = 0)
    (h4y : ((by' - ay) % (8 * (Ly : Int))) % 4 = 0) :
    [(ax + -3) % (8 * (Lx : Int)), (ay + 1) % (8 * (Ly : Int))] ∈ sqC Lx Ly bx by' ↔
      (((bx - ax) % (8 * (Lx : Int)) = 8 * (Lx : Int) - 4 ∧ (by' - ay) % (8 * (Ly : Int)) = 0)) := by
  obtain ⟨c0, c2, c4, c6, n2, n4, n6⟩ := consts hx
  obtain ⟨d0, d2, d4, d6, m2, m4, m6⟩ := consts hy
  unfold sqC
  simp only [List.mem_cons, List.cons.injEq, and_true, List.not_mem_nil, or_false, emod_bridge,
    Int.reduceSub, Int.reduceNeg]
  generalize (bx - ax) % (8 * (Lx : Int)) = ex at *
  generalize (by' - ay) % (8 * (Ly : Int)) = ey at *
  omega

theorem os7 (hx : 1 ≤ Lx) (hy : 1 ≤ Ly) (h4x : ((bx - ax) % (8 * (Lx : Int))) % 4 = 0)
    (h4y : ((by' - ay) % (8 * (Ly : Int))) % 4 = 0) :
    [(ax + -3) % (8 * (Lx : Int)), (ay + -1) % (8 * (Ly : Int))] ∈ sqC Lx Ly bx by' ↔
      (((bx - ax) % (8 * (Lx : Int)) = 8 * (Lx : Int) - 4 ∧ (by' - ay) % (8 * (Ly : Int)) = 0)) := by
  obtain ⟨c0, c2, c4, c6, n2, n4, n6⟩ := consts hx
  obtain ⟨d0, d2, d4, d6, m2, m4, m6⟩ := consts hy
  unfold sqC
  simp only [List.mem_cons, List.cons.injEq, and_true, List.not_mem_nil, or_false, emod_bridge,
    Int.reduceSub, Int.reduceNeg]
  generalize (bx - ax) % (8 * (Lx : Int)) = ex at *
  generalize (by' - ay) % (8 * (Ly : Int)) = ey at *
  omega

theorem os8 (hx : 1 ≤ Lx) (hy : 1 ≤ Ly) (h4x : ((bx - ax) % (8 * (Lx : Int))) % 4 = 0)
    (h4y : ((by' - ay) % (8 * (Ly : Int))) % 4 = 0) :
    [(ax + -1) % (8 * (Lx : Int)), (ay + -3) % (8 * (Ly : Int))] ∈ sqC Lx Ly bx by' ↔
      (((bx - ax) % (8 * (Lx : Int)) = 0 ∧ (by' - ay) % (8 * (Ly : Int)) = 8 * (Ly : Int) - 4)) := by
  obtain ⟨c0, c2, c4, c6, n2, n4, n6⟩ := consts hx
  obtain ⟨d0, d2, d4, d6, m2, m4, m6⟩ := consts hy
  unfold sqC
  simp only [List.mem_cons, List.cons.injEq, and_true, List.not_mem_nil, or_false, emod_bridge,
    Int.reduceSub, Int.reduceNeg]
  generalize (bx - ax) % (8 * (Lx : Int)) = ex at *
  generalize (by' - ay) % (8 * (Ly : Int)) = ey at *
  omega

theorem ss1 (hx : 1 ≤ Lx) (hy : 1 ≤ Ly) (h4x : ((bx - ax) % (8 * (Lx : Int))) % 4 = 0)
    (h4y : ((by' - ay) % (8 * (Ly : Int))) % 4 = 0) :
    [(ax + -1) % (8 * (Lx : Int)), (ay + -1) % (8 * (Ly : Int))] ∈ sqC Lx Ly bx by' ↔
      (((bx - ax) % (8 * (Lx : Int)) = 0 ∧ (by' - ay) % (8 * (Ly : Int)) = 0)) := by
  obtain ⟨c0, c2, c4, c6, n2, n4, n6⟩ := consts hx
  obtain ⟨d0, d2, d4, d6, m2, m4, m6⟩ := consts hy
  unfold sqC
  simp only [List.mem_cons, List.cons.injEq, and_true, List.not_mem_nil, or_false, emod_bridge,
    Int.reduceSub, Int.reduceNeg]
  generalize (bx - ax) % (8 * (Lx : Int)) = ex at *
  generalize (by' - ay) % (8 * (Ly : Int)) = ey at *
  omega

theorem ss2 (hx : 1 ≤ Lx) (hy : 1 ≤ Ly) (h4x : ((bx - ax) % (8 * (Lx : Int))) % 4 = 0)
    (h4y : ((by' - ay) % (8 * (Ly : Int))) % 4 = 0) :
    [(ax + 1) % (8 * (Lx : Int)), (ay + 1) % (8 * (Ly : Int))] ∈ sqC Lx Ly bx by' ↔
      (((bx - ax) % (8 * (Lx : Int)) = 0 ∧ (by' - ay) % (8 * (Ly : Int)) = 0)) := by
  obtain ⟨c0, c2, c4, c6, n2, n4, n6⟩ := consts hx
  obtain ⟨d0, d2, d4, d6, m2, m4, m6⟩ := consts hy
  unfold sqC
  simp only [List.mem_cons, List.cons.injEq, and_true, List.not_mem_nil, or_false, emod_bridge,
    Int.reduceSub, Int.reduceNeg]
  generalize (bx - ax) % (8 * (Lx : Int)) = ex at *
  generalize (by' - ay) % (8 * (Ly : Int)) = ey at *
  omega

theorem ss3 (hx : 1 ≤ Lx) (hy : 1 ≤ Ly) (h4x : ((bx - ax) % (8 * (Lx : Int))) % 4 = 0)
    (h4y : ((by' - ay) % (8 * (Ly : Int))) % 4 = 0) :
    [(ax + -1) % (8 * (Lx : Int)), (ay + 1) % (8 * (Ly : Int))] ∈ sqC Lx Ly bx by' ↔
      (((bx - ax) % (8 * (Lx : Int)) = 0 ∧ (by' - ay) % (8 * (Ly : Int)) = 0)) := by
  obtain ⟨c0, c2, c4, c6, n2, n4, n6⟩ := consts hx
  obtain ⟨d0, d2, d4, d6, m2, m4, m6⟩ := consts hy
  unfold sqC
  simp only [List.mem_cons, List.cons.injEq, and_true, List.not_mem_nil, or_false, emod_bridge,
    Int.reduceSub, Int.reduceNeg]
  generalize (bx - ax) % (8 * (Lx : Int)) = ex at *
  generalize (by' - ay) % (8 * (Ly : Int)) = ey at *
  omega

theorem ss4 (hx : 1 ≤ Lx) (hy : 1 ≤ Ly) (h4x : ((bx - ax) % (8 * (Lx : Int))) % 4 = 0)
    (h4y : ((by' - ay) % (8 * (Ly : Int))) % 4 = 0) :
    [(ax + 1) % (8 * (Lx : Int)), (ay + -1) % (8 * (Ly : Int))] ∈ sqC Lx Ly bx by' ↔
      (((bx - ax) % (8 * (Lx : Int)) = 0 ∧ (by' - ay) % (8 * (Ly : Int)) = 0)) := by
  obtain ⟨c0, c2, c4, c6, n2, n4, n6⟩ := consts hx
  obtain ⟨d0, d2, d4, d6, m2, m4, m6⟩ := consts hy
  unfold sqC
  simp only [List.mem_cons, List.cons.injEq, and_true, List.not_mem_nil, or_false, emod_bridge,
    Int.reduceSub, Int.reduceNeg]
  generalize (bx - ax) % (8 * (Lx : Int)) = ex at *
  generalize (by' - ay) % (8 * (Ly : Int)) = ey at *
  omega

/-! corners of a square `a` in an octagon `b` (used by the rank certificate) -/

theorem so1 (hx : 1 ≤ Lx) (hy : 1 ≤ Ly) (h4x : ((bx - ax) % (8 * (Lx : Int))) % 4 = 0)
    (h4y : ((by' - ay) % (8 * (Ly : Int))) % 4 = 0) :
    [(ax + -1) % (8 * (Lx : Int)), (ay + -1) % (8 * (Ly : Int))] ∈ ocC Lx Ly bx by' ↔
      (((bx - ax) % (8 * (Lx : Int)) = 8 * (Lx : Int) - 4 ∧ (by' - ay) % (8 * (Ly : Int)) = 0) ∨ ((bx - ax) % (8 * (Lx : Int)) = 0 ∧ (by' - ay) % (8 * (Ly : Int)) = 8 * (Ly : Int) - 4)) := by
  obtain ⟨c0, c2, c4, c6, n2, n4, n6⟩ := consts hx
  obtain ⟨d0, d2, d4, d6, m2, m4, m6⟩ := consts hy
  unfold ocC
  simp only [List.mem_cons, List.cons.injEq, and_true, List.not_mem_nil, or_false, emod_bridge,
    Int.reduceSub, Int.reduceNeg]
  generalize (bx - ax) % (8 * (Lx : Int)) = ex at *
  generalize (by' - ay) % (8 * (Ly : Int)) = ey at *
  omega

theorem so2 (hx : 1 ≤ Lx) (hy : 1 ≤ Ly) (h4x : ((bx - ax) % (8 * (Lx : Int))) % 4 = 0)
    (h4y : ((by' - ay) % (8 * (Ly : Int))) % 4 = 0) :
    [(ax + 1) % (8 * (Lx : Int)), (ay + 1) % (8 * (Ly : Int))] ∈ ocC Lx Ly bx by' ↔
      (((bx - ax) % (8 * (Lx : Int)) = 0 ∧ (by' - ay) % (8 * (Ly : Int)) = 4) ∨ ((bx - ax) % (8 * (Lx : Int)) = 4 ∧ (by' - ay) % (8 * (Ly : Int)) = 0)) := by
  obtain ⟨c0, c2, c4, c6, n2, n4, n6⟩ := consts hx
  obtain ⟨d0, d2, d4, d6, m2, m4, m6⟩ := consts hy
  unfold ocC
  simp only [List.mem_cons, List.cons.injEq, and_true, List.not_mem_nil, or_false, emod_bridge,
    Int.reduceSub, Int.reduceNeg]
  generalize (bx - ax) % (8 * (Lx : Int)) = ex at *
  generalize (by' - ay) % (8 * (Ly : Int)) = ey at *
  omega

theorem so3 (hx : 1 ≤ Lx) (hy : 1 ≤ Ly) (h4x : ((bx - ax) % (8 * (Lx : Int))) % 4 = 0)
    (h4y : ((by' - ay) % (8 * (Ly : Int))) % 4 = 0) :
    [(ax + -1) % (8 * (Lx : Int)), (ay + 1) % (8 * (Ly : Int))] ∈ ocC Lx Ly bx by' ↔
      (((bx - ax) % (8 * (Lx : Int)) = 8 * (Lx : Int) - 4 ∧ (by' - ay) % (8 * (Ly : Int)) = 0) ∨ ((bx - ax) % (8 * (Lx : Int)) = 0 ∧ (by' - ay) % (8 * (Ly : Int)) = 4)) := by
  obtain ⟨c0, c2, c4, c6, n2, n4, n6⟩ := consts hx
  obtain ⟨d0, d2, d4, d6, m2, m4, m6⟩ := consts hy
  unfold ocC
  simp only [List.mem_cons, List.cons.injEq, and_true, List.not_mem_nil, or_false, emod_bridge,
    Int.reduceSub, Int.reduceNeg]
  generalize (bx - ax) % (8 * (Lx : Int)) = ex at *
  generalize (by' - ay) % (8 * (Ly : Int)) = ey at *
  omega

theorem so4 (hx : 1 ≤ Lx) (hy : 1 ≤ Ly) (h4x : ((bx - ax) % (8 * (Lx : Int))) % 4 = 0)
    (h4y : ((by' - ay) % (8 * (Ly : Int))) % 4 = 0) :
    [(ax + 1) % (8 * (Lx : Int)), (ay + -1) % (8 * (Ly : Int))] ∈ ocC Lx Ly bx by' ↔
      (((bx - ax) % (8 * (Lx : Int)) = 0 ∧ (by' - ay) % (8 * (Ly : Int)) = 8 * (Ly : Int) - 4) ∨ ((bx - ax) % (8 * (Lx : Int)) = 4 ∧ (by' - ay) % (8 * (Ly : Int)) = 0)) := by
  obtain ⟨c0, c2, c4, c6, n2, n4, n6⟩ := consts hx
  obtain ⟨d0, d2, d4, d6, m2, m4, m6⟩ := consts hy
  unfold ocC
  simp only [List.mem_cons, List.cons.injEq, and_true, List.not_mem_nil, or_false, emod_bridge,
    Int.reduceSub, Int.reduceNeg]
  generalize (bx - ax) % (8 * (Lx : Int)) = ex at *
  generalize (by' - ay) % (8 * (Ly : Int)) = ey at *
  omega

end

end Panqec.Color488Code
