/-
RhombicToricCode lattice model, rank clause for every even size `≥ 2`: the probes and ranks of
`Proofs/LatRhombicToricCodeRank3.lean` form a triangular family (`Lat2D.TriangularProbes`) on the
selected generators, which are therefore independent.
-/
import PanqecVerif.Proofs.LatRhombicToricCodeRank4
open Panqec Panqec.Lat3Db Panqec.Rhombic
open Panqec.XCubeCode (up dn up_spec dn_spec)
namespace Panqec.RhombicToricCode

/-- the rank key of the row of a cube: the rows `y = 1` and `y = 3` count as one -/
def yk (y : Int) : Int := if y ≤ 3 then 0 else y

/-- the comparison of the ranks of two cubes in arithmetic form -/
theorem cube_mu_lex {Lx Ly Lz : Nat} {x y z u v w : Int} (hx : 0 ≤ x ∧ x < 2*(Lx:Int))
    (hy : 0 ≤ y ∧ y < 2*(Ly:Int)) (hz : 0 ≤ z) (hu : 0 ≤ u ∧ u < 2*(Lx:Int)) (hv : 0 ≤ v ∧ v < 2*(Ly:Int))
    (hw : 0 ≤ w) (hle : mu Lx Ly Lz [x, y, z] ≤ mu Lx Ly Lz [u, v, w]) :
    z < w ∨ (z = w ∧ (yk y < yk v ∨ (yk y = yk v ∧ x ≤ u))) := by
  simp only [mu] at hle
  unfold yk
  by_cases h1 : y ≤ 3
  · by_cases h2 : v ≤ 3
    · simp only [h1, h2, if_true] at hle
      rw [if_pos h1, if_pos h2]
      have := lex_mu3 (Z := z.toNat) (Z' := w.toNat) (Y := 0) (Y' := 0) (X := x.toNat) (X' := u.toNat)
        (My := 2*Ly+1) (Mx := 2*Lx+1) (by omega) (by omega) (by omega) (by omega) hle
      clear hle; omega
    · simp only [h1, h2, if_true, if_false] at hle
      rw [if_pos h1, if_neg h2]
      have := lex_mu3 (Z := z.toNat) (Z' := w.toNat) (Y := 0) (Y' := v.toNat) (X := x.toNat) (X' := u.toNat)
        (My := 2*Ly+1) (Mx := 2*Lx+1) (by omega) (by omega) (by omega) (by omega) hle
      clear hle; omega
  · by_cases h2 : v ≤ 3
    · simp only [h1, h2, if_true, if_false] at hle
      rw [if_neg h1, if_pos h2]
      have := lex_mu3 (Z := z.toNat) (Z' := w.toNat) (Y := y.toNat) (Y' := 0) (X := x.toNat) (X' := u.toNat)
        (My := 2*Ly+1) (Mx := 2*Lx+1) (by omega) (by omega) (by omega) (by omega) hle
      clear hle; omega
    · simp only [h1, h2, if_false] at hle
      rw [if_neg h1, if_neg h2]
      have := lex_mu3 (Z := z.toNat) (Z' := w.toNat) (Y := y.toNat) (Y' := v.toNat) (X := x.toNat)
        (X' := u.toNat) (My := 2*Ly+1) (Mx := 2*Lx+1) (by omega) (by omega) (by omega) (by omega) hle
      clear hle; omega

theorem yk_spec (y : Int) : (y ≤ 3 ∧ yk y = 0) ∨ (3 < y ∧ yk y = y) := by
  unfold yk; split <;> omega

/-- no coloured cube of rank `≥` contains the probe of another selected cube -/
theorem later_cube_cube {Lx Ly Lz : Nat} (_hLx : 2 ≤ Lx) (_hLy : 2 ≤ Ly) (hex : Lx % 2 = 0)
    (hey : Ly % 2 = 0) {x y z u v w : Int} (hs : CK Lx Ly Lz x y z) (ht : CK Lx Ly Lz u v w)
    (hne : ¬ (x = u ∧ y = v ∧ z = w)) (hle : mu Lx Ly Lz [x, y, z] ≤ mu Lx Ly Lz [u, v, w])
    (hmem : (probe Lx Ly Lz [x, y, z]).1 ∈ cubeKeys Lx Ly Lz u v w) : False := by
  obtain ⟨⟨hx, hy, hz, hp⟩, hx3⟩ := hs
  obtain ⟨⟨hu, hv, hw, hp'⟩, hu3⟩ := ht
  unfold R1 at hx hy hz hu hv hw
  have hlex := cube_mu_lex (by omega) (by omega) (by omega) (by omega) (by omega) (by omega) hle
  clear hle
  have ky := yk_spec y
  have kv := yk_spec v
  generalize yk y = yy at *
  generalize yk v = vv at *
  have ux := up_spec (2*Lx) u
  have uy := up_spec (2*Ly) v
  have uz := up_spec (2*Lz) w
  simp only [probe] at hmem
  unfold cubeKeys at hmem
  split at hmem
  · have hm := (List.mem_filter.mp hmem).1
    rw [mem_cubeLocs] at hm
    unfold A at hm
    clear hmem ky kv hx3 hu3 ux
    rcases hm with hm | hm | hm
    · omega
    · omega
    · omega
  · split at hmem
    · have hm := (List.mem_filter.mp hmem).1
      rw [mem_cubeLocs] at hm
      unfold A at hm
      clear hmem hx3 hu3 uz
      rcases hm with hm | hm | hm
      · omega
      · omega
      · omega
    · split at hmem
      · have hm := (List.mem_filter.mp hmem).1
        rw [mem_cubeLocs] at hm
        unfold A at hm
        clear hmem uz hlex ky kv
        rcases hm with hm | hm | hm
        · omega
        · omega
        · omega
      · have hm := (List.mem_filter.mp hmem).1
        rw [mem_cubeLocs] at hm
        unfold A at hm
        clear hmem uz
        rcases hm with hm | hm | hm
        · omega
        · omega
        · omega

/-- no selected triangle of rank `≥` contains the probe of another selected triangle -/
theorem later_tri_tri {Lx Ly Lz : Nat} (hLx : 2 ≤ Lx) (hLz : 2 ≤ Lz) (hex : Lx % 2 = 0)
    (hez : Lz % 2 = 0) {a x y z b u v w : Int} (hs : TK Lx Ly Lz a x y z) (ht : TK Lx Ly Lz b u v w)
    (hne : ¬ (a = b ∧ x = u ∧ y = v ∧ z = w))
    (hle : mu Lx Ly Lz [a, x, y, z] ≤ mu Lx Ly Lz [b, u, v, w])
    (hmem : (probe Lx Ly Lz [a, x, y, z]).1 ∈ triKeys Lx Ly Lz b u v w) : False := by
  simp only [probe] at hmem
  have hc := hs.2.2.2
  have hr := hs.1
  unfold R0 at hr
  rcases hc with ⟨h0, h1, hc⟩ | ⟨h0, hc⟩ | ⟨h0, hc⟩
  · have e1 : ¬ x = 2*(Lx:Int)-2 := by omega
    have e2 : ¬ x = 0 := by omega
    rw [if_neg e1, if_neg e2] at hmem
    rcases hc with rfl | rfl | ⟨rfl, hp⟩
    · have n1 : ¬ ((2 : Int) = 1) := by decide
      simp only [n1, if_false, if_true] at hmem
      exact later_mid2 hs ht hne hle h0 h1 hmem
    · have n1 : ¬ ((3 : Int) = 1) := by decide
      have n2 : ¬ ((3 : Int) = 2) := by decide
      simp only [n1, n2, if_false] at hmem
      exact later_mid3 hs ht hne hle h0 h1 hmem
    · simp only [if_true] at hmem
      exact later_mid1 hs ht hne h0 h1 hp hez hmem
  · rw [if_pos h0] at hmem
    rcases hc with rfl | rfl | ⟨rfl, hyz⟩
    · simp only [if_true] at hmem
      exact later_last2 hLx hs ht hne hle h0 hmem
    · have n2 : ¬ ((3 : Int) = 2) := by decide
      simp only [n2, if_false, if_true] at hmem
      split at hmem
      · rename_i hh
        exact later_last3z hLx hex hs ht hne hle h0 hh.1 hh.2 hmem
      · rename_i hh
        exact later_last3x hLx hs ht hne hle h0 hh hmem
    · have n2 : ¬ ((1 : Int) = 2) := by decide
      have n3 : ¬ ((1 : Int) = 3) := by decide
      simp only [n2, n3, if_false] at hmem
      have hy := hs.2.1
      have hz := hs.2.2.1
      unfold R0 at hy hz
      split at hmem
      · rename_i hh
        exact later_last1y hLx hs ht hne hle h0 hh hmem
      · rename_i hh
        have hy0 : y = 0 := by omega
        split at hmem
        · rename_i hp
          exact later_last1x hLx hs ht hne hle h0 hy0 hp hmem
        · rename_i hp
          exact later_last1z hLx hs ht hne hle h0 hy0 (by omega) (by omega) hmem
  · have e1 : ¬ x = 2*(Lx:Int)-2 := by omega
    rw [if_neg e1, if_pos h0] at hmem
    rcases hc with hc | hc | ⟨hz2, hc⟩ | ⟨hzt, hyt, hc⟩
    · rw [if_pos (Or.inl hc)] at hmem
      exact later_first_y hLx hs ht hne hle h0 (Or.inl hc) hmem
    · rw [if_pos (Or.inr hc)] at hmem
      exact later_first_y hLx hs ht hne hle h0 (Or.inr hc) hmem
    · have c1 : ¬ ((a = 1 ∧ (x + y + z) % 4 = 0) ∨ (a = 2 ∧ (x + y + z) % 4 = 2)) := by omega
      have c2 : ¬ (a = 3 ∨ a = 0) := by omega
      rw [if_neg c1, if_neg c2] at hmem
      exact later_first_z hLx hs ht hne hle h0 hz2 hc hmem
    · have c1 : ¬ ((a = 1 ∧ (x + y + z) % 4 = 0) ∨ (a = 2 ∧ (x + y + z) % 4 = 2)) := by omega
      have c2 : (a = 3 ∨ a = 0) := by omega
      rw [if_neg c1, if_pos c2] at hmem
      exact later_first_t hLx hLz hs ht hne hle h0 hzt hc hmem

/-- a selected generator other than `s` whose letter anticommutes with the probe of `s` and whose
    rank is not smaller does not reach the witness qubit of `s` -/
theorem later_core {Lx Ly Lz : Nat} (hLx : 2 ≤ Lx) (hLy : 2 ≤ Ly) (hLz : 2 ≤ Lz) (hex : Lx % 2 = 0)
    (hey : Ly % 2 = 0) (hez : Lz % 2 = 0) {s t : Coord} (hs : Kind Lx Ly Lz s)
    (ht : Kind Lx Ly Lz t) (hne : s ≠ t) (hle : mu Lx Ly Lz s ≤ mu Lx Ly Lz t) :
    ¬ (Pauli.anti (probe Lx Ly Lz s).2 (letterOf t) = true ∧
      (probe Lx Ly Lz s).1 ∈ keysOf Lx Ly Lz t) := by
  rintro ⟨hanti, hmem⟩
  rcases hs with ⟨x, y, z, rfl, hs⟩ | ⟨a, x, y, z, rfl, hs⟩ <;>
  rcases ht with ⟨u, v, w, rfl, ht⟩ | ⟨b, u, v, w, rfl, ht⟩
  · have hne' : ¬ (x = u ∧ y = v ∧ z = w) := by
      rintro ⟨rfl, rfl, rfl⟩; exact hne rfl
    exact later_cube_cube hLx hLy hex hey hs ht hne' hle hmem
  · rw [probe_snd3] at hanti; simp [letterOf, Pauli.anti] at hanti
  · rw [probe_snd4] at hanti; simp [letterOf, Pauli.anti] at hanti
  · have hne' : ¬ (a = b ∧ x = u ∧ y = v ∧ z = w) := by
      rintro ⟨rfl, rfl, rfl, rfl⟩; exact hne rfl
    exact later_tri_tri hLx hLz hex hez hs ht hne' hle hmem

theorem opAntiCount_single (q : Coord) (P Q : Pauli) (B : List Coord) :
    opAntiCount [(q, P)] (constOp B Q) = if Pauli.anti P Q = true ∧ q ∈ B then 1 else 0 :=
  Lat2D.opAntiCount_probe q P Q B

theorem triangular (Lx Ly Lz : Nat) (hLx : 2 ≤ Lx) (hLy : 2 ≤ Ly) (hLz : 2 ≤ Lz) (hex : Lx % 2 = 0)
    (hey : Ly % 2 = 0) (hez : Lz % 2 = 0) :
    Lat2D.TriangularProbes (lattice Lx Ly Lz) (selStabs Lx Ly Lz) (probe Lx Ly Lz) (mu Lx Ly Lz) where
  on_qubits := by
    intro s hs
    have hk : Kind Lx Ly Lz s := mem_selStabs_cases hLx hLy hLz hs
    have hd := probe_diag hLx hLy hLz hex hk
    exact ⟨keysOf_qubits hk _ hd.2.2, hd.2.1⟩
  diag := by
    intro s hs
    have hk : Kind Lx Ly Lz s := mem_selStabs_cases hLx hLy hLz hs
    have hd := probe_diag hLx hLy hLz hex hk
    change opAntiCount [((probe Lx Ly Lz s).1, (probe Lx Ly Lz s).2)] (getStab Lx Ly Lz s) % 2 = 1
    rw [getStab_eq hLx hLy hLz hk, opAntiCount_single, if_pos ⟨hd.1, hd.2.2⟩]
  later := by
    intro s hs t ht hne hle
    have hks : Kind Lx Ly Lz s := mem_selStabs_cases hLx hLy hLz hs
    have hkt : Kind Lx Ly Lz t := mem_selStabs_cases hLx hLy hLz ht
    change opAntiCount [((probe Lx Ly Lz s).1, (probe Lx Ly Lz s).2)] (getStab Lx Ly Lz t) % 2 = 0
    rw [getStab_eq hLx hLy hLz hkt, opAntiCount_single,
      if_neg (later_core hLx hLy hLz hex hey hez hks hkt hne hle)]

/-- the selected generators are independent, every even size `≥ 2` -/
theorem indep_sel (Lx Ly Lz : Nat) (hLx : 2 ≤ Lx) (hLy : 2 ≤ Ly) (hLz : 2 ≤ Lz) (hex : Lx % 2 = 0)
    (hey : Ly % 2 = 0) (hez : Lz % 2 = 0) :
    Lat2D.IndepGenerators (lattice Lx Ly Lz) (selStabs Lx Ly Lz) :=
  Lat2D.indep_of_triangular (triangular Lx Ly Lz hLx hLy hLz hex hey hez)

end Panqec.RhombicToricCode
