/-
List-level statement of "valid [[n,k]] stabilizer code" (the four clauses of C01)
and of GF(2) span / independence / rank, on the same `List Nat` BSF vectors the
executable model uses.  Definitions only (core Lean); the theorems about them are in
`Proofs/Mask.lean` (soundness of the executable checker) and `Proofs/Symplectic.lean`
(linear algebra over `ZMod 2`).
-/
import PanqecVerif.Model.Bits
import PanqecVerif.Model.Code

namespace Panqec

/-- the zero vector of length `m` -/
def vzero (m : Nat) : List Nat := List.replicate m 0

/-- xor of the rows selected by `sel` (rows beyond `sel` are not selected);
    `m` is the common length of the rows. -/
def xorCombo (m : Nat) : List Bool → List (List Nat) → List Nat
  | s :: sel, r :: rows => if s then vxor r (xorCombo m sel rows) else xorCombo m sel rows
  | _, _ => vzero m

/-- `v` is a GF(2) combination of `rows` (all of length `m`) -/
def InSpan (m : Nat) (rows : List (List Nat)) (v : List Nat) : Prop :=
  ∃ sel : List Bool, sel.length = rows.length ∧ xorCombo m sel rows = v

/-- no non-trivial GF(2) combination of `rows` vanishes -/
def Indep (m : Nat) (rows : List (List Nat)) : Prop :=
  ∀ sel : List Bool, sel.length = rows.length → xorCombo m sel rows = vzero m →
    ∀ s ∈ sel, s = false

/-- `rows` has GF(2) rank `r`: some `r` of the rows are independent and span all rows -/
def HasRank (m : Nat) (rows : List (List Nat)) (r : Nat) : Prop :=
  ∃ basis : List (List Nat), basis.Sublist rows ∧ basis.length = r ∧ Indep m basis ∧
    ∀ v ∈ rows, InSpan m basis v

/-- a well-formed stack of binary BSF vectors on `n` qubits -/
def WFRows (n : Nat) (rows : List (List Nat)) : Prop :=
  ∀ r ∈ rows, r.length = 2 * n ∧ ∀ x ∈ r, x < 2

/-- The clauses of C01 for parity-check matrix `H` and logical operators `Lx`, `Lz`
    (as the rows `stabilizer_matrix`, `logicals_x`, `logicals_z` hold them). -/
structure ValidCodeL (n k : Nat) (H Lx Lz : List (List Nat)) : Prop where
  wfH : WFRows n H
  wfX : WFRows n Lx
  wfZ : WFRows n Lz
  kX : Lx.length = k
  kZ : Lz.length = k
  /-- stabilizer generators pairwise commute -/
  stab_comm : ∀ a ∈ H, ∀ b ∈ H, symp a b = 0
  /-- every logical commutes with every stabilizer -/
  logX_comm : ∀ l ∈ Lx, ∀ g ∈ H, symp l g = 0
  logZ_comm : ∀ l ∈ Lz, ∀ g ∈ H, symp l g = 0
  /-- X_i and Z_j anticommute exactly when i = j -/
  pairing : ∀ i j, i < k → j < k →
    symp (Lx.getD i []) (Lz.getD j []) = if i = j then 1 else 0
  logXX : ∀ a ∈ Lx, ∀ b ∈ Lx, symp a b = 0
  logZZ : ∀ a ∈ Lz, ∀ b ∈ Lz, symp a b = 0
  /-- the generators have GF(2) rank n - k -/
  rank : HasRank (2 * n) H (n - k)
  k_le : k ≤ n

/-- Pauli weight of a binary BSF vector = `rowWeight` -/
abbrev pauliWeight (v : List Nat) : Nat := rowWeight v

/-- `v` commutes with every generator but is not a product of generators:
    a non-trivial logical operator. -/
def IsNontrivialLogical (n : Nat) (H : List (List Nat)) (v : List Nat) : Prop :=
  v.length = 2 * n ∧ (∀ x ∈ v, x < 2) ∧ (∀ g ∈ H, symp g v = 0) ∧ ¬ InSpan (2 * n) H v

/-- `d` is the code distance: minimum weight of a non-trivial logical operator -/
def IsDistance (n : Nat) (H : List (List Nat)) (d : Nat) : Prop :=
  (∃ v, IsNontrivialLogical n H v ∧ pauliWeight v = d) ∧
  ∀ v, IsNontrivialLogical n H v → d ≤ pauliWeight v

end Panqec
