/-
Color3DCode, even sides `≥ 2`: the strings of `get_logicals_x` in BLOCK FORM — `L/2` translates by
multiples of 8 of one base block — and the number of keys of a string on a key list given in normal
form: the first block is evaluated literally, all later blocks evaluate alike (a thick coordinate
only sees the residue modulo 8, a thin one is far from its plane).  Core Lean only.
-/
import PanqecVerif.Proofs.LatColor3DCodeJ

set_option linter.unusedVariables false

namespace Panqec.Color3DCode
open Panqec.Lat2D Panqec.Color

/-- translate along the axis `ax` -/
def shiftAx (ax : Nat) (s : Int) (q : D3) : D3 :=
  if ax = 0 then (q.1 + s, q.2.1, q.2.2)
  else if ax = 1 then (q.1, q.2.1 + s, q.2.2)
  else (q.1, q.2.1, q.2.2 + s)

def toC (q : D3) : Coord := [q.1, q.2.1, q.2.2]

/-- `M` translates of the base block `b0` by `0, 8, 16, …` along the axis `ax` -/
def blockKeys (ax : Nat) (b0 : List D3) (M : Nat) : List Coord :=
  (List.range M).flatMap fun (k : Nat) => b0.map fun q => toC (shiftAx ax (8 * (k : Int)) q)

/-! ### strings in block form -/

theorem flatMap_congr' {α β} {l : List α} {f g : α → List β} (h : ∀ a ∈ l, f a = g a) :
    l.flatMap f = l.flatMap g := by
  induction l with
  | nil => rfl
  | cons a l ih =>
    rw [List.flatMap_cons, List.flatMap_cons, h a (List.mem_cons_self ..),
      ih (fun b hb => h b (List.mem_cons_of_mem _ hb))]

theorem flatMap_range' {β} (g : Nat → List β) (step : Nat) : ∀ (n s : Nat),
    (List.range' s n step).flatMap g = (List.range n).flatMap (fun k => g (s + step * k))
  | 0, s => rfl
  | n + 1, s => by
    rw [List.range'_succ, List.flatMap_cons, List.range_succ_eq_map, List.flatMap_cons,
      List.flatMap_map, flatMap_range' g step n (s + step)]
    simp only [Nat.mul_zero, Nat.add_zero, Nat.succ_eq_add_one]
    congr 1
    apply flatMap_congr'
    intro k _
    congr 1
    rw [Nat.mul_add, Nat.mul_one]; omega

theorem pyRangeStep_flatMap {β} (a : Nat) (b : Int) (step n : Nat) (g : Int → List β)
    (hn : ((b - (a : Int)).toNat + step - 1) / step = n) :
    (pyRangeStep a b step).flatMap g = (List.range n).flatMap (fun k => g ((a + step * k : Nat) : Int)) := by
  unfold pyRangeStep
  rw [hn, List.flatMap_map, flatMap_range']
  rfl

theorem stringA_blocks (mk : Int → Int → Coord) (M : Nat) :
    stringA mk (2 * M) = (List.range M).flatMap fun (k : Nat) =>
      [mk (8 * (k : Int)) 1, mk (8 * (k : Int) + 1) 0, mk (8 * (k : Int) + 3) 0, mk (8 * (k : Int) + 4) 1] := by
  unfold stringA
  rw [pyRangeStep_flatMap 2 _ 8 M _ (by omega)]
  apply flatMap_congr'
  intro k _
  have e : ((2 + 8 * k : Nat) : Int) = 8 * (k : Int) + 2 := by omega
  rw [e, show 8 * (k : Int) + 2 - 2 = 8 * (k : Int) by omega,
    show 8 * (k : Int) + 2 - 1 = 8 * (k : Int) + 1 by omega,
    show 8 * (k : Int) + 2 + 1 = 8 * (k : Int) + 3 by omega,
    show 8 * (k : Int) + 2 + 2 = 8 * (k : Int) + 4 by omega]

theorem stringB_blocks (mk : Int → Int → Coord) (M : Nat) :
    stringB mk (2 * M) = (List.range M).flatMap fun (k : Nat) =>
      [mk (8 * (k : Int) + 2) 1, mk (8 * (k : Int) + 3) 2, mk (8 * (k : Int) + 5) 2, mk (8 * (k : Int) + 6) 1] := by
  unfold stringB
  rw [pyRangeStep_flatMap 4 _ 8 M _ (by omega)]
  apply flatMap_congr'
  intro k _
  have e : ((4 + 8 * k : Nat) : Int) = 8 * (k : Int) + 4 := by omega
  rw [e, show 8 * (k : Int) + 4 - 2 = 8 * (k : Int) + 2 by omega,
    show 8 * (k : Int) + 4 - 1 = 8 * (k : Int) + 3 by omega,
    show 8 * (k : Int) + 4 + 1 = 8 * (k : Int) + 5 by omega,
    show 8 * (k : Int) + 4 + 2 = 8 * (k : Int) + 6 by omega]

theorem range'_blocks4 : ∀ (M s : Nat),
    List.range' s (4 * M) 2 = (List.range M).flatMap fun (k : Nat) => [s + 8 * k, s + 8 * k + 2, s + 8 * k + 4, s + 8 * k + 6]
  | 0, s => rfl
  | M + 1, s => by
    rw [show 4 * (M + 1) = 4 + 4 * M by omega, ← List.range'_append, range'_blocks4 M (s + 2 * 4),
      List.range_succ_eq_map, List.flatMap_cons, List.flatMap_map]
    simp only [List.range'_succ, List.range'_zero, Nat.mul_zero, Nat.add_zero, Nat.succ_eq_add_one,
      List.cons_append, List.nil_append]
    congr 4
    apply flatMap_congr'
    intro k _
    simp only [List.cons.injEq, and_true]
    omega

theorem stringC_blocks (mk : Int → Coord) (M : Nat) :
    stringC mk (2 * M) = (List.range M).flatMap fun (k : Nat) =>
      [mk (8 * (k : Int) + 1), mk (8 * (k : Int) + 3), mk (8 * (k : Int) + 5), mk (8 * (k : Int) + 7)] := by
  unfold stringC pyRangeStep
  have hn : (((4 * ((2 * M : Nat) : Int) - ((1 : Nat) : Int)).toNat + 2 - 1) / 2) = 4 * M := by omega
  rw [hn, range'_blocks4, List.map_map, List.map_flatMap]
  apply flatMap_congr'
  intro k _
  simp only [List.map_cons, List.map_nil, Function.comp, Int.ofNat_eq_natCast]
  have e1 : ((1 + 8 * k : Nat) : Int) = 8 * (k : Int) + 1 := by omega
  have e2 : ((1 + 8 * k + 2 : Nat) : Int) = 8 * (k : Int) + 3 := by omega
  have e3 : ((1 + 8 * k + 4 : Nat) : Int) = 8 * (k : Int) + 5 := by omega
  have e4 : ((1 + 8 * k + 6 : Nat) : Int) = 8 * (k : Int) + 7 := by omega
  rw [e1, e2, e3, e4]

/-- base blocks -/
def bA (f : Int → Int → D3) : List D3 := [f 0 1, f 1 0, f 3 0, f 4 1]
def bB (f : Int → Int → D3) : List D3 := [f 2 1, f 3 2, f 5 2, f 6 1]
def bC (f : Int → D3) : List D3 := [f 1, f 3, f 5, f 7]

def b1 : List D3 := bA fun x w => (x, 6, w)
def b2 : List D3 := bB fun x w => (x, 0, w)
def b3 : List D3 := bC fun x => (x, 2, 0)
def b4 : List D3 := bA fun y w => (6, y, w)
def b5 : List D3 := bB fun y w => (0, y, w)
def b6 : List D3 := bC fun y => (2, y, 0)
def b7 : List D3 := bA fun z w => (6, w, z)
def b8 : List D3 := bB fun z w => (0, w, z)
def b9 : List D3 := bC fun z => (2, 0, z)

section
variable (Mx My Mz : Nat)

theorem kX1_blocks : kX1 (2 * Mx) (2 * My) (2 * Mz) = blockKeys 0 b1 Mx := by
  unfold kX1 blockKeys; rw [stringA_blocks]
  apply flatMap_congr'; intro k _
  simp [b1, bA, shiftAx, toC, Int.add_comm]
theorem kX2_blocks : kX2 (2 * Mx) (2 * My) (2 * Mz) = blockKeys 0 b2 Mx := by
  unfold kX2 blockKeys; rw [stringB_blocks]
  apply flatMap_congr'; intro k _
  simp [b2, bB, shiftAx, toC, Int.add_comm]
theorem kX3_blocks : kX3 (2 * Mx) (2 * My) (2 * Mz) = blockKeys 0 b3 Mx := by
  unfold kX3 blockKeys; rw [stringC_blocks]
  apply flatMap_congr'; intro k _
  simp [b3, bC, shiftAx, toC, Int.add_comm]
theorem kX4_blocks : kX4 (2 * Mx) (2 * My) (2 * Mz) = blockKeys 1 b4 My := by
  unfold kX4 blockKeys; rw [stringA_blocks]
  apply flatMap_congr'; intro k _
  simp [b4, bA, shiftAx, toC, Int.add_comm]
theorem kX5_blocks : kX5 (2 * Mx) (2 * My) (2 * Mz) = blockKeys 1 b5 My := by
  unfold kX5 blockKeys; rw [stringB_blocks]
  apply flatMap_congr'; intro k _
  simp [b5, bB, shiftAx, toC, Int.add_comm]
theorem kX6_blocks : kX6 (2 * Mx) (2 * My) (2 * Mz) = blockKeys 1 b6 My := by
  unfold kX6 blockKeys; rw [stringC_blocks]
  apply flatMap_congr'; intro k _
  simp [b6, bC, shiftAx, toC, Int.add_comm]
theorem kX7_blocks : kX7 (2 * Mx) (2 * My) (2 * Mz) = blockKeys 2 b7 Mz := by
  unfold kX7 blockKeys; rw [stringA_blocks]
  apply flatMap_congr'; intro k _
  simp [b7, bA, shiftAx, toC, Int.add_comm]
theorem kX8_blocks : kX8 (2 * Mx) (2 * My) (2 * Mz) = blockKeys 2 b8 Mz := by
  unfold kX8 blockKeys; rw [stringB_blocks]
  apply flatMap_congr'; intro k _
  simp [b8, bB, shiftAx, toC, Int.add_comm]
theorem kX9_blocks : kX9 (2 * Mx) (2 * My) (2 * Mz) = blockKeys 2 b9 Mz := by
  unfold kX9 blockKeys; rw [stringC_blocks]
  apply flatMap_congr'; intro k _
  simp [b9, bC, shiftAx, toC, Int.add_comm]

end

end Panqec.Color3DCode
